import SnowProofs.RealInst
