/-
  snowdrv — model driver.  One JSON request per input line, one JSON response
  per output line: `{"op": "<name>", …}` ↦ `{…}` | `{"error": "<msg>"}`.
-/
import SnowModel.Ops.OpCond
import SnowModel.Ops.Simpson
import SnowModel.Ops.Topology
import SnowModel.Ops.Seeds
import SnowModel.Ops.SnowingObj
import SnowModel.Ops.Frames
import SnowModel.Ops.FlakeStats
import SnowModel.Ops.Flake
import SnowModel.Ops.Gen
import SnowModel.Ops.Snowing
import SnowModel.Ops.Snowing2D

open Lean Snow

def allOps : List (String × Op) :=
  Snow.Ops.opCondOps
  ++ Snow.Ops.simpsonOps
  ++ Snow.Ops.topologyOps
  ++ Snow.Ops.seedsOps
  ++ Snow.Ops.snowingObjOps
  ++ Snow.Ops.framesOps
  ++ Snow.Ops.flakeStatsOps
  ++ Snow.Ops.flakeOps
  ++ Snow.Ops.genOps
  ++ Snow.Ops.snowingOps
  ++ Snow.Ops.snowing2DOps

def handle (line : String) : String :=
  match Json.parse line with
  | .error e => (Json.mkObj [("error", Json.str s!"parse: {e}")]).compress
  | .ok j =>
    match j.getObjVal? "op" >>= (·.getStr?) with
    | .error _ => (Json.mkObj [("error", Json.str "no op")]).compress
    | .ok name =>
      match allOps.lookup name with
      | none => (Json.mkObj [("error", Json.str s!"unknown op {name}")]).compress
      | some f =>
        match f j with
        | .ok r => r.compress
        | .error e => (Json.mkObj [("error", Json.str e)]).compress

partial def loop (hin : IO.FS.Stream) (hout : IO.FS.Stream) : IO Unit := do
  let line ← hin.getLine
  if line.isEmpty then return ()
  let t := line.trimAscii.toString
  if t.isEmpty then
    loop hin hout
  else
    hout.putStrLn (handle t)
    hout.flush
    loop hin hout

def main : IO Unit := do
  loop (← IO.getStdin) (← IO.getStdout)
