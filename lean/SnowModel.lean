import SnowModel.Num
import SnowModel.Wire
import SnowModel.OpCond
import SnowModel.Ops.OpCond
import SnowModel.Simpson
import SnowModel.Ops.Simpson
import SnowModel.Flake
import SnowModel.Ops.Flake
