import SnowModel.Num
import SnowModel.Wire
import SnowModel.OpCond
import SnowModel.Ops.OpCond
