/-
  Trigger step of controlled nucleation in `Snowflake.run()`:

      t = np.arange(0, N_timeSteps * dt, dt)
      if np.any(t >= self.opcond.cnt): k_CN = np.argmax(t >= self.opcond.cnt)
      else:                            k_CN = N_timeSteps + 1

  `opcond.cnt` is `np.inf` when `cnTemp is None` (modelled as `none`) and otherwise an
  integer number of seconds (an entry of `np.arange(0, len(tempProfile(1)))`).
  `t[k] = k * dt` (numpy fills `arange` as `start + k*step`); in exact arithmetic `t` has
  `N_timeSteps` entries.
-/
import SnowModel.OpCond

namespace Snow
open Num

section
variable {α : Type} [Num α]

/-- `k_CN`: first step `k < N` with `k·dt ≥ cnt`, else `N + 1` (a value the loop index
never takes, so controlled nucleation never fires). -/
def kCNOf (N : Nat) (dt : α) (cnt : Option Nat) : Nat :=
  match cnt with
  | none => N + 1
  | some c =>
    match (List.range N).find? (fun k => decide ((ofNat' c : α) ≤ ofNat' k * dt)) with
    | some k => k
    | none => N + 1

/-- `OperatingConditions.cnt` with the `cnTemp is None` branch (`np.inf`). -/
def cntOpt (oc : OpCond α) (cnTemp : Option α) : Option Nat :=
  cnTemp.map fun cn => cntOf (profile oc (one : α)) cn

end
end Snow
