/-
  Statistics re-derived from the stored states of a `Snowflake`
  (`snowflake.py`: `_sigmaCrossingIndices`, `nucleationTimes`, `nucleationTemperatures`,
  `solidificationTimes`, `sigmaCounter`).

  Inputs of the model are the objects the accessors read:
    * `Xs`, `XT` : rows of `X_sigma` / `X_T` (one row per *stored* vial, one entry per step),
    * `t`        : the time vector `_t`,
    * `mask`     : `_storageMask` (one Boolean per vial),
    * `stats`    : `t_nucleation`, `T_nucleation`, `t_solidification` (one entry per vial),
    * `grp`      : the mask returned by `getVialGroup(group)` (taken as given; C16 is about it).
  `NaN` is `none`.
-/
import SnowModel.OpCond

namespace Snow.FlakeStats
open Snow Num

section
variable {α : Type} [Num α]

/-- `np.argmax(row > thr)`: first column with `σ > thr`, `0` if there is none -/
def crossIdx (thr : α) (row : List α) : Nat :=
  argmaxBool (fun x => decide (thr < x)) row

/-- `~np.any(row > thr)` -/
def never (thr : α) (row : List α) : Bool :=
  !(row.any fun x => decide (thr < x))

/-- `_sigmaCrossingIndices(threshold)`: `(Indices, neverReached)` -/
def sigmaCrossing (thr : α) (Xs : List (List α)) : List Nat × List Bool :=
  (Xs.map (crossIdx thr), Xs.map (never thr))

/-- `row[I - 1]` with numpy's index wrap: `I = 0` reads the LAST entry -/
def getWrapPrev (row : List α) (I : Nat) : Option α :=
  if I = 0 then row.getLast? else row[I - 1]?

/-- `out = np.full(n, nan); out[mask] = vals` -/
def scatter : List Bool → List (Option α) → List (Option α)
  | [], _ => []
  | true :: m, v :: vs => v :: scatter m vs
  | true :: m, [] => none :: scatter m []
  | false :: m, vs => none :: scatter m vs

/-- `arr[I_groups]` for a Boolean mask -/
def select {β : Type} (grp : List Bool) (xs : List β) : List β :=
  (xs.zip grp).filterMap fun p => if p.2 then some p.1 else none

/-- time at which `σ` first exceeds `thr`, per stored vial (`NaN` if never) -/
def crossTimes (thr : α) (t : List α) (Xs : List (List α)) : List (Option α) :=
  Xs.map fun row => if never thr row then none else t[crossIdx thr row]?

/-- `nucleationTimes(fromStates=True)` before group selection -/
def tNucStates (mask : List Bool) (t : List α) (Xs : List (List α)) : List (Option α) :=
  scatter mask (crossTimes zero t Xs)

/-- `nucleationTemperatures(fromStates=True)` before group selection:
`X_T[i, I_nucleation[i] - 1]` -/
def TNucStates (mask : List Bool) (XT Xs : List (List α)) : List (Option α) :=
  scatter mask ((XT.zip Xs).map fun p =>
    if never zero p.2 then none else getWrapPrev p.1 (crossIdx zero p.2))

def optSub : Option α → Option α → Option α
  | some a, some b => some (a - b)
  | _, _ => none

/-- `solidificationTimes(threshold, fromStates=True)` before group selection -/
def tSolStates (thr : α) (mask : List Bool) (t : List α) (Xs : List (List α)) : List (Option α) :=
  List.zipWith optSub (scatter mask (crossTimes thr t Xs)) (tNucStates mask t Xs)

def nucleationTimes (fromStates : Bool) (mask : List Bool) (t : List α) (Xs : List (List α))
    (statTnuc : List (Option α)) (grp : List Bool) : List (Option α) :=
  select grp (if fromStates then tNucStates mask t Xs else statTnuc)

def nucleationTemperatures (fromStates : Bool) (mask : List Bool) (XT Xs : List (List α))
    (statTemp : List (Option α)) (grp : List Bool) : List (Option α) :=
  select grp (if fromStates then TNucStates mask XT Xs else statTemp)

/-- `solidificationTimes(group, threshold, fromStates)`; `thr = none` is `threshold=None` -/
def solidificationTimes (fromStates : Bool) (thr : Option α) (solThr : α) (mask : List Bool)
    (t : List α) (Xs : List (List α)) (statTsol : List (Option α)) (grp : List Bool) :
    Except String (List (Option α)) :=
  let th := thr.getD solThr
  if fromStates then .ok (select grp (tSolStates th mask t Xs))
  else if !(eqb th solThr) then .error "ValueError"
  else .ok (select grp statTsol)

/-- `np.sum(arr <= q)` on an array with NaNs -/
def countLe (xs : List (Option α)) (q : α) : Nat :=
  xs.countP fun o => match o with
    | some x => decide (x ≤ q)
    | none => false

/-- column index used by `sigmaCounter(fromStates=True)`: `np.argmax(self._t >= q)` if some stored time
reaches `q`, else the LAST stored column `len(self._t) - 1` -/
def timeIdx (t : List α) (q : α) : Nat :=
  if t.any (fun x => decide (q ≤ x)) then argmaxBool (fun x => decide (q ≤ x)) t
  else t.length - 1

/-- the column index of the code BEFORE the repair 9deb6c8: `np.argmax(self._t >= q)` alone, which is
`0` (the INITIAL column) when no stored time reaches `q` -/
def timeIdxOld (t : List α) (q : α) : Nat := argmaxBool (fun x => decide (q ≤ x)) t

/-- `np.sum(X_sigma[:, I] > thr)` -/
def countAbove (thr : α) (Xs : List (List α)) (I : Nat) : Nat :=
  Xs.countP fun row => match row[I]? with
    | some x => decide (thr < x)
    | none => false

/-- one query time of `sigmaCounter` -/
def sigmaCount1 (th solThr : α) (fromStates : Bool) (t : List α) (Xs : List (List α))
    (statTnuc statTsol : List (Option α)) (q : α) : Except String Nat :=
  if fromStates then .ok (countAbove th Xs (timeIdx t q))
  else if decide (zero < th) && !(eqb th solThr) then .error "ValueError"
  else if decide (zero < th) then .ok (countLe statTsol q)
  else if eqb th zero then .ok (countLe statTnuc q)
  else .ok 0

/-- `sigmaCounter(time, threshold, fromStates)`; `ran = false` is `simulationStatus == 0` -/
def sigmaCounter (ran : Bool) (times : List α) (thr : Option α) (solThr : α) (fromStates : Bool)
    (t : List α) (Xs : List (List α)) (statTnuc statTsol : List (Option α)) :
    Except String (List Nat) :=
  if !ran then .error "ValueError"
  else times.mapM (sigmaCount1 (thr.getD solThr) solThr fromStates t Xs statTnuc statTsol)

end
end Snow.FlakeStats
