/-
  Control skeletons shared by the Snowing models (0D, 1D, 2D):

  * `loopUntil`  – `for i, x in enumerate(xs): s = step(i, s, x); if stop(s): break`
                   (the cooling loops: the break is the nucleation event),
  * `iterIdx`    – the same loop without a break (the solidification loops),
  * `firstHit`   – "set once" bookkeeping `if t_sol is None and cond: t_sol = …`,
  * `saveRow`    – a write into one of the pre-allocated `N_save`-row buffers
                   (`IndexError` when the row index is out of range).

  Monomorphic control logic: the same object in the driver and in the theorems.
-/
namespace Snow

universe u v
variable {σ : Type u} {β : Type v}

/-- state after the whole list has been processed, `i` = index of the head -/
def iterIdx (step : Nat → σ → β → σ) : List β → Nat → σ → σ
  | [], _, s => s
  | x :: xs, i, s => iterIdx step xs (i + 1) (step i s x)

/-- `for i, x in enumerate(xs, start=i0): s = step i s x; if stop s: break`.
Returns the index at which the loop was left (`none`: ran to the end) and the
last state. -/
def loopUntil (step : Nat → σ → β → σ) (stop : σ → Bool) : List β → Nat → σ → Option Nat × σ
  | [], _, s => (none, s)
  | x :: xs, i, s =>
    let s' := step i s x
    if stop s' then (some i, s') else loopUntil step stop xs (i + 1) s'

/-- the state after step `k` of the loop *without* break (`k`-th prefix) -/
def stateAt (step : Nat → σ → β → σ) (xs : List β) (s0 : σ) (k : Nat) : σ :=
  iterIdx step (xs.take (k + 1)) 0 s0

/-- `if (t is None) & cond: t = i` -/
@[inline] def firstHit (cur : Option Nat) (cond : Bool) (i : Nat) : Option Nat :=
  match cur with
  | some j => some j
  | none => if cond then some i else none

/-- number of rows of the pre-allocated result buffers (`N_save_cool`, `N_save_solid`) -/
def NSave : Nat := 10000

/-- the save stride `np.ceil(N / N_save)` (as an integer; `N ≥ 1`) -/
def saveStride (N : Nat) : Nat := (N + (NSave - 1)) / NSave

/-- `buf[i_save] = row; i_save += 1` on a buffer with `cap` rows, `i_save = buf.size`;
the flag records an out-of-range write (`IndexError`). -/
@[inline] def saveRow {ρ : Type u} (cap : Nat) (b : Array ρ × Bool) (row : ρ) : Array ρ × Bool :=
  if b.1.size < cap then (b.1.push row, b.2) else (b.1, true)

end Snow
