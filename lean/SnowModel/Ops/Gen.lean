/- Driver operations for `Config.lean`, the GENERATED `Gen/*.lean` and `EvapWindow.lean`. -/
import SnowModel.Config
import SnowModel.GenSupport
import SnowModel.Gen.Derived
import SnowModel.Gen.Evap
import SnowModel.EvapWindow
import SnowModel.Wire

namespace Snow.Ops
open Lean Snow W

section
variable (α : Type) [Num α] [Wire α]

/-- tree wire format: `{"n": num}` | `{"n": num, "s": text}` | `{"s": "str"}` | `{"z": 0}` | `{"d": [[key, tree], …]}` -/
partial def decCfg (j : Json) : Except String (Cfg α) := do
  match optFld j "d" with
  | some v =>
    let a ← v.getArr?
    let es ← a.toList.mapM fun e => do
      let p ← e.getArr?
      if hp : p.size = 2 then
        let k ← p[0].getStr?
        let c ← decCfg p[1]
        return (k, c)
      else throw "entry must be [key, tree]"
    return .node es
  | none =>
    match optFld j "n" with
    | some v =>
      match optFld j "s" with
      | some t => return .leaf (.nstr (← Wire.dec v) (← t.getStr?))
      | none => return .leaf (.num (← Wire.dec v))
    | none =>
      match optFld j "s" with
      | some v => return .leaf (.str (← v.getStr?))
      | none => return .leaf .null

variable {α}

def encVal : Val α → Json
  | .num x => Json.mkObj [("n", Wire.enc x)]
  | .nstr x s => Json.mkObj [("n", Wire.enc x), ("s", Json.str s)]
  | .str s => Json.mkObj [("s", Json.str s)]
  | .null => Json.mkObj [("z", Json.num 0)]

partial def encCfg : Cfg α → Json
  | .leaf v => encVal v
  | .node es => Json.mkObj [("d", Json.arr (es.map fun (k, c) => Json.arr #[Json.str k, encCfg c]).toArray)]

variable (α)

/-- `calculateDerived(path)`: `default` = parsed default YAML, `custom` = parsed custom YAML or null -/
def calcDerived : Op := fun j => do
  let d ← decCfg α (← fld j "default")
  let u ← match optFld j "custom" with
    | none => pure none
    | some v => pure (some (← decCfg α v))
  match Cfg.loadConfig d u with
  | .error e => return Json.mkObj [("raise", Json.str e), ("stage", Json.str "load"),
      ("reported", encStrs (match u with | some c => Cfg.reported d c | none => []))]
  | .ok (cfg, rep) =>
    match Gen.calculateDerived cfg with
    | .error e => return Json.mkObj [("raise", Json.str e), ("stage", Json.str "derive"),
        ("reported", encStrs rep), ("merged", encCfg cfg)]
    | .ok c => return Json.mkObj [
        ("const", Json.arr (c.map fun (k, v) => Json.arr #[Json.str k, encVal v]).toArray),
        ("reported", encStrs rep), ("merged", encCfg cfg),
        ("dispatch", match snowingDispatch ((c.lookup "dimensionality").elim "" fun v =>
            match v with | .str s => s | _ => "") with
          | some n => encNat n | none => Json.null)]

/-- `_getAllKeys` / `_nestedDictUpdate` on their own -/
def cfgOps : Op := fun j => do
  let d ← decCfg α (← fld j "d")
  let u ← decCfg α (← fld j "u")
  return Json.mkObj [
    ("keys_d", encStrs (Cfg.allKeys d)), ("keys_u", encStrs (Cfg.allKeys u)),
    ("clash", Json.bool (Cfg.clash d u)), ("update", encCfg (Cfg.update d u)),
    ("reported", encStrs (Cfg.reported d u))]

def dispatchOp : Op := fun j => do
  let s ← str j "dimensionality"
  return Json.mkObj [("dispatch", match snowingDispatch s with | some n => encNat n | none => Json.null)]

end

/-! Float-only operations (transcendental functions) -/

def evapOp : Op := fun j => do
  let fn ← str j "fn"
  match fn with
  | "liquid" =>
    let xs : List Float ← nums j "T"
    return Json.mkObj [("val", encNums (xs.map Gen.vapour_pressure_liquid))]
  | "solid" =>
    let xs : List Float ← nums j "T"
    return Json.mkObj [("val", encNums (xs.map Gen.vapour_pressure_solid))]
  | "flux" =>
    let rows ← arr j "args"
    let vals ← rows.toList.mapM fun r => do
      let a ← r.getArr?
      let xs : List Float ← a.toList.mapM Wire.dec
      match xs with
      | [kappa, m_water, k_B, p_vac, p_vap, T_l, T_v] =>
        pure (Gen.vapour_flux kappa m_water k_B p_vac p_vap T_l T_v)
      | _ => throw "flux needs 7 arguments (the parameters of utils.vapour_flux)"
    return Json.mkObj [("val", encNums vals)]
  | _ => throw s!"unknown evap fn {fn}"

open EvapWindow in
/-- top boundary of the 1D cooling loop: for each `(i, T_top, T_below)` the window flag, `q_e`
and the updated top temperature -/
def evapWindowOp : Op := fun j => do
  let isVISF ← bool j "visf"
  let p : VISF Float := {
    p_vac := ← num j "p_vac", kappa := ← num j "kappa", dHe := ← num j "dHe",
    m_water := ← num j "m_water", k_B := ← num j "k_B",
    t_vac_start := ← num j "t_vac_start", t_vac_duration := ← num j "t_vac_duration" }
  let dt : Float ← num j "dt"
  let dz : Float ← num j "dz"
  let lam : Float ← num j "lambda_eff"
  let diff : Float ← num j "diffusivity"
  let t0 : Float ← num j "t0"
  let stage := if (← str j "stage") == "cooling" then Stage.cooling else Stage.solidification
  let idx ← nats j "i"
  let tops : List Float ← nums j "T_top"
  let bels : List Float ← nums j "T_below"
  let rows := idx.zip (tops.zip bels)
  let inw := rows.map fun (i, _) => inWindow p (t0 + dt * Num.ofNat' i)
  let qe := rows.map fun (i, (T, _)) => qE isVISF p stage (t0 + dt * Num.ofNat' i) T
  let nxt := rows.map fun (i, (T, B)) => coolTop isVISF p dt i dz lam diff T B
  return Json.mkObj [("inWindow", encBools inw), ("q_e", encNums qe), ("T_top_next", encNums nxt)]

def genOps : List (String × Op) := [
  ("calculateDerived", byNum fun α => calcDerived α),
  ("cfgOps", byNum fun α => cfgOps α),
  ("snowingDispatch", dispatchOp),
  ("evap", evapOp),
  ("evapWindow", evapWindowOp)]

end Snow.Ops
