/- Driver operations for `Topology.lean`, `Groups.lean`, `Store.lean`. -/
import SnowModel.Topology
import SnowModel.Groups
import SnowModel.Store
import SnowModel.Wire

namespace Snow.Ops
open Lean Snow W Snow.Topology Snow.Groups Snow.Store

structure ShapeReq where
  arr : Arr
  nx : Nat
  ny : Nat
  nz : Nat

def decShape (j : Json) : Except String ShapeReq := do
  let a ← str j "arr"
  return ⟨Arr.ofString a, ← nat j "nx", ← nat j "ny", ← nat j "nz"⟩

/-- `topology`: all non-zero off-diagonal entries `[i, j, value]`, the row sums and
`VIAL_EXT`. -/
def topologyOp : Op := fun j => do
  let s ← decShape j
  let N := nTot s.nx s.ny s.nz
  let idxs := List.range N
  let entries := idxs.flatMap fun i =>
    idxs.filterMap fun k =>
      let v := entry s.arr s.nx s.ny s.nz i k
      if i != k && v != 0 then some (Json.arr #[encNat i, encNat k, encNat v]) else none
  let degs := idxs.map (deg s.arr s.nx s.ny s.nz)
  return Json.mkObj [
    ("n", encNat N),
    ("entries", Json.arr entries.toArray),
    ("deg", encNats degs),
    ("maxNbr", encNat (maxNbr s.arr s.nz)),
    ("ext", encNats (degs.map fun d => maxNbr s.arr s.nz - d))]

def encLabel : Label → Json
  | .name s => Json.str s
  | .num e => encNat e

def encMask (m : List Bool) : Json := encNats (whereTrue m)

def encExcept {α : Type} (f : α → Json) : Except String α → Json
  | .ok a => f a
  | .error e => Json.mkObj [("raise", Json.str e)]

def decQueries (j : Json) (k : String) : Except String (List (List String)) := do
  let a ← arr j k
  a.toList.mapM fun q => do
    let qa ← q.getArr?
    qa.toList.mapM (·.getStr?)

/-- `groups`: masks of `getVialGroup` for a list of queries, the labels of the two
tables, Snowfall's filter for the same queries. -/
def groupsOp : Op := fun j => do
  let s ← decShape j
  let qs ← decQueries j "queries"
  let exts := extVec s.arr s.nx s.ny s.nz
  let masks := qs.map fun q => encExcept encMask (maskOf s.arr s.nz exts q)
  let fall := qs.map fun q =>
    encExcept encNats ((fallFilterOf s.arr s.nz exts q).map fun rows => rows.map (·.1))
  return Json.mkObj [
    ("ext", encNats exts),
    ("masks", Json.arr masks.toArray),
    ("fall", Json.arr fall.toArray),
    ("statsLabels", Json.arr (exts.map fun e => encLabel (statsLabel s.arr s.nz e)).toArray),
    ("trajLabels", Json.arr (exts.map fun e => encLabel (trajLabel s.arr s.nz e)).toArray)]

def decSpec (j : Json) : Except String Spec := do
  let kind ← str j "kind"
  match kind with
  | "none" => return .none
  | "ints" => return .ints (← ints j "ints")
  | "str" => return .str (← str j "str")
  | "strs" => return .strs (← strs j "strs")
  | "mixed" => return .mixed
  | "seq" =>
    let a ← arr j "items"
    let items ← a.toList.mapM fun it => do
      let p ← it.getArr?
      if h : p.size = 2 then
        let t ← p[0].getStr?
        match t with
        | "int" => return Item.int (← p[1].getInt?)
        | "bool" => return Item.bool (← p[1].getBool?)
        | "npint" => return Item.npInt (← p[1].getInt?)
        | "float" => return Item.float
        | "str" => return Item.str (← p[1].getStr?)
        | _ => return Item.other
      else throw "item must be [type, value]"
    return .seq items
  | "other" => return .other
  | k => throw s!"unknown spec kind {k}"

def decChoices (j : Json) : Except String (List (List Nat)) := do
  match optFld j "choices" with
  | none => return []
  | some v =>
    let a ← v.getArr?
    a.toList.mapM fun c => do
      let ca ← c.getArr?
      ca.toList.mapM (·.getNat?)

/-- `store`: the storage mask of `__init__` for a request -/
def storeOp : Op := fun j => do
  let s ← decShape j
  let spec ← decSpec j
  let choices ← decChoices j
  match storageMask s.arr s.nx s.ny s.nz spec choices with
  | .error e => return Json.mkObj [("raise", Json.str e)]
  | .ok (m, empty) =>
    return Json.mkObj [("mask", encMask m), ("n", encNat m.length), ("emptyStore", Json.bool empty)]

/-- `record`: one column of the state matrix for a mask (indices) and a state -/
def recordOp (α : Type) [Num α] [Wire α] : Op := fun j => do
  let n ← nat j "n"
  let sel ← nats j "mask"
  let T : List α ← nums j "T"
  let σ : List α ← nums j "sigma"
  let m := maskFromIdx n sel
  let col := record m T σ
  return Json.mkObj [("col", encNums col), ("T", encNums (colT m col)), ("sigma", encNums (colSigma m col))]

/-- `defaultCount`: `int(np.ceil(0.1 * N))` for a list of `N` -/
def defaultCountOp : Op := fun j => do
  let ns ← nats j "N"
  return Json.mkObj [("count", encNats (ns.map defaultCount))]

def topologyOps : List (String × Op) := [
  ("defaultCount", defaultCountOp),
  ("topology", topologyOp),
  ("groups", groupsOp),
  ("store", storeOp),
  ("record", byNum fun α => recordOp α)]

end Snow.Ops
