/- Driver operations for `Flake.lean` (`flakeRun`, `flakeStep`, `flakeKb`). Float only
   (the step uses `pow`/`sqrt`). -/
import SnowModel.Flake
import SnowModel.FlakeGeom
import SnowModel.Ops.OpCond
import SnowModel.Wire

namespace Snow.Ops.FlakeOps
open Lean Snow W Snow.Flake

abbrev F := Float

def decBools (j : Json) (k : String) : Except String (List Bool) := do
  let a ← arr j k
  a.toList.mapM (·.getBool?)

def decNatLists (j : Json) (k : String) : Except String (List (List Nat)) := do
  let a ← arr j k
  a.toList.mapM fun r => do
    let b ← r.getArr?
    b.toList.mapM (·.getNat?)

def decNumLists (j : Json) (k : String) : Except String (List (List F)) := do
  let a ← arr j k
  a.toList.mapM fun r => do
    let b ← r.getArr?
    b.toList.mapM Wire.dec

def decOptNums (j : Json) (k : String) (n : Nat) : Except String (List (Option F)) := do
  match optFld j k with
  | none => return List.replicate n none
  | some v =>
    let a ← v.getArr?
    a.toList.mapM fun x => match x with
      | Json.null => pure none
      | y => do let z : F ← Wire.dec y; pure (some z)

def encOptNums (xs : List (Option F)) : Json :=
  Json.arr (xs.map fun x => match x with | none => Json.null | some v => Wire.enc v).toArray

def encOptNats (xs : List (Option Nat)) : Json :=
  Json.arr (xs.map fun x => match x with | none => Json.null | some v => encNat v).toArray

def decConsts (j : Json) : Except String (Consts F) := do
  let c ← fld j "consts"
  return {
    solid_fraction := ← num c "solid_fraction", cp_s := ← num c "cp_s", cp_w := ← num c "cp_w",
    cp_i := ← num c "cp_i", cp_solution := ← num c "cp_solution", depression := ← num c "depression",
    mass := ← num c "mass", alpha := ← num c "alpha", beta_solution := ← num c "beta_solution",
    T_eq := ← num c "T_eq", T_eq_l := ← num c "T_eq_l", hl := ← num c "hl", b := ← num c "b",
    V := ← num c "V" }

/-- `Params` of a request. The per-vial quantities are either given explicitly (`kb`, `kShelf`,
`nbrs`+`ext`) or — as the harness does — CONSTRUCTED by the model from what the user configured:
`Params.withXi` (k_v from a, c, ξ_v), `Params.withShelf` (shelf coefficients from s0,
s_sigma_rel and the recorded normals), `Params.withShape` (interaction structure of the declared
arrangement and shape). -/
def decParams (j : Json) : Except String (Params F) := do
  let ii ← str j "initIce"
  let initIce ← match InitIce.ofString ii with
    | some x => pure x
    | none => throw "ValueError: initIce must be direct or indirect"
  let p0 : Params F := {
    c := ← decConsts j, nbrs := [], ext := [],
    kInt := ← num j "kInt", kExt := ← num j "kExt", kShelf := [],
    A := ← num j "A", kb := [], dt := ← num j "dt", threshold := ← num j "threshold",
    initIce := initIce }
  -- interaction structure
  let p1 ← match optFld j "nbrs" with
    | some _ => pure { p0 with nbrs := ← decNatLists j "nbrs", ext := ← ints j "ext" }
    | none =>
      let arr := Snow.Topology.Arr.ofString (← str j "arr")
      match ← nats j "shape" with
      | [nx, ny, nz] => pure (p0.withShape arr nx ny nz)
      | _ => throw "shape must be [nx, ny, nz]"
  let n := p1.ext.length
  -- nucleation prefactors
  let p2 ← match optFld j "kb" with
    | some _ => pure { p1 with kb := ← nums j "kb" }
    | none => pure (p1.withXi (← num j "a") (← num j "c") (← nums j "xi"))
  -- shelf coefficients
  match optFld j "kShelf" with
  | some _ => return { p2 with kShelf := ← nums j "kShelf" }
  | none =>
    let sRel : Option F ← match optFld j "sRel" with
      | none => pure none
      | some v => do let x : F ← Wire.dec v; pure (some x)
    return p2.withShelf (← nat j "nz") n (← num j "s0") sRel (← nums j "normals")

def fabs (x : F) : F := if x < 0 then -x else x
def fmax (x y : F) : F := if x < y then y else x
def fmin (x y : F) : F := if y < x then y else x
def huge : F := 1e300

/-- smallest relative margin of the float comparisons decided in step `k`
(`T < T_eq_l`, `dice < P`, `sigma > threshold`); used by the harness for the TIE rule -/
def stepMargin (p : Params F) (isCN : Bool) (k : Nat) (Tsh : F) (s : State F) : F :=
  let ms := mids p k Tsh s
  let dies := diceOf p k Tsh s
  let per : List F := (List.range ms.size).map fun i =>
    match ms[i]?, s.vials[i]? with
    | some md, some v0 =>
      if md.liquid then
        let m1 := fabs (md.v.T - p.c.T_eq_l) / fmax 1 (fabs p.c.T_eq_l)
        if isCand p.c md && !isCN then
          let P := probEntry p isCN md (p.kb.getD i 0)
          let d := dies.getD i 0
          fmin m1 (fabs (d - P) / fmax (fabs P) 1e-300)
        else m1
      else
        if v0.tSol.isNone then fabs (v0.sigma - p.threshold) else huge
    | _, _ => huge
  per.foldl fmin huge

def encVials (vs : Array (Vial F)) : List (String × Json) := [
  ("T", encNums (vs.toList.map (·.T))),
  ("sigma", encNums (vs.toList.map (·.sigma))),
  ("tNuc", encOptNums (vs.toList.map (·.tNuc))),
  ("TNuc", encOptNums (vs.toList.map (·.TNuc))),
  ("tSol", encOptNums (vs.toList.map (·.tSol)))]

/-- `flakeRun`: the whole run -/
def flakeRun : Op := fun j => do
  match ← decOpCond F j with
  | .error e => return Json.mkObj [("raise", Json.str e)]
  | .ok oc =>
    let p ← decParams j
    let cnTemp : Option F ← match optFld j "cnTemp" with
      | none => pure none
      | some v => do let x : F ← Wire.dec v; pure (some x)
    let inp : Inputs F := {
      p := p, oc := oc, cnTemp := cnTemp, T0 := ← num j "T0", nVials := ← nat j "nVials",
      dice := ← decNumLists j "dice", mask := ← decBools j "mask" }
    let r := match optFld j "kCN" with
      | some v => match v.getNat? with
        | .ok n => runWith inp n
        | .error _ => run inp
      | none => run inp
    let full := match optFld j "out" with
      | some (Json.str "stats") => false
      | _ => true
    let steps := (List.range r.traj.size).zip (r.traj.toList.zip r.Tshelf)
    let draws := steps.map fun (k, s, Tsh) => drawCall p k Tsh s
    let margins := steps.map fun (k, s, Tsh) => stepMargin p (k == r.kCN) k Tsh s
    -- step index at which each vial nucleated: first k with tNuc recorded after step k
    let after : List (State F) := (r.traj.toList.drop 1) ++ [r.final]
    let nucStep : List (Option Nat) := (List.range inp.nVials).map fun i =>
      after.findIdx? fun s => (s.vials[i]?.bind (·.tNuc)).isSome
    let base : List (String × Json) := [
      ("N", encNat r.N), ("kCN", encNat r.kCN), ("tlen", encNat r.t.length),
      ("kb", encNums p.kb), ("kShelf", encNums p.kShelf),
      ("nbrs", Json.arr (p.nbrs.map encNats).toArray), ("ext", encInts p.ext),
      ("tNuc", encOptNums r.tNucleation), ("TNuc", encOptNums r.TNucleation),
      ("tSol", encOptNums r.tSolidification),
      ("nucStep", encOptNats nucStep),
      ("draws", encOptNats draws),
      ("diceLeft", encNat r.final.dice.length),
      ("margins", encNums margins),
      ("finalT", encNums (r.final.vials.toList.map (·.T))),
      ("finalSigma", encNums (r.final.vials.toList.map (·.sigma)))]
    let big : List (String × Json) := if full then [
      ("t", encNums r.t), ("Tshelf", encNums r.Tshelf),
      ("XT", Json.arr (r.traj.map fun s => encNums (columnT inp.mask s))),
      ("Xsigma", Json.arr (r.traj.map fun s => encNums (columnSigma inp.mask s)))] else []
    return Json.mkObj (base ++ big)

/-- `flakeStep`: one step from a given state, with the intermediate quantities -/
def flakeStep : Op := fun j => do
  let p ← decParams j
  let T : List F ← nums j "T"
  let sg : List F ← nums j "sigma"
  let n := T.length
  let tNuc ← decOptNums j "tNuc" n
  let TNuc ← decOptNums j "TNuc" n
  let tSol ← decOptNums j "tSol" n
  let vials : Array (Vial F) := (List.range n).toArray.map fun i =>
    { T := T.getD i 0, sigma := sg.getD i 0, tNuc := (tNuc.getD i none), TNuc := (TNuc.getD i none),
      tSol := (tSol.getD i none) }
  let draw : List F ← nums j "draw"
  let s : State F := ⟨vials, [draw]⟩
  let k ← nat j "k"
  let isCN ← bool j "isCN"
  let Tsh : F ← num j "Tsh"
  let s' := stepCN p isCN k Tsh s
  let ms := mids p k Tsh s
  let dies := diceOf p k Tsh s
  let Ts := temps s
  let P := (List.range n).map fun i => match ms[i]? with
    | some m => probEntry p isCN m (p.kb.getD i 0)
    | none => 0
  return Json.mkObj (encVials s'.vials ++ [
    ("q", encNums ((List.range n).map fun i => heatFlow p Ts Tsh Tsh i)),
    ("qInt", encNums ((List.range n).map fun i => qInt p Ts i)),
    ("midT", encNums (ms.toList.map (·.v.T))),
    ("midSigma", encNums (ms.toList.map (·.v.sigma))),
    ("cand", encBools (candidates p k Tsh s).toList),
    ("P", encNums P),
    ("dice", encNums dies.toList),
    ("draw", encOptNats [drawCall p k Tsh s]),
    ("kb", encNums p.kb),
    ("diceLeft", encNat s'.dice.length)])

/-- `flakeKb`: `kb = 10 ** (-(a + xi*c))` -/
def flakeKb : Op := fun j => do
  let a : F ← num j "a"
  let c : F ← num j "c"
  let xi : List F ← nums j "xi"
  return Json.mkObj [("kb", encNums (xi.map (kbOf a c)))]

def encConsts (c : Consts F) : Json := Json.mkObj [
  ("solid_fraction", Wire.enc c.solid_fraction), ("cp_s", Wire.enc c.cp_s), ("cp_w", Wire.enc c.cp_w),
  ("cp_i", Wire.enc c.cp_i), ("cp_solution", Wire.enc c.cp_solution), ("depression", Wire.enc c.depression),
  ("mass", Wire.enc c.mass), ("alpha", Wire.enc c.alpha), ("beta_solution", Wire.enc c.beta_solution),
  ("T_eq", Wire.enc c.T_eq), ("T_eq_l", Wire.enc c.T_eq_l), ("hl", Wire.enc c.hl), ("b", Wire.enc c.b),
  ("V", Wire.enc c.V)]

/-- `flakeDerive`: derived constants from the primary YAML values -/
def flakeDerive : Op := fun j => do
  let y : Primary F := {
    T_eq := ← num j "T_eq", b := ← num j "b", rho_l := ← num j "rho_l", height := ← num j "height",
    length := ← num j "length", width := ← num j "width", cp_s := ← num j "cp_s",
    solid_fraction := ← num j "solid_fraction", cp_w := ← num j "cp_w", cp_i := ← num j "cp_i",
    k_f := ← num j "k_f", M_s := ← num j "M_s", Dh := ← num j "Dh" }
  return Json.mkObj [("consts", encConsts (deriveConsts y))]

end Snow.Ops.FlakeOps

namespace Snow.Ops
def flakeOps : List (String × Op) := [
  ("flakeRun", FlakeOps.flakeRun),
  ("flakeStep", FlakeOps.flakeStep),
  ("flakeKb", FlakeOps.flakeKb),
  ("flakeDerive", FlakeOps.flakeDerive)]
end Snow.Ops
