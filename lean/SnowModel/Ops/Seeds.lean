/- Driver operations for `Seeds.lean` (C04). -/
import SnowModel.Seeds
import SnowModel.Wire

namespace Snow.Ops
open Lean Snow W Snow.Seeds

namespace SeedsWire

def jn (n : Nat) : Json := Json.num (JsonNumber.fromNat n)

def encCall : Call → Json
  | .normal n => Json.arr #[Json.str "normal", jn n]
  | .dice => Json.arr #[Json.str "dice"]
  | .choice n => Json.arr #[Json.str "choice", jn n]

def encPos (p : Pos) : Json := Json.arr #[jn p.seed, Json.arr (p.pre.map encCall).toArray]

def encNV (nv : NV) : Json := Json.arr #[jn nv.nx, jn nv.ny, jn nv.nz]

def encShelf : Shelf → Json
  | .scalar p => Json.arr #[Json.str "scalar", Json.bool p]
  | .drawn src n => Json.arr #[Json.str "drawn", encPos src, jn n]

def encEv : Ev → Json
  | .create s => Json.arr #[Json.str "create", jn s]
  | .call c => encCall c
  | .xi v n => Json.arr #[Json.str "xi", jn v, jn n]

def encSched (s : Sched) : Json :=
  Json.mkObj [("nv", encNV s.nv), ("shelf", encShelf s.shelf), ("dice", encPos s.dice)]

def encObj (o : Obj) : Json :=
  Json.mkObj [("nv", encNV o.nv), ("seed", jn o.seed), ("rng", encPos o.rng),
    ("seedUsed", jn o.seedUsed), ("nvUsed", encNV o.nvUsed), ("hBuilt", Json.bool o.hBuilt),
    ("shelf", encShelf o.shelf), ("seedV", jn o.seedV)]

def encTrace (t : Trace) : Json :=
  Json.mkObj [("obj", encObj t.obj),
    ("evs", Json.arr (t.evs.map fun e => Json.arr (e.map encEv).toArray).toArray),
    ("scheds", Json.arr (t.scheds.map encSched).toArray),
    ("xis", Json.arr (t.xis.map fun x => Json.arr #[jn x.1, jn x.2]).toArray),
    ("cfgs", encNats t.cfgs)]

def decNV3 (a b c : Json) : Except String NV := do
  return ⟨← a.getNat?, ← b.getNat?, ← c.getNat?⟩

def decAct (j : Json) : Except String Act := do
  let a ← j.getArr?
  if h : a.size = 0 then throw "empty op" else
  let tag ← a[0].getStr?
  match tag, a.toList.drop 1 with
  | "new", [s, x, y, z] => return .new (← s.getNat?) (← decNV3 x y z)
  | "setSeed", [s] => return .setSeed (← s.getNat?)
  | "build", [] => return .build
  | "run", [] => return .run
  | "setN", [x, y, z] => return .setN (← decNV3 x y z)
  | "setSeedV", [v] => return .setSeedV (← v.getNat?)
  | "readShelf", [] => return .readShelf
  | "readInt", [] => return .readInt
  | "editCfg", [k] => return .editCfg (← k.getNat?)
  | t, _ => throw s!"bad op {t}"

def decOps (j : Json) : Except String (List Act) := do
  (← j.getArr?).toList.mapM decAct

end SeedsWire
open SeedsWire

/-- `c04_chunks`: run `pre` from a default-constructed object, then every list of
`chunks` from (a private copy of) the resulting object. -/
def c04Chunks : Op := fun j => do
  let sigmaPos ← bool j "sigmaPos"
  let old := (optFld j "old").bind (fun b => b.getBool?.toOption) |>.getD false
  -- "random": n = the constructor was given storeStates = "random_n"
  let mask : MaskSpec := match (optFld j "random").bind (fun v => v.getNat?.toOption) with
    | some n => .random n
    | none => .det []
  let c : Cfg := { sigmaPos := sigmaPos, mask := mask }
  let runF := if old then runOld else run
  let pre ← decOps (← fld j "pre")
  let chunks ← match optFld j "chunks" with
    | none => pure []
    | some v => (← v.getArr?).toList.mapM decOps
  let t0 := execFrom runF c (defaultObj c) pre
  let ts := chunks.map fun ch => execFrom runF c t0.obj ch
  return Json.mkObj [("pre", encTrace t0), ("chunks", Json.arr (ts.map encTrace).toArray)]

/-- `c04_canon`: the canonical schedule of `Snowflake(seed, N_vials).run()` -/
def c04Canon : Op := fun j => do
  let sigmaPos ← bool j "sigmaPos"
  let s ← nat j "seed"
  let nv ← match ← nats j "nv" with
    | [x, y, z] => pure (⟨x, y, z⟩ : NV)
    | _ => throw "nv must have 3 entries"
  return Json.mkObj [("sched", encSched (canon { sigmaPos := sigmaPos } s nv))]

def c04PoolChunks : Op := fun j => do
  let nrep ← nat j "nrep"
  let pool ← nat j "pool"
  return Json.mkObj [("chunks", Json.arr ((poolChunks nrep pool).map encNats).toArray)]

def seedsOps : List (String × Op) := [
  ("c04_chunks", c04Chunks),
  ("c04_canon", c04Canon),
  ("c04_poolChunks", c04PoolChunks)]

end Snow.Ops
