/- Driver operations for `Snowing0D.lean` / `Snowing1D.lean`. -/
import SnowModel.Snowing0D
import SnowModel.Snowing1D
import SnowModel.SnowingRuns
import SnowModel.Ops.OpCond
import SnowModel.Wire

namespace Snow.Ops
open Lean Snow W

section
variable (α : Type) [Transc α] [Wire α]

def decConst (j : Json) : Except String (SnowConst α) := do
  let f (k : String) : Except String α := num j k
  let g (k : String) : Except String α :=
    match optFld j k with
    | none => pure Num.zero
    | some v => Wire.dec v
  return {
    A := ← f "A", V := ← f "V", rho_l := ← f "rho_l", mass := ← f "mass",
    mass_water := ← f "mass_water", mass_solute := ← f "mass_solute",
    cp_w := ← f "cp_w", cp_i := ← f "cp_i", cp_s := ← f "cp_s", cp_solution := ← f "cp_solution",
    solid_fraction := ← f "solid_fraction", T_eq := ← f "T_eq", k_f := ← f "k_f", M_s := ← f "M_s",
    depression := ← f "depression", a := ← f "a", b := ← f "b", c := ← f "c", Dh := ← f "Dh",
    height := ← g "height", diameter := ← g "diameter", lambda_w := ← g "lambda_w",
    lambda_i := ← g "lambda_i", lambda_s := ← g "lambda_s", k_B := ← g "k_B" }

def decVisf (j : Json) : Except String (Option (Visf α)) := do
  match optFld j "visf" with
  | none => return none
  | some v =>
    return some {
      p_vac := ← num v "p_vac", kappa := ← num v "kappa", dHe := ← num v "Dh_evaporation",
      m_water := ← num v "m_water", t_vac_start := ← num v "t_vac_start",
      t_vac_duration := ← num v "t_vac_duration" }

/-- decode one run; `Except.error cls` inside = the constructor of
`OperatingConditions` raises `cls` -/
def decSnowIn (j : Json) : Except String (Except String (SnowIn α)) := do
  let c ← decConst α (← fld j "const")
  let v ← decVisf α j
  let Kshelf : α ← num j "Kshelf"
  let xi : α ← num j "xi"
  let Frand : α ← num j "Frand"
  let cn : Option α ← match optFld j "cnTemp" with
    | none => pure none
    | some x => do let t : α ← Wire.dec x; pure (some t)
  match ← decOpCond α (← fld j "oc") with
  | .error e => return .error e
  | .ok oc => return .ok { const := c, visf := v, Kshelf := Kshelf, oc := oc, cnTemp := cn, xi := xi, Frand := Frand }

def encOpt (x : Option α) : Json :=
  match x with
  | none => Json.null
  | some v => Wire.enc v

def encOptNat (x : Option Nat) : Json :=
  match x with
  | none => Json.null
  | some v => encNat v

def encArr (a : Array α) : Json := Json.arr (a.map Wire.enc)

def flag (j : Json) (k : String) : Bool :=
  match optFld j k with
  | some (Json.bool b) => b
  | _ => false

def excJson (e : Option String) : Json :=
  match e with
  | none => Json.null
  | some s => Json.str s

/-- `snowing0D`: one `_run_0D` call -/
def snowing0D : Op := fun j => do
  match ← decSnowIn α j with
  | .error e => return Json.mkObj [("raise", Json.str e), ("stage", Json.str "opcond")]
  | .ok p =>
    let r := match optFld j "shelf" with
      | some _ =>
        match (nums j "shelf" : Except String (List α)) with
        | .ok sh => run0DOn p sh
        | .error _ => run0D p
      | none => run0D p
    let traces := flag j "traces"
    let stats := match r.stats with
      | none => Json.null
      | some s => Json.mkObj [("T_nuc", Wire.enc s.T_nuc), ("t_nuc", Wire.enc s.t_nuc),
                              ("t_sol", encOpt α s.t_sol), ("t_fr", encOpt α s.t_fr)]
    let hist := match r.hist with
      | none => []
      | some h => [("time", encArr α h.time), ("shelf", encArr α h.shelf), ("temp", encArr α h.temp),
                   ("ice", encArr α h.ice)]
    return Json.mkObj ([
      ("raise", excJson r.exc), ("stage", Json.str r.stage), ("n", encNat r.n),
      ("NtCoolEnd", encOptNat r.NtCoolEnd), ("NtSolEnd", encOptNat r.NtSolEnd),
      ("stats", stats), ("kb", Wire.enc p.kb), ("T_eq_l", Wire.enc p.T_eq_l)]
      ++ hist
      ++ (if traces then [("Etrace", encArr α r.Etrace), ("Ttrace", encArr α r.Ttrace),
                          ("sigma", encArr α r.sigma)] else []))

/-- `snowing1D`: one `_run_1D` call (`"old": true` = the controlled-nucleation test of
the current code). `rowStride` thins the `temp`/`ice` rows that are sent back
(`rows` lists which). -/
def snowing1D : Op := fun j => do
  match ← decSnowIn α j with
  | .error e => return Json.mkObj [("raise", Json.str e), ("stage", Json.str "opcond")]
  | .ok p =>
    let old := flag j "old"
    let Nz := NzCode
    let g := grid1D p Nz
    let r := match optFld j "shelf" with
      | some _ =>
        match (nums j "shelf" : Except String (List α)) with
        | .ok sh => run1DOn p Nz old sh
        | .error _ => if old then run1DOld p else run1D p
      | none => if old then run1DOld p else run1D p
    let traces := flag j "traces"
    let rowStride := match optFld j "rowStride" with
      | some v => (v.getNat?.toOption.getD 1)
      | none => 1
    let rowStride := if rowStride == 0 then 1 else rowStride
    let stats := match r.stats with
      | none => Json.null
      | some s => Json.mkObj [
          ("T_nuc_min", Wire.enc s.T_nuc_min), ("T_nuc_kin", Wire.enc s.T_nuc_kin),
          ("T_nuc_mean", Wire.enc s.T_nuc_mean), ("T_nuc_max", Wire.enc s.T_nuc_max),
          ("t_nuc", Wire.enc s.t_nuc), ("t_sol", encOpt α s.t_sol), ("t_fr", encOpt α s.t_fr)]
    let hist := match r.hist with
      | none => []
      | some h =>
        let m := h.size
        let sel := (List.range m).filter fun i => i % rowStride == 0 || i + 1 == m
        let selRows := sel.filterMap fun i => h[i]?
        [("nrows", encNat m),
         ("steps", Json.arr (h.map fun row => encNat row.step)),
         ("time", Json.arr (h.map fun row => Wire.enc (row.time / Num.ofNat' 3600))),
         ("shelf", Json.arr (h.map fun row => Wire.enc row.shelf)),
         ("rows", encNats sel),
         ("temp", Json.arr (selRows.map fun row => encArr α row.temp).toArray),
         ("ice", Json.arr (selRows.map fun row => encArr α row.ice).toArray)]
    return Json.mkObj ([
      ("raise", excJson r.exc), ("stage", Json.str r.stage), ("n", encNat r.n),
      ("dt", Wire.enc r.dt), ("NtExp", encNat g.NtExp), ("z", encArr α g.z), ("dz", Wire.enc g.dz),
      ("NtCoolEnd", encOptNat r.NtCoolEnd), ("NtSolEnd", encOptNat r.NtSolEnd),
      ("iSaveEnd", encNat r.iSaveEnd), ("iSaveSolid", encNat r.iSaveSolid),
      ("stats", stats), ("Tnuc", encArr α r.Tnuc), ("kb", Wire.enc p.kb), ("T_eq_l", Wire.enc p.T_eq_l)]
      ++ hist
      ++ (if traces then [("Etrace", encArr α r.Etrace), ("sigma", encArr α r.sigma)] else []))

/-- `snowingRuns`: successive `run()` calls on ONE object (`"dim"`: "0D" | "1D"; `"runs"`: the
requests of the individual runs; `"fixed"`: use the repaired `run()`). After every run: the
exception class of `run()`, what `.results` gives (statistics | "AssertionError") and what the
history accessors give (number of rows | "AssertionError" | null). -/
def snowingRuns : Op := fun j => do
  let dim ← str j "dim"
  let fixed := flag j "fixed"
  let runs ← arr j "runs"
  let encRes (r : Except String (Option (List (String × Json)))) : Json :=
    match r with
    | .error e => Json.mkObj [("raise", Json.str e)]
    | .ok none => Json.null
    | .ok (some kv) => Json.mkObj kv
  let encHist (r : Except String (Option Nat)) : Json :=
    match r with
    | .error e => Json.mkObj [("raise", Json.str e)]
    | .ok none => Json.null
    | .ok (some n) => encNat n
  if dim == "0D" then
    let mut o : SnowObj (Stats0D α) (Hist0D α) := SnowObj.fresh
    let mut out : Array Json := #[]
    for rq in runs do
      match ← decSnowIn α rq with
      | .error e => out := out.push (Json.mkObj [("raise", Json.str e), ("stage", Json.str "opcond")])
      | .ok p =>
        let r := run0D p
        o := if fixed then o.runFixed (out0D r) else o.run (out0D r)
        let res := o.results.map fun s => s.map fun s =>
          [("T_nuc", Wire.enc s.T_nuc), ("t_nuc", Wire.enc s.t_nuc), ("t_sol", encOpt α s.t_sol),
           ("t_fr", encOpt α s.t_fr)]
        let hist := o.history.map fun h => h.map fun h => h.time.size
        out := out.push (Json.mkObj [("raise", excJson r.exc), ("stage", Json.str r.stage),
          ("results", encRes res), ("nrows", encHist hist)])
    return Json.mkObj [("runs", Json.arr out)]
  else
    let mut o : SnowObj (Stats1D α) (Array (Row α)) := SnowObj.fresh
    let mut out : Array Json := #[]
    for rq in runs do
      match ← decSnowIn α rq with
      | .error e => out := out.push (Json.mkObj [("raise", Json.str e), ("stage", Json.str "opcond")])
      | .ok p =>
        let r := if flag rq "old" then run1DOld p else run1D p
        o := if fixed then o.runFixed (out1D r) else o.run (out1D r)
        let res := o.results.map fun s => s.map fun s =>
          [("T_nuc_min", Wire.enc s.T_nuc_min), ("T_nuc_kin", Wire.enc s.T_nuc_kin),
           ("T_nuc_mean", Wire.enc s.T_nuc_mean), ("T_nuc_max", Wire.enc s.T_nuc_max),
           ("t_nuc", Wire.enc s.t_nuc), ("t_sol", encOpt α s.t_sol), ("t_fr", encOpt α s.t_fr)]
        let hist := o.history.map fun h => h.map fun h => h.size
        out := out.push (Json.mkObj [("raise", excJson r.exc), ("stage", Json.str r.stage),
          ("results", encRes res), ("nrows", encHist hist)])
    return Json.mkObj [("runs", Json.arr out)]

end

def snowingOps : List (String × Op) := [
  ("snowing0D", fun j => snowing0D Float j),
  ("snowing1D", fun j => snowing1D Float j),
  ("snowingRuns", fun j => snowingRuns Float j)]

end Snow.Ops
