/- Driver operations for `Snowing2D.lean`. -/
import SnowModel.Snowing2D
import SnowModel.OpCond
import SnowModel.Ops.OpCond
import SnowModel.Wire

namespace Snow.Ops
open Lean Snow W Snow.S2D

section
variable (α : Type) [Num α] [Wire α]

def decConfig (s : String) : Except String S2D.Config :=
  match s with
  | "shelf" => .ok .shelf
  | "VISF" => .ok .visf
  | "jacket" => .ok .jacket
  | _ => .error s!"unknown configuration {s}"

def optBool (j : Json) (k : String) (d : Bool) : Bool :=
  (optFld j k).bind (fun b => b.getBool?.toOption) |>.getD d

def optNat (j : Json) (k : String) (d : Nat) : Nat :=
  (optFld j k).bind (fun b => b.getNat?.toOption) |>.getD d

def decFlags (j : Json) : S2D.Flags :=
  { inplace := optBool j "inplace" false,
    jacketDz := optBool j "jacketDz" false,
    coolingSolidPvap := optBool j "coolingSolidPvap" false }

/-- optional numeric field with default 0 (VISF / jacket parameters) -/
def optNum (j : Json) (k : String) : Except String α :=
  match optFld j k with
  | some v => Wire.dec v
  | none => .ok Num.zero

def decPar (j : Json) : Except String (S2D.Par α) := do
  let c ← j.getObjVal? "const"
  let cfg ← decConfig (← str c "configuration")
  return {
    Nz := optNat j "Nz" 30, Nr := optNat j "Nr" 15,
    pi := ← num c "pi", height := ← num c "height", diameter := ← num c "diameter",
    V := ← num c "V", rho_l := ← num c "rho_l", mass := ← num c "mass",
    mass_water := ← num c "mass_water", mass_solute := ← num c "mass_solute",
    lambda_w := ← num c "lambda_w", lambda_i := ← num c "lambda_i", lambda_s := ← num c "lambda_s",
    cp_w := ← num c "cp_w", cp_i := ← num c "cp_i", cp_s := ← num c "cp_s",
    cp_solution := ← num c "cp_solution", solid_fraction := ← num c "solid_fraction",
    T_eq := ← num c "T_eq", k_f := ← num c "k_f", M_s := ← num c "M_s",
    depression := ← num c "depression", kb := ← num c "kb", b := ← num c "b",
    k_B := ← num c "k_B", Dh := ← num c "Dh", K_shelf := ← num c "K_shelf",
    config := cfg,
    p_vac := ← optNum α c "p_vac", kappa := ← optNum α c "kappa", dHe := ← optNum α c "Dh_evaporation",
    m_water := ← optNum α c "m_water", t_vac_start := ← optNum α c "t_vac_start",
    t_vac_duration := ← optNum α c "t_vac_duration",
    air_gap := ← optNum α c "air_gap", lambda_air := ← optNum α c "lambda_air" }

/-- one cooling-stage step on a given field with given top flux per column
(`Num` only: runs at `Rat`) -/
def cool2DStep : Op := fun j => do
  let p ← decPar α j
  let f := decFlags j
  let c := S2D.mkCtx p f
  let T : List α ← nums j "T"
  let qe : List α ← nums j "qe"
  let Tsh : α ← num j "Tshelf"
  if T.length ≠ p.Nz * p.Nr then throw "T must have Nz*Nr entries"
  let qeA := qe.toArray
  let T' := S2D.coolStep c f.inplace Tsh (fun k => qeA.getD k Num.zero) T.toArray
  return Json.mkObj [("T", encNums T'.toList), ("dt", Wire.enc c.dt),
                     ("dz", Wire.enc c.dz), ("dr", Wire.enc c.dr), ("a", Wire.enc c.a0)]

/-- one solidification-stage step on given fields `T`, `w`, `mask` -/
def solid2DStep : Op := fun j => do
  let p ← decPar α j
  let f := decFlags j
  let c := S2D.mkCtx p f
  let T : List α ← nums j "T"
  let w : List α ← nums j "w"
  let qe : List α ← nums j "qe"
  let mask ← arr j "mask"
  let maskB ← mask.toList.mapM (·.getBool?)
  let Tsh : α ← num j "Tshelf"
  if T.length ≠ p.Nz * p.Nr then throw "T must have Nz*Nr entries"
  let qeA := qe.toArray
  let T' := S2D.solidStep c f.inplace Tsh (fun k => qeA.getD k Num.zero) T.toArray w.toArray maskB.toArray
  return Json.mkObj [("T", encNums T'.toList), ("w", encNums (S2D.iceFrac c T').toList)]

/-- `SimpPlan.eval (mkPlan x) y` next to `simpson y x` (they must be identical) -/
def simpsonPlan : Op := fun j => do
  let y : List α ← nums j "y"
  let x : List α ← nums j "x"
  let ya := y.toArray
  let pl := S2D.mkPlan x.toArray
  return Json.mkObj [("plan", Wire.enc (pl.eval fun k => ya.getD k Num.zero)),
                     ("ref", Wire.enc (simpson y x))]

end

section
variable (α : Type) [Transc α] [Wire α]

def encRows (rows : Array (Array α)) (keep : Nat → Bool) : Json :=
  Json.arr ((rows.toList.zipIdx.filter fun r => keep r.2).map fun r => encNums r.1.toList).toArray

/-- whole run. `outStride`: only rows whose index is a multiple of it (and the
post-nucleation row, and the last row) carry the fields in the response. -/
def snowing2D : Op := fun j => do
  let p ← decPar α j
  let f := decFlags j
  match ← decOpCond α j with
  | .error e => return Json.mkObj [("raise", Json.str e)]
  | .ok oc =>
    let Frand : α ← num j "Frand"
    let cn : Option α ← match optFld j "cn" with
      | some v => do let x : α ← Wire.dec v; pure (some x)
      | none => pure none
    let dt := S2D.dt p
    let prof := profile oc dt
    let NtExp := nSteps oc.t_tot dt
    let outStride := optNat j "outStride" 1
    match S2D.run p f oc.start prof NtExp Frand cn with
    | .error e =>
      return Json.mkObj [("raise", Json.str e), ("dt", Wire.enc dt), ("NtExp", encNat NtExp)]
    | .ok r =>
      let n := r.time.size
      let keep := fun k => k % outStride == 0 || k == r.iSaveEnd || k + 1 == n
      return Json.mkObj [
        ("dt", Wire.enc r.dt), ("NtExp", encNat r.NtExp),
        ("iCool", encNat r.iCool), ("iSol", encNat r.iSol), ("iSaveEnd", encNat r.iSaveEnd),
        ("stats", encNums [r.TnucMin, r.TnucKin, r.TnucMean, r.TnucMax, r.tNuc, r.tSol, r.tFr]),
        ("n", encNat n),
        ("time", encNums r.time.toList), ("shelf", encNums r.shelf.toList),
        ("rows", encNats ((List.range n).filter keep)),
        ("temp", encRows α r.temp keep), ("ice", encRows α r.ice keep)]

/-- the three formulas of utils.py -/
def evap2D : Op := fun j => do
  let T : α ← num j "T"
  let pi : α ← num j "pi"
  let kappa : α ← num j "kappa"
  let m_water : α ← num j "m_water"
  let k_B : α ← num j "k_B"
  let p_vac : α ← num j "p_vac"
  let pl := Evap2D.pLiquid T
  let ps := Evap2D.pSolid T
  return Json.mkObj [
    ("p_liquid", Wire.enc pl), ("p_solid", Wire.enc ps),
    ("flux_liquid", Wire.enc (Evap2D.vapourFlux pi kappa m_water k_B p_vac pl T T)),
    ("flux_solid", Wire.enc (Evap2D.vapourFlux pi kappa m_water k_B p_vac ps T T))]

end

def snowing2DOps : List (String × Op) := [
  ("cool2DStep", byNum fun α => cool2DStep α),
  ("solid2DStep", byNum fun α => solid2DStep α),
  ("simpsonPlan", byNum fun α => simpsonPlan α),
  ("snowing2D", fun j => snowing2D Float j),
  ("evap2D", fun j => evap2D Float j)]

end Snow.Ops
