/- Driver operations for `Simpson.lean`. -/
import SnowModel.Simpson
import SnowModel.Wire

namespace Snow.Ops
open Lean Snow W

def simpsonOp (α : Type) [Num α] [Wire α] : Op := fun j => do
  let y : List α ← nums j "y"
  let x : List α ← nums j "x"
  return Json.mkObj [("value", Wire.enc (simpson y x))]

def linspaceOp (α : Type) [Num α] [Wire α] : Op := fun j => do
  let stop : α ← num j "stop"
  let n ← nat j "n"
  return Json.mkObj [("x", encNums (linspace0 stop n))]

def simpsonOps : List (String × Op) := [
  ("simpson", byNum fun α => simpsonOp α),
  ("linspace0", byNum fun α => linspaceOp α)]

end Snow.Ops
