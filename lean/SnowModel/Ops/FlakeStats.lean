/- Driver operations for `FlakeStats.lean`, and `kCN` (trigger step of `Flake.lean`). -/
import SnowModel.FlakeStats
import SnowModel.Flake
import SnowModel.Ops.OpCond
import SnowModel.Wire

namespace Snow.Ops
open Lean Snow W Snow.FlakeStats

section
variable (α : Type) [Num α] [Wire α]

/-- `null` is NaN -/
def decOpt (j : Json) : Except String (Option α) :=
  match j with
  | Json.null => return none
  | v => do let x : α ← Wire.dec v; return some x

def encOptFS (o : Option α) : Json :=
  match o with
  | none => Json.null
  | some x => Wire.enc x

def optNums (j : Json) (k : String) : Except String (List (Option α)) := do
  let a ← arr j k
  a.toList.mapM (decOpt α)

def matrix (j : Json) (k : String) : Except String (List (List α)) := do
  let a ← arr j k
  a.toList.mapM fun r => do
    let ra ← r.getArr?
    ra.toList.mapM Wire.dec

def bools (j : Json) (k : String) : Except String (List Bool) := do
  let a ← arr j k
  a.toList.mapM (·.getBool?)

def encOptsFS (xs : List (Option α)) : Json := Json.arr (xs.map (encOptFS α)).toArray

def encExceptFS {β : Type} (enc : β → Json) (r : Except String β) : Json :=
  match r with
  | .ok v => enc v
  | .error e => Json.mkObj [("raise", Json.str e)]

/-- every accessor of the statistics on one set of stored states.
request: Xs, XT (rows), t, mask, grp, tnuc, Tnuc, tsol (stats, null = NaN), solThr,
thresholds (list; null = `threshold=None`), times (query times), ran (bool). -/
def flakeStats : Op := fun j => do
  let Xs : List (List α) ← matrix α j "Xs"
  let XT : List (List α) ← matrix α j "XT"
  let t : List α ← nums j "t"
  let mask ← bools j "mask"
  let grp ← bools j "grp"
  let sTnuc ← optNums α j "tnuc"
  let sTemp ← optNums α j "Tnuc"
  let sTsol ← optNums α j "tsol"
  let solThr : α ← num j "solThr"
  let thrs ← optNums α j "thresholds"
  let times : List α ← nums j "times"
  let ran := (optFld j "ran").bind (fun b => b.getBool?.toOption) |>.getD true
  let perThr := thrs.map fun thr =>
    let th := thr.getD solThr
    let (idx, nev) := sigmaCrossing th Xs
    Json.mkObj [
      ("idx", encNats idx),
      ("never", encBools nev),
      ("tsol_states", encExceptFS (encOptsFS α) (solidificationTimes true thr solThr mask t Xs sTsol grp)),
      ("tsol_stats", encExceptFS (encOptsFS α) (solidificationTimes false thr solThr mask t Xs sTsol grp)),
      ("count_states", encExceptFS encNats (sigmaCounter ran times thr solThr true t Xs sTnuc sTsol)),
      ("count_stats", encExceptFS encNats (sigmaCounter ran times thr solThr false t Xs sTnuc sTsol))]
  return Json.mkObj [
    ("tnuc_states", encOptsFS α (nucleationTimes true mask t Xs sTnuc grp)),
    ("tnuc_stats", encOptsFS α (nucleationTimes false mask t Xs sTnuc grp)),
    ("Tnuc_states", encOptsFS α (nucleationTemperatures true mask XT Xs sTemp grp)),
    ("Tnuc_stats", encOptsFS α (nucleationTemperatures false mask XT Xs sTemp grp)),
    ("timeIdx", encNats (times.map (timeIdx t))),
    ("perThr", Json.arr perThr.toArray)]

end

/-- `k_CN` of `Snowflake.run()` together with `opcond.cnt` (Float only: `Flake` needs `Transc`).
request: the program (as for `cnt`), optional `cn` (absent/null = `cnTemp=None`), `dt`. -/
def kCN : Op := fun j => do
  match ← decOpCond Float j with
  | .error e => return Json.mkObj [("raise", Json.str e)]
  | .ok oc =>
    let dt : Float ← num j "dt"
    let cn : Option Float ← match optFld j "cn" with
      | none => pure none
      | some v => do let x : Float ← Wire.dec v; pure (some x)
    let N := nSteps oc.t_tot dt
    let t := Flake.timeVec N dt
    return Json.mkObj [
      ("cnt", match cn with | none => Json.null | some c => encNat (cntOf (profile oc (Num.one : Float)) c)),
      ("N", encNat N),
      ("tlen", encNat t.length),
      ("kCN", encNat (Flake.kCNof N t (Flake.cntTime oc cn)))]

def flakeStatsOps : List (String × Op) := [
  ("flakeStats", byNum fun α => flakeStats α),
  ("kCN", kCN)]

end Snow.Ops
