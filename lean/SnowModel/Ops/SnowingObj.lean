/- Driver operations for `SnowingObj.lean` (C14). -/
import SnowModel.SnowingObj
import SnowModel.Wire

namespace Snow.Ops
open Lean Snow W Snow.SnowingObj

namespace SnowingWire

abbrev SymRow := DrawPos × DrawPos

def jn (n : Nat) : Json := Json.num (JsonNumber.fromNat n)
def encPos (p : DrawPos) : Json := Json.arr #[jn p.1, jn p.2]
def encEv : Ev → Json
  | .seed s => Json.arr #[Json.str "seed", jn s]
  | .draw => Json.arr #[Json.str "draw"]
def encRows (rows : List (Nat × SymRow)) : Json :=
  Json.arr (rows.map fun r => Json.arr #[jn r.1, encPos r.2.1, encPos r.2.2]).toArray
def encOptNat : Option Nat → Json
  | none => Json.null
  | some n => jn n

def decHow (a : List Json) : Except String How := do
  match a with
  | [h] =>
    match ← h.getStr? with
    | "sequential" => return .sequential
    | "async" => throw "async needs the chunks"
    | _ => return .other
  | [h, ch] =>
    if (← h.getStr?) = "async" then
      let cs ← (← ch.getArr?).toList.mapM fun c => do (← c.getArr?).toList.mapM (·.getNat?)
      return .async cs
    else throw "bad how"
  | _ => throw "bad how"

end SnowingWire
open SnowingWire

/-- `c14_run`: a sequence of `run(how)` / `results` on one `Snowing(Nrep = nrep)` object -/
def c14Run : Op := fun j => do
  let nrep ← nat j "nrep"
  let old := (optFld j "old").bind (fun b => b.getBool?.toOption) |>.getD false
  let ops ← arr j "ops"
  let mut o : Obj SymRow := mkObj nrep
  let mut w : World := ⟨none, 0⟩
  let mut out : Array Json := #[]
  for opj in ops do
    let a := (← opj.getArr?).toList
    match a with
    | [] => throw "empty op"
    | tag :: rest =>
      match ← tag.getStr? with
      | "run" =>
        let how ← decHow rest
        let r := if old then runObjOld Prod.mk how o w else runObj Prod.mk how o w
        o := r.1
        w := r.2.1
        -- what the pool workers do to THEIR copies of the global generator: one list per batch
        let workerEvs : List (List Ev) := match how with
          | .async chunks => if o.nrep = 1 then [] else chunks.map fun ch => (runSeeds (Row := SymRow) Prod.mk ch w).2.2
          | _ => []
        o := r.1
        w := r.2.1
        out := out.push (Json.mkObj [("evs", Json.arr (r.2.2.map encEv).toArray),
          ("worker_evs", Json.arr (workerEvs.map fun l => Json.arr (l.map encEv).toArray).toArray)])
      | "setNrep" =>
        match rest with
        | [n] =>
          o := { o with nrep := ← n.getNat? }       -- `S.Nrep = n` (public attribute)
          out := out.push (Json.mkObj [])
        | _ => throw "setNrep needs one argument"
      | "results" =>
        match results o with
        | .ok rows => out := out.push (Json.mkObj [("rows", encRows rows)])
        | .error e => out := out.push (Json.mkObj [("raise", Json.str e)])
      | t => throw s!"bad op {t}"
  return Json.mkObj [("out", Json.arr out),
    ("world", Json.arr #[encOptNat w.gseed, jn w.gpos]),
    ("stats", match o.stats with
      | none => Json.null
      | some r => Json.arr #[encPos r.1, encPos r.2])]

def c14PoolChunks : Op := fun j => do
  let nrep ← nat j "nrep"
  let pool ← nat j "pool"
  return Json.mkObj [("chunks", Json.arr ((SnowingObj.poolChunks nrep pool).map encNats).toArray)]

def snowingObjOps : List (String × Op) := [
  ("c14_run", c14Run),
  ("c14_poolChunks", c14PoolChunks)]

end Snow.Ops
