/- Driver operations for `Frames.lean` (C17). Values travel as opaque naturals
(IEEE bit patterns chosen by the harness). -/
import SnowModel.Frames
import SnowModel.FrameLabels
import SnowModel.Wire

namespace Snow.Ops
open Lean Snow W Snow.Frames

namespace FramesWire

def jn (n : Nat) : Json := Json.num (JsonNumber.fromNat n)

def decStats (j : Json) : Except String (Stats Nat) := do
  (← j.getArr?).toList.mapM fun kv => do
    let a ← kv.getArr?
    if h : a.size = 2 then
      let name ← a[0].getStr?
      let vals ← (← a[1].getArr?).toList.mapM (·.getNat?)
      return (name, vals)
    else throw "stats entry must be [name, values]"

def encStatRow (r : StatRow Nat) : Json := Json.arr #[Json.str r.group, jn r.vial, Json.str r.var, jn r.value]
def encTrajRow (r : TrajRow Nat) : Json :=
  Json.arr #[Json.str r.group, jn r.vial, Json.str r.state, jn r.time, jn r.value]
def encFallRow (r : FallRow Nat) : Json :=
  Json.arr #[Json.str r.group, jn r.vial, Json.str r.var, jn r.value, jn r.seed]

def optList {α} (j : Json) (k : String) (f : Json → Except String α) : Except String (Option (List α)) :=
  match optFld j k with
  | none => pure none
  | some v => do
    let l ← (← v.getArr?).toList.mapM f
    return some l

end FramesWire
open FramesWire

/-- `c17_flake`: both tables of `Snowflake.to_frame(n)` -/
def c17Flake : Op := fun j => do
  let labels ← strs j "labels"
  let stats ← decStats (← fld j "stats")
  let X ← (← arr j "X").toList.mapM fun r => do (← r.getArr?).toList.mapM (·.getNat?)
  let t ← nats j "t"
  let n ← nat j "n"
  let vials ← nats j "vials"
  let tlabels ← strs j "tlabels"
  let old := (optFld j "old").bind (fun b => b.getBool?.toOption) |>.getD false
  let st := statsTable labels stats
  let traj : Json := match trajTable old X t n vials tlabels with
    | .error e => Json.mkObj [("raise", Json.str e)]
    | .ok none => Json.null
    | .ok (some rows) => Json.arr (rows.map encTrajRow).toArray
  return Json.mkObj [("stats", Json.arr (st.map encStatRow).toArray), ("traj", traj)]

/-- `c17_fall`: `Snowfall.to_frame()` and a list of accessor queries -/
def c17Fall : Op := fun j => do
  let labels ← strs j "labels"
  let statsList ← (← arr j "statsList").toList.mapM decStats
  match fallTable labels statsList with
  | .error e => return Json.mkObj [("raise", Json.str e)]
  | .ok rows =>
    let qs ← match optFld j "queries" with
      | none => pure []
      | some v => pure (← v.getArr?).toList
    let answers ← qs.mapM fun q => do
      let what ← str q "what"
      let vialSel ← optList q "vials" (·.getNat?)
      let seeds ← optList q "seeds" (·.getNat?)
      return encNats (returnStats what vialSel seeds rows)
    return Json.mkObj [("rows", Json.arr (rows.map encFallRow).toArray), ("answers", Json.arr answers.toArray)]

/-- `c17_fallhist`: a history `["run", statsList] | ["table"]` on one Snowfall object -/
def c17FallHist : Op := fun j => do
  let labels ← strs j "labels"
  let steps ← arr j "steps"
  let mut f : Fall Nat := { statsList := [], cache := none }
  let mut out : Array Json := #[]
  for st in steps do
    let a := (← st.getArr?).toList
    match a with
    | [tag] =>
      if (← tag.getStr?) = "table" then
        let r := Fall.toFrame labels f
        f := r.2
        match r.1 with
        | .ok rows => out := out.push (Json.mkObj [("rows", Json.arr (rows.map encFallRow).toArray)])
        | .error e => out := out.push (Json.mkObj [("raise", Json.str e)])
      else throw "bad step"
    | [tag, sl] =>
      if (← tag.getStr?) = "run" then
        f := f.run (← (← sl.getArr?).toList.mapM decStats)
        out := out.push (Json.mkObj [])
      else throw "bad step"
    | _ => throw "bad step"
  return Json.mkObj [("out", Json.arr out)]

/-- `c17_labels`: the `group` columns as the label functions of `Groups.lean` give them -/
def c17Labels : Op := fun j => do
  let hex := (optFld j "hexagonal").bind (fun b => b.getBool?.toOption) |>.getD false
  let arr : Snow.Topology.Arr := if hex then .hexagonal else .square
  let nx ← nat j "nx"
  let ny ← nat j "ny"
  let nz ← nat j "nz"
  let vials ← nats j "vials"
  return Json.mkObj [("stats", encStrs (Snow.FrameLabels.statsLabels arr nx ny nz)),
    ("traj", encStrs (Snow.FrameLabels.trajLabels arr nx ny nz vials))]

def framesOps : List (String × Op) := [
  ("c17_flake", c17Flake),
  ("c17_fall", c17Fall),
  ("c17_fallhist", c17FallHist),
  ("c17_labels", c17Labels)]

end Snow.Ops
