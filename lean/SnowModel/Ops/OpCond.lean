/- Driver operations for `OpCond.lean`. -/
import SnowModel.OpCond
import SnowModel.Wire

namespace Snow.Ops
open Lean Snow W

section
variable (α : Type) [Num α] [Wire α]

def decHolds (j : Json) : Except String (Option (List (Hold α))) := do
  match optFld j "holds" with
  | none => return none
  | some v =>
    let a ← v.getArr?
    let hs ← a.toList.mapM fun h => do
      let p ← h.getArr?
      if hp : p.size = 2 then
        let t : α ← Wire.dec p[0]
        let d : α ← Wire.dec p[1]
        return (⟨t, d⟩ : Hold α)
      else throw "hold must be [temp, duration]"
    return some hs

def decOpCond (j : Json) : Except String (Except String (OpCond α)) := do
  let t_tot : α ← num j "t_tot"
  let start : α ← num j "start"
  let stop : α ← num j "stop"
  let rate : α ← num j "rate"
  let holds ← decHolds α j
  let isList := (optFld j "isList").bind (fun b => b.getBool?.toOption) |>.getD true
  return mkOpCond t_tot start stop rate holds isList

/-- `tempProfile`: the sampled shelf temperature. -/
def tempProfile : Op := fun j => do
  match ← decOpCond α j with
  | .error e => return Json.mkObj [("raise", Json.str e)]
  | .ok oc =>
    let dt : α ← num j "dt"
    let p := profile oc dt
    return Json.mkObj [
      ("profile", encNums p),
      ("n", encNat (nSteps oc.t_tot dt)),
      ("rawlen", encNat (segments oc.rate dt oc.start (allHolds oc)).length),
      ("holds", Json.arr (oc.holds.map fun h => Json.arr #[Wire.enc h.temp, Wire.enc h.duration]).toArray)]

/-- `cnt` for a given `cn` -/
def cnt : Op := fun j => do
  match ← decOpCond α j with
  | .error e => return Json.mkObj [("raise", Json.str e)]
  | .ok oc =>
    let cn : α ← num j "cn"
    let T1 := profile oc (Num.one : α)
    return Json.mkObj [("cnt", encNat (cntOf T1 cn)), ("len", encNat T1.length)]

end

def opCondOps : List (String × Op) := [
  ("tempProfile", byNum fun α => tempProfile α),
  ("cnt", byNum fun α => cnt α)]

end Snow.Ops
