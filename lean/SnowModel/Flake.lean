/-
  Model of the shelf-scale time loop `Snowflake.run` (snowflake.py, l. 395-575).

  One time step mirrors the code's order of operations:

    column k is stored from the state at the START of the step
    q_k      = H_int·T + H_ext∘(T_ext − T) + H_shelf∘(T_sh − T)      (OLD state)
    solid(ifying) vials (σ ≠ 0, only `if any(solidMask)`):
        t_solidification := t[k] − t_nucleation   where σ > threshold and not yet recorded
        σ += q/(alpha − beta/(1−σ)²)·dt   with beta from c_p(σ_old);   T := T_eq − D/(1−σ)
    liquid vials (σ == 0 BEFORE the step, only `if any(liquidMask)`):
        T += q/hl·dt;  candidate := liquid ∧ T < T_eq_l
        P := kb_v·V·(T_eq_l − T)^b·dt on candidates, 0 elsewhere; at k == k_CN all P := 1
        ONE generator call `rng.random(n_candidates)`, values given to the candidates in
        vial-index order (no call at all when no vial is liquid)
        nucleated := candidate ∧ dice < P
        t_nucleation := t[k] + dt;  T_nucleation := T (after the sensible update)
        σ := indirect | direct formulation;  T := T_eq − D/(1−σ)

  Randomness is input: `State.dice` is the list of the generator calls still to come
  (one list of uniforms per call); a step in which some vial is liquid consumes the head.
  (`run()` restarts the generator at the seed and redraws the shelf coefficients before the
  loop; the shelf coefficient vector as used is an input, `Params.kShelf`.)

  The interaction structure is an abstract input (`nbrs`, `ext`); the topology
  itself is the subject of C09.  Everything numeric is polymorphic in `[Transc α]`.
-/
import SnowModel.OpCond

namespace Snow.Flake
open Snow Num

/-- the two formulations of the initial amount of ice (`initIce`) -/
inductive InitIce where
  | indirect
  | direct
deriving DecidableEq, Repr, Inhabited

/-- `self.initIce = initIce.lower()` after the validation `initIce.lower() ∈ {direct, indirect}`:
the user's capitalisation does not matter; anything else is a `ValueError` (`none`). -/
def InitIce.ofString (s : String) : Option InitIce :=
  match s.toLower with
  | "indirect" => some .indirect
  | "direct" => some .direct
  | _ => none

/-- the derived constants read by `run()` from `self.const` -/
structure Consts (α : Type) where
  solid_fraction : α
  cp_s : α
  cp_w : α
  cp_i : α
  cp_solution : α
  depression : α
  mass : α
  alpha : α
  beta_solution : α
  T_eq : α
  T_eq_l : α
  hl : α
  b : α
  V : α
deriving Repr

/-- everything that is fixed during a run -/
structure Params (α : Type) where
  c : Consts α
  /-- `nbrs[i]` = the vials `j` with `interactionMatrix[i, j] = 1` (column order) -/
  nbrs : List (List Nat)
  /-- `VIAL_EXT[i]`, the number of faces towards the surroundings -/
  ext : List Int
  kInt : α
  kExt : α
  /-- `k["shelf"]` per vial (scalar broadcast; zeros for a pallet) -/
  kShelf : List α
  A : α
  /-- pre-exponential nucleation factor per vial -/
  kb : List α
  dt : α
  /-- `solidificationThreshold` -/
  threshold : α
  initIce : InitIce
deriving Repr

/-- state and statistics of one vial; `none` is the `nan` of the statistics arrays -/
structure Vial (α : Type) where
  T : α
  sigma : α
  tNuc : Option α := none
  TNuc : Option α := none
  tSol : Option α := none
deriving Repr

/-- the loop state: the vials and the generator calls still to come -/
structure State (α : Type) where
  vials : Array (Vial α)
  dice : List (List α)
deriving Repr

section
variable {α : Type} [Transc α]

/-! ### scalar formulas (one vial) -/

/-- `kb = 10 ** (-(a + xi_v * c))` -/
def kbOf (a c xi : α) : α := Transc.pow (ofNat' 10) (-(a + xi * c))

/-- `cp_sigma = solid_fraction*cp_s + (1 - solid_fraction)*(sigma*(cp_i - cp_w) + cp_w)` -/
def cpSigma (c : Consts α) (σ : α) : α :=
  c.solid_fraction * c.cp_s + (one - c.solid_fraction) * (σ * (c.cp_i - c.cp_w) + c.cp_w)

/-- `T_eq - depression * (1 / (1 - sigma))` -/
def eqTemp (c : Consts α) (σ : α) : α := c.T_eq - c.depression * (one / (one - σ))

/-- `sigma + q / (alpha - beta / (1 - sigma)**2) * dt`, `beta = depression*mass*cp_sigma` -/
def solidSigma (c : Consts α) (dt q σ : α) : α :=
  let beta := c.depression * c.mass * cpSigma c σ
  σ + q / (c.alpha - beta / ((one - σ) * (one - σ))) * dt

/-- `T + q / hl * dt` -/
def liquidTemp (c : Consts α) (dt q T : α) : α := T + q / c.hl * dt

/-- `kb * V * (T_eq_l - T) ** b * dt` -/
def prob (c : Consts α) (dt kb T : α) : α :=
  kb * c.V * Transc.pow (c.T_eq_l - T) c.b * dt

/-- indirect formulation: `-q0 / (alpha - beta_solution)`, `q0 = (T_eq_l - T)*cp_solution*mass` -/
def sigmaIndirect (c : Consts α) (T : α) : α :=
  (-((c.T_eq_l - T) * c.cp_solution * c.mass)) / (c.alpha - c.beta_solution)

/-- `gamma_direct = -alpha / mass / cp_solution` -/
def gammaDirect (c : Consts α) : α := (-c.alpha) / c.mass / c.cp_solution

/-- direct formulation: the `+√` root of the quadratic -/
def sigmaDirect (c : Consts α) (T : α) : α :=
  let g := gammaDirect c
  let B := c.T_eq - T + g
  let C := T - c.T_eq + c.depression
  (-B + Transc.sqrt (B * B + ofNat' 4 * g * C)) / (ofInt (-2) * g)

/-- the selected formulation -/
def sigmaJump (ii : InitIce) (c : Consts α) (T : α) : α :=
  match ii with
  | .indirect => sigmaIndirect c T
  | .direct => sigmaDirect c T

/-! ### derived constants (constants.py, `calculateDerived`, l. 234-278) -/

/-- the primary constants of the YAML configuration that enter the time loop -/
structure Primary (α : Type) where
  T_eq : α
  b : α
  rho_l : α
  height : α
  length : α
  width : α
  cp_s : α
  solid_fraction : α
  cp_w : α
  cp_i : α
  k_f : α
  M_s : α
  Dh : α
deriving Repr

/-- `calculateDerived`: the straight-line arithmetic producing the constants read by `run()` -/
def deriveConsts (y : Primary α) : Consts α :=
  let A := y.length * y.width
  let V := A * y.height
  let cp_solution := y.solid_fraction * y.cp_s + (one - y.solid_fraction) * y.cp_w
  let mass := y.rho_l * V
  let hl := mass * cp_solution
  let depression := y.k_f / y.M_s * (y.solid_fraction / (one - y.solid_fraction))
  let alpha := -mass * y.Dh * (one - y.solid_fraction)
  let beta_solution := depression * mass * cp_solution
  { solid_fraction := y.solid_fraction, cp_s := y.cp_s, cp_w := y.cp_w, cp_i := y.cp_i,
    cp_solution := cp_solution, depression := depression, mass := mass, alpha := alpha,
    beta_solution := beta_solution, T_eq := y.T_eq, T_eq_l := y.T_eq - depression, hl := hl,
    b := y.b, V := V }

/-! ### shelf coefficients (`_buildShelfHeatFlow`) -/

/-- `k["shelf"]` per vial as `run()` uses it: on a shelf (`nz = 1`) with `s_sigma_rel > 0`
`s0 + normal_i * s_sigma_rel * s0`, negative values set to 0; without variability the scalar
`s0`; in a pallet (`nz > 1`) 0. `normals` are the recorded draws of `rng.normal(size=n)`. -/
def shelfCoeffs (nz n : Nat) (s0 : α) (sRel : Option α) (normals : List α) : List α :=
  if nz == 1 then
    match sRel with
    | some r =>
      if zero < r then
        (List.range n).map fun i =>
          let k := s0 + normals.getD i zero * r * s0
          if k < zero then zero else k
      else List.replicate n s0
    | none => List.replicate n s0
  else List.replicate n zero

/-- the per-vial pre-exponential factors of a run: `kb = 10 ** (-(a + xi_v * c))` elementwise on
the vial-dependent standard normals `xi_v` -/
def Params.withXi (p : Params α) (a c : α) (xi : List α) : Params α :=
  { p with kb := xi.map (kbOf a c) }

/-- the shelf coefficients of a run, derived from `s0`, `s_sigma_rel` and the drawn normals -/
def Params.withShelf (p : Params α) (nz n : Nat) (s0 : α) (sRel : Option α) (normals : List α) :
    Params α :=
  { p with kShelf := shelfCoeffs nz n s0 sRel normals }

/-! ### heat flow -/

/-- off-diagonal entry of `H_int = interactionMatrix * k_int * A` -/
def hOff (p : Params α) : α := p.kInt * p.A

/-- diagonal entry of `H_int`: `(-n_i) * k_int * A` -/
def hDiag (p : Params α) (nb : List Nat) : α := ofInt (-(nb.length : Int)) * p.kInt * p.A

/-- `H_ext[i] = VIAL_EXT[i] * k_ext * A` -/
def hExt (p : Params α) (i : Nat) : α := ofInt (p.ext.getD i 0) * p.kExt * p.A

/-- `H_shelf[i] = k_shelf[i] * A` -/
def hShelf (p : Params α) (i : Nat) : α := p.kShelf.getD i zero * p.A

/-- `(H_int @ T)[i]` -/
def qInt (p : Params α) (Ts : Array α) (i : Nat) : α :=
  let nb := p.nbrs.getD i []
  nb.foldl (fun acc j => acc + hOff p * Ts.getD j zero) zero + hDiag p nb * Ts.getD i zero

/-- `q_k[i] = (H_int @ T)[i] + H_ext[i]*(T_ext − T_i) + H_shelf[i]*(T_sh − T_i)` -/
def heatFlow (p : Params α) (Ts : Array α) (Tsh Text : α) (i : Nat) : α :=
  let Ti := Ts.getD i zero
  qInt p Ts i + hExt p i * (Text - Ti) + hShelf p i * (Tsh - Ti)

/-! ### one vial, one step -/

/-- a vial after the solid / sensible update, before the nucleation decision -/
structure Mid (α : Type) where
  v : Vial α
  /-- `liquidMask`: σ == 0 at the start of the step -/
  liquid : Bool

/-- `sigma_k == 0` -/
def isLiquid (v : Vial α) : Bool := eqb v.sigma zero

/-- the recording of `t_solidification` (inside `if any(solidMask)`) -/
def tSolUpdate (p : Params α) (tk : α) (anySolid : Bool) (v : Vial α) : Option α :=
  if anySolid && decide (p.threshold < v.sigma) && v.tSol.isNone then
    v.tNuc.map fun tn => tk - tn
  else v.tSol

/-- solid / sensible update of one vial with net heat flow `q` -/
def vialMid (p : Params α) (tk : α) (anySolid : Bool) (v : Vial α) (q : α) : Mid α :=
  let ts := tSolUpdate p tk anySolid v
  if isLiquid v then
    ⟨{ v with T := liquidTemp p.c p.dt q v.T, tSol := ts }, true⟩
  else
    let σ' := solidSigma p.c p.dt q v.sigma
    ⟨{ v with T := eqTemp p.c σ', sigma := σ', tSol := ts }, false⟩

/-- `nucleationCandidatesMask = liquidMask & (T_k < T_eq_l)` -/
def isCand (c : Consts α) (m : Mid α) : Bool := m.liquid && decide (m.v.T < c.T_eq_l)

/-- the entry of `P` for this vial -/
def probEntry (p : Params α) (isCN : Bool) (m : Mid α) (kb : α) : α :=
  if isCN then one
  else if isCand p.c m then prob p.c p.dt kb m.v.T else zero

/-- `nucleatedVialsMask = nucleationCandidatesMask & (diceRolls < P)` -/
def nucleates (p : Params α) (isCN : Bool) (m : Mid α) (kb die : α) : Bool :=
  isCand p.c m && decide (die < probEntry p isCN m kb)

/-- nucleation decision and jump -/
def vialFinal (p : Params α) (tk : α) (isCN : Bool) (m : Mid α) (kb die : α) : Vial α :=
  if nucleates p isCN m kb die then
    let σ := sigmaJump p.initIce p.c m.v.T
    { m.v with T := eqTemp p.c σ, sigma := σ, tNuc := some (tk + p.dt), TNuc := some m.v.T }
  else m.v

/-- `diceRolls[nucleationCandidatesMask] = rng.random(n_candidates)`: the drawn values go
to the candidates in vial-index order, everybody else keeps 0. -/
def assignDice : List Bool → List α → List α
  | [], _ => []
  | false :: cs, ds => zero :: assignDice cs ds
  | true :: cs, [] => zero :: assignDice cs []
  | true :: cs, d :: ds => d :: assignDice cs ds

/-! ### one step of the batch -/

/-- `t[k]` of `np.arange(N) * dt` -/
def timeAt (dt : α) (k : Nat) : α := ofNat' k * dt

def anySolid (s : State α) : Bool := s.vials.any fun v => !(isLiquid v)
def anyLiquid (s : State α) : Bool := s.vials.any fun v => isLiquid v

/-- the temperature vector of a state -/
def temps (s : State α) : Array α := s.vials.map (·.T)

/-- all vials after the solid / sensible update -/
def mids (p : Params α) (k : Nat) (Tsh : α) (s : State α) : Array (Mid α) :=
  let Ts := temps s
  let as := anySolid s
  s.vials.mapIdx fun i v => vialMid p (timeAt p.dt k) as v (heatFlow p Ts Tsh Tsh i)

/-- the candidate mask of the step -/
def candidates (p : Params α) (k : Nat) (Tsh : α) (s : State α) : Array Bool :=
  (mids p k Tsh s).map (isCand p.c)

/-- the generator call of this step: `some n` when `rng.random(n)` is called -/
def drawCall (p : Params α) (k : Nat) (Tsh : α) (s : State α) : Option Nat :=
  if anyLiquid s then some ((candidates p k Tsh s).toList.count true) else none

/-- the uniforms delivered to this step -/
def drawn (s : State α) : List α := if anyLiquid s then s.dice.headD [] else []

/-- the per-vial `diceRolls` of this step -/
def diceOf (p : Params α) (k : Nat) (Tsh : α) (s : State α) : Array α :=
  (assignDice (candidates p k Tsh s).toList (drawn s)).toArray

/-- **one time step** `k` with shelf (= surroundings) temperature `Tsh`;
`isCN` says whether this is the controlled-nucleation step (`k == k_CN`). -/
def stepCN (p : Params α) (isCN : Bool) (k : Nat) (Tsh : α) (s : State α) : State α :=
  let ms := mids p k Tsh s
  let dies := diceOf p k Tsh s
  let vials := ms.mapIdx fun i m =>
    vialFinal p (timeAt p.dt k) isCN m (p.kb.getD i zero) (dies.getD i zero)
  ⟨vials, if anyLiquid s then s.dice.tail else s.dice⟩

/-- one time step `k` of a run whose controlled-nucleation step index is `kCN` -/
def step (p : Params α) (kCN k : Nat) (Tsh : α) (s : State α) : State α :=
  stepCN p (k == kCN) k Tsh s

/-! ### the run -/

/-- inputs of a run -/
structure Inputs (α : Type) where
  p : Params α
  /-- the cooling program (`self.opcond`) -/
  oc : OpCond α
  /-- `opcond.cnTemp` -/
  cnTemp : Option α
  /-- `T_k_0` -/
  T0 : α
  /-- `N_vials_total` -/
  nVials : Nat
  /-- the generator calls, in call order -/
  dice : List (List α)
  /-- `_storageMask` -/
  mask : List Bool

/-- `N_timeSteps = int(np.ceil(t_tot/dt)) + 1` -/
def nTimeSteps (inp : Inputs α) : Nat := nSteps inp.oc.t_tot inp.p.dt

/-- `t = np.arange(N_timeSteps) * dt`: one time per step -/
def timeVec (N : Nat) (dt : α) : List α :=
  (List.range N).map (timeAt dt)

/-- `opcond.cnt`: `none` is `np.inf` -/
def cntTime (oc : OpCond α) (cnTemp : Option α) : Option α :=
  cnTemp.map fun cn => ofNat' (cntOf (profile oc (one : α)) cn)

/-- `k_CN = argmax(t >= cnt) if any(t >= cnt) else N_timeSteps + 1` -/
def kCNof (N : Nat) (t : List α) (cnt : Option α) : Nat :=
  match cnt with
  | none => N + 1
  | some c =>
    match t.findIdx? (fun x => decide (c ≤ x)) with
    | some i => i
    | none => N + 1

/-- initial state: `T_k = ones*T_k_0`, `sigma_k = 0`, statistics `nan` -/
def init (inp : Inputs α) : State α :=
  ⟨Array.replicate inp.nVials { T := inp.T0, sigma := zero }, inp.dice⟩

/-- the loop: `acc` collects the state at the START of every step (what is stored in
column `k`), the second component is the state after the last step -/
def loop (p : Params α) (kCN : Nat) :
    Nat → List α → State α → Array (State α) → Array (State α) × State α
  | _, [], s, acc => (acc, s)
  | k, Tsh :: rest, s, acc => loop p kCN (k + 1) rest (step p kCN k Tsh s) (acc.push s)

/-- the result of a run -/
structure Result (α : Type) where
  /-- `N_timeSteps` -/
  N : Nat
  /-- `_t` -/
  t : List α
  kCN : Nat
  /-- `T_shelf` -/
  Tshelf : List α
  /-- state at the start of step `k` (column `k` of the state matrix) -/
  traj : Array (State α)
  /-- state after the last step (carries `stats`) -/
  final : State α

/-- **`Snowflake.run`** for a given controlled-nucleation step index. The loop visits
`k = 0 … N−1` and reads `T_shelf[k]`; `profile` has exactly `N` samples (C05 `profile_length`). -/
def runWith (inp : Inputs α) (kCN : Nat) : Result α :=
  let N := nTimeSteps inp
  let t := timeVec N inp.p.dt
  let Tsh := profile inp.oc inp.p.dt
  let r := loop inp.p kCN 0 Tsh (init inp) #[]
  ⟨N, t, kCN, Tsh, r.1, r.2⟩

/-- the controlled-nucleation step index of a run -/
def kCN (inp : Inputs α) : Nat :=
  let N := nTimeSteps inp
  kCNof N (timeVec N inp.p.dt) (cntTime inp.oc inp.cnTemp)

def run (inp : Inputs α) : Result α := runWith inp (kCN inp)

/-- the entries of a per-vial list selected by the storage mask, in vial order -/
def masked {β : Type} (mask : List Bool) (xs : List β) : List β :=
  ((mask.zip xs).filter (·.1)).map (·.2)

/-- column `k` of `_X`: stored temperatures followed by stored ice fractions -/
def column (mask : List Bool) (s : State α) : List α :=
  masked mask (s.vials.toList.map (·.T)) ++ masked mask (s.vials.toList.map (·.sigma))

/-- `_X` as a list of columns -/
def Result.X (r : Result α) (mask : List Bool) : List (List α) :=
  r.traj.toList.map (column mask)

/-- `X_T[:, k]` and `X_sigma[:, k]` -/
def columnT (mask : List Bool) (s : State α) : List α := masked mask (s.vials.toList.map (·.T))
def columnSigma (mask : List Bool) (s : State α) : List α :=
  masked mask (s.vials.toList.map (·.sigma))

/-- `stats["t_nucleation"]`, `stats["T_nucleation"]`, `stats["t_solidification"]` -/
def Result.tNucleation (r : Result α) : List (Option α) := r.final.vials.toList.map (·.tNuc)
def Result.TNucleation (r : Result α) : List (Option α) := r.final.vials.toList.map (·.TNuc)
def Result.tSolidification (r : Result α) : List (Option α) := r.final.vials.toList.map (·.tSol)

end

end Snow.Flake
