def hello := "world"
