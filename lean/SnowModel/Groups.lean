/-
  Model of the vial position groups of `snowflake.py` / `snowfall.py`:
  `Snowflake.getVialGroup`, the `group` column of the statistics table and of the
  trajectory table of `Snowflake.to_frame`, and Snowfall's `group=` row filter.
  Everything is a function of the external-exposure count `VIAL_EXT` (`Topology.ext`).
  Core Lean only.
-/
import SnowModel.Topology

namespace Snow.Groups
open Snow.Topology

/-- `VIAL_GROUPS` of snowflake.py, in its order (the order matters for the substring
scan of `storeStates`). -/
def VIAL_GROUPS : List String := ["corner", "edge", "core", "side", "all", "center"]

/-- Python `int(n_z == 1)` as used in `3 - (self.N_vials[2] == 1)` -/
def flat (nz : Nat) : Nat := if nz = 1 then 1 else 0

/-- What one group name selects, as a test on the exposure count `e`
(`none`: `"all"`; the name is assumed known, see `known`). -/
def groupTestF (arr : Arr) (f : Nat) (g : String) (e : Nat) : Bool :=
  match arr with
  | .square =>
    if g == "corner" then e == 3 - f
    else if g == "edge" then e == 2 - f
    else if g == "side" then e == 1
    else if g == "core" then e == 0
    else if g == "center" then e == 0
    else false
  | .hexagonal =>
    if g == "corner" then e == 5 - f
    else if g == "edge" then decide (e > 0) && decide (e < 5 - f)
    else if g == "side" then decide (e > 0) && decide (e < 5 - f)
    else if g == "core" then e == 0
    else if g == "center" then e == 0
    else false

/-- `groupTestF` with `f = int(n_z == 1)` -/
def groupTest (arr : Arr) (nz : Nat) (g : String) (e : Nat) : Bool := groupTestF arr (flat nz) g e

def known (g : String) : Bool := VIAL_GROUPS.contains g

/-- the `for g in group` loop of `getVialGroup` on one vial with exposure `e`:
`"all"` sets the mask and breaks, an unknown name raises `ValueError`. -/
def groupLoop (arr : Arr) (nz : Nat) (e : Nat) : List String → Bool → Except String Bool
  | [], acc => .ok acc
  | g :: gs, acc =>
    if g == "all" then .ok true
    else if known g then groupLoop arr nz e gs (acc || groupTest arr nz g e)
    else .error "ValueError"

/-- the vector `VIAL_EXT` -/
def extVec (arr : Arr) (nx ny nz : Nat) : List Nat :=
  (List.range (nTot nx ny nz)).map (ext arr nx ny nz)

/-- the mask of `getVialGroup` from the exposure vector -/
def maskOf (arr : Arr) (nz : Nat) (exts : List Nat) (gs : List String) : Except String (List Bool) :=
  exts.mapM fun e => groupLoop arr nz e gs false

/-- `getVialGroup(group)` (a single string is wrapped into a list by the caller) -/
def getVialGroup (arr : Arr) (nx ny nz : Nat) (gs : List String) : Except String (List Bool) :=
  maskOf arr nz (extVec arr nx ny nz) gs

/-- a cell of the `group` column: a class name, or the bare exposure count when no
assignment of `to_frame` matched -/
inductive Label where
  | name (s : String)
  | num (e : Nat)
deriving DecidableEq, Repr

/-- one `df.loc[df.group == <values>, "group"] = name` statement of `to_frame`: a cell
that still holds a number and matches becomes the name; a cell that already holds a
name never compares equal to a number again. -/
def assign (cell : Label) (stmt : (Nat → Bool) × String) : Label :=
  match cell with
  | .num e => if stmt.1 e then .name stmt.2 else .num e
  | c => c

/-- the assignment statements of the FIRST block of `to_frame` (statistics table), in
source order, transcribed from that block (`f = int(n_z == 1)`) -/
def statsAssignments (arr : Arr) (f : Nat) : List ((Nat → Bool) × String) :=
  match arr with
  | .square =>
    [(fun e => e == 3 - f, "corner"), (fun e => e == 2 - f, "edge"),
     (fun e => e == 1, "side"), (fun e => e == 0, "core")]
  | .hexagonal =>
    [(fun e => e == 5 - f, "corner"),
     (fun e => e == 1 || e == 2 || e == 3 || e == 4 - f, "edge"),
     (fun e => e == 1 || e == 2 || e == 3 || e == 4 - f, "side"),
     (fun e => e == 0, "core")]

/-- the assignment statements of the SECOND block of `to_frame` (trajectory table), in
source order, transcribed from that block as repaired by fix F7 (`df.group == 1` for
`"side"`; before: `1 - (n_z == 1)`) -/
def trajAssignments (arr : Arr) (f : Nat) : List ((Nat → Bool) × String) :=
  match arr with
  | .square =>
    [(fun e => e == 3 - f, "corner"), (fun e => e == 2 - f, "edge"),
     (fun e => e == 1, "side"), (fun e => e == 0, "core")]
  | .hexagonal =>
    [(fun e => e == 5 - f, "corner"),
     (fun e => e == 1 || e == 2 || e == 3 || e == 4 - f, "edge"),
     (fun e => e == 1 || e == 2 || e == 3 || e == 4 - f, "side"),
     (fun e => e == 0, "core")]

/-- `group` cell of the statistics table for a vial with exposure `e`: the statements
applied one after the other to the numeric cell -/
def statsLabelF (arr : Arr) (f : Nat) (e : Nat) : Label :=
  (statsAssignments arr f).foldl assign (.num e)

def statsLabel (arr : Arr) (nz : Nat) (e : Nat) : Label := statsLabelF arr (flat nz) e

/-- `group` cell of the trajectory table -/
def trajLabelF (arr : Arr) (f : Nat) (e : Nat) : Label :=
  (trajAssignments arr f).foldl assign (.num e)

def trajLabel (arr : Arr) (nz : Nat) (e : Nat) : Label := trajLabelF arr (flat nz) e

/-- closed form of the labelling (first matching statement wins; the hexagonal `"side"`
statement can never fire) — a THEOREM relates it to both tables (`labels_closed_form`) -/
def labelClosedF (arr : Arr) (f : Nat) (e : Nat) : Label :=
  match arr with
  | .square =>
    if e == 3 - f then .name "corner"
    else if e == 2 - f then .name "edge"
    else if e == 1 then .name "side"
    else if e == 0 then .name "core"
    else .num e
  | .hexagonal =>
    if e == 5 - f then .name "corner"
    else if e == 1 || e == 2 || e == 3 || e == 4 - f then .name "edge"
    else if e == 0 then .name "core"
    else .num e

/-- the trajectory-table labelling before fix F7 (`df.group == 1 - (n_z == 1)` for
`"side"`), kept to state the counter-example -/
def trajLabelUpstreamF (arr : Arr) (f : Nat) (e : Nat) : Label :=
  match arr with
  | .square =>
    if e == 3 - f then .name "corner"
    else if e == 2 - f then .name "edge"
    else if e == 1 - f then .name "side"
    else if e == 0 then .name "core"
    else .num e
  | .hexagonal => labelClosedF .hexagonal f e

def trajLabelUpstream (arr : Arr) (nz : Nat) (e : Nat) : Label := trajLabelUpstreamF arr (flat nz) e

/-- the rows of Snowfall's statistics table for one repetition and one variable:
`(vial, group label)`, the label being that of `Snowflake.to_frame`'s statistics table -/
def fallTableOf (arr : Arr) (nz : Nat) (exts : List Nat) : List (Nat × Label) :=
  (List.range exts.length).map fun i => (i, statsLabel arr nz (exts.getD i 0))

/-- Snowfall's `group=` argument as repaired (fix K5): the rows whose VIAL INDEX is
selected by `getVialGroup(group)` (`df[df.vial.isin(np.where(mask)[0])]`); the bare
string `"all"` bypasses the filter and `getVialGroup("all")` selects every vial. -/
def fallFilterOf (arr : Arr) (nz : Nat) (exts : List Nat) (gs : List String) :
    Except String (List (Nat × Label)) := do
  let m ← maskOf arr nz exts gs
  return (fallTableOf arr nz exts).filter fun row => m.getD row.1 false

def fallFilter (arr : Arr) (nx ny nz : Nat) (gs : List String) : Except String (List (Nat × Label)) :=
  fallFilterOf arr nz (extVec arr nx ny nz) gs

/-- Snowfall's filter before fix K5: rows whose *label string* is one of the names -/
def fallFilterUpstream (arr : Arr) (nx ny nz : Nat) (gs : List String) : List Nat :=
  (List.range (nTot nx ny nz)).filter fun i =>
    match statsLabel arr nz (ext arr nx ny nz i) with
    | .name s => gs.contains s
    | .num _ => false

/-- canonical class name: `"center"` is `"core"`; `"side"` is `"edge"` on a flat shelf
and in hexagonal packing -/
def canonF (arr : Arr) (f : Nat) (g : String) : String :=
  if g == "center" then "core"
  else if g == "side" && (arr == .hexagonal || f == 1) then "edge"
  else g

def canon (arr : Arr) (nz : Nat) (g : String) : String := canonF arr (flat nz) g

end Snow.Groups
