/-
  Model of the vial position groups of `snowflake.py` / `snowfall.py`:
  `Snowflake.getVialGroup`, the `group` column of the statistics table and of the
  trajectory table of `Snowflake.to_frame`, and Snowfall's `group=` row filter.
  Everything is a function of the external-exposure count `VIAL_EXT` (`Topology.ext`).
  Core Lean only.
-/
import SnowModel.Topology

namespace Snow.Groups
open Snow.Topology

/-- `VIAL_GROUPS` of snowflake.py, in its order (the order matters for the substring
scan of `storeStates`). -/
def VIAL_GROUPS : List String := ["corner", "edge", "core", "side", "all", "center"]

/-- Python `int(n_z == 1)` as used in `3 - (self.N_vials[2] == 1)` -/
def flat (nz : Nat) : Nat := if nz = 1 then 1 else 0

/-- What one group name selects, as a test on the exposure count `e`
(`none`: `"all"`; the name is assumed known, see `known`). -/
def groupTestF (arr : Arr) (f : Nat) (g : String) (e : Nat) : Bool :=
  match arr with
  | .square =>
    if g == "corner" then e == 3 - f
    else if g == "edge" then e == 2 - f
    else if g == "side" then e == 1
    else if g == "core" then e == 0
    else if g == "center" then e == 0
    else false
  | .hexagonal =>
    if g == "corner" then e == 5 - f
    else if g == "edge" then decide (e > 0) && decide (e < 5 - f)
    else if g == "side" then decide (e > 0) && decide (e < 5 - f)
    else if g == "core" then e == 0
    else if g == "center" then e == 0
    else false

/-- `groupTestF` with `f = int(n_z == 1)` -/
def groupTest (arr : Arr) (nz : Nat) (g : String) (e : Nat) : Bool := groupTestF arr (flat nz) g e

def known (g : String) : Bool := VIAL_GROUPS.contains g

/-- the `for g in group` loop of `getVialGroup` on one vial with exposure `e`:
`"all"` sets the mask and breaks, an unknown name raises `ValueError`. -/
def groupLoop (arr : Arr) (nz : Nat) (e : Nat) : List String → Bool → Except String Bool
  | [], acc => .ok acc
  | g :: gs, acc =>
    if g == "all" then .ok true
    else if known g then groupLoop arr nz e gs (acc || groupTest arr nz g e)
    else .error "ValueError"

/-- the vector `VIAL_EXT` -/
def extVec (arr : Arr) (nx ny nz : Nat) : List Nat :=
  (List.range (nTot nx ny nz)).map (ext arr nx ny nz)

/-- the mask of `getVialGroup` from the exposure vector -/
def maskOf (arr : Arr) (nz : Nat) (exts : List Nat) (gs : List String) : Except String (List Bool) :=
  exts.mapM fun e => groupLoop arr nz e gs false

/-- `getVialGroup(group)` (a single string is wrapped into a list by the caller) -/
def getVialGroup (arr : Arr) (nx ny nz : Nat) (gs : List String) : Except String (List Bool) :=
  maskOf arr nz (extVec arr nx ny nz) gs

/-- a cell of the `group` column: a class name, or the bare exposure count when no
assignment of `to_frame` matched -/
inductive Label where
  | name (s : String)
  | num (e : Nat)
deriving DecidableEq, Repr

/-- `group` column of the statistics table: successive `df.loc[df.group == v] = name`
assignments; a cell that already holds a name never equals a number again, so the
first matching assignment wins. -/
def statsLabelF (arr : Arr) (f : Nat) (e : Nat) : Label :=
  match arr with
  | .square =>
    if e == 3 - f then .name "corner"
    else if e == 2 - f then .name "edge"
    else if e == 1 then .name "side"
    else if e == 0 then .name "core"
    else .num e
  | .hexagonal =>
    if e == 5 - f then .name "corner"
    else if e == 1 || e == 2 || e == 3 || e == 4 - f then .name "edge"
    -- the following assignment of "side" to the same values never matches again
    else if e == 0 then .name "core"
    else .num e

def statsLabel (arr : Arr) (nz : Nat) (e : Nat) : Label := statsLabelF arr (flat nz) e

/-- `group` column of the trajectory table (second block of `to_frame`), as repaired
(fix F7): the same assignments as the statistics table. -/
def trajLabelF (arr : Arr) (f : Nat) (e : Nat) : Label :=
  match arr with
  | .square =>
    if e == 3 - f then .name "corner"
    else if e == 2 - f then .name "edge"
    else if e == 1 then .name "side"
    else if e == 0 then .name "core"
    else .num e
  | .hexagonal =>
    if e == 5 - f then .name "corner"
    else if e == 1 || e == 2 || e == 3 || e == 4 - f then .name "edge"
    else if e == 0 then .name "core"
    else .num e

def trajLabel (arr : Arr) (nz : Nat) (e : Nat) : Label := trajLabelF arr (flat nz) e

/-- the trajectory-table labelling before fix F7 (`df.group == 1 - (n_z == 1)` for
`"side"`), kept to state the counter-example -/
def trajLabelUpstreamF (arr : Arr) (f : Nat) (e : Nat) : Label :=
  match arr with
  | .square =>
    if e == 3 - f then .name "corner"
    else if e == 2 - f then .name "edge"
    else if e == 1 - f then .name "side"
    else if e == 0 then .name "core"
    else .num e
  | .hexagonal => trajLabelF .hexagonal f e

def trajLabelUpstream (arr : Arr) (nz : Nat) (e : Nat) : Label := trajLabelUpstreamF arr (flat nz) e

/-- Snowfall's `group=` argument: `"all"` (the bare string) keeps every row; anything
else selects, as repaired (fix K5), the vials of `getVialGroup(group)`.
Result: the selected vial indices in table order. -/
def fallFilter (arr : Arr) (nx ny nz : Nat) (gs : List String) : Except String (List Nat) := do
  let m ← getVialGroup arr nx ny nz gs
  return (List.range m.length).filter fun i => m.getD i false

/-- Snowfall's filter before fix K5: rows whose *label string* is one of the names -/
def fallFilterUpstream (arr : Arr) (nx ny nz : Nat) (gs : List String) : List Nat :=
  (List.range (nTot nx ny nz)).filter fun i =>
    match statsLabel arr nz (ext arr nx ny nz i) with
    | .name s => gs.contains s
    | .num _ => false

/-- canonical class name: `"center"` is `"core"`; `"side"` is `"edge"` on a flat shelf
and in hexagonal packing -/
def canonF (arr : Arr) (f : Nat) (g : String) : String :=
  if g == "center" then "core"
  else if g == "side" && (arr == .hexagonal || f == 1) then "edge"
  else g

def canon (arr : Arr) (nz : Nat) (g : String) : String := canonF arr (flat nz) g

end Snow.Groups
