/-
  Model of the tabular exports:
    * `Snowflake.to_frame(n_timeSteps)`: the long-form statistics table
      (`DataFrame(stats)` + vial index + group label, `melt(id_vars=[group, vial])`)
      and the long-form trajectory table (strided sub-sample of the state matrix,
      `melt(id_vars=[group, vial, state])`);
    * `Snowfall.to_frame()`: `Nrep` copies of the first repetition's table whose
      `(variable, value)` cells of block `i` are overwritten positionally by
      `DataFrame(stats[i]).melt()`, plus the `seed` column;
    * `Snowfall._returnStats` (the accessors): row filters by vial selection, seed, variable.

  Values (`V`: statistics, states, times) are opaque — they are copied, never
  computed.  Group labels are INPUT (their correctness is property C16).

  pandas `melt` is variable-major: for every value column in column order, all
  rows in index order.

  `trajTable false` mirrors the REPAIRED code (fixes/F8.diff: stride `max(1, …)`);
  `trajTable true` is the code before it (stride 0 → `ValueError`).  The time
  vector is an input of its own: if it is longer than the state matrix has columns
  (what `np.arange(0, N*dt, dt)` produced for some `dt` before fixes/F8b.diff) the
  relabelling of the columns raises `ValueError`.
-/
namespace Snow.Frames

structure StatRow (V : Type) where
  group : String
  vial : Nat
  var : String
  value : V
deriving DecidableEq, Repr

structure TrajRow (V : Type) where
  group : String
  vial : Nat
  state : String
  time : V
  value : V
deriving DecidableEq, Repr

structure FallRow (V : Type) where
  group : String
  vial : Nat
  var : String
  value : V
  seed : Nat
deriving DecidableEq, Repr

/-- a `stats` dict: keys in insertion order, one value per vial -/
abbrev Stats (V : Type) := List (String × List V)

section
variable {V : Type} [Inhabited V]

/-- `DataFrame(stats).melt()`: `(variable, index, value)`, variable-major -/
def meltPlain (stats : Stats V) : List (String × Nat × V) :=
  stats.flatMap fun kv => kv.2.zipIdx.map fun xi => (kv.1, xi.2, xi.1)

/-- the statistics table of `Snowflake.to_frame`: vial = index, group = the vial's label -/
def statsTable (labels : List String) (stats : Stats V) : List (StatRow V) :=
  (meltPlain stats).map fun r => ⟨labels.getD r.2.1 "", r.2.1, r.1, r.2.2⟩

/-- indices selected by the slice `[::s]` on a sequence of length `len` (`s ≥ 1`) -/
def sliceIdx (len s : Nat) : List Nat := (List.range ((len + s - 1) / s)).map (· * s)

/-- the trajectory table of `Snowflake.to_frame(n)`.
`X`: the state matrix `_X` (first the temperatures of the `m` stored vials, then
their ice fractions), `t`: the time vector `_t`, `vials`: indices of the stored vials,
`tlabels`: their group labels.  `none`: nothing stored. -/
def trajTable (old : Bool) (X : List (List V)) (t : List V) (n : Nat) (vials : List Nat)
    (tlabels : List String) : Except String (Option (List (TrajRow V))) :=
  let m := vials.length
  if m = 0 then .ok none
  else if n = 1 then .error "ZeroDivisionError"       -- int(ncols / (n_timeSteps - 1))
  else
    let ncols := (X.headD []).length
    let s0 := ncols / (n - 1)
    if old && s0 == 0 then .error "ValueError"        -- slice step cannot be zero
    else
      let s := if old then s0 else max 1 s0
      let cs := sliceIdx ncols s
      if cs.length ≠ (sliceIdx t.length s).length then .error "ValueError"   -- df.columns = t[::s]
      else
        .ok (some (cs.flatMap fun c => (List.range (2 * m)).map fun r =>
          ({ group := tlabels.getD (r % m) "", vial := vials.getD (r % m) 0,
             state := if r < m then "temperature" else "sigma",
             time := t.getD c default, value := (X.getD r []).getD c default } : TrajRow V)))

/-- `Snowfall.to_frame()` for `stats = {i: statsList[i]}` -/
def fallTable (labels : List String) (statsList : List (Stats V)) : Except String (List (FallRow V)) :=
  match statsList with
  | [] => .error "ValueError"                          -- simulation needs to be run first
  | s0 :: _ =>
    let n3 := labels.length * 3
    let f0 := statsTable labels s0
    if f0.length ≠ n3 then .error "Unmodelled"         -- not a 3-key stats dict: outside the model
    else if statsList.any (fun st => (meltPlain st).length != n3) then .error "ValueError"
    else
      .ok (statsList.zipIdx.flatMap fun si =>
        List.zipWith (fun (row : StatRow V) (mv : String × Nat × V) =>
            ({ group := row.group, vial := row.vial, var := mv.1, value := mv.2.2, seed := si.2 } : FallRow V))
          f0 (meltPlain si.1))

/-- the Snowfall object as far as the table is concerned: the stats of the run it
currently holds and the cached table `stats_df` (`none`: empty frame) -/
structure Fall (V : Type) where
  statsList : List (Stats V)
  cache : Option (List (FallRow V))

/-- `Snowfall.run()`: new stats; the cached table is dropped -/
def Fall.run (_f : Fall V) (newStats : List (Stats V)) : Fall V :=
  { statsList := newStats, cache := none }

/-- `Snowfall.to_frame()`: built from the current stats unless a table is cached -/
def Fall.toFrame (labels : List String) (f : Fall V) : Except String (List (FallRow V)) × Fall V :=
  match f.cache with
  | some t => (.ok t, f)
  | none =>
    match fallTable labels f.statsList with
    | .ok t => (.ok t, { f with cache := some t })
    | .error e => (.error e, f)

/-- the `what` argument of `_returnStats` -/
def whatVariable (what : String) : Option String :=
  if what = "tnuc" then some "t_nucleation"
  else if what = "Tnuc" then some "T_nucleation"
  else if what = "tsol" then some "t_solidification"
  else none

/-- row filter of `_returnStats(what, group, seed)`.
`vialSel`: the vials selected by the `group` argument, i.e.
`np.where(Sf_template.getVialGroup(group))[0]` — INPUT (its meaning is C16);
`none` = `group == "all"`.  `seeds`: `none` = `seed is None`. -/
def keep (what : String) (vialSel : Option (List Nat)) (seeds : Option (List Nat)) (r : FallRow V) : Bool :=
  (match vialSel with | none => true | some vs => vs.contains r.vial) &&
  (match seeds with | none => true | some ss => ss.contains r.seed) &&
  (match whatVariable what with | none => true | some v => r.var == v)

def returnStats (what : String) (vialSel : Option (List Nat)) (seeds : Option (List Nat))
    (table : List (FallRow V)) : List V :=
  (table.filter (keep what vialSel seeds)).map (·.value)

end
end Snow.Frames
