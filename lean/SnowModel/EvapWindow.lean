/-
  Top-boundary evaporative term of the 1D Snowing loops (hand-written model, core Lean).

  snowing.py l.653-676 (cooling stage, `t = dt*i`, vapour pressure over the LIQUID) and
  l.848-872 (solidification stage, `t = t_nuc + dt*i`, vapour pressure over ICE):

      if configuration == "VISF":
          T_l = T_v = T_k[-1];  p_vap = vapour_pressure_*(T_l)
          if (t > t_vac_start*3600) & (t < (t_vac_start + t_vac_duration)*3600):
              q_e = -vapour_flux(kappa, m_water, k_B, p_vac, p_vap, T_l, T_v) * dHe
          else: q_e = 0
      else: q_e = 0
      T_top_BC = T_k[Nz-1] + q_e*dz/lambda_eff

  and the cooling-stage update of the top node
      T_top = T_k[Nz-1] + (diffusivity*dt/dz**2) * (T_top_BC - 2*T_k[Nz-1] + T_k[Nz-2]).

  The vapour-pressure and flux formulas are the GENERATED ones (`Gen/Evap.lean`).
-/
import SnowModel.Num
import SnowModel.GenSupport
import SnowModel.Gen.Evap

namespace Snow.EvapWindow
variable {α : Type} [Transc α] [HasPi α]

/-- VISF parameters as read from `const` -/
structure VISF (α : Type) where
  p_vac : α
  kappa : α
  dHe : α
  m_water : α
  k_B : α
  t_vac_start : α      -- hours
  t_vac_duration : α   -- hours

/-- `(t > t_vac_start*3600) & (t < (t_vac_start + t_vac_duration)*3600)` -/
def inWindow (p : VISF α) (t : α) : Bool :=
  decide (p.t_vac_start * Num.lit 3600 0 < t) &&
    decide (t < (p.t_vac_start + p.t_vac_duration) * Num.lit 3600 0)

/-- which correlation gives the surface vapour pressure: the cooling stage uses the
liquid curve, the solidification stage the ice curve (1D code) -/
inductive Stage where
  | cooling | solidification
  deriving DecidableEq, Repr

def pVap (s : Stage) (T_l : α) : α :=
  match s with
  | .cooling => Gen.vapour_pressure_liquid T_l
  | .solidification => Gen.vapour_pressure_solid T_l

/-- evaporative heat flux given the surface vapour pressure (`T_l = T_v = T_top`) -/
def qEOf (isVISF : Bool) (p : VISF α) (t T_top p_vap : α) : α :=
  if isVISF && inWindow p t then
    -(Gen.vapour_flux p.kappa p.m_water p.k_B p.p_vac p_vap T_top T_top) * p.dHe
  else Num.zero

/-- the same with the vapour flux `N_w` left open: `q_e = -N_w dHe` for VISF strictly inside the
window, else 0.  This is the shape shared with the run models (`Snow.qEvap`, `S2D.qEvap`), which
evaluate the flux with their own transcription of `vapour_flux`. -/
def qEWith (isVISF : Bool) (p : VISF α) (t N_w : α) : α :=
  if isVISF && inWindow p t then (-N_w) * p.dHe else Num.zero

/-- `q_e` of one step -/
def qE (isVISF : Bool) (p : VISF α) (s : Stage) (t T_top : α) : α :=
  qEOf isVISF p t T_top (pVap s T_top)

/-- ghost value above the top node -/
def topGhost (T_top q_e dz lambda_eff : α) : α := T_top + q_e * dz / lambda_eff

/-- cooling-stage update of the top node (`fo = diffusivity*dt/dz**2`) -/
def coolTopStep (fo T_top T_below T_top_BC : α) : α :=
  T_top + fo * (T_top_BC - Num.lit 2 0 * T_top + T_below)

/-- one cooling step of the top node at step index `i` (`t = dt*i`) -/
def coolTop (isVISF : Bool) (p : VISF α) (dt : α) (i : Nat) (dz lambda_eff diffusivity T_top T_below : α) : α :=
  let t := dt * Num.ofNat' i
  let q_e := qE isVISF p .cooling t T_top
  coolTopStep (diffusivity * dt / Transc.pow dz (Num.lit 2 0)) T_top T_below (topGhost T_top q_e dz lambda_eff)

/-- A whole stage of the loop, abstracted: the loop body is an ARBITRARY function `F` of the
evaporative flux `q_e`, the step index and the state (the configuration enters the body of
snowing.py's 1D loops only through `q_e`: l.653-679 and l.848-875); `top` reads the top
temperature off the state; step `i` is taken at time `t0 + dt*i`. -/
def runStage {σ : Type} (isVISF : Bool) (p : VISF α) (s : Stage) (dt t0 : α) (top : σ → α)
    (F : α → Nat → σ → σ) : Nat → σ → σ
  | 0, st => st
  | n + 1, st =>
    let st' := runStage isVISF p s dt t0 top F n st
    F (qE isVISF p s (t0 + dt * Num.ofNat' n) (top st')) n st'

end Snow.EvapWindow
