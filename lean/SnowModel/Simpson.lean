/-
  Model of `scipy.integrate.simpson(y, x=x)` (SciPy ≥ 1.11 semantics, as in the
  pinned SciPy 1.18) for 1-D samples: composite Simpson rule for irregular
  spacing, with the Cartwright correction for an even number of samples.
  `ethz_snow.snowing` calls it as `simps(y, x)` (through the harness shim).

  Sums are taken left to right (numpy sums pairwise; the difference is rounding).
-/
import SnowModel.Num

namespace Snow
open Num

section
variable {α : Type} [Num α]

/-- `a / b` where `b ≠ 0`, else `0` (`apply_where(den != 0, …, fill_value=0)`) -/
@[inline] def divOr0 (a b : α) : α := if eqb b zero then zero else a / b

def sumList (xs : List α) : α := xs.foldl (· + ·) zero

@[inline] def nth (l : List α) (i : Nat) : α := l.getD i zero

/-- one parabolic segment over `x[i], x[i+1], x[i+2]` -/
def simpsonTerm (y x : List α) (i : Nat) : α :=
  let h0 := nth x (i + 1) - nth x i
  let h1 := nth x (i + 2) - nth x (i + 1)
  let hsum := h0 + h1
  let hprod := h0 * h1
  let h0divh1 := divOr0 h0 h1
  hsum / ofNat' 6 *
    (nth y i * (ofNat' 2 - divOr0 one h0divh1)
      + nth y (i + 1) * (hsum * divOr0 hsum hprod)
      + nth y (i + 2) * (ofNat' 2 - h0divh1))

/-- `_basic_simpson(y, 0, stop, x)`: segments starting at `0, 2, 4, … < stop` -/
def basicSimpson (y x : List α) (stop : Nat) : α :=
  sumList ((List.range ((stop + 1) / 2)).map fun k => simpsonTerm y x (2 * k))

/-- `scipy.integrate.simpson(y, x=x)` for `len y = len x = N ≥ 1` -/
def simpson (y x : List α) : α :=
  let N := y.length
  if N % 2 == 0 then
    if N == 2 then
      (lit 5 1) * (nth x 1 - nth x 0) * (nth y 1 + nth y 0)
    else if N == 0 then zero
    else
      let result := basicSimpson y x (N - 3)
      let h0 := nth x (N - 2) - nth x (N - 3)
      let h1 := nth x (N - 1) - nth x (N - 2)
      let alpha := divOr0 (ofNat' 2 * (h1 * h1) + ofNat' 3 * h0 * h1) (ofNat' 6 * (h1 + h0))
      let beta := divOr0 (h1 * h1 + ofNat' 3 * h0 * h1) (ofNat' 6 * h0)
      let eta := divOr0 (one * (h1 * h1 * h1)) (ofNat' 6 * h0 * (h0 + h1))
      result + alpha * nth y (N - 1) + beta * nth y (N - 2) - eta * nth y (N - 3)
  else
    basicSimpson y x (N - 2)

/-- `np.linspace(0, stop, n)` for `n ≥ 2`: `i * (stop/(n-1))`, last point exactly `stop` -/
def linspace0 (stop : α) (n : Nat) : List α :=
  (List.range n).map fun i =>
    if i + 1 == n then stop else ofNat' i * (stop / ofNat' (n - 1))

end
end Snow
