/-
  Model of `Snowing._run_1D` (snowing.py l.535-1005): vertical temperature profile
  in a single vial, explicit finite differences with ghost points.

  Stages:
    `grid1D`       – Nz = 30, dz = height/Nz, z = linspace(0, height, Nz) (the code's
                     mismatch dz ≠ z[1]−z[0] is kept), dt from the CFL number 0.4,
    `coolStep1D`   – ghost-point boundary values (shelf flux at the bottom, evaporative
                     flux at the top for VISF inside the vacuum window), the explicit
                     stencil, J_z over the supercooled mask, K_v = A·simpson(J_z, z),
                     the strided save, the hazard accumulation,
    `coolStop1D`   – stochastic test, or the controlled-nucleation test in its
                     REPAIRED form `T_k.min() <= cnTemp + 273.15`;
                     `cnTestOld` is the test of the current code (`T_k.any() <= …`),
    `nucleate1D`   – T_nuc statistics, vectorised quadratic with masks, extra row,
    `solidStep1D`  – apparent-heat-capacity step (cp, lambda_eff, beta, BETA, three
                     stencil pieces), m_ice / w_i_k, strided save, sigma_new,
    `run1D`        – assembly with the slices `[: i_save_end+1]`, `[: i_save−1]`,
                     the two `ValueError`s and the `IndexError` of the extra row.

  Every saved row carries the ghost field `step` (the loop index it was written
  at); it is model bookkeeping used by the alignment theorems of C13.
-/
import SnowModel.SnowingTypes
import SnowModel.SnowingLoop
import SnowModel.SimpsonArr
import SnowModel.EvapFormulas
import SnowModel.Snowing0D

namespace Snow
open Num

/-- one row of the save buffers -/
structure Row (α : Type) where
  /-- loop index (cooling: `i`; solidification: `i_end + i`) – ghost -/
  step : Nat
  /-- seconds -/
  time : α
  /-- °C -/
  shelf : α
  /-- °C -/
  temp : Array α
  ice : Array α

/-- `self._stats` of the 1D model -/
structure Stats1D (α : Type) where
  T_nuc_min : α
  T_nuc_kin : α
  T_nuc_mean : α
  T_nuc_max : α
  t_nuc : α
  t_sol : Option α
  t_fr : Option α

/-- discretisation constants of `_run_1D` -/
structure Grid1D (α : Type) where
  Nz : Nat
  dz : α
  z : Array α
  dt : α
  NtExp : Nat
  /-- `lambda_eff` of the cooling stage -/
  lam0 : α
  /-- `diffusivity_cooling * dt / dz**2` -/
  fo : α

structure Cool1D (α : Type) where
  T : Array α
  E : α
  Kv : α
  Jz : Array α
  buf : Array (Row α)
  oob : Bool
  /-- `T_shelf` of the last executed iteration -/
  Tshelf : α
  Etrace : Array α

structure Solid1D (α : Type) where
  T : Array α
  w : Array α
  buf : Array (Row α)
  oob : Bool
  solEnd : Option Nat
  /-- `sigma_new` of the last step -/
  sg : α
  sigma : Array α

structure Result1D (α : Type) where
  exc : Option String
  stage : String
  n : Nat
  dt : α
  NtCoolEnd : Option Nat
  NtSolEnd : Option Nat
  stats : Option (Stats1D α)
  /-- rows of `time/shelfTemp/temp/iceMassFraction` (time still in seconds) -/
  hist : Option (Array (Row α))
  iSaveEnd : Nat
  iSaveSolid : Nat
  Etrace : Array α
  sigma : Array α
  /-- the field at the nucleation instant (K) -/
  Tnuc : Array α

/-- `Nz = 30` -/
def NzCode : Nat := 30

section
variable {α : Type} [Num α]

/-- mask as a number: `True → 1`, `False → 0` (numpy multiplies by the mask) -/
@[inline] def maskNum (b : Bool) : α := if b then one else zero

/-- explicit stencil of the cooling stage with ghost values `Tb` (below node 0) and
`Tt` (above node Nz−1) -/
@[specialize] def coolStencil (c Tb Tt : α) (T : Array α) : Array α :=
  let n := T.size
  Array.ofFn (n := n) fun j =>
    let Tj := aget T j.val
    if j.val = 0 then Tj + c * (aget T 1 - ofNat' 2 * Tj + Tb)
    else if j.val + 1 = n then Tj + c * (Tt - ofNat' 2 * Tj + aget T (n - 2))
    else Tj + c * (aget T (j.val + 1) - ofNat' 2 * Tj + aget T (j.val - 1))

/-- minimum of a field (`T_k.min()`), `0` for an empty array -/
def minA (a : Array α) : α := a.foldl (fun m x => Num.min m x) (aget a 0)
/-- maximum of a field (`T_k.max()`) -/
def maxA (a : Array α) : α := a.foldl (fun m x => Num.max m x) (aget a 0)
/-- `np.mean` (summed left to right; numpy sums pairwise – a rounding difference) -/
def meanA (a : Array α) : α := sumList a.toList / ofNat' a.size

/-- REPAIRED controlled-nucleation test `T_k.min() <= cnTemp + 273.15` -/
@[inline] def cnTest (cn : α) (T : Array α) : Bool := decide (minA T ≤ cn + lit 27315 2)

/-- the test of the CURRENT code, `T_k.any() <= cnTemp + 273.15`: `.any()` is a
boolean, compared as the number 1 (or 0) with a temperature in kelvin -/
@[inline] def cnTestOld (cn : α) (T : Array α) : Bool :=
  decide ((maskNum (T.any fun t => !(eqb t zero)) : α) ≤ cn + lit 27315 2)

end

section
variable {α : Type} [Transc α]

/-- the discretisation (l.604-623) -/
def grid1D (p : SnowIn α) (Nz : Nat) : Grid1D α :=
  let k := p.const
  let lam0 := k.solid_fraction * k.lambda_s + (one - k.solid_fraction) * k.lambda_w
  let diff := lam0 / (k.cp_solution * k.rho_l)
  let dz := k.height / ofNat' Nz
  let z := linspace0A k.height Nz
  let alpha_max := k.lambda_i / (k.cp_i * k.rho_l)
  let dt := lit 4 1 * (dz * dz) / alpha_max
  { Nz := Nz, dz := dz, z := z, dt := dt, NtExp := nSteps p.oc.t_tot dt, lam0 := lam0,
    fo := diff * dt / (dz * dz) }

/-- evaporative heat flux `q_e` at the top (l.653-673 / l.848-868): only for VISF and
only strictly inside the vacuum window; `pvap` is the vapour-pressure law of the stage -/
@[inline] def qEvap (p : SnowIn α) (pvap : α → α) (t Ttop : α) : α :=
  match p.visf with
  | none => zero
  | some v =>
    if v.t_vac_start * ofNat' 3600 < t ∧ t < (v.t_vac_start + v.t_vac_duration) * ofNat' 3600 then
      let Nw := Evap.vapourFlux v.kappa v.m_water p.const.k_B v.p_vac (pvap Ttop) Ttop Ttop
      (-Nw) * v.dHe
    else zero

/-- `J_z`: `kb (T_eq_l − T)^b` on the supercooled mask, 0 elsewhere -/
@[specialize] def rateField (p : SnowIn α) (T : Array α) : Array α :=
  let kb := p.kb
  let Tl := p.T_eq_l
  T.map fun t => nucRate kb p.const.b Tl t

/-- `K_v = A * simps(J_z, z)` -/
@[inline] def KvOf (p : SnowIn α) (g : Grid1D α) (Jz : Array α) : α := p.const.A * simpsonA Jz g.z

/-- the temperature update of one cooling step (l.648-695) -/
@[specialize] def coolField1D (p : SnowIn α) (g : Grid1D α) (i : Nat) (T : Array α) (Tshelf : α) : Array α :=
  let T0 := aget T 0
  let Tl := aget T (g.Nz - 1)
  let q := p.Kshelf * (Tshelf - T0)
  let Tb := T0 + q * g.dz / g.lam0
  let qe := qEvap p Evap.vapourPressureLiquid (g.dt * ofNat' i) Tl
  let Tt := Tl + qe * g.dz / g.lam0
  coolStencil g.fo Tb Tt T

/-- one cooling iteration up to and including `E_t += K_v*dt` (l.648-724) -/
@[specialize] def coolStep1D (p : SnowIn α) (g : Grid1D α) (stride : Nat) (i : Nat) (s : Cool1D α) (Tshelf : α) :
    Cool1D α :=
  let T := coolField1D p g i s.T Tshelf
  let Jz := rateField p T
  let Kv := KvOf p g Jz
  let (buf, oob) :=
    if i % stride == 0 then
      saveRow NSave (s.buf, s.oob)
        { step := i, time := g.dt * ofNat' i, shelf := Tshelf - lit 27315 2,
          temp := T.map (· - lit 27315 2), ice := T.map (zero * ·) }
    else (s.buf, s.oob)
  let E := s.E + Kv * g.dt
  { T := T, E := E, Kv := Kv, Jz := Jz, buf := buf, oob := oob, Tshelf := Tshelf,
    Etrace := s.Etrace.push E }

/-- the test that ends the cooling stage; `old = true` selects the current code's
controlled-nucleation test -/
@[inline] def coolStop1D (p : SnowIn α) (old : Bool) (s : Cool1D α) : Bool :=
  match p.cnTemp with
  | none => hazardStop p.Frand s.E
  | some cn => if old then cnTestOld cn s.T else cnTest cn s.T

def coolInit1D (p : SnowIn α) (g : Grid1D α) : Cool1D α :=
  { T := Array.replicate g.Nz (zero + p.T_0), E := zero, Kv := zero, Jz := #[], buf := #[],
    oob := false, Tshelf := zero, Etrace := #[] }

def cool1D (p : SnowIn α) (g : Grid1D α) (old : Bool) (shelf : List α) : Option Nat × Cool1D α :=
  loopUntil (coolStep1D p g (saveStride g.NtExp)) (coolStop1D p old) shelf 0 (coolInit1D p g)

/-- kinetic mean nucleation temperature (l.747-750) -/
def TnucKin (p : SnowIn α) (g : Grid1D α) (s : Cool1D α) : α :=
  if zero < s.Kv then
    (p.const.A / s.Kv) * simpsonA (Array.zipWith (· * ·) s.T s.Jz) g.z
  else lit 27315 2

/-- the part of `_stats` written at nucleation (l.753-763) -/
def nucStats1D (p : SnowIn α) (g : Grid1D α) (i : Nat) (s : Cool1D α) : Stats1D α :=
  { T_nuc_min := minA s.T - lit 27315 2,
    T_nuc_kin := TnucKin p g s - lit 27315 2,
    T_nuc_mean := meanA s.T - lit 27315 2,
    T_nuc_max := maxA s.T - lit 27315 2,
    t_nuc := g.dt * ofNat' i / ofNat' 60,
    t_sol := none, t_fr := none }

/-- `(T_after_nuc, m_i_eq)` (l.768-789): masks multiplied in as numbers -/
def nucleate1D (p : SnowIn α) (T : Array α) : Array α × Array α :=
  let Tl := p.T_eq_l
  let Ta := T.map fun t =>
    let l : α := maskNum (decide (t < Tl))
    let r : α := maskNum (!decide (t < Tl))
    t * r + nucTeq p t * l
  let mi := T.map fun t =>
    let l : α := maskNum (decide (t < Tl))
    let r : α := maskNum (!decide (t < Tl))
    zero * t * r + iceMassEq p (nucTeq p t) * l
  (Ta, mi)

/-- one solidification iteration (l.822-943); `i` counts from 0, `iEnd` is the
nucleation step, `tNuc = dt * iEnd` -/
@[specialize] def solidStep1D (p : SnowIn α) (g : Grid1D α) (stride iEnd : Nat) (tNuc : α) (i : Nat)
    (s : Solid1D α) (Tshelf : α) : Solid1D α :=
  let k := p.const
  let Nz := g.Nz
  let T := s.T
  let Tl := p.T_eq_l
  let Tm := p.T_m
  let dz2 := g.dz * g.dz
  let cp := s.w.map fun w => k.cp_s * k.solid_fraction + k.cp_i * w + k.cp_w * (one - k.solid_fraction - w)
  let lam := s.w.map fun w => k.lambda_i * w + k.lambda_w * (one - w)
  let BETA := Array.ofFn (n := Nz) fun j =>
    let t := aget T j.val
    let beta := k.Dh * k.k_f * k.mass_solute / (k.M_s * k.rho_l * k.V * aget cp j.val)
    let l : α := maskNum (decide (t < Tl))
    let r : α := maskNum (!decide (t < Tl))
    one * r + (one + beta / ((t - Tm) * (t - Tm))) * l
  let T0 := aget T 0
  let Ttop := aget T (Nz - 1)
  let q := p.Kshelf * (Tshelf - T0)
  let Tb := T0 + q * g.dz / aget lam 0
  let qe := qEvap p Evap.vapourPressureSolid (tNuc + g.dt * ofNat' i) Ttop
  let Tt := Ttop + qe * g.dz / aget lam (Nz - 1)
  let Tn := Array.ofFn (n := Nz) fun j =>
    let jv := j.val
    let Tj := aget T jv
    let pre := g.dt / (aget cp jv * k.rho_l)
    let inv := one / aget BETA jv
    if jv = 0 then
      Tj + pre * ((aget lam 1 - aget lam 0) * (aget T 1 - Tb) / (ofNat' 4 * dz2)
                  + aget lam 0 * (aget T 1 - ofNat' 2 * Tj + Tb) / dz2) * inv
    else if jv + 1 = Nz then
      Tj + pre * ((aget lam (Nz - 1) - aget lam (Nz - 2)) * (Tt - aget T (Nz - 2)) / (ofNat' 4 * dz2)
                  + aget lam (Nz - 1) * (Tt - ofNat' 2 * Tj + aget T (Nz - 2)) / dz2) * inv
    else
      Tj + pre * ((aget lam (jv + 1) - aget lam (jv - 1)) * (aget T (jv + 1) - aget T (jv - 1)) / (ofNat' 4 * dz2)
                  + aget lam jv * (aget T (jv + 1) - ofNat' 2 * Tj + aget T (jv - 1)) / dz2) * inv
  let mIce := Tn.map fun t =>
    let l : α := maskNum (decide (t < Tl))
    let r : α := maskNum (!decide (t < Tl))
    zero * r + iceMassEq p t * l
  let w := mIce.map (· / k.mass)
  let (buf, oob) :=
    if i % stride == 0 then
      saveRow NSave (s.buf, s.oob)
        { step := iEnd + i, time := tNuc + g.dt * ofNat' i, shelf := Tshelf - lit 27315 2,
          temp := Tn.map (· - lit 27315 2), ice := w }
    else (s.buf, s.oob)
  let sg := (one / aget g.z (Nz - 1)) * simpsonA mIce g.z / (k.mass - k.mass_solute)
  { T := Tn, w := w, buf := buf, oob := oob,
    solEnd := firstHit s.solEnd (decide (lit 9 1 ≤ sg)) i, sg := sg, sigma := s.sigma.push sg }

/-- `_run_1D` on the sampled shelf profile `shelf` (K) with `Nz` grid points;
`old = true` uses the controlled-nucleation test of the current code -/
def run1DOn (p : SnowIn α) (Nz : Nat) (old : Bool) (shelf : List α) : Result1D α :=
  let g := grid1D p Nz
  let n := shelf.length
  let k := p.const
  match cool1D p g old shelf with
  | (none, s) =>
    { exc := some "ValueError", stage := "nucleation", n := n, dt := g.dt, NtCoolEnd := none,
      NtSolEnd := none, stats := none, hist := none, iSaveEnd := s.buf.size, iSaveSolid := 0,
      Etrace := s.Etrace, sigma := #[], Tnuc := #[] }
  | (some iEnd, s) =>
    let st0 := nucStats1D p g iEnd s
    let tNuc := g.dt * ofNat' iEnd
    let (Ta, mi) := nucleate1D p s.T
    let w0 := mi.map (· / (k.mass_water + k.mass_solute))
    -- the extra post-nucleation row at index i_save
    let (bufC, oobC) := saveRow NSave (s.buf, s.oob)
      { step := iEnd, time := g.dt * ofNat' iEnd, shelf := s.Tshelf - lit 27315 2,
        temp := Ta.map (· - lit 27315 2), ice := w0 }
    if oobC then
      { exc := some "IndexError", stage := "nucleation-row", n := n, dt := g.dt, NtCoolEnd := some iEnd,
        NtSolEnd := none, stats := some st0, hist := none, iSaveEnd := s.buf.size, iSaveSolid := 0,
        Etrace := s.Etrace, sigma := #[], Tnuc := s.T }
    else
      let NtSolid := g.NtExp - iEnd
      let sol := iterIdx (solidStep1D p g (saveStride NtSolid) iEnd tNuc) (shelf.drop iEnd) 0
        { T := Ta, w := w0, buf := #[], oob := false, solEnd := none, sg := zero, sigma := #[] }
      if sol.oob then
        { exc := some "IndexError", stage := "solidification-row", n := n, dt := g.dt,
          NtCoolEnd := some iEnd, NtSolEnd := none, stats := some st0, hist := none,
          iSaveEnd := s.buf.size, iSaveSolid := sol.buf.size, Etrace := s.Etrace, sigma := sol.sigma,
          Tnuc := s.T }
      else
      match sol.solEnd with
      | none =>
        { exc := some "ValueError", stage := "solidification", n := n, dt := g.dt,
          NtCoolEnd := some iEnd, NtSolEnd := none, stats := some st0, hist := none,
          iSaveEnd := s.buf.size, iSaveSolid := sol.buf.size, Etrace := s.Etrace, sigma := sol.sigma,
          Tnuc := s.T }
      | some iS =>
        let st : Stats1D α :=
          { st0 with t_sol := some (g.dt * ofNat' iS / ofNat' 60),
                     t_fr := some ((tNuc + g.dt * ofNat' iS) / ofNat' 60) }
        { exc := none, stage := "", n := n, dt := g.dt, NtCoolEnd := some iEnd, NtSolEnd := some iS,
          stats := some st, hist := some (bufC ++ sol.buf.extract 0 (sol.buf.size - 1)),
          iSaveEnd := s.buf.size, iSaveSolid := sol.buf.size, Etrace := s.Etrace, sigma := sol.sigma,
          Tnuc := s.T }

/-- `Snowing._run_1D()` with the REPAIRED controlled-nucleation test -/
def run1D (p : SnowIn α) : Result1D α :=
  run1DOn p NzCode false ((p.shelfK (grid1D p NzCode).dt))

/-- `Snowing._run_1D()` as the code is today (defect F4 in the `cnTemp` branch) -/
def run1DOld (p : SnowIn α) : Result1D α :=
  run1DOn p NzCode true ((p.shelfK (grid1D p NzCode).dt))

end
end Snow
