/-
  Model of the repetition logic of `ethz_snow.snowing.Snowing`:
  `run(how)` dispatch for `Nrep = 1` / `Nrep > 1`, `sequential | async`,
  the attributes `_stats`, `_statsMultiple`, `_keys`, `_simulationStatus`, and the
  `results` table.

  One simulation `_run_xD(seed)` is abstract: it re-seeds the GLOBAL legacy numpy
  generator with 2024, draws the kinetic normal, re-seeds it with `seed` and draws
  `F_rand`; everything else it reads is configuration.  A draw is identified by its
  position `(seed, index)`; the simulated row is `sim xiPos frandPos` for an
  arbitrary function `sim` (the numerics are other properties' business).

  `runObj` mirrors the REPAIRED code (fixes/F5.diff: `sequential` stores the rows it
  computes); `runObjOld` is the code before it (rows discarded).
-/
namespace Snow.SnowingObj

/-- position of a draw in a legacy-generator stream -/
abbrev DrawPos := Nat × Nat

/-- the process-global legacy generator `np.random`: last seed given to
`np.random.seed` (none: never seeded here) and draws made since -/
structure World where
  gseed : Option Nat
  gpos : Nat
deriving DecidableEq, Repr

/-- what a recorder on `np.random.seed / rand / random` sees -/
inductive Ev where
  | seed (s : Nat)
  | draw
deriving DecidableEq, Repr

section
variable {Row : Type}

/-- `_run_xD(seed)`: the row and the state of the global generator afterwards.
The incoming state of the global generator is not read. -/
def runXD (sim : DrawPos → DrawPos → Row) (seed : Nat) (_w : World) : Row × World × List Ev :=
  (sim (2024, 0) (seed, 0), { gseed := some seed, gpos := 1 },
   [.seed 2024, .draw, .seed seed, .draw])

/-- the Snowing object -/
structure Obj (Row : Type) where
  nrep : Nat
  stats : Option Row                      -- `_stats` (none: still `{}`)
  multi : Option (List (Nat × Row))       -- `_statsMultiple` (none: attribute missing)
  keys : Bool                             -- `_keys` assigned
  status : Bool                           -- `_simulationStatus == 1`
deriving Repr

instance [DecidableEq Row] : DecidableEq (Obj Row) := by
  intro a b; cases a; cases b; simp only [Obj.mk.injEq]; exact inferInstance

/-- `Snowing(Nrep = n, …)` -/
def mkObj (n : Nat) : Obj Row :=
  { nrep := n, stats := none, multi := if n > 1 then some [] else none, keys := false, status := false }

inductive How where
  | sequential
  | async (chunks : List (List Nat))   -- how the pool batches the tasks `0 … Nrep-1`
  | other                              -- any other string: no branch is taken
deriving DecidableEq, Repr

/-- run the seeds of one list in order, threading the global generator -/
def runSeeds (sim : DrawPos → DrawPos → Row) : List Nat → World → List (Nat × Row) × World × List Ev
  | [], w => ([], w, [])
  | i :: is, w =>
    let r := runXD sim i w
    let rest := runSeeds sim is r.2.1
    ((i, r.1) :: rest.1, rest.2.1, r.2.2 ++ rest.2.2)

/-- the pool: every chunk runs in a worker on a private copy of the object and of
the global generator (`w` is only its starting value); `starmap_async(...).get()`
returns the rows in task order, and `{i: r for i, r in enumerate(res)}` numbers
them by position -/
def poolRows (sim : DrawPos → DrawPos → Row) (chunks : List (List Nat)) (w : World) : List (Nat × Row) :=
  let res := chunks.flatMap fun ch => (runSeeds sim ch w).1.map (·.2)
  (List.range res.length).zip res

/-- `Snowing.run(how)` after the repair -/
def runObj (sim : DrawPos → DrawPos → Row) (how : How) (o : Obj Row) (w : World) :
    Obj Row × World × List Ev :=
  if o.nrep = 1 then
    let r := runXD sim 0 w
    ({ o with stats := some r.1, status := true }, r.2.1, r.2.2)
  else
    match how with
    | .sequential =>
      let r := runSeeds sim (List.range o.nrep) w
      ({ o with multi := some r.1, stats := (r.1.getLast?.map (·.2)).or o.stats,
                keys := true, status := true }, r.2.1, r.2.2)
    | .async chunks =>
      ({ o with multi := some (poolRows sim chunks w), keys := true, status := true }, w, [])
    | .other => ({ o with keys := true, status := true }, w, [])

/-- `Snowing.run(how)` before the repair: `sequential` discards the rows -/
def runObjOld (sim : DrawPos → DrawPos → Row) (how : How) (o : Obj Row) (w : World) :
    Obj Row × World × List Ev :=
  if o.nrep = 1 then
    let r := runXD sim 0 w
    ({ o with stats := some r.1, status := true }, r.2.1, r.2.2)
  else
    match how with
    | .sequential =>
      let r := runSeeds sim (List.range o.nrep) w
      ({ o with stats := (r.1.getLast?.map (·.2)).or o.stats, keys := true, status := true },
       r.2.1, r.2.2)
    | .async chunks =>
      ({ o with multi := some (poolRows sim chunks w), keys := true, status := true }, w, [])
    | .other => ({ o with keys := true, status := true }, w, [])

/-- the `results` property: a table keyed by seed, or the exception class -/
def results (o : Obj Row) : Except String (List (Nat × Row)) :=
  if o.status = false then .error "AssertionError"
  else if o.nrep = 1 then
    match o.stats with
    | some r => .ok [(0, r)]
    | none => .ok []
  else if o.nrep > 1 then
    match o.multi with
    | none => .error "AttributeError"
    | some rows =>
      if o.keys = false then .error "AttributeError"
      else if rows.isEmpty then .error "ValueError"   -- 0 columns, `columns = _keys` has 4/7 names
      else .ok rows
  else .ok []

/-- the table the property promises: row `i` is the single run with seed `i` -/
def table (sim : DrawPos → DrawPos → Row) (n : Nat) : List (Nat × Row) :=
  (List.range n).map fun i => (i, sim (2024, 0) (i, 0))

end

/-- the batches `multiprocessing.Pool` makes of `n` tasks for `p` workers -/
def poolChunksAux (size : Nat) : Nat → List Nat → List (List Nat)
  | 0, _ => []
  | _, [] => []
  | fuel + 1, l => l.take size :: poolChunksAux size fuel (l.drop size)

def poolChunks (n p : Nat) : List (List Nat) :=
  let size := (n + 4 * p - 1) / (4 * p)
  if size = 0 then [] else poolChunksAux size n (List.range n)

end Snow.SnowingObj
