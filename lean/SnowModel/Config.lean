/-
  Configuration trees of `ethz_snow.constants` (hand-written model, core Lean only).

  * `Cfg α`            – a loaded YAML document: `leaf v | node [(key, sub-tree)]`
                         (Python: scalar | dict, insertion ordered, keys are strings)
  * `allKeys`          – `_getAllKeys`      (all key NAMES at every depth of dict-valued entries)
  * `update`           – `_nestedDictUpdate` (Mapping values recurse with `d.get(k, {})`, others overwrite)
  * `clash/clashKind`  – whether / with which exception class the update raises (mapping over scalar)
  * `reported`         – the key set printed in the WARNING line (`set(newKeys) - set(validKeys)`)
  * `item/pyFloat/pyStr/rawStr` – `config[a][b]`, `float(·)`, `str(·)`, a bare string value
  * `loadConfig`       – `_loadConfig`
  * `snowingDispatch`  – the `if/elif` chain of `Snowing.run`

  Numbers are inputs: the harness sends every scalar that Python's `float()` accepts
  (int, float, numeric string such as `2500.9e3`) as the double `float()` returns
  (YAML parsing and `float(str)` are trusted; a numeric string also keeps its text),
  every other string as a string.
-/
import SnowModel.Num

namespace Snow

/-- a YAML scalar as the model sees it -/
inductive Val (α : Type) where
  | num : α → Val α          -- a YAML int / float / bool: `float()` converts it, it is not a `str`
  | nstr : α → String → Val α -- a string that `float()` accepts (`2500.9e3`, `1e-3`): its value and its text
  | str : String → Val α     -- a string `float()` rejects
  | null : Val α             -- YAML `~` / empty value (Python `None`)
  deriving Repr

/-- a loaded YAML document -/
inductive Cfg (α : Type) where
  | leaf : Val α → Cfg α
  | node : List (String × Cfg α) → Cfg α

namespace Cfg
variable {α : Type}

/-! ### association lists (Python dict with string keys, insertion ordered) -/

/-- `d.get(k)` -/
def find? : List (String × Cfg α) → String → Option (Cfg α)
  | [], _ => none
  | (k', v) :: es, k => if k' = k then some v else find? es k

/-- `d[k] = v` (an existing key keeps its position, a new key is appended) -/
def setKey : List (String × Cfg α) → String → Cfg α → List (String × Cfg α)
  | [], k, v => [(k, v)]
  | (k', v') :: es, k, v => if k' = k then (k', v) :: es else (k', v') :: setKey es k v

def keys (es : List (String × Cfg α)) : List String := es.map (·.1)

/-! ### `_getAllKeys` -/

mutual
/-- `_getAllKeys(dl)`: the keys of `dl` and of every dict-valued entry below it, as a list
(the code only ever uses it as a set). A non-dict yields nothing. -/
def allKeys : Cfg α → List String
  | .leaf _ => []
  | .node es => allKeysL es ++ keys es
def allKeysL : List (String × Cfg α) → List String
  | [] => []
  | (_, v) :: es => allKeys v ++ allKeysL es
end

/-! ### `_nestedDictUpdate` -/

mutual
/-- `_nestedDictUpdate(d, u)` for a dict `u`.  The case `d` not a dict (a scalar of the
default tree overridden by a mapping) is a `TypeError` in Python unless `u` is empty;
the model detects it beforehand with `clash` and returns `d` here. -/
def update : Cfg α → Cfg α → Cfg α
  | .node ds, .node us => .node (updateL ds us)
  | .leaf x, .node _ => .leaf x
  | _, .leaf y => .leaf y
/-- the `for k, v in u.items()` loop -/
def updateL : List (String × Cfg α) → List (String × Cfg α) → List (String × Cfg α)
  | ds, [] => ds
  | ds, (k, v) :: us =>
    match v with
    | .leaf _ => updateL (setKey ds k v) us
    | .node _ => updateL (setKey ds k (update ((find? ds k).getD (.node [])) v)) us
end

mutual
/-- `_nestedDictUpdate(d, u)` raises `TypeError`: some mapping of `u` with at least one
entry meets a non-dict value of `d` (`d[k2] = …` on a float / str / None). -/
def clash : Cfg α → Cfg α → Bool
  | .node ds, .node us => clashL ds us
  | .leaf _, .node us => !us.isEmpty
  | _, .leaf _ => false
def clashL : List (String × Cfg α) → List (String × Cfg α) → Bool
  | _, [] => false
  | ds, (k, v) :: us =>
    match v with
    | .leaf _ => clashL (setKey ds k v) us
    | .node _ =>
      clash ((find? ds k).getD (.node [])) v
        || clashL (setKey ds k (update ((find? ds k).getD (.node [])) v)) us
end

mutual
/-- WHICH exception the clash is, in the traversal order of `_nestedDictUpdate`: for the first entry
`(k2, v2)` of a mapping that meets a scalar `d`, a mapping `v2` fails at `d.get(k2, {})`
(`AttributeError`: 'float' object has no attribute 'get'), a scalar `v2` at `d[k2] = v2` (`TypeError`). -/
def clashKind : Cfg α → Cfg α → Option String
  | .node ds, .node us => clashKindL ds us
  | .leaf _, .node us =>
    match us with
    | [] => none
    | (_, .node _) :: _ => some "AttributeError"
    | (_, .leaf _) :: _ => some "TypeError"
  | _, .leaf _ => none
def clashKindL : List (String × Cfg α) → List (String × Cfg α) → Option String
  | _, [] => none
  | ds, (k, v) :: us =>
    match v with
    | .leaf _ => clashKindL (setKey ds k v) us
    | .node _ =>
      match clashKind ((find? ds k).getD (.node [])) v with
      | some e => some e
      | none => clashKindL (setKey ds k (update ((find? ds k).getD (.node [])) v)) us
end

/-! ### the unknown-key report -/

def dedup : List String → List String
  | [] => []
  | k :: ks => if ks.contains k then dedup ks else k :: dedup ks

/-- `set(newKeys) - set(validKeys)` (as a duplicate-free list; order is not observable) -/
def reported (d u : Cfg α) : List String :=
  dedup ((allKeys u).filter fun k => !(allKeys d).contains k)

mutual
/-- `u` without the entries (at any depth) whose key NAME is not in `K` -/
def prune (K : List String) : Cfg α → Cfg α
  | .leaf v => .leaf v
  | .node es => .node (pruneL K es)
def pruneL (K : List String) : List (String × Cfg α) → List (String × Cfg α)
  | [] => []
  | (k, v) :: es => if K.contains k then (k, prune K v) :: pruneL K es else pruneL K es
end

/-! ### lookups -/

/-- path lookup `c[p0][p1]…` (no error classes) -/
def get? : Cfg α → List String → Option (Cfg α)
  | c, [] => some c
  | .leaf _, _ :: _ => none
  | .node es, k :: ks =>
    match find? es k with
    | none => none
    | some c => get? c ks

/-- `c[k]` with Python's exception classes -/
def item (c : Cfg α) (k : String) : Except String (Cfg α) :=
  match c with
  | .leaf _ => .error "TypeError"          -- 'float' object is not subscriptable / string indices must be integers
  | .node es =>
    match find? es k with
    | none => .error "KeyError"
    | some v => .ok v

/-- `c[p0][p1]…` -/
def itemPath : Cfg α → List String → Except String (Cfg α)
  | c, [] => .ok c
  | c, k :: ks => match item c k with
    | .error e => .error e
    | .ok c' => itemPath c' ks

/-- `float(x)` -/
def pyFloat : Cfg α → Except String α
  | .leaf (.num x) => .ok x
  | .leaf (.nstr x _) => .ok x
  | .leaf (.str _) => .error "ValueError"   -- could not convert string to float
  | .leaf .null => .error "TypeError"
  | .node _ => .error "TypeError"

/-- what `str(x)` is for a value that is not a string: never an enumeration word and
never starts with a letter (`"1.0"`, `"None"`, `"{…}"` are not accepted by any check of
`calculateDerived`; the model keeps a single representative). -/
def notAString : String := "\x00<not a string>"

/-- `str(x)` (total) -/
def pyStr : Cfg α → String
  | .leaf (.str s) => s
  | .leaf (.nstr _ s) => s
  | _ => notAString

/-- a value used as a string without conversion (`x.startswith(…)`) -/
def rawStr : Cfg α → Except String String
  | .leaf (.str s) => .ok s
  | .leaf (.nstr _ s) => .ok s
  | _ => .error "AttributeError"

/-- `float(config[p0][p1]…)` -/
def floatAt (c : Cfg α) (p : List String) : Except String α :=
  match itemPath c p with
  | .error e => .error e
  | .ok v => pyFloat v

/-- `str(config[p0][p1]…)` -/
def strAt (c : Cfg α) (p : List String) : Except String String :=
  match itemPath c p with
  | .error e => .error e
  | .ok v => .ok (pyStr v)

/-- `config[p0][p1]…` used as a string object -/
def rawStrAt (c : Cfg α) (p : List String) : Except String String :=
  match itemPath c p with
  | .error e => .error e
  | .ok v => rawStr v

/-! ### `_loadConfig` -/

/-- `_loadConfig(fpath)`: `d` is the parsed default file, `u` the parsed custom file
(`none` = no path given).  Returns the merged tree and the reported key set
(`[]` = no WARNING line). -/
def loadConfig (d : Cfg α) (u : Option (Cfg α)) : Except String (Cfg α × List String) :=
  match u with
  | none => .ok (d, [])
  | some (.leaf _) => .error "AttributeError"     -- empty file / scalar document: `.items()` of a non-dict
  | some (.node us) =>
    if clash d (.node us) then .error ((clashKind d (.node us)).getD "TypeError")
    else .ok (update d (.node us), reported d (.node us))

end Cfg

/-! ### `Snowing.run` dispatch -/

/-- which private run function `Snowing.run` calls for a dimensionality string;
`none`: no branch of the `if/elif` chain is taken (the call returns without simulating). -/
def snowingDispatch (dimensionality : String) : Option Nat :=
  if dimensionality = "homogeneous" then some 0
  else if dimensionality = "spatial_1D" then some 1
  else if dimensionality = "spatial_2D" then some 2
  else none

end Snow
