/-
  The interaction structure of a DECLARED batch shape, as input of the time loop:
  neighbour lists and external-face counts computed from the topology model
  (`SnowModel/Topology.lean`, the closed index form of `_buildInteractionMatrices`).

    nbrsOf arr nx ny nz  – row i lists every j with multiplicity `(DX+DY+DZ)[i, j]`, in column order
    extOf  arr nx ny nz  – `VIAL_EXT[i] = maxInteractions − VIAL_INT[i]` (as the code: a signed number)
-/
import SnowModel.Flake
import SnowModel.Topology

namespace Snow.Flake
open Snow Snow.Topology

/-- row `i` of the interaction pattern as a neighbour list (with multiplicity) -/
def nbrRow (arr : Arr) (nx ny nz i : Nat) : List Nat :=
  (List.range (nTot nx ny nz)).flatMap fun j => List.replicate (entry arr nx ny nz i j) j

/-- `nbrs` of the declared shape -/
def nbrsOf (arr : Arr) (nx ny nz : Nat) : List (List Nat) :=
  (List.range (nTot nx ny nz)).map (nbrRow arr nx ny nz)

/-- `VIAL_EXT` of the declared shape -/
def extOf (arr : Arr) (nx ny nz : Nat) : List Int :=
  (List.range (nTot nx ny nz)).map fun i => (maxNbr arr nz : Int) - (deg arr nx ny nz i : Int)

/-- parameters of a run on a declared shape -/
def Params.withShape {α : Type} (p : Params α) (arr : Arr) (nx ny nz : Nat) : Params α :=
  { p with nbrs := nbrsOf arr nx ny nz, ext := extOf arr nx ny nz }

end Snow.Flake
