/-
  Model of `Snowflake._buildInteractionMatrices` (snowflake.py): which vials
  exchange heat with which, and the external-exposure count `VIAL_EXT`.

  The code adds diagonals `np.diag(pattern, ±k)` of 0/1 patterns; the model
  gives the entry that each diagonal contributes at position `(i, j)` in closed
  index form (offset `k`, and the zero pattern: row end, layer end, row parity)
  and sums the contributions exactly as `DX + DY + DZ` does.

  Independent of that, `geomNbr` is the geometric neighbour relation on vial
  coordinates (the specification).  Core Lean only.
-/
namespace Snow.Topology

inductive Arr where
  | square
  | hexagonal
deriving DecidableEq, Repr

/-- `const["vial_arrangement"] == "square"` selects the square branch; every other
accepted value takes the `else` branch (hexagonal). -/
def Arr.ofString (s : String) : Arr := if s == "square" then .square else .hexagonal

/-- vial position: `x` along a row, `y` the row on the shelf, `z` the layer -/
structure Coord where
  x : Nat
  y : Nat
  z : Nat
deriving DecidableEq, Repr

/-- row-major indexing of the code (comment in `_buildInteractionMatrices`) -/
def coords (nx ny : Nat) (i : Nat) : Coord := ⟨i % nx, (i / nx) % ny, i / (nx * ny)⟩

def idx (nx ny : Nat) (c : Coord) : Nat := c.x + nx * c.y + nx * ny * c.z

def InBox (nx ny nz : Nat) (c : Coord) : Prop := c.x < nx ∧ c.y < ny ∧ c.z < nz

instance (nx ny nz : Nat) (c : Coord) : Decidable (InBox nx ny nz c) := by
  unfold InBox; infer_instance

/-! ### the diagonals of the code, entry at `(i, j)` with `i < j` -/

/-- `np.diag(dx_pattern, k=1)`: `dx_pattern[i] = 0` iff `(i+1) % n_x == 0` -/
def dX (nx i j : Nat) : Bool := j == i + 1 && (i + 1) % nx != 0

/-- `k = n_x` diagonal (square `dy_pattern` with the last row of every layer deleted;
hexagonal `dy_pattern_center` inside each layer block) -/
def dYc (nx ny i j : Nat) : Bool := j == i + nx && decide (i % (nx * ny) + nx < nx * ny)

/-- hexagonal `dy_pattern_extra_upper` on `k = n_x + 1` inside a layer block:
non-zero on odd rows except at the row end -/
def dYu (nx ny i j : Nat) : Bool :=
  j == i + nx + 1 && decide (i % (nx * ny) + nx + 1 < nx * ny)
    && (i % (nx * ny) / nx) % 2 == 1 && (i % (nx * ny) + 1) % nx != 0

/-- hexagonal `dy_pattern_extra_lower` on `k = n_x - 1` inside a layer block:
non-zero on even rows except at the row start -/
def dYl (nx ny i j : Nat) : Bool :=
  decide (i < j) && j + 1 == i + nx && decide (i % (nx * ny) + nx ≤ nx * ny)
    && (i % (nx * ny) / nx) % 2 == 0 && (i % (nx * ny)) % nx != 0

/-- `k = n_x n_y` diagonal, only built when `n_z > 1` -/
def dZ (nx ny nz i j : Nat) : Bool := decide (nz > 1) && j == i + nx * ny

/-- sum of the upper-triangle contributions at `(i, j)` -/
def upCnt (arr : Arr) (nx ny nz i j : Nat) : Nat :=
  (dX nx i j).toNat + (dYc nx ny i j).toNat
    + (match arr with
       | .square => 0
       | .hexagonal => (dYu nx ny i j).toNat + (dYl nx ny i j).toNat)
    + (dZ nx ny nz i j).toNat

/-- off-diagonal entry `(DX + DY + DZ)[i, j]` (each `np.diag(p, k) + np.diag(p, -k)`) -/
def entry (arr : Arr) (nx ny nz i j : Nat) : Nat :=
  upCnt arr nx ny nz i j + upCnt arr nx ny nz j i

/-- vials `i` and `j` exchange heat -/
def adj (arr : Arr) (nx ny nz i j : Nat) : Bool := entry arr nx ny nz i j != 0

def nTot (nx ny nz : Nat) : Nat := nx * ny * nz

/-- `VIAL_INT`: row sum of `DX + DY + DZ` -/
def deg (arr : Arr) (nx ny nz i : Nat) : Nat :=
  ((List.range (nTot nx ny nz)).map (entry arr nx ny nz i)).sum

/-- `maxInteractions` -/
def maxNbr (arr : Arr) (nz : Nat) : Nat :=
  (match arr with | .square => 4 | .hexagonal => 6) + (if nz > 1 then 2 else 0)

/-- `VIAL_EXT[i]` -/
def ext (arr : Arr) (nx ny nz i : Nat) : Nat := maxNbr arr nz - deg arr nx ny nz i

/-- `interactionMatrix[i, j]` (integer part, before scaling by `k_int * A`) -/
def imat (arr : Arr) (nx ny nz i j : Nat) : Int :=
  if i = j then - (deg arr nx ny nz i : Int) else (entry arr nx ny nz i j : Int)

/-! ### geometric specification -/

def dist (a b : Nat) : Nat := (a - b) + (b - a)

/-- doubled horizontal position in hexagonal packing: odd rows are offset by half a pitch -/
def hexPos (c : Coord) : Nat := 2 * c.x + c.y % 2

/-- geometric neighbours.
square: the four in-plane lattice neighbours and the vial directly above/below
(unit Manhattan distance).
hexagonal: in the same layer, the two vials one pitch away in the same row and the
four vials half a pitch away in the adjacent rows (alternate rows offset by half a
pitch); plus the vial directly above/below. -/
def geomNbr (arr : Arr) (a b : Coord) : Bool :=
  match arr with
  | .square => dist a.x b.x + dist a.y b.y + dist a.z b.z == 1
  | .hexagonal =>
    (a.z == b.z &&
      ((a.y == b.y && dist (hexPos a) (hexPos b) == 2)
        || (dist a.y b.y == 1 && dist (hexPos a) (hexPos b) == 1)))
    || (a.x == b.x && a.y == b.y && dist a.z b.z == 1)

/-- number of geometric neighbours of vial `i` inside the batch -/
def geomDeg (arr : Arr) (nx ny nz i : Nat) : Nat :=
  ((List.range (nTot nx ny nz)).filter
    (fun j => geomNbr arr (coords nx ny i) (coords nx ny j))).length

end Snow.Topology
