/-
  Hand-written support for the GENERATED model files `SnowModel/Gen/*.lean`
  (written by harness/translate.py from /repo's source on every run).

  * `HasPi`   – `np.pi` as a constant of the numeric instance (kept out of `Num.lean`)
  * `Py.div`  – `/` on Python floats (raises `ZeroDivisionError`; numpy's `/` does not and is
                translated to the field division of `Num`)
  * `Py.startsWith`, `Py.elem` – `str.startswith`, `x in {…}` on strings
-/
import SnowModel.Num
import SnowModel.Config

namespace Snow

/-- `np.pi` -/
class HasPi (α : Type) where
  pi : α

instance : HasPi Float := ⟨3.141592653589793⟩

namespace Py
variable {α : Type} [Num α]

/-- Python `x / y` on floats -/
def div (x y : α) : Except String α :=
  if Num.eqb y (Num.zero : α) then .error "ZeroDivisionError" else .ok (x / y)

/-- `s.startswith(p)` -/
def startsWith (s p : String) : Bool := p.toList.isPrefixOf s.toList

/-- `x in {…}` for string constants -/
def elem (x : String) (xs : List String) : Bool := xs.contains x

/-- `if cond: raise E` as a statement -/
def raiseIf (cond : Bool) (e : String) : Except String Unit :=
  if cond then .error e else .ok ()

end Py
end Snow
