/-
  Model of the `storeStates` interpretation of `Snowflake.__init__` /
  `Snowflake._interpretStorageString` and of the masked write of the state vector
  in `Snowflake.run` (snowflake.py).  Core Lean only.

  Randomness is input: for a `"random"` request the vials returned by
  `Generator.choice(candidates, size=howMany, replace=False)` are supplied.
-/
import SnowModel.Groups

namespace Snow.Store
open Snow.Topology Snow.Groups

/-- one entry of a list/tuple request, by its Python type: only `int` (and its subclass
`bool`) passes `isinstance(x, int)`; numpy scalars (`np.int64`, `np.float64`, …) and
Python floats do not. -/
inductive Item where
  | int (v : Int)
  | bool (b : Bool)
  | npInt (v : Int)      -- numpy integer scalar
  | float                -- Python or numpy floating scalar
  | str (s : String)
  | other
deriving Repr

def Item.isInt : Item → Bool
  | .int _ => true
  | .bool _ => true
  | _ => false

def Item.isBool : Item → Bool
  | .bool _ => true
  | _ => false

def Item.isStr : Item → Bool
  | .str _ => true
  | _ => false

/-- value of an entry that passed `isinstance(x, int)` (`True` is 1) -/
def Item.intVal : Item → Int
  | .int v => v
  | .bool b => if b then 1 else 0
  | _ => 0

def Item.strVal : Item → String
  | .str s => s
  | _ => ""

/-- the `storeStates` argument, by the case distinction of `__init__` -/
inductive Spec where
  | none                         -- `None`
  | ints (xs : List Int)         -- list/tuple, all `int` (also the empty sequence)
  | str (s : String)
  | strs (ss : List String)      -- non-empty list/tuple, all `str`
  | mixed                        -- list/tuple, neither all `int` nor all `str`
  | seq (items : List Item)      -- list/tuple given entry by entry (classified by `classify`)
  | boolMask (bs : List Bool)    -- non-empty list/tuple of `bool` only: numpy uses it as a boolean mask
  | other                        -- anything else (no branch assigns the mask)
deriving Repr

/-- Python `str.lower()` on ASCII text -/
def lower (s : String) : List Char := s.toList.map Char.toLower

/-- Python `p in s` for strings -/
def hasSub (p : List Char) : List Char → Bool
  | [] => p.isEmpty
  | c :: cs => p.isPrefixOf (c :: cs) || hasSub p cs

def digitVal (c : Char) : Nat := c.toNat - '0'.toNat

/-- `re.findall(r"\d+", s)` on ASCII text, already converted with `int(...)` -/
def digitRuns : List Char → Option Nat → List Nat
  | [], none => []
  | [], some n => [n]
  | c :: cs, cur =>
    if c.isDigit then
      digitRuns cs (some ((cur.getD 0) * 10 + digitVal c))
    else
      match cur with
      | none => digitRuns cs none
      | some n => n :: digitRuns cs none

/-- first name of `VIAL_GROUPS` (in that order) that occurs in the string -/
def firstGroup (s : List Char) : Option String :=
  VIAL_GROUPS.find? fun g => hasSub g.toList s

/-- `int(np.ceil(0.1 * N))` in IEEE double arithmetic -/
def defaultCount (N : Nat) : Nat := (Float.ceil (0.1 * N.toFloat)).toUInt64.toNat

def ceilDiv (a b : Nat) : Nat := (a + b - 1) / b

/-- `np.arange(0, len, step)` for `step > 0` -/
def strideIdx (len step : Nat) : List Nat := (List.range (ceilDiv len step)).map (· * step)

/-- `np.where(mask)[0]` -/
def whereTrue (m : List Bool) : List Nat := (List.range m.length).filter fun i => m.getD i false

/-- `mask = zeros(N); mask[sel] = True` -/
def maskFromIdx (N : Nat) (sel : List Nat) : List Bool := (List.range N).map fun i => sel.contains i

/-- `uniform`: every `ceil(len/howMany)`-th candidate -/
def uniformPick (cand : List Nat) (howMany : Nat) : List Nat :=
  (strideIdx cand.length (ceilDiv cand.length howMany)).map fun k => cand.getD k 0

/-- `_interpretStorageString(myString)`; `choice` is what `rng.choice` returned when
the request is `"random"` (ignored otherwise).  Second component: whether the
generator was used. -/
def interpretString (arr : Arr) (nz : Nat) (exts : List Nat) (str : String) (choice : List Nat) :
    Except String (List Bool × Bool) := do
  let N := exts.length
  let s := lower str
  let g := firstGroup s
  let rnd := hasSub "random".toList s
  let uni := hasSub "uniform".toList s
  if g.isNone && !rnd && !uni then throw "ValueError"
  let mask0 ← match g with
    | some g => maskOf arr nz exts [g]
    | none => pure (List.replicate N true)
  if rnd || uni then
    let howMany ← match digitRuns s none with
      | [] => pure (defaultCount N)
      | [n] => pure n
      | _ => throw "ValueError"
    let cand := whereTrue mask0
    if rnd then
      -- numpy: "Cannot take a larger sample than population when replace is False" /
      -- "a cannot be empty unless no samples are taken"
      if howMany > cand.length then throw "ValueError"
      return (maskFromIdx N choice, true)
    else
      if howMany = 0 then throw "ZeroDivisionError"
      -- empty candidate set: step 0 in np.arange
      if cand.length = 0 then throw "ZeroDivisionError"
      return (maskFromIdx N (uniformPick cand howMany), false)
  else
    return (mask0, false)

/-- element-wise OR (`np.logical_or.reduce`) -/
def orMask (a b : List Bool) : List Bool := List.zipWith (· || ·) a b

/-- list of request strings: masks in order (each `"random"` consumes the next
recorded choice), then OR -/
def interpretStrings (arr : Arr) (nz : Nat) (exts : List Nat) :
    List String → List (List Nat) → Except String (List Bool)
  | [], _ => .ok (List.replicate exts.length false)
  | s :: ss, choices => do
    let (m, used) ← interpretString arr nz exts s (choices.headD [])
    let rest ← interpretStrings arr nz exts ss (if used then choices.tail else choices)
    return orMask m rest

/-- integer request: range check, then `mask[list(storeStates)] = True` -/
def interpretInts (N : Nat) (xs : List Int) : Except String (List Bool) :=
  if xs.any (fun x => decide (x > (N : Int) - 1)) || xs.any (fun x => decide (x < 0)) then
    .error "ValueError"
  else .ok (maskFromIdx N (xs.map Int.toNat))

/-- the case distinction of `__init__` on a list/tuple: `all(isinstance(x, int))`
first (also true for the empty sequence), then `all(isinstance(x, str))`, else
`ValueError` -/
def classify (items : List Item) : Spec :=
  if items.all Item.isInt then
    -- `mask[list(storeStates)] = True`: a list of Python bools only is a boolean-mask index
    if !items.isEmpty && items.all Item.isBool then .boolMask (items.map fun it => it.intVal == 1)
    else .ints (items.map Item.intVal)
  else if items.all Item.isStr then .strs (items.map Item.strVal)
  else .mixed

/-- the storage mask chosen by `__init__` (`emptyStore` is the second component) -/
def storageMask (arr : Arr) (nx ny nz : Nat) (spec : Spec) (choices : List (List Nat)) :
    Except String (List Bool × Bool) :=
  let exts := extVec arr nx ny nz
  let spec := match spec with
    | .seq items => classify items
    | sp => sp
  match spec with
  | .seq _ => .error "unreachable"
  | .boolMask bs =>
    -- the range check comes first, with `True == 1`, `False == 0` (`np.array(bools) > N - 1`);
    -- only then does `mask[list(bools)] = True` use the list as a boolean mask
    if bs.any (fun b => decide (((if b then 1 else 0 : Int)) > (exts.length : Int) - 1)) then .error "ValueError"
    else if bs.length = exts.length then .ok (bs, false) else .error "IndexError"
  | .none => .ok (List.replicate exts.length false, true)
  | .ints xs => (interpretInts exts.length xs).map (·, false)
  | .str s => (interpretString arr nz exts s (choices.headD [])).map fun p => (p.1, false)
  | .strs ss => (interpretStrings arr nz exts ss choices).map (·, false)
  | .mixed => .error "ValueError"
  | .other => .error "UnboundLocalError"

/-! ### the masked write -/

/-- `v[mask]` -/
def pick {α : Type} (m : List Bool) (v : List α) : List α :=
  ((m.zip v).filter (·.1)).map (·.2)

/-- one column of `X`: `np.concatenate([T_k, sigma_k])[np.concatenate([mask, mask])]` -/
def record {α : Type} (m : List Bool) (T σ : List α) : List α := pick (m ++ m) (T ++ σ)

/-- `X_T` / `X_sigma` of one column: the first / the remaining `sum(mask)` rows -/
def colT {α : Type} (m : List Bool) (col : List α) : List α := col.take (m.count true)
def colSigma {α : Type} (m : List Bool) (col : List α) : List α := col.drop (m.count true)

end Snow.Store
