/-
  Line protocol of the model driver: one JSON object per line in, one per line out.

  Numbers of the simulated quantities travel as exact values:
    * `Float` mode: the IEEE-754 bit pattern as a JSON integer,
    * `Rat`   mode: `[num, den]`.
  Counts and indices are plain JSON integers; booleans are JSON booleans.
-/
import Lean.Data.Json
import SnowModel.Num

namespace Snow
open Lean

class Wire (α : Type) where
  dec : Json → Except String α
  enc : α → Json

instance : Wire Float where
  dec j := do
    let i ← j.getInt?
    if i < 0 then throw "float bits must be non-negative"
    return Float.ofBits (UInt64.ofNat i.toNat)
  enc x := Json.num (JsonNumber.fromNat x.toBits.toNat)

instance : Wire Rat where
  dec j := do
    let a ← j.getArr?
    if h : a.size = 2 then
      let n ← a[0].getInt?
      let d ← a[1].getNat?
      if d = 0 then throw "zero denominator"
      return (n : Rat) / (d : Rat)
    else throw "rat must be [num, den]"
  enc q := Json.arr #[Json.num (JsonNumber.fromInt q.num), Json.num (JsonNumber.fromNat q.den)]

namespace W
variable {α : Type} [Wire α]

def fld (j : Json) (k : String) : Except String Json :=
  match j.getObjVal? k with
  | .ok v => .ok v
  | .error _ => .error s!"missing field {k}"

def num (j : Json) (k : String) : Except String α := do Wire.dec (← fld j k)
def nat (j : Json) (k : String) : Except String Nat := do (← fld j k).getNat?
def int (j : Json) (k : String) : Except String Int := do (← fld j k).getInt?
def str (j : Json) (k : String) : Except String String := do (← fld j k).getStr?
def bool (j : Json) (k : String) : Except String Bool := do (← fld j k).getBool?
def arr (j : Json) (k : String) : Except String (Array Json) := do (← fld j k).getArr?

def optFld (j : Json) (k : String) : Option Json :=
  match j.getObjVal? k with
  | .ok Json.null => none
  | .ok v => some v
  | .error _ => none

def nums (j : Json) (k : String) : Except String (List α) := do
  let a ← arr j k
  a.toList.mapM Wire.dec

def nats (j : Json) (k : String) : Except String (List Nat) := do
  let a ← arr j k
  a.toList.mapM (·.getNat?)

def ints (j : Json) (k : String) : Except String (List Int) := do
  let a ← arr j k
  a.toList.mapM (·.getInt?)

def strs (j : Json) (k : String) : Except String (List String) := do
  let a ← arr j k
  a.toList.mapM (·.getStr?)

def encNums (xs : List α) : Json := Json.arr (xs.map Wire.enc).toArray
def encNats (xs : List Nat) : Json := Json.arr (xs.map fun n => Json.num (JsonNumber.fromNat n)).toArray
def encInts (xs : List Int) : Json := Json.arr (xs.map fun n => Json.num (JsonNumber.fromInt n)).toArray
def encNat (n : Nat) : Json := Json.num (JsonNumber.fromNat n)
def encInt (n : Int) : Json := Json.num (JsonNumber.fromInt n)
def encBools (xs : List Bool) : Json := Json.arr (xs.map Json.bool).toArray
def encStrs (xs : List String) : Json := Json.arr (xs.map Json.str).toArray

end W

/-- A driver operation: request object ↦ response object (or an error string,
reported as `{"error": …}`). -/
abbrev Op := Json → Except String Json

/-- dispatch on `"num"`: `"float"` (default) or `"rat"` -/
def byNum (f : (α : Type) → [Num α] → [Wire α] → Op) : Op := fun j =>
  match W.optFld j "num" with
  | some (Json.str "rat") => f Rat j
  | _ => f Float j

end Snow
