/-
  Model of `ethz_snow/operatingConditions.py`:
  holding-step ordering, `_simpleCool`, `tempProfile`, `cnt`.
-/
import SnowModel.Num

namespace Snow
open Num

structure Hold (α : Type) where
  temp : α
  duration : α
deriving Repr

/-- An `OperatingConditions` object after construction: `holds` is the
user-supplied list (already ordered by `orderHolds`). -/
structure OpCond (α : Type) where
  t_tot : α
  start : α
  stop : α        -- cooling["end"]
  rate : α
  holds : List (Hold α)
deriving Repr

section
variable {α : Type} [Num α]

/-- the order of `sorted(..., key=(temp, duration), reverse=True)`:
`a` may precede `b` iff `(a.temp, a.duration) ≥ (b.temp, b.duration)` lexicographically -/
def holdGe (a b : Hold α) : Bool :=
  decide (b.temp < a.temp) || (eqb a.temp b.temp && decide (b.duration ≤ a.duration))

/-- `sorted(value, key=lambda h: (h["temp"], h["duration"]), reverse=True)`:
stable sort, descending temperature, ties broken by descending duration. -/
def orderHolds (hs : List (Hold α)) : List (Hold α) :=
  hs.mergeSort holdGe

/-- Constructor logic of `OperatingConditions.__init__` (key checks are done by
the caller, which only builds well-keyed records): the constant-temperature
convenience case and the ordering of a list of holds. `holds = none` is
`holding=None`; `isList` tells a list/tuple (sorted) from a single dict. -/
def mkOpCond (t_tot start stop rate : α) (holds : Option (List (Hold α))) (isList : Bool) :
    Except String (OpCond α) :=
  if eqb rate zero && eqb start stop then
    match holds with
    | none => .ok ⟨t_tot, start, stop, lit 1 16, [⟨start, t_tot⟩]⟩
    | some _ => .error "ValueError"
  else if eqb rate zero then .error "ValueError"
  else
    match holds with
    | none => .ok ⟨t_tot, start, stop, rate, []⟩
    | some hs => .ok ⟨t_tot, start, stop, rate, if isList then orderHolds hs else hs⟩

/-- `len(np.arange(0, t_end, dt))` -/
def arangeLen (tEnd dt : α) : Nat := (ceilInt (tEnd / dt)).toNat

/-- `_simpleCool(Tstart, Tend, rate, dt)` without `t_tot`:
`Tstart - np.arange(0, (Tstart-Tend)/rate, dt) * rate`. -/
def simpleCool (Tstart Tend rate dt : α) : List α :=
  (List.range (arangeLen ((Tstart - Tend) / rate) dt)).map
    fun i => Tstart - (ofNat' i * dt) * rate

/-- number of plateau samples appended for a hold:
`int(np.ceil((duration - t_hold % dt) / dt))`, with `[x] * negative = []`. -/
def holdCount (Tstart Thold rate duration dt : α) : Nat :=
  (ceilInt ((duration - pyMod ((Tstart - Thold) / rate) dt) / dt)).toNat

/-- concatenation of ramp + plateau over the hold list, before truncation -/
def segments (rate dt : α) : α → List (Hold α) → List α
  | _, [] => []
  | Ts, h :: hs =>
      simpleCool Ts h.temp rate dt
        ++ (List.replicate (holdCount Ts h.temp rate h.duration dt) h.temp
        ++ segments rate dt h.temp hs)

/-- number of simulation steps `int(np.ceil(t_tot/dt)) + 1` -/
def nSteps (t_tot dt : α) : Nat := (ceilInt (t_tot / dt) + 1).toNat

/-- the hold list the profile loop iterates over: user holds followed by the
final plateau at the end temperature for `t_tot`. -/
def allHolds (oc : OpCond α) : List (Hold α) :=
  oc.holds ++ [⟨oc.stop, oc.t_tot⟩]

/-- `OperatingConditions.tempProfile(dt)` as implemented upstream (before the
`fix:` commit that pads the profile): concatenation truncated to `n`. -/
def profileRaw (oc : OpCond α) (dt : α) : List α :=
  (segments oc.rate dt oc.start (allHolds oc)).take (nSteps oc.t_tot dt)

/-- `OperatingConditions.tempProfile(dt)`: truncated to `n` samples and padded
with the end temperature if the concatenation is shorter than `n`. -/
def profile (oc : OpCond α) (dt : α) : List α :=
  let n := nSteps oc.t_tot dt
  let xs := (segments oc.rate dt oc.start (allHolds oc)).take n
  xs ++ List.replicate (n - xs.length) oc.stop

/-- index of the first element satisfying `p`, `0` if none (numpy `argmax` of a
boolean array). -/
def argmaxBool (p : α → Bool) (xs : List α) : Nat :=
  match xs.findIdx? p with
  | some i => i
  | none => 0

/-- `OperatingConditions.cnt` for a given `cnTemp` (the `None` case is handled by
the caller): `t_vec[::-1][argmax(T_vec[::-1] >= cnTemp)]` on the 1-second profile. -/
def cntOf (T1 : List α) (cn : α) : Nat :=
  (T1.length - 1) - argmaxBool (fun x => decide (cn ≤ x)) T1.reverse

end

end Snow
