/-
  Inputs shared by the Snowing models (0D / 1D / 2D).

  * `SnowConst`  – the entries of `Snowing.const` (= `calculateDerived(configPath)`)
                   that `_run_0D/_run_1D/_run_2D` read; numbers sent by the harness.
  * `Visf`       – the additional entries when `configuration == "VISF"`.
  * `SnowIn`     – one run: constants, `k["s0"]`, the operating conditions, the
                   two random draws (recorded from / scripted into numpy by the
                   harness) and the controlled-nucleation option.
-/
import SnowModel.OpCond

namespace Snow
open Num

structure SnowConst (α : Type) where
  A : α
  V : α
  rho_l : α
  mass : α
  mass_water : α
  mass_solute : α
  cp_w : α
  cp_i : α
  cp_s : α
  cp_solution : α
  solid_fraction : α
  T_eq : α
  k_f : α
  M_s : α
  depression : α
  a : α
  b : α
  c : α
  Dh : α
  -- spatial models only (0 in the homogeneous model)
  height : α
  diameter : α
  lambda_w : α
  lambda_i : α
  lambda_s : α
  k_B : α

structure Visf (α : Type) where
  p_vac : α
  kappa : α
  dHe : α          -- const["Dh_evaporation"]
  m_water : α
  t_vac_start : α  -- [h]
  t_vac_duration : α

structure SnowIn (α : Type) where
  const : SnowConst α
  /-- `some` iff `const["configuration"] == "VISF"` -/
  visf : Option (Visf α)
  /-- `k["s0"]` -/
  Kshelf : α
  oc : OpCond α
  /-- `opcond.cnTemp` (`None` = stochastic nucleation) -/
  cnTemp : Option α
  /-- `norm.ppf(np.random.rand())` after `np.random.seed(2024)` -/
  xi : α
  /-- `np.random.random()` after `np.random.seed(seed)` -/
  Frand : α

section
variable {α : Type} [Transc α]

/-- `T_m = const["T_eq"] + 273.15` -/
def SnowIn.T_m (p : SnowIn α) : α := p.const.T_eq + lit 27315 2
/-- `T_eq_l = T_m - depression` -/
def SnowIn.T_eq_l (p : SnowIn α) : α := p.T_m - p.const.depression
/-- `kb = 10 ** (-(a + xi_v * c))` -/
def SnowIn.kb (p : SnowIn α) : α := Transc.pow (ofNat' 10) (-(p.const.a + p.xi * p.const.c))
/-- `T_0 = opcond.cooling["start"] + 273.15` -/
def SnowIn.T_0 (p : SnowIn α) : α := p.oc.start + lit 27315 2
/-- `opcond.tempProfile(dt) + 273.15` -/
def SnowIn.shelfK (p : SnowIn α) (dt : α) : List α := (profile p.oc dt).map (· + lit 27315 2)

/-- the stochastic stop test `F_nuc > F_rand`, `F_nuc = 1 - exp(-E_t)` -/
@[inline] def hazardStop (Frand E : α) : Bool := decide (Frand < one - Transc.exp (-E))

end
end Snow
