/-
  The three formulas of `ethz_snow/utils.py` used by the VISF boundary condition
  of `Snowing._run_2D` (hand transcription; operation order as in the source).
  To be unified with the generated `Gen/Evap.lean` / wpE's `EvapFormulas.lean`.
-/
import SnowModel.Num

namespace Snow.Evap2D
open Snow Num

section
variable {α : Type} [Transc α]

/-- `Utils.vapour_pressure_liquid(T)` (Murphy & Koop 2005, supercooled water), Pa -/
def pLiquid (T : α) : α :=
  Transc.exp
    (lit 54842763 6 - lit 676322 2 / T - lit 4210 3 * Transc.log T + lit 367 6 * T
      + Transc.tanh (lit 415 4 * (T - lit 2188 1))
        * (lit 53878 3 - lit 133122 2 / T - lit 944523 5 * Transc.log T + lit 14025 6 * T))

/-- `Utils.vapour_pressure_solid(T)` (Murphy & Koop 2005, ice), Pa -/
def pSolid (T : α) : α :=
  Transc.exp (lit 9550426 6 - lit 5723265 3 / T + lit 353068 5 * Transc.log T - lit 728332 8 * T)

/-- `Utils.vapour_flux(kappa, m_water, k_B, p_vac, p_vap, T_l, T_v)`;
`pi` is `np.pi` (an input of the model). -/
def vapourFlux (pi kappa m_water k_B p_vac p_vap T_l T_v : α) : α :=
  (ofNat' 2 / (ofNat' 2 - kappa))
    * Transc.sqrt (m_water * (kappa * kappa) / (ofNat' 2 * pi * k_B))
    * (p_vap / Transc.sqrt T_l - p_vac / Transc.sqrt T_v)

end
end Snow.Evap2D
