/-
  Model of `Snowing._run_2D` (src/ethz_snow/snowing.py l.1012-1812): the
  axisymmetric single-vial model on an `Nz × Nr` grid (code: 30 × 15).

  The grid size is a parameter so that tiny grids can be evaluated exactly
  (`Rat`); everything else mirrors the source, including
    * `dz = height/Nz`, `dr = radius/Nr` while `z = linspace(0,height,Nz)`,
      `r = linspace(0,radius,Nr)` (spacing `height/(Nz-1)`, `radius/(Nr-1)`),
    * the centre-line ghost value `T_center = T_k[:,0]` (a *view*),
    * the odd `T_edge[0] - T_k[0,Nr-1]` factor of the bottom-corner stencil of
      the solidification stage.

  Three oddities of the current code are behind flags (default = repaired):
    * `inplace` (F10): `T_new = T_k` is ONE array, every region assignment reads
      the partially updated array, in the order the nine regions are written.
      In the solidification loop the first step is not aliased (`T_k =
      T_after_nuc` is a fresh array, `T_new` still the cooling buffer).
    * `jacketDz` (F9): the side ghost value uses `dz` instead of `dr`.
    * `coolingSolidPvap` (F11): the cooling stage uses the ice vapour pressure.
  The controlled-nucleation test is modelled in its repaired form
  `T_k.min() <= cnTemp + 273.15` (F4).

  Fields are flat `Array α`, node `(i,j)` (row `i` = height index, column `j` =
  radial index) at `i*Nr + j`.  The stencils are functions of a *reader*
  `T : Nat → Nat → α`, which is what the theorems talk about.
-/
import SnowModel.Num
import SnowModel.Simpson
import SnowModel.SimpsonArr
import SnowModel.EvapFormulas2D

namespace Snow.S2D
open Snow Num

inductive Config | shelf | visf | jacket
deriving DecidableEq, Repr, Inhabited

structure Flags where
  inplace : Bool := false
  jacketDz : Bool := false
  coolingSolidPvap : Bool := false
deriving Repr, Inhabited

/-- constants of a run: `Snowing.const`, `k["s0"]`, `kb` (computed by the code from
`a`, `c` and one draw of the legacy generator - an input here) and `np.pi`. -/
structure Par (α : Type) where
  Nz : Nat := 30
  Nr : Nat := 15
  pi : α
  height : α
  diameter : α
  V : α
  rho_l : α
  mass : α
  mass_water : α
  mass_solute : α
  lambda_w : α
  lambda_i : α
  lambda_s : α
  cp_w : α
  cp_i : α
  cp_s : α
  cp_solution : α
  solid_fraction : α
  T_eq : α
  k_f : α
  M_s : α
  depression : α
  kb : α
  b : α
  k_B : α
  Dh : α
  K_shelf : α
  config : Config
  p_vac : α
  kappa : α
  dHe : α
  m_water : α
  t_vac_start : α
  t_vac_duration : α
  air_gap : α
  lambda_air : α

/-! ### stencils (reader form; `Num` only) -/
section stencil
variable {α : Type} [Num α]

@[inline] def two : α := ofNat' 2
@[inline] def four : α := ofNat' 4
@[inline] def kelvin : α := lit 27315 2

/-- radially outer neighbour (`T_edge` at the wall) -/
@[inline] def outer (Nr : Nat) (T : Nat → Nat → α) (Te : Nat → α) (i j : Nat) : α :=
  if j + 1 = Nr then Te i else T i (j + 1)
/-- radially inner neighbour (`T_center = T_k[:,0]` on the axis) -/
@[inline] def inner (T : Nat → Nat → α) (i j : Nat) : α :=
  if j = 0 then T i 0 else T i (j - 1)
/-- neighbour above (`T_top` in the top row) -/
@[inline] def upper (Nz : Nat) (T : Nat → Nat → α) (Tt : Nat → α) (i j : Nat) : α :=
  if i + 1 = Nz then Tt j else T (i + 1) j
/-- neighbour below (`T_bottom` in the bottom row) -/
@[inline] def lower (T : Nat → Nat → α) (Tb : Nat → α) (i j : Nat) : α :=
  if i = 0 then Tb j else T (i - 1) j

/-- One node of the cooling-stage update (all nine regions of l.1193-1295 are this
formula with the ghost values substituted): `a = alpha*dt`.  The trailing
arguments are the literals `2` and `1`; the run passes pre-evaluated copies
(`Ctx.l2`, `Ctx.l1`, equal by definition) so that they are not re-evaluated per node. -/
@[inline] def coolNode (Nz Nr : Nat) (a dz dr : α) (r : Nat → α) (T : Nat → Nat → α)
    (Tb Tt Te : Nat → α) (i j : Nat) (two : α := ofNat' 2) (one : α := ofNat' 1) : α :=
  let c := T i j
  let o := outer Nr T Te i j
  let n := inner T i j
  let u := upper Nz T Tt i j
  let l := lower T Tb i j
  let ax := ((u - two * c) + l) / (dz * dz)
  let rad :=
    if j = 0 then (two * ((o - two * c) + n)) / (dr * dr)
    else ((one / r j) * (o - n)) / (two * dr) + ((o - two * c) + n) / (dr * dr)
  c + a * (rad + ax)

/-- One node of the solidification-stage update (l.1493-1708); `k`, `cp`, `B` are
the fields `k_eff`, `cp_eff`, `BETA` of the step. -/
@[inline] def solidNode (Nz Nr : Nat) (dt rho dz dr : α) (r : Nat → α)
    (k cp B : Nat → Nat → α) (T : Nat → Nat → α) (Tb Tt Te : Nat → α) (i j : Nat)
    (two : α := ofNat' 2) (four : α := ofNat' 4) (one : α := ofNat' 1) : α :=
  let c := T i j
  let kc := k i j
  let o := outer Nr T Te i j
  let n := inner T i j
  let u := upper Nz T Tt i j
  let l := lower T Tb i j
  let kO := if j + 1 = Nr then kc else k i (j + 1)
  let kI := if j = 0 then kc else k i (j - 1)
  let kU := if i + 1 = Nz then kc else k (i + 1) j
  let kL := if i = 0 then kc else k (i - 1) j
  -- bottom corner: the code has `T_edge[0] - T_k[0, Nr-1]` here (l.1504)
  let dTr := if i = 0 ∧ j + 1 = Nr then o - c else o - n
  let dKr := ((kO - kI) * dTr) / (four * (dr * dr))
  let dKz := ((kU - kL) * (u - l)) / (four * (dz * dz))
  let R2 := (kc * ((o - two * c) + n)) / (dr * dr)
  let Z2 := (kc * ((u - two * c) + l)) / (dz * dz)
  let s :=
    if j = 0 then (((two * kc) * ((o - two * c) + n)) / (dr * dr) + dKr + dKz) + Z2
    else (((((kc / r j) * (o - n)) / (two * dr) + dKr) + dKz) + R2) + Z2
  c + ((dt / (cp i j * rho)) * s) * (one / B i j)

/-- reader of a flat field -/
@[inline] def rd (Nr : Nat) (A : Array α) (i j : Nat) : α := A.getD (i * Nr + j) zero
@[inline] def rd1 (A : Array α) (i : Nat) : α := A.getD i zero

/-- interior indices `1 … n-2` -/
def mid (n : Nat) : List Nat := (List.range (n - 2)).map (· + 1)

/-- The nine regions in the order the code assigns them. -/
def regions (Nz Nr : Nat) : List (List (Nat × Nat)) :=
  [ [(0, 0)],
    [(0, Nr - 1)],
    (mid Nr).map (fun j => (0, j)),
    [(Nz - 1, 0)],
    [(Nz - 1, Nr - 1)],
    (mid Nr).map (fun j => (Nz - 1, j)),
    (mid Nz).map (fun i => (i, Nr - 1)),
    (mid Nz).map (fun i => (i, 0)),
    (mid Nz).flatMap (fun i => (mid Nr).map fun j => (i, j)) ]

/-- `T_new[region] = f(T_k)` for one region: the right-hand side is evaluated
completely (numpy builds a temporary) and then written. -/
@[specialize] def writeRegion (Nr : Nat) (node : (Nat → Nat → α) → Nat → Nat → α)
    (A : Array α) (reg : List (Nat × Nat)) : Array α :=
  let vals := reg.map fun ij => node (rd Nr A) ij.1 ij.2
  (reg.zip vals).foldl (fun A' e => A'.setIfInBounds (e.1.1 * Nr + e.1.2) e.2) A

/-- One sweep over the grid.  `inplace = true`: the aliased code (each region
reads the array as left by the regions before it).  `inplace = false`: every node
is computed from the old field. -/
@[specialize] def sweep (Nz Nr : Nat) (inplace : Bool) (node : (Nat → Nat → α) → Nat → Nat → α)
    (T : Array α) : Array α :=
  if inplace then (regions Nz Nr).foldl (writeRegion Nr node) T
  else Array.ofFn (n := Nz * Nr) fun idx => node (rd Nr T) (idx.val / Nr) (idx.val % Nr)

end stencil


/-! ### Simpson rule with the abscissa-dependent factors computed once

`scipy.integrate.simpson(y, x=x)` spends most of its arithmetic on factors that
depend on `x` only.  `SimpPlan` stores them per parabolic segment; `SimpPlan.eval`
then performs exactly the remaining operations of `simpsonTerm` / `simpson`
(`SnowModel/Simpson.lean`), in the same order, so the `Float` results are bitwise
the same (checked by the driver op `simpsonPlan` against `simpson`, exactly at `Rat`). -/
section plan
variable {α : Type} [Num α]

structure SimpPlan (α : Type) where
  N : Nat
  pre : Array α
  c0 : Array α
  c1 : Array α
  c2 : Array α
  alpha : α
  beta : α
  eta : α
  half : α

def mkPlan (x : Array α) : SimpPlan α :=
  let N := x.size
  let m := if N % 2 == 0 then (N - 2) / 2 else (N - 1) / 2
  let h0 (k : Nat) : α := aget x (2 * k + 1) - aget x (2 * k)
  let h1 (k : Nat) : α := aget x (2 * k + 2) - aget x (2 * k + 1)
  let H0 := aget x (N - 2) - aget x (N - 3)
  let H1 := aget x (N - 1) - aget x (N - 2)
  { N := N,
    pre := Array.ofFn (n := m) fun k => (h0 k.val + h1 k.val) / ofNat' 6,
    c0 := Array.ofFn (n := m) fun k => ofNat' 2 - divOr0 one (divOr0 (h0 k.val) (h1 k.val)),
    c1 := Array.ofFn (n := m) fun k =>
      (h0 k.val + h1 k.val) * divOr0 (h0 k.val + h1 k.val) (h0 k.val * h1 k.val),
    c2 := Array.ofFn (n := m) fun k => ofNat' 2 - divOr0 (h0 k.val) (h1 k.val),
    alpha := divOr0 (ofNat' 2 * (H1 * H1) + ofNat' 3 * H0 * H1) (ofNat' 6 * (H1 + H0)),
    beta := divOr0 (H1 * H1 + ofNat' 3 * H0 * H1) (ofNat' 6 * H0),
    eta := divOr0 (one * (H1 * H1 * H1)) (ofNat' 6 * H0 * (H0 + H1)),
    half := lit 5 1 * (aget x 1 - aget x 0) }

/-- one parabolic segment (cf. `simpsonTerm`) -/
@[inline] def SimpPlan.term (pl : SimpPlan α) (y : Nat → α) (k : Nat) : α :=
  aget pl.pre k *
    (y (2 * k) * aget pl.c0 k + y (2 * k + 1) * aget pl.c1 k + y (2 * k + 2) * aget pl.c2 k)

/-- `simpson y x` for the abscissae the plan was made from; `y` is a reader -/
@[inline] def SimpPlan.eval (pl : SimpPlan α) (y : Nat → α) : α :=
  let N := pl.N
  if N % 2 == 0 then
    if N == 2 then pl.half * (y 1 + y 0)
    else if N == 0 then zero
    else
      ((List.range ((N - 2) / 2)).foldl (fun acc k => acc + pl.term y k) zero)
        + pl.alpha * y (N - 1) + pl.beta * y (N - 2) - pl.eta * y (N - 3)
  else (List.range ((N - 1) / 2)).foldl (fun acc k => acc + pl.term y k) zero

end plan

/-! ### derived constants -/
section derived
variable {α : Type} [Num α]

def radius (p : Par α) : α := p.diameter / two
def dz (p : Par α) : α := p.height / ofNat' p.Nz
def dr (p : Par α) : α := radius p / ofNat' p.Nr
def zs (p : Par α) : List α := linspace0 p.height p.Nz
def rs (p : Par α) : List α := linspace0 (radius p) p.Nr
def alphaMax (p : Par α) : α := p.lambda_i / (p.cp_i * p.rho_l)
/-- `dt = (0.4/alpha_max) * (dz² dr²) / (dr² + dz²)` -/
def dt (p : Par α) : α :=
  (lit 4 1 / alphaMax p) * ((dz p * dz p) * (dr p * dr p)) / ((dr p * dr p) + (dz p * dz p))
def kEff0 (p : Par α) : α := p.solid_fraction * p.lambda_s + (one - p.solid_fraction) * p.lambda_w
def alpha0 (p : Par α) : α := kEff0 p / (p.cp_solution * p.rho_l)
def Tm (p : Par α) : α := p.T_eq + kelvin
def TeqL (p : Par α) : α := Tm p - p.depression
/-- `K_wall = (1/K_shelf + air_gap/lambda_air) ** (-1)` -/
def Kwall (p : Par α) : α := one / (one / p.K_shelf + p.air_gap / p.lambda_air)
/-- spacing used in the side ghost value: `dz` in the current code (F9), `dr` repaired -/
def edgeSpacing (p : Par α) (f : Flags) : α := if f.jacketDz then dz p else dr p

/-- everything that is constant during a run -/
structure Ctx (α : Type) where
  p : Par α
  f : Flags
  Nz : Nat
  Nr : Nat
  dz : α
  dr : α
  dt : α
  k0 : α
  a0 : α          -- alpha*dt of the cooling stage
  l1 : α          -- the literals 1, 2, 4 (evaluated once)
  l2 : α
  l4 : α
  Tm : α
  TeqL : α
  Kw : α
  eSp : α
  zA : Array α
  rA : Array α
  zPlan : SimpPlan α
  rPlan : SimpPlan α
  regs : List (List (Nat × Nat))

def mkCtx (p : Par α) (f : Flags) : Ctx α :=
  { p := p, f := f, Nz := p.Nz, Nr := p.Nr, dz := dz p, dr := dr p, dt := dt p,
    k0 := kEff0 p, a0 := alpha0 p * dt p, l1 := ofNat' 1, l2 := ofNat' 2, l4 := ofNat' 4, Tm := Tm p, TeqL := TeqL p,
    Kw := Kwall p, eSp := edgeSpacing p f, zA := (zs p).toArray, rA := (rs p).toArray,
    zPlan := mkPlan (zs p).toArray, rPlan := mkPlan (rs p).toArray,
    regs := regions p.Nz p.Nr }

/-- jacket flux at the wall node of row `i` (0 unless the configuration is `jacket`) -/
@[inline] def qJacket (c : Ctx α) (Tsh Twall : α) : α :=
  match c.p.config with
  | .jacket => c.Kw * (Tsh - Twall)
  | _ => zero

/-- The cooling-stage step for given top flux `qe j` (computed by the caller from
the old top row).  Ghost rows/columns are snapshots of the old field. -/
def coolStep (c : Ctx α) (inplace : Bool) (Tsh : α) (qe : Nat → α) (T : Array α) : Array α :=
  let Nz := c.Nz
  let Nr := c.Nr
  let TbA : Array α := Array.ofFn (n := Nr) fun j =>
    let t := rd Nr T 0 j.val
    t + (c.p.K_shelf * (Tsh - t)) * c.dz / c.k0
  let TtA : Array α := Array.ofFn (n := Nr) fun j =>
    rd Nr T (Nz - 1) j.val + qe j.val * c.dz / c.k0
  let TeA : Array α := Array.ofFn (n := Nz) fun i =>
    let t := rd Nr T i.val (Nr - 1)
    t + qJacket c Tsh t * c.eSp / c.k0
  sweep Nz Nr inplace
    (fun R i j => coolNode Nz Nr c.a0 c.dz c.dr (rd1 c.rA) R (rd1 TbA) (rd1 TtA) (rd1 TeA) i j c.l2 c.l1) T

/-- fields `cp_eff`, `k_eff`, `BETA` of a solidification step -/
def cpEff (p : Par α) (w : α) : α :=
  p.cp_s * p.solid_fraction + p.cp_i * w + p.cp_w * (one - p.solid_fraction - w)
def kEff (p : Par α) (w : α) : α := p.lambda_i * w + p.lambda_w * (one - w)
def betaOf (p : Par α) (cp : α) : α := p.Dh * p.k_f * p.mass_solute / (p.M_s * p.rho_l * p.V * cp)
/-- a boolean mask as the number numpy multiplies with (`True → 1`, `False → 0`) -/
@[inline] def mnum (b : Bool) : α := if b then one else zero

/-- `BETA = np.ones(...) * LCS_i_r + (1 + beta/(T_k - T_m)**2) * LCS_i` — the mask is MULTIPLIED in,
as in the code: at a node that is not supercooled and sits exactly at `T_m` (`T_k - T_m = 0`)
IEEE arithmetic gives `inf * 0 = NaN` (the real code then fails with "Solidification is not
completed", e.g. for a cooling start equal to `T_eq` in a tall vial); over ℝ (`x/0 = 0`) the
value is 1.  No theorem relies on that: the solidification-stage theorems take `BETA` as an
arbitrary non-zero field. -/
def BETAof (p : Par α) (Tm : α) (supercooled : Bool) (cp T : α) : α :=
  one * mnum (!supercooled) + (one + betaOf p cp / ((T - Tm) * (T - Tm))) * mnum supercooled

/-- The solidification-stage step (l.1426-1711). `mask` is `LCS_i` as left by the
previous step (or by the nucleation stage). -/
def solidStep (c : Ctx α) (inplace : Bool) (Tsh : α) (qe : Nat → α)
    (T w : Array α) (mask : Array Bool) : Array α :=
  let Nz := c.Nz
  let Nr := c.Nr
  let n := Nz * Nr
  let cpA : Array α := Array.ofFn (n := n) fun x => cpEff c.p (rd1 w x.val)
  let kA : Array α := Array.ofFn (n := n) fun x => kEff c.p (rd1 w x.val)
  let BA : Array α := Array.ofFn (n := n) fun x =>
    BETAof c.p c.Tm (mask.getD x.val false) (rd1 cpA x.val) (rd1 T x.val)
  let TbA : Array α := Array.ofFn (n := Nr) fun j =>
    let t := rd Nr T 0 j.val
    t + (c.p.K_shelf * (Tsh - t)) * c.dz / rd Nr kA 0 j.val
  let TtA : Array α := Array.ofFn (n := Nr) fun j =>
    rd Nr T (Nz - 1) j.val + qe j.val * c.dz / rd Nr kA (Nz - 1) j.val
  let TeA : Array α := Array.ofFn (n := Nz) fun i =>
    let t := rd Nr T i.val (Nr - 1)
    t + qJacket c Tsh t * c.eSp / rd Nr kA i.val (Nr - 1)
  sweep Nz Nr inplace
    (fun R i j => solidNode Nz Nr c.dt c.p.rho_l c.dz c.dr (rd1 c.rA)
      (rd Nr kA) (rd Nr cpA) (rd Nr BA) R (rd1 TbA) (rd1 TtA) (rd1 TeA) i j c.l2 c.l4 c.l1) T

/-- supercooling mask `T < T_eq_l` -/
def maskOf (c : Ctx α) (T : Array α) : Array Bool := T.map fun t => decide (t < c.TeqL)

/-- ice mass of a node on the liquidus: `m_w - m_s (k_f/M_s)/(T_m - T)` -/
def iceMass (p : Par α) (Tm T : α) : α :=
  p.mass_water - p.mass_solute * (p.k_f / p.M_s) / (Tm - T)

/-- `w_i_new` after a solidification step -/
def iceFrac (c : Ctx α) (T : Array α) : Array α :=
  T.map fun t =>
    -- `m_ice = zeros * LCS_i_r + (m_w - m_s (k_f/M_s)/(T_m - T)) * LCS_i` (mask multiplied in: NaN at T = T_m in IEEE)
    (zero * mnum (!decide (t < c.TeqL)) + iceMass c.p c.Tm t * mnum (decide (t < c.TeqL)))
      / (c.p.mass_water + c.p.mass_solute)

def minA (A : Array α) : α := A.foldl (fun m x => Num.min m x) (rd1 A 0)
def maxA (A : Array α) : α := A.foldl (fun m x => Num.max m x) (rd1 A 0)
def sumA (A : Array α) : α := A.foldl (· + ·) zero
def meanA (A : Array α) : α := sumA A / ofNat' A.size

/-- `simps(2π · simps(r·F, r), z)`-style volume integral of a nodal field:
`K_r = 2π simps(r*F, r)` per row, then `simps(K_r, z)` -/
def volIntegral (c : Ctx α) (F : Array α) : α :=
  let tp := two * c.p.pi
  let Kr : Array α := Array.ofFn (n := c.Nz) fun i =>
    tp * c.rPlan.eval fun j => rd1 c.rA j * rd c.Nr F i.val j
  c.zPlan.eval (rd1 Kr)

/-- `sigma_new` (l.1740-1744) -/
def sigmaOf (c : Ctx α) (w : Array α) : α :=
  let rl := rd1 c.rA (c.Nr - 1)
  let zl := rd1 c.zA (c.Nz - 1)
  (one / (c.p.pi * (rl * rl) * zl)) * volIntegral c w * c.p.mass / (c.p.mass - c.p.mass_solute)

/-! ### nucleation (masked quadratic, l.1375-1414) -/

/-- `B` and `C` of the quadratic `T² + B T + C = 0` for a node at `Tn` -/
def nucB (p : Par α) (Tm Tn : α) : α :=
  -Tm - Tn - p.Dh * p.mass_water / (p.cp_solution * p.mass)
def nucC (p : Par α) (Tm Tn : α) : α :=
  p.Dh * p.mass_water * Tm / (p.cp_solution * p.mass)
    - p.mass_solute * (p.k_f / p.M_s) * p.Dh / (p.cp_solution * p.mass)
    + Tm * Tn

end derived

section transc
variable {α : Type} [Transc α]

/-- the `−√` root `T_eq_sol_1` -/
def nucRoot (p : Par α) (Tm Tn : α) : α :=
  let B := nucB p Tm Tn
  lit 5 1 * (-B - Transc.sqrt (B * B - four * nucC p Tm Tn))

/-- temperature and ice fraction of one node after nucleation -/
def nucNode (c : Ctx α) (Tn : α) : α × α :=
  if Tn < c.TeqL then
    let Ts := nucRoot c.p c.Tm Tn
    (Ts, iceMass c.p c.Tm Ts / (c.p.mass_water + c.p.mass_solute))
  else (Tn, zero / (c.p.mass_water + c.p.mass_solute))

/-- nucleation rate field `J_z_r` -/
def hazardJ (c : Ctx α) (T : Array α) : Array α :=
  T.map fun t => if t < c.TeqL then c.p.kb * Transc.pow (c.TeqL - t) c.p.b else zero

/-- evaporative heat flux `q_e[j]` of the top row (0 outside VISF / the window).
`time` is `dt*i` (cooling) or `t_nuc + dt*i` (solidification). -/
def qEvap (c : Ctx α) (solidStage : Bool) (time : α) (T : Array α) : Nat → α :=
  match c.p.config with
  | .visf =>
    let p := c.p
    if p.t_vac_start * ofNat' 3600 < time ∧ time < (p.t_vac_start + p.t_vac_duration) * ofNat' 3600 then
      let useSolid := solidStage || c.f.coolingSolidPvap
      fun j =>
        let Tl := rd c.Nr T (c.Nz - 1) j
        let pv := if useSolid then Evap2D.pSolid Tl else Evap2D.pLiquid Tl
        let Nw := Evap2D.vapourFlux p.pi p.kappa p.m_water p.k_B p.p_vac pv Tl Tl
        (-Nw) * p.dHe
    else fun _ => zero
  | _ => fun _ => zero

/-! ### the run -/

structure Row (α : Type) where
  time : α
  shelf : α
  temp : Array α
  ice : Array α

structure CoolOut (α : Type) where
  iEnd : Nat
  T : Array α
  J : Array α
  Kv : α
  Tshelf : α
  rows : Array (Row α)

/-- cooling loop (l.1142-1349): returns `none` if the profile is exhausted without
nucleation. `cn = some (cnTemp)` is controlled nucleation (repaired test). -/
def coolLoop (c : Ctx α) (stride : Nat) (Frand : α) (cn : Option α) (zeros : Array α) :
    List α → Nat → Array α → α → Array (Row α) → Option (CoolOut α)
  | [], _, _, _, _ => none
  | Tsh :: rest, i, T, E, rows =>
    let time := c.dt * ofNat' i
    let T' := coolStep c c.f.inplace Tsh (qEvap c false time T) T
    let J := hazardJ c T'
    let Kv := volIntegral c J
    let rows' :=
      if i % stride = 0 then
        rows.push { time := time, shelf := Tsh - kelvin, temp := T'.map (· - kelvin), ice := zeros }
      else rows
    let E' := E + Kv * c.dt
    let F := one - Transc.exp (-E')
    let stop : Bool :=
      match cn with
      | none => decide (Frand < F)
      | some cnT => decide (minA T' ≤ cnT + kelvin)
    if stop then some { iEnd := i, T := T', J := J, Kv := Kv, Tshelf := Tsh, rows := rows' }
    else coolLoop c stride Frand cn zeros rest (i + 1) T' E' rows'

structure SolidOut (α : Type) where
  rows : Array (Row α)
  iSol : Option Nat
  T : Array α
  w : Array α

/-- solidification loop (l.1426-1750): runs over the whole remaining profile -/
def solidLoop (c : Ctx α) (stride : Nat) (tNuc : α) :
    List α → Nat → Array α → Array α → Array Bool → Array (Row α) → Option Nat → SolidOut α
  | [], _, T, w, _, rows, iSol => { rows := rows, iSol := iSol, T := T, w := w }
  | Tsh :: rest, i, T, w, mask, rows, iSol =>
    let time := tNuc + c.dt * ofNat' i
    -- the first step writes into the old cooling buffer, which is not `T_k`
    let inpl := c.f.inplace && i != 0
    let T' := solidStep c inpl Tsh (qEvap c true time T) T w mask
    let mask' := maskOf c T'
    let w' := iceFrac c T'
    let rows' :=
      if i % stride = 0 then
        rows.push { time := time, shelf := Tsh - kelvin, temp := T'.map (· - kelvin), ice := w' }
      else rows
    let sigma := sigmaOf c w'
    let iSol' := match iSol with
      | some k => some k
      | none => if (lit 9 1 : α) ≤ sigma then some i else none
    solidLoop c stride tNuc rest (i + 1) T' w' mask' rows' iSol'

structure Result (α : Type) where
  dt : α
  NtExp : Nat
  iCool : Nat
  iSol : Nat
  TnucMin : α
  TnucKin : α
  TnucMean : α
  TnucMax : α
  tNuc : α       -- minutes
  tSol : α
  tFr : α
  iSaveEnd : Nat
  time : Array α     -- hours
  shelf : Array α
  temp : Array (Array α)
  ice : Array (Array α)

/-- `ceil(N / 10000)` as used for the save stride -/
def saveStride (N : Nat) : Nat := (N + 9999) / 10000

/-- `_run_2D` for a given shelf profile in °C (`tempProfile(dt)`), `t_tot`-derived
`Nt_exp`, the uniform draw `F_rand` and `cnTemp`. Exceptions as `Except`. -/
def run (p : Par α) (f : Flags) (T0C : α) (profileC : List α) (NtExp : Nat) (Frand : α)
    (cn : Option α) : Except String (Result α) :=
  let c := mkCtx p f
  let n := c.Nz * c.Nr
  let shelfK := profileC.map (· + kelvin)
  let Tinit : Array α := Array.replicate n (zero + (T0C + kelvin))
  let zeros : Array α := Array.replicate n zero
  match coolLoop c (saveStride NtExp) Frand cn zeros shelfK 0 Tinit zero #[] with
  | none => .error "ValueError"
  | some co =>
    let Tnuc := co.T
    -- `f_z = 2π simps(r*T_nuc*J, r)`, then `(1/K_v) simps(f_z, z)`
    let kinInt :=
      let Kr : Array α := Array.ofFn (n := c.Nz) fun i =>
        (two * p.pi) * c.rPlan.eval fun j => (rd1 c.rA j * rd c.Nr Tnuc i.val j) * rd c.Nr co.J i.val j
      c.zPlan.eval (rd1 Kr)
    let Tkin := if zero < co.Kv then (one / co.Kv) * kinInt else kelvin
    let tNuc := c.dt * ofNat' co.iEnd
    let after := Tnuc.map (nucNode c)
    let Tafter := after.map (·.1)
    let w0 := after.map (·.2)
    let mask0 := maskOf c Tnuc
    if co.rows.size ≥ 10000 then .error "IndexError" else
    let rowsC := co.rows.push
      { time := tNuc, shelf := co.Tshelf - kelvin, temp := Tafter.map (· - kelvin), ice := w0 }
    let NtSolid := NtExp - co.iEnd
    let so := solidLoop c (saveStride NtSolid) tNuc (shelfK.drop co.iEnd) 0 Tafter w0 mask0 #[] none
    match so.iSol with
    | none => .error "ValueError"
    | some iSol =>
      let rowsS := so.rows.extract 0 (so.rows.size - 1)
      let all := rowsC ++ rowsS
      .ok {
        dt := c.dt, NtExp := NtExp, iCool := co.iEnd, iSol := iSol,
        TnucMin := minA Tnuc - kelvin, TnucKin := Tkin - kelvin,
        TnucMean := meanA Tnuc - kelvin, TnucMax := maxA Tnuc - kelvin,
        tNuc := tNuc / ofNat' 60,
        tSol := c.dt * ofNat' iSol / ofNat' 60,
        tFr := (tNuc + c.dt * ofNat' iSol) / ofNat' 60,
        iSaveEnd := co.rows.size,
        time := all.map fun r => r.time / ofNat' 3600,
        shelf := all.map (·.shelf),
        temp := all.map (·.temp),
        ice := all.map (·.ice) }

end transc
end Snow.S2D
