/-
  `scipy.integrate.simpson(y, x=x)` on arrays: the same formulas as
  `SnowModel/Simpson.lean` (which works on lists and is the version validated
  against SciPy), with O(1) element access for the hot loops of the Snowing
  models.  `SnowProofs/Lemmas/SimpsonArr.lean` proves
  `simpsonA y x = simpson y.toList x.toList` for every numeric instance.
-/
import SnowModel.Simpson

namespace Snow
open Num

section
variable {α : Type} [Num α]

/-- `a[i]`, `0` out of range (never out of range in the models) -/
@[inline] def aget (a : Array α) (i : Nat) : α := a.getD i zero

/-- one parabolic segment over `x[i], x[i+1], x[i+2]` (cf. `simpsonTerm`) -/
@[specialize] def simpsonTermA (y x : Array α) (i : Nat) : α :=
  let h0 := aget x (i + 1) - aget x i
  let h1 := aget x (i + 2) - aget x (i + 1)
  let hsum := h0 + h1
  let hprod := h0 * h1
  let h0divh1 := divOr0 h0 h1
  hsum / ofNat' 6 *
    (aget y i * (ofNat' 2 - divOr0 one h0divh1)
      + aget y (i + 1) * (hsum * divOr0 hsum hprod)
      + aget y (i + 2) * (ofNat' 2 - h0divh1))

/-- cf. `basicSimpson` -/
@[specialize] def basicSimpsonA (y x : Array α) (stop : Nat) : α :=
  sumList ((List.range ((stop + 1) / 2)).map fun k => simpsonTermA y x (2 * k))

/-- cf. `simpson` -/
@[specialize] def simpsonA (y x : Array α) : α :=
  let N := y.size
  if N % 2 == 0 then
    if N == 2 then
      (lit 5 1) * (aget x 1 - aget x 0) * (aget y 1 + aget y 0)
    else if N == 0 then zero
    else
      let result := basicSimpsonA y x (N - 3)
      let h0 := aget x (N - 2) - aget x (N - 3)
      let h1 := aget x (N - 1) - aget x (N - 2)
      let alpha := divOr0 (ofNat' 2 * (h1 * h1) + ofNat' 3 * h0 * h1) (ofNat' 6 * (h1 + h0))
      let beta := divOr0 (h1 * h1 + ofNat' 3 * h0 * h1) (ofNat' 6 * h0)
      let eta := divOr0 (one * (h1 * h1 * h1)) (ofNat' 6 * h0 * (h0 + h1))
      result + alpha * aget y (N - 1) + beta * aget y (N - 2) - eta * aget y (N - 3)
  else
    basicSimpsonA y x (N - 2)

/-- `np.linspace(0, stop, n)` as an array -/
def linspace0A (stop : α) (n : Nat) : Array α := (linspace0 stop n).toArray

end
end Snow
