/-
  Hand transcription of the three VISF formulas of `ethz_snow/utils.py`
  (`vapour_pressure_liquid`, `vapour_pressure_solid`, `vapour_flux`) used by the
  Snowing 1D model.  (A generated version – translator from utils.py – is built
  separately for C20; the two are to be unified.)

  Operation order follows Python's parse of the source expressions.
-/
import SnowModel.Num

namespace Snow.Evap
open Snow Num

section
variable {α : Type} [Transc α]

/-- the double `np.pi` = 0x400921FB54442D18 = 884279719003555 / 2^48 -/
def piDouble : α := ofRat ((884279719003555 : Rat) / (281474976710656 : Rat))

/-- `Utils.vapour_pressure_liquid(T_liq)` -/
def vapourPressureLiquid (T : α) : α :=
  Transc.exp
    (lit 54842763 6
      - lit 676322 2 / T
      - lit 4210 3 * Transc.log T
      + lit 367 6 * T
      + Transc.tanh (lit 415 4 * (T - lit 2188 1))
        * (lit 53878 3 - lit 133122 2 / T - lit 944523 5 * Transc.log T + lit 14025 6 * T))

/-- `Utils.vapour_pressure_solid(T_sol)` -/
def vapourPressureSolid (T : α) : α :=
  Transc.exp
    (lit 9550426 6 - lit 5723265 3 / T + lit 353068 5 * Transc.log T - lit 728332 8 * T)

/-- `Utils.vapour_flux(kappa, m_water, k_B, p_vac, p_vap, T_l, T_v)` -/
def vapourFlux (kappa m_water k_B p_vac p_vap T_l T_v : α) : α :=
  (ofNat' 2 / (ofNat' 2 - kappa))
    * Transc.sqrt (m_water * (kappa * kappa) / (ofNat' 2 * piDouble * k_B))
    * (p_vap / Transc.sqrt T_l - p_vac / Transc.sqrt T_v)

end
end Snow.Evap
