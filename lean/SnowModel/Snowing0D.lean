/-
  Model of `Snowing._run_0D` (snowing.py l.307-528): homogeneous single-vial model.

  Stages (one function each, so that theorems can speak about them):
    `cool0D`     – cooling loop with hazard accumulation, left at nucleation,
    `nucleate0D` – the nucleation quadratic (B, C, the −√ root), ice formed,
    `solid0D`    – solidification loop (no break; `t_sol` set once at σ ≥ 0.9),
    `run0D`      – assembly of `_stats` and of the four history arrays, with the two
                   `ValueError`s.
  The expression trees follow Python's parse of the source (left-to-right, `**`
  with integer exponent 2 as a product, `** -1` as a reciprocal).
-/
import SnowModel.SnowingTypes
import SnowModel.SnowingLoop

namespace Snow
open Num

/-- `self._stats` of the homogeneous model (`t_sol`, `t_fr` are `None` until the
solidification criterion is met) -/
structure Stats0D (α : Type) where
  T_nuc : α
  t_nuc : α
  t_sol : Option α
  t_fr : Option α

/-- `_time, _shelfTemp, _temp, _iceMassFraction` -/
structure Hist0D (α : Type) where
  time : Array α
  shelf : Array α
  temp : Array α
  ice : Array α

/-- outcome of one `_run_0D` call: what it raised, what it had already written
into `self._stats`, and the arrays it published (only on success) -/
structure Result0D (α : Type) where
  exc : Option String
  stage : String
  n : Nat
  NtCoolEnd : Option Nat
  NtSolEnd : Option Nat
  stats : Option (Stats0D α)
  hist : Option (Hist0D α)
  /-- `E_t` after every executed cooling step -/
  Etrace : Array α
  /-- `T_new` after every executed cooling step -/
  Ttrace : Array α
  /-- `sigma_new` after every solidification step -/
  sigma : Array α

/-- cooling-loop state -/
structure Cool0D (α : Type) where
  T : α
  E : α
  Ttrace : Array α
  Etrace : Array α

/-- solidification-loop state -/
structure Solid0D (α : Type) where
  T : α
  w : α
  solEnd : Option Nat
  /-- `sigma_new` of the last step -/
  sg : α
  Ttrace : Array α
  sigma : Array α

section
variable {α : Type} [Transc α]

/-- `dt = 0.1` -/
def dt0D : α := lit 1 1

/-- nucleation rate `J = kb (T_eq_l − T)^b if T_eq_l > T else 0` -/
@[inline] def nucRate (kb b T_eq_l T : α) : α :=
  if T < T_eq_l then kb * Transc.pow (T_eq_l - T) b else zero

/-- one cooling step (l.381-399) -/
@[specialize] def coolStep0D (p : SnowIn α) (_i : Nat) (s : Cool0D α) (Tshelf : α) : Cool0D α :=
  let k := p.const
  let Tnew := s.T + dt0D * (k.A * p.Kshelf * (Tshelf - s.T)) / (k.cp_solution * k.mass)
  let J := nucRate p.kb k.b p.T_eq_l Tnew
  let Kv := J * k.V
  let E := if zero ≤ Kv then s.E + Kv * dt0D else s.E
  ⟨Tnew, E, s.Ttrace.push Tnew, s.Etrace.push E⟩

/-- the test that ends the cooling stage (l.402-411) -/
@[inline] def coolStop0D (p : SnowIn α) (s : Cool0D α) : Bool :=
  match p.cnTemp with
  | none => hazardStop p.Frand s.E
  | some cn => decide (s.T ≤ cn + lit 27315 2)

def coolInit0D (p : SnowIn α) : Cool0D α := ⟨p.T_0, zero, #[], #[]⟩

/-- the cooling loop -/
def cool0D (p : SnowIn α) (shelf : List α) : Option Nat × Cool0D α :=
  loopUntil (coolStep0D p) (coolStop0D p) shelf 0 (coolInit0D p)

/-- coefficient `B` of the nucleation quadratic (l.436 / l.768) -/
@[inline] def nucB (p : SnowIn α) (Tnuc : α) : α :=
  let k := p.const
  (-p.T_m) - Tnuc - k.Dh * k.mass_water / (k.cp_solution * k.mass)

/-- coefficient `C` (l.437-441 / l.769-773) -/
@[inline] def nucC (p : SnowIn α) (Tnuc : α) : α :=
  let k := p.const
  k.Dh * k.mass_water * p.T_m / (k.cp_solution * k.mass)
    - k.mass_solute * (k.k_f / k.M_s) * k.Dh / (k.cp_solution * k.mass)
    + p.T_m * Tnuc

/-- `T_eq = 0.5 (−B − √(B² − 4C))` -/
@[inline] def nucTeq (p : SnowIn α) (Tnuc : α) : α :=
  let B := nucB p Tnuc
  let C := nucC p Tnuc
  lit 5 1 * (-B - Transc.sqrt (B * B - ofNat' 4 * C))

/-- `m_i = mass_water − mass_solute (k_f/M_s)/(T_m − T)` -/
@[inline] def iceMassEq (p : SnowIn α) (T : α) : α :=
  let k := p.const
  k.mass_water - k.mass_solute * (k.k_f / k.M_s) / (p.T_m - T)

/-- `(T_eq, w_i_nucl)` -/
def nucleate0D (p : SnowIn α) (Tnuc : α) : α × α :=
  let Teq := nucTeq p Tnuc
  (Teq, iceMassEq p Teq / p.const.mass)

/-- `w_i = (mass_water − (k_f mass_solute/M_s)/(T_m − T))/mass` (l.485, l.499) -/
@[inline] def iceFrac0D (p : SnowIn α) (T : α) : α :=
  let k := p.const
  (k.mass_water - (k.k_f * k.mass_solute / k.M_s) / (p.T_m - T)) / k.mass

/-- `sigma_new = w_i mass/(mass − mass_solute)` -/
@[inline] def sigma0D (p : SnowIn α) (w : α) : α :=
  w * p.const.mass / (p.const.mass - p.const.mass_solute)

/-- one solidification step (l.466-492) -/
@[specialize] def solidStep0D (p : SnowIn α) (i : Nat) (s : Solid0D α) (Tshelf : α) : Solid0D α :=
  let k := p.const
  let w_s := k.mass_solute / k.mass
  let cp := k.cp_s * w_s + k.cp_i * s.w + k.cp_w * (one - w_s - s.w)
  let d := p.T_m - s.T
  let X := cp * k.rho_l * k.V + (k.Dh * k.k_f * k.mass_solute / k.M_s) * (one / (d * d))
  let Tnew := s.T + dt0D * (k.A * p.Kshelf * (Tshelf - s.T)) * (one / X)
  let w := iceFrac0D p Tnew
  let sg := sigma0D p w
  ⟨Tnew, w, firstHit s.solEnd (decide (lit 9 1 ≤ sg)) i, sg, s.Ttrace.push Tnew, s.sigma.push sg⟩

def solid0D (p : SnowIn α) (Teq w : α) (shelfTail : List α) : Solid0D α :=
  iterIdx (solidStep0D p) shelfTail 0 ⟨Teq, w, none, zero, #[], #[]⟩

/-- `_run_0D` on the sampled shelf profile `shelf` (in K) -/
def run0DOn (p : SnowIn α) (shelf : List α) : Result0D α :=
  let n := shelf.length
  match cool0D p shelf with
  | (none, s) =>
    { exc := some "ValueError", stage := "nucleation", n := n, NtCoolEnd := none, NtSolEnd := none,
      stats := none, hist := none, Etrace := s.Etrace, Ttrace := s.Ttrace, sigma := #[] }
  | (some Nt, s) =>
    let dt : α := dt0D
    let t_nuc := ofNat' Nt * dt
    let Tnuc := s.T
    let (Teq, w0) := nucleate0D p Tnuc
    let sol := solid0D p Teq w0 (shelf.drop Nt)
    let st0 : Stats0D α := ⟨Tnuc - lit 27315 2, t_nuc / ofNat' 60, none, none⟩
    match sol.solEnd with
    | none =>
      { exc := some "ValueError", stage := "solidification", n := n, NtCoolEnd := some Nt,
        NtSolEnd := none, stats := some st0, hist := none, Etrace := s.Etrace, Ttrace := s.Ttrace,
        sigma := sol.sigma }
    | some iS =>
      let st : Stats0D α :=
        { st0 with t_sol := some (dt * ofNat' iS / ofNat' 60),
                   t_fr := some ((t_nuc + dt * ofNat' iS) / ofNat' 60) }
      let timeC := Array.ofFn (n := Nt) fun i => dt * ofNat' i.val
      let timeS := Array.ofFn (n := n - Nt) fun i => t_nuc + dt * ofNat' i.val
      let time := (timeC ++ timeS).map (· / ofNat' 3600)
      let temp := ((s.Ttrace.extract 0 Nt) ++ sol.Ttrace).map (· - lit 27315 2)
      let shelfR := (shelf.map (· - lit 27315 2)).toArray
      let ice := (Array.replicate Nt (zero : α)) ++ sol.Ttrace.map (iceFrac0D p)
      { exc := none, stage := "", n := n, NtCoolEnd := some Nt, NtSolEnd := some iS,
        stats := some st, hist := some ⟨time, shelfR, temp, ice⟩,
        Etrace := s.Etrace, Ttrace := s.Ttrace, sigma := sol.sigma }

/-- `Snowing._run_0D()`: the shelf profile is `opcond.tempProfile(0.1) + 273.15` -/
def run0D (p : SnowIn α) : Result0D α := run0DOn p (p.shelfK dt0D)

end
end Snow
