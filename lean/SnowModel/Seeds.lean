/-
  Model of the random-number bookkeeping of `ethz_snow.snowflake.Snowflake`
  (seed setter, lazy `H_int / H_ext / H_shelf` properties, `_buildShelfHeatFlow`,
  `_buildHeatflowMatrices`, `run`) and of `ethz_snow.snowfall.Snowfall.run`.

  No generator algorithm is modelled.  A generator is a *stream identity* (the
  seed it was created with) plus the list of calls made on it so far; a draw is
  identified by the position it was taken from.  `run` returns a **draw
  schedule**: which positions feed (1) the shelf coefficients used by the run and
  (2) the nucleation dice.  The per-vial kinetic normals `xi_v` come from a fresh
  legacy generator seeded `seed_v` in every run (no state).  The statistics of a
  run are a function of configuration and schedule (checked by the harness on the
  real code: equal schedules ⇒ bit-identical `stats`).

  `run` mirrors the REPAIRED code (fixes/F3.diff: the generator is re-created
  from the seed and the shelf vector rebuilt inside `run()` once the matrices
  exist).  `runOld` is the code before the repair; it is kept for the
  counter-examples.
-/
namespace Snow.Seeds

/-- one call on a `numpy.random.Generator` as the recording proxy sees it. The
`random(n)` calls of one run (one per time step) are collapsed into `dice`. -/
inductive Call where
  | normal (n : Nat)
  | dice
  | choice (n : Nat)       -- `rng.choice(candidates, size = n, replace = False)` (a `random` storage selection)
deriving DecidableEq, Repr

/-- position in a stream: generator created from `seed`, after the calls `pre` -/
structure Pos where
  seed : Nat
  pre : List Call
deriving DecidableEq, Repr

/-- `(nx, ny, nz)` -/
structure NV where
  nx : Nat
  ny : Nat
  nz : Nat
deriving DecidableEq, Repr

def NV.total (nv : NV) : Nat := nv.nx * nv.ny * nv.nz

/-- `storeStates`: a deterministic selection (index lists, group names, `uniform_n`,
`None`: the vials are a function of the shape) or a `random_n` request -/
inductive MaskSpec where
  | det (vials : List Nat)
  | random (n : Nat)
deriving DecidableEq, Repr

/-- the storage mask an object holds: given vials, or vials drawn at `src` -/
inductive Stored where
  | det (vials : List Nat)
  | drawn (src : Pos) (n : Nat)
deriving DecidableEq, Repr

/-- the part of the configuration the bookkeeping reads. `mask` is the `storeStates`
argument of the constructor; a `random` request draws from the generator AT
CONSTRUCTION (after the seed setter's shelf build). -/
structure Cfg where
  sigmaPos : Bool          -- "s_sigma_rel" in k and k["s_sigma_rel"] > 0
  mask : MaskSpec := .det []
deriving DecidableEq, Repr

/-- where the shelf coefficients in `_H_shelf` come from -/
inductive Shelf where
  | scalar (pallet : Bool)           -- k["s0"] (shelf) or 0 (pallet, nz > 1): no draw
  | drawn (src : Pos) (n : Nat)      -- s0 + normal(size = n) * s_sigma_rel * s0 drawn at `src`
deriving DecidableEq, Repr

/-- what the recording proxy logs -/
inductive Ev where
  | create (seed : Nat)              -- np.random.default_rng(seed)
  | call (c : Call)
  | xi (seedV n : Nat)               -- np.random.seed(seed_v); np.random.rand(n)  (global legacy generator)
deriving DecidableEq, Repr

/-- the Snowflake object (only the fields the bookkeeping touches) -/
structure Obj where
  nv : NV
  seed : Nat
  rng : Pos
  seedUsed : Nat
  nvUsed : NV
  hBuilt : Bool            -- `_H_int is not None`
  shelf : Shelf            -- source of `_H_shelf` (never `None` after construction)
  seedV : Nat := 2024      -- `seed_v`, a plain attribute (constructor default 2024)
  cfgId : Nat := 0         -- which configuration is attached NOW (opcond contents edited in place or replaced,
                           -- `dt`, …: plain attributes and a mutable object; abstract version number)
deriving DecidableEq, Repr

/-- the draw schedule of one run -/
structure Sched where
  nv : NV
  shelf : Shelf
  dice : Pos
deriving DecidableEq, Repr

abbrev M := Obj × List Ev

/-- `_buildShelfHeatFlow` -/
def buildShelf (c : Cfg) (o : Obj) : M :=
  let o := { o with seedUsed := o.seed }
  if o.nv.nz = 1 then
    if c.sigmaPos then
      let n := o.nv.total
      ({ o with shelf := .drawn o.rng n, rng := { o.rng with pre := o.rng.pre ++ [.normal n] } },
       [.call (.normal n)])
    else ({ o with shelf := .scalar false }, [])
  else ({ o with shelf := .scalar true }, [])

/-- `H_shelf` property (object already constructed, `_H_shelf` not `None`) -/
def getHShelf (c : Cfg) (o : Obj) : M :=
  if o.nv ≠ o.nvUsed ∨ o.seed ≠ o.seedUsed then buildShelf c o else (o, [])

/-- `_buildHeatflowMatrices` -/
def buildMatrices (c : Cfg) (o : Obj) : M :=
  buildShelf c { o with nvUsed := o.nv, hBuilt := true }

/-- `H_int` property (and `H_ext`, whose condition is the same) -/
def getHInt (c : Cfg) (o : Obj) : M :=
  if o.hBuilt = false ∨ o.nv ≠ o.nvUsed then buildMatrices c o else (o, [])

/-- seed setter -/
def setSeed (c : Cfg) (s : Nat) (o : Obj) : M :=
  let r := getHShelf c { o with rng := ⟨s, []⟩, seed := s }
  (r.1, .create s :: r.2)

/-- the object right after `_H_* = None` and before the seed setter runs -/
def newObj0 (s : Nat) (nv : NV) : Obj :=
  { nv := nv, seed := s, rng := ⟨s, []⟩, seedUsed := s, nvUsed := nv, hBuilt := false, shelf := .scalar false }

/-- `Snowflake(seed = s, N_vials = nv, storeStates = …)`: `_H_* = None`, then the seed
setter (whose `H_shelf` access builds the shelf vector because `_H_shelf is None`),
then `_NvialsUsed = N_vials`, then the storage selection: a `random` request calls
`rng.choice` on the generator as the shelf build left it. -/
def mkNew (c : Cfg) (s : Nat) (nv : NV) : M :=
  let r := buildShelf c (newObj0 s nv)
  match c.mask with
  | .det _ => (r.1, .create s :: r.2)
  | .random n =>
    ({ r.1 with rng := { r.1.rng with pre := r.1.rng.pre ++ [.choice n] } },
     .create s :: r.2 ++ [.call (.choice n)])

/-- the storage mask the new object holds -/
def newMask (c : Cfg) (s : Nat) (nv : NV) : Stored :=
  match c.mask with
  | .det l => .det l
  | .random n => .drawn (buildShelf c (newObj0 s nv)).1.rng n

/-- the dice of a run start at the generator's current position -/
def rollDice (o : Obj) : Obj × Sched × List Ev :=
  ({ o with rng := { o.rng with pre := o.rng.pre ++ [.dice] } },
   { nv := o.nv, shelf := o.shelf, dice := o.rng },
   [.call .dice])

/-- `run()` after the repair: matrices through the lazy properties, THEN a fresh
generator from the seed and a fresh shelf vector, then the time loop. -/
def run (c : Cfg) (o : Obj) : Obj × Sched × List Ev :=
  let r1 := getHInt c o
  let r2 := getHInt c r1.1          -- H_ext
  let r4 := buildShelf c { r2.1 with rng := ⟨r2.1.seed, []⟩ }
  let r5 := getHShelf c r4.1
  let r6 := rollDice r5.1
  (r6.1, r6.2.1, r1.2 ++ r2.2 ++ [.create r2.1.seed] ++ r4.2 ++ r5.2 ++ [.xi o.seedV o.nv.total] ++ r6.2.2)

/-- `run()` before the repair -/
def runOld (c : Cfg) (o : Obj) : Obj × Sched × List Ev :=
  let r1 := getHInt c o
  let r2 := getHInt c r1.1
  let r5 := getHShelf c r2.1
  let r6 := rollDice r5.1
  (r6.1, r6.2.1, r1.2 ++ r2.2 ++ r5.2 ++ [.xi o.seedV o.nv.total] ++ r6.2.2)

inductive Act where
  | new (s : Nat) (nv : NV)
  | setSeed (s : Nat)
  | build
  | run
  | setN (nv : NV)
  | setSeedV (v : Nat)     -- `S.seed_v = v`
  | readShelf              -- `_ = S.H_shelf`
  | readInt                -- `_ = S.H_int` (or `H_ext`)
  | editCfg (k : Nat)      -- in-place edit of the attached opcond / `S.dt = …` / `S.opcond = …`: configuration `k`
deriving DecidableEq, Repr

/-- result of a history: final object, events per operation, schedules of the runs
(in order) -/
structure Trace where
  obj : Obj
  evs : List (List Ev)
  scheds : List Sched
  /-- per run: the vial seed and vial count the kinetic deviates `xi_v` are drawn with (the global legacy
  generator is re-seeded with the CURRENT `seed_v` at the start of every run) -/
  xis : List (Nat × Nat) := []
  /-- per run: the configuration the run reads (the one attached at that moment; nothing is cached) -/
  cfgs : List Nat := []
  /-- the storage mask the object holds (set at construction) … -/
  mask : Stored := .det []
  /-- … and, per run, the mask the run READS when it writes the state matrix `X` -/
  recs : List Stored := []
deriving DecidableEq, Repr

def step (runF : Cfg → Obj → Obj × Sched × List Ev) (c : Cfg) (t : Trace) : Act → Trace
  | .new s nv => { t with obj := (mkNew c s nv).1, evs := t.evs ++ [(mkNew c s nv).2], mask := newMask c s nv }
  | .setSeed s => { t with obj := (setSeed c s t.obj).1, evs := t.evs ++ [(setSeed c s t.obj).2] }
  | .build => { t with obj := (buildMatrices c t.obj).1, evs := t.evs ++ [(buildMatrices c t.obj).2] }
  | .run => { obj := (runF c t.obj).1, evs := t.evs ++ [(runF c t.obj).2.2],
              scheds := t.scheds ++ [(runF c t.obj).2.1],
              xis := t.xis ++ [(t.obj.seedV, t.obj.nv.total)],
              cfgs := t.cfgs ++ [t.obj.cfgId], mask := t.mask, recs := t.recs ++ [t.mask] }
  | .setN nv => { t with obj := { t.obj with nv := nv }, evs := t.evs ++ [[]] }
  | .setSeedV v => { t with obj := { t.obj with seedV := v }, evs := t.evs ++ [[]] }
  | .readShelf => { t with obj := (getHShelf c t.obj).1, evs := t.evs ++ [(getHShelf c t.obj).2] }
  | .readInt => { t with obj := (getHInt c t.obj).1, evs := t.evs ++ [(getHInt c t.obj).2] }
  | .editCfg k => { t with obj := { t.obj with cfgId := k }, evs := t.evs ++ [[]] }

def execFrom (runF : Cfg → Obj → Obj × Sched × List Ev) (c : Cfg) (o : Obj) (h : List Act) : Trace :=
  h.foldl (step runF c) { obj := o, evs := [], scheds := [] }

/-- the Python defaults: `Snowflake()` has `seed = 2021`, `N_vials = (7, 7, 1)` -/
def defaultObj (c : Cfg) : Obj := (mkNew c 2021 ⟨7, 7, 1⟩).1

/-- a history of operations, starting from a default-constructed object
(`Act.new` replaces it) -/
def exec (c : Cfg) (h : List Act) : Trace := execFrom run c (defaultObj c) h
def execOld (c : Cfg) (h : List Act) : Trace := execFrom runOld c (defaultObj c) h

/-- the shape in force after a history -/
def nvAfter (nv0 : NV) : List Act → NV
  | [] => nv0
  | .new _ nv :: h => nvAfter nv h
  | .setN nv :: h => nvAfter nv h
  | _ :: h => nvAfter nv0 h

/-- the seed in force after a history -/
def seedAfter (s0 : Nat) : List Act → Nat
  | [] => s0
  | .new s _ :: h => seedAfter s h
  | .setSeed s :: h => seedAfter s h
  | _ :: h => seedAfter s0 h

/-- the configuration attached after a history -/
def cfgAfter (k0 : Nat) : List Act → Nat
  | [] => k0
  | .new _ _ :: h => cfgAfter 0 h
  | .editCfg k :: h => cfgAfter k h
  | _ :: h => cfgAfter k0 h

/-- the vial seed in force after a history -/
def seedVAfter (v0 : Nat) : List Act → Nat
  | [] => v0
  | .new _ _ :: h => seedVAfter 2024 h
  | .setSeedV v :: h => seedVAfter v h
  | _ :: h => seedVAfter v0 h

/-- the schedule of `Snowflake(seed = s, N_vials = nv).run()` -/
def canon (c : Cfg) (s : Nat) (nv : NV) : Sched :=
  if nv.nz = 1 then
    if c.sigmaPos then
      { nv := nv, shelf := .drawn ⟨s, []⟩ nv.total, dice := ⟨s, [.normal nv.total]⟩ }
    else { nv := nv, shelf := .scalar false, dice := ⟨s, []⟩ }
  else { nv := nv, shelf := .scalar true, dice := ⟨s, []⟩ }

/-! ### Snowfall -/

/-- `Snowfall.__init__`: `Snowflake(**kwargs)` (seed is deleted from kwargs → 2021)
followed by `_buildHeatflowMatrices()` -/
def template (c : Cfg) (nv : NV) : Obj := (exec c [.new 2021 nv, .build]).obj

/-- the tasks of one chunk, `_uniqueFlake(S, i)` = `S.seed = i; S.run()` -/
def chunkOps (seeds : List Nat) : List Act := seeds.flatMap fun i => [.setSeed i, .run]

/-- one chunk runs its tasks in order on ONE private copy of the template; the
result is `(seed, schedule)` per task -/
def runChunk (runF : Cfg → Obj → Obj × Sched × List Ev) (c : Cfg) (tmpl : Obj) (seeds : List Nat) :
    List (Nat × Sched) :=
  seeds.zip (execFrom runF c tmpl (chunkOps seeds)).scheds

/-- pool modes (`async`, `sync`): every chunk gets its own copy of the template -/
def fallPool (runF : Cfg → Obj → Obj × Sched × List Ev) (c : Cfg) (tmpl : Obj)
    (chunks : List (List Nat)) : List (Nat × Sched) :=
  chunks.flatMap (runChunk runF c tmpl)

/-- `sequential`: one chunk `0 … Nrep-1` on the template itself -/
def fallSeq (runF : Cfg → Obj → Obj × Sched × List Ev) (c : Cfg) (tmpl : Obj) (nrep : Nat) :
    List (Nat × Sched) :=
  runChunk runF c tmpl (List.range nrep)

/-- `multiprocessing.Pool._map_async` batching for `starmap(_async)` without an
explicit chunksize: `chunksize = ceil(n / (4 * pool))`, consecutive slices.
(Modelled, not verified; the theorems hold for every list of chunks.) -/
def poolChunksAux (size : Nat) : Nat → List Nat → List (List Nat)
  | 0, _ => []
  | _, [] => []
  | fuel + 1, l => l.take size :: poolChunksAux size fuel (l.drop size)

def poolChunks (nrep pool : Nat) : List (List Nat) :=
  let size := (nrep + 4 * pool - 1) / (4 * pool)
  if size = 0 then [] else poolChunksAux size nrep (List.range nrep)

end Snow.Seeds
