/-
  The `group` columns of `Snowflake.to_frame` as the code computes them: the label
  functions of `Groups.lean` (`statsLabel`, `trajLabel`, applied to the exposure count
  `VIAL_EXT[v]`) rendered as the cell content, in vial order.  These are the
  `labels` / `tlabels` inputs of `Frames.statsTable` / `Frames.trajTable`.
-/
import SnowModel.Frames
import SnowModel.Groups

namespace Snow.FrameLabels
open Snow.Topology Snow.Groups Snow.Frames

/-- cell content of a label: the class name, or the number that was never replaced -/
def render : Label → String
  | .name s => s
  | .num e => toString e

/-- `group` column source of the statistics table: one label per vial -/
def statsLabels (arr : Arr) (nx ny nz : Nat) : List String :=
  (List.range (nTot nx ny nz)).map fun v => render (statsLabel arr nz (ext arr nx ny nz v))

/-- `group` column source of the trajectory table: one label per STORED vial
(`VIAL_EXT[storageMask]`) -/
def trajLabels (arr : Arr) (nx ny nz : Nat) (vials : List Nat) : List String :=
  vials.map fun v => render (trajLabel arr nz (ext arr nx ny nz v))

end Snow.FrameLabels
