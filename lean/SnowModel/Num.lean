/-
  Numeric interface of the SNOW model.

  All numeric model code is written once against `Num α` / `Transc α` and is
  instantiated at
    * `Float`  (this file)  – what the compiled driver runs, compared with numpy,
    * `Rat`    (this file)  – exact arithmetic, used for concrete witnesses,
    * `ℝ`      (SnowProofs/RealInst.lean, noncomputable) – what the theorems are about.

  Core Lean only: no Mathlib import in any SnowModel file.
-/

namespace Snow

/-- Ordered-field-like arithmetic plus the three non-field operations the Python
code uses (`float` literals, `int(np.ceil(x))`, Python's float `%`). -/
class Num (α : Type) extends Add α, Sub α, Mul α, Div α, Neg α, LT α, LE α where
  /-- a decimal literal of the Python source, e.g. `273.15 = ofRat (27315/100)` -/
  ofRat : Rat → α
  /-- `int(np.ceil(x))` -/
  ceilInt : α → Int
  /-- `int(x)` for x ≥ 0 / floor -/
  floorInt : α → Int
  /-- Python `x % y` on floats -/
  pyMod : α → α → α
  decLt : DecidableLT α
  decLe : DecidableLE α

instance {α} [Num α] : DecidableLT α := Num.decLt
instance {α} [Num α] : DecidableLE α := Num.decLe

/-- The transcendental functions used by the simulator (`**`, `np.exp`, `np.log`,
`np.sqrt`, `np.tanh`). -/
class Transc (α : Type) extends Num α where
  pow : α → α → α
  exp : α → α
  log : α → α
  sqrt : α → α
  tanh : α → α

namespace Num
variable {α : Type} [Num α]

@[inline] def ofInt (i : Int) : α := ofRat (i : Rat)
@[inline] def ofNat' (n : Nat) : α := ofRat (n : Rat)
@[inline] def zero : α := ofRat 0
@[inline] def one : α := ofRat 1
/-- decimal literal `m / 10^k` -/
@[inline] def lit (m : Int) (k : Nat) : α := ofRat ((m : Rat) / ((10 ^ k : Nat) : Rat))

/-- numpy/Python `==` on floats, expressed with the order (false on NaN). -/
@[inline] def eqb (x y : α) : Bool := decide (x ≤ y) && decide (y ≤ x)

@[inline] def max (x y : α) : α := if x < y then y else x
@[inline] def min (x y : α) : α := if y < x then y else x

end Num

/-! ### `Float` instance (IEEE double, as numpy) -/

namespace FloatImpl

/-- exact value of a finite double as a rational -/
def toRat (x : Float) : Rat :=
  let b := x.toBits
  let sign : Int := if b >>> 63 == 1 then -1 else 1
  let e : Nat := ((b >>> 52) &&& 0x7FF).toNat
  let m : Nat := (b &&& 0xFFFFFFFFFFFFF).toNat
  if e == 0 then
    -- subnormal: m * 2^-1074
    (sign * (m : Int) : Int) / ((2 ^ 1074 : Nat) : Rat)
  else
    let mant : Nat := m + 2 ^ 52
    let ex : Int := (e : Int) - 1075
    if ex ≥ 0 then ((sign * (mant * 2 ^ ex.toNat : Nat) : Int) : Rat)
    else (sign * (mant : Int) : Int) / ((2 ^ (-ex).toNat : Nat) : Rat)

/-- conversion of a rational that is exactly representable as a double -/
def ofRatExact (q : Rat) : Float :=
  -- q = num / 2^k for exactly representable values; num has ≤ 53 significant bits
  let num := q.num
  let den := q.den
  -- den is a power of two: den = 2^k
  let k := den.log2
  (Float.ofInt num).scaleB (-(k : Int))

def isFinite (x : Float) : Bool := !(x.isNaN || x.isInf)

/-- C `fmod` (exact) -/
def fmod (x y : Float) : Float :=
  if !(isFinite x) || y.isNaN || y == 0 then (0.0 / 0.0)
  else if y.isInf then x
  else
    let qx := toRat x
    let qy := toRat y
    let ay := if qy < 0 then -qy else qy
    let ax := if qx < 0 then -qx else qx
    let r := ax - ((ax / ay).floor : Rat) * ay
    let r := if qx < 0 then -r else r
    if r == 0 then (if x < 0 || (x == 0 && (x.toBits >>> 63 == 1)) then -0.0 else 0.0)
    else ofRatExact r

/-- CPython `float_rem` -/
def pyMod (x y : Float) : Float :=
  let m := fmod x y
  if m != 0 then
    if (y < 0) != (m < 0) then m + y else m
  else
    -- copysign(0, y)
    if y < 0 then -0.0 else 0.0

def ofRat (q : Rat) : Float := Float.ofInt q.num / Float.ofNat q.den

end FloatImpl

instance : Num Float where
  ofRat := FloatImpl.ofRat
  ceilInt x := (Float.ceil x).toInt64.toInt
  floorInt x := (Float.floor x).toInt64.toInt
  pyMod := FloatImpl.pyMod
  decLt := inferInstance
  decLe := inferInstance

instance : Transc Float where
  pow := Float.pow
  exp := Float.exp
  log := Float.log
  sqrt := Float.sqrt
  tanh := Float.tanh

/-! ### `Rat` instance (exact) -/

instance : Num Rat where
  ofRat q := q
  ceilInt x := x.ceil
  floorInt x := x.floor
  pyMod x y := x - ((x / y).floor : Rat) * y
  decLt := inferInstance
  decLe := inferInstance

end Snow
