/-
  The fields of a `Snowing` object across successive `run()` calls (Nrep = 1):
  `_simulationStatus`, `_stats`, and the history arrays `_time/_shelfTemp/_temp/_iceMassFraction`.

  * `_run_0D/_run_1D/_run_2D` write the nucleation part of `_stats` (with `t_sol = t_fr = None`)
    BEFORE the solidification stage and the arrays only at the very end; an exception leaves
    whatever was written so far.
  * `run()` sets `_simulationStatus = 1` only when the model function returned.
  * `results` asserts `_simulationStatus == 1`; `time/temp/shelfTemp/iceMassFraction` assert
    `_simulationStatus == 1 or <array> is not None`.

  (The dispatch of `run` over dimensionality / Nrep / how is modelled separately for C14.)
-/
import SnowModel.Snowing0D
import SnowModel.Snowing1D
import SnowModel.Snowing2D

namespace Snow

/-- what one call of a `_run_xD` did to the object: the exception it raised, the `_stats` it
had written (`none`: nothing yet), the arrays it published (`none`: not reached) -/
structure RunOut (S H : Type) where
  exc : Option String
  stats : Option S
  hist : Option H

structure SnowObj (S H : Type) where
  status : Nat
  stats : Option S
  hist : Option H

namespace SnowObj
variable {S H : Type}

/-- a freshly constructed object: `_simulationStatus = 0`, `_stats = {}`, arrays `None` -/
def fresh : SnowObj S H := ⟨0, none, none⟩

/-- `run()` -/
def run (o : SnowObj S H) (r : RunOut S H) : SnowObj S H :=
  { status := if r.exc.isNone then 1 else o.status,
    stats := match r.stats with
      | some s => some s
      | none => o.stats,
    hist := match r.hist with
      | some h => some h
      | none => o.hist }

/-- `run()` as repaired (K6: the outputs of an earlier run are cleared before the model function is
called; K7: an exception clears them again, so a failed run leaves nothing behind) -/
def runFixed (_o : SnowObj S H) (r : RunOut S H) : SnowObj S H :=
  { status := if r.exc.isNone then 1 else 0,
    stats := if r.exc.isNone then r.stats else none,
    hist := if r.exc.isNone then r.hist else none }

/-- `run()` with the K6 repair only (clear first, nothing on exception) -/
def runK6 (_o : SnowObj S H) (r : RunOut S H) : SnowObj S H :=
  { status := if r.exc.isNone then 1 else 0, stats := r.stats, hist := r.hist }

/-- `.results` (`Except.error` = the exception class the accessor raises) -/
def results (o : SnowObj S H) : Except String (Option S) :=
  if o.status = 1 then .ok o.stats else .error "AssertionError"

/-- `.time`, `.temp`, `.shelfTemp`, `.iceMassFraction` -/
def history (o : SnowObj S H) : Except String (Option H) :=
  if o.status = 1 ∨ o.hist.isSome then .ok o.hist else .error "AssertionError"

end SnowObj

/-! ### sequential multi-repetition studies (`Nrep > 1`, `how="sequential"`)

`run()` calls `_run_xD(seed=i)` for `i = 0, 1, …` in order; every repetition that returns publishes
ITS histories on the object and hands back its statistics row; the first repetition that raises
ends the study.  The object of a study carries the table of rows (`S = List row`). -/

/-- the repetitions actually executed: up to and including the first one that raises -/
def executed {S H : Type} : List (RunOut S H) → List (RunOut S H)
  | [] => []
  | r :: rs => if r.exc.isNone then r :: executed rs else [r]

/-- the exception of a study (of its last executed repetition) -/
def studyExc {S H : Type} (reps : List (RunOut S H)) : Option String :=
  match (executed reps).getLast? with
  | some r => r.exc
  | none => none

/-- the histories left on the object by the executed repetitions: those of the last one that published -/
def studyHist {S H : Type} (reps : List (RunOut S H)) : Option H :=
  (executed reps).foldl (fun acc r => match r.hist with
    | some h => some h
    | none => acc) none

/-- the statistics rows of the repetitions that completed -/
def studyRows {S H : Type} (reps : List (RunOut S H)) : List S :=
  (executed reps).filterMap fun r => if r.exc.isNone then r.stats else none

/-- a study on the code with the K6 repair only: a failure in a later repetition leaves the histories of
the last completed repetition on the object -/
def SnowObj.runStudyK6 {S H : Type} (_o : SnowObj (List S) H) (reps : List (RunOut S H)) : SnowObj (List S) H :=
  { status := if (studyExc reps).isNone then 1 else 0,
    stats := if (studyExc reps).isNone then some (studyRows reps) else none,
    hist := studyHist reps }

/-- a study on the repaired code (K7): an exception clears everything -/
def SnowObj.runStudyFixed {S H : Type} (_o : SnowObj (List S) H) (reps : List (RunOut S H)) : SnowObj (List S) H :=
  { status := if (studyExc reps).isNone then 1 else 0,
    stats := if (studyExc reps).isNone then some (studyRows reps) else none,
    hist := if (studyExc reps).isNone then studyHist reps else none }

def out0D {α : Type} (r : Result0D α) : RunOut (Stats0D α) (Hist0D α) := ⟨r.exc, r.stats, r.hist⟩
def out1D {α : Type} (r : Result1D α) : RunOut (Stats1D α) (Array (Row α)) := ⟨r.exc, r.stats, r.hist⟩


/-- what one `_run_2D` call did to the object: `S2D.run` either returns the complete result (statistics
and histories are fields of one `Result`) or the class of the exception – it writes nothing before -/
def out2D {α : Type} (r : Except String (S2D.Result α)) : RunOut (S2D.Result α) (S2D.Result α) :=
  match r with
  | .ok res => ⟨none, some res, some res⟩
  | .error e => ⟨some e, none, none⟩

/-! ### asynchronous multi-repetition studies (`Nrep > 1`, `how="async"`)

The repetitions run in worker processes on private copies of the object: the parent object receives the
rows (`starmap_async(...).get()`, which re-raises the exception of a repetition that failed) but never the
histories. -/

/-- the exception `.get()` re-raises: that of the first repetition (in task order) that raised -/
def asyncExc {S H : Type} (reps : List (RunOut S H)) : Option String :=
  (reps.find? fun r => r.exc.isSome).bind (·.exc)

/-- an asynchronous study on the repaired `run()` -/
def SnowObj.runStudyAsync {S H : Type} (_o : SnowObj (List S) H) (reps : List (RunOut S H)) : SnowObj (List S) H :=
  { status := if (asyncExc reps).isNone then 1 else 0,
    stats := if (asyncExc reps).isNone then some (reps.filterMap (·.stats)) else none,
    hist := none }

end Snow
