/-
  Noncomputable instance of the model's numeric interface for ℝ.
  The property theorems are statements about the model instantiated here.
-/
import SnowModel.Num
import Mathlib.Data.Real.Basic
import Mathlib.Algebra.Order.Archimedean.Real.Basic
import Mathlib.Analysis.SpecialFunctions.Pow.Real
import Mathlib.Analysis.SpecialFunctions.Trigonometric.DerivHyp

namespace Snow

noncomputable instance : Num ℝ where
  ofRat q := (q : ℝ)
  ceilInt x := ⌈x⌉
  floorInt x := ⌊x⌋
  pyMod x y := x - (⌊x / y⌋ : ℝ) * y
  decLt := inferInstance
  decLe := inferInstance

noncomputable instance : Transc ℝ where
  pow := Real.rpow
  exp := Real.exp
  log := Real.log
  sqrt := Real.sqrt
  tanh := Real.tanh

end Snow

namespace Snow
open Num

@[simp] theorem ceilInt_real (x : ℝ) : Num.ceilInt x = ⌈x⌉ := rfl
@[simp] theorem floorInt_real (x : ℝ) : Num.floorInt x = ⌊x⌋ := rfl
@[simp] theorem ofRat_real (q : ℚ) : (Num.ofRat q : ℝ) = (q : ℝ) := rfl
theorem pyMod_real (x y : ℝ) : Num.pyMod x y = x - (⌊x / y⌋ : ℝ) * y := rfl
@[simp] theorem ofNat'_real (n : ℕ) : (Num.ofNat' n : ℝ) = (n : ℝ) := by
  simp [Num.ofNat']
@[simp] theorem ofInt_real (n : ℤ) : (Num.ofInt n : ℝ) = (n : ℝ) := by
  simp [Num.ofInt]
@[simp] theorem zero_real : (Num.zero : ℝ) = 0 := by simp [Num.zero]
@[simp] theorem one_real : (Num.one : ℝ) = 1 := by simp [Num.one]
theorem lit_real (m : ℤ) (k : ℕ) : (Num.lit m k : ℝ) = (m : ℝ) / (10 : ℝ) ^ k := by
  simp [Num.lit]
@[simp] theorem eqb_real (x y : ℝ) : Num.eqb x y = decide (x = y) := by
  simp only [Num.eqb]
  by_cases h : x = y
  · subst h; simp
  · rcases lt_or_gt_of_ne h with h' | h'
    · simp [h, not_le.mpr h', le_of_lt h']
    · simp [h, not_le.mpr h', le_of_lt h']
theorem max_real (x y : ℝ) : Num.max x y = Max.max x y := by
  simp only [Num.max]; split <;> rename_i h
  · exact (max_eq_right (le_of_lt h)).symm
  · exact (max_eq_left (not_lt.mp h)).symm
theorem min_real (x y : ℝ) : Num.min x y = Min.min x y := by
  simp only [Num.min]; split <;> rename_i h
  · exact (min_eq_right (le_of_lt h)).symm
  · exact (min_eq_left (not_lt.mp h)).symm

/-- Python's `x % y` lies in `[0, y)` for `y > 0`. -/
theorem pyMod_nonneg (x y : ℝ) (hy : 0 < y) : 0 ≤ Num.pyMod x y := by
  rw [pyMod_real]
  have := Int.floor_le (x / y)
  have h2 : (⌊x / y⌋ : ℝ) * y ≤ x := by
    calc (⌊x / y⌋ : ℝ) * y ≤ (x / y) * y := by gcongr
      _ = x := by field_simp
  linarith

theorem pyMod_lt (x y : ℝ) (hy : 0 < y) : Num.pyMod x y < y := by
  rw [pyMod_real]
  have := Int.lt_floor_add_one (x / y)
  have h2 : x < ((⌊x / y⌋ : ℝ) + 1) * y := by
    calc x = (x / y) * y := by field_simp
      _ < ((⌊x / y⌋ : ℝ) + 1) * y := by gcongr
  linarith

end Snow
