/-
  C18 — State recording stores exactly the requested vials, unperturbed.

  Property theorems only (helper lemmas: SnowProofs/Lemmas/Store.lean).
  Model: SnowModel/Store.lean (`storeStates` interpretation of `Snowflake.__init__` /
  `_interpretStorageString`, and the masked write of `Snowflake.run`).
  The random selection is an arbitrary choice without repetition from the candidates
  (what `Generator.choice(..., replace=False)` returns is input of the model).
-/
import SnowProofs.Lemmas.Store

namespace Snow.C18
open Snow.Topology Snow.Groups Snow.Store

/-- **an index list records exactly the listed vials**; it is accepted iff every index
is a vial (`0 ≤ x < N`), otherwise `ValueError`. -/
theorem ints_exact (N : Nat) (xs : List Int) :
    ((∀ x ∈ xs, 0 ≤ x ∧ x < N) →
      ∃ m, interpretInts N xs = .ok m ∧ m.length = N ∧
        ∀ i, i < N → (m.getD i false = true ↔ (i : Int) ∈ xs))
    ∧ (¬ (∀ x ∈ xs, 0 ≤ x ∧ x < N) → interpretInts N xs = .error "ValueError") := by
  constructor
  · intro h
    refine ⟨maskFromIdx N (xs.map Int.toNat), ?_, length_maskFromIdx _ _, ?_⟩
    · unfold interpretInts
      rw [if_neg]
      simp only [Bool.or_eq_true, List.any_eq_true, decide_eq_true_eq, not_or, not_exists, not_and]
      exact ⟨fun x hx => by have := h x hx; omega, fun x hx => by have := h x hx; omega⟩
    · intro i hi
      rw [getD_maskFromIdx _ hi]
      simp only [List.contains_eq_mem, List.mem_map, decide_eq_true_eq]
      constructor
      · rintro ⟨x, hx, rfl⟩
        have := h x hx
        rwa [Int.toNat_of_nonneg this.1]
      · intro hx
        exact ⟨(i : Int), hx, by simp⟩
  · intro h
    unfold interpretInts
    rw [if_pos]
    simp only [Bool.or_eq_true, List.any_eq_true, decide_eq_true_eq]
    false_or_by_contra
    rename_i hc
    apply h
    intro x hx
    constructor
    · false_or_by_contra; rename_i h0
      exact hc (Or.inr ⟨x, hx, by omega⟩)
    · false_or_by_contra; rename_i h0
      exact hc (Or.inl ⟨x, hx, by omega⟩)

/-- **an index list must consist of Python integers**: a list/tuple with an entry that
is a numpy scalar (integer or floating), a float or anything else that is neither `int`
nor `str` is rejected with `ValueError` — nothing is truncated or converted — and a
sequence of `int`/`bool` entries with at least one `int` (or empty) is treated as the
index list of their values (`True` = 1); a non-empty sequence of `bool` only is used by
numpy as a boolean mask of length `N` (`IndexError` for any other length) — after the
range check with `True` = 1, which rejects a `True` entry when `N = 1` (`ValueError`). -/
theorem seq_non_int_rejected (arr : Arr) (nx ny nz : Nat) (items : List Item) (choices : List (List Nat)) :
    ((∃ it ∈ items, it.isInt = false ∧ it.isStr = false) →
      storageMask arr nx ny nz (.seq items) choices = .error "ValueError")
    ∧ (items.all Item.isInt = true → (items = [] ∨ items.all Item.isBool = false) →
      storageMask arr nx ny nz (.seq items) choices
        = storageMask arr nx ny nz (.ints (items.map Item.intVal)) choices)
    ∧ (items ≠ [] → items.all Item.isBool = true →
      storageMask arr nx ny nz (.seq items) choices
        = if (items.any fun it => decide ((if it.intVal == 1 then 1 else 0 : Int) > (nTot nx ny nz : Int) - 1)) then
            .error "ValueError"
          else if items.length = nTot nx ny nz then .ok (items.map (fun it => it.intVal == 1), false)
          else .error "IndexError") := by
  constructor
  · rintro ⟨it, hit, h1, h2⟩
    have hA : items.all Item.isInt = false := by
      rw [Bool.eq_false_iff]; intro h
      have := List.all_eq_true.mp h it hit
      rw [h1] at this; exact Bool.false_ne_true this
    have hB : items.all Item.isStr = false := by
      rw [Bool.eq_false_iff]; intro h
      have := List.all_eq_true.mp h it hit
      rw [h2] at this; exact Bool.false_ne_true this
    simp [storageMask, classify, hA, hB]
  constructor
  · intro h hb
    rcases hb with hb | hb
    · subst hb; simp [storageMask, classify]
    · simp [storageMask, classify, h, hb]
  · intro hne hb
    have hI : items.all Item.isInt = true := by
      rw [List.all_eq_true] at hb ⊢
      intro it hit
      have := hb it hit
      cases it <;> simp_all [Item.isBool, Item.isInt]
    have hE : items.isEmpty = false := by cases items <;> simp_all
    simp [storageMask, classify, hI, hb, hE, extVec]

/-- **a group request records exactly the named group**: a string that contains a group
word (the first of `VIAL_GROUPS` found) and neither `random` nor `uniform` gives the
mask of `getVialGroup` for that group. -/
theorem group_exact (arr : Arr) (nz : Nat) (exts : List Nat) (s g : String) (choice : List Nat)
    (hg : firstGroup (lower s) = some g)
    (hr : hasSub "random".toList (lower s) = false) (hu : hasSub "uniform".toList (lower s) = false) :
    interpretString arr nz exts s choice = (maskOf arr nz exts [g]).map fun m => (m, false) :=
  store_string_group arr nz exts s g choice hg hr hu

/-- what `interpretString` does for a `uniform` request with one count `n` -/
theorem uniform_request (arr : Arr) (nz : Nat) (exts : List Nat) (s : String) (choice : List Nat)
    (mask0 : List Bool) (n : Nat)
    (hm : (match firstGroup (lower s) with
            | some g => maskOf arr nz exts [g]
            | none => pure (List.replicate exts.length true)) = .ok mask0)
    (hr : hasSub "random".toList (lower s) = false) (hu : hasSub "uniform".toList (lower s) = true)
    (hn : digitRuns (lower s) none = [n]) (hn0 : 0 < n) (hc : 0 < (whereTrue mask0).length) :
    interpretString arr nz exts s choice
      = .ok (maskFromIdx exts.length (uniformPick (whereTrue mask0) n), false) :=
  uniform_request_lemma arr nz exts s choice mask0 n hm hr hu hn hn0 hc

/-- **`uniform n` records at most `n` vials, all from the group, at least one**
(`cand` = the vials of the group, non-empty; `n ≥ 1`). -/
theorem uniform_le (N : Nat) (cand : List Nat) (n : Nat) (hn : 0 < n) (hc : 0 < cand.length) :
    (maskFromIdx N (uniformPick cand n)).count true ≤ n
    ∧ (∀ i, i < N → (maskFromIdx N (uniformPick cand n)).getD i false = true → i ∈ cand)
    ∧ 0 < (uniformPick cand n).length := by
  refine ⟨?_, ?_, ?_⟩
  · rw [count_maskFromIdx]
    have h1 := S_mem_le N (uniformPick cand n)
    have h2 := uniformPick_length cand n
    have h3 := ceilDiv_ceilDiv_le hc hn
    omega
  · intro i hi h
    rw [getD_maskFromIdx _ hi] at h
    exact uniformPick_mem hc hn i (by simpa using h)
  · rw [uniformPick_length]
    exact ceilDiv_pos hc (ceilDiv_pos hc hn)

/-- what `interpretString` does for a `random` request with one count `n` -/
theorem random_request (arr : Arr) (nz : Nat) (exts : List Nat) (s : String) (choice : List Nat)
    (mask0 : List Bool) (n : Nat)
    (hm : (match firstGroup (lower s) with
            | some g => maskOf arr nz exts [g]
            | none => pure (List.replicate exts.length true)) = .ok mask0)
    (hr : hasSub "random".toList (lower s) = true)
    (hn : digitRuns (lower s) none = [n]) :
    interpretString arr nz exts s choice
      = if n > (whereTrue mask0).length then .error "ValueError"
        else .ok (maskFromIdx exts.length choice, true) :=
  random_request_lemma arr nz exts s choice mask0 n hm hr hn

/-- **`random n` records exactly `n` vials, all from the group**, for every choice
without repetition of `n` candidates (`cand` = the vials of the group, all `< N`). -/
theorem random_exact (N : Nat) (cand choice : List Nat) (n : Nat)
    (hnd : choice.Nodup) (hsub : ∀ v ∈ choice, v ∈ cand) (hlen : choice.length = n)
    (hcand : ∀ v ∈ cand, v < N) :
    (maskFromIdx N choice).count true = n
    ∧ (∀ i, i < N → (maskFromIdx N choice).getD i false = true → i ∈ cand) := by
  refine ⟨?_, ?_⟩
  · rw [count_maskFromIdx, S_mem_eq hnd (fun v hv => hcand v (hsub v hv)), hlen]
  · intro i hi h
    rw [getD_maskFromIdx _ hi] at h
    exact hsub i (by simpa using h)

/-- **a list of requests records the union of the single requests**: the masks are
combined with element-wise OR (every `random` consumes its own recorded choice); all
masks have one entry per vial, so the element-wise OR (`zipWith`) never truncates and
vial `i` is recorded iff one of the single requests records it. -/
theorem strings_union (arr : Arr) (nz : Nat) (exts : List Nat) (s : String) (ss : List String)
    (choices : List (List Nat)) :
    interpretStrings arr nz exts (s :: ss) choices
      = ((interpretString arr nz exts s (choices.headD [])).bind fun p =>
          (interpretStrings arr nz exts ss (if p.2 then choices.tail else choices)).bind fun rest =>
            .ok (orMask p.1 rest))
    ∧ (∀ m u rest, interpretString arr nz exts s (choices.headD []) = .ok (m, u) →
        interpretStrings arr nz exts ss (if u then choices.tail else choices) = .ok rest →
        m.length = exts.length ∧ rest.length = exts.length ∧ (orMask m rest).length = exts.length
        ∧ ∀ i, i < exts.length → (orMask m rest).getD i false = (m.getD i false || rest.getD i false)) := by
  constructor
  · rw [interpretStrings]
    cases interpretString arr nz exts s (choices.headD []) with
    | error e => rfl
    | ok p => cases p; rfl
  · intro m u rest h1 h2
    have l1 := interpretString_length arr nz exts s _ m u h1
    have l2 := interpretStrings_length arr nz exts ss _ rest h2
    refine ⟨l1, l2, by rw [orMask_length (l1.trans l2.symm), l1], ?_⟩
    intro i hi
    simp [orMask, List.getD_eq_getElem?_getD, l1, l2, hi]

/-- **default-count requests** (`"uniform"`, `"uniform.core"`, `"random"`, … without a
number): the count is `defaultCount N = int(ceil(0.1·N))` (IEEE doubles; its numeric value
is tied to the code by the comparison, e.g. 4 of 30), and the request behaves like the
explicit-count request with that number: `uniform` records at most that many vials of
the group (at least one), `random` is rejected iff it exceeds the group and otherwise
records the supplied choice. -/
theorem default_count_requests (arr : Arr) (nz : Nat) (exts : List Nat) (s : String) (choice : List Nat)
    (mask0 : List Bool)
    (hm : (match firstGroup (lower s) with
            | some g => maskOf arr nz exts [g]
            | none => pure (List.replicate exts.length true)) = .ok mask0)
    (hn : digitRuns (lower s) none = []) :
    (hasSub "random".toList (lower s) = false → hasSub "uniform".toList (lower s) = true →
      0 < defaultCount exts.length → 0 < (whereTrue mask0).length →
      ∃ m, interpretString arr nz exts s choice = .ok (m, false)
        ∧ m.count true ≤ defaultCount exts.length
        ∧ ∀ i, i < exts.length → m.getD i false = true → mask0.getD i false = true)
    ∧ (hasSub "random".toList (lower s) = true →
      interpretString arr nz exts s choice
        = if defaultCount exts.length > (whereTrue mask0).length then .error "ValueError"
          else .ok (maskFromIdx exts.length choice, true)) := by
  constructor
  · intro hr hu hn0 hc
    refine ⟨_, uniform_default_lemma arr nz exts s choice mask0 hm hr hu hn hn0 hc, ?_, ?_⟩
    · exact (uniform_le exts.length (whereTrue mask0) _ hn0 hc).1
    · intro i hi h
      exact mem_whereTrue ((uniform_le exts.length (whereTrue mask0) _ hn0 hc).2.1 i hi h)
  · intro hr
    exact random_default_lemma arr nz exts s choice mask0 hm hr hn

section rows
variable {α : Type}

/-- **a stored column is the temperatures of the recorded vials in index order,
followed by their ice fractions in the same order**, and `X_T` / `X_sigma` are
exactly these two halves. -/
theorem rows_order (m : List Bool) (T σ : List α) (hT : m.length = T.length) :
    record m T σ = pick m T ++ pick m σ
    ∧ colT m (record m T σ) = pick m T
    ∧ colSigma m (record m T σ) = pick m σ := by
  have h1 : record m T σ = pick m T ++ pick m σ := pick_append hT
  have hl : (pick m T).length = m.count true := pick_length hT
  refine ⟨h1, ?_, ?_⟩
  · unfold colT; rw [h1, ← hl, List.take_left]
  · unfold colSigma; rw [h1, ← hl, List.drop_left]

/-- **the rows stored for a subset are the corresponding rows of the full recording**:
with `all` = every vial recorded, the column stored for mask `m` is `m` applied to the
temperature half and to the ice half of the full column.  (In the model the states
`T`, `σ` of a step do not depend on the mask.) -/
theorem subset_eq_full (m : List Bool) (T σ : List α) (hT : m.length = T.length) (hσ : m.length = σ.length) :
    let all := List.replicate m.length true
    record m T σ = pick m (colT all (record all T σ)) ++ pick m (colSigma all (record all T σ)) := by
  intro all
  have hallT : all.length = T.length := by simp [all, hT]
  obtain ⟨_, h2, h3⟩ := rows_order all T σ hallT
  rw [h2, h3]
  have e1 : pick all T = T := by simp only [all]; rw [hT]; exact pick_all T
  have e2 : pick all σ = σ := by simp only [all]; rw [hσ]; exact pick_all σ
  rw [e1, e2]
  exact (rows_order m T σ hT).1

end rows

/-- a request is malformed on a given batch iff the category table `specOutcome`
(`Lemmas/Store.lean`) names an exception class for it — an explicit decidable predicate
on the `Spec` type, written as a flat table and not through the interpreter:

* not a list/tuple, string or `None`                         → `UnboundLocalError` (accidental: no `else` branch)
* list/tuple neither all `int` nor all `str` (numpy scalars, floats, mixtures) → `ValueError` (intended)
* index `< 0` or `> N − 1`                                   → `ValueError` (intended)
* list of `bool` only: a `True` when `N = 1` (range check with `True` = 1) → `ValueError`;
  otherwise length `≠ N` (numpy boolean-mask indexing)       → `IndexError` (accidental)
* string without group word / `random` / `uniform`           → `ValueError` (intended)
* `random`/`uniform` with more than one number               → `ValueError` (intended)
* `random n` with `n` larger than the group                  → `ValueError` (raised by `Generator.choice`)
* `uniform 0`, or `uniform` over an empty group              → `ZeroDivisionError` (accidental: stride)
* list of strings: the class of its first malformed entry. -/
def malformed (arr : Arr) (nx ny nz : Nat) (spec : Spec) : Bool :=
  (specOutcome arr nz (extVec arr nx ny nz) spec).isSome

/-- the exception class expected for a malformed request -/
def expected (arr : Arr) (nx ny nz : Nat) (spec : Spec) : List String :=
  (specOutcome arr nz (extVec arr nx ny nz) spec).toList

/-- **meaningless requests are rejected at construction**, with exactly the class of
their category; the property itself only needs "raises at construction". -/
theorem reject_meaningless (arr : Arr) (nx ny nz : Nat) (spec : Spec) (choices : List (List Nat))
    (h : malformed arr nx ny nz spec = true) :
    ∃ cls, storageMask arr nx ny nz spec choices = .error cls ∧ cls ∈ expected arr nx ny nz spec
      ∧ cls ∈ ["ValueError", "UnboundLocalError", "ZeroDivisionError", "IndexError"] := by
  have hd := storageMask_decision arr nx ny nz spec choices
  unfold malformed at h
  unfold expected
  cases ho : specOutcome arr nz (extVec arr nx ny nz) spec with
  | none => rw [ho] at h; simp at h
  | some c =>
    rw [ho] at hd
    exact ⟨c, hd, by simp, specOutcome_classes arr nz _ spec c ho⟩

/-- **every other request is accepted**: acceptance / rejection is a total decision,
whatever the generator returns for a `random` request. -/
theorem accept_well_formed (arr : Arr) (nx ny nz : Nat) (spec : Spec) (choices : List (List Nat))
    (h : malformed arr nx ny nz spec = false) :
    ∃ p, storageMask arr nx ny nz spec choices = .ok p := by
  have hd := storageMask_decision arr nx ny nz spec choices
  unfold malformed at h
  cases ho : specOutcome arr nz (extVec arr nx ny nz) spec with
  | none => rw [ho] at hd; exact hd
  | some c => rw [ho] at h; simp at h

/-- the hypotheses are satisfiable: concrete requests on a 3×3 shelf (those of the
package's own tests), including a two-number request and a too large random count. -/
theorem nonvacuous :
    ((storageMask .square 3 3 1 (.str "uniform+3") []).toOption.map (fun p => whereTrue p.1) = some [0, 3, 6])
    ∧ ((storageMask .square 3 3 1 (.strs ["core", "corner_random_2"]) [[0, 8]]).toOption.map
          (fun p => whereTrue p.1) = some [0, 4, 8])
    ∧ ((storageMask .square 3 3 1 (.ints [0, 4, 8]) []).toOption.map (fun p => whereTrue p.1) = some [0, 4, 8])
    ∧ (storageMask .square 3 3 1 (.str "2random3") [[0]]).toOption = none
    ∧ (storageMask .hexagonal 3 3 1 (.str "corner_random_3") [[0, 6, 1]]).toOption = none
    ∧ (storageMask .square 3 3 1 (.seq [.int 0, .npInt 8]) []).toOption = none
    ∧ ((storageMask .square 3 3 1 (.seq [.bool true, .int 2]) []).toOption.map (fun p => whereTrue p.1) = some [1, 2])
    ∧ expected .square 3 3 1 (.str "uniform_0") = ["ZeroDivisionError"]
    ∧ expected .square 2 2 1 (.str "core_uniform_2") = ["ZeroDivisionError"]
    ∧ expected .square 3 3 1 (.str "corner_random_5") = ["ValueError"]
    ∧ expected .square 3 3 1 .other = ["UnboundLocalError"]
    ∧ expected .square 3 3 1 (.seq [.bool true, .bool false]) = ["IndexError"]
    ∧ expected .square 1 1 1 (.seq [.bool true]) = ["ValueError"]
    ∧ malformed .square 3 3 1 (.strs ["core", "corner_random_2"]) = false
    -- hypothesis sets of the conditional theorems, on a 3×3 square shelf
    ∧ (∀ x ∈ [(0 : Int), 4, 8], 0 ≤ x ∧ x < 9)                                         -- ints_exact
    ∧ (firstGroup (lower "Edge") = some "edge" ∧ hasSub "random".toList (lower "Edge") = false
        ∧ hasSub "uniform".toList (lower "Edge") = false)                               -- group_exact
    ∧ (firstGroup (lower "uniform.edge.2") = some "edge"
        ∧ (maskOf .square 1 (extVec .square 3 3 1) ["edge"]).toOption
            = some [false, true, false, true, false, true, false, true, false]
        ∧ hasSub "random".toList (lower "uniform.edge.2") = false
        ∧ hasSub "uniform".toList (lower "uniform.edge.2") = true
        ∧ digitRuns (lower "uniform.edge.2") none = [2]
        ∧ 0 < (whereTrue [false, true, false, true, false, true, false, true, false]).length)  -- uniform_request / uniform_le
    ∧ (hasSub "random".toList (lower "corner_random_2") = true
        ∧ digitRuns (lower "corner_random_2") none = [2]
        ∧ [0, 8].Nodup ∧ (∀ v ∈ [0, 8], v ∈ [0, 2, 6, 8]) ∧ [0, 8].length = 2
        ∧ (∀ v ∈ [0, 2, 6, 8], v < 9))                                                   -- random_request / random_exact
    ∧ (digitRuns (lower "uniform.core") none = [] ∧ hasSub "uniform".toList (lower "uniform.core") = true) -- default_count_requests
    ∧ ((interpretString .square 1 (extVec .square 3 3 1) "core" []).toOption.isSome
        ∧ (interpretStrings .square 1 (extVec .square 3 3 1) ["corner_random_2"] [[0, 8]]).toOption.isSome) -- strings_union
    ∧ ([true, false, true].length = [1, 2, 3].length)                                   -- rows_order / subset_eq_full
    ∧ firstGroup (lower "cornerEDGE") = some "corner"
    ∧ digitRuns (lower "2random3") none = [2, 3] := by decide

end Snow.C18
