/-
  C02 — Spatial model conserves energy through shelf, jacket and evaporation.

  Property theorems over ℝ (IEEE rounding is not modelled).  Models:
  SnowModel/Snowing1D.lean (`coolStencil`), Snowing0D.lean (`nucTeq`),
  Snowing2D.lean (`coolNode`, `coolStep`, `nucRoot`, the side ghost value).
  The "within a few percent" clause for the solidification stage and for 2D is
  NOT a theorem; it is decided on real runs by harness/props/c02.py.
-/
import SnowProofs.Lemmas.Snowing2D
import SnowProofs.Lemmas.Stencil1D
import SnowProofs.Lemmas.Snowing
import Mathlib.Analysis.SpecialFunctions.Sqrt
import Mathlib.Tactic.NormNum
import Mathlib.Tactic.Positivity

namespace Snow.C02
open Snow Num Snow.S2D Snow.Stencil1D

/-! ### 1D cooling stage: exact discrete conservation -/

/-- **`cool1D_conservative`** — cooling stage of the 1D model, any `Nz ≥ 2`, any field.
With `fo = alpha·dt/dz²`, `alpha = lam/(rho·cp)` and the ghost values
`Tb = T₀ + q_shelf·dz/lam`, `Tt = T_{Nz−1} + q_e·dz/lam` of the code, the enthalpy
change of the column (every node a cell of height `dz`) is exactly the heat that
crossed the two ends: `rho·cp·dz·Σ_j (T'_j − T_j) = dt·(q_shelf + q_e)`. -/
theorem cool1D_conservative (Nz : Nat) (hNz : 2 ≤ Nz) (col : Nat → ℝ)
    (rho cp lam dz dt qs qe : ℝ) (hrho : rho ≠ 0) (hcp : cp ≠ 0) (hlam : lam ≠ 0) (hdz : dz ≠ 0) :
    rho * cp * dz *
        ∑ j ∈ Finset.range Nz,
          (col1D Nz ((lam / (cp * rho)) * dt / (dz * dz)) (col 0 + qs * dz / lam)
              (col (Nz - 1) + qe * dz / lam) col j - col j)
      = dt * (qs + qe) := by
  rw [sum_col1D_sub Nz hNz]
  field_simp
  ring

/-- the same identity for wpE's executable stencil `Snow.coolStencil` on the array of the column -/
theorem cool1D_conservative_model (Nz : Nat) (hNz : 2 ≤ Nz) (col : Nat → ℝ) (fo Tb Tt : ℝ) :
    ∑ j ∈ Finset.range Nz,
        (aget (coolStencil fo Tb Tt (Array.ofFn (n := Nz) fun k => col k.val)) j - col j)
      = fo * ((Tb - col 0) + (Tt - col (Nz - 1))) := by
  rw [← sum_col1D_sub Nz hNz]
  apply Finset.sum_congr rfl
  intro j hj
  rw [coolStencil_eq_col1D Nz fo Tb Tt col j (Finset.mem_range.mp hj) hNz]

/-- **`cool1D_conservative` for the model's step** (`Snow.coolField1D`, the temperature update of
`_run_1D`'s cooling loop): the enthalpy change of the column in one step is exactly `dt` times
the heat entering through the shelf, `K_shelf·(T_sh − T₀)`, plus the evaporative flux at the top,
`qEvap` — which is zero unless the configuration is VISF and the time lies inside the vacuum
window (`Stencil1D.qEvap_none`, `qEvap_outside`); nothing crosses anywhere else.
`hfo` holds for the grid the code builds (`Stencil1D.grid1D_fo`). -/
theorem cool1D_conservative_field (p : SnowIn ℝ) (g : Grid1D ℝ) (i : Nat) (T : Array ℝ) (Tsh : ℝ)
    (hsz : T.size = g.Nz) (hNz : 2 ≤ g.Nz)
    (hfo : g.fo = (g.lam0 / (p.const.cp_solution * p.const.rho_l)) * g.dt / (g.dz * g.dz))
    (hrho : p.const.rho_l ≠ 0) (hcp : p.const.cp_solution ≠ 0) (hlam : g.lam0 ≠ 0) (hdz : g.dz ≠ 0) :
    p.const.rho_l * p.const.cp_solution * g.dz *
        ∑ j ∈ Finset.range g.Nz, (aget (coolField1D p g i T Tsh) j - aget T j)
      = g.dt * (p.Kshelf * (Tsh - aget T 0)
          + Snow.qEvap p Evap.vapourPressureLiquid (g.dt * (i : ℝ)) (aget T (g.Nz - 1))) := by
  have h := cool1D_conservative g.Nz hNz (aget T) p.const.rho_l p.const.cp_solution g.lam0 g.dz g.dt
    (p.Kshelf * (Tsh - aget T 0))
    (Snow.qEvap p Evap.vapourPressureLiquid (g.dt * (i : ℝ)) (aget T (g.Nz - 1))) hrho hcp hlam hdz
  rw [← h]
  congr 1
  apply Finset.sum_congr rfl
  intro j hj
  have hj' : j < T.size := by rw [hsz]; exact Finset.mem_range.mp hj
  rw [coolField1D_get p g i T Tsh (by omega) j hj', hsz, hfo]

/-! ### nucleation is adiabatic -/

/-- core of the nucleation quadratic.  `a = Δh·m_w/(c_p·m)`, `δ` = freezing-point
depression, `d = a·δ`.  For a supercooled node (`Tn < Tm − δ`) the `−√` root `Ts`
of `T² + B·T + C = 0` satisfies the enthalpy balance
`(Ts − Tn)·(Tm − Ts) = a·(Tm − Ts) − a·δ` and lies strictly between `Tn` and the
equilibrium freezing temperature `Tm − δ`. -/
theorem nuc_core (a δ Tm Tn : ℝ) (ha : 0 < a) (hδ : 0 < δ) (hsc : Tn < Tm - δ)
    (B C Ts : ℝ) (hB : B = -Tm - Tn - a) (hC : C = a * Tm - a * δ + Tm * Tn)
    (hTs : Ts = (1 / 2 : ℝ) * (-B - Real.sqrt (B * B - 4 * C))) :
    (Ts - Tn) * (Tm - Ts) = a * (Tm - Ts) - a * δ ∧ Tn < Ts ∧ Ts < Tm - δ := by
  set Δ := Tm - Tn with hΔ
  have hS : B * B - 4 * C = (Δ - a) ^ 2 + 4 * a * δ := by
    rw [hB, hC]; simp only [hΔ]; ring
  have hSpos : 0 < (Δ - a) ^ 2 + 4 * a * δ := by positivity
  set s := Real.sqrt (B * B - 4 * C) with hs
  have hs2 : s * s = (Δ - a) ^ 2 + 4 * a * δ := by
    rw [hs, Real.mul_self_sqrt (by rw [hS]; exact le_of_lt hSpos), hS]
  have hs0 : 0 ≤ s := Real.sqrt_nonneg _
  -- x = Tm - Ts is the positive root of x² − (Δ − a)x − aδ = 0
  have hx : Tm - Ts = ((Δ - a) + s) / 2 := by
    rw [hTs, hB]; simp only [hΔ]; ring
  have hΔδ : δ < Δ := by simp only [hΔ]; linarith
  have hq : (Tm - Ts) * (Tm - Ts) - (Δ - a) * (Tm - Ts) - a * δ = 0 := by
    rw [hx]; nlinarith [hs2]
  refine ⟨?_, ?_, ?_⟩
  · -- (Ts − Tn) = Δ − x
    have : Ts - Tn = Δ - (Tm - Ts) := by simp only [hΔ]; ring
    rw [this]; nlinarith [hq]
  · -- x < Δ : p(Δ) = a(Δ − δ) > 0 and the other root is negative
    have hxlt : (Tm - Ts) < Δ := by
      rw [hx]
      have hpos : 0 < a * (Δ - δ) := mul_pos ha (sub_pos.mpr hΔδ)
      have : s < Δ + a := by
        by_contra hc
        have hc' : Δ + a ≤ s := not_lt.mp hc
        have h1 : 0 < Δ + a := by linarith
        have : (Δ + a) * (Δ + a) ≤ s * s := by nlinarith
        rw [hs2] at this
        nlinarith
      linarith
    simp only [hΔ] at hxlt; linarith
  · -- δ < x : p(δ) = δ(δ − Δ) < 0
    have hxgt : δ < Tm - Ts := by
      rw [hx]
      by_contra hcon
      have hcon := not_lt.mp hcon
      have h1 : s ≤ 2 * δ - (Δ - a) := by linarith
      have h2 : 0 ≤ 2 * δ - (Δ - a) := le_trans hs0 h1
      have : s * s ≤ (2 * δ - (Δ - a)) * (2 * δ - (Δ - a)) := by nlinarith
      rw [hs2] at this
      nlinarith
    linarith

/-- the nucleation jump in physical variables: `κ = k_f/M_s`, depression `δ = κ·m_s/m_w`.
For a supercooled node the `−√` root `Ts` satisfies
`c_p·m·(Ts − Tn) = Δh·m_i`, `m_i = m_w − m_s·κ/(Tm − Ts)`, with
`Tn < Ts < Tm − δ` and `0 < m_i < m_w`. -/
theorem nuc_phys (cp m Dh mw ms κ Tm Tn : ℝ)
    (hcp : 0 < cp) (hm : 0 < m) (hDh : 0 < Dh) (hmw : 0 < mw) (hms : 0 < ms) (hκ : 0 < κ)
    (hsc : Tn < Tm - κ * (ms / mw))
    (B C Ts mi : ℝ) (hB : B = -Tm - Tn - Dh * mw / (cp * m))
    (hC0 : C = Dh * mw * Tm / (cp * m) - ms * κ * Dh / (cp * m) + Tm * Tn)
    (hTs : Ts = (1 / 2 : ℝ) * (-B - Real.sqrt (B * B - 4 * C)))
    (hmi : mi = mw - ms * κ / (Tm - Ts)) :
    cp * m * (Ts - Tn) = Dh * mi ∧ Tn < Ts ∧ Ts < Tm - κ * (ms / mw) ∧ 0 < mi ∧ mi < mw := by
  have ha : 0 < Dh * mw / (cp * m) := by positivity
  have hδ : 0 < κ * (ms / mw) := by positivity
  have hC : C = (Dh * mw / (cp * m)) * Tm - (Dh * mw / (cp * m)) * (κ * (ms / mw)) + Tm * Tn := by
    rw [hC0]; field_simp
  obtain ⟨h1, h2, h3⟩ := nuc_core (Dh * mw / (cp * m)) (κ * (ms / mw)) Tm Tn ha hδ hsc B C Ts hB hC hTs
  have hx : 0 < Tm - Ts := by linarith
  have hxδ : κ * (ms / mw) < Tm - Ts := by linarith
  have hmsκ : ms * κ = mw * (κ * (ms / mw)) := by field_simp
  refine ⟨?_, h2, h3, ?_, ?_⟩
  · -- divide the balance by x = Tm − Ts
    have hne : Tm - Ts ≠ 0 := ne_of_gt hx
    have key : (Ts - Tn) = Dh * mw / (cp * m) - Dh * mw / (cp * m) * (κ * (ms / mw)) / (Tm - Ts) := by
      field_simp
      have := h1
      field_simp at this
      linarith
    rw [hmi, key]
    field_simp
  · rw [hmi, hmsκ]
    have : mw * (κ * (ms / mw)) / (Tm - Ts) < mw := by
      rw [div_lt_iff₀ hx]; nlinarith
    linarith
  · rw [hmi]
    have : 0 < ms * κ / (Tm - Ts) := by positivity
    linarith

/-- **`nucleation_adiabatic`** (2D model, pointwise; the 0D and 1D models use the same
expressions, see `nucleation_adiabatic_0D1D`): for a supercooled node the temperature after
nucleation `nucRoot` and the ice mass `iceMass` satisfy the enthalpy balance
`c_p·m·(T* − T_nuc) = Δh·m_i(T*)`; `T_nuc < T* < T_eq_l`; `0 < m_i < m_w`. -/
theorem nucleation_adiabatic (p : Par ℝ) (Tn : ℝ)
    (hcp : 0 < p.cp_solution) (hm : 0 < p.mass) (hDh : 0 < p.Dh) (hmw : 0 < p.mass_water)
    (hms : 0 < p.mass_solute) (hκ : 0 < p.k_f / p.M_s)
    (hdep : p.depression = p.k_f / p.M_s * (p.mass_solute / p.mass_water))
    (hsc : Tn < TeqL p) :
    p.cp_solution * p.mass * (nucRoot p (Tm p) Tn - Tn) = p.Dh * iceMass p (Tm p) (nucRoot p (Tm p) Tn)
      ∧ Tn < nucRoot p (Tm p) Tn ∧ nucRoot p (Tm p) Tn < TeqL p
      ∧ 0 < iceMass p (Tm p) (nucRoot p (Tm p) Tn)
      ∧ iceMass p (Tm p) (nucRoot p (Tm p) Tn) < p.mass_water := by
  have hsc' : Tn < Tm p - p.k_f / p.M_s * (p.mass_solute / p.mass_water) := by
    rw [← hdep]; exact hsc
  have hroot : nucRoot p (Tm p) Tn
      = (1 / 2 : ℝ) * (-(S2D.nucB p (Tm p) Tn)
          - Real.sqrt (S2D.nucB p (Tm p) Tn * S2D.nucB p (Tm p) Tn - 4 * S2D.nucC p (Tm p) Tn)) := by
    simp only [nucRoot, four, lit_real, ofNat'_real, Transc.sqrt]
    norm_num
  have h := nuc_phys p.cp_solution p.mass p.Dh p.mass_water p.mass_solute (p.k_f / p.M_s) (Tm p) Tn
    hcp hm hDh hmw hms hκ hsc' (S2D.nucB p (Tm p) Tn) (S2D.nucC p (Tm p) Tn) (nucRoot p (Tm p) Tn)
    (iceMass p (Tm p) (nucRoot p (Tm p) Tn)) rfl rfl hroot rfl
  simp only [TeqL]
  rw [hdep]
  exact h

/-- nodes that are not supercooled are untouched by the nucleation stage (no ice) -/
theorem nucleation_untouched (c : Ctx ℝ) (Tn : ℝ) (h : ¬ Tn < c.TeqL) :
    nucNode c Tn = (Tn, 0) := by
  simp [nucNode, h]

/-- the same statement for the expressions of the 0D and 1D models (`Snow.nucTeq`,
`Snow.iceMassEq` of SnowModel/Snowing0D.lean, used by `nucleate0D` and `nucleate1D`) -/
theorem nucleation_adiabatic_0D1D (q : SnowIn ℝ) (Tn : ℝ)
    (hcp : 0 < q.const.cp_solution) (hm : 0 < q.const.mass) (hDh : 0 < q.const.Dh)
    (hmw : 0 < q.const.mass_water) (hms : 0 < q.const.mass_solute) (hκ : 0 < q.const.k_f / q.const.M_s)
    (hdep : q.const.depression = q.const.k_f / q.const.M_s * (q.const.mass_solute / q.const.mass_water))
    (hsc : Tn < q.T_eq_l) :
    q.const.cp_solution * q.const.mass * (nucTeq q Tn - Tn) = q.const.Dh * iceMassEq q (nucTeq q Tn)
      ∧ Tn < nucTeq q Tn ∧ nucTeq q Tn < q.T_eq_l
      ∧ 0 < iceMassEq q (nucTeq q Tn) ∧ iceMassEq q (nucTeq q Tn) < q.const.mass_water := by
  have hsc' : Tn < q.T_m - q.const.k_f / q.const.M_s * (q.const.mass_solute / q.const.mass_water) := by
    rw [← hdep]; exact hsc
  have hroot : nucTeq q Tn
      = (1 / 2 : ℝ) * (-(Snow.nucB q Tn)
          - Real.sqrt (Snow.nucB q Tn * Snow.nucB q Tn - 4 * Snow.nucC q Tn)) := by
    simp only [nucTeq, lit_real, ofNat'_real, Transc.sqrt]
    norm_num
  have h := nuc_phys q.const.cp_solution q.const.mass q.const.Dh q.const.mass_water q.const.mass_solute
    (q.const.k_f / q.const.M_s) q.T_m Tn hcp hm hDh hmw hms hκ hsc' (Snow.nucB q Tn) (Snow.nucC q Tn)
    (nucTeq q Tn) (iceMassEq q (nucTeq q Tn)) rfl rfl hroot rfl
  simp only [SnowIn.T_eq_l]
  rw [hdep]
  exact h

/-! ### the jacket boundary condition (F9) -/

/-- **`jacket_flux_scaling`**: the side ghost value of the code is
`T_edge = T + q_jacket·s/k` with `s = edgeSpacing` (`dz` in the current code, `dr` after the
repair), while the ghost point lies at radial distance `dr`.  The wall flux the scheme
imposes, `k·(T_edge − T)/dr`, is therefore `(s/dr)·q_jacket`. -/
theorem jacket_flux_scaling (c : Ctx ℝ) (Tsh t : ℝ) (hk : c.k0 ≠ 0) (hdr : c.dr ≠ 0) :
    c.k0 * ((t + qJacket c Tsh t * c.eSp / c.k0) - t) / c.dr = (c.eSp / c.dr) * qJacket c Tsh t := by
  field_simp
  ring

/-- current code: the imposed flux is `(dz/dr)·q_jacket` -/
theorem jacket_flux_current (p : Par ℝ) (f : Flags) (hf : f.jacketDz = true) (Tsh t : ℝ)
    (hk : kEff0 p ≠ 0) (hdr : dr p ≠ 0) :
    kEff0 p * ((t + qJacket (mkCtx p f) Tsh t * (mkCtx p f).eSp / kEff0 p) - t) / dr p
      = (dz p / dr p) * qJacket (mkCtx p f) Tsh t := by
  have h := jacket_flux_scaling (mkCtx p f) Tsh t hk hdr
  have e : (mkCtx p f).eSp = dz p := by simp [mkCtx, edgeSpacing, hf]
  rw [e] at h ⊢
  exact h

/-- repaired code: the imposed flux is `q_jacket` -/
theorem jacket_flux_repaired (p : Par ℝ) (f : Flags) (hf : f.jacketDz = false) (Tsh t : ℝ)
    (hk : kEff0 p ≠ 0) (hdr : dr p ≠ 0) :
    kEff0 p * ((t + qJacket (mkCtx p f) Tsh t * (mkCtx p f).eSp / kEff0 p) - t) / dr p
      = qJacket (mkCtx p f) Tsh t := by
  have h := jacket_flux_scaling (mkCtx p f) Tsh t hk hdr
  have e : (mkCtx p f).eSp = dr p := by simp [mkCtx, edgeSpacing, hf]
  rw [e] at h ⊢
  have h' : kEff0 p * (t + qJacket (mkCtx p f) Tsh t * dr p / kEff0 p - t) / dr p
      = dr p / dr p * qJacket (mkCtx p f) Tsh t := h
  rw [h', div_self hdr, one_mul]

/-- the scaling factor of the current code is `height/diameter`·`(2 Nr/Nz)`; with the code's
`Nz = 30`, `Nr = 15` it is `height/diameter`, i.e. 1 only for the default aspect ratio.
Witness: a 20 mm × 10 mm vial gets twice the jacket flux. -/
theorem jacket_flux_counterexample (p : Par ℝ) (hNz : p.Nz = 30) (hNr : p.Nr = 15)
    (hh : p.height = 2 / 100) (hd : p.diameter = 1 / 100) : dz p / dr p = 2 := by
  simp only [dz, dr, radius, hNz, hNr, hh, hd, two, ofNat'_real]
  norm_num

/-! ### 2D cooling stage: axial telescoping with an explicit radial remainder (partial) -/

/-- the radial part of the cooling stencil at node `(i,j)` -/
noncomputable def radTerm (Nr : Nat) (dr : ℝ) (r : Nat → ℝ) (T : Nat → Nat → ℝ) (Te : Nat → ℝ)
    (i j : Nat) : ℝ :=
  let c := T i j
  let o := outer Nr T Te i j
  let n := inner T i j
  if j = 0 then (2 * ((o - 2 * c) + n)) / (dr * dr)
  else ((1 / r j) * (o - n)) / (2 * dr) + ((o - 2 * c) + n) / (dr * dr)

/-- every node update is the 1D column update plus `a` times the radial term -/
theorem coolNode_split (Nz Nr : Nat) (hNz : 2 ≤ Nz) (a dz dr : ℝ) (r : Nat → ℝ) (T : Nat → Nat → ℝ)
    (Tb Tt Te : Nat → ℝ) (i j : Nat) (hi : i < Nz) :
    coolNode Nz Nr a dz dr r T Tb Tt Te i j
      = col1D Nz (a / (dz * dz)) (Tb j) (Tt j) (fun k => T k j) i + a * radTerm Nr dr r T Te i j := by
  unfold coolNode radTerm col1D upper lower
  simp only [ofNat'_real, Nat.cast_ofNat]
  by_cases h0 : i = 0
  · subst h0
    have h1 : ¬ (0 + 1 = Nz) := by omega
    simp only [h1, if_false, if_true]
    split <;> ring
  · by_cases hl : i + 1 = Nz
    · have e : i - 1 = Nz - 2 := by omega
      simp only [h0, hl, if_false, if_true, e]
      split <;> ring
    · simp only [h0, hl, if_false]
      split <;> ring

/-- **`cool2D_balance` (partial)** — repaired update, one column `j`: the nodal changes of the
column add up to the two ghost-point increments (shelf and top flux, exactly as in 1D) plus
the sum of the radial terms.  The radial remainder is explicit but NOT bounded here, and no
`r`-weighted (volume) sum is claimed: the scheme has no exact discrete conservation law in 2D. -/
theorem cool2D_balance_partial (Nz Nr : Nat) (hNz : 2 ≤ Nz) (a dz dr : ℝ) (r : Nat → ℝ)
    (T : Nat → Nat → ℝ) (Tb Tt Te : Nat → ℝ) (j : Nat) :
    ∑ i ∈ Finset.range Nz, (coolNode Nz Nr a dz dr r T Tb Tt Te i j - T i j)
      = (a / (dz * dz)) * ((Tb j - T 0 j) + (Tt j - T (Nz - 1) j))
        + a * ∑ i ∈ Finset.range Nz, radTerm Nr dr r T Te i j := by
  have h : ∀ i ∈ Finset.range Nz, coolNode Nz Nr a dz dr r T Tb Tt Te i j - T i j
      = (col1D Nz (a / (dz * dz)) (Tb j) (Tt j) (fun k => T k j) i - (fun k => T k j) i)
        + a * radTerm Nr dr r T Te i j := by
    intro i hi
    rw [coolNode_split Nz Nr hNz a dz dr r T Tb Tt Te i j (Finset.mem_range.mp hi)]
    ring
  rw [Finset.sum_congr rfl h, Finset.sum_add_distrib, sum_col1D_sub Nz hNz, ← Finset.mul_sum]

/-! ### 2D cooling stage: the r-weighted (volume) sum -/

/-- `Σ_{k≤m} (f(k+1) + f k) = f(m+1) + f 0 + 2 Σ_{k<m} f(k+1)` -/
theorem sum_pairs (f : Nat → ℝ) (m : Nat) :
    ∑ k ∈ Finset.range (m + 1), (f (k + 1) + f k)
      = f (m + 1) + f 0 + 2 * ∑ k ∈ Finset.range m, f (k + 1) := by
  induction m with
  | zero => simp
  | succ m ih =>
    rw [Finset.sum_range_succ, ih, Finset.sum_range_succ (fun k => f (k + 1))]
    ring

/-- one row of the radial operator, weighted with `r_j` (cylindrical volume element): with
`y_k` the row extended by the wall ghost value (`y_{m+2} = T_edge`), for the `m+2` nodes
`j = 0 … m+1` of the row (`r_0 = 0`)
`dr²·Σ_j r_j·rad_j = (r_{m+1} + dr/2)(y_{m+2} − y_{m+1}) − (r_1 − dr/2)(y_1 − y_0)
                      − Σ_{k<m} (r_{k+2} − r_{k+1} − dr)(y_{k+2} − y_{k+1})`:
the wall flux, a centre-line term, and a remainder that vanishes exactly when the radial node
spacing equals `dr` (in the code `r = linspace(0,R,Nr)` has spacing `R/(Nr−1) ≠ dr = R/Nr`). -/
theorem radial_row_sum (m : Nat) (dr : ℝ) (r y : Nat → ℝ) (hdr : dr ≠ 0)
    (hr : ∀ k, k < m + 1 → r (k + 1) ≠ 0) :
    ∑ k ∈ Finset.range (m + 1),
        r (k + 1) * ((1 / r (k + 1) * (y (k + 2) - y k)) / (2 * dr)
          + ((y (k + 2) - 2 * y (k + 1)) + y k) / (dr * dr))
      = (1 / (dr * dr)) * ((r (m + 1) + dr / 2) * (y (m + 2) - y (m + 1)) - (r 1 - dr / 2) * (y 1 - y 0)
          - ∑ k ∈ Finset.range m, (r (k + 2) - r (k + 1) - dr) * (y (k + 2) - y (k + 1))) := by
  have hterm : ∀ k ∈ Finset.range (m + 1),
      r (k + 1) * ((1 / r (k + 1) * (y (k + 2) - y k)) / (2 * dr)
          + ((y (k + 2) - 2 * y (k + 1)) + y k) / (dr * dr))
        = (1 / (2 * dr)) * ((y (k + 1 + 1) - y (k + 1)) + (y (k + 1) - y k))
          + (1 / (dr * dr)) * (r (k + 1) * ((y (k + 1 + 1) - y (k + 1)) - (y (k + 1) - y k))) := by
    intro k hk
    have := hr k (Finset.mem_range.mp hk)
    field_simp
    ring
  rw [Finset.sum_congr rfl hterm, Finset.sum_add_distrib, ← Finset.mul_sum, ← Finset.mul_sum,
    sum_pairs (fun k => y (k + 1) - y k) m,
    sum_by_parts (fun k => r (k + 1)) (fun k => y (k + 1) - y k) m]
  have hsplit : ∑ k ∈ Finset.range m, (r (k + 2) - r (k + 1) - dr) * (y (k + 2) - y (k + 1))
      = ∑ k ∈ Finset.range m, (r (k + 1 + 1) - r (k + 1)) * (y (k + 1 + 1) - y (k + 1))
        - dr * ∑ k ∈ Finset.range m, (y (k + 1 + 1) - y (k + 1)) := by
    rw [Finset.mul_sum, ← Finset.sum_sub_distrib]
    apply Finset.sum_congr rfl
    intro k _
    ring
  rw [hsplit]
  simp only [Nat.zero_add]
  generalize (∑ k ∈ Finset.range m, (r (k + 1 + 1) - r (k + 1)) * (y (k + 1 + 1) - y (k + 1))) = S1
  generalize (∑ k ∈ Finset.range m, (y (k + 1 + 1) - y (k + 1))) = S2
  field_simp
  ring

/-- the row `i` extended by the wall ghost value -/
noncomputable def rowExt (Nr : Nat) (T : Nat → Nat → ℝ) (Te : Nat → ℝ) (i k : Nat) : ℝ :=
  if k = Nr then Te i else T i k

/-- **`cool2D_conservation` (partial: explicit remainder, not bounded)** — repaired 2D cooling
step on an `Nz × (m+2)` grid with `r_0 = 0`: the `r`-weighted (cylindrical volume) sum of the
nodal changes equals the `r`-weighted shelf/top ghost increments (axial direction, exact
telescoping), plus per row the wall term `(r_{Nr−1} + dr/2)(T_edge − T_{Nr−1})`, a centre-line
term `−(r_1 − dr/2)(T_1 − T_0)` and the remainder `−Σ (r_{k+2} − r_{k+1} − dr)(T_{k+2} − T_{k+1})`
caused by `dr = R/Nr` being different from the node spacing `R/(Nr−1)`.  No exact discrete
conservation law; none of the remainder terms is bounded here. -/
theorem cool2D_conservation_partial (Nz m : Nat) (hNz : 2 ≤ Nz) (a dz dr : ℝ) (r : Nat → ℝ)
    (T : Nat → Nat → ℝ) (Tb Tt Te : Nat → ℝ) (hdr : dr ≠ 0) (hr0 : r 0 = 0)
    (hr : ∀ k, k < m + 1 → r (k + 1) ≠ 0) :
    ∑ j ∈ Finset.range (m + 2), r j *
        ∑ i ∈ Finset.range Nz, (coolNode Nz (m + 2) a dz dr r T Tb Tt Te i j - T i j)
      = (a / (dz * dz)) * ∑ j ∈ Finset.range (m + 2), r j * ((Tb j - T 0 j) + (Tt j - T (Nz - 1) j))
        + (a / (dr * dr)) * ∑ i ∈ Finset.range Nz,
            ((r (m + 1) + dr / 2) * (Te i - T i (m + 1)) - (r 1 - dr / 2) * (T i 1 - T i 0)
              - ∑ k ∈ Finset.range m, (r (k + 2) - r (k + 1) - dr) * (T i (k + 2) - T i (k + 1))) := by
  -- per column: axial telescoping + radial terms
  have hcol : ∀ j ∈ Finset.range (m + 2),
      r j * ∑ i ∈ Finset.range Nz, (coolNode Nz (m + 2) a dz dr r T Tb Tt Te i j - T i j)
        = (a / (dz * dz)) * (r j * ((Tb j - T 0 j) + (Tt j - T (Nz - 1) j)))
          + a * ∑ i ∈ Finset.range Nz, r j * radTerm (m + 2) dr r T Te i j := by
    intro j _
    rw [cool2D_balance_partial Nz (m + 2) hNz a dz dr r T Tb Tt Te j, Finset.mul_sum, Finset.mul_sum,
      mul_add, Finset.mul_sum]
    congr 1
    · ring
    · apply Finset.sum_congr rfl; intro x _; ring
  rw [Finset.sum_congr rfl hcol, Finset.sum_add_distrib, ← Finset.mul_sum, ← Finset.mul_sum,
    Finset.sum_comm]
  congr 1
  -- per row: the r-weighted radial operator
  have hrow : ∀ i ∈ Finset.range Nz,
      ∑ j ∈ Finset.range (m + 2), r j * radTerm (m + 2) dr r T Te i j
        = (1 / (dr * dr)) * ((r (m + 1) + dr / 2) * (Te i - T i (m + 1)) - (r 1 - dr / 2) * (T i 1 - T i 0)
            - ∑ k ∈ Finset.range m, (r (k + 2) - r (k + 1) - dr) * (T i (k + 2) - T i (k + 1))) := by
    intro i _
    rw [show m + 2 = (m + 1) + 1 from rfl, Finset.sum_range_succ', hr0, zero_mul, add_zero]
    have hy : ∀ k, k < m + 2 → rowExt (m + 2) T Te i k = T i k := by
      intro k hk; have : ¬ k = m + 2 := by omega
      simp [rowExt, this]
    have hyN : rowExt (m + 2) T Te i (m + 2) = Te i := by simp [rowExt]
    have hterm : ∀ k ∈ Finset.range (m + 1),
        r (k + 1) * radTerm (m + 1 + 1) dr r T Te i (k + 1)
          = r (k + 1) * ((1 / r (k + 1) * (rowExt (m + 2) T Te i (k + 2) - rowExt (m + 2) T Te i k)) / (2 * dr)
              + ((rowExt (m + 2) T Te i (k + 2) - 2 * rowExt (m + 2) T Te i (k + 1)) + rowExt (m + 2) T Te i k)
                / (dr * dr)) := by
      intro k hk
      have hk' := Finset.mem_range.mp hk
      have ho : outer (m + 1 + 1) T Te i (k + 1) = rowExt (m + 2) T Te i (k + 2) := by
        unfold outer rowExt
        by_cases h : k + 1 + 1 = m + 1 + 1
        · have : k + 2 = m + 2 := by omega
          simp [this]
        · have : ¬ k + 2 = m + 2 := by omega
          simp [h]
      have hn : inner T i (k + 1) = rowExt (m + 2) T Te i k := by
        rw [hy k (by omega)]; simp [inner]
      unfold radTerm
      simp only [ho, hn, hy (k + 1) (by omega), Nat.succ_ne_zero, if_false]
    rw [Finset.sum_congr rfl hterm,
      radial_row_sum m dr r (rowExt (m + 2) T Te i) hdr hr]
    have hsum : ∑ k ∈ Finset.range m, (r (k + 2) - r (k + 1) - dr)
          * (rowExt (m + 2) T Te i (k + 2) - rowExt (m + 2) T Te i (k + 1))
        = ∑ k ∈ Finset.range m, (r (k + 2) - r (k + 1) - dr) * (T i (k + 2) - T i (k + 1)) := by
      apply Finset.sum_congr rfl
      intro k hk
      have hk' := Finset.mem_range.mp hk
      rw [hy (k + 2) (by omega), hy (k + 1) (by omega)]
    rw [hsum, hyN, hy (m + 1) (by omega), hy 1 (by omega), hy 0 (by omega)]
  rw [Finset.sum_congr rfl hrow, ← Finset.mul_sum]
  ring

/-! ### 1D solidification stage: identity with explicit remainder (partial) -/

/-- **`solid1D_balance` (partial: the remainder is not bounded)** — see
`Stencil1D.solid1D_balance`: for the 1D solidification stencil, any `Nz ≥ 2`, any fields,
`ρ·dz·Σ_j c_p,j·BETA_j·(T'_j − T_j) = dt·(q_shelf + q_e) + (dt/dz)·R` with the explicit
non-conservative remainder `R`. -/
alias solid1D_balance_partial := Stencil1D.solid1D_balance

/-- the stencil of `solid1D_balance_partial` is the temperature update of the executable
1D model (`Snow.solidStep1D`), node by node -/
alias solid1D_is_model := Stencil1D.solidStep1D_eq_solid1D

/-! ### known finding K8: the solidification scheme is not conservative across the liquidus -/

/-- equilibrium ice fraction on the liquidus: `w_eq(t) = (m_w − c/(T_m − t))/m`, `c = m_s·k_f/M_s` -/
noncomputable def wEq (mw c m Tm t : ℝ) : ℝ := (mw - c / (Tm - t)) / m

/-- **capacity defect of a node that stays on the liquidus (exact linearisation term)**: the scheme
advances the node with the apparent capacity `c_p·BETA = c_p + Δh·(c/m)/(T_m − T)²` of the OLD
temperature; the true enthalpy change `c_p·ΔT − Δh·(w_eq(T') − w_eq(T))` differs from it by exactly
`Δh·(c/m)·ΔT²/((T_m − T')(T_m − T)²)`, which is non-negative (second order in `ΔT`). -/
theorem capacity_defect_on_liquidus (cp Dh mw c m Tm T T' : ℝ) (hm : m ≠ 0) (hT : Tm - T ≠ 0)
    (hT' : Tm - T' ≠ 0) :
    (cp * (T' - T) - Dh * (wEq mw c m Tm T' - wEq mw c m Tm T))
        - (cp + Dh * (c / m) / ((T - Tm) * (T - Tm))) * (T' - T)
      = Dh * (c / m) * (T' - T) ^ 2 / ((Tm - T') * ((Tm - T) * (Tm - T))) := by
  have h2 : T - Tm ≠ 0 := fun h => hT (by linarith)
  unfold wEq
  field_simp
  ring

/-- **capacity defect of a node that crosses the liquidus (the K8 term)**: the step is taken with
`BETA = 1` (no latent term) from an ice-free state; afterwards the node carries `w_eq(T') > 0`:
the true enthalpy change is smaller than what the scheme accounted for by exactly `Δh·w_eq(T')`. -/
theorem capacity_defect_crossing (cp Dh mw c m Tm T T' : ℝ) :
    (cp * (T' - T) - Dh * (wEq mw c m Tm T' - 0)) - cp * 1 * (T' - T) = -(Dh * wEq mw c m Tm T') := by
  ring

/-- **`enthalpy_defect_identity`** — the remainder of the 1D solidification step identified exactly:
for ANY post-step ice field `w'` and any `Nz ≥ 2`,
`ρ·dz·Σ_j [c_p,j·ΔT_j − Δh·(w'_j − w_j)] = dt·(q_shelf + q_e) + (dt/dz)·R_cond + ρ·dz·Σ_j d_j`,
with `R_cond` the conduction remainder of `solid1D_balance_partial` and
`d_j = c_p,j·(1 − BETA_j)·ΔT_j − Δh·(w'_j − w_j)` the capacity defect of node `j`
(`capacity_defect_on_liquidus` / `capacity_defect_crossing` evaluate it in the two cases). -/
theorem enthalpy_defect_identity (Nz : Nat) (hNz : 2 ≤ Nz) (dt rho dz qs qe Dh : ℝ) (lam cp B col w w' : Nat → ℝ)
    (hrho : rho ≠ 0) (hdz : dz ≠ 0) (hcp : ∀ j, j < Nz → cp j ≠ 0) (hB : ∀ j, j < Nz → B j ≠ 0)
    (hl0 : lam 0 ≠ 0) (hlN : lam (Nz - 1) ≠ 0) :
    let T' := solid1D Nz dt rho (dz * dz) lam cp B (col 0 + qs * dz / lam 0) (col (Nz - 1) + qe * dz / lam (Nz - 1)) col
    rho * dz * ∑ j ∈ Finset.range Nz, (cp j * (T' j - col j) - Dh * (w' j - w j))
      = dt * (qs + qe)
        + dt / dz * (∑ j ∈ Finset.range Nz,
              (lamU Nz lam j - lamL lam j)
                * (ext Nz (col 0 + qs * dz / lam 0) (col (Nz - 1) + qe * dz / lam (Nz - 1)) col (j + 2)
                    - ext Nz (col 0 + qs * dz / lam 0) (col (Nz - 1) + qe * dz / lam (Nz - 1)) col j) / 4
            - ∑ j ∈ Finset.range (Nz - 1), (lam (j + 1) - lam j) * (col (j + 1) - col j))
        + rho * dz * ∑ j ∈ Finset.range Nz, (cp j * (1 - B j) * (T' j - col j) - Dh * (w' j - w j)) := by
  intro T'
  have h := Stencil1D.solid1D_balance Nz hNz dt rho dz qs qe lam cp B col hrho hdz hcp hB hl0 hlN
  rw [← h, ← mul_add, ← Finset.sum_add_distrib]
  congr 1
  apply Finset.sum_congr rfl
  intro j _
  ring

/-- the ice the model's step gives a node that ends below `T_eq_l` (cf. `C07.solidStep1D_ice`) -/
theorem C07ice (p : SnowIn ℝ) (g : Grid1D ℝ) (stride iEnd : Nat) (tNuc : ℝ) (i : Nat) (s : Solid1D ℝ) (Tsh : ℝ)
    (j : Nat) (hj : j < g.Nz) (hsc : aget (solidStep1D p g stride iEnd tNuc i s Tsh).T j < p.T_eq_l) :
    aget (solidStep1D p g stride iEnd tNuc i s Tsh).w j
      = iceMassEq p (aget (solidStep1D p g stride iEnd tNuc i s Tsh).T j) / p.const.mass := by
  have hw : (solidStep1D p g stride iEnd tNuc i s Tsh).w
      = ((solidStep1D p g stride iEnd tNuc i s Tsh).T.map fun t =>
          (Num.zero : ℝ) * maskNum (!decide (t < p.T_eq_l)) + iceMassEq p t * maskNum (decide (t < p.T_eq_l))).map
          (· / p.const.mass) := rfl
  have hsz : (solidStep1D p g stride iEnd tNuc i s Tsh).T.size = g.Nz := by simp [solidStep1D]
  rw [hw]
  generalize (solidStep1D p g stride iEnd tNuc i s Tsh).T = Tn at hsz hsc ⊢
  rw [Snow.aget_map _ _ j (by simp; omega), Snow.aget_map _ _ j (by omega)]
  simp [maskNum, hsc]

/-- the linearisation term is non-negative: `Δh·c/m ≥ 0` and both temperatures below `T_m` -/
theorem capacity_defect_on_liquidus_nonneg (Dh c m Tm T T' : ℝ) (h : 0 ≤ Dh * (c / m)) (hT : T < Tm) (hT' : T' < Tm) :
    0 ≤ Dh * (c / m) * (T' - T) ^ 2 / ((Tm - T') * ((Tm - T) * (Tm - T))) := by
  have h1 : 0 < Tm - T := by linarith
  have h2 : 0 < Tm - T' := by linarith
  positivity

/-- **`enthalpy_defect_identity` for the model's own step**: with the temperature field and the ice field
that `Snow.solidStep1D` produces (`w' := (solidStep1D …).w`, `w :=` the ice field it started from), the
model's `c_p`, `λ_eff`, `BETA` and its boundary fluxes `q_shelf = K_shelf·(T_sh − T₀)`, `q_e = qEvap` -/
theorem enthalpy_defect_identity_model (p : SnowIn ℝ) (g : Grid1D ℝ) (stride iEnd : Nat) (tNuc : ℝ) (i : Nat)
    (s : Solid1D ℝ) (Tsh Dh : ℝ) (hNz : 2 ≤ g.Nz) (hT : s.T.size = g.Nz) (hw : s.w.size = g.Nz)
    (hrho : p.const.rho_l ≠ 0) (hdz : g.dz ≠ 0) (hcp : ∀ j, j < g.Nz → cpF p s.w j ≠ 0)
    (hB : ∀ j, j < g.Nz → betaF p s.T s.w j ≠ 0) (hl0 : lamF p s.w 0 ≠ 0) (hlN : lamF p s.w (g.Nz - 1) ≠ 0) :
    let st := solidStep1D p g stride iEnd tNuc i s Tsh
    let qs := p.Kshelf * (Tsh - aget s.T 0)
    let qe := Snow.qEvap p Evap.vapourPressureSolid (tNuc + g.dt * (i : ℝ)) (aget s.T (g.Nz - 1))
    let e := ext g.Nz (aget s.T 0 + qs * g.dz / lamF p s.w 0) (aget s.T (g.Nz - 1) + qe * g.dz / lamF p s.w (g.Nz - 1))
      (aget s.T)
    p.const.rho_l * g.dz * ∑ j ∈ Finset.range g.Nz,
        (cpF p s.w j * (aget st.T j - aget s.T j) - Dh * (aget st.w j - aget s.w j))
      = g.dt * (qs + qe)
        + g.dt / g.dz * (∑ j ∈ Finset.range g.Nz,
              (lamU g.Nz (lamF p s.w) j - lamL (lamF p s.w) j) * (e (j + 2) - e j) / 4
            - ∑ j ∈ Finset.range (g.Nz - 1), (lamF p s.w (j + 1) - lamF p s.w j) * (aget s.T (j + 1) - aget s.T j))
        + p.const.rho_l * g.dz * ∑ j ∈ Finset.range g.Nz,
            (cpF p s.w j * (1 - betaF p s.T s.w j) * (aget st.T j - aget s.T j) - Dh * (aget st.w j - aget s.w j)) := by
  intro st qs qe e
  have hrw : ∀ j, j < g.Nz → aget st.T j
      = solid1D g.Nz g.dt p.const.rho_l (g.dz * g.dz) (lamF p s.w) (cpF p s.w) (betaF p s.T s.w)
          (aget s.T 0 + qs * g.dz / lamF p s.w 0) (aget s.T (g.Nz - 1) + qe * g.dz / lamF p s.w (g.Nz - 1))
          (aget s.T) j := fun j hj => solidStep1D_eq_solid1D p g stride iEnd tNuc i s Tsh hNz hT hw j hj
  have h := enthalpy_defect_identity g.Nz hNz g.dt p.const.rho_l g.dz qs qe Dh (lamF p s.w) (cpF p s.w)
    (betaF p s.T s.w) (aget s.T) (aget s.w) (aget st.w) hrho hdz hcp hB hl0 hlN
  simp only [] at h
  have hS1 : ∑ j ∈ Finset.range g.Nz,
        (cpF p s.w j * (aget st.T j - aget s.T j) - Dh * (aget st.w j - aget s.w j))
      = ∑ j ∈ Finset.range g.Nz,
        (cpF p s.w j * (solid1D g.Nz g.dt p.const.rho_l (g.dz * g.dz) (lamF p s.w) (cpF p s.w) (betaF p s.T s.w)
            (aget s.T 0 + qs * g.dz / lamF p s.w 0) (aget s.T (g.Nz - 1) + qe * g.dz / lamF p s.w (g.Nz - 1))
            (aget s.T) j - aget s.T j) - Dh * (aget st.w j - aget s.w j)) :=
    Finset.sum_congr rfl (fun j hj => by rw [hrw j (Finset.mem_range.mp hj)])
  have hS2 : ∑ j ∈ Finset.range g.Nz,
        (cpF p s.w j * (1 - betaF p s.T s.w j) * (aget st.T j - aget s.T j) - Dh * (aget st.w j - aget s.w j))
      = ∑ j ∈ Finset.range g.Nz,
        (cpF p s.w j * (1 - betaF p s.T s.w j)
            * (solid1D g.Nz g.dt p.const.rho_l (g.dz * g.dz) (lamF p s.w) (cpF p s.w) (betaF p s.T s.w)
              (aget s.T 0 + qs * g.dz / lamF p s.w 0) (aget s.T (g.Nz - 1) + qe * g.dz / lamF p s.w (g.Nz - 1))
              (aget s.T) j - aget s.T j) - Dh * (aget st.w j - aget s.w j)) :=
    Finset.sum_congr rfl (fun j hj => by rw [hrw j (Finset.mem_range.mp hj)])
  rw [hS1, hS2]
  exact h

/-- **the K8 term on the model**: a node of `solidStep1D` that is not supercooled and ice-free before the
step and supercooled after it has `BETA = 1` in that step, and the ice the model gives it afterwards is the
liquidus ice of its NEW temperature: its capacity defect in `enthalpy_defect_identity_model` is
`−Δh·iceMassEq(T'_j)/mass` -/
theorem capacity_defect_crossing_model (p : SnowIn ℝ) (g : Grid1D ℝ) (stride iEnd : Nat) (tNuc : ℝ) (i : Nat)
    (s : Solid1D ℝ) (Tsh Dh : ℝ) (j : Nat) (hj : j < g.Nz)
    (hwarm : ¬ aget s.T j < p.T_eq_l) (hice0 : aget s.w j = 0)
    (hcross : aget (solidStep1D p g stride iEnd tNuc i s Tsh).T j < p.T_eq_l) :
    cpF p s.w j * (1 - betaF p s.T s.w j)
        * (aget (solidStep1D p g stride iEnd tNuc i s Tsh).T j - aget s.T j)
      - Dh * (aget (solidStep1D p g stride iEnd tNuc i s Tsh).w j - aget s.w j)
      = -(Dh * (iceMassEq p (aget (solidStep1D p g stride iEnd tNuc i s Tsh).T j) / p.const.mass)) := by
  have hb : betaF p s.T s.w j = 1 := by simp [betaF, maskNum, hwarm]
  rw [hb, hice0, C07ice p g stride iEnd tNuc i s Tsh j hj hcross]
  ring

/-- **`liquidus_crossing_not_conservative` (K8, concrete witness)** — two layers, insulated at both
ends (`q_shelf = q_e = 0`), uniform conductivity (so the conduction remainder vanishes),
`ρ = c_p = Δh = dz = 1`, `dt = 1/4`, `T_m = 0`, liquidus `w_eq(t) = 1 + 1/t` (`T_eq_l = −1`).
Layer 0 is unfrozen at `−1/2` (`BETA = 1`), layer 1 frozen at `−4` (`BETA = 17/16`, the model's
`1 + β/(T − T_m)²`).  One step of the 1D solidification stencil takes layer 0 to `−11/8 < T_eq_l`,
where it is given the ice `w_eq(−11/8) = 3/11`.  No heat crosses the boundary, yet the enthalpy
of the column changes by `−3/11 + 49/3672 ≠ 0`: minus the crossing term `Δh·w_eq(T'₀)` plus the
(second-order, positive) linearisation term of layer 1. -/
theorem liquidus_crossing_not_conservative :
    let lam : Nat → ℝ := fun _ => 1
    let cp : Nat → ℝ := fun _ => 1
    let B : Nat → ℝ := fun j => if j = 0 then 1 else 17 / 16
    let col : Nat → ℝ := fun j => if j = 0 then -1 / 2 else -4
    let T' := solid1D 2 (1 / 4) 1 (1 * 1) lam cp B (col 0 + 0 * 1 / lam 0) (col 1 + 0 * 1 / lam 1) col
    T' 0 = -11 / 8 ∧ T' 1 = -54 / 17 ∧
    -- enthalpy after − enthalpy before (sensible + latent), boundary heat dt·(0 + 0) = 0
    ((1 : ℝ) * (T' 0 - col 0) - 1 * (wEq 1 1 1 0 (T' 0) - 0))
        + ((1 : ℝ) * (T' 1 - col 1) - 1 * (wEq 1 1 1 0 (T' 1) - wEq 1 1 1 0 (col 1)))
      = -(3 / 11) + 49 / 3672
    ∧ -(3 / 11 : ℝ) + 49 / 3672 ≠ (1 / 4) * (0 + 0)
    -- the two parts: crossing term of layer 0, linearisation term of layer 1
    ∧ wEq 1 1 1 0 (T' 0) = 3 / 11
    ∧ (1 : ℝ) * (1 / 1) * (T' 1 - col 1) ^ 2 / ((0 - T' 1) * ((0 - col 1) * (0 - col 1))) = 49 / 3672 := by
  intro lam cp B col T'
  have h0 : T' 0 = -11 / 8 := by
    simp only [T', solid1D, ext, lamU, lamL, lam, cp, B, col]
    norm_num
  have h1 : T' 1 = -54 / 17 := by
    simp only [T', solid1D, ext, lamU, lamL, lam, cp, B, col]
    norm_num
  refine ⟨h0, h1, ?_, by norm_num, ?_, ?_⟩
  · rw [h0, h1]; simp only [wEq, col]; norm_num
  · rw [h0]; simp only [wEq]; norm_num
  · rw [h1]; simp only [col]; norm_num

/-! ### non-vacuity -/

/-- the hypotheses of `nucleation_adiabatic` hold for the default 5 % sucrose solution
at −10 °C: `nuc_phys` is instantiated on concrete numbers -/
theorem nonvacuous :
    (∃ Ts mi : ℝ, (4040 : ℝ) * 1 * (Ts - 263.15) = 333550 * mi ∧ 263.15 < Ts ∧ 0 < mi ∧ mi < 0.95) ∧
    -- every hypothesis of `nucleation_adiabatic` on the default configuration `pDef`, node at -10 °C
    (0 < pDef.cp_solution ∧ 0 < pDef.mass ∧ 0 < pDef.Dh ∧ 0 < pDef.mass_water ∧ 0 < pDef.mass_solute
      ∧ 0 < pDef.k_f / pDef.M_s
      ∧ pDef.depression = pDef.k_f / pDef.M_s * (pDef.mass_solute / pDef.mass_water)
      ∧ (263.15 : ℝ) < TeqL pDef) := by
  constructor
  · have h := nuc_phys 4040 1 333550 0.95 0.05 (1.853 / 0.3423) 273.15 263.15
      (by norm_num) (by norm_num) (by norm_num) (by norm_num) (by norm_num) (by norm_num) (by norm_num)
      _ _ _ _ rfl rfl rfl rfl
    exact ⟨_, _, h.1, h.2.1, h.2.2.2.1, h.2.2.2.2⟩
  · refine ⟨?_, ?_, ?_, ?_, ?_, ?_, ?_, ?_⟩ <;>
      simp only [pDef, TeqL, Tm, kelvin, lit_real] <;> norm_num

end Snow.C02
