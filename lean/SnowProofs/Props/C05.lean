/-
  C05 — Sampled shelf temperature is the programmed cooling protocol.

  Property theorems only (helper lemmas: SnowProofs/Lemmas/OpCond.lean).
  Model: SnowModel/OpCond.lean, instantiated at ℝ.
-/
import SnowProofs.Lemmas.OpCond
import SnowProofs.Lemmas.Tracks
import Mathlib.Data.List.Sort

namespace Snow.C05
open Snow Num List Snow.OpCondLemmas

/-- Well-formed program and time step (the inputs the property quantifies over).
`oc.holds` is the hold list after construction, i.e. already ordered. -/
structure WF (oc : OpCond ℝ) (dt : ℝ) : Prop where
  dt_pos : 0 < dt
  rate_pos : 0 < oc.rate
  ttot_nonneg : 0 ≤ oc.t_tot
  desc : Desc oc.start oc.holds
  stop_le : oc.stop ≤ lastTemp oc.start oc.holds
  dur_nonneg : ∀ x ∈ oc.holds, 0 ≤ x.duration

/-- **one value per simulation step**, for every numeric instance (also `Float`):
the profile has exactly `ceil(t_tot/dt) + 1` samples. -/
theorem profile_length {α : Type} [Num α] (oc : OpCond α) (dt : α) :
    (profile oc dt).length = nSteps oc.t_tot dt := by
  simp only [profile, List.length_append, List.length_replicate, List.length_take]
  omega

/-- every step index used by a consumer (`k < N_timeSteps`) is a valid sample -/
theorem consumers_in_range {α : Type} [Num α] (oc : OpCond α) (dt : α) (k : Nat)
    (hk : k < nSteps oc.t_tot dt) : k < (profile oc dt).length := by
  rw [profile_length]; exact hk

theorem nSteps_pos {t_tot dt : ℝ} (h0 : 0 ≤ t_tot) (hdt : 0 < dt) : 0 < nSteps t_tot dt := by
  unfold nSteps
  simp only [ceilInt_real]
  have : (0 : ℤ) ≤ ⌈t_tot / dt⌉ := Int.ceil_nonneg (div_nonneg h0 (le_of_lt hdt))
  omega

theorem allHolds_good (oc : OpCond ℝ) (dt : ℝ) (h : WF oc dt) :
    Good (oc.rate * dt) oc.stop oc.start (segments oc.rate dt oc.start (allHolds oc)) := by
  have hd : Desc oc.start (allHolds oc) := desc_append_singleton h.desc h.stop_le
  have := good_segments h.dt_pos h.rate_pos oc.start (allHolds oc) hd
  simpa [allHolds, lastTemp_append_singleton] using this

/-- the whole profile is a `Good` list from `start` down to `stop` … -/
theorem profile_good (oc : OpCond ℝ) (dt : ℝ) (h : WF oc dt) :
    (profile oc dt).IsChain (R (oc.rate * dt)) ∧
    (∀ x ∈ profile oc dt, oc.stop ≤ x ∧ x ≤ oc.start) ∧
    (profile oc dt).head? = some oc.start := by
  have hc : 0 ≤ oc.rate * dt := by have := h.rate_pos; have := h.dt_pos; positivity
  have hg := allHolds_good oc dt h
  have hss : oc.stop ≤ oc.start := le_trans h.stop_le (lastTemp_le h.desc)
  have hn := nSteps_pos h.ttot_nonneg h.dt_pos
  set segs := segments oc.rate dt oc.start (allHolds oc) with hsegs
  set n := nSteps oc.t_tot dt with hn'
  have hprof : profile oc dt = segs.take n ++ List.replicate (n - (segs.take n).length) oc.stop := rfl
  by_cases hlen : n ≤ segs.length
  · -- truncated, no padding
    have hpad : n - (segs.take n).length = 0 := by
      simp [List.length_take, Nat.min_eq_left hlen]
    have hp : profile oc dt = segs.take n := by rw [hprof, hpad]; simp
    refine ⟨?_, ?_, ?_⟩
    · rw [hp]; exact hg.chain.take n
    · intro x hx; rw [hp] at hx; exact hg.bounds x (List.mem_of_mem_take hx)
    · rw [hp]
      cases hs : segs with
      | nil => rw [hs] at hlen; simp at hlen; omega
      | cons a t =>
        have : a = oc.start := hg.head a (by rw [hs]; simp)
        obtain ⟨m, hm⟩ : ∃ m, n = m + 1 := ⟨n - 1, by omega⟩
        rw [hm]; simp [this]
  · -- not truncated: whole list, padded with the end temperature
    have hlen' : segs.length < n := by omega
    have htake : segs.take n = segs := List.take_of_length_le (le_of_lt hlen')
    have hp : profile oc dt = segs ++ List.replicate (n - segs.length) oc.stop := by
      rw [hprof, htake]
    have hG : Good (oc.rate * dt) oc.stop oc.start (segs ++ List.replicate (n - segs.length) oc.stop) :=
      Good.append hc hg (good_replicate _ _ hc _) (le_refl _) hss
    refine ⟨?_, ?_, ?_⟩
    · rw [hp]; exact hG.chain
    · intro x hx; rw [hp] at hx; exact hG.bounds x hx
    · rw [hp]
      cases hl : (segs ++ List.replicate (n - segs.length) oc.stop) with
      | nil =>
        have : (segs ++ List.replicate (n - segs.length) oc.stop).length = 0 := by rw [hl]; rfl
        simp at this; omega
      | cons a t =>
        have : a = oc.start := hG.head a (by rw [hl]; simp)
        simp [this]

/-- **starts at the start temperature** -/
theorem profile_head (oc : OpCond ℝ) (dt : ℝ) (h : WF oc dt) :
    (profile oc dt).head? = some oc.start := (profile_good oc dt h).2.2

/-- **stays between end and start temperature** -/
theorem profile_bounds (oc : OpCond ℝ) (dt : ℝ) (h : WF oc dt) :
    ∀ x ∈ profile oc dt, oc.stop ≤ x ∧ x ≤ oc.start := (profile_good oc dt h).2.1

/-- **never rises**: consecutive samples are non-increasing … -/
theorem profile_antitone (oc : OpCond ℝ) (dt : ℝ) (h : WF oc dt) (i : Nat)
    (hi : i + 1 < (profile oc dt).length) : (profile oc dt)[i + 1] ≤ (profile oc dt)[i] :=
  ((List.isChain_iff_getElem.mp (profile_good oc dt h).1) i hi).1

/-- … and **never falls faster than the cooling rate**: at most `rate·dt` per step. -/
theorem profile_rate (oc : OpCond ℝ) (dt : ℝ) (h : WF oc dt) (i : Nat)
    (hi : i + 1 < (profile oc dt).length) :
    (profile oc dt)[i] - (profile oc dt)[i + 1] ≤ oc.rate * dt :=
  ((List.isChain_iff_getElem.mp (profile_good oc dt h).1) i hi).2

/-- **dwell**: the plateau appended for a hold of duration `d` has `m` samples with
`d - dt < m·dt < d + dt` (duration to within one step). -/
theorem holdCount_dwell (Ts Th rate d dt : ℝ) (hdt : 0 < dt) (hd : 0 ≤ d) :
    d - dt < (holdCount Ts Th rate d dt : ℝ) * dt ∧
    (holdCount Ts Th rate d dt : ℝ) * dt < d + dt := by
  unfold holdCount
  simp only [ceilInt_real]
  set r := Num.pyMod ((Ts - Th) / rate) dt with hr
  have hr0 : 0 ≤ r := pyMod_nonneg _ _ hdt
  have hr1 : r < dt := pyMod_lt _ _ hdt
  set c := ⌈(d - r) / dt⌉ with hc
  have hle : (d - r) / dt ≤ (c : ℝ) := Int.le_ceil _
  have hlt : (c : ℝ) < (d - r) / dt + 1 := Int.ceil_lt_add_one _
  have hm1 : d - r ≤ (c : ℝ) * dt := by
    calc d - r = ((d - r) / dt) * dt := by field_simp
      _ ≤ (c : ℝ) * dt := by gcongr
  have hm2 : (c : ℝ) * dt < d - r + dt := by
    calc (c : ℝ) * dt < ((d - r) / dt + 1) * dt := by gcongr
      _ = d - r + dt := by field_simp
  by_cases hcn : 0 ≤ c
  · have hcast : ((c.toNat : ℕ) : ℝ) = (c : ℝ) := by
      have : ((c.toNat : ℕ) : ℤ) = c := Int.toNat_of_nonneg hcn
      exact_mod_cast this
    rw [hcast]
    constructor <;> linarith
  · have hneg : c < 0 := not_le.mp hcn
    have h0 : c.toNat = 0 := by omega
    rw [h0]
    have hc1 : (c : ℝ) ≤ -1 := by
      have : c ≤ -1 := by omega
      exact_mod_cast this
    have : (c : ℝ) * dt ≤ -dt := by nlinarith
    simp only [Nat.cast_zero, zero_mul]
    constructor <;> linarith

/-- **tracks the program** (partial: per segment). A ramp from `Ts` to `Th` followed by
a hold of duration `d` lasts `(Ts-Th)/rate + d` in the continuous program and takes `m`
samples with `-dt < m·dt - ((Ts-Th)/rate + d) < 2·dt`: each of the two program segments
(ramp, hold) shifts the sampling clock by less than one step. -/
theorem segment_slip (Ts Th rate d dt : ℝ) (hdt : 0 < dt) (hr : 0 < rate) (hle : Th ≤ Ts) (hd : 0 ≤ d) :
    let m := arangeLen ((Ts - Th) / rate) dt + holdCount Ts Th rate d dt
    (Ts - Th) / rate + d - dt < (m : ℝ) * dt ∧ (m : ℝ) * dt < (Ts - Th) / rate + d + 2 * dt := by
  intro m
  have hL0 : 0 ≤ (Ts - Th) / rate := div_nonneg (by linarith) (le_of_lt hr)
  set L := (Ts - Th) / rate with hL
  -- ramp samples: L ≤ a·dt < L + dt
  have ha1 := arangeLen_ge (tEnd := L) hdt
  have ha2 : (arangeLen L dt : ℝ) * dt < L + dt := by
    unfold arangeLen
    simp only [ceilInt_real]
    have hnn : (0 : ℤ) ≤ ⌈L / dt⌉ := Int.ceil_nonneg (div_nonneg hL0 (le_of_lt hdt))
    have hcast : ((⌈L / dt⌉.toNat : ℕ) : ℝ) = (⌈L / dt⌉ : ℝ) := by
      have : ((⌈L / dt⌉.toNat : ℕ) : ℤ) = ⌈L / dt⌉ := Int.toNat_of_nonneg hnn
      exact_mod_cast this
    rw [hcast]
    have : (⌈L / dt⌉ : ℝ) < L / dt + 1 := Int.ceil_lt_add_one _
    calc (⌈L / dt⌉ : ℝ) * dt < (L / dt + 1) * dt := by gcongr
      _ = L + dt := by field_simp
  have hh := holdCount_dwell Ts Th rate d dt hdt hd
  have hm : (m : ℝ) = (arangeLen L dt : ℝ) + (holdCount Ts Th rate d dt : ℝ) := by
    simp only [m]; push_cast; ring
  rw [hm]
  constructor <;> nlinarith [hh.1, hh.2]

/-- **agrees with the continuous piecewise-linear program to within one step per program
segment**: every sample `k` equals the continuous program `prog` at a time `τ` with
`|τ − k·dt| ≤ 2·dt·(#holds + 1)` — one step for each ramp and one for each hold (the final
ramp and plateau included). Since `prog` changes by at most `rate` per unit time this is the
temperature bound `(#segments)·rate·dt` of the property. -/
theorem profile_tracks_program (oc : OpCond ℝ) (dt : ℝ) (h : WF oc dt) (k : Nat)
    (hk : k < (profile oc dt).length) :
    ∃ τ : ℝ, 0 ≤ τ ∧ |τ - (k : ℝ) * dt| ≤ 2 * dt * ((oc.holds.length : ℝ) + 1) ∧
      (profile oc dt)[k]? = some (prog oc.rate oc.start (allHolds oc) τ) := by
  have hdt := h.dt_pos
  have hr := h.rate_pos
  have hd : Desc oc.start (allHolds oc) := desc_append_singleton h.desc h.stop_le
  have hdur : ∀ x ∈ allHolds oc, 0 ≤ x.duration := by
    intro x hx
    simp only [allHolds, List.mem_append, List.mem_singleton] at hx
    rcases hx with hx | rfl
    · exact h.dur_nonneg x hx
    · exact h.ttot_nonneg
  have hlenH : ((allHolds oc).length : ℝ) = (oc.holds.length : ℝ) + 1 := by
    simp [allHolds]
  have hlast : lastTemp oc.start (allHolds oc) = oc.stop := by
    simp [allHolds, lastTemp_append_singleton]
  set segs := segments oc.rate dt oc.start (allHolds oc) with hsegs
  set n := nSteps oc.t_tot dt with hn
  have hprof : profile oc dt = segs.take n ++ List.replicate (n - (segs.take n).length) oc.stop := rfl
  have hkn : k < n := by rw [profile_length] at hk; exact hk
  by_cases hks : k < segs.length
  · -- a sample of the concatenated segments
    obtain ⟨τ, hτ0, hτb, hτe⟩ := tracks_segments hdt hr (allHolds oc) oc.start hd hdur k hks
    refine ⟨τ, hτ0, by rw [← hlenH]; exact hτb, ?_⟩
    rw [hprof, List.getElem?_append_left (by simp [List.length_take]; omega), List.getElem?_take_of_lt hkn]
    exact hτe
  · -- a padded sample: the program has reached the end temperature (up to the slip)
    have hks' : segs.length ≤ k := not_lt.mp hks
    have htake : segs.take n = segs := List.take_of_length_le (by omega)
    have hval : (profile oc dt)[k]? = some oc.stop := by
      rw [hprof, htake, List.getElem?_append_right hks', List.getElem?_replicate, if_pos (by omega)]
    have hge := segments_length_ge hdt hr (allHolds oc) oc.start hd hdur
    rw [hlast, hlenH] at hge
    have hsum : ((allHolds oc).map (·.duration)).sum = (oc.holds.map (·.duration)).sum + oc.t_tot := by
      simp [allHolds]
    have hdrop : (allHolds oc).dropLast = oc.holds := by simp [allHolds]
    rw [hsum] at hge
    set reach := (oc.start - oc.stop) / oc.rate + (oc.holds.map (·.duration)).sum with hreach
    have hkM : (segs.length : ℝ) * dt ≤ (k : ℝ) * dt := by
      have : (segs.length : ℝ) ≤ (k : ℝ) := by exact_mod_cast hks'
      gcongr
    have hfin := prog_final hr (allHolds oc) oc.start hd hdur (Max.max ((k : ℝ) * dt) reach)
      (by rw [hlast, hdrop]; exact le_max_right _ _)
    rw [hlast] at hfin
    have hk0 : 0 ≤ (k : ℝ) * dt := by positivity
    have hH : (0 : ℝ) ≤ (oc.holds.length : ℝ) := Nat.cast_nonneg _
    refine ⟨Max.max ((k : ℝ) * dt) reach, le_trans hk0 (le_max_left _ _), ?_, by rw [hval, hfin]⟩
    rcases le_total reach ((k : ℝ) * dt) with hm | hm
    · rw [max_eq_left hm]; simp only [sub_self, abs_zero]; nlinarith
    · rw [max_eq_right hm, abs_of_nonneg (by linarith)]
      have := h.ttot_nonneg
      nlinarith

/-- the segment list of a concatenated hold list splits at the junction -/
theorem segments_append (rate dt Ts : ℝ) (pre post : List (Hold ℝ)) :
    segments rate dt Ts (pre ++ post)
      = segments rate dt Ts pre ++ segments rate dt (lastTemp Ts pre) post := by
  induction pre generalizing Ts with
  | nil => simp [segments, lastTemp]
  | cons a t ih => simp [segments, lastTemp, ih, List.append_assoc]

/-- **dwell, on the profile itself**: whenever the program's hold list (user holds followed by
the final plateau) splits as `pre ++ h :: post`, the sampled profile contains — right after the
ramp down to `h.temp` — a plateau of `c = holdCount …` consecutive samples equal to `h.temp`
(as far as the process lasts: indices below `nSteps`), and `c` matches the hold's duration to
within one step: `d − dt < c·dt < d + dt`. -/
theorem profile_dwell (oc : OpCond ℝ) (dt : ℝ) (hdt : 0 < dt)
    (pre post : List (Hold ℝ)) (h : Hold ℝ) (hsplit : allHolds oc = pre ++ h :: post)
    (hd : 0 ≤ h.duration) :
    let Ts := lastTemp oc.start pre
    let off := (segments oc.rate dt oc.start pre).length + arangeLen ((Ts - h.temp) / oc.rate) dt
    let c := holdCount Ts h.temp oc.rate h.duration dt
    (∀ k, k < c → off + k < nSteps oc.t_tot dt → (profile oc dt)[off + k]? = some h.temp) ∧
    h.duration - dt < (c : ℝ) * dt ∧ (c : ℝ) * dt < h.duration + dt := by
  intro Ts off c
  refine ⟨?_, holdCount_dwell Ts h.temp oc.rate h.duration dt hdt hd⟩
  intro k hk hn
  have hseg : segments oc.rate dt oc.start (allHolds oc)
      = segments oc.rate dt oc.start pre ++
        (simpleCool Ts h.temp oc.rate dt ++
          (List.replicate c h.temp ++ segments oc.rate dt h.temp post)) := by
    rw [hsplit, segments_append]; rfl
  have hlenS : (simpleCool Ts h.temp oc.rate dt).length = arangeLen ((Ts - h.temp) / oc.rate) dt :=
    length_simpleCool _ _ _ _
  have hget : (segments oc.rate dt oc.start (allHolds oc))[off + k]? = some h.temp := by
    rw [hseg]
    rw [List.getElem?_append_right (by simp only [off]; omega)]
    rw [List.getElem?_append_right (by simp only [off]; rw [hlenS]; omega)]
    rw [List.getElem?_append_left (by simp only [off, List.length_replicate]; rw [hlenS]; omega)]
    rw [List.getElem?_replicate, if_pos (by simp only [off]; rw [hlenS]; omega)]
  have hlt : off + k < (segments oc.rate dt oc.start (allHolds oc)).length := by
    by_contra hcon
    rw [List.getElem?_eq_none (by omega)] at hget
    exact absurd hget (by simp)
  show (profile oc dt)[off + k]? = some h.temp
  unfold profile
  simp only []
  rw [List.getElem?_append_left (by simp [List.length_take]; omega)]
  rw [List.getElem?_take_of_lt hn]
  exact hget

/-! ### order independence -/

theorem holdGe_iff (a b : Hold ℝ) :
    holdGe a b = true ↔ b.temp < a.temp ∨ (a.temp = b.temp ∧ b.duration ≤ a.duration) := by
  simp [holdGe]

theorem holdGe_total (a b : Hold ℝ) : holdGe a b || holdGe b a := by
  simp only [Bool.or_eq_true, holdGe_iff]
  rcases lt_trichotomy a.temp b.temp with h | h | h
  · right; left; exact h
  · rcases le_total a.duration b.duration with h' | h'
    · right; right; exact ⟨h.symm, h'⟩
    · left; right; exact ⟨h, h'⟩
  · left; left; exact h

theorem holdGe_trans (a b c : Hold ℝ) (h1 : holdGe a b = true) (h2 : holdGe b c = true) :
    holdGe a c = true := by
  rw [holdGe_iff] at *
  rcases h1 with h1 | ⟨h1, h1'⟩ <;> rcases h2 with h2 | ⟨h2, h2'⟩
  · left; linarith
  · left; linarith
  · left; linarith
  · right; exact ⟨h1.trans h2, le_trans h2' h1'⟩

theorem holdGe_antisymm (a b : Hold ℝ) (h1 : holdGe a b = true) (h2 : holdGe b a = true) : a = b := by
  rw [holdGe_iff] at *
  cases a; cases b
  simp only at *
  rcases h1 with h1 | ⟨h1, h1'⟩ <;> rcases h2 with h2 | ⟨h2, h2'⟩
  · linarith
  · linarith
  · linarith
  · subst h1; congr; exact le_antisymm h2' h1'

/-- **does not depend on the order in which holding steps were listed**: the ordered
hold list, and hence the profile, is a function of the multiset of holds. -/
theorem orderHolds_perm (hs₁ hs₂ : List (Hold ℝ)) (h : hs₁.Perm hs₂) :
    orderHolds hs₁ = orderHolds hs₂ := by
  unfold orderHolds
  have s1 := List.pairwise_mergeSort (le := holdGe) (fun a b c => holdGe_trans a b c) holdGe_total hs₁
  have s2 := List.pairwise_mergeSort (le := holdGe) (fun a b c => holdGe_trans a b c) holdGe_total hs₂
  have p : (hs₁.mergeSort holdGe).Perm (hs₂.mergeSort holdGe) :=
    (List.mergeSort_perm hs₁ holdGe).trans (h.trans (List.mergeSort_perm hs₂ holdGe).symm)
  exact List.Perm.eq_of_pairwise (fun a b _ _ h1 h2 => holdGe_antisymm a b h1 h2) s1 s2 p

theorem profile_perm (t_tot start stop rate dt : ℝ) (hs₁ hs₂ : List (Hold ℝ)) (h : hs₁.Perm hs₂) :
    profile ⟨t_tot, start, stop, rate, orderHolds hs₁⟩ dt
      = profile ⟨t_tot, start, stop, rate, orderHolds hs₂⟩ dt := by
  rw [orderHolds_perm hs₁ hs₂ h]

/-- the ordered hold list is descending, so `WF.desc` is what the constructor establishes -/
theorem orderHolds_desc (hs : List (Hold ℝ)) :
    (orderHolds hs).Pairwise (fun a b => b.temp ≤ a.temp) := by
  have s := List.pairwise_mergeSort (le := holdGe) (fun a b c => holdGe_trans a b c) holdGe_total hs
  refine s.imp ?_
  intro a b hab
  rcases (holdGe_iff a b).mp hab with h | ⟨h, _⟩
  · exact le_of_lt h
  · exact le_of_eq h.symm

/-! ### the constructor establishes `WF` -/

theorem desc_of_pairwise {Ts : ℝ} {l : List (Hold ℝ)}
    (hp : l.Pairwise (fun a b => b.temp ≤ a.temp)) (hle : ∀ h ∈ l, h.temp ≤ Ts) : Desc Ts l := by
  induction l generalizing Ts with
  | nil => trivial
  | cons a t ih =>
    rw [List.pairwise_cons] at hp
    exact ⟨hle a (by simp), ih hp.2 (fun h hh => hp.1 h hh)⟩

theorem lastTemp_mem (Ts : ℝ) (l : List (Hold ℝ)) :
    lastTemp Ts l = Ts ∨ ∃ h ∈ l, lastTemp Ts l = h.temp := by
  induction l generalizing Ts with
  | nil => left; rfl
  | cons a t ih =>
    right
    rcases ih a.temp with h | ⟨x, hx, hxe⟩
    · exact ⟨a, by simp, by simpa [lastTemp] using h⟩
    · exact ⟨x, by simp [hx], by simpa [lastTemp] using hxe⟩

/-- For user-level inputs in the property's range (positive rate and step, end ≤ hold
temperatures ≤ start, non-negative durations and total time) the constructor succeeds, keeps
exactly the listed holds (as a multiset) and yields a program satisfying `WF` — so every
theorem above applies to every `OperatingConditions` object built from such inputs. -/
theorem mkOpCond_wf (t_tot start stop rate dt : ℝ) (hs : List (Hold ℝ)) (hdt : 0 < dt) (hr : 0 < rate)
    (ht : 0 ≤ t_tot) (hss : stop ≤ start)
    (hrange : ∀ h ∈ hs, stop ≤ h.temp ∧ h.temp ≤ start ∧ 0 ≤ h.duration) :
    ∃ oc, mkOpCond t_tot start stop rate (some hs) true = .ok oc ∧ WF oc dt ∧ oc.holds.Perm hs := by
  have hne : rate ≠ 0 := ne_of_gt hr
  refine ⟨⟨t_tot, start, stop, rate, orderHolds hs⟩, ?_, ?_, ?_⟩
  · simp [mkOpCond, hne]
  · have hperm : (orderHolds hs).Perm hs := List.mergeSort_perm hs holdGe
    have hmem : ∀ h ∈ orderHolds hs, h ∈ hs := fun h hh => hperm.mem_iff.mp hh
    refine ⟨hdt, hr, ht, ?_, ?_, ?_⟩
    · exact desc_of_pairwise (orderHolds_desc hs) (fun h hh => (hrange h (hmem h hh)).2.1)
    · rcases lastTemp_mem start (orderHolds hs) with h | ⟨x, hx, hxe⟩
      · simp only; rw [h]; exact hss
      · simp only; rw [hxe]; exact (hrange x (hmem x hx)).1
    · intro x hx; exact (hrange x (hmem x hx)).2.2
  · exact List.mergeSort_perm hs holdGe

/-! ### the upstream (unpadded) profile is short: witness of finding F1 -/

/-- `start 0, end -1/2, rate 1/2, dt 3, t_tot 1/2`: the concatenation truncated to `n`
has 1 sample while `n = 2` (exact rational arithmetic). -/
theorem profileRaw_short_witness :
    (profileRaw (⟨1/2, 0, -1/2, 1/2, []⟩ : OpCond Rat) 3).length = 1 ∧ nSteps (1/2 : Rat) 3 = 2 := by
  decide +kernel

/-! ### non-vacuity -/

/-- a concrete non-trivial program meets `WF` (two holds, ramp, t_tot not a multiple of dt) -/
theorem nonvacuous :
    WF ⟨100, 20, -20, 1, orderHolds [⟨-10, 69⟩, ⟨0, 1⟩]⟩ (3/2) := by
  have hperm : orderHolds [(⟨-10, 69⟩ : Hold ℝ), ⟨0, 1⟩] = [⟨0, 1⟩, ⟨-10, 69⟩] := by
    have s := List.pairwise_mergeSort (le := holdGe) (fun a b c => holdGe_trans a b c) holdGe_total
      [(⟨-10, 69⟩ : Hold ℝ), ⟨0, 1⟩]
    have s2 : ([(⟨0, 1⟩ : Hold ℝ), ⟨-10, 69⟩]).Pairwise (fun a b => holdGe a b = true) := by
      simp [holdGe_iff]
    have p : ([(⟨-10, 69⟩ : Hold ℝ), ⟨0, 1⟩].mergeSort holdGe).Perm [(⟨0, 1⟩ : Hold ℝ), ⟨-10, 69⟩] :=
      (List.mergeSort_perm _ holdGe).trans (List.Perm.swap _ _ _)
    exact List.Perm.eq_of_pairwise (fun a b _ _ h1 h2 => holdGe_antisymm a b h1 h2) s s2 p
  refine ⟨by norm_num, by norm_num, by norm_num, ?_, ?_, ?_⟩
  · rw [hperm]; simp [Desc]
  · rw [hperm]; simp [lastTemp]; norm_num
  · rw [hperm]; intro x hx; simp at hx; rcases hx with rfl | rfl <;> norm_num

end Snow.C05
