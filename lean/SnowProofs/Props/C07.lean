/-
  C07 — Spatial fields respect physical bounds and phase equilibrium.

  Property theorems over ℝ (IEEE rounding is not modelled).  Models:
  Snowing0D.lean (`coolStep0D`, `solidStep0D`), Snowing1D.lean (`coolStencil` = `col1D`),
  Snowing2D.lean (`coolNode`, `coolStep`, `iceMass`, `dt`).
  The upper bound during solidification (and the solidification-stage maximum principle)
  is NOT a theorem here; it is evaluated on real runs by harness/props/c07.py.
-/
import SnowProofs.Lemmas.Snowing2D
import SnowProofs.Lemmas.Stencil1D
import SnowProofs.Lemmas.RunBounds
import SnowProofs.Lemmas.DefaultLink
import SnowProofs.Props.C02
import SnowProofs.Props.C05
import Mathlib.Tactic.NormNum
import Mathlib.Tactic.Positivity

namespace Snow.C07
open Snow Num Snow.S2D Snow.Stencil1D

/-! ### stability hypotheses (explicit inequalities on the inputs) -/

/-- stability range of the explicit cooling-stage scheme: `a = alpha·dt`; CFL number,
Biot numbers of the bottom (`Bb = K_shelf·dz/k`) and wall (`Bw = K_wall·s/k`) ghost values -/
structure Stab (a dz dr Bb Bw : ℝ) : Prop where
  a_nonneg : 0 ≤ a
  dz_pos : 0 < dz
  dr_pos : 0 < dr
  cfl : a * (2 / (dz * dz) + 2 / (dr * dr)) ≤ 1
  bb : 0 ≤ Bb ∧ Bb ≤ 1
  bw : 0 ≤ Bw ∧ Bw ≤ 1

/-- **`cfl_from_code`**: the time step the code derives,
`dt = (0.4/alpha_max)·dz²dr²/(dr²+dz²)`, satisfies the 2D CFL condition whenever the
diffusivity in use is at most `1.25·alpha_max`. -/
theorem cfl_from_code (p : Par ℝ) (hdz : 0 < dz p) (hdr : 0 < dr p) (hmax : 0 < alphaMax p)
    (hα : alpha0 p ≤ (5 / 4) * alphaMax p) :
    alpha0 p * dt p * (2 / (dz p * dz p) + 2 / (dr p * dr p)) ≤ 1 := by
  have e : dt p * (2 / (dz p * dz p) + 2 / (dr p * dr p)) = (4 / 5) / alphaMax p := by
    unfold dt
    simp only [lit_real]
    have h1 : dz p * dz p ≠ 0 := by positivity
    have h2 : dr p * dr p ≠ 0 := by positivity
    have h3 : dr p * dr p + dz p * dz p ≠ 0 := by positivity
    field_simp
    ring
  rw [mul_assoc, e]
  rw [mul_div_assoc', div_le_one hmax]
  linarith

/-- the 1D version: `dt = 0.4·dz²/alpha_max` gives `alpha·dt·2/dz² ≤ 1` -/
theorem cfl_from_code_1D (alpha alphaMax dz : ℝ) (hdz : 0 < dz) (hmax : 0 < alphaMax)
    (hα : alpha ≤ (5 / 4) * alphaMax) :
    alpha * ((4 / 10) * (dz * dz) / alphaMax) * (2 / (dz * dz)) ≤ 1 := by
  have h1 : dz * dz ≠ 0 := by positivity
  have e : alpha * ((4 / 10) * (dz * dz) / alphaMax) * (2 / (dz * dz)) = (4 / 5) * alpha / alphaMax := by
    field_simp; ring
  rw [e, div_le_one hmax]; linarith

/-! ### convex steps -/

/-- a relaxation step towards `S` with weight `θ ∈ [0,1]` stays between `T` and `S` -/
theorem relax_bounds (T S θ lo hi : ℝ) (h0 : 0 ≤ θ) (h1 : θ ≤ 1)
    (hT : lo ≤ T ∧ T ≤ hi) (hS : lo ≤ S ∧ S ≤ hi) :
    lo ≤ T + θ * (S - T) ∧ T + θ * (S - T) ≤ hi := by
  constructor <;> nlinarith [hT.1, hT.2, hS.1, hS.2]

/-- **`bounds0D`, cooling stage**: one step of the homogeneous model moves the product
temperature towards the shelf temperature without overshooting, provided
`dt·A·K/(c_p·m) ≤ 1`. -/
theorem bounds0D_cool (q : SnowIn ℝ) (i : Nat) (s : Cool0D ℝ) (Tsh lo hi : ℝ)
    (hden : 0 < q.const.cp_solution * q.const.mass)
    (hnum : 0 ≤ q.const.A * q.Kshelf)
    (hθ : (1 / 10 : ℝ) * (q.const.A * q.Kshelf) ≤ q.const.cp_solution * q.const.mass)
    (hT : lo ≤ s.T ∧ s.T ≤ hi) (hS : lo ≤ Tsh ∧ Tsh ≤ hi) :
    lo ≤ (coolStep0D q i s Tsh).T ∧ (coolStep0D q i s Tsh).T ≤ hi := by
  have e : (coolStep0D q i s Tsh).T
      = s.T + ((1 / 10 : ℝ) * (q.const.A * q.Kshelf) / (q.const.cp_solution * q.const.mass)) * (Tsh - s.T) := by
    simp only [coolStep0D, dt0D, lit_real]
    field_simp
    norm_num
  rw [e]
  apply relax_bounds _ _ _ _ _ (by positivity) _ hT hS
  rw [div_le_one hden]; exact hθ

/-- **`bounds0D`, solidification stage**: the latent term only enlarges the denominator,
so the same condition keeps the step between `T` and `T_shelf`. -/
theorem bounds0D_solid (q : SnowIn ℝ) (i : Nat) (s : Solid0D ℝ) (Tsh lo hi X : ℝ)
    (hX : X = (q.const.cp_s * (q.const.mass_solute / q.const.mass) + q.const.cp_i * s.w
            + q.const.cp_w * (1 - q.const.mass_solute / q.const.mass - s.w)) * q.const.rho_l * q.const.V
          + (q.const.Dh * q.const.k_f * q.const.mass_solute / q.const.M_s) * (1 / ((q.T_m - s.T) * (q.T_m - s.T))))
    (hXpos : 0 < X) (hnum : 0 ≤ q.const.A * q.Kshelf)
    (hθ : (1 / 10 : ℝ) * (q.const.A * q.Kshelf) ≤ X)
    (hT : lo ≤ s.T ∧ s.T ≤ hi) (hS : lo ≤ Tsh ∧ Tsh ≤ hi) :
    lo ≤ (solidStep0D q i s Tsh).T ∧ (solidStep0D q i s Tsh).T ≤ hi := by
  have e : (solidStep0D q i s Tsh).T
      = s.T + ((1 / 10 : ℝ) * (q.const.A * q.Kshelf) / X) * (Tsh - s.T) := by
    simp only [solidStep0D, dt0D, lit_real, one_real]
    rw [hX]
    field_simp
    norm_num
  rw [e]
  apply relax_bounds _ _ _ _ _ (by positivity) _ hT hS
  rw [div_le_one hXpos]; exact hθ

/-- **`bounds0D_solid` with state-independent hypotheses** (audit L6): with `c_p,i ≤ c_p,w` the mixture
heat capacity is at least `c_lo = c_p,s w_s + c_p,i (1 − w_s)` for every ice fraction
`0 ≤ w ≤ 1 − w_s` (`ice_range_0D`), the latent term is non-negative, so `0 < X` and the step
condition follow from `0.1·A·K ≤ c_lo·ρ·V` — a condition on the inputs only. -/
theorem bounds0D_solid_static (q : SnowIn ℝ) (i : Nat) (s : Solid0D ℝ) (Tsh lo hi : ℝ)
    (hcs : 0 < q.const.cp_s) (hci : 0 < q.const.cp_i) (hciw : q.const.cp_i ≤ q.const.cp_w)
    (hws0 : 0 < q.const.mass_solute / q.const.mass) (hws1 : q.const.mass_solute / q.const.mass < 1)
    (hw : 0 ≤ s.w ∧ s.w ≤ 1 - q.const.mass_solute / q.const.mass)
    (hrV : 0 < q.const.rho_l * q.const.V)
    (hL : 0 ≤ q.const.Dh * q.const.k_f * q.const.mass_solute / q.const.M_s)
    (hnum : 0 ≤ q.const.A * q.Kshelf)
    (hθ : (1 / 10 : ℝ) * (q.const.A * q.Kshelf)
        ≤ (q.const.cp_s * (q.const.mass_solute / q.const.mass)
            + q.const.cp_i * (1 - q.const.mass_solute / q.const.mass)) * (q.const.rho_l * q.const.V))
    (hT : lo ≤ s.T ∧ s.T ≤ hi) (hS : lo ≤ Tsh ∧ Tsh ≤ hi) :
    lo ≤ (solidStep0D q i s Tsh).T ∧ (solidStep0D q i s Tsh).T ≤ hi := by
  set ws := q.const.mass_solute / q.const.mass with hws
  have hcp : q.const.cp_s * ws + q.const.cp_i * (1 - ws)
      ≤ q.const.cp_s * ws + q.const.cp_i * s.w + q.const.cp_w * (1 - ws - s.w) := by
    have : 0 ≤ (q.const.cp_w - q.const.cp_i) * (1 - ws - s.w) :=
      mul_nonneg (by linarith) (by linarith [hw.2])
    nlinarith
  have hlo : 0 < q.const.cp_s * ws + q.const.cp_i * (1 - ws) := by
    have : 0 < 1 - ws := by linarith
    positivity
  have hlat : 0 ≤ (q.const.Dh * q.const.k_f * q.const.mass_solute / q.const.M_s)
      * (1 / ((q.T_m - s.T) * (q.T_m - s.T))) :=
    mul_nonneg hL (by rw [one_div]; exact inv_nonneg.mpr (mul_self_nonneg _))
  have hXge : (q.const.cp_s * ws + q.const.cp_i * (1 - ws)) * (q.const.rho_l * q.const.V)
      ≤ (q.const.cp_s * ws + q.const.cp_i * s.w + q.const.cp_w * (1 - ws - s.w)) * q.const.rho_l * q.const.V
        + (q.const.Dh * q.const.k_f * q.const.mass_solute / q.const.M_s)
          * (1 / ((q.T_m - s.T) * (q.T_m - s.T))) := by
    have := mul_le_mul_of_nonneg_right hcp (le_of_lt hrV)
    nlinarith
  exact bounds0D_solid q i s Tsh lo hi _ rfl (lt_of_lt_of_le (mul_pos hlo hrV) hXge) hnum
    (le_trans hθ hXge) hT hS

/-- a ghost value `T + B·(S − T)` with Biot number `B ∈ [0,1]` lies between `T` and `S` -/
theorem ghost_bounds (T S B lo hi : ℝ) (hB : 0 ≤ B ∧ B ≤ 1)
    (hT : lo ≤ T ∧ T ≤ hi) (hS : lo ≤ S ∧ S ≤ hi) :
    lo ≤ T + B * (S - T) ∧ T + B * (S - T) ≤ hi :=
  relax_bounds T S B lo hi hB.1 hB.2 hT hS

/-- **`maxprinciple1D_cool`**: under `0 ≤ fo ≤ 1/2` every node of the 1D cooling update is a
convex combination of its two neighbours (ghost values at the ends) and itself. -/
theorem maxprinciple1D_cool (Nz : Nat) (hNz : 2 ≤ Nz) (fo Tb Tt lo hi : ℝ) (col : Nat → ℝ)
    (h0 : 0 ≤ fo) (h1 : fo ≤ 1 / 2)
    (hcol : ∀ i, i < Nz → lo ≤ col i ∧ col i ≤ hi)
    (hTb : lo ≤ Tb ∧ Tb ≤ hi) (hTt : lo ≤ Tt ∧ Tt ≤ hi) (i : Nat) (hi' : i < Nz) :
    lo ≤ col1D Nz fo Tb Tt col i ∧ col1D Nz fo Tb Tt col i ≤ hi := by
  have key : ∀ c u l : ℝ, (lo ≤ c ∧ c ≤ hi) → (lo ≤ u ∧ u ≤ hi) → (lo ≤ l ∧ l ≤ hi) →
      lo ≤ c + fo * (u - 2 * c + l) ∧ c + fo * (u - 2 * c + l) ≤ hi := by
    intro c u l hc hu hl
    have e : c + fo * (u - 2 * c + l) = (1 - 2 * fo) * c + fo * u + fo * l := by ring
    rw [e]
    have h2 : 0 ≤ 1 - 2 * fo := by linarith
    constructor <;> nlinarith [hc.1, hc.2, hu.1, hu.2, hl.1, hl.2]
  unfold col1D
  by_cases hz : i = 0
  · subst hz
    simp only [if_true]
    exact key _ _ _ (hcol 0 hi') (hcol 1 (by omega)) hTb
  · by_cases hl : i + 1 = Nz
    · simp only [hz, hl, if_false, if_true]
      exact key _ _ _ (hcol i hi') hTt (hcol (Nz - 2) (by omega))
    · simp only [hz, hl, if_false]
      exact key _ _ _ (hcol i hi') (hcol (i + 1) (by omega)) (hcol (i - 1) (by omega))

/-! ### 2D cooling stage -/

/-- a combination with non-negative weights adding up to 1 stays in the interval -/
theorem convex5 (w0 w1 w2 w3 w4 x0 x1 x2 x3 x4 lo hi : ℝ)
    (h0 : 0 ≤ w0) (h1 : 0 ≤ w1) (h2 : 0 ≤ w2) (h3 : 0 ≤ w3) (h4 : 0 ≤ w4)
    (hs : w0 + w1 + w2 + w3 + w4 = 1)
    (b0 : lo ≤ x0 ∧ x0 ≤ hi) (b1 : lo ≤ x1 ∧ x1 ≤ hi) (b2 : lo ≤ x2 ∧ x2 ≤ hi)
    (b3 : lo ≤ x3 ∧ x3 ≤ hi) (b4 : lo ≤ x4 ∧ x4 ≤ hi) :
    lo ≤ w0 * x0 + w1 * x1 + w2 * x2 + w3 * x3 + w4 * x4 ∧
      w0 * x0 + w1 * x1 + w2 * x2 + w3 * x3 + w4 * x4 ≤ hi := by
  constructor
  · have h : (w0 + w1 + w2 + w3 + w4) * lo = lo := by rw [hs, one_mul]
    have : lo = w0 * lo + w1 * lo + w2 * lo + w3 * lo + w4 * lo := by linarith [h]
    rw [this]
    have := mul_le_mul_of_nonneg_left b0.1 h0
    have := mul_le_mul_of_nonneg_left b1.1 h1
    have := mul_le_mul_of_nonneg_left b2.1 h2
    have := mul_le_mul_of_nonneg_left b3.1 h3
    have := mul_le_mul_of_nonneg_left b4.1 h4
    linarith
  · have h : (w0 + w1 + w2 + w3 + w4) * hi = hi := by rw [hs, one_mul]
    have : hi = w0 * hi + w1 * hi + w2 * hi + w3 * hi + w4 * hi := by linarith [h]
    rw [this]
    have := mul_le_mul_of_nonneg_left b0.2 h0
    have := mul_le_mul_of_nonneg_left b1.2 h1
    have := mul_le_mul_of_nonneg_left b2.2 h2
    have := mul_le_mul_of_nonneg_left b3.2 h3
    have := mul_le_mul_of_nonneg_left b4.2 h4
    linarith

/-- **`maxprinciple2D_cool`, one assignment** — what is proved precisely: for every node
`(i,j)` of the grid, the value the cooling-stage stencil assigns is a convex combination of
the five values it reads (the node, its radial and axial neighbours, ghost values at the
boundaries; on the axis the inner neighbour is the node itself), for ANY reader `T` — hence
also for the partially updated array of the in-place code.  Hypotheses: `a = alpha·dt ≥ 0`,
the CFL inequality `a·(2/dz² + 2/dr²) ≤ 1`, and `r_j ≥ dr/2` for `j ≥ 1` (this makes the
coefficient `a·(1/dr² − 1/(2 r_j dr))` of the inner neighbour non-negative). -/
theorem maxprinciple2D_node (Nz Nr : Nat) (a dz dr lo hi : ℝ) (r : Nat → ℝ)
    (T : Nat → Nat → ℝ) (Tb Tt Te : Nat → ℝ)
    (ha : 0 ≤ a) (hdz : 0 < dz) (hdr : 0 < dr)
    (hcfl : a * (2 / (dz * dz) + 2 / (dr * dr)) ≤ 1)
    (hr : ∀ j, 1 ≤ j → j < Nr → dr / 2 ≤ r j)
    (hT : ∀ i j, i < Nz → j < Nr → lo ≤ T i j ∧ T i j ≤ hi)
    (hTb : ∀ j, j < Nr → lo ≤ Tb j ∧ Tb j ≤ hi) (hTt : ∀ j, j < Nr → lo ≤ Tt j ∧ Tt j ≤ hi)
    (hTe : ∀ i, i < Nz → lo ≤ Te i ∧ Te i ≤ hi)
    (i j : Nat) (hi' : i < Nz) (hj : j < Nr) :
    lo ≤ coolNode Nz Nr a dz dr r T Tb Tt Te i j ∧ coolNode Nz Nr a dz dr r T Tb Tt Te i j ≤ hi := by
  have ho : lo ≤ outer Nr T Te i j ∧ outer Nr T Te i j ≤ hi := by
    unfold outer; split
    · exact hTe i hi'
    · exact hT i (j + 1) hi' (by omega)
  have hn : lo ≤ inner T i j ∧ inner T i j ≤ hi := by
    unfold inner; split
    · exact hT i 0 hi' (by omega)
    · exact hT i (j - 1) hi' (by omega)
  have hu : lo ≤ upper Nz T Tt i j ∧ upper Nz T Tt i j ≤ hi := by
    unfold upper; split
    · exact hTt j hj
    · exact hT (i + 1) j (by omega) hj
  have hl : lo ≤ lower T Tb i j ∧ lower T Tb i j ≤ hi := by
    unfold lower; split
    · exact hTb j hj
    · exact hT (i - 1) j (by omega) hj
  have hc := hT i j hi' hj
  have hA : 0 ≤ a / (dz * dz) := by positivity
  have hR : 0 ≤ a / (dr * dr) := by positivity
  have hsum : 2 * (a / (dz * dz)) + 2 * (a / (dr * dr)) ≤ 1 := by
    have : a * (2 / (dz * dz) + 2 / (dr * dr)) = 2 * (a / (dz * dz)) + 2 * (a / (dr * dr)) := by ring
    linarith
  unfold coolNode
  simp only [ofNat'_real, Nat.cast_ofNat, Nat.cast_one]
  generalize outer Nr T Te i j = o at ho ⊢
  generalize upper Nz T Tt i j = u at hu ⊢
  generalize lower T Tb i j = l at hl ⊢
  by_cases hj0 : j = 0
  · -- on the axis the inner neighbour is the node itself
    have hin : inner T i j = T i j := by subst hj0; simp [inner]
    simp only [hj0, if_true]
    rw [hj0] at hin hc
    rw [hin]
    generalize T i 0 = c at hc ⊢
    have e : c + a * (2 * (o - 2 * c + c) / (dr * dr) + (u - 2 * c + l) / (dz * dz))
        = (1 - 2 * (a / (dz * dz)) - 2 * (a / (dr * dr))) * c + (2 * (a / (dr * dr))) * o
          + 0 * c + (a / (dz * dz)) * u + (a / (dz * dz)) * l := by ring
    rw [e]
    exact convex5 _ _ _ _ _ _ _ _ _ _ lo hi (by linarith) (by linarith) (le_refl 0) hA hA (by ring)
      hc ho hc hu hl
  · have hrj : dr / 2 ≤ r j := hr j (by omega) hj
    have hrpos : 0 < r j := by linarith
    have hG : 0 ≤ a / (2 * r j * dr) := by positivity
    have hGR : a / (2 * r j * dr) ≤ a / (dr * dr) := by
      apply div_le_div_of_nonneg_left ha (by positivity)
      nlinarith
    simp only [hj0, if_false]
    generalize inner T i j = n at hn ⊢
    generalize T i j = c at hc ⊢
    have e : c + a * (1 / r j * (o - n) / (2 * dr) + (o - 2 * c + n) / (dr * dr) + (u - 2 * c + l) / (dz * dz))
        = (1 - 2 * (a / (dz * dz)) - 2 * (a / (dr * dr))) * c
          + (a / (dr * dr) + a / (2 * r j * dr)) * o + (a / (dr * dr) - a / (2 * r j * dr)) * n
          + (a / (dz * dz)) * u + (a / (dz * dz)) * l := by
      field_simp
      ring
    rw [e]
    exact convex5 _ _ _ _ _ _ _ _ _ _ lo hi (by linarith) (by linarith) (by linarith) hA hA (by ring)
      hc ho hn hu hl

/-- the ghost values of `coolStep` are relaxations towards the shelf temperature -/
theorem ghosts_bounded (c : Ctx ℝ) (Tsh lo hi : ℝ)
    (hb : 0 ≤ c.p.K_shelf * c.dz / c.k0 ∧ c.p.K_shelf * c.dz / c.k0 ≤ 1)
    (hw : 0 ≤ c.Kw * c.eSp / c.k0 ∧ c.Kw * c.eSp / c.k0 ≤ 1)
    (hS : lo ≤ Tsh ∧ Tsh ≤ hi) (t : ℝ) (ht : lo ≤ t ∧ t ≤ hi) :
    (lo ≤ t + (c.p.K_shelf * (Tsh - t)) * c.dz / c.k0 ∧ t + (c.p.K_shelf * (Tsh - t)) * c.dz / c.k0 ≤ hi) ∧
    (lo ≤ t + qJacket c Tsh t * c.eSp / c.k0 ∧ t + qJacket c Tsh t * c.eSp / c.k0 ≤ hi) := by
  constructor
  · have e : t + (c.p.K_shelf * (Tsh - t)) * c.dz / c.k0 = t + (c.p.K_shelf * c.dz / c.k0) * (Tsh - t) := by ring
    rw [e]; exact ghost_bounds t Tsh _ lo hi hb ht hS
  · unfold qJacket
    cases c.p.config
    · simp only [zero_real, zero_mul, zero_div, add_zero]; exact ht
    · simp only [zero_real, zero_mul, zero_div, add_zero]; exact ht
    · have e : t + (c.Kw * (Tsh - t)) * c.eSp / c.k0 = t + (c.Kw * c.eSp / c.k0) * (Tsh - t) := by ring
      simp only []
      rw [e]; exact ghost_bounds t Tsh _ lo hi hw ht hS

/-- hypotheses shared by the two sweep-level statements -/
structure SweepHyp (c : Ctx ℝ) (Tsh lo hi : ℝ) (qe : Nat → ℝ) (T : Array ℝ) : Prop where
  l2 : c.l2 = 2
  l1 : c.l1 = 1
  Nz2 : 2 ≤ c.Nz
  Nr2 : 2 ≤ c.Nr
  size : T.size = c.Nz * c.Nr
  stab : Stab c.a0 c.dz c.dr (c.p.K_shelf * c.dz / c.k0) (c.Kw * c.eSp / c.k0)
  /-- `r_j ≥ dr/2` for `j ≥ 1` (true for `r = linspace(0, R, Nr)`, `dr = R/Nr`: `r_ge_half_dr`) -/
  r_ok : ∀ j, 1 ≤ j → j < c.Nr → c.dr / 2 ≤ rd1 c.rA j
  shelf : lo ≤ Tsh ∧ Tsh ≤ hi
  field : ∀ i j, i < c.Nz → j < c.Nr → lo ≤ rd c.Nr T i j ∧ rd c.Nr T i j ≤ hi
  /-- the top ghost value stays in the interval (trivial for shelf / jacket where `qe = 0`;
  for VISF it is an assumption — the property excludes the lower bound there) -/
  top : ∀ j, j < c.Nr → lo ≤ rd c.Nr T (c.Nz - 1) j + qe j * c.dz / c.k0 ∧
        rd c.Nr T (c.Nz - 1) j + qe j * c.dz / c.k0 ≤ hi

/-- the node function used by `coolStep`, bounded for every bounded reader -/
theorem coolStep_node_bounded (c : Ctx ℝ) (Tsh lo hi : ℝ) (qe : Nat → ℝ) (T : Array ℝ)
    (H : SweepHyp c Tsh lo hi qe T) (R : Nat → Nat → ℝ)
    (hR : ∀ i j, i < c.Nz → j < c.Nr → lo ≤ R i j ∧ R i j ≤ hi) (i j : Nat) (hi' : i < c.Nz) (hj : j < c.Nr) :
    let TbA : Array ℝ := Array.ofFn (n := c.Nr) fun j =>
      rd c.Nr T 0 j.val + (c.p.K_shelf * (Tsh - rd c.Nr T 0 j.val)) * c.dz / c.k0
    let TtA : Array ℝ := Array.ofFn (n := c.Nr) fun j => rd c.Nr T (c.Nz - 1) j.val + qe j.val * c.dz / c.k0
    let TeA : Array ℝ := Array.ofFn (n := c.Nz) fun i =>
      rd c.Nr T i.val (c.Nr - 1) + qJacket c Tsh (rd c.Nr T i.val (c.Nr - 1)) * c.eSp / c.k0
    lo ≤ coolNode c.Nz c.Nr c.a0 c.dz c.dr (rd1 c.rA) R (rd1 TbA) (rd1 TtA) (rd1 TeA) i j c.l2 c.l1 ∧
      coolNode c.Nz c.Nr c.a0 c.dz c.dr (rd1 c.rA) R (rd1 TbA) (rd1 TtA) (rd1 TeA) i j c.l2 c.l1 ≤ hi := by
  intro TbA TtA TeA
  have h0z : 0 < c.Nz := by have := H.Nz2; omega
  have h0r : c.Nr - 1 < c.Nr := by have := H.Nr2; omega
  rw [H.l2, H.l1]
  have hnode := maxprinciple2D_node c.Nz c.Nr c.a0 c.dz c.dr lo hi (rd1 c.rA) R (rd1 TbA) (rd1 TtA) (rd1 TeA)
    H.stab.a_nonneg H.stab.dz_pos H.stab.dr_pos H.stab.cfl H.r_ok hR
    (by
      intro j hj
      rw [rd1_ofFn _ j hj]
      exact (ghosts_bounded c Tsh lo hi H.stab.bb H.stab.bw H.shelf _ (H.field 0 j h0z hj)).1)
    (by
      intro j hj
      rw [rd1_ofFn _ j hj]
      exact H.top j hj)
    (by
      intro i hii
      rw [rd1_ofFn _ i hii]
      exact (ghosts_bounded c Tsh lo hi H.stab.bb H.stab.bw H.shelf _ (H.field i (c.Nr - 1) hii h0r)).2)
    i j hi' hj
  simpa [coolNode, ofNat'_real] using hnode

/-- **`maxprinciple2D_cool`, repaired code**: after one cooling step every node lies in the
interval spanned by the old field, the shelf temperature and the top ghost values. -/
theorem maxprinciple2D_cool (c : Ctx ℝ) (Tsh lo hi : ℝ) (qe : Nat → ℝ) (T : Array ℝ)
    (H : SweepHyp c Tsh lo hi qe T) (i j : Nat) (hi' : i < c.Nz) (hj : j < c.Nr) :
    lo ≤ rd c.Nr (coolStep c false Tsh qe T) i j ∧ rd c.Nr (coolStep c false Tsh qe T) i j ≤ hi := by
  unfold coolStep
  rw [rd_sweep_false c.Nz c.Nr _ T hi' hj]
  exact coolStep_node_bounded c Tsh lo hi qe T H (rd c.Nr T) H.field i j hi' hj

/-! ### the in-place (current) update keeps the bound as well -/

/-- every entry of a flat field lies in `[lo, hi]` -/
def Bdd (lo hi : ℝ) (A : Array ℝ) : Prop := ∀ x (h : x < A.size), lo ≤ A[x] ∧ A[x] ≤ hi

theorem Bdd.at {lo hi : ℝ} {A : Array ℝ} {Nz Nr : Nat} (hB : Bdd lo hi A) (hs : A.size = Nz * Nr)
    {i j : Nat} (hi' : i < Nz) (hj : j < Nr) : lo ≤ S2D.rd Nr A i j ∧ S2D.rd Nr A i j ≤ hi := by
  have h : i * Nr + j < A.size := by rw [hs]; exact idx_lt hi' hj
  have e : S2D.rd Nr A i j = A[i * Nr + j] := by simp [S2D.rd, Array.getD, h]
  rw [e]; exact hB _ h

theorem Bdd.set {lo hi : ℝ} {A : Array ℝ} (hB : Bdd lo hi A) (x : Nat) (v : ℝ)
    (hv : lo ≤ v ∧ v ≤ hi) : Bdd lo hi (A.setIfInBounds x v) := by
  intro y hy
  have hy' : y < A.size := by simpa using hy
  rw [Array.getElem_setIfInBounds hy']
  split
  · exact hv
  · exact hB y hy'

theorem zip_map_self {β γ : Type} (f : β → γ) (l : List β) :
    l.zip (l.map f) = l.map (fun x => (x, f x)) := by
  induction l with
  | nil => rfl
  | cons a t ih => simp [ih]

theorem foldl_set_bdd {lo hi : ℝ} (Nr : Nat) (l : List ((Nat × Nat) × ℝ)) :
    ∀ (A : Array ℝ), Bdd lo hi A → (∀ e ∈ l, lo ≤ e.2 ∧ e.2 ≤ hi) →
      Bdd lo hi (l.foldl (fun A' e => A'.setIfInBounds (e.1.1 * Nr + e.1.2) e.2) A) ∧
      (l.foldl (fun A' e => A'.setIfInBounds (e.1.1 * Nr + e.1.2) e.2) A).size = A.size := by
  induction l with
  | nil => intro A hB _; exact ⟨hB, rfl⟩
  | cons e t ih =>
    intro A hB hv
    have h1 := hB.set (e.1.1 * Nr + e.1.2) e.2 (hv e (by simp))
    have := ih (A.setIfInBounds (e.1.1 * Nr + e.1.2) e.2) h1 (fun e' he' => hv e' (by simp [he']))
    simpa using this

theorem writeRegion_bdd {lo hi : ℝ} (Nr : Nat) (node : (Nat → Nat → ℝ) → Nat → Nat → ℝ)
    (A : Array ℝ) (reg : List (Nat × Nat)) (hB : Bdd lo hi A)
    (hv : ∀ ij ∈ reg, lo ≤ node (S2D.rd Nr A) ij.1 ij.2 ∧ node (S2D.rd Nr A) ij.1 ij.2 ≤ hi) :
    Bdd lo hi (writeRegion Nr node A reg) ∧ (writeRegion Nr node A reg).size = A.size := by
  simp only [writeRegion, zip_map_self]
  apply foldl_set_bdd Nr _ A hB
  intro e he
  obtain ⟨ij, hij, rfl⟩ := List.mem_map.mp he
  exact hv ij hij

theorem mem_mid {n k : Nat} : k ∈ mid n ↔ 1 ≤ k ∧ k + 1 < n := by
  simp only [mid, List.mem_map, List.mem_range]
  constructor
  · rintro ⟨a, ha, rfl⟩; omega
  · intro h; exact ⟨k - 1, by omega, by omega⟩

/-- the nine regions only contain grid nodes -/
theorem regions_range {Nz Nr : Nat} (hNz : 2 ≤ Nz) (hNr : 2 ≤ Nr) {reg : List (Nat × Nat)}
    (hreg : reg ∈ regions Nz Nr) {ij : Nat × Nat} (hij : ij ∈ reg) : ij.1 < Nz ∧ ij.2 < Nr := by
  simp only [regions, List.mem_cons, List.not_mem_nil, or_false] at hreg
  rcases hreg with rfl | rfl | rfl | rfl | rfl | rfl | rfl | rfl | rfl
  · simp only [List.mem_singleton] at hij; subst hij; simp; omega
  · simp only [List.mem_singleton] at hij; subst hij; simp; omega
  · obtain ⟨j, hj, rfl⟩ := List.mem_map.mp hij; have := mem_mid.mp hj; simp; omega
  · simp only [List.mem_singleton] at hij; subst hij; simp; omega
  · simp only [List.mem_singleton] at hij; subst hij; simp; omega
  · obtain ⟨j, hj, rfl⟩ := List.mem_map.mp hij; have := mem_mid.mp hj; simp; omega
  · obtain ⟨i, hi, rfl⟩ := List.mem_map.mp hij; have := mem_mid.mp hi; simp; omega
  · obtain ⟨i, hi, rfl⟩ := List.mem_map.mp hij; have := mem_mid.mp hi; simp; omega
  · obtain ⟨i, hi, hin⟩ := List.mem_flatMap.mp hij
    obtain ⟨j, hj, rfl⟩ := List.mem_map.mp hin
    have := mem_mid.mp hi; have := mem_mid.mp hj; simp; omega

/-- a sweep in the order of the code, every region reading the array as it is at that
moment, keeps a flat field inside `[lo, hi]` if the node function maps bounded readers to
bounded values at grid nodes -/
theorem sweep_inplace_bdd {lo hi : ℝ} (Nz Nr : Nat) (hNz : 2 ≤ Nz) (hNr : 2 ≤ Nr)
    (node : (Nat → Nat → ℝ) → Nat → Nat → ℝ)
    (hnode : ∀ R : Nat → Nat → ℝ, (∀ i j, i < Nz → j < Nr → lo ≤ R i j ∧ R i j ≤ hi) →
      ∀ i j, i < Nz → j < Nr → lo ≤ node R i j ∧ node R i j ≤ hi)
    (T : Array ℝ) (hs : T.size = Nz * Nr) (hB : Bdd lo hi T) :
    Bdd lo hi (sweep Nz Nr true node T) ∧ (sweep Nz Nr true node T).size = Nz * Nr := by
  unfold sweep
  simp only [if_true]
  have key : ∀ (rs : List (List (Nat × Nat))), (∀ reg ∈ rs, reg ∈ regions Nz Nr) →
      ∀ A : Array ℝ, A.size = Nz * Nr → Bdd lo hi A →
        Bdd lo hi (rs.foldl (writeRegion Nr node) A) ∧ (rs.foldl (writeRegion Nr node) A).size = Nz * Nr := by
    intro rs
    induction rs with
    | nil => intro _ A hsA hBA; exact ⟨hBA, hsA⟩
    | cons reg t ih =>
      intro hmem A hsA hBA
      have hreg : reg ∈ regions Nz Nr := hmem reg (by simp)
      have hw := writeRegion_bdd Nr node A reg hBA (by
        intro ij hij
        have hr := regions_range hNz hNr hreg hij
        exact hnode (S2D.rd Nr A) (fun i j hi' hj => hBA.at hsA hi' hj) ij.1 ij.2 hr.1 hr.2)
      simp only [List.foldl_cons]
      exact ih (fun r hr => hmem r (by simp [hr])) _ (by rw [hw.2, hsA]) hw.1
  exact key (regions Nz Nr) (fun _ h => h) T hs hB

/-- **`maxprinciple2D_cool`, current (in-place, aliased) code — partial statement**: the bound
survives although every region reads partly updated neighbours, because each assignment is a
convex combination of the values the array holds at that moment and of ghost values computed
from the old field.  (What is NOT claimed for the current code: consistency of the scheme.) -/
theorem maxprinciple2D_cool_inplace (c : Ctx ℝ) (Tsh lo hi : ℝ) (qe : Nat → ℝ) (T : Array ℝ)
    (H : SweepHyp c Tsh lo hi qe T) (hB : Bdd lo hi T) (i j : Nat) (hi' : i < c.Nz) (hj : j < c.Nr) :
    lo ≤ rd c.Nr (coolStep c true Tsh qe T) i j ∧ rd c.Nr (coolStep c true Tsh qe T) i j ≤ hi := by
  unfold coolStep
  have h := sweep_inplace_bdd (lo := lo) (hi := hi) c.Nz c.Nr H.Nz2 H.Nr2 _
    (fun R hR i j hi' hj => coolStep_node_bounded c Tsh lo hi qe T H R hR i j hi' hj) T H.size hB
  exact h.1.at h.2 hi' hj

/-! ### run-level bounds of the cooling stage (induction over the loops) -/

/-- **`bounds0D_run`** — homogeneous model, whole cooling loop: if the initial temperature and
every shelf temperature applied up to step `K` lie in `[lo, hi]`, so does the product temperature
after every step `k ≤ K`. -/
theorem bounds0D_run (q : SnowIn ℝ) (shelf : List ℝ) (lo hi : ℝ) (K : Nat)
    (hden : 0 < q.const.cp_solution * q.const.mass) (hnum : 0 ≤ q.const.A * q.Kshelf)
    (hθ : (1 / 10 : ℝ) * (q.const.A * q.Kshelf) ≤ q.const.cp_solution * q.const.mass)
    (h0 : lo ≤ q.T_0 ∧ q.T_0 ≤ hi)
    (hsh : ∀ j (hj : j < shelf.length), j ≤ K → lo ≤ shelf[j] ∧ shelf[j] ≤ hi)
    (k : Nat) (hk : k < shelf.length) (hkK : k ≤ K) :
    lo ≤ (stateAt (coolStep0D q) shelf (coolInit0D q) k).T ∧
      (stateAt (coolStep0D q) shelf (coolInit0D q) k).T ≤ hi := by
  have h := stateAt_inv (coolStep0D q) (fun i s => i ≤ K + 1 → lo ≤ s.T ∧ s.T ≤ hi) shelf (coolInit0D q)
    (fun _ => by simpa [coolInit0D] using h0)
    (fun j hj s hs hle =>
      bounds0D_cool q j s (shelf[j]) lo hi hden hnum hθ (hs (by omega)) (hsh j hj (by omega)))
    k hk
  exact h (by omega)

/-- the same with the quantities of the property: for a shelf programme that has not risen and
starts no warmer than the product (`C05.profile_antitone`, `profile_head`), the product stays
between the coldest shelf temperature applied so far and its initial temperature -/
theorem bounds0D_run_coldest (q : SnowIn ℝ) (shelf : List ℝ) (K : Nat) (hK : K < shelf.length)
    (hden : 0 < q.const.cp_solution * q.const.mass) (hnum : 0 ≤ q.const.A * q.Kshelf)
    (hθ : (1 / 10 : ℝ) * (q.const.A * q.Kshelf) ≤ q.const.cp_solution * q.const.mass)
    (hanti : ∀ j (hj : j < shelf.length), j ≤ K → shelf[K] ≤ shelf[j])
    (htop : ∀ j (hj : j < shelf.length), j ≤ K → shelf[j] ≤ q.T_0) :
    shelf[K] ≤ (stateAt (coolStep0D q) shelf (coolInit0D q) K).T ∧
      (stateAt (coolStep0D q) shelf (coolInit0D q) K).T ≤ q.T_0 :=
  bounds0D_run q shelf (shelf[K]) q.T_0 K hden hnum hθ
    ⟨le_trans (hanti 0 (by omega) (by omega)) (htop 0 (by omega) (by omega)), le_refl _⟩
    (fun j hj hjK => ⟨hanti j hj hjK, htop j hj hjK⟩) K hK (le_refl _)

/-- flat interval bound for 1D fields -/
def Bdd1 (lo hi : ℝ) (T : Array ℝ) : Prop := ∀ j, j < T.size → lo ≤ aget T j ∧ aget T j ≤ hi

/-- one cooling step of the 1D model keeps the field inside `[lo, hi]` (shelf configuration:
`p.visf = none`), `0 ≤ fo ≤ 1/2`, Biot number `K_shelf·dz/λ ∈ [0,1]` -/
theorem coolField1D_bdd (p : SnowIn ℝ) (g : Grid1D ℝ) (hv : p.visf = none) (i : Nat) (T : Array ℝ) (Tsh lo hi : ℝ)
    (hsz : T.size = g.Nz) (hNz : 2 ≤ g.Nz) (hfo : 0 ≤ g.fo ∧ g.fo ≤ 1 / 2)
    (hbi : 0 ≤ p.Kshelf * g.dz / g.lam0 ∧ p.Kshelf * g.dz / g.lam0 ≤ 1)
    (hB : Bdd1 lo hi T) (hS : lo ≤ Tsh ∧ Tsh ≤ hi) :
    Bdd1 lo hi (coolField1D p g i T Tsh) ∧ (coolField1D p g i T Tsh).size = g.Nz := by
  have hsize : (coolField1D p g i T Tsh).size = g.Nz := by
    unfold coolField1D; rw [coolStencil_size]; exact hsz
  refine ⟨?_, hsize⟩
  intro j hj
  rw [hsize] at hj
  have hjT : j < T.size := by omega
  rw [coolField1D_get p g i T Tsh (by omega) j hjT, qEvap_none p _ _ _ hv, hsz]
  have h0 := hB 0 (by omega)
  have hN := hB (g.Nz - 1) (by omega)
  apply maxprinciple1D_cool g.Nz hNz g.fo _ _ lo hi (aget T) hfo.1 hfo.2
    (fun k hk => hB k (by omega)) _ _ j hj
  · have e : aget T 0 + p.Kshelf * (Tsh - aget T 0) * g.dz / g.lam0
        = aget T 0 + (p.Kshelf * g.dz / g.lam0) * (Tsh - aget T 0) := by ring
    rw [e]; exact ghost_bounds _ _ _ lo hi hbi h0 hS
  · simpa using hN

/-- **`maxprinciple1D_cool_run`** — 1D model, shelf configuration, whole cooling loop: if the initial
temperature and all shelf temperatures applied up to step `K` lie in `[lo, hi]`, every node of the
field does after every cooling step `k ≤ K`. -/
theorem maxprinciple1D_cool_run (p : SnowIn ℝ) (g : Grid1D ℝ) (stride : Nat) (hv : p.visf = none)
    (hNz : 2 ≤ g.Nz) (hfo : 0 ≤ g.fo ∧ g.fo ≤ 1 / 2)
    (hbi : 0 ≤ p.Kshelf * g.dz / g.lam0 ∧ p.Kshelf * g.dz / g.lam0 ≤ 1)
    (shelf : List ℝ) (lo hi : ℝ) (K : Nat) (h0 : lo ≤ p.T_0 ∧ p.T_0 ≤ hi)
    (hsh : ∀ j (hj : j < shelf.length), j ≤ K → lo ≤ shelf[j] ∧ shelf[j] ≤ hi)
    (k : Nat) (hk : k < shelf.length) (hkK : k ≤ K) :
    Bdd1 lo hi (stateAt (coolStep1D p g stride) shelf (coolInit1D p g) k).T := by
  have h := stateAt_inv (coolStep1D p g stride)
    (fun i s => i ≤ K + 1 → Bdd1 lo hi s.T ∧ s.T.size = g.Nz) shelf (coolInit1D p g)
    (fun _ => by
      constructor
      · intro j hj
        have hj' : j < g.Nz := by simpa [coolInit1D] using hj
        simp only [coolInit1D, Snow.aget_replicate _ _ j hj', zero_real, zero_add]
        exact h0
      · simp [coolInit1D])
    (fun j hj s hs hle => by
      have hsj := hs (by omega)
      have := coolField1D_bdd p g hv j s.T (shelf[j]) lo hi hsj.2 hNz hfo hbi hsj.1 (hsh j hj (by omega))
      simpa [coolStep1D] using this)
    k hk
  exact (h (by omega)).1

/-- **published rows, 1D cooling stage**: every row saved so far lies in `[lo, hi]` (°C) -/
theorem maxprinciple1D_cool_rows (p : SnowIn ℝ) (g : Grid1D ℝ) (stride : Nat) (hv : p.visf = none)
    (hNz : 2 ≤ g.Nz) (hfo : 0 ≤ g.fo ∧ g.fo ≤ 1 / 2)
    (hbi : 0 ≤ p.Kshelf * g.dz / g.lam0 ∧ p.Kshelf * g.dz / g.lam0 ≤ 1)
    (shelf : List ℝ) (lo hi : ℝ) (K : Nat) (h0 : lo ≤ p.T_0 ∧ p.T_0 ≤ hi)
    (hsh : ∀ j (hj : j < shelf.length), j ≤ K → lo ≤ shelf[j] ∧ shelf[j] ≤ hi)
    (k : Nat) (hk : k < shelf.length) (hkK : k ≤ K) :
    ∀ r ∈ (stateAt (coolStep1D p g stride) shelf (coolInit1D p g) k).buf.toList,
      Bdd1 (lo - lit 27315 2) (hi - lit 27315 2) r.temp := by
  have h := stateAt_inv (coolStep1D p g stride)
    (fun i s => i ≤ K + 1 → (Bdd1 lo hi s.T ∧ s.T.size = g.Nz) ∧
      ∀ r ∈ s.buf.toList, Bdd1 (lo - lit 27315 2) (hi - lit 27315 2) r.temp) shelf (coolInit1D p g)
    (fun _ => by
      refine ⟨⟨?_, by simp [coolInit1D]⟩, by simp [coolInit1D]⟩
      intro j hj
      have hj' : j < g.Nz := by simpa [coolInit1D] using hj
      simp only [coolInit1D, Snow.aget_replicate _ _ j hj', zero_real, zero_add]
      exact h0)
    (fun j hj s hs hle => by
      have hsj := hs (by omega)
      have hb := coolField1D_bdd p g hv j s.T (shelf[j]) lo hi hsj.1.2 hNz hfo hbi hsj.1.1 (hsh j hj (by omega))
      refine ⟨by simpa [coolStep1D] using hb, ?_⟩
      intro r hr
      simp only [coolStep1D] at hr
      split at hr
      · unfold saveRow at hr
        simp only [] at hr
        split at hr
        · simp only [Array.toList_push, List.mem_append, List.mem_singleton] at hr
          rcases hr with hr | rfl
          · exact hsj.2 r hr
          · intro y hy
            have hy' : y < (coolField1D p g j s.T shelf[j]).size := by simpa using hy
            rw [Snow.aget_map _ _ y hy']
            have := hb.1 y hy'
            constructor <;> linarith [this.1, this.2]
        · exact hsj.2 r hr
      · exact hsj.2 r hr)
    k hk
  exact (h (by omega)).2

/-- **`maxprinciple1D_published`** — what a completed 1D shelf run REPORTS: every temperature row of
the published histories with index `< iSaveEnd` (cooling stage) lies in `[lo, hi]` (°C), where
`[lo, hi]` contains `T_0` and the shelf temperatures applied up to the nucleation step. -/
theorem maxprinciple1D_published (p : SnowIn ℝ) (Nz : Nat) (old : Bool) (shelf : List ℝ) (hv : p.visf = none)
    (hNz : 2 ≤ (grid1D p Nz).Nz) (hfo : 0 ≤ (grid1D p Nz).fo ∧ (grid1D p Nz).fo ≤ 1 / 2)
    (hbi : 0 ≤ p.Kshelf * (grid1D p Nz).dz / (grid1D p Nz).lam0
        ∧ p.Kshelf * (grid1D p Nz).dz / (grid1D p Nz).lam0 ≤ 1)
    (h : Array (Row ℝ)) (hh : (run1DOn p Nz old shelf).hist = some h) (iEnd : Nat)
    (hiE : (run1DOn p Nz old shelf).NtCoolEnd = some iEnd) (lo hi : ℝ) (h0 : lo ≤ p.T_0 ∧ p.T_0 ≤ hi)
    (hsh : ∀ j (hj : j < shelf.length), j ≤ iEnd → lo ≤ shelf[j] ∧ shelf[j] ≤ hi)
    (k : Nat) (hk : k < (run1DOn p Nz old shelf).iSaveEnd) :
    ∃ row, h[k]? = some row ∧ Bdd1 (lo - lit 27315 2) (hi - lit 27315 2) row.temp := by
  revert hh hk hiE
  unfold run1DOn
  dsimp only
  rcases hc : cool1D p (grid1D p Nz) old shelf with ⟨_ | iE, s⟩
  · intro hh; simp at hh
  · have hfirst := (loopUntil_first _ _ _ _ iE s).mp hc
    dsimp only
    by_cases hfit : s.buf.size < NSave
    · rw [RunBounds.saveRow_fits' _ _ _ _ hfit]
      dsimp only
      split
      · intro hh; simp at hh
      · split
        · intro hh; simp at hh
        · split
          · intro hh; simp at hh
          · intro hh hiE hk
            simp only [Option.some.injEq] at hh hiE
            subst hh; subst hiE
            have hrows := maxprinciple1D_cool_rows p (grid1D p Nz) (saveStride (grid1D p Nz).NtExp) hv hNz hfo hbi
              shelf lo hi iE h0 hsh iE hfirst.1 (le_refl _)
            rw [← hfirst.2.1] at hrows
            have hlt : k < s.buf.size := hk
            refine ⟨s.buf[k], ?_, hrows s.buf[k] (by simp)⟩
            rw [Array.getElem?_append_left (by simp; omega), Array.getElem?_push_lt hlt]
    · rw [RunBounds.saveRow_full' _ _ _ _ hfit]
      intro hh; simp at hh

/-- **`cfl_from_code_1D` for the model's grid**: `grid1D.fo = 0.4·α/α_max`, so `0 ≤ fo ≤ 1/2`
whenever `0 ≤ α ≤ 1.25·α_max` -/
theorem grid1D_fo_le_half (p : SnowIn ℝ) (Nz : Nat)
    (hdz : (grid1D p Nz).dz ≠ 0)
    (hmax : 0 < p.const.lambda_i / (p.const.cp_i * p.const.rho_l))
    (hα0 : 0 ≤ (grid1D p Nz).lam0 / (p.const.cp_solution * p.const.rho_l))
    (hα : (grid1D p Nz).lam0 / (p.const.cp_solution * p.const.rho_l)
        ≤ (5 / 4) * (p.const.lambda_i / (p.const.cp_i * p.const.rho_l))) :
    0 ≤ (grid1D p Nz).fo ∧ (grid1D p Nz).fo ≤ 1 / 2 := by
  have e : (grid1D p Nz).fo = (4 / 10) * ((grid1D p Nz).lam0 / (p.const.cp_solution * p.const.rho_l))
      / (p.const.lambda_i / (p.const.cp_i * p.const.rho_l)) := by
    have hd : (grid1D p Nz).dz * (grid1D p Nz).dz ≠ 0 := mul_ne_zero hdz hdz
    have hm := ne_of_gt hmax
    have hdt : (grid1D p Nz).dt = (4 / 10) * ((grid1D p Nz).dz * (grid1D p Nz).dz)
        / (p.const.lambda_i / (p.const.cp_i * p.const.rho_l)) := by
      show lit 4 1 * _ / _ = _
      rw [lit_real]; norm_num
      simp [grid1D]
    rw [grid1D_fo, hdt]
    generalize (grid1D p Nz).dz * (grid1D p Nz).dz = D at hd ⊢
    generalize (grid1D p Nz).lam0 / (p.const.cp_solution * p.const.rho_l) = al
    generalize p.const.lambda_i / (p.const.cp_i * p.const.rho_l) = M at hm ⊢
    field_simp
  rw [e]
  constructor
  · positivity
  · rw [div_le_iff₀ hmax]; linarith

/-- the state-independent part of the hypotheses of the 2D sweep theorems -/
structure StabCtx (c : Ctx ℝ) : Prop where
  l2 : c.l2 = 2
  l1 : c.l1 = 1
  Nz2 : 2 ≤ c.Nz
  Nr2 : 2 ≤ c.Nr
  stab : Stab c.a0 c.dz c.dr (c.p.K_shelf * c.dz / c.k0) (c.Kw * c.eSp / c.k0)
  r_ok : ∀ j, 1 ≤ j → j < c.Nr → c.dr / 2 ≤ rd1 c.rA j

/-- no evaporation unless the configuration is VISF -/
theorem qEvap_zero_of_not_visf (c : Ctx ℝ) (solid : Bool) (time : ℝ) (T : Array ℝ) (j : Nat)
    (h : c.p.config ≠ Config.visf) : S2D.qEvap c solid time T j = 0 := by
  unfold S2D.qEvap
  cases hc : c.p.config <;> simp_all

/-- one cooling step of the 2D model (aliased or repaired) keeps a flat field inside `[lo, hi]`,
shelf / jacket configurations -/
theorem coolStep_bdd (c : Ctx ℝ) (H : StabCtx c) (hcfg : c.p.config ≠ Config.visf) (inpl : Bool)
    (Tsh time lo hi : ℝ) (T : Array ℝ) (hs : T.size = c.Nz * c.Nr) (hB : Bdd lo hi T)
    (hS : lo ≤ Tsh ∧ Tsh ≤ hi) :
    Bdd lo hi (coolStep c inpl Tsh (S2D.qEvap c false time T) T) ∧
      (coolStep c inpl Tsh (S2D.qEvap c false time T) T).size = c.Nz * c.Nr := by
  have HS : SweepHyp c Tsh lo hi (S2D.qEvap c false time T) T :=
    { l2 := H.l2, l1 := H.l1, Nz2 := H.Nz2, Nr2 := H.Nr2, size := hs, stab := H.stab, r_ok := H.r_ok,
      shelf := hS, field := fun i j hi' hj => hB.at hs hi' hj,
      top := by
        intro j hj
        rw [qEvap_zero_of_not_visf c false time T j hcfg]
        have hN : c.Nz - 1 < c.Nz := by have := H.Nz2; omega
        simpa using hB.at hs hN hj }
  cases inpl with
  | true =>
    unfold coolStep
    exact sweep_inplace_bdd c.Nz c.Nr H.Nz2 H.Nr2 _
      (fun R hR i j hi' hj => coolStep_node_bounded c Tsh lo hi _ T HS R hR i j hi' hj) T hs hB
  | false =>
    have hsz : (coolStep c false Tsh (S2D.qEvap c false time T) T).size = c.Nz * c.Nr := by
      simp [coolStep, sweep]
    refine ⟨?_, hsz⟩
    intro x hx
    rw [hsz] at hx
    have hNr : 0 < c.Nr := by have := H.Nr2; omega
    have hi' : x / c.Nr < c.Nz := by
      rw [Nat.div_lt_iff_lt_mul hNr]; exact hx
    have hj : x % c.Nr < c.Nr := Nat.mod_lt _ hNr
    have hb := maxprinciple2D_cool c Tsh lo hi _ T HS (x / c.Nr) (x % c.Nr) hi' hj
    have hidx : x / c.Nr * c.Nr + x % c.Nr = x := by
      rw [Nat.mul_comm]; exact Nat.div_add_mod x c.Nr
    have e : rd c.Nr (coolStep c false Tsh (S2D.qEvap c false time T) T) (x / c.Nr) (x % c.Nr)
        = (coolStep c false Tsh (S2D.qEvap c false time T) T)[x]'(by rw [hsz]; exact hx) := by
      simp [rd, Array.getD, hidx, hsz, hx]
    rw [e] at hb
    exact hb

/-- **`maxprinciple2D_cool_run`** — 2D model, shelf or jacket (no VISF), whole cooling loop,
for the repaired AND for the in-place update: if the initial temperature and every shelf
temperature applied up to step `K` lie in `[lo, hi]`, then after every cooling step `k ≤ K` every
node of the field lies in `[lo, hi]`.  (Stability hypotheses `StabCtx`: CFL number, the two Biot
numbers, `r_j ≥ dr/2`.) -/
theorem maxprinciple2D_cool_run (p : Par ℝ) (f : Flags) (H : StabCtx (mkCtx p f))
    (hcfg : p.config ≠ Config.visf) (T0C : ℝ) (prof : List ℝ) (NtExp : Nat) (lo hi : ℝ) (K : Nat)
    (h0 : lo ≤ T0C + kelvin ∧ T0C + kelvin ≤ hi)
    (hsh : ∀ j (hj : j < prof.length), j ≤ K → lo ≤ prof[j] + kelvin ∧ prof[j] + kelvin ≤ hi)
    (k : Nat) (hk : k < prof.length) (hkK : k ≤ K) :
    Bdd lo hi (st2D p f T0C prof NtExp k).T ∧ (st2D p f T0C prof NtExp k).T.size = p.Nz * p.Nr := by
  unfold st2D
  have hlen : (shelfK prof).length = prof.length := by simp [shelfK]
  have h := stateAt_inv (coolStep2D p f NtExp)
    (fun i s => i ≤ K + 1 → Bdd lo hi s.T ∧ s.T.size = p.Nz * p.Nr) (shelfK prof) (coolInit2D (mkCtx p f) T0C)
    (fun _ => by
      constructor
      · intro x hx
        simp only [coolInit2D, Array.getElem_replicate, zero_real, zero_add]
        exact h0
      · simp [coolInit2D, mkCtx])
    (fun j hj s hs hle => by
      have hjp : j < prof.length := by rw [← hlen]; exact hj
      have hsj := hs (by omega)
      have hx : (shelfK prof)[j] = prof[j] + kelvin := by simp [shelfK]
      have := coolStep_bdd (mkCtx p f) H hcfg (mkCtx p f).f.inplace ((shelfK prof)[j])
        ((mkCtx p f).dt * ofNat' j) lo hi s.T hsj.2 hsj.1 (by rw [hx]; exact hsh j hjp (by omega))
      have e : (mkCtx p f).Nz * (mkCtx p f).Nr = p.Nz * p.Nr := rfl
      rw [e] at this
      simpa [coolStep2D, coolStepSt] using this)
    k (by rw [hlen]; exact hk)
  exact h (by omega)

/-- **published rows, 2D cooling stage**: in addition to the field, every row saved so far lies in
`[lo, hi]` (shifted to °C) -/
theorem maxprinciple2D_cool_rows (p : Par ℝ) (f : Flags) (H : StabCtx (mkCtx p f))
    (hcfg : p.config ≠ Config.visf) (T0C : ℝ) (prof : List ℝ) (NtExp : Nat) (lo hi : ℝ) (K : Nat)
    (h0 : lo ≤ T0C + kelvin ∧ T0C + kelvin ≤ hi)
    (hsh : ∀ j (hj : j < prof.length), j ≤ K → lo ≤ prof[j] + kelvin ∧ prof[j] + kelvin ≤ hi)
    (k : Nat) (hk : k < prof.length) (hkK : k ≤ K) :
    ∀ r ∈ (st2D p f T0C prof NtExp k).rows.toList, Bdd (lo - kelvin) (hi - kelvin) r.temp := by
  unfold st2D
  have hlen : (shelfK prof).length = prof.length := by simp [shelfK]
  have h := stateAt_inv (coolStep2D p f NtExp)
    (fun i s => i ≤ K + 1 → (Bdd lo hi s.T ∧ s.T.size = p.Nz * p.Nr) ∧
      ∀ r ∈ s.rows.toList, Bdd (lo - kelvin) (hi - kelvin) r.temp) (shelfK prof) (coolInit2D (mkCtx p f) T0C)
    (fun _ => by
      refine ⟨⟨?_, by simp [coolInit2D, mkCtx]⟩, by simp [coolInit2D]⟩
      intro x hx
      simp only [coolInit2D, Array.getElem_replicate, zero_real, zero_add]
      exact h0)
    (fun j hj s hs hle => by
      have hjp : j < prof.length := by rw [← hlen]; exact hj
      have hsj := hs (by omega)
      have hx : (shelfK prof)[j] = prof[j] + kelvin := by simp [shelfK]
      have hb := coolStep_bdd (mkCtx p f) H hcfg (mkCtx p f).f.inplace ((shelfK prof)[j])
        ((mkCtx p f).dt * ofNat' j) lo hi s.T hsj.1.2 hsj.1.1 (by rw [hx]; exact hsh j hjp (by omega))
      have e : (mkCtx p f).Nz * (mkCtx p f).Nr = p.Nz * p.Nr := rfl
      rw [e] at hb
      refine ⟨by simpa [coolStep2D, coolStepSt] using hb, ?_⟩
      intro r hr
      simp only [coolStep2D, coolStepSt] at hr
      split at hr
      · simp only [Array.toList_push, List.mem_append, List.mem_singleton] at hr
        rcases hr with hr | rfl
        · exact hsj.2 r hr
        · intro y hy
          have hy' : y < (coolStep (mkCtx p f) (mkCtx p f).f.inplace (shelfK prof)[j]
              (S2D.qEvap (mkCtx p f) false ((mkCtx p f).dt * ofNat' j) s.T) s.T).size := by simpa using hy
          have := hb.1 y hy'
          simp only [Array.getElem_map]
          constructor <;> linarith [this.1, this.2]
      · exact hsj.2 r hr)
    k (by rw [hlen]; exact hk)
  exact (h (by omega)).2

/-- **`maxprinciple2D_published`** — the bound on what a completed 2D shelf/jacket run REPORTS:
every temperature row with index `< iSaveEnd` (the rows of the cooling stage) lies in
`[lo, hi]` (°C), where `[lo, hi]` contains `T_0` and the shelf temperatures applied up to the
nucleation step `iCool`.  With a programme that has not risen and starts at `T_0`
(`C05.profile_antitone`, `profile_head`) take `lo` = the shelf temperature of step `iCool`
(the coldest applied so far), `hi = T_0`: see `maxprinciple2D_published_coldest`. -/
theorem maxprinciple2D_published (p : Par ℝ) (f : Flags) (H : StabCtx (mkCtx p f))
    (hcfg : p.config ≠ Config.visf) (T0C : ℝ) (prof : List ℝ) (NtExp : Nat) (Frand : ℝ) (cn : Option ℝ)
    (r : Result ℝ) (hr : run p f T0C prof NtExp Frand cn = .ok r) (lo hi : ℝ)
    (h0 : lo ≤ T0C + kelvin ∧ T0C + kelvin ≤ hi)
    (hsh : ∀ j (hj : j < prof.length), j ≤ r.iCool → lo ≤ prof[j] + kelvin ∧ prof[j] + kelvin ≤ hi)
    (k : Nat) (hk : k < r.iSaveEnd) :
    ∃ row, r.temp[k]? = some row ∧ Bdd (lo - kelvin) (hi - kelvin) row := by
  rw [run_eq] at hr
  rcases hc : cool2D p f T0C prof NtExp Frand cn with ⟨_ | iEnd, s⟩
  · rw [hc] at hr; simp at hr
  · rw [hc] at hr
    simp only at hr
    have hfirst := (loopUntil_first _ _ _ _ iEnd s).mp hc
    have hiE : iEnd < prof.length := by simpa [shelfK] using hfirst.1
    have hs : s = st2D p f T0C prof NtExp iEnd := hfirst.2.1
    split at hr
    · simp at hr
    · split at hr
      · simp at hr
      · simp only [Except.ok.injEq] at hr
        subst hr
        simp only [mkResult] at hk hsh ⊢
        have hrows := maxprinciple2D_cool_rows p f H hcfg T0C prof NtExp lo hi iEnd h0 hsh iEnd hiE (le_refl _)
        rw [← hs] at hrows
        have hlt : k < s.rows.size := hk
        refine ⟨s.rows[k].temp, ?_, hrows s.rows[k] (by simp)⟩
        simp only [histRows, Array.getElem?_map]
        have : ((s.rows.push (nucRow (mkCtx p f) iEnd s)
            ++ (solFin2D (mkCtx p f) NtExp prof iEnd s).rows.extract 0
                ((solFin2D (mkCtx p f) NtExp prof iEnd s).rows.size - 1)))[k]? = some s.rows[k] := by
          rw [Array.getElem?_append_left (by simp; omega), Array.getElem?_push_lt hlt]
        rw [this]; rfl

/-- the property's quantities: coldest shelf temperature applied so far and `T_0` -/
theorem maxprinciple2D_published_coldest (p : Par ℝ) (f : Flags) (H : StabCtx (mkCtx p f))
    (hcfg : p.config ≠ Config.visf) (T0C : ℝ) (prof : List ℝ) (NtExp : Nat) (Frand : ℝ) (cn : Option ℝ)
    (r : Result ℝ) (hr : run p f T0C prof NtExp Frand cn = .ok r) (hiC : r.iCool < prof.length)
    (hanti : ∀ j (hj : j < prof.length), j ≤ r.iCool → prof[r.iCool] ≤ prof[j])
    (htop : ∀ j (hj : j < prof.length), j ≤ r.iCool → prof[j] ≤ T0C)
    (k : Nat) (hk : k < r.iSaveEnd) :
    ∃ row, r.temp[k]? = some row ∧ Bdd (prof[r.iCool]) T0C row := by
  have h := maxprinciple2D_published p f H hcfg T0C prof NtExp Frand cn r hr (prof[r.iCool] + kelvin)
    (T0C + kelvin)
    ⟨by linarith [hanti 0 (by omega) (by omega), htop 0 (by omega) (by omega)], le_refl _⟩
    (fun j hj hle => ⟨by linarith [hanti j hj hle], by linarith [htop j hj hle]⟩) k hk
  simpa using h

/-- a list whose consecutive entries do not rise is non-increasing between any two positions -/
theorem antitone_of_consecutive (l : List ℝ) (h : ∀ i (hi : i + 1 < l.length), l[i + 1] ≤ l[i]) :
    ∀ (d j : Nat) (hK : j + d < l.length), l[j + d] ≤ l[j]'(by omega) := by
  intro d
  induction d with
  | zero => intro j hK; exact le_refl _
  | succ d ih =>
    intro j hK
    have h1 := ih j (by omega)
    have h2 := h (j + d) (by omega)
    exact le_trans h2 h1

/-- **`maxprinciple2D_published_run2D`** — the run as `_run_2D` performs it, WITHOUT hypotheses on the sampled
programme: shelf or jacket configuration, a well-formed cooling programme (`C05.WF`: positive rate and step,
holds between end and start temperature), the shelf samples `profile oc dt` of the model of `tempProfile`
and the product loaded at the programme's start temperature.  In every completed run all reported
cooling-stage temperatures lie between the coldest shelf temperature applied so far (that of the nucleation
step) and the start temperature — `C05.profile_antitone` and `profile_bounds` discharge the programme
hypotheses of `maxprinciple2D_published_coldest`. -/
theorem maxprinciple2D_published_run2D (p : Par ℝ) (f : Flags) (H : StabCtx (mkCtx p f))
    (hcfg : p.config ≠ Config.visf) (oc : OpCond ℝ) (dt0 : ℝ) (hwf : C05.WF oc dt0) (NtExp : Nat) (Frand : ℝ)
    (cn : Option ℝ) (r : Result ℝ) (hr : run p f oc.start (profile oc dt0) NtExp Frand cn = .ok r)
    (hiC : r.iCool < (profile oc dt0).length) (k : Nat) (hk : k < r.iSaveEnd) :
    ∃ row, r.temp[k]? = some row ∧ Bdd ((profile oc dt0)[r.iCool]) oc.start row := by
  apply maxprinciple2D_published_coldest p f H hcfg oc.start (profile oc dt0) NtExp Frand cn r hr hiC _ _ k hk
  · intro j hj hle
    have h := antitone_of_consecutive (profile oc dt0) (fun i hi => C05.profile_antitone oc dt0 hwf i hi)
      (r.iCool - j) j (by omega)
    have e : j + (r.iCool - j) = r.iCool := by omega
    simpa [e] using h
  · intro j hj _
    exact (C05.profile_bounds oc dt0 hwf _ (List.getElem_mem hj)).2

/-- 1D, loop states: coldest shelf so far ≤ every node ≤ `T_0` for a programme that has not risen -/
theorem maxprinciple1D_cool_run_coldest (p : SnowIn ℝ) (g : Grid1D ℝ) (stride : Nat) (hv : p.visf = none)
    (hNz : 2 ≤ g.Nz) (hfo : 0 ≤ g.fo ∧ g.fo ≤ 1 / 2)
    (hbi : 0 ≤ p.Kshelf * g.dz / g.lam0 ∧ p.Kshelf * g.dz / g.lam0 ≤ 1)
    (shelf : List ℝ) (K : Nat) (hK : K < shelf.length)
    (hanti : ∀ j (hj : j < shelf.length), j ≤ K → shelf[K] ≤ shelf[j])
    (htop : ∀ j (hj : j < shelf.length), j ≤ K → shelf[j] ≤ p.T_0) :
    Bdd1 (shelf[K]) p.T_0 (stateAt (coolStep1D p g stride) shelf (coolInit1D p g) K).T :=
  maxprinciple1D_cool_run p g stride hv hNz hfo hbi shelf (shelf[K]) p.T_0 K
    ⟨le_trans (hanti 0 (by omega) (by omega)) (htop 0 (by omega) (by omega)), le_refl _⟩
    (fun j hj hle => ⟨hanti j hj hle, htop j hj hle⟩) K hK (le_refl _)

/-! ### ice fraction and phase equilibrium -/

/-- ice mass fraction reported for a node at temperature `t` (`iceFrac`, l.1719-1724) -/
noncomputable def iceFracNode (c : Ctx ℝ) (t : ℝ) : ℝ :=
  (if t < c.TeqL then iceMass c.p c.Tm t else 0) / (c.p.mass_water + c.p.mass_solute)

theorem iceFrac_get (c : Ctx ℝ) (T : Array ℝ) (x : Nat) (h : x < T.size) :
    rd1 (iceFrac c T) x = iceFracNode c T[x] := by
  by_cases hsc : T[x] < c.TeqL <;> simp [iceFrac, iceFracNode, rd1, Array.getD, h, mnum, hsc]

/-- hypotheses on the solution constants: positive masses, `κ = k_f/M_s > 0`, and the
equilibrium freezing temperature `T_eq_l = T_m − κ·m_s/m_w` -/
structure SolOK (c : Ctx ℝ) : Prop where
  mw : 0 < c.p.mass_water
  ms : 0 < c.p.mass_solute
  kap : 0 < c.p.k_f / c.p.M_s
  liq : c.TeqL = c.Tm - c.p.k_f / c.p.M_s * (c.p.mass_solute / c.p.mass_water)

/-- **`ice_range`** and **`ice_iff_supercooled`**: `0 ≤ w_i < w_water`; ice exactly at the
nodes colder than the equilibrium freezing temperature. -/
theorem ice_range (c : Ctx ℝ) (h : SolOK c) (t : ℝ) :
    0 ≤ iceFracNode c t ∧ iceFracNode c t < c.p.mass_water / (c.p.mass_water + c.p.mass_solute)
      ∧ (0 < iceFracNode c t ↔ t < c.TeqL) := by
  have hmw := h.mw; have hms := h.ms; have hk := h.kap
  have hM : 0 < c.p.mass_water + c.p.mass_solute := by linarith
  unfold iceFracNode
  by_cases hsc : t < c.TeqL
  · simp only [hsc, if_true]
    have hx : c.p.k_f / c.p.M_s * (c.p.mass_solute / c.p.mass_water) < c.Tm - t := by
      rw [h.liq] at hsc; linarith
    have hδ : 0 < c.p.k_f / c.p.M_s * (c.p.mass_solute / c.p.mass_water) := by positivity
    have hxpos : 0 < c.Tm - t := by linarith
    have hpos : 0 < iceMass c.p c.Tm t := by
      unfold iceMass
      have : c.p.mass_solute * (c.p.k_f / c.p.M_s) / (c.Tm - t) < c.p.mass_water := by
        rw [div_lt_iff₀ hxpos]
        have e : c.p.mass_solute * (c.p.k_f / c.p.M_s)
            = c.p.mass_water * (c.p.k_f / c.p.M_s * (c.p.mass_solute / c.p.mass_water)) := by
          field_simp
        rw [e]; nlinarith
      linarith
    have hlt : iceMass c.p c.Tm t < c.p.mass_water := by
      unfold iceMass
      have : 0 < c.p.mass_solute * (c.p.k_f / c.p.M_s) / (c.Tm - t) := by positivity
      linarith
    refine ⟨le_of_lt (div_pos hpos hM), ?_, ?_⟩
    · exact div_lt_div_of_pos_right hlt hM
    · exact ⟨fun _ => trivial, fun _ => div_pos hpos hM⟩
  · simp only [hsc, if_false, zero_div]
    refine ⟨le_refl 0, div_pos hmw hM, ?_⟩
    simp

/-- **`liquidus_relation`**: wherever ice is reported, ice fraction and temperature satisfy the
freezing-point-depression relation `w_i·(m_w + m_s) = m_w − m_s·(k_f/M_s)/(T_m − T)`. -/
theorem liquidus_relation (c : Ctx ℝ) (h : SolOK c) (t : ℝ) (hice : 0 < iceFracNode c t) :
    iceFracNode c t * (c.p.mass_water + c.p.mass_solute)
      = c.p.mass_water - c.p.mass_solute * (c.p.k_f / c.p.M_s) / (c.Tm - t) := by
  have hsc : t < c.TeqL := ((ice_range c h t).2.2).mp hice
  have hM : c.p.mass_water + c.p.mass_solute ≠ 0 := by have := h.mw; have := h.ms; positivity
  unfold iceFracNode
  simp only [hsc, if_true, iceMass]
  field_simp

/-- **`no_ice_before_nucleation`** — statements about the rows the models actually write before
nucleation (proved by induction over the cooling loops in `Lemmas/RunBounds.lean`):
2D: in a completed `S2D.run`, every reported ice row with index `< iSaveEnd` is identically 0;
1D: the same for the histories published by `run1DOn`; 0D: the reported ice fraction is 0 at every
index before the nucleation step. -/
alias no_ice_before_nucleation_2D := RunBounds.no_ice_before_nucleation_2D
alias no_ice_before_nucleation_1D := RunBounds.no_ice_before_nucleation_1D
alias no_ice_before_nucleation_0D := RunBounds.no_ice_before_nucleation_0D

/-! ### solidification stage (partial) -/

/-- **`maxprinciple_solid` (partial)** — one assignment of the solidification-stage stencil at
an off-axis node that is not the bottom corner, written as `c + θ·Σ w_k (x_k − c)`.
With `θ = dt/(ρ c_p B) ≥ 0` and the four weights
`w_o = k/(2 r dr) + Δk_r/(4dr²) + k/dr²`, `w_n = −k/(2 r dr) − Δk_r/(4dr²) + k/dr²`,
`w_u = Δk_z/(4dz²) + k/dz²`, `w_l = −Δk_z/(4dz²) + k/dz²` non-negative (sign conditions on the
conductivity differences — they are HYPOTHESES: `|Δk| ≤ 4k` is not implied by the model when
ice (2.25 W/mK) and solution (0.57 W/mK) nodes are neighbours) and `θ·(w_o+w_n+w_u+w_l) ≤ 1`,
the new value lies in the interval of the five values read.  What is missing for the property:
the sign conditions themselves, the bottom corner (whose stencil has a non-zero coefficient sum),
the nonlinear capacity evaluated at the old temperature, and `T ≤ T_eq_l` where ice is. -/
theorem maxprinciple_solid_partial (Nz Nr : Nat) (dt rho dz dr lo hi : ℝ) (r : Nat → ℝ)
    (k cp B T : Nat → Nat → ℝ) (Tb Tt Te : Nat → ℝ) (i j : Nat)
    (hj0 : j ≠ 0) (hcorner : ¬ (i = 0 ∧ j + 1 = Nr))
    (wo wn wu wl θ : ℝ)
    (hθ : θ = dt / (cp i j * rho) * (1 / B i j)) (hθ0 : 0 ≤ θ)
    (hwo : wo = k i j / r j / (2 * dr)
        + ((if j + 1 = Nr then k i j else k i (j + 1)) - (if j = 0 then k i j else k i (j - 1))) / (4 * (dr * dr))
        + k i j / (dr * dr))
    (hwn : wn = -(k i j / r j / (2 * dr))
        - ((if j + 1 = Nr then k i j else k i (j + 1)) - (if j = 0 then k i j else k i (j - 1))) / (4 * (dr * dr))
        + k i j / (dr * dr))
    (hwu : wu = ((if i + 1 = Nz then k i j else k (i + 1) j) - (if i = 0 then k i j else k (i - 1) j)) / (4 * (dz * dz))
        + k i j / (dz * dz))
    (hwl : wl = -(((if i + 1 = Nz then k i j else k (i + 1) j) - (if i = 0 then k i j else k (i - 1) j)) / (4 * (dz * dz)))
        + k i j / (dz * dz))
    (h1 : 0 ≤ wo) (h2 : 0 ≤ wn) (h3 : 0 ≤ wu) (h4 : 0 ≤ wl) (hsum : θ * (wo + wn + wu + wl) ≤ 1)
    (hc : lo ≤ T i j ∧ T i j ≤ hi)
    (ho : lo ≤ outer Nr T Te i j ∧ outer Nr T Te i j ≤ hi) (hn : lo ≤ inner T i j ∧ inner T i j ≤ hi)
    (hu : lo ≤ upper Nz T Tt i j ∧ upper Nz T Tt i j ≤ hi) (hl : lo ≤ lower T Tb i j ∧ lower T Tb i j ≤ hi) :
    lo ≤ solidNode Nz Nr dt rho dz dr r k cp B T Tb Tt Te i j ∧
      solidNode Nz Nr dt rho dz dr r k cp B T Tb Tt Te i j ≤ hi := by
  have e : solidNode Nz Nr dt rho dz dr r k cp B T Tb Tt Te i j
      = (1 - θ * (wo + wn + wu + wl)) * T i j + (θ * wo) * outer Nr T Te i j + (θ * wn) * inner T i j
        + (θ * wu) * upper Nz T Tt i j + (θ * wl) * lower T Tb i j := by
    unfold solidNode
    simp only [ofNat'_real, Nat.cast_ofNat, Nat.cast_one, hj0, if_false, hcorner]
    rw [hθ, hwo, hwn, hwu, hwl]
    simp only [hj0, if_false]
    ring
  rw [e]
  exact convex5 _ _ _ _ _ _ _ _ _ _ lo hi (by linarith) (mul_nonneg hθ0 h1) (mul_nonneg hθ0 h2)
    (mul_nonneg hθ0 h3) (mul_nonneg hθ0 h4) (by ring) hc ho hn hu hl

/-- **the sign hypotheses of `maxprinciple_solid_partial`, discharged where possible**: if all
conductivities involved lie in `[λ_w, λ_i]` (true for `k_eff = λ_i w + λ_w (1−w)`, `0 ≤ w ≤ 1`) then
* the two AXIAL weights are non-negative as soon as `λ_i ≤ 5 λ_w` (default: 2.25 ≤ 2.99),
* the two RADIAL weights are non-negative at nodes with `r_j ≥ 2 dr` (all `j ≥ 2` on the code's grid)
  as soon as `λ_i ≤ 4 λ_w` (default: 2.25 ≤ 2.39).
At `j = 1` (`r_1 ≈ 1.07 dr`) the inner radial weight needs `λ_i ≤ 3.1 λ_w`, which the default
water/ice pair (ratio 3.76) does NOT satisfy: there the hypothesis stays a hypothesis. -/
theorem solid_weights_nonneg (lw li kc kU kL kO kI dz dr rj : ℝ) (hlw : 0 < lw)
    (hc : lw ≤ kc ∧ kc ≤ li) (hU : lw ≤ kU ∧ kU ≤ li) (hL : lw ≤ kL ∧ kL ≤ li)
    (hO : lw ≤ kO ∧ kO ≤ li) (hI : lw ≤ kI ∧ kI ≤ li) (hdz : 0 < dz) (hdr : 0 < dr) :
    (li ≤ 5 * lw → 0 ≤ (kU - kL) / (4 * (dz * dz)) + kc / (dz * dz)
        ∧ 0 ≤ -((kU - kL) / (4 * (dz * dz))) + kc / (dz * dz)) ∧
    (li ≤ 4 * lw → 2 * dr ≤ rj →
      0 ≤ kc / rj / (2 * dr) + (kO - kI) / (4 * (dr * dr)) + kc / (dr * dr)
        ∧ 0 ≤ -(kc / rj / (2 * dr)) - (kO - kI) / (4 * (dr * dr)) + kc / (dr * dr)) := by
  constructor
  · intro h5
    have e1 : (kU - kL) / (4 * (dz * dz)) + kc / (dz * dz) = (4 * kc + (kU - kL)) / (4 * (dz * dz)) := by
      field_simp; ring
    have e2 : -((kU - kL) / (4 * (dz * dz))) + kc / (dz * dz) = (4 * kc - (kU - kL)) / (4 * (dz * dz)) := by
      field_simp; ring
    rw [e1, e2]
    constructor <;> apply div_nonneg <;> first | positivity | linarith [hc.1, hc.2, hU.1, hU.2, hL.1, hL.2]
  · intro h4 hr
    have hrpos : 0 < rj := by linarith
    have hkc : 0 < kc := by linarith [hc.1]
    -- kc/(2 rj dr) ≤ kc/(4 dr²)
    have hg : kc / rj / (2 * dr) ≤ kc / (4 * (dr * dr)) := by
      rw [div_div]
      apply div_le_div_of_nonneg_left (le_of_lt hkc) (by positivity)
      nlinarith
    have hg0 : 0 ≤ kc / rj / (2 * dr) := by positivity
    have e3 : (kO - kI) / (4 * (dr * dr)) + kc / (dr * dr) = (4 * kc + (kO - kI)) / (4 * (dr * dr)) := by
      field_simp; ring
    have e4 : kc / (dr * dr) - kc / (4 * (dr * dr)) - (kO - kI) / (4 * (dr * dr))
        = (3 * kc - (kO - kI)) / (4 * (dr * dr)) := by
      field_simp; ring
    constructor
    · have : 0 ≤ (4 * kc + (kO - kI)) / (4 * (dr * dr)) := by
        apply div_nonneg _ (by positivity); linarith [hc.1, hO.1, hI.2]
      linarith [e3]
    · have : 0 ≤ (3 * kc - (kO - kI)) / (4 * (dr * dr)) := by
        apply div_nonneg _ (by positivity); linarith [hc.1, hO.2, hI.1]
      linarith [e4]

/-! ### the relations between the derived constants, and the other ice formulas -/

/-- **named hypothesis `DerivedOK`** — the relations `constants.calculateDerived` establishes between
the entries of `Snowing.const` (C19 proves them for the generated code: `derived_*`):
`mass_solute = mass·w_s`, `mass_water = mass·(1−w_s)`,
`depression = k_f/M_s · w_s/(1−w_s)`, with `0 < w_s < 1`, `mass > 0`, `k_f/M_s > 0`. -/
structure DerivedOK (p : Par ℝ) : Prop where
  ws0 : 0 < p.solid_fraction
  ws1 : p.solid_fraction < 1
  mass : 0 < p.mass
  ms : p.mass_solute = p.mass * p.solid_fraction
  mw : p.mass_water = p.mass * (1 - p.solid_fraction)
  kap : 0 < p.k_f / p.M_s
  dep : p.depression = p.k_f / p.M_s * (p.solid_fraction / (1 - p.solid_fraction))

/-- the undisclosed hypothesis of the earlier version, now derived: `depression = k_f/M_s·m_s/m_w` -/
theorem DerivedOK.hdep {p : Par ℝ} (h : DerivedOK p) :
    p.depression = p.k_f / p.M_s * (p.mass_solute / p.mass_water) := by
  have h1 : (1 - p.solid_fraction) ≠ 0 := by have := h.ws1; linarith
  have hm := ne_of_gt h.mass
  rw [h.dep, h.ms, h.mw]
  field_simp

theorem DerivedOK.mw_pos {p : Par ℝ} (h : DerivedOK p) : 0 < p.mass_water := by
  rw [h.mw]; have := h.ws1; have := h.mass; positivity
theorem DerivedOK.ms_pos {p : Par ℝ} (h : DerivedOK p) : 0 < p.mass_solute := by
  rw [h.ms]; have := h.ws0; have := h.mass; positivity
theorem DerivedOK.mass_eq {p : Par ℝ} (h : DerivedOK p) : p.mass_water + p.mass_solute = p.mass := by
  rw [h.mw, h.ms]; ring

/-- `SolOK` follows from the derived-constant relations -/
theorem solOK_of_derived (p : Par ℝ) (f : Flags) (h : DerivedOK p) : SolOK (mkCtx p f) :=
  { mw := h.mw_pos, ms := h.ms_pos, kap := h.kap,
    liq := by
      show TeqL p = Tm p - p.k_f / p.M_s * (p.mass_solute / p.mass_water)
      rw [← h.hdep]; rfl }

/-- `C02.nucleation_adiabatic` under `DerivedOK`, and the **bound of the nucleation jump**: a
supercooled node ends strictly between its old temperature and the equilibrium freezing
temperature, with `0 < m_i < m_w`; other nodes are untouched (`C02.nucleation_untouched`). -/
theorem nucleation_jump_bounds (p : Par ℝ) (h : DerivedOK p) (hcp : 0 < p.cp_solution) (hDh : 0 < p.Dh)
    (Tn : ℝ) (hsc : Tn < TeqL p) :
    Tn < nucRoot p (Tm p) Tn ∧ nucRoot p (Tm p) Tn < TeqL p
      ∧ 0 < iceMass p (Tm p) (nucRoot p (Tm p) Tn) ∧ iceMass p (Tm p) (nucRoot p (Tm p) Tn) < p.mass_water :=
  (C02.nucleation_adiabatic p Tn hcp h.mass hDh h.mw_pos h.ms_pos h.kap h.hdep hsc).2

/-- **2D nucleation row**: the ice fraction written right after nucleation is in range, is zero
exactly at the nodes that were not supercooled, and lies on the liquidus of the NEW temperature -/
theorem ice_range_nucleation_row (p : Par ℝ) (f : Flags) (h : DerivedOK p) (hcp : 0 < p.cp_solution)
    (hDh : 0 < p.Dh) (Tn : ℝ) :
    0 ≤ (nucNode (mkCtx p f) Tn).2 ∧ (nucNode (mkCtx p f) Tn).2 < p.mass_water / (p.mass_water + p.mass_solute)
      ∧ (0 < (nucNode (mkCtx p f) Tn).2 ↔ Tn < TeqL p)
      ∧ (nucNode (mkCtx p f) Tn).2 = iceFracNode (mkCtx p f) (nucNode (mkCtx p f) Tn).1 := by
  have hM : 0 < p.mass_water + p.mass_solute := by have := h.mw_pos; have := h.ms_pos; linarith
  have hTl : (mkCtx p f).TeqL = TeqL p := rfl
  have hTm : (mkCtx p f).Tm = Tm p := rfl
  have hp : (mkCtx p f).p = p := rfl
  by_cases hsc : Tn < TeqL p
  · have hb := nucleation_jump_bounds p h hcp hDh Tn hsc
    have hn : nucNode (mkCtx p f) Tn
        = (nucRoot p (Tm p) Tn, iceMass p (Tm p) (nucRoot p (Tm p) Tn) / (p.mass_water + p.mass_solute)) := by
      simp [nucNode, hTl, hTm, hp, hsc]
    rw [hn]
    refine ⟨le_of_lt (div_pos hb.2.2.1 hM), div_lt_div_of_pos_right hb.2.2.2 hM,
      ⟨fun _ => hsc, fun _ => div_pos hb.2.2.1 hM⟩, ?_⟩
    simp [iceFracNode, hTl, hTm, hp, hb.2.1]
  · have hn : nucNode (mkCtx p f) Tn = (Tn, 0) := C02.nucleation_untouched _ _ (by rw [hTl]; exact hsc)
    rw [hn]
    refine ⟨le_refl 0, div_pos h.mw_pos hM, ⟨fun h0 => absurd h0 (lt_irrefl 0), fun h0 => absurd h0 hsc⟩, ?_⟩
    simp [iceFracNode, hTl, hsc]

/-! #### the ice fields the 1D model actually produces -/

/-- ice fraction of a 1D node at temperature `t` (denominator `den`: `mass` in the solidification
rows, `m_w + m_s` in the nucleation row) -/
noncomputable def iceNode1D (q : SnowIn ℝ) (den t : ℝ) : ℝ :=
  (if t < q.T_eq_l then iceMassEq q t else 0) / den

/-- hypotheses on the constants of a `SnowIn` (the relations of `calculateDerived`) -/
structure SolOK1 (q : SnowIn ℝ) : Prop where
  mw : 0 < q.const.mass_water
  ms : 0 < q.const.mass_solute
  kap : 0 < q.const.k_f / q.const.M_s
  dep : q.const.depression = q.const.k_f / q.const.M_s * (q.const.mass_solute / q.const.mass_water)

/-- `ice_range`, `ice_iff_supercooled`, `liquidus_relation` for the 1D node formula -/
theorem iceNode1D_range (q : SnowIn ℝ) (h : SolOK1 q) (den : ℝ) (hden : 0 < den) (t : ℝ) :
    0 ≤ iceNode1D q den t ∧ iceNode1D q den t < q.const.mass_water / den
      ∧ (0 < iceNode1D q den t ↔ t < q.T_eq_l)
      ∧ (0 < iceNode1D q den t → iceNode1D q den t * den
          = q.const.mass_water - q.const.mass_solute * (q.const.k_f / q.const.M_s) / (q.T_m - t)) := by
  have hmw := h.mw; have hms := h.ms; have hk := h.kap
  unfold iceNode1D
  by_cases hsc : t < q.T_eq_l
  · simp only [hsc, if_true]
    have hx : q.const.k_f / q.const.M_s * (q.const.mass_solute / q.const.mass_water) < q.T_m - t := by
      have : q.T_eq_l = q.T_m - q.const.depression := rfl
      rw [this, h.dep] at hsc; linarith
    have hδ : 0 < q.const.k_f / q.const.M_s * (q.const.mass_solute / q.const.mass_water) := by positivity
    have hxpos : 0 < q.T_m - t := by linarith
    have hpos : 0 < iceMassEq q t := by
      simp only [iceMassEq]
      have : q.const.mass_solute * (q.const.k_f / q.const.M_s) / (q.T_m - t) < q.const.mass_water := by
        rw [div_lt_iff₀ hxpos]
        have e : q.const.mass_solute * (q.const.k_f / q.const.M_s)
            = q.const.mass_water * (q.const.k_f / q.const.M_s * (q.const.mass_solute / q.const.mass_water)) := by
          field_simp
        rw [e]; nlinarith
      linarith
    have hlt : iceMassEq q t < q.const.mass_water := by
      simp only [iceMassEq]
      have : 0 < q.const.mass_solute * (q.const.k_f / q.const.M_s) / (q.T_m - t) := by positivity
      linarith
    refine ⟨le_of_lt (div_pos hpos hden), div_lt_div_of_pos_right hlt hden,
      ⟨fun _ => trivial, fun _ => div_pos hpos hden⟩, fun _ => ?_⟩
    simp only [iceMassEq]; field_simp
  · simp only [hsc, if_false, zero_div]
    exact ⟨le_refl 0, div_pos hmw hden, by simp, fun h0 => absurd h0 (lt_irrefl 0)⟩

/-- **1D solidification rows**: the ice field `w_i_k` produced by `solidStep1D` is, node by node,
`iceNode1D` of the temperature field the same step produces (denominator `mass`) — so
`iceNode1D_range` gives range, ice-iff-supercooled and the liquidus relation for it -/
theorem solidStep1D_ice (q : SnowIn ℝ) (g : Grid1D ℝ) (stride iEnd : Nat) (tNuc : ℝ) (i : Nat) (s : Solid1D ℝ)
    (Tsh : ℝ) (j : Nat) (hj : j < g.Nz) :
    aget (solidStep1D q g stride iEnd tNuc i s Tsh).w j
      = iceNode1D q q.const.mass (aget (solidStep1D q g stride iEnd tNuc i s Tsh).T j) := by
  have hw : (solidStep1D q g stride iEnd tNuc i s Tsh).w
      = ((solidStep1D q g stride iEnd tNuc i s Tsh).T.map fun t =>
          (Num.zero : ℝ) * maskNum (!decide (t < q.T_eq_l)) + iceMassEq q t * maskNum (decide (t < q.T_eq_l))).map
          (· / q.const.mass) := rfl
  have hsz : (solidStep1D q g stride iEnd tNuc i s Tsh).T.size = g.Nz := by simp [solidStep1D]
  rw [hw]
  generalize (solidStep1D q g stride iEnd tNuc i s Tsh).T = Tn at hsz ⊢
  rw [Snow.aget_map _ _ j (by simp; omega), Snow.aget_map _ _ j (by omega)]
  unfold iceNode1D
  by_cases hsc : aget Tn j < q.T_eq_l <;> simp [maskNum, hsc]

/-- **1D nucleation row**: the ice field written right after nucleation (`nucleate1D`, divided by
`m_w + m_s`) is `iceNode1D` of the NEW temperature field (mask on the old temperature, `iceMassEq`
at the `−√` root: the root of a supercooled node is again below `T_eq_l`, `C02.nucleation_adiabatic_0D1D`) -/
theorem nucleate1D_ice (q : SnowIn ℝ) (h : SolOK1 q) (hcp : 0 < q.const.cp_solution) (hm : 0 < q.const.mass)
    (hDh : 0 < q.const.Dh) (T : Array ℝ) (j : Nat) (hj : j < T.size) :
    aget ((nucleate1D q T).2.map (· / (q.const.mass_water + q.const.mass_solute))) j
      = iceNode1D q (q.const.mass_water + q.const.mass_solute) (aget (nucleate1D q T).1 j) := by
  unfold nucleate1D
  simp only []
  rw [Snow.aget_map _ _ j (by simp; exact hj), Snow.aget_map _ _ j hj, Snow.aget_map _ _ j hj]
  unfold iceNode1D
  by_cases hsc : aget T j < q.T_eq_l
  · have hb := (C02.nucleation_adiabatic_0D1D q (aget T j) hcp hm hDh h.mw h.ms h.kap h.dep hsc).2.2.1
    simp [maskNum, hsc, hb]
  · simp [maskNum, hsc]

/-! #### … carried to the PUBLISHED ice rows of `run1DOn` -/

/-- a published 1D row whose ice field is the liquidus ice (`iceNode1D`) of its own temperature field (°C) -/
def RowIce (q : SnowIn ℝ) (den : ℝ) (r : Row ℝ) : Prop :=
  ∀ j, j < r.temp.size → aget r.ice j = iceNode1D q den (aget r.temp j + lit 27315 2)

theorem iterIdx_invariant {σ β : Type} (step : Nat → σ → β → σ) (P : σ → Prop)
    (hstep : ∀ i s x, P s → P (step i s x)) : ∀ (xs : List β) (i0 : Nat) (s0 : σ), P s0 → P (iterIdx step xs i0 s0) := by
  intro xs
  induction xs with
  | nil => intro i0 s0 h; simpa [iterIdx] using h
  | cons x xs ih => intro i0 s0 h; simp only [iterIdx]; exact ih _ _ (hstep _ _ _ h)

/-- every row saved by a solidification step satisfies `RowIce` with denominator `mass` -/
theorem solidStep1D_rows (q : SnowIn ℝ) (g : Grid1D ℝ) (stride iEnd : Nat) (tNuc : ℝ) (i : Nat) (s : Solid1D ℝ)
    (Tsh : ℝ) (h : ∀ r ∈ s.buf.toList, RowIce q q.const.mass r) :
    ∀ r ∈ (solidStep1D q g stride iEnd tNuc i s Tsh).buf.toList, RowIce q q.const.mass r := by
  set st := solidStep1D q g stride iEnd tNuc i s Tsh with hst
  have hbuf : st.buf = (if i % stride == 0 then
      saveRow NSave (s.buf, s.oob)
        { step := iEnd + i, time := tNuc + g.dt * ofNat' i, shelf := Tsh - lit 27315 2,
          temp := st.T.map (· - lit 27315 2), ice := st.w }
      else (s.buf, s.oob)).1 := rfl
  have hsz : st.T.size = g.Nz := by simp [hst, solidStep1D]
  rw [hbuf]
  split
  · unfold saveRow
    simp only []
    split
    · intro r hr
      simp only [Array.toList_push, List.mem_append, List.mem_singleton] at hr
      rcases hr with hr | rfl
      · exact h r hr
      · intro j hj
        have hj' : j < st.T.size := by simpa using hj
        simp only []
        rw [Snow.aget_map _ _ j hj', solidStep1D_ice q g stride iEnd tNuc i s Tsh j (by omega)]
        congr 1
        ring
    · exact h
  · exact h

/-- **published ice rows of the 1D model**: in the histories `run1DOn` publishes, the post-nucleation row
(index `iSaveEnd`) and every solidification row (index `> iSaveEnd`) carry, node by node, the liquidus ice
`iceNode1D` of their own reported temperature (denominators `m_w + m_s` resp. `mass`) — so
`iceNode1D_range` gives `0 ≤ w_i < m_w/den`, ice iff `T < T_eq_l` and the freezing-point-depression
relation for every published value (the cooling rows are zero: `no_ice_before_nucleation_1D`).
Hypotheses: `SolOK1`, `0 < c_p`, `0 < mass`, `0 < Δh` (for the nucleation row). -/
theorem ice_published_1D (q : SnowIn ℝ) (Nz : Nat) (old : Bool) (shelf : List ℝ) (hS : SolOK1 q)
    (hcp : 0 < q.const.cp_solution) (hm : 0 < q.const.mass) (hDh : 0 < q.const.Dh)
    (h : Array (Row ℝ)) (hh : (run1DOn q Nz old shelf).hist = some h) (k : Nat) (row : Row ℝ)
    (hk : h[k]? = some row) (hge : (run1DOn q Nz old shelf).iSaveEnd ≤ k) :
    (k = (run1DOn q Nz old shelf).iSaveEnd → RowIce q (q.const.mass_water + q.const.mass_solute) row)
      ∧ ((run1DOn q Nz old shelf).iSaveEnd < k → RowIce q q.const.mass row) := by
  revert hh hge
  unfold run1DOn
  dsimp only
  rcases hc : cool1D q (grid1D q Nz) old shelf with ⟨_ | iE, s⟩
  · intro hh; simp at hh
  · dsimp only
    by_cases hfit : s.buf.size < NSave
    · rw [RunBounds.saveRow_fits' _ _ _ _ hfit]
      dsimp only
      split
      · intro hh; simp at hh
      · split
        · intro hh; simp at hh
        · split
          · intro hh; simp at hh
          · intro hh hge
            simp only [Option.some.injEq] at hh
            subst hh
            have hge' : s.buf.size ≤ k := hge
            constructor
            · intro hkeq
              have hkeq' : k = s.buf.size := hkeq
              subst hkeq'
              rw [Array.getElem?_append_left (by simp), Array.getElem?_push_eq] at hk
              simp only [Option.some.injEq] at hk
              subst hk
              intro j hj
              have hj' : j < (nucleate1D q s.T).1.size := by simpa using hj
              have hjT : j < s.T.size := by simpa [nucleate1D] using hj'
              simp only []
              rw [Snow.aget_map _ _ j hj', nucleate1D_ice q hS hcp hm hDh s.T j hjT]
              congr 1
              ring
            · intro hlt
              have hlt' : s.buf.size < k := hlt
              rw [Array.getElem?_append_right (by simp; omega)] at hk
              have hmem : row ∈ (iterIdx (solidStep1D q (grid1D q Nz) (saveStride ((grid1D q Nz).NtExp - iE)) iE
                  ((grid1D q Nz).dt * ofNat' iE)) (List.drop iE shelf) 0
                  { T := (nucleate1D q s.T).1,
                    w := Array.map (fun x => x / (q.const.mass_water + q.const.mass_solute)) (nucleate1D q s.T).2,
                    buf := #[], oob := false, solEnd := none, sg := zero, sigma := #[] }).buf.toList := by
                have := Array.mem_of_getElem? hk
                have := Array.mem_toList_iff.mpr this
                simp only [Array.toList_extract, List.extract_eq_drop_take, List.drop_zero, Nat.sub_zero] at this
                exact List.mem_of_mem_take this
              exact iterIdx_invariant _ (fun st => ∀ r ∈ st.buf.toList, RowIce q q.const.mass r)
                (fun i st x hst => solidStep1D_rows q _ _ _ _ i st x hst) _ _ _ (by simp) row hmem
    · rw [RunBounds.saveRow_full' _ _ _ _ hfit]
      intro hh; simp at hh

/-- **0D ice formula** (`iceFrac0D`, no mask): it IS the liquidus expression; it is in range at
every temperature below the equilibrium freezing temperature (for the 0D model this is a
condition on the state: after nucleation `T < T_eq_l` is evaluated on runs, not proved) -/
theorem ice_range_0D (q : SnowIn ℝ) (T : ℝ) (hmass : 0 < q.const.mass) (hmw : 0 < q.const.mass_water)
    (hms : 0 < q.const.mass_solute) (hk : 0 < q.const.k_f / q.const.M_s)
    (hdep : q.const.depression = q.const.k_f / q.const.M_s * (q.const.mass_solute / q.const.mass_water))
    (hT : T < q.T_eq_l) :
    iceFrac0D q T * q.const.mass
        = q.const.mass_water - (q.const.k_f * q.const.mass_solute / q.const.M_s) / (q.T_m - T)
      ∧ 0 < iceFrac0D q T ∧ iceFrac0D q T < q.const.mass_water / q.const.mass := by
  have hx : q.const.k_f / q.const.M_s * (q.const.mass_solute / q.const.mass_water) < q.T_m - T := by
    have : q.T_eq_l = q.T_m - q.const.depression := rfl
    rw [this, hdep] at hT; linarith
  have hδ : 0 < q.const.k_f / q.const.M_s * (q.const.mass_solute / q.const.mass_water) := by positivity
  have hxpos : 0 < q.T_m - T := by linarith
  have e : q.const.k_f * q.const.mass_solute / q.const.M_s
      = q.const.mass_water * (q.const.k_f / q.const.M_s * (q.const.mass_solute / q.const.mass_water)) := by
    field_simp
  have hlt : (q.const.k_f * q.const.mass_solute / q.const.M_s) / (q.T_m - T) < q.const.mass_water := by
    rw [div_lt_iff₀ hxpos, e]; nlinarith
  have hpos : 0 < (q.const.k_f * q.const.mass_solute / q.const.M_s) / (q.T_m - T) := by
    rw [e]; positivity
  refine ⟨?_, ?_, ?_⟩
  · simp only [iceFrac0D]; field_simp
  · simp only [iceFrac0D]; apply div_pos _ hmass; linarith
  · simp only [iceFrac0D]; apply div_lt_div_of_pos_right _ hmass; linarith

/-! ### the code's radial grid satisfies `r_j ≥ dr/2` -/

/-- `r = np.linspace(0, R, Nr)` and `dr = R/Nr`: for `j ≥ 1`, `r_j ≥ dr/2` (indeed `r_j ≥ dr`) -/
theorem r_ge_half_dr (p : Par ℝ) (f : Flags) (hR : 0 < radius p) (hNr : 2 ≤ p.Nr)
    (j : Nat) (h1 : 1 ≤ j) (hj : j < p.Nr) : (mkCtx p f).dr / 2 ≤ rd1 (mkCtx p f).rA j := by
  have e : rd1 (mkCtx p f).rA j
      = if j + 1 = p.Nr then radius p else (j : ℝ) * (radius p / ((p.Nr - 1 : Nat) : ℝ)) := by
    simp [mkCtx, rs, linspace0, rd1, Array.getD, hj]
  have hdr : (mkCtx p f).dr = radius p / (p.Nr : ℝ) := by simp [mkCtx, dr]
  rw [e, hdr]
  have hNrpos : (0 : ℝ) < (p.Nr : ℝ) := by exact_mod_cast (by omega : 0 < p.Nr)
  have hhalf : radius p / (p.Nr : ℝ) / 2 ≤ radius p / (p.Nr : ℝ) := by
    have : 0 < radius p / (p.Nr : ℝ) := by positivity
    linarith
  split
  · have : radius p / (p.Nr : ℝ) ≤ radius p := by
      rw [div_le_iff₀ hNrpos]
      have : (1 : ℝ) ≤ (p.Nr : ℝ) := by exact_mod_cast (by omega : 1 ≤ p.Nr)
      nlinarith
    linarith
  · have hm : (0 : ℝ) < ((p.Nr - 1 : Nat) : ℝ) := by exact_mod_cast (by omega : 0 < p.Nr - 1)
    have hle : ((p.Nr - 1 : Nat) : ℝ) ≤ (p.Nr : ℝ) := by exact_mod_cast (by omega : p.Nr - 1 ≤ p.Nr)
    have h2 : radius p / (p.Nr : ℝ) ≤ radius p / ((p.Nr - 1 : Nat) : ℝ) :=
      div_le_div_of_nonneg_left (le_of_lt hR) hm hle
    have h3 : radius p / ((p.Nr - 1 : Nat) : ℝ) ≤ (j : ℝ) * (radius p / ((p.Nr - 1 : Nat) : ℝ)) := by
      have : (1 : ℝ) ≤ (j : ℝ) := by exact_mod_cast h1
      have : 0 < radius p / ((p.Nr - 1 : Nat) : ℝ) := by positivity
      nlinarith
    linarith

/-! ### non-vacuity -/

/-- the relations between the derived constants hold for the default configuration -/
theorem derivedOK_pDef : DerivedOK pDef := by
  refine ⟨?_, ?_, ?_, ?_, ?_, ?_, ?_⟩ <;> simp only [pDef] <;> norm_num

/-- the stability hypotheses of the sweep- and run-level theorems hold for the default
configuration (current and repaired flags alike) -/
theorem stabCtx_pDef (f : Flags) : StabCtx (mkCtx pDef f) := by
  have hR : 0 < radius pDef := by simp only [radius, pDef, two, ofNat'_real]; norm_num
  have hdz : (mkCtx pDef f).dz = 1 / 3000 := by
    simp only [mkCtx, dz, pDef, ofNat'_real]; norm_num
  have hdr : (mkCtx pDef f).dr = 1 / 3000 := by
    simp only [mkCtx, dr, radius, pDef, two, ofNat'_real]; norm_num
  have hk0 : (mkCtx pDef f).k0 = 0.5744 := by
    simp only [mkCtx, kEff0, pDef, one_real]; norm_num
  have hdzp : 0 < dz pDef := by have : dz pDef = 1 / 3000 := hdz; rw [this]; norm_num
  have hdrp : 0 < dr pDef := by have : dr pDef = 1 / 3000 := hdr; rw [this]; norm_num
  have hmax : 0 < alphaMax pDef := by simp only [alphaMax, pDef]; norm_num
  have hα : alpha0 pDef ≤ (5 / 4) * alphaMax pDef := by
    simp only [alpha0, kEff0, alphaMax, pDef, one_real]; norm_num
  have hα0 : 0 ≤ alpha0 pDef := by simp only [alpha0, kEff0, pDef, one_real]; norm_num
  have hdt : 0 ≤ dt pDef := by
    unfold dt; simp only [lit_real]
    have : 0 < alphaMax pDef := hmax
    positivity
  refine ⟨by simp [mkCtx], by simp [mkCtx], by simp [mkCtx, pDef], by simp [mkCtx, pDef], ?_, ?_⟩
  · refine ⟨mul_nonneg hα0 hdt, hdzp, hdrp, cfl_from_code pDef hdzp hdrp hmax hα, ?_, ?_⟩
    · rw [hdz, hk0]; simp only [mkCtx, pDef]; norm_num
    · have hKw : (mkCtx pDef f).Kw = 1 / (1 / 50 + 0.001 / 0.025) := by
        simp only [mkCtx, Kwall, pDef, one_real]
      have hes : (mkCtx pDef f).eSp = 1 / 3000 := by
        have : (mkCtx pDef f).eSp = if f.jacketDz then dz pDef else dr pDef := rfl
        rw [this]; split
        · exact hdz
        · exact hdr
      rw [hKw, hes, hk0]; norm_num
  · intro j h1 hj
    exact r_ge_half_dr pDef f hR (by simp [pDef]) j h1 hj

/-- the hypotheses of the 0D / 1D run-level theorems and of the ice theorems on the concrete
default `SnowIn` (`RunBounds.qDef`) and its 30-point grid -/
theorem hyps_qDef :
    -- `bounds0D_run`: hden, hnum, hθ
    (0 < RunBounds.qDef.const.cp_solution * RunBounds.qDef.const.mass
      ∧ 0 ≤ RunBounds.qDef.const.A * RunBounds.qDef.Kshelf
      ∧ (1 / 10 : ℝ) * (RunBounds.qDef.const.A * RunBounds.qDef.Kshelf)
          ≤ RunBounds.qDef.const.cp_solution * RunBounds.qDef.const.mass) ∧
    -- `maxprinciple1D_cool_run`: hv, hfo, hbi on `grid1D qDef 30`
    (RunBounds.qDef.visf = none
      ∧ (0 ≤ (grid1D RunBounds.qDef 30).fo ∧ (grid1D RunBounds.qDef 30).fo ≤ 1 / 2)
      ∧ (0 ≤ RunBounds.qDef.Kshelf * (grid1D RunBounds.qDef 30).dz / (grid1D RunBounds.qDef 30).lam0
          ∧ RunBounds.qDef.Kshelf * (grid1D RunBounds.qDef 30).dz / (grid1D RunBounds.qDef 30).lam0 ≤ 1)) ∧
    -- `iceNode1D_range`, `nucleate1D_ice`, `C02.nucleation_adiabatic_0D1D`: SolOK1, hcp, hm, hDh, a supercooled node
    (SolOK1 RunBounds.qDef ∧ 0 < RunBounds.qDef.const.cp_solution ∧ 0 < RunBounds.qDef.const.mass
      ∧ 0 < RunBounds.qDef.const.Dh ∧ (263.15 : ℝ) < RunBounds.qDef.T_eq_l) := by
  have hdz : (grid1D RunBounds.qDef 30).dz = 1 / 3000 := by
    simp only [grid1D, RunBounds.qDef, ofNat'_real]; norm_num
  have hlam : (grid1D RunBounds.qDef 30).lam0 = 0.5744 := by
    simp only [grid1D, RunBounds.qDef, one_real]; norm_num
  refine ⟨?_, ⟨rfl, ?_, ?_⟩, ⟨⟨?_, ?_, ?_, ?_⟩, ?_, ?_, ?_, ?_⟩⟩
  · simp only [RunBounds.qDef]; norm_num
  · apply grid1D_fo_le_half
    · rw [hdz]; norm_num
    · simp only [RunBounds.qDef]; norm_num
    · rw [hlam]; simp only [RunBounds.qDef]; norm_num
    · rw [hlam]; simp only [RunBounds.qDef]; norm_num
  · rw [hdz, hlam]; simp only [RunBounds.qDef]; norm_num
  all_goals (simp only [RunBounds.qDef, SnowIn.T_eq_l, SnowIn.T_m, lit_real]; norm_num)

/-- the hypotheses of `solid_weights_nonneg` (hence the sign hypotheses of `maxprinciple_solid_partial`
at every node with `j ≥ 2`) on the default configuration: water/ice conductivities `0.598 ≤ k ≤ 2.25`,
`λ_i ≤ 4 λ_w`, and `r_2 ≥ 2·dr` on the code's radial grid -/
theorem solid_hyps_pDef :
    (0 : ℝ) < pDef.lambda_w ∧ pDef.lambda_i ≤ 4 * pDef.lambda_w ∧ pDef.lambda_i ≤ 5 * pDef.lambda_w
      ∧ 2 * (mkCtx pDef {}).dr ≤ rd1 (mkCtx pDef {}).rA 2 := by
  refine ⟨by simp only [pDef]; norm_num, by simp only [pDef]; norm_num, by simp only [pDef]; norm_num, ?_⟩
  have e : rd1 (mkCtx pDef {}).rA 2 = (2 : ℝ) * (radius pDef / ((pDef.Nr - 1 : Nat) : ℝ)) := by
    simp [mkCtx, rs, linspace0, rd1, Array.getD, pDef]
  have hdr : (mkCtx pDef {}).dr = radius pDef / (pDef.Nr : ℝ) := by simp [mkCtx, dr]
  rw [e, hdr]
  simp only [radius, pDef, two, ofNat'_real]
  norm_num

/-- **non-vacuity**: the named hypotheses of the registered theorems are instantiated on the
default configuration — `Stab`/`StabCtx` (CFL, both Biot numbers, radial grid), `DerivedOK`,
hence `SolOK`, for the 2D model (`pDef`); the 0D/1D hypotheses on `qDef` (`hyps_qDef`); the
shelf-programme hypotheses of the run-level theorems on a concrete three-sample programme; and
the weight hypotheses of `maxprinciple_solid_partial` on a uniform-conductivity stencil
(`k = 1`, `r_j = 2`, `dr = dz = 1`, `θ = 1/10`). -/
theorem nonvacuous :
    StabCtx (mkCtx pDef {}) ∧ DerivedOK pDef ∧ SolOK (mkCtx pDef {}) ∧
    (∀ j (hj : j < [5, 4, (3 : ℝ)].length), j ≤ 2 →
      (3 : ℝ) + kelvin ≤ [5, 4, (3 : ℝ)][j] + kelvin ∧ [5, 4, (3 : ℝ)][j] + kelvin ≤ 5 + kelvin) ∧
    ((0 : ℝ) ≤ 1 / 2 / (2 * 1) + (1 - 1) / (4 * (1 * 1)) + 1 / (1 * 1)
      ∧ (0 : ℝ) ≤ -(1 / 2 / (2 * 1)) - (1 - 1) / (4 * (1 * 1)) + 1 / (1 * 1)
      ∧ (0 : ℝ) ≤ (1 - 1) / (4 * (1 * 1)) + 1 / (1 * 1)
      ∧ (1 / 10 : ℝ) * ((1 / 2 / (2 * 1) + 1) + (-(1 / 2 / (2 * 1)) + 1) + 1 + 1) ≤ 1) :=
  ⟨stabCtx_pDef {}, derivedOK_pDef, solOK_of_derived pDef {} derivedOK_pDef, by
    intro j hj _
    have : j = 0 ∨ j = 1 ∨ j = 2 := by simp at hj; omega
    rcases this with rfl | rfl | rfl <;> simp <;> norm_num, by norm_num⟩

end Snow.C07
