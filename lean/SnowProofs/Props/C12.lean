import SnowProofs.RealInst
import SnowModel.FlakeStats
namespace Snow.C12
end Snow.C12
