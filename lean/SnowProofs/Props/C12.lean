/-
  C12 — Reported statistics and counters agree with the trajectories.

  Property theorems only (helper lemmas: Lemmas/FlakeRun.lean, Lemmas/FlakeStats.lean).
  Models: SnowModel/Flake.lean (time loop), SnowModel/FlakeStats.lean (accessors, counters),
  instantiated at ℝ.  `runWith inp kCN` is the run for ANY controlled-nucleation index, so every
  theorem covers `run inp` (= `runWith inp (kCN inp)`) with and without controlled nucleation.

  Per vial `i`:  `sigmaRow`/`tempRow` = its row of `X_sigma`/`X_T` (one entry per step, the
  state at the START of the step), `finalV` = its entries of `stats` after the last step.
-/
import SnowProofs.Lemmas.FlakeStats
import SnowProofs.Lemmas.FlakeCex
import SnowProofs.Props.C06

namespace Snow.C12
open Snow Num Snow.Flake Snow.FlakeLemmas Snow.FlakeRun Snow.FlakeStats Snow.FlakeStatsLemmas Snow.FlakeCex

/-- Hypotheses under which the statistics of vial `i` are read off its trajectory: positive step,
non-negative threshold, a positive initial amount of ice for a supercooled vial (a condition on the
derived constants, discharged for every physically valid set by `hyp_jump_of_valid`), and ONE
trajectory hypothesis about THIS vial only: its stored ice fraction, once positive, stays positive
(`Adm`, equivalently `StaysIce (sigmaRow …)`, see `hyp_adm_of_row`).  The last one is monitored on
every real run and follows from C06's conditional run invariant (`adm_of_trajAdm`); it cannot be
dropped (C06 `side_condition_needed`).  That `σ = 0` before the first ice is NOT assumed — it follows
from the model (`zero_before_first_ice`). -/
structure Hyp (inp : Inputs ℝ) (kCN i : Nat) : Prop where
  vial : i < inp.nVials
  dt_pos : 0 < inp.p.dt
  thr : 0 ≤ inp.p.threshold
  jump : JumpPos inp.p
  adm : Adm (vtraj inp kCN i)

variable {inp : Inputs ℝ} {kCN i : Nat}

/-- **ice first appears at the reported nucleation time**: if some stored column of vial `i`
shows ice, `t_nucleation[i] = t[k₀]` with `k₀` the first column with `σ > 0`. -/
theorem tnuc_first_ice (h : Hyp inp kCN i) (hice : never 0 (sigmaRow inp kCN i) = false) :
    (finalV inp kCN i).tNuc = (timeVec (NN inp) inp.p.dt)[crossIdx 0 (sigmaRow inp kCN i)]? ∧
    (finalV inp kCN i).tNuc = some (timeAt inp.p.dt (crossIdx 0 (sigmaRow inp kCN i))) := by
  obtain ⟨hk, hpos, hfirst⟩ := row_cross inp kCN i 0 hice
  have := tnuc_of_first_ice (vtraj_chain inp kCN i h.vial) (fresh_start inp kCN i h.vial) h.jump h.adm
    _ (NN inp) hpos hfirst (le_of_lt hk) (by rw [vtraj_length]; unfold NN; omega)
  rw [nth_final, Nat.zero_add] at this
  exact ⟨by rw [timeVec_get _ _ h.dt_pos _ hk]; exact this.2.1, this.2.1⟩

/-- **first ice, without any trajectory hypothesis**: if some stored column of vial `i` shows ice and
`k₀` is the first one, the vial HAS a recorded nucleation time and it is at least `t[k₀]` (needs only
`JumpPos`, a condition on the constants discharged by `hyp_jump_of_valid`; it is
exactly `t[k₀]` when the vial keeps its ice, `tnuc_first_ice`; a vial that melted completely and
nucleated again carries the later time). -/
theorem tnuc_at_least_first_ice (hi : i < inp.nVials) (hdt : 0 < inp.p.dt) (hJ : JumpPos inp.p)
    (hice : never 0 (sigmaRow inp kCN i) = false) :
    ∃ τ, (finalV inp kCN i).tNuc = some τ ∧ timeAt inp.p.dt (crossIdx 0 (sigmaRow inp kCN i)) ≤ τ := by
  obtain ⟨hk, hpos, hfirst⟩ := row_cross inp kCN i 0 hice
  have hc := vtraj_chain inp kCN i hi
  have h0 := fresh_start inp kCN i hi
  have hlen : (vtraj inp kCN i).length = NN inp + 1 := vtraj_length inp kCN i
  have hk0 : 0 < crossIdx 0 (sigmaRow inp kCN i) := by
    rcases Nat.eq_zero_or_pos (crossIdx 0 (sigmaRow inp kCN i)) with h | h
    · rw [h, h0.1] at hpos; exact absurd hpos (lt_irrefl _)
    · exact h
  obtain ⟨j, hj⟩ : ∃ j, crossIdx 0 (sigmaRow inp kCN i) = j + 1 := ⟨_, (Nat.succ_pred_eq_of_pos hk0).symm⟩
  rw [hj] at hpos hfirst hk ⊢
  have hz := zero_before_first_ice hc h0 hJ (j + 1) hfirst j (by omega) (by omega)
  obtain ⟨q, _, _, ht, _⟩ := first_ice hc j (by omega) hz (ne_of_gt hpos)
  obtain ⟨b, hb, hab⟩ := tnuc_mono hc h0 (le_of_lt hdt) (j + 1) (NN inp) (by omega) (by omega) _ ht
  rw [nth_final] at hb
  refine ⟨b, hb, ?_⟩
  rw [Nat.zero_add, timeAt_succ] at hab
  exact hab

/-- **nucleation times lie on the grid**: `t_nucleation = (k+1)·dt` for an executed step `k < N`. -/
theorem tnuc_grid (hi : i < inp.nVials) (τ : ℝ) (hτ : (finalV inp kCN i).tNuc = some τ) :
    ∃ k, k < NN inp ∧ τ = ((k : ℝ) + 1) * inp.p.dt := by
  rw [← nth_final] at hτ
  obtain ⟨k', hk', e⟩ := tnuc_on_grid (vtraj_chain inp kCN i hi) (fresh_start inp kCN i hi) (NN inp)
    (by rw [vtraj_length]; unfold NN; omega) τ hτ
  refine ⟨k', hk', ?_⟩
  rw [e]; simp [timeAt]

/-- **the nucleation temperature is supercooled** … -/
theorem Tnuc_supercooled (hi : i < inp.nVials) (T : ℝ) (hT : (finalV inp kCN i).TNuc = some T) :
    T < inp.p.c.T_eq_l := by
  rw [← nth_final] at hT
  exact Tnuc_lt (vtraj_chain inp kCN i hi) (fresh_start inp kCN i hi) (NN inp)
    (by rw [vtraj_length]; unfold NN; omega) T hT

/-- … and is **the vial's temperature in the nucleating step**: with `k₀` the first column showing
ice, `S = traj[k₀−1]` the batch state stored in the column before and `T_sh = T_shelf[k₀−1]`,
`T_nucleation[i] = X_T[i, k₀−1] + q/hl·dt` where `q = heatFlow p (temps S) T_sh T_sh i` is the vial's
ACTUAL net heat flow in step `k₀−1` (neighbours + surroundings + shelf, C01) — the temperature after
that step's liquid update, which is below `T_eq_l`. -/
theorem Tnuc_step_temperature (h : Hyp inp kCN i) (hice : never 0 (sigmaRow inp kCN i) = false) :
    0 < crossIdx 0 (sigmaRow inp kCN i) ∧
    ∃ (S : State ℝ) (Tsh Tpre : ℝ),
      (runWith inp kCN).traj[crossIdx 0 (sigmaRow inp kCN i) - 1]? = some S ∧
      (runWith inp kCN).Tshelf[crossIdx 0 (sigmaRow inp kCN i) - 1]? = some Tsh ∧
      (tempRow inp kCN i)[crossIdx 0 (sigmaRow inp kCN i) - 1]? = some Tpre ∧
      (finalV inp kCN i).TNuc
        = some (Tpre + heatFlow inp.p (temps S) Tsh Tsh i / inp.p.c.hl * inp.p.dt) ∧
      Tpre + heatFlow inp.p (temps S) Tsh Tsh i / inp.p.c.hl * inp.p.dt < inp.p.c.T_eq_l := by
  obtain ⟨hk, hpos, hfirst⟩ := row_cross inp kCN i 0 hice
  have hc := vtraj_chain inp kCN i h.vial
  have hlen : (vtraj inp kCN i).length = NN inp + 1 := vtraj_length inp kCN i
  obtain ⟨h0, _, _, _, _⟩ := tnuc_of_first_ice hc (fresh_start inp kCN i h.vial)
    h.jump h.adm _ (NN inp) hpos hfirst (le_of_lt hk) (by omega)
  obtain ⟨j, hj⟩ : ∃ j, crossIdx 0 (sigmaRow inp kCN i) = j + 1 := ⟨_, (Nat.succ_pred_eq_of_pos h0).symm⟩
  rw [hj] at hpos hfirst hk ⊢
  have hz : (nth (vtraj inp kCN i) j).sigma = 0 :=
    zero_before_first_ice hc (fresh_start inp kCN i h.vial) h.jump (j + 1) hfirst j (by omega) (by omega)
  obtain ⟨S, Tsh, hS, hT, hN⟩ := Tnuc_exact inp kCN i j h.vial (by omega) hz (ne_of_gt hpos)
  have keep := solid_keeps hc (j + 1) (NN inp) (by omega) (by omega)
    (fun j' h1 h2 => ne_of_gt (h.adm.keeps (j + 1) j' h1 (by omega) hpos))
  rw [nth_final] at keep
  have hfin : (finalV inp kCN i).TNuc
      = some ((nth (vtraj inp kCN i) j).T + heatFlow inp.p (temps S) Tsh Tsh i / inp.p.c.hl * inp.p.dt) := by
    rw [keep.2, hN]
  refine ⟨Nat.succ_pos j, S, Tsh, (nth (vtraj inp kCN i) j).T, ?_, ?_, ?_, hfin, ?_⟩
  · simpa using hS
  · simpa using hT
  · simp only [Nat.add_sub_cancel]
    rw [← tempRow_get inp kCN i j (by omega)]
    exact List.getElem?_eq_getElem _
  · exact Tnuc_supercooled h.vial _ hfin

/-- **the solidification time**: if some column of vial `i` is above the threshold, then
`t_solidification[i] = t[k₁] − t_nucleation[i]` with `k₁` the first such column; if none is,
there is no solidification time. -/
theorem tsol_def (h : Hyp inp kCN i) :
    (never inp.p.threshold (sigmaRow inp kCN i) = false →
      ∃ τ, (finalV inp kCN i).tNuc = some τ ∧
        (finalV inp kCN i).tSol
          = some (timeAt inp.p.dt (crossIdx inp.p.threshold (sigmaRow inp kCN i)) - τ) ∧
        crossIdx 0 (sigmaRow inp kCN i) ≤ crossIdx inp.p.threshold (sigmaRow inp kCN i) ∧
        never 0 (sigmaRow inp kCN i) = false) ∧
    (never inp.p.threshold (sigmaRow inp kCN i) = true → (finalV inp kCN i).tSol = none) := by
  have hc := vtraj_chain inp kCN i h.vial
  have h0 := fresh_start inp kCN i h.vial
  have hlen : (vtraj inp kCN i).length = NN inp + 1 := vtraj_length inp kCN i
  have hT : ∀ j, j + 1 < (vtraj inp kCN i).length →
      TSolStep inp.p (0 + j) (nth (vtraj inp kCN i) j) (nth (vtraj inp kCN i) (j + 1)) := by
    intro j hj
    rw [Nat.zero_add]
    exact vtraj_tSolStep inp kCN i j h.vial (by unfold NN at hlen; omega) h.thr
  constructor
  · intro hthr
    obtain ⟨hk1, hgt, hf1⟩ := row_cross inp kCN i inp.p.threshold hthr
    set k1 := crossIdx inp.p.threshold (sigmaRow inp kCN i) with hk1def
    have hpos1 : 0 < (nth (vtraj inp kCN i) k1).sigma := lt_of_le_of_lt h.thr hgt
    have hice : never 0 (sigmaRow inp kCN i) = false := by
      cases hb : never 0 (sigmaRow inp kCN i)
      · rfl
      · exact absurd hpos1 (row_never inp kCN i 0 hb k1 hk1)
    obtain ⟨hk0, hpos0, hf0⟩ := row_cross inp kCN i 0 hice
    set k0 := crossIdx 0 (sigmaRow inp kCN i) with hk0def
    have hle : k0 ≤ k1 := by
      by_contra hcon
      exact hf0 k1 (by omega) hpos1
    have t1 := tnuc_of_first_ice hc h0 h.jump h.adm k0 k1 hpos0 hf0 hle (by omega)
    have tN := tnuc_of_first_ice hc h0 h.jump h.adm k0 (NN inp) hpos0 hf0 (by omega) (by omega)
    have ts := tsol_set h0 hT k1 (NN inp) _ hgt hf1 t1.2.1 hk1 (by omega)
    rw [nth_final] at tN ts
    rw [Nat.zero_add] at ts
    exact ⟨_, tN.2.1, ts, hle, hice⟩
  · intro hnev
    have := tsol_none h0 hT (NN inp) (by omega) (fun j hj => row_never inp kCN i _ hnev j hj)
    rwa [nth_final] at this

/-- **a solidification time is non-negative** -/
theorem tsol_nonneg (h : Hyp inp kCN i) (d : ℝ) (hd : (finalV inp kCN i).tSol = some d) : 0 ≤ d := by
  obtain ⟨h1, h2⟩ := tsol_def h
  cases hb : never inp.p.threshold (sigmaRow inp kCN i)
  · obtain ⟨τ, hτ, hs, hle, hice⟩ := h1 hb
    have hτ' := (tnuc_first_ice h hice).2
    rw [hτ] at hτ'
    rw [hs] at hd
    have e1 := Option.some.inj hd
    have e2 := Option.some.inj hτ'
    rw [← e1, e2]
    have := (timeAt_mono inp.p.dt h.dt_pos _ _).mpr hle
    linarith
  · rw [h2 hb] at hd; exact absurd hd (by simp)

/-- **a solidification time exists only for nucleated vials** -/
theorem tsol_only_if_nucleated (hi : i < inp.nVials) (h : (finalV inp kCN i).tSol ≠ none) :
    (finalV inp kCN i).tNuc ≠ none := by
  rw [← nth_final] at h ⊢
  exact tsol_needs_tnuc (vtraj_chain inp kCN i hi) (fresh_start inp kCN i hi) (NN inp)
    (by rw [vtraj_length]; unfold NN; omega) h


/-- **values derived from the stored states equal the recorded ones** (times): for a stored
vial whose ice is visible in some column (i.e. that did not nucleate in the very last step — see
`tnuc_last_step_counterexample`), `nucleationTimes(fromStates=True)` and
`solidificationTimes(fromStates=True)` return the recorded `t_nucleation` / `t_solidification`. -/
theorem fromStates_times_eq (h : Hyp inp kCN i)
    (hvis : (finalV inp kCN i).tNuc ≠ none → never 0 (sigmaRow inp kCN i) = false) :
    tNucStates [true] (timeVec (NN inp) inp.p.dt) [sigmaRow inp kCN i] = [(finalV inp kCN i).tNuc] ∧
    tSolStates inp.p.threshold [true] (timeVec (NN inp) inp.p.dt) [sigmaRow inp kCN i]
      = [(finalV inp kCN i).tSol] := by
  obtain ⟨s1, s2⟩ := tsol_def h
  simp only [tSolStates, tNucStates, crossTimes, scatter, List.map_cons, List.map_nil, List.zipWith_cons_cons,
    List.zipWith_nil_right, zero_real]
  cases hb : never 0 (sigmaRow inp kCN i)
  · -- ice visible
    obtain ⟨e1, e2⟩ := tnuc_first_ice h hb
    refine ⟨by simp [e1], ?_⟩
    cases hb2 : never inp.p.threshold (sigmaRow inp kCN i)
    · obtain ⟨τ, hτ, hs, _, _⟩ := s1 hb2
      obtain ⟨hk1, _, _⟩ := row_cross inp kCN i _ hb2
      rw [hτ] at e1 e2
      have : τ = timeAt inp.p.dt (crossIdx 0 (sigmaRow inp kCN i)) := Option.some.inj e2
      simp [timeVec_get _ _ h.dt_pos _ hk1, ← e1, optSub, hs]
    · simp [optSub, s2 hb2]
  · have hn : (finalV inp kCN i).tNuc = none := by
      by_contra hne
      rw [hvis hne] at hb; exact absurd hb (by simp)
    have hb2 : never inp.p.threshold (sigmaRow inp kCN i) = true := by
      rw [never_iff] at hb ⊢
      intro x hx hlt
      exact hb x hx (lt_of_le_of_lt h.thr hlt)
    simp [hn, hb2, optSub, s2 hb2]

/-- **values derived from the stored states** (temperature) — the true weaker statement:
`nucleationTemperatures(fromStates=True)` returns `Tpre = X_T[i, k₀−1]`, the temperature stored in the
column BEFORE the first ice, and the recorded `T_nucleation` is `Tpre + q/hl·dt` with `q` the vial's
ACTUAL net heat flow in step `k₀−1` (`heatFlow` of the stored batch state and shelf sample): the two
differ by exactly that step's sensible temperature change (they are NOT equal, see
`fromStates_Tnuc_counterexample`). -/
theorem fromStates_Tnuc_within_one_step (h : Hyp inp kCN i) (hice : never 0 (sigmaRow inp kCN i) = false) :
    ∃ (S : State ℝ) (Tsh Tpre : ℝ),
      (runWith inp kCN).traj[crossIdx 0 (sigmaRow inp kCN i) - 1]? = some S ∧
      (runWith inp kCN).Tshelf[crossIdx 0 (sigmaRow inp kCN i) - 1]? = some Tsh ∧
      TNucStates [true] [tempRow inp kCN i] [sigmaRow inp kCN i] = [some Tpre] ∧
      (finalV inp kCN i).TNuc
        = some (Tpre + heatFlow inp.p (temps S) Tsh Tsh i / inp.p.c.hl * inp.p.dt) := by
  obtain ⟨h0, S, Tsh, Tpre, hS, hTs, hT, hN, _⟩ := Tnuc_step_temperature h hice
  refine ⟨S, Tsh, Tpre, hS, hTs, ?_, hN⟩
  simp only [TNucStates, scatter, List.zip_cons_cons, List.zip_nil_right, List.map_cons, List.map_nil, zero_real,
    hice]
  simp [getWrapPrev, Nat.ne_of_gt h0, hT]

/-- **the counter on the states path** counts the stored vials whose `σ` exceeds the threshold in
the column of the FIRST GRID TIME ≥ t; for a query time beyond the last stored time (no grid time
reaches it) it counts them in the LAST stored column (repaired accessor, /repo 9deb6c8). -/
theorem counter_states (times : List ℝ) (thr : Option ℝ) (solThr : ℝ) (t : List ℝ) (Xs : List (List ℝ))
    (a b : List (Option ℝ)) :
    sigmaCounter true times thr solThr true t Xs a b
      = .ok (times.map fun q => countAbove (thr.getD solThr) Xs (timeIdx t q)) ∧
    (∀ q, (∃ x ∈ t, q ≤ x) →
      ∃ hI : timeIdx t q < t.length, q ≤ t[timeIdx t q] ∧ ∀ j (hj : j < t.length), j < timeIdx t q → t[j] < q) ∧
    (∀ q, (∀ x ∈ t, x < q) → timeIdx t q = t.length - 1) := by
  refine ⟨?_, ?_, fun q hq => timeIdx_beyond t q hq⟩
  · simp only [sigmaCounter, Bool.not_true, Bool.false_eq_true, if_false]
    induction times with
    | nil => rfl
    | cons q r ih => simp only [List.mapM_cons, List.map_cons, ih]; rfl
  · intro q hq
    rw [timeIdx_of_reached t q hq]
    obtain ⟨x, hx, hqx⟩ := hq
    obtain ⟨hI, h1, h2⟩ := argmaxBool_spec (fun x => decide (q ≤ x)) t ⟨x, hx, by simpa using hqx⟩
    refine ⟨hI, by simpa [timeIdxOld] using h1, ?_⟩
    intro j hj hlt
    have := h2 j hj hlt
    simpa [timeIdxOld] using this

/-- **beyond the last stored time the two paths agree** (full recording, repaired accessor): for a
query time `t[N−1] < q < N·dt` the states path counts `#{i | X_sigma[i, N−1] > 0}` (last stored
column), the stats path counts `#{i | t_nucleation[i] ≤ q}`, and the two numbers are equal.  (From
`q ≥ N·dt` on the stats path additionally counts the vials that nucleated in the last step, K3.) -/
theorem counter_nuc_stats_beyond_end (hall : ∀ i, i < inp.nVials → Hyp inp kCN i) (hN : 0 < NN inp)
    (q : ℝ) (h1 : timeAt inp.p.dt (NN inp - 1) < q) (h2 : q < timeAt inp.p.dt (NN inp))
    (solThr : ℝ) (sS : List (Option ℝ)) :
    let t := timeVec (NN inp) inp.p.dt
    let Xs := (List.range inp.nVials).map (sigmaRow inp kCN)
    let sT := (List.range inp.nVials).map fun i => (finalV inp kCN i).tNuc
    (0 < inp.nVials → sigmaCounter true [q] (some 0) solThr true t Xs sT sS = .ok [countAbove 0 Xs (NN inp - 1)]) ∧
    sigmaCounter true [q] (some 0) solThr false t Xs sT sS = .ok [countLe sT q] ∧
    countLe sT q = countAbove 0 Xs (NN inp - 1) := by
  intro t Xs sT
  refine ⟨?_, by simp [sigmaCounter, sigmaCount1], ?_⟩
  · intro hn
    have hdt := (hall 0 hn).dt_pos
    have hI : timeIdx t q = NN inp - 1 := by
      have hb : ∀ x ∈ t, x < q := by
        intro x hx
        simp only [t] at hx
        rw [Snow.CNT.timeVec_real _ hdt] at hx
        obtain ⟨k, hk, rfl⟩ := List.mem_map.mp hx
        have hk' : k ≤ NN inp - 1 := by have := List.mem_range.mp hk; omega
        have := (timeAt_mono inp.p.dt hdt k (NN inp - 1)).mpr hk'
        simp only [timeAt, ofNat'_real] at this h1
        linarith
      rw [timeIdx_beyond t q hb]
      simp [t, Snow.CNT.timeVec_length _ hdt]
    simp only [sigmaCounter, Bool.not_true, Bool.false_eq_true, if_false, sigmaCount1, if_true,
      Option.getD_some, List.mapM_cons, List.mapM_nil, hI]
    rfl
  · simp only [countLe, countAbove, sT, Xs, List.countP_map]
    apply List.countP_congr
    intro i hi
    have hi' : i < inp.nVials := List.mem_range.mp hi
    have h := hall i hi'
    have hm : NN inp - 1 < NN inp := by omega
    have hiff := nucleated_by_iff inp kCN i hi' h.dt_pos h.jump h.adm (NN inp - 1) hm
    have hrow : (sigmaRow inp kCN i)[NN inp - 1]? = some (nth (vtraj inp kCN i) (NN inp - 1)).sigma := by
      rw [← sigmaRow_get inp kCN i _ hm]; exact List.getElem?_eq_getElem _
    simp only [Function.comp, hrow, decide_eq_true_eq]
    -- a recorded time is (k+1)·dt with k < N: `≤ q < N·dt` is the same as `≤ t[N−1]`
    have grid : ∀ τ, (finalV inp kCN i).tNuc = some τ → (τ ≤ q ↔ τ ≤ timeAt inp.p.dt (NN inp - 1)) := by
      intro τ hτ
      obtain ⟨k, hk, e⟩ := tnuc_grid hi' τ hτ
      constructor
      · intro hle
        have hlt : τ < timeAt inp.p.dt (NN inp) := lt_of_le_of_lt hle h2
        have e' : τ = timeAt inp.p.dt (k + 1) := by rw [e]; simp [timeAt]
        rw [e'] at hlt ⊢
        have : k + 1 < NN inp := by
          by_contra hcon
          have := (timeAt_mono inp.p.dt h.dt_pos (NN inp) (k + 1)).mpr (by omega)
          linarith
        exact (timeAt_mono inp.p.dt h.dt_pos _ _).mpr (by omega)
      · intro hle; exact le_of_lt (lt_of_le_of_lt hle h1)
    constructor
    · intro hh
      cases ht : (finalV inp kCN i).tNuc with
      | none => rw [ht] at hh; exact absurd hh (by simp)
      | some τ =>
        rw [ht] at hh
        exact hiff.mp ⟨τ, ht, (grid τ ht).mp (by simpa using hh)⟩
    · intro hh
      obtain ⟨τ, ht, hle⟩ := hiff.mpr hh
      rw [ht]; simpa using (grid τ ht).mpr hle

/-- **the counters of nucleated vials agree with the trajectories** at every on-grid time `t[m]`
(full recording): the stats path counts `#{i | t_nucleation[i] ≤ t[m]}`, the states path counts
`#{i | X_sigma[i, m] > 0}`, and the two numbers are equal. -/
theorem counter_nuc_stats (hall : ∀ i, i < inp.nVials → Hyp inp kCN i) (m : Nat) (hm : m < NN inp)
    (solThr : ℝ) (sS : List (Option ℝ)) :
    let t := timeVec (NN inp) inp.p.dt
    let Xs := (List.range inp.nVials).map (sigmaRow inp kCN)
    let sT := (List.range inp.nVials).map fun i => (finalV inp kCN i).tNuc
    sigmaCounter true [timeAt inp.p.dt m] (some 0) solThr false t Xs sT sS = .ok [countLe sT (timeAt inp.p.dt m)] ∧
    sigmaCounter true [timeAt inp.p.dt m] (some 0) solThr true t Xs sT sS = .ok [countAbove 0 Xs m] ∧
    countLe sT (timeAt inp.p.dt m) = countAbove 0 Xs m := by
  intro t Xs sT
  have hdt : 0 < inp.p.dt ∨ inp.nVials = 0 := by
    rcases Nat.eq_zero_or_pos inp.nVials with h | h
    · right; exact h
    · left; exact (hall 0 h).dt_pos
  refine ⟨?_, ?_, ?_⟩
  · simp [sigmaCounter, sigmaCount1]
  · rcases hdt with hdt | h0
    · simp only [sigmaCounter, Bool.not_true, Bool.false_eq_true, if_false, sigmaCount1, if_true,
        Option.getD_some, List.mapM_cons, List.mapM_nil]
      rw [show timeIdx t (timeAt inp.p.dt m) = m from timeIdx_grid _ _ hdt m hm]
      rfl
    · simp [sigmaCounter, sigmaCount1, Xs, h0, countAbove]
  · simp only [countLe, countAbove, sT, Xs, List.countP_map]
    apply List.countP_congr
    intro i hi
    have hi' : i < inp.nVials := List.mem_range.mp hi
    have h := hall i hi'
    have hiff := nucleated_by_iff inp kCN i hi' h.dt_pos h.jump h.adm m hm
    have hrow : (sigmaRow inp kCN i)[m]? = some (nth (vtraj inp kCN i) m).sigma := by
      rw [← sigmaRow_get inp kCN i m hm]; exact List.getElem?_eq_getElem _
    simp only [Function.comp, hrow, decide_eq_true_eq]
    constructor
    · intro hh
      cases ht : (finalV inp kCN i).tNuc with
      | none => rw [ht] at hh; exact absurd hh (by simp)
      | some τ =>
        rw [ht] at hh
        exact hiff.mp ⟨τ, ht, by simpa using hh⟩
    · intro hh
      obtain ⟨τ, ht, hle⟩ := hiff.mpr hh
      rw [ht]; simpa using hle

/-- **K3**: a vial that nucleates in the LAST step gets `t_nucleation = N·dt`, which is not a grid
time of the process (the grid ends at `(N−1)·dt`), no stored column shows its ice, and the
states-derived nucleation time is NaN while the recorded one is not. -/
theorem tnuc_last_step_counterexample (kCN : Nat) :
    NN (cexInp 0) = 1 ∧ timeVec 1 (cexInp 0).p.dt = [0] ∧
    (finalV (cexInp 0) kCN 0).tNuc = some 1 ∧
    sigmaRow (cexInp 0) kCN 0 = [0] ∧
    tNucStates [true] (timeVec 1 (cexInp 0).p.dt) [sigmaRow (cexInp 0) kCN 0] = [none] := by
  refine ⟨cex_NN0, ?_, ?_, cex0_sigmaRow kCN, ?_⟩
  · rw [Snow.CNT.timeVec_real 1 (by simp [cexInp])]; simp
  · rw [finalV, cex0_final]; simp [vAt, cexS1, cexV1]
  · rw [cex0_sigmaRow]; simp [tNucStates, crossTimes, scatter, never]

/-- **K2**: `nucleationTemperatures(fromStates=True)` (−10, the temperature stored before the
nucleating step) differs from the recorded `T_nucleation` (−20, after that step's update). -/
theorem fromStates_Tnuc_counterexample (kCN : Nat) :
    TNucStates [true] [tempRow (cexInp 2) kCN 0] [sigmaRow (cexInp 2) kCN 0] = [some (-10)] ∧
    (finalV (cexInp 2) kCN 0).TNuc = some (-20) := by
  constructor
  · rw [cex2_sigmaRow, cex2_tempRow]
    have hc := crossIdx_eq (0:ℝ) [0, 2⁻¹, 41/44] 1 (by simp) (by norm_num)
      (by intro j hj hlt; have : j = 0 := by omega
          subst this; norm_num)
    simp [TNucStates, scatter, getWrapPrev]
    exact ⟨hc.2, by rw [hc.1]; simp⟩
  · rw [finalV, cex2_final]; exact (cex_step2 2 kCN _).2.1


/-- **K4**: `sigmaCounter(t)` on the stats path compares the solidification DURATION with the clock
time `t`.  Here the vial nucleates in step 0 (`t_nucleation = 1`) above the threshold `1/4`, so
`t_solidification = t[1] − 1 = 0`; at clock time `t = 0` no trajectory is above the threshold (the
states path counts 0) but the stats path counts the vial (`0 ≤ 0`). -/
theorem counter_sol_stats_counterexample (kCN : Nat) :
    (finalV (cexInp 2) kCN 0).tNuc = some 1 ∧ (finalV (cexInp 2) kCN 0).tSol = some 0 ∧
    sigmaCounter true [0] none (cexInp 2).p.threshold false (timeVec 3 (cexInp 2).p.dt)
        [sigmaRow (cexInp 2) kCN 0] [(finalV (cexInp 2) kCN 0).tNuc] [(finalV (cexInp 2) kCN 0).tSol] = .ok [1] ∧
    sigmaCounter true [0] none (cexInp 2).p.threshold true (timeVec 3 (cexInp 2).p.dt)
        [sigmaRow (cexInp 2) kCN 0] [(finalV (cexInp 2) kCN 0).tNuc] [(finalV (cexInp 2) kCN 0).tSol] = .ok [0] := by
  have h1 : (finalV (cexInp 2) kCN 0).tNuc = some 1 := by rw [finalV, cex2_final]; exact (cex_step2 2 kCN _).1
  have h2 : (finalV (cexInp 2) kCN 0).tSol = some 0 := by rw [finalV, cex2_final]; exact (cex_step2 2 kCN _).2.2
  have ht : timeVec 3 (cexInp 2).p.dt = [0, 1, 2] := by
    rw [Snow.CNT.timeVec_real 3 (by simp [cexInp])]; simp [cexInp, List.range_succ]
  refine ⟨h1, h2, ?_, ?_⟩
  · rw [h1, h2]
    simp [sigmaCounter, sigmaCount1, cexInp, countLe]
  · rw [h1, h2, ht, cex2_sigmaRow]
    have hI : timeIdx ([0, 1, 2] : List ℝ) 0 = 0 := by
      rw [timeIdx_of_reached _ _ ⟨0, by simp, le_refl _⟩]
      unfold timeIdxOld
      exact argmaxBool_eq _ _ 0 (by simp) (by simp) (by intro j hj hlt; omega)
    simp [sigmaCounter, sigmaCount1, cexInp, countAbove, hI]


/-- the same for the whole vectors under full recording: the accessor model applied to the state
matrix of the run returns the run's `stats` arrays. -/
theorem fromStates_times_eq_all (inp : Inputs ℝ) (kCN : Nat) (hall : ∀ i, i < inp.nVials → Hyp inp kCN i)
    (hvis : ∀ i, i < inp.nVials → (finalV inp kCN i).tNuc ≠ none → never 0 (sigmaRow inp kCN i) = false) :
    let t := timeVec (NN inp) inp.p.dt
    let Xs := (List.range inp.nVials).map (sigmaRow inp kCN)
    let mask := List.replicate inp.nVials true
    tNucStates mask t Xs = (runWith inp kCN).tNucleation ∧
    tSolStates inp.p.threshold mask t Xs = (runWith inp kCN).tSolidification := by
  intro t Xs mask
  obtain ⟨e1, e2⟩ := stats_eq_finalV inp kCN
  have hlen : ∀ thr, (crossTimes thr t Xs).length = inp.nVials := by intro thr; simp [crossTimes, Xs]
  have hs : ∀ thr, scatter mask (crossTimes thr t Xs) = crossTimes thr t Xs := by
    intro thr
    have := scatter_all_true (crossTimes thr t Xs)
    rwa [hlen thr] at this
  have key : ∀ i, i < inp.nVials →
      (if never 0 (sigmaRow inp kCN i) then none else t[crossIdx 0 (sigmaRow inp kCN i)]?) = (finalV inp kCN i).tNuc ∧
      optSub (if never inp.p.threshold (sigmaRow inp kCN i) then none
              else t[crossIdx inp.p.threshold (sigmaRow inp kCN i)]?)
             (if never 0 (sigmaRow inp kCN i) then none else t[crossIdx 0 (sigmaRow inp kCN i)]?)
        = (finalV inp kCN i).tSol := by
    intro i hi
    have := fromStates_times_eq (hall i hi) (hvis i hi)
    simp only [tSolStates, tNucStates, crossTimes, scatter, List.map_cons, List.map_nil, List.zipWith_cons_cons,
      List.zipWith_nil_right, zero_real, List.cons.injEq, and_true] at this
    exact this
  constructor
  · rw [e1, tNucStates, hs]
    simp only [crossTimes, Xs, List.map_map, zero_real]
    apply List.map_congr_left
    intro i hi
    exact (key i (List.mem_range.mp hi)).1
  · rw [e2, tSolStates, tNucStates, hs, hs]
    simp only [crossTimes, Xs, List.map_map, zero_real, List.zipWith_map_left,
      List.zipWith_map_right, List.zipWith_self]
    apply List.map_congr_left
    intro i hi
    exact (key i (List.mem_range.mp hi)).2


/-- the hypothesis `jump` of `Hyp` holds for every physically valid set of constants
(`Phys.Valid`), in both formulations of the initial ice. -/
theorem hyp_jump_of_valid (ph : Phys) (hv : ph.Valid) (p : Params ℝ) (hc : p.c = ph.consts) : JumpPos p :=
  jumpPos_of_valid ph hv p hc

/-- **K9, refutation of the OLD code** (before /repo 9deb6c8): for a query time BEYOND the last stored
time `np.argmax(self._t >= t)` of an all-False array is 0, so the old states path of `sigmaCounter`
read the INITIAL column: here (`t = 5 > 2`) `timeIdxOld = 0` and the old count is 0 although the last
stored column holds ice (`σ = 41/44`) and the stats path counts the vial (`t_nucleation = 1 ≤ 5`).
The REPAIRED accessor (`timeIdx`, last stored column) counts 1, like the stats path. -/
theorem counter_states_beyond_end_counterexample (kCN : Nat) :
    timeVec 3 (cexInp 2).p.dt = [0, 1, 2] ∧ sigmaRow (cexInp 2) kCN 0 = [0, 1/2, 41/44] ∧
    timeIdxOld (timeVec 3 (cexInp 2).p.dt) 5 = 0 ∧
    countAbove 0 [sigmaRow (cexInp 2) kCN 0] (timeIdxOld (timeVec 3 (cexInp 2).p.dt) 5) = 0 ∧
    sigmaCounter true [5] (some 0) (cexInp 2).p.threshold true (timeVec 3 (cexInp 2).p.dt)
        [sigmaRow (cexInp 2) kCN 0] [(finalV (cexInp 2) kCN 0).tNuc] [(finalV (cexInp 2) kCN 0).tSol] = .ok [1] ∧
    sigmaCounter true [5] (some 0) (cexInp 2).p.threshold false (timeVec 3 (cexInp 2).p.dt)
        [sigmaRow (cexInp 2) kCN 0] [(finalV (cexInp 2) kCN 0).tNuc] [(finalV (cexInp 2) kCN 0).tSol] = .ok [1] := by
  have h1 : (finalV (cexInp 2) kCN 0).tNuc = some 1 := by rw [finalV, cex2_final]; exact (cex_step2 2 kCN _).1
  have ht : timeVec 3 (cexInp 2).p.dt = [0, 1, 2] := by
    rw [Snow.CNT.timeVec_real 3 (by simp [cexInp])]; simp [cexInp, List.range_succ]
  have hb : ∀ x ∈ ([0, 1, 2] : List ℝ), x < 5 := by
    intro x hx
    simp only [List.mem_cons, List.not_mem_nil, or_false] at hx
    rcases hx with rfl | rfl | rfl <;> norm_num
  have hOld : timeIdxOld ([0, 1, 2] : List ℝ) 5 = 0 := timeIdxOld_beyond _ _ hb
  have hNew : timeIdx ([0, 1, 2] : List ℝ) 5 = 2 := by rw [timeIdx_beyond _ _ hb]; rfl
  refine ⟨ht, cex2_sigmaRow kCN, by rw [ht]; exact hOld, ?_, ?_, ?_⟩
  · rw [ht, hOld, cex2_sigmaRow]; simp [countAbove]
  · rw [ht, cex2_sigmaRow]
    simp [sigmaCounter, sigmaCount1, countAbove, hNew]
  · rw [h1]
    simp [sigmaCounter, sigmaCount1, countLe]

/-- **the rows the theorems speak about are rows of the model's stored matrix** (full recording):
column `k` of `Result.X` holds `tempRow i` at position `i` and `sigmaRow i` at position `n + i` —
exactly what the accessors read as `X_T[i, k]` and `X_sigma[i, k]`. -/
theorem rows_are_stored_matrix (inp : Inputs ℝ) (kCN i k : Nat) (hi : i < inp.nVials) (hk : k < NN inp) :
    ∃ col, ((runWith inp kCN).X (List.replicate inp.nVials true))[k]? = some col ∧
      col[i]? = (tempRow inp kCN i)[k]? ∧ col[inp.nVials + i]? = (sigmaRow inp kCN i)[k]? ∧
      (tempRow inp kCN i)[k]? ≠ none :=
  X_rows inp kCN i k hi hk

/-- **where the monitored hypothesis comes from**: `Hyp.adm` follows from C06's run invariant
`C06.TrajAdm` (every vial of every stored column is liquid with no record, or holds `0 < σ < 1` on
the equilibrium curve with a record), which C06 `run_admissible_partial` derives from the stability
condition `Stable` and the per-step side condition `SideCond` — itself monitored on the real runs.
So the trajectory hypothesis of the C12 theorems is exactly C06's conditional invariant. -/
theorem adm_of_trajAdm {ph : Phys} (inp : Inputs ℝ) (kCN i : Nat) (hi : i < inp.nVials) (hdt : 0 < inp.p.dt)
    (hadm : C06.TrajAdm ph inp.p kCN 0 (profile inp.oc inp.p.dt) (init inp)) :
    Adm (vtraj inp kCN i) := by
  have hlen : (vtraj inp kCN i).length = NN inp + 1 := vtraj_length inp kCN i
  have colAdm : ∀ j, j < NN inp → ∃ (S : State ℝ) (v : Vial ℝ), (runWith inp kCN).traj[j]? = some S ∧
      S.vials[i]? = some v ∧ nth (vtraj inp kCN i) j = v ∧ C06.Adm ph v := by
    intro j hj
    obtain ⟨S, v, hS, hv, hn⟩ := col_vial inp kCN i j hi hj
    refine ⟨S, v, hS, hv, hn, ?_⟩
    have hS' : (trajList inp.p kCN 0 (profile inp.oc inp.p.dt) (init inp))[j]? = some S := by
      rw [← runWith_traj, Array.getElem?_toList]; exact hS
    exact hadm j S hS' i v hv
  constructor
  · intro j m hjm hm hpos
    obtain ⟨Sj, vj, hSj, hvj, hnj, _⟩ := colAdm j (by omega)
    obtain ⟨Sm, vm, hSm, hvm, hnm, ham⟩ := colAdm m (by omega)
    obtain ⟨vf, hf, hiff⟩ := C06.ice_iff_recorded inp kCN hdt hadm j Sj hSj i vj hvj
    obtain ⟨vf', hf', hiff'⟩ := C06.ice_iff_recorded inp kCN hdt hadm m Sm hSm i vm hvm
    rw [hf] at hf'
    have e : vf = vf' := Option.some.inj hf'
    subst e
    rw [hnj] at hpos
    obtain ⟨t, ht, hle⟩ := hiff.mp (ne_of_gt hpos)
    have hne : vm.sigma ≠ 0 :=
      hiff'.mpr ⟨t, ht, le_trans hle ((timeAt_mono inp.p.dt hdt j m).mpr hjm)⟩
    rw [hnm]
    exact (C06.adm_solid ham hne).1

/-- **the monitored hypothesis is a theorem for thermally uncoupled vials** (`k_int·A = 0`, any
start temperature inside C06's stability range): `Hyp.adm` of every vial follows from
`C06.trajAdm_uncoupled`, so for these runs every "full-under-monitored-hypothesis" theorem of this
file holds with nothing monitored. -/
theorem adm_uncoupled {ph : Phys} (inp : Inputs ℝ) (kCN i : Nat) (hi : i < inp.nVials) (hiT : ℝ)
    (hwf : Snow.C05.WF inp.oc inp.p.dt)
    (st : C06.Stable ph inp.p inp.nVials inp.oc.stop hiT)
    (hk : inp.p.kInt * inp.p.A = 0)
    (hT0 : inp.oc.start ≤ inp.T0) (hT0hi : inp.T0 ≤ hiT) (hstart : inp.oc.start ≤ hiT) :
    Adm (vtraj inp kCN i) :=
  adm_of_trajAdm inp kCN i hi st.dt_pos (C06.trajAdm_uncoupled inp kCN hiT hwf st hk hT0 hT0hi hstart)

/-- **the monitored hypothesis is a theorem for a process that starts at or below the liquidus**
(`C06.Stable` with `hi = T_eq_l`, static inequality `C06.StaticSide`): from
`C06.trajAdm_below_liquidus`. -/
theorem adm_below_liquidus {ph : Phys} (inp : Inputs ℝ) (kCN i : Nat) (hi : i < inp.nVials)
    (hwf : Snow.C05.WF inp.oc inp.p.dt)
    (st : C06.Stable ph inp.p inp.nVials inp.oc.stop ph.TeqL)
    (hstat : C06.StaticSide ph inp.p inp.nVials inp.oc.stop)
    (hT0 : inp.oc.start ≤ inp.T0) (hT0hi : inp.T0 ≤ ph.TeqL) (hstart : inp.oc.start ≤ ph.TeqL) :
    Adm (vtraj inp kCN i) :=
  adm_of_trajAdm inp kCN i hi st.dt_pos (C06.trajAdm_below_liquidus inp kCN hwf st hstat hT0 hT0hi hstart)

/-- `adm_uncoupled` is not vacuous: its hypotheses hold for the concrete run with ice of
`Lemmas/FlakeExRun.lean` (one vial, `k_int = 0`; `Stable`/`WF` from `C06.nonvacuous_run`), so the
trajectory hypothesis of that run's vial is a theorem. -/
theorem nonvacuous_adm_uncoupled : Adm (vtraj Snow.FlakeExRun.xInp 0 0) := by
  open Snow.FlakeExRun in
  have h := C06.nonvacuous_run
  have h0 : xInp.oc.start ≤ xInp.T0 := by simp only [xInp]; norm_num
  have h1 : xInp.T0 ≤ -1 := by simp only [xInp]; norm_num
  have h2 : xInp.oc.start ≤ -1 := by simp [xInp]
  have hk : xInp.p.kInt * xInp.p.A = 0 := by simp [xInp, xParams]
  have hn : 0 < xInp.nVials := by simp [xInp]
  exact adm_uncoupled (ph := xPhys) xInp 0 0 hn (-1) h.1 h.2.1 hk h0 h1 h2

/-- the trajectory hypothesis as a condition on the vial's own stored row `X_sigma[i, :]` -/
theorem hyp_adm_of_row (inp : Inputs ℝ) (kCN i : Nat) (h : StaysIce (sigmaRow inp kCN i)) :
    Adm (vtraj inp kCN i) := adm_of_row inp kCN i h

/-! ### the true statements next to the three refuted clauses -/

/-- **K3, what does hold**: a recorded nucleation time is positive, at most `N·dt`, and it lies on the
process grid (`≤ t[N−1]`) unless it is exactly `N·dt` (nucleation in the last step,
`tnuc_last_step_counterexample`).  No trajectory hypothesis. -/
theorem tnuc_within_process_weak (hi : i < inp.nVials) (hdt : 0 < inp.p.dt) (τ : ℝ)
    (hτ : (finalV inp kCN i).tNuc = some τ) :
    0 < τ ∧ τ ≤ timeAt inp.p.dt (NN inp) ∧
      (τ = timeAt inp.p.dt (NN inp) ∨ (0 < NN inp ∧ τ ≤ timeAt inp.p.dt (NN inp - 1))) := by
  obtain ⟨k, hk, e⟩ := tnuc_grid hi τ hτ
  have e' : τ = timeAt inp.p.dt (k + 1) := by rw [e]; simp [timeAt]
  refine ⟨by rw [e]; positivity, ?_, ?_⟩
  · rw [e']; exact (timeAt_mono inp.p.dt hdt _ _).mpr (by omega)
  · rcases Nat.lt_or_ge (k + 1) (NN inp) with h | h
    · right; exact ⟨by omega, by rw [e']; exact (timeAt_mono inp.p.dt hdt _ _).mpr (by omega)⟩
    · left; rw [e']; congr 1; omega

/-- **K2, what does hold — as an equation**: the states-derived nucleation temperature `a` and the
recorded one `b` satisfy `a = b − q/hl·dt` with `q` the vial's actual net heat flow in the
nucleating step `k₀−1` (so they differ by EXACTLY that step's sensible update, and are equal iff
`q = 0`). -/
theorem fromStates_Tnuc_eq_minus_update (h : Hyp inp kCN i) (hice : never 0 (sigmaRow inp kCN i) = false) :
    ∃ (S : State ℝ) (Tsh a b : ℝ),
      (runWith inp kCN).traj[crossIdx 0 (sigmaRow inp kCN i) - 1]? = some S ∧
      (runWith inp kCN).Tshelf[crossIdx 0 (sigmaRow inp kCN i) - 1]? = some Tsh ∧
      TNucStates [true] [tempRow inp kCN i] [sigmaRow inp kCN i] = [some a] ∧
      (finalV inp kCN i).TNuc = some b ∧
      a = b - heatFlow inp.p (temps S) Tsh Tsh i / inp.p.c.hl * inp.p.dt := by
  obtain ⟨S, Tsh, Tpre, hS, hT, hA, hB⟩ := fromStates_Tnuc_within_one_step h hice
  exact ⟨S, Tsh, Tpre, _, hS, hT, hA, hB, by ring⟩

/-- **K4, what does hold (1)**: on the stats path with the solidification threshold (`> 0`) the counter
IS `#{i | t_solidification[i] ≤ t}` — the solidification DURATION compared with the clock time. -/
theorem counter_sol_stats_is_duration_count (q solThr : ℝ) (hthr : 0 < solThr) (t : List ℝ)
    (Xs : List (List ℝ)) (sT sS : List (Option ℝ)) :
    sigmaCounter true [q] none solThr false t Xs sT sS = .ok [countLe sS q] := by
  simp [sigmaCounter, sigmaCount1, hthr]

/-- **K4, what does hold (2)**: that count is never BELOW the number of vials solidified by clock
time `t` (`t_nucleation + t_solidification ≤ t`, the time of the threshold crossing, see
`tnuc_plus_tsol_is_crossing_time`): the stats counter over-counts, it never under-counts. -/
theorem counter_sol_stats_overcounts (hdt : 0 < inp.p.dt) (q : ℝ) :
    (List.range inp.nVials).countP (fun i =>
        match (finalV inp kCN i).tNuc, (finalV inp kCN i).tSol with
        | some τ, some d => decide (τ + d ≤ q)
        | _, _ => false)
      ≤ countLe ((List.range inp.nVials).map fun i => (finalV inp kCN i).tSol) q := by
  simp only [countLe, List.countP_map]
  apply List.countP_mono_left
  intro i hi hp
  have hi' : i < inp.nVials := List.mem_range.mp hi
  cases hτ : (finalV inp kCN i).tNuc with
  | none => simp [hτ] at hp
  | some τ =>
    cases hd : (finalV inp kCN i).tSol with
    | none => simp [hτ, hd] at hp
    | some d =>
      simp only [hτ, hd, decide_eq_true_eq] at hp
      have := (tnuc_within_process_weak hi' hdt τ hτ).1
      simp only [Function.comp, hd, decide_eq_true_eq]
      linarith

/-- the clock time at which vial `i` crosses the threshold is `t_nucleation + t_solidification` -/
theorem tnuc_plus_tsol_is_crossing_time (h : Hyp inp kCN i)
    (hthr : never inp.p.threshold (sigmaRow inp kCN i) = false) :
    ∃ τ d, (finalV inp kCN i).tNuc = some τ ∧ (finalV inp kCN i).tSol = some d ∧
      τ + d = timeAt inp.p.dt (crossIdx inp.p.threshold (sigmaRow inp kCN i)) := by
  obtain ⟨τ, hτ, hs, _, _⟩ := (tsol_def h).1 hthr
  exact ⟨τ, _, hτ, hs, by ring⟩

/-! ### non-vacuity -/

/-- every hypothesis set of the theorems above is satisfiable on ONE concrete run (one vial, three
steps, the vial nucleates in step 0 and is above the threshold from column 1 on): `Hyp`
(`tnuc_first_ice`, `tsol_def`, …), visible ice and a visible threshold crossing
(`tnuc_first_ice`, `Tnuc_step_temperature`, `tsol_def`), the visibility premise of
`fromStates_times_eq(_all)`, the all-vials premise and an on-grid column of `counter_nuc_stats`,
and the premises `i < nVials`, `τ`/`T`/`d` recorded of `tnuc_grid`, `Tnuc_supercooled`, `tsol_nonneg`,
`tsol_only_if_nucleated`. -/
theorem nonvacuous (kCN : Nat) :
    Hyp (cexInp 2) kCN 0 ∧ never 0 (sigmaRow (cexInp 2) kCN 0) = false ∧
      never (cexInp 2).p.threshold (sigmaRow (cexInp 2) kCN 0) = false ∧
      ((finalV (cexInp 2) kCN 0).tNuc ≠ none → never 0 (sigmaRow (cexInp 2) kCN 0) = false) ∧
      (∀ i, i < (cexInp 2).nVials → Hyp (cexInp 2) kCN i) ∧ 1 < NN (cexInp 2) ∧
      (0 < (cexInp 2).nVials) ∧ (finalV (cexInp 2) kCN 0).tNuc = some 1 ∧
      (finalV (cexInp 2) kCN 0).TNuc = some (-20) ∧ (finalV (cexInp 2) kCN 0).tSol = some 0 := by
  have hH : Hyp (cexInp 2) kCN 0 :=
    ⟨by simp [cexInp], by simp [cexInp], by simp [cexInp], cex_jumpPos 2, cex2_adm kCN⟩
  have h0 : never 0 (sigmaRow (cexInp 2) kCN 0) = false := by rw [cex2_sigmaRow]; simp [never]
  have hfin : (runWith (cexInp 2) kCN).final = _ := cex2_final kCN
  refine ⟨hH, h0, ?_, fun _ => h0, ?_, ?_, by simp [cexInp], ?_, ?_, ?_⟩
  · rw [cex2_sigmaRow]; simp [never, cexInp]; norm_num
  · intro i hi
    have : i = 0 := by simp [cexInp] at hi; exact hi
    subst this; exact hH
  · rw [cex_NN2]; norm_num
  · rw [finalV, hfin]; exact (cex_step2 2 kCN _).1
  · rw [finalV, hfin]; exact (cex_step2 2 kCN _).2.1
  · rw [finalV, hfin]; exact (cex_step2 2 kCN _).2.2

end Snow.C12
