/-
  C19 — Configuration layering and derived constants are exact.

  Property theorems only (helpers: SnowProofs/Lemmas/Config.lean, Lemmas/Derived.lean).
  * layering (`update_lookup`, `update_idempotent`, `reported_spec`, `unknown_keys_inert`,
    `layering_exact`) is about the hand model SnowModel/Config.lean of `_loadConfig`;
  * `derived_*`, `enumeration_table`, `no_late_rejection` are about the GENERATED
    `Gen.calculateDerived` (SnowModel/Gen/Derived.lean, rewritten by harness/translate.py from
    constants.py on every run): no formula of the source is restated here except as the
    *claimed relation*, so a changed formula makes the corresponding theorem fail to build.
  Arithmetic is over ℝ (IEEE rounding is not modelled).
-/
import SnowProofs.Lemmas.Config
import SnowProofs.Lemmas.Derived
import SnowModel.Gen.DefaultCfg
import Mathlib.Tactic.Tauto
import Mathlib.Tactic.SplitIfs

namespace Snow.C19
open Snow Snow.Cfg Snow.Derived

/-! ### layering (`_nestedDictUpdate`, `_getAllKeys`) -/

/-- **a custom file overrides exactly the entries it names**: for `u` inside the key tree of
the default `d`, every scalar entry `p` of `d` is, after the update, the entry of `u` when `u`
defines `p`, and the default otherwise. -/
theorem update_lookup {α : Type} (d u : Cfg α) (hw : WF u) (hs : Sub u d) (p : List String) (x : Val α)
    (hd : get? d p = some (.leaf x)) :
    get? (update d u) p = some ((get? u p).getD (.leaf x)) :=
  update_lookup_aux p u d hw hs x hd

/-- applying the same custom file twice changes nothing -/
theorem update_idempotent {α : Type} (d u : Cfg α) (hw : WF u) : update (update d u) u = update d u :=
  update_idem_aux u hw d

/-- **the reported set is `keys(u) \ keys(d)`** (key NAMES at any depth, as the code does) -/
theorem reported_spec {α : Type} (d u : Cfg α) (k : String) :
    k ∈ reported d u ↔ k ∈ allKeys u ∧ k ∉ allKeys d := by
  simp [reported, mem_dedup]

/-- every path read by the generated `calculateDerived` -/
def readPaths : List (List String) := Gen.numPaths ++ Gen.strPaths ++ Gen.rawStrPaths

/-- `calculateDerived` depends on the configuration only through what the lookups at the
generated read paths can see. -/
theorem derived_congr {α : Type} [Num α] (c1 c2 : Cfg α)
    (h : ∀ p ∈ readPaths, look c1 p = look c2 p) :
    Gen.calculateDerived c1 = Gen.calculateDerived c2 := by
  have hn : ∀ p, p ∈ Gen.numPaths → c1.floatAt p = c2.floatAt p :=
    fun p hp => floatAt_of_look (h p (by simp [readPaths, hp]))
  have hs : ∀ p, p ∈ Gen.strPaths → c1.strAt p = c2.strAt p :=
    fun p hp => strAt_of_look (h p (by simp [readPaths, hp]))
  have hr : ∀ p, p ∈ Gen.rawStrPaths → c1.rawStrAt p = c2.rawStrAt p :=
    fun p hp => rawStrAt_of_look (h p (by simp [readPaths, hp]))
  unfold Gen.calculateDerived
  simp (maxSteps := 2000000) (disch := decide) only [hn, hs, hr]

/-- **unknown keys have no effect on any derived constant**: removing from the custom file
every entry (at any depth) whose key name does not occur in the default file leaves the
outcome of `calculateDerived` — every constant, or the exception — unchanged.
`hK`: the read paths use key names of the default file (true for the shipped default;
checked on the real file by the harness on every run). -/
theorem unknown_keys_inert (d u : Cfg ℝ) (hw : WF u)
    (hK : ∀ p ∈ readPaths, ∀ k ∈ p, k ∈ allKeys d) :
    Gen.calculateDerived (update d u) = Gen.calculateDerived (update d (prune (allKeys d) u)) :=
  derived_congr _ _ fun p hp => look_update_prune (allKeys d) p u hw d (hK p hp)

/-- **layering is exact**, unknown keys included.  Hypothesis `hmis` excludes the code's
documented edge case ("a valid key nested in the wrong place"): once the unknown names are
removed, what is left of `u` lies inside the key tree of `d`.  Then every scalar entry `p` of
the default whose names are known is looked up, in the merged configuration, as the entry
of `u` if `u` (pruned) defines it and as the default otherwise. -/
theorem layering_exact (d u : Cfg ℝ) (hw : WF u) (hmis : Sub (prune (allKeys d) u) d)
    (p : List String) (hp : ∀ k ∈ p, k ∈ allKeys d) (x : Val ℝ) (hd : get? d p = some (.leaf x)) :
    look (update d u) p = look (update d (prune (allKeys d) u)) p ∧
    get? (update d (prune (allKeys d) u)) p = some ((get? (prune (allKeys d) u) p).getD (.leaf x)) :=
  ⟨look_update_prune (allKeys d) p u hw d hp,
   update_lookup d _ (wf_prune _ u hw) hmis p x hd⟩

/-- **a partial file always loads**: for a custom mapping that, unknown names removed, lies inside
the default key tree, `_loadConfig` does not raise; it returns the updated tree and reports
`keys(u) \ keys(d)`. -/
theorem partial_file_loads (d : Cfg ℝ) (us : List (String × Cfg ℝ)) (hw : WF (.node us))
    (hmis : Sub (prune (allKeys d) (.node us)) d) :
    loadConfig d (some (.node us)) = .ok (update d (.node us), reported d (.node us)) := by
  have hc := no_clash (allKeys d) (.node us) hw d (fun _ h => h) hmis
  simp [loadConfig, hc]

/-- `calculateDerived(path)` as a whole: `_loadConfig`, then the generated function -/
noncomputable def calculateDerivedFile (d : Cfg ℝ) (u : Option (Cfg ℝ)) : Except String (List (String × Val ℝ)) :=
  match loadConfig d u with
  | .error e => .error e
  | .ok (cfg, _) => Gen.calculateDerived cfg

/-- **unknown keys are inert for the whole load** (no exception is introduced or removed either):
the file and the file without its unknown names give the same constants or the same exception. -/
theorem unknown_keys_inert_file (d : Cfg ℝ) (us : List (String × Cfg ℝ)) (hw : WF (.node us))
    (hmis : Sub (prune (allKeys d) (.node us)) d)
    (hK : ∀ p ∈ readPaths, ∀ k ∈ p, k ∈ allKeys d) :
    calculateDerivedFile d (some (.node us)) = calculateDerivedFile d (some (prune (allKeys d) (.node us))) := by
  have h1 := partial_file_loads d us hw hmis
  have hw' : WF (prune (allKeys d) (.node us)) := wf_prune _ _ hw
  have hm' : Sub (prune (allKeys d) (prune (allKeys d) (.node us))) d := by rw [prune_idem]; exact hmis
  simp only [prune] at hw' hm' ⊢
  have h2 := partial_file_loads d _ hw' hm'
  simp only [calculateDerivedFile, h1, h2]
  have := unknown_keys_inert d (.node us) hw hK
  simpa [prune] using this

/-! ### defining relations of the derived constants (generated code, over ℝ) -/

section relations
variable (cfg : Cfg ℝ) (c : List (String × Val ℝ)) (h : Gen.calculateDerived cfg = .ok c)
include h

/-- volume = area × height -/
theorem derived_V : num c "V" = num c "A" * num c "height" := by
  derive_inv h; all_goals simp [num, List.lookup]

/-- area = length × width of the configured (cubic) vial -/
theorem derived_A : num c "A" = getF cfg ["vial", "geometry", "length"] * getF cfg ["vial", "geometry", "width"] := by
  derive_inv h; all_goals simp [num, List.lookup]

/-- mass = density × volume -/
theorem derived_mass : num c "mass" = num c "rho_l" * num c "V" := by
  derive_inv h; all_goals simp [num, List.lookup]

/-- solute plus water mass = mass -/
theorem derived_mass_split : num c "mass_solute" + num c "mass_water" = num c "mass" := by
  derive_inv h; all_goals simp [num, List.lookup, lit_real]
  all_goals ring

theorem derived_mass_solute : num c "mass_solute" = num c "mass" * num c "solid_fraction" := by
  derive_inv h; all_goals simp [num, List.lookup]

theorem derived_mass_water : num c "mass_water" = num c "mass" * (1 - num c "solid_fraction") := by
  derive_inv h; all_goals simp [num, List.lookup, lit_real]

/-- equilibrium freezing temperature = melting temperature − (k_f/M_s)·w_s/(1−w_s) -/
theorem derived_T_eq_l : num c "T_eq_l" = num c "T_eq"
    - (num c "k_f" / num c "M_s") * (num c "solid_fraction" / (1 - num c "solid_fraction")) := by
  derive_inv h; all_goals simp [num, List.lookup, lit_real]

theorem derived_depression : num c "depression"
    = (num c "k_f" / num c "M_s") * (num c "solid_fraction" / (1 - num c "solid_fraction")) := by
  derive_inv h; all_goals simp [num, List.lookup, lit_real]

theorem derived_T_eq_l' : num c "T_eq_l" = num c "T_eq" - num c "depression" := by
  derive_inv h; all_goals simp [num, List.lookup]

/-- heat capacity of the solution is the mass-weighted mean -/
theorem derived_cp_solution : num c "cp_solution"
    = num c "solid_fraction" * num c "cp_s" + (1 - num c "solid_fraction") * num c "cp_w" := by
  derive_inv h; all_goals simp [num, List.lookup, lit_real]

theorem derived_hl : num c "hl" = num c "mass" * num c "cp_solution" := by
  derive_inv h; all_goals simp [num, List.lookup]

theorem derived_alpha : num c "alpha" = -num c "mass" * num c "Dh" * (1 - num c "solid_fraction") := by
  derive_inv h; all_goals simp [num, List.lookup, lit_real]

theorem derived_beta_solution : num c "beta_solution" = num c "depression" * num c "mass" * num c "cp_solution" := by
  derive_inv h; all_goals simp [num, List.lookup]

/-- consequence: `beta_solution = (T_eq − T_eq_l)·hl` -/
theorem derived_beta_hl : num c "beta_solution" = (num c "T_eq" - num c "T_eq_l") * num c "hl" := by
  derive_inv h; all_goals simp [num, List.lookup]
  all_goals ring

/-- effective conductivity (present exactly in the spatial models) -/
theorem derived_lambda_solution (hh : has c "lambda_solution") : num c "lambda_solution"
    = num c "solid_fraction" * num c "lambda_s" + (1 - num c "solid_fraction") * num c "lambda_w" := by
  derive_inv h; all_goals simp [num, has, List.lookup, lit_real] at hh ⊢

/-- the divisions did not raise: `M_s ≠ 0` and `solid_fraction ≠ 1` whenever constants are returned -/
theorem derived_denominators : num c "M_s" ≠ 0 ∧ 1 - num c "solid_fraction" ≠ 0 := by
  derive_inv h; all_goals simp_all [num, List.lookup, lit_real]

/-- the directly copied numbers are the configured ones -/
theorem derived_copied :
    num c "T_eq" = getF cfg ["solution", "T_eq"] ∧ num c "a" = getF cfg ["kinetics", "a"] ∧
    num c "b" = getF cfg ["kinetics", "b"] ∧ num c "c" = getF cfg ["kinetics", "c"] ∧
    num c "rho_l" = getF cfg ["solution", "rho_l"] ∧ num c "height" = getF cfg ["vial", "geometry", "height"] ∧
    num c "diameter" = getF cfg ["vial", "geometry", "diameter"] ∧ num c "cp_s" = getF cfg ["solution", "cp_s"] ∧
    num c "solid_fraction" = getF cfg ["solution", "solid_fraction"] ∧ num c "cp_w" = getF cfg ["water", "cp_w"] ∧
    num c "cp_i" = getF cfg ["water", "cp_i"] ∧ num c "Dh" = getF cfg ["water", "Dh"] ∧
    num c "k_f" = getF cfg ["solution", "k_f"] ∧ num c "M_s" = getF cfg ["solution", "M_s"] ∧
    num c "sigma_B" = getF cfg ["general", "sigma_B"] ∧ num c "k_B" = getF cfg ["general", "k_B"] := by
  derive_inv h; all_goals simp [num, List.lookup]

/-- the enumeration strings are passed through -/
theorem derived_strings :
    str c "dimensionality" = getS cfg ["snowing_parameters", "dimensionality"] ∧
    str c "configuration" = getS cfg ["snowing_parameters", "configuration"] ∧
    str c "vial_arrangement" = getS cfg ["snowfall_parameters", "vial_arrangement"] := by
  derive_inv h; all_goals simp [str, List.lookup]

/-- the VISF parameters are present exactly for configuration VISF, and are the configured ones -/
theorem derived_visf :
    (has c "p_vac" ↔ str c "configuration" = "VISF") ∧
    (has c "p_vac" → num c "p_vac" = getF cfg ["VISF", "p_vac"] ∧ num c "kappa" = getF cfg ["VISF", "kappa"] ∧
      num c "Dh_evaporation" = getF cfg ["VISF", "Dh_evaporation"] ∧ num c "m_water" = getF cfg ["VISF", "m_water"] ∧
      num c "t_vac_start" = getF cfg ["VISF", "t_vac_start"] ∧
      num c "t_vac_duration" = getF cfg ["VISF", "t_vac_duration"]) := by
  derive_inv h; all_goals simp_all [num, str, has, List.lookup]

/-- the conductivities are present exactly in the spatial models -/
theorem derived_spatial : has c "lambda_solution" ↔ str c "dimensionality" ≠ "homogeneous" := by
  derive_inv h; all_goals simp_all [str, has, List.lookup]

/-- **presence**: the thirty always-returned constants are present in the returned dict, so the
totalisation of `num`/`str` (0 / "" for an absent key) is never used for them; the VISF, jacket and
spatial entries are present exactly as `derived_visf` / `derived_spatial` say. -/
theorem derived_present :
    ∀ k ∈ ["dimensionality", "vial_arrangement", "T_eq", "T_eq_l", "a", "b", "c", "A", "V", "cp_s", "rho_l",
        "solid_fraction", "cp_w", "cp_i", "cp_solution", "mass", "hl", "depression", "alpha", "beta_solution",
        "Dh", "k_f", "M_s", "sigma_B", "k_B", "mass_solute", "mass_water", "height", "diameter", "configuration"],
      has c k := by
  derive_inv h
  all_goals
    intro k hk
    simp only [List.mem_cons, List.mem_nil_iff, or_false] at hk
    rcases hk with rfl | rfl | rfl | rfl | rfl | rfl | rfl | rfl | rfl | rfl | rfl | rfl | rfl | rfl | rfl | rfl |
      rfl | rfl | rfl | rfl | rfl | rfl | rfl | rfl | rfl | rfl | rfl | rfl | rfl | rfl <;>
    simp [has, List.lookup]

end relations

/-! ### enumeration checks -/

/-- the four enumerations of a configuration -/
structure Enums where
  configuration : String
  arrangement : String
  dimensionality : String
  shape : String

/-- **the explicit decision table** of what `calculateDerived` accepts -/
def Supported (e : Enums) : Prop :=
  e.configuration ∈ ["shelf", "VISF", "jacket"] ∧
  e.arrangement ∈ ["hexagonal", "square"] ∧
  e.dimensionality ∈ ["homogeneous", "spatial_1D", "spatial_2D"] ∧
  Py.startsWith e.shape "cub" = true ∧
  (e.configuration = "VISF" → e.dimensionality ≠ "homogeneous") ∧
  (e.configuration = "jacket" → e.dimensionality = "spatial_2D")

def enumsOf (cfg : Cfg ℝ) : Enums where
  configuration := getS cfg ["snowing_parameters", "configuration"]
  arrangement := getS cfg ["snowfall_parameters", "vial_arrangement"]
  dimensionality := getS cfg ["snowing_parameters", "dimensionality"]
  shape := getR cfg ["vial", "geometry", "shape"]

/-- a configuration whose entries have the right kinds: every number the code reads converts,
the enumeration entries exist (`shape` is a string), and the two divisors are not zero -/
structure WellTyped (cfg : Cfg ℝ) : Prop where
  nums : ∀ p ∈ Gen.numPaths, okF cfg p
  strs : ∀ p ∈ Gen.strPaths, okS cfg p
  raws : ∀ p ∈ Gen.rawStrPaths, okR cfg p
  nz1 : getF cfg ["solution", "M_s"] ≠ 0
  nz2 : 1 - getF cfg ["solution", "solid_fraction"] ≠ 0

theorem enumeration_eval (cfg : Cfg ℝ) (hw : WellTyped cfg) :
    (Supported (enumsOf cfg) → ∃ c, Gen.calculateDerived cfg = .ok c) ∧
    (¬Supported (enumsOf cfg) → Gen.calculateDerived cfg = .error "NotImplementedError") := by
  have hn : ∀ p, p ∈ Gen.numPaths → cfg.floatAt p = .ok (getF cfg p) :=
    fun p hp => floatAt_ok.mpr ⟨hw.nums p hp, rfl⟩
  have hs : ∀ p, p ∈ Gen.strPaths → cfg.strAt p = .ok (getS cfg p) :=
    fun p hp => strAt_ok.mpr ⟨hw.strs p hp, rfl⟩
  have hr : ∀ p, p ∈ Gen.rawStrPaths → cfg.rawStrAt p = .ok (getR cfg p) :=
    fun p hp => rawStrAt_ok.mpr ⟨hw.raws p hp, rfl⟩
  have nz1 := hw.nz1
  have nz2 : (Num.lit 1 0 : ℝ) - getF cfg ["solution", "solid_fraction"] ≠ 0 := by
    simpa [lit_real] using hw.nz2
  unfold Gen.calculateDerived
  simp (maxSteps := 2000000) (disch := first | decide | assumption) only [hn, hs, hr, ok_bind, div_eval]
  simp only [Supported, enumsOf]
  generalize getS cfg ["snowing_parameters", "configuration"] = conf
  generalize getS cfg ["snowfall_parameters", "vial_arrangement"] = arr
  generalize getS cfg ["snowing_parameters", "dimensionality"] = dim
  generalize getR cfg ["vial", "geometry", "shape"] = shape
  simp only [ite_bind, ok_bind, err_bind]
  rw [ok_iff_outcome, error_iff_outcome]
  simp only [outcome_ite, outcome_ok, outcome_error]
  split_ifs <;> simp_all [Py.elem] <;> tauto

/-- **unsupported shapes, arrangements, dimensionalities and combinations are rejected when
the configuration is loaded**: for a well-typed configuration, `calculateDerived` raises iff
the enumerations are outside the decision table, and then it raises `NotImplementedError`. -/
theorem enumeration_table (cfg : Cfg ℝ) (hw : WellTyped cfg) :
    ((∃ e, Gen.calculateDerived cfg = .error e) ↔ ¬Supported (enumsOf cfg)) ∧
    (¬Supported (enumsOf cfg) → Gen.calculateDerived cfg = .error "NotImplementedError") := by
  obtain ⟨h1, h2⟩ := enumeration_eval cfg hw
  refine ⟨⟨?_, fun hn => ⟨_, h2 hn⟩⟩, h2⟩
  rintro ⟨e, he⟩ hs
  obtain ⟨c, hc⟩ := h1 hs
  rw [hc] at he; cases he

/-- without the typing hypothesis: whenever constants are returned, the enumerations are in
the table (success is never possible outside it). -/
theorem supported_of_ok (cfg : Cfg ℝ) (c : List (String × Val ℝ)) (h : Gen.calculateDerived cfg = .ok c) :
    Supported (enumsOf cfg) := by
  derive_inv h
  all_goals simp only [Supported, enumsOf]
  all_goals refine ⟨‹_›, ‹_›, ‹_›, ‹_›, ?_, ?_⟩
  all_goals first
    | exact fun _ => ‹_›
    | exact fun hc => absurd hc ‹_›
    | exact fun hc => absurd (Eq.trans (Eq.symm ‹getS cfg ["snowing_parameters", "configuration"] = "VISF"›) hc)
        (by decide)

/-- **never later**: `Snowing.run` dispatches on `const["dimensionality"]`; on every result of a
successful load one of its three branches is taken. -/
theorem no_late_rejection (cfg : Cfg ℝ) (c : List (String × Val ℝ)) (h : Gen.calculateDerived cfg = .ok c) :
    (snowingDispatch (str c "dimensionality")).isSome = true := by
  have hs := supported_of_ok cfg c h
  have hd := (derived_strings cfg c h).1
  rw [hd]
  obtain ⟨_, _, h3, _⟩ := hs
  simp only [enumsOf, List.mem_cons, List.mem_nil_iff, or_false] at h3
  rcases h3 with h3 | h3 | h3 <;> simp [snowingDispatch, h3]

/-- the dispatch is total on the decision table -/
theorem dispatch_total (e : Enums) (hs : Supported e) : (snowingDispatch e.dimensionality).isSome = true := by
  obtain ⟨_, _, h3, _⟩ := hs
  simp only [List.mem_cons, List.mem_nil_iff, or_false] at h3
  rcases h3 with h3 | h3 | h3 <;> simp [snowingDispatch, h3]

/-! ### the shipped default configuration (GENERATED tree `Gen.defaultCfg`): inhabitation -/

/-- **`hK` of `unknown_keys_inert(_file)` holds for the shipped default file**: every path the
generated `calculateDerived` reads uses key names of the default configuration only. -/
theorem default_read_paths_known :
    ∀ p ∈ readPaths, ∀ k ∈ p, k ∈ allKeys (Gen.defaultCfg : Cfg ℝ) := by decide

/-- **run level, generated default, unknown keys**: for the GENERATED default tree and the GENERATED
`calculateDerived`, the whole load `calculateDerived(path)` of a custom file equals that of the file with
every unknown key name removed — same constants or same exception; `hK` is discharged. -/
theorem unknown_keys_inert_default (us : List (String × Cfg ℝ)) (hw : WF (.node us))
    (hmis : Sub (prune (allKeys (Gen.defaultCfg : Cfg ℝ)) (.node us)) Gen.defaultCfg) :
    calculateDerivedFile Gen.defaultCfg (some (.node us)) =
      calculateDerivedFile Gen.defaultCfg (some (prune (allKeys (Gen.defaultCfg : Cfg ℝ)) (.node us))) :=
  unknown_keys_inert_file Gen.defaultCfg us hw hmis default_read_paths_known

/-- **run level, generated default, overrides exactly the entries it names**: the constants (or the
exception) of `calculateDerived(path)` are those of the generated `calculateDerived` on a tree in which
EVERY scalar entry `p` of the generated default is the custom file's entry when the file (unknown names
removed) defines `p`, and the default's entry otherwise. -/
theorem layering_exact_default (us : List (String × Cfg ℝ)) (hw : WF (.node us))
    (hmis : Sub (prune (allKeys (Gen.defaultCfg : Cfg ℝ)) (.node us)) Gen.defaultCfg) :
    calculateDerivedFile Gen.defaultCfg (some (.node us)) =
      Gen.calculateDerived (update Gen.defaultCfg (prune (allKeys (Gen.defaultCfg : Cfg ℝ)) (.node us))) ∧
    ∀ (p : List String) (x : Val ℝ), get? (Gen.defaultCfg : Cfg ℝ) p = some (.leaf x) →
      get? (update Gen.defaultCfg (prune (allKeys (Gen.defaultCfg : Cfg ℝ)) (.node us))) p =
        some ((get? (prune (allKeys (Gen.defaultCfg : Cfg ℝ)) (.node us)) p).getD (.leaf x)) := by
  refine ⟨?_, fun p x hd => update_lookup _ _ (wf_prune _ _ hw) hmis p x hd⟩
  have h1 := partial_file_loads Gen.defaultCfg us hw hmis
  simp only [calculateDerivedFile, h1]
  exact unknown_keys_inert Gen.defaultCfg (.node us) hw default_read_paths_known

/-- **the two run-level theorems are not vacuous**: a concrete custom file over the GENERATED default tree - it
overrides `solution.cp_s`, carries the unknown key `bogus` next to it and an unknown mapping `extra` at depth 1 -
satisfies both remaining hypotheses (`WF`: distinct keys per mapping; `Sub (prune …)`: once the unknown names are
removed nothing is nested in a wrong place); hence its load equals the load of the file without `bogus` and `extra`,
which is `calculateDerived` of the default tree with `solution.cp_s` replaced. -/
theorem default_instance_unknown_key :
    let us : List (String × Cfg ℝ) :=
      [("solution", .node [("cp_s", .leaf (.num 1300)), ("bogus", .leaf (.num 1))]),
       ("extra", .node [("x", .leaf (.str "y"))])]
    WF (.node us) ∧ Sub (prune (allKeys (Gen.defaultCfg : Cfg ℝ)) (.node us)) Gen.defaultCfg ∧
    prune (allKeys (Gen.defaultCfg : Cfg ℝ)) (.node us) = .node [("solution", .node [("cp_s", .leaf (.num 1300))])] ∧
    calculateDerivedFile Gen.defaultCfg (some (.node us)) =
      calculateDerivedFile Gen.defaultCfg (some (.node [("solution", .node [("cp_s", .leaf (.num 1300))])])) := by
  intro us
  have hw : WF (.node us) := by simp [us, WF, WFL, find?]
  have hp : prune (allKeys (Gen.defaultCfg : Cfg ℝ)) (.node us)
      = .node [("solution", .node [("cp_s", .leaf (.num 1300))])] := by
    simp [us, Gen.defaultCfg, prune, pruneL, allKeys, allKeysL, keys]
  have hs : Sub (prune (allKeys (Gen.defaultCfg : Cfg ℝ)) (.node us)) Gen.defaultCfg := by
    rw [hp]
    simp [Gen.defaultCfg, Cfg.Sub, Cfg.SubL, find?]
  refine ⟨hw, hs, hp, ?_⟩
  have := unknown_keys_inert_default us hw hs
  rw [hp] at this
  exact this

def isOkB {ε β} : Except ε β → Bool
  | .ok _ => true
  | .error _ => false

theorem okF_of_isOk {cfg : Cfg ℝ} {p} (h : isOkB (cfg.floatAt p) = true) : okF cfg p := by
  unfold okF; cases hx : cfg.floatAt p with
  | ok x => exact ⟨x, rfl⟩
  | error e => simp [hx, isOkB] at h
theorem okS_of_isOk {cfg : Cfg ℝ} {p} (h : isOkB (cfg.strAt p) = true) : okS cfg p := by
  unfold okS; cases hx : cfg.strAt p with
  | ok x => exact ⟨x, rfl⟩
  | error e => simp [hx, isOkB] at h
theorem okR_of_isOk {cfg : Cfg ℝ} {p} (h : isOkB (cfg.rawStrAt p) = true) : okR cfg p := by
  unfold okR; cases hx : cfg.rawStrAt p with
  | ok x => exact ⟨x, rfl⟩
  | error e => simp [hx, isOkB] at h

/-- the default configuration is well-typed -/
theorem default_welltyped : WellTyped (Gen.defaultCfg : Cfg ℝ) where
  nums := fun p hp => okF_of_isOk ((by decide :
    ∀ p ∈ Gen.numPaths, isOkB ((Gen.defaultCfg : Cfg ℝ).floatAt p) = true) p hp)
  strs := fun p hp => okS_of_isOk ((by decide :
    ∀ p ∈ Gen.strPaths, isOkB ((Gen.defaultCfg : Cfg ℝ).strAt p) = true) p hp)
  raws := fun p hp => okR_of_isOk ((by decide :
    ∀ p ∈ Gen.rawStrPaths, isOkB ((Gen.defaultCfg : Cfg ℝ).rawStrAt p) = true) p hp)
  nz1 := by
    have : (Gen.defaultCfg : Cfg ℝ).floatAt ["solution", "M_s"] = .ok (Num.lit 3423 4) := by rfl
    simp [getF, this, lit_real]
  nz2 := by
    have : (Gen.defaultCfg : Cfg ℝ).floatAt ["solution", "solid_fraction"] = .ok (Num.lit 5 2) := by rfl
    simp [getF, this, lit_real]; norm_num

/-- its enumerations (shelf, square, spatial_1D, cube) are in the decision table -/
theorem default_supported : Supported (enumsOf (Gen.defaultCfg : Cfg ℝ)) := by
  have h1 : getS (Gen.defaultCfg : Cfg ℝ) ["snowing_parameters", "configuration"] = "shelf" := by rfl
  have h2 : getS (Gen.defaultCfg : Cfg ℝ) ["snowfall_parameters", "vial_arrangement"] = "square" := by rfl
  have h3 : getS (Gen.defaultCfg : Cfg ℝ) ["snowing_parameters", "dimensionality"] = "spatial_1D" := by rfl
  have h4 : getR (Gen.defaultCfg : Cfg ℝ) ["vial", "geometry", "shape"] = "cube" := by rfl
  simp [Supported, enumsOf, h1, h2, h3, h4, Py.startsWith]

/-- **the hypothesis of every `derived_*` theorem, of `supported_of_ok` and of `no_late_rejection` is
inhabited**: `calculateDerived` returns constants for the shipped default configuration. -/
theorem default_ok : ∃ c, Gen.calculateDerived (Gen.defaultCfg : Cfg ℝ) = .ok c :=
  (enumeration_eval _ default_welltyped).1 default_supported

/-- … and a well-typed configuration outside the table exists too (VISF + homogeneous on the default
numbers is rejected with `NotImplementedError`): both sides of `enumeration_table` are inhabited. -/
theorem default_visf_homogeneous_rejected :
    ∃ cfg : Cfg ℝ, WellTyped cfg ∧ Gen.calculateDerived cfg = .error "NotImplementedError" := by
  let u : Cfg ℝ := .node [("snowing_parameters", .node [("dimensionality", .leaf (.str "homogeneous")),
                                                       ("configuration", .leaf (.str "VISF"))])]
  have hw : WellTyped (update (Gen.defaultCfg : Cfg ℝ) u) := {
    nums := fun p hp => okF_of_isOk ((by decide :
      ∀ p ∈ Gen.numPaths, isOkB ((update (Gen.defaultCfg : Cfg ℝ) u).floatAt p) = true) p hp)
    strs := fun p hp => okS_of_isOk ((by decide :
      ∀ p ∈ Gen.strPaths, isOkB ((update (Gen.defaultCfg : Cfg ℝ) u).strAt p) = true) p hp)
    raws := fun p hp => okR_of_isOk ((by decide :
      ∀ p ∈ Gen.rawStrPaths, isOkB ((update (Gen.defaultCfg : Cfg ℝ) u).rawStrAt p) = true) p hp)
    nz1 := by
      have : (update (Gen.defaultCfg : Cfg ℝ) u).floatAt ["solution", "M_s"] = .ok (Num.lit 3423 4) := by rfl
      simp [getF, this, lit_real]
    nz2 := by
      have : (update (Gen.defaultCfg : Cfg ℝ) u).floatAt ["solution", "solid_fraction"] = .ok (Num.lit 5 2) := by rfl
      simp [getF, this, lit_real]; norm_num }
  refine ⟨update Gen.defaultCfg u, hw, ?_⟩
  apply (enumeration_eval _ hw).2
  have h1 : getS (update (Gen.defaultCfg : Cfg ℝ) u) ["snowing_parameters", "configuration"] = "VISF" := by rfl
  have h3 : getS (update (Gen.defaultCfg : Cfg ℝ) u) ["snowing_parameters", "dimensionality"] = "homogeneous" := by rfl
  simp [Supported, enumsOf, h1, h3]

/-! ### non-vacuity -/

/-- a miniature default file and a custom file with an override, an unknown key at depth 2 and an
unknown mapping at depth 1: the hypotheses of the layering theorems hold, and the table accepts
the default enumerations and rejects `VISF` + `homogeneous`. -/
theorem nonvacuous :
    let d : Cfg ℝ := .node [("solution", .node [("T_eq", .leaf (.num 0)), ("cp_s", .leaf (.num 1240))]),
                            ("water", .node [("cp_w", .leaf (.num 4187))])]
    let u : Cfg ℝ := .node [("solution", .node [("cp_s", .leaf (.num 1300)), ("bogus", .leaf (.num 1))]),
                            ("extra", .node [("x", .leaf (.str "y"))])]
    WF u ∧ Cfg.Sub (prune (allKeys d) u) d ∧
      get? (update d u) ["solution", "cp_s"] = some (.leaf (.num 1300)) ∧
      get? (update d u) ["solution", "T_eq"] = some (.leaf (.num 0)) ∧
      reported d u = ["bogus", "x", "extra"] ∧
      Supported ⟨"shelf", "square", "spatial_1D", "cube"⟩ ∧ ¬Supported ⟨"VISF", "square", "homogeneous", "cube"⟩ := by
  intro d u
  refine ⟨?_, ?_, ?_, ?_, ?_, ?_, ?_⟩
  · simp [u, WF, WFL, find?]
  · simp [u, d, prune, pruneL, allKeys, allKeysL, keys, Cfg.Sub, Cfg.SubL, find?]
  · simp [u, d, update, updateL, setKey, find?, get?]
  · simp [u, d, update, updateL, setKey, find?, get?]
  · simp [u, d, reported, dedup, allKeys, allKeysL, keys]
  · simp [Supported, Py.startsWith]
  · simp [Supported]

end Snow.C19
