/-
  C16 — Vial position groups partition the batch and mean the same everywhere.

  Property theorems only (helper lemmas: SnowProofs/Lemmas/Groups.lean, Topology.lean).
  Model: SnowModel/Groups.lean (on top of Topology.lean) and the group branch of
  SnowModel/Store.lean.  Side condition of the property, "at least two vials along
  each populated direction": `2 ≤ nx`, `2 ≤ ny` (and `nz = 1` or `nz ≥ 2`, i.e. any
  `nz` that has a vial).  Both arrangements.
-/
import SnowProofs.Lemmas.Groups
import SnowProofs.Lemmas.Store

namespace Snow.C16
open Snow.Topology Snow.Groups Snow.Store

variable {nx ny nz i : Nat}

/-- **exposure values that occur**: at most 2 (flat) / 3 (pallet) in the square
arrangement, at most 4 / 5 in the hexagonal one -/
theorem ext_range (arr : Arr) (hnx : 2 ≤ nx) (hny : 2 ≤ ny) (hi : i < nTot nx ny nz) :
    ext arr nx ny nz i ≤ top arr nz := ext_le_top arr hnx hny hi

/-- **every vial is in exactly one position class**: corner, edge, side (a class of
its own only in a square pallet) or core. -/
theorem groups_partition (arr : Arr) (hnx : 2 ≤ nx) (hny : 2 ≤ ny) (hi : i < nTot nx ny nz) :
    (groupTest arr nz "corner" (ext arr nx ny nz i)).toNat
      + (groupTest arr nz "edge" (ext arr nx ny nz i)).toNat
      + (if arr = .square ∧ flat nz = 0 then (groupTest arr nz "side" (ext arr nx ny nz i)).toNat else 0)
      + (groupTest arr nz "core" (ext arr nx ny nz i)).toNat = 1 := by
  have h := ext_range arr hnx hny hi
  exact partition_tbl arr _ (flat_lt_two nz) _ (top_lt_six arr nz _ h) h

/-- **`side` is a synonym of `edge` on a flat shelf and in hexagonal packing**, and
`center` of `core` (every shape, every exposure value that a vial can have). -/
theorem side_is_edge (arr : Arr) (hnx : 2 ≤ nx) (hny : 2 ≤ ny) (hi : i < nTot nx ny nz) :
    groupTest arr nz "center" (ext arr nx ny nz i) = groupTest arr nz "core" (ext arr nx ny nz i)
    ∧ ((arr = .hexagonal ∨ nz = 1) →
        groupTest arr nz "side" (ext arr nx ny nz i) = groupTest arr nz "edge" (ext arr nx ny nz i)) := by
  have h := ext_range arr hnx hny hi
  have := synonym_tbl arr _ (flat_lt_two nz) _ (top_lt_six arr nz _ h)
  refine ⟨this.1, fun hh => this.2 ?_⟩
  rcases hh with hh | hh
  · exact Or.inl hh
  · exact Or.inr (by simp [flat, hh])

/-- `getVialGroup` on a list of known names (without `"all"`) is the union of the classes -/
theorem union_of_groups (arr : Arr) (nx ny nz : Nat) (gs : List String)
    (hk : ∀ g ∈ gs, known g = true) (hall : ∀ g ∈ gs, (g == "all") = false) :
    getVialGroup arr nx ny nz gs
      = .ok ((extVec arr nx ny nz).map fun e => gs.any fun g => groupTest arr nz g e) := by
  unfold getVialGroup maskOf
  generalize extVec arr nx ny nz = es
  induction es with
  | nil => rfl
  | cons e es ih =>
    rw [List.mapM_cons, groupLoop_union arr nz e gs false hk hall, ih]
    simp [bind, Except.bind, pure, Except.pure]

/-- **a class contains exactly the vials with the corresponding number of exposed
faces**: the mask of one class is a level set of `VIAL_EXT` (`groupTest` compares the
exposure count with the level of the class). -/
theorem class_is_exposure_level (arr : Arr) (nx ny nz : Nat) (g : String)
    (hk : known g = true) (hall : (g == "all") = false) :
    getVialGroup arr nx ny nz [g]
      = .ok ((extVec arr nx ny nz).map fun e => groupTest arr nz g e) := by
  rw [union_of_groups arr nx ny nz [g] (by simpa using hk) (by simpa using hall)]
  simp

/-- **`all` is every vial, and is the union of the classes** -/
theorem all_is_union (arr : Arr) (hnx : 2 ≤ nx) (hny : 2 ≤ ny) (hi : i < nTot nx ny nz) :
    groupLoop arr nz (ext arr nx ny nz i) ["all"] false = .ok true
    ∧ (groupTest arr nz "corner" (ext arr nx ny nz i) || groupTest arr nz "edge" (ext arr nx ny nz i)
        || groupTest arr nz "side" (ext arr nx ny nz i) || groupTest arr nz "core" (ext arr nx ny nz i)) = true := by
  refine ⟨rfl, ?_⟩
  have h := groups_partition arr hnx hny hi
  revert h
  cases groupTest arr nz "corner" (ext arr nx ny nz i) <;>
  cases groupTest arr nz "edge" (ext arr nx ny nz i) <;>
  cases groupTest arr nz "side" (ext arr nx ny nz i) <;>
  cases groupTest arr nz "core" (ext arr nx ny nz i) <;> simp

/-- **the class given to a vial is the same in the statistics table, in the
trajectory table and in group queries**: both tables carry the same label, the label
is the name of a class that contains the vial, and the vial is in the class named `g`
iff `g` and the label are the same class up to the synonyms. -/
theorem labels_agree (arr : Arr) (hnx : 2 ≤ nx) (hny : 2 ≤ ny) (hi : i < nTot nx ny nz) :
    statsLabel arr nz (ext arr nx ny nz i) = trajLabel arr nz (ext arr nx ny nz i)
    ∧ ∃ s ∈ ["corner", "edge", "side", "core"], statsLabel arr nz (ext arr nx ny nz i) = .name s
        ∧ groupTest arr nz s (ext arr nx ny nz i) = true
        ∧ ∀ g ∈ ["corner", "edge", "side", "core", "center"],
            (groupTest arr nz g (ext arr nx ny nz i) = true ↔ canon arr nz g = canon arr nz s) := by
  have h := ext_range arr hnx hny hi
  exact labels_tbl arr _ (flat_lt_two nz) _ (top_lt_six arr nz _ h) h

/-- the label of a table row names one of the requested classes, up to the synonyms -/
def labelIn (arr : Arr) (nz : Nat) (gs : List String) : Label → Bool
  | .name s => gs.any fun g => canon arr nz g == canon arr nz s
  | .num _ => false

/-- **Snowfall's group filter means the same as the labels of its table**: the code (as
repaired by K5) keeps the rows whose vial index is in the `getVialGroup(group)` mask;
for every batch with `nx, ny ≥ 2` these are exactly the rows whose `group` label (the
statistics-table label) is one of the requested classes up to the synonyms
`center = core`, `side = edge` (flat shelf / hexagonal). -/
theorem fall_filter_agrees (arr : Arr) (hnx : 2 ≤ nx) (hny : 2 ≤ ny) (gs : List String)
    (hgs : ∀ g ∈ gs, g ∈ ["corner", "edge", "side", "core", "center"]) :
    fallFilter arr nx ny nz gs
      = .ok ((fallTableOf arr nz (extVec arr nx ny nz)).filter fun row => labelIn arr nz gs row.2) := by
  have hk : ∀ g ∈ gs, known g = true := fun g hg => (five_known g (hgs g hg)).1
  have hall : ∀ g ∈ gs, (g == "all") = false := fun g hg => (five_known g (hgs g hg)).2
  have hm := union_of_groups arr nx ny nz gs hk hall
  unfold getVialGroup at hm
  unfold fallFilter fallFilterOf
  rw [hm]
  simp only [bind, Except.bind, pure, Except.pure]
  congr 1
  apply List.filter_congr
  intro row hrow
  simp only [fallTableOf, List.mem_map, List.mem_range] at hrow
  obtain ⟨i, hi, rfl⟩ := hrow
  rw [extVec_length] at hi
  simp only
  rw [extVec_getD arr hi]
  have hg : ((extVec arr nx ny nz).map fun e => gs.any fun g => groupTest arr nz g e).getD i false
      = gs.any fun g => groupTest arr nz g (ext arr nx ny nz i) := by
    simp [extVec, List.getD_eq_getElem?_getD, hi]
  rw [hg]
  obtain ⟨_, s, _, hlab, _, hiff⟩ := labels_agree arr hnx hny hi
  rw [hlab]
  simp only [labelIn]
  apply Bool.eq_iff_iff.mpr
  simp only [List.any_eq_true]
  constructor
  · rintro ⟨g, hg1, hg2⟩
    exact ⟨g, hg1, by simpa using (hiff g (hgs g hg1)).mp hg2⟩
  · rintro ⟨g, hg1, hg2⟩
    exact ⟨g, hg1, (hiff g (hgs g hg1)).mpr (by simpa using hg2)⟩

/-- both label computations of `to_frame` (two separately transcribed statement lists,
applied one statement after the other) give, for EVERY exposure value, the label of the
closed form "first matching statement wins": in particular the hexagonal `"side"`
statement never fires, and the two tables agree. -/
theorem labels_closed_form (arr : Arr) (nz e : Nat) :
    statsLabel arr nz e = labelClosedF arr (flat nz) e ∧ trajLabel arr nz e = labelClosedF arr (flat nz) e
    ∧ statsLabel arr nz e = trajLabel arr nz e := by
  have h := Snow.Groups.labels_closed_form arr (flat nz) (flat_lt_two nz) e
  exact ⟨h.1, h.2, h.1.trans h.2.symm⟩

/-- **selecting vials to record by group name uses the same classes**: for each of the
six names, `storeStates=name` records exactly `getVialGroup(name)`. -/
theorem store_group_agrees (arr : Arr) (nx ny nz : Nat) (choices : List (List Nat)) :
    ∀ g ∈ VIAL_GROUPS, storageMask arr nx ny nz (.str g) choices
      = (getVialGroup arr nx ny nz [g]).map fun m => (m, false) := by
  intro g hg
  have key : ∀ g', firstGroup (lower g') = some g' →
      hasSub "random".toList (lower g') = false → hasSub "uniform".toList (lower g') = false →
      storageMask arr nx ny nz (.str g') choices = (getVialGroup arr nx ny nz [g']).map fun m => (m, false) := by
    intro g' h1 h2 h3
    unfold storageMask getVialGroup
    simp only
    rw [store_string_group arr nz _ g' g' _ h1 h2 h3]
    cases maskOf arr nz (extVec arr nx ny nz) [g'] <;> rfl
  simp only [VIAL_GROUPS, List.mem_cons, List.not_mem_nil, or_false] at hg
  rcases hg with rfl | rfl | rfl | rfl | rfl | rfl <;> exact key _ (by decide) (by decide) (by decide)

/-- **thinning inside a group stays inside the group**: a `uniform n` request
(`n ≥ 1`, non-empty group) records only vials of the named group, and so does a
`random n` request for every choice taken from the group's vials. -/
theorem store_thinning_in_group (arr : Arr) (nz : Nat) (exts : List Nat) (s g : String) (choice : List Nat)
    (mask0 : List Bool) (n : Nat)
    (hg : firstGroup (lower s) = some g) (hm : maskOf arr nz exts [g] = .ok mask0)
    (hn : digitRuns (lower s) none = [n]) :
    (hasSub "random".toList (lower s) = false → hasSub "uniform".toList (lower s) = true →
      0 < n → 0 < (whereTrue mask0).length →
      ∃ m, interpretString arr nz exts s choice = .ok (m, false) ∧
        ∀ i, i < exts.length → m.getD i false = true → mask0.getD i false = true)
    ∧ (hasSub "random".toList (lower s) = true → n ≤ (whereTrue mask0).length →
      (∀ v ∈ choice, v ∈ whereTrue mask0) →
      ∃ m, interpretString arr nz exts s choice = .ok (m, true) ∧
        ∀ i, i < exts.length → m.getD i false = true → mask0.getD i false = true) := by
  have hm' : (match firstGroup (lower s) with
            | some g => maskOf arr nz exts [g]
            | none => pure (List.replicate exts.length true)) = .ok mask0 := by rw [hg]; exact hm
  constructor
  · intro hr hu hn0 hc
    refine ⟨_, uniform_request_lemma arr nz exts s choice mask0 n hm' hr hu hn hn0 hc, ?_⟩
    intro i hi h
    rw [getD_maskFromIdx _ hi] at h
    exact mem_whereTrue (uniformPick_mem hc hn0 i (by simpa using h))
  · intro hr hle hsub
    have := random_request_lemma arr nz exts s choice mask0 n hm' hr hn
    rw [if_neg (by omega)] at this
    refine ⟨_, this, ?_⟩
    intro i hi h
    rw [getD_maskFromIdx _ hi] at h
    exact mem_whereTrue (hsub i (by simpa using h))

/-! ### the code before fixes F7 and K5 -/

/-- before fix F7 the trajectory table labelled a flat-shelf core vial (no exposed
face) `"side"`, while the statistics table says `"core"` -/
theorem trajLabel_upstream_counterexample :
    trajLabelUpstream .square 1 0 = .name "side" ∧ statsLabel .square 1 0 = .name "core"
    ∧ ext .square 3 3 1 4 = 0 := by decide

/-- before fix K5 Snowfall's filter `"side"` kept no row of a 3×3×1 shelf (the label of
those vials is `"edge"`), while `getVialGroup("side")` is the edge set -/
theorem fallFilter_upstream_counterexample :
    fallFilterUpstream .square 3 3 1 ["side"] = []
    ∧ (fallFilter .square 3 3 1 ["side"]).toOption.map (fun rows => rows.map (·.1)) = some [1, 3, 5, 7] := by decide

/-- the hypotheses are satisfiable, and in a 3×3×3 square pallet all four classes
are inhabited (corner 0, edge 1, side 4, core 13). -/
theorem nonvacuous :
    (2 ≤ 3 ∧ 13 < nTot 3 3 3)
    ∧ groupTest .square 3 "corner" (ext .square 3 3 3 0) = true
    ∧ groupTest .square 3 "edge" (ext .square 3 3 3 1) = true
    ∧ groupTest .square 3 "side" (ext .square 3 3 3 4) = true
    ∧ groupTest .square 3 "core" (ext .square 3 3 3 13) = true
    ∧ statsLabel .hexagonal 1 (ext .hexagonal 3 3 1 2) = .name "edge"
    -- hypothesis sets of the remaining conditional theorems
    ∧ (∀ g ∈ ["side", "core"], g ∈ ["corner", "edge", "side", "core", "center"])          -- fall_filter_agrees
    ∧ (∀ g ∈ ["corner", "edge"], known g = true ∧ (g == "all") = false)                   -- union_of_groups
    ∧ (known "center" = true ∧ ("center" == "all") = false)                               -- class_is_exposure_level
    ∧ (firstGroup (lower "uniform.edge.2") = some "edge"
        ∧ (maskOf .square 1 (extVec .square 3 3 1) ["edge"]).toOption
            = some [false, true, false, true, false, true, false, true, false]
        ∧ digitRuns (lower "uniform.edge.2") none = [2]
        ∧ hasSub "random".toList (lower "uniform.edge.2") = false
        ∧ hasSub "uniform".toList (lower "uniform.edge.2") = true
        ∧ 0 < (whereTrue [false, true, false, true, false, true, false, true, false]).length
        ∧ hasSub "random".toList (lower "edge_random_2") = true
        ∧ (∀ v ∈ [1, 7], v ∈ whereTrue [false, true, false, true, false, true, false, true, false])) -- store_thinning_in_group
    := by decide

end Snow.C16
