/-
  C15 — The model hierarchy is consistent across its shared limits.

  Property theorems (models: SnowModel/Snowing2D.lean, Snowing1D.lean, Snowing0D.lean
  instantiated at ℝ; IEEE rounding is not modelled).
-/
import SnowProofs.Lemmas.Snowing2D
import SnowProofs.Lemmas.Stencil1D

namespace Snow.C15
open Snow Num Snow.S2D Snow.Stencil1D

/-- no jacket ⇒ no side flux -/
theorem qJacket_of_ne (c : Ctx ℝ) (Tsh t : ℝ) (h : c.p.config ≠ Config.jacket) :
    qJacket c Tsh t = 0 := by
  unfold qJacket
  cases hc : c.p.config <;> simp_all

/-- `radial_uniform_preserved` for an arbitrary context (literals `l2 = 2`, `l1 = 1`) -/
theorem radial_uniform_ctx (c : Ctx ℝ) (Tsh : ℝ) (qe : Nat → ℝ) (q : ℝ)
    (T : Array ℝ) (col : Nat → ℝ) (hl2 : c.l2 = 2) (hl1 : c.l1 = 1)
    (hcfg : c.p.config ≠ Config.jacket) (hNz : 2 ≤ c.Nz) (hNr : 2 ≤ c.Nr)
    (hU : ∀ i j, i < c.Nz → j < c.Nr → rd c.Nr T i j = col i)
    (hq : ∀ j, j < c.Nr → qe j = q) :
    ∀ i j, i < c.Nz → j < c.Nr →
      rd c.Nr (coolStep c false Tsh qe T) i j
        = col1D c.Nz (c.a0 / (c.dz * c.dz))
            (col 0 + (c.p.K_shelf * (Tsh - col 0)) * c.dz / c.k0)
            (col (c.Nz - 1) + q * c.dz / c.k0) col i := by
  intro i j hi hj
  unfold coolStep
  rw [rd_sweep_false c.Nz c.Nr _ T hi hj]
  have hNr0 : c.Nr - 1 < c.Nr := by omega
  have hNz0 : c.Nz - 1 < c.Nz := by omega
  have h0z : 0 < c.Nz := by omega
  have h0r : 0 < c.Nr := by omega
  unfold coolNode outer inner upper lower col1D
  simp only [rd1_ofFn _ j hj, rd1_ofFn _ i hi, qJacket_of_ne c Tsh _ hcfg, hl2, hl1, hq j hj]
  split_ifs <;> simp (disch := omega) only [hU] <;>
    first
      | (exfalso; omega)
      | ring1
      | (subst_vars; ring1)
      | (have e : i - 1 = c.Nz - 2 := by omega
         have e' : i = c.Nz - 1 := by omega
         rw [e, e']; ring1)


/-- **radial uniformity is preserved by the repaired scheme, and every column is
the 1D step** (cooling stage).  No jacket; the field is radially uniform
(`T[i,j] = col i`); the top flux is the same in every column (it is a function
of the top row).  Then after one step of the repaired update (`inplace = false`)
every column equals the 1D update of `col` (`col1D` = wpE's `coolStencil`) with
the same `dt`, `dz`, the same ghost values and Fourier number `alpha*dt/dz²`. -/
theorem radial_uniform_preserved (p : Par ℝ) (f : Flags) (Tsh : ℝ) (qe : Nat → ℝ) (q : ℝ)
    (T : Array ℝ) (col : Nat → ℝ)
    (hcfg : p.config ≠ Config.jacket) (hNz : 2 ≤ p.Nz) (hNr : 2 ≤ p.Nr)
    (hU : ∀ i j, i < p.Nz → j < p.Nr → rd p.Nr T i j = col i)
    (hq : ∀ j, j < p.Nr → qe j = q) :
    ∀ i j, i < p.Nz → j < p.Nr →
      rd p.Nr (coolStep (mkCtx p f) false Tsh qe T) i j
        = col1D p.Nz ((alpha0 p * dt p) / (dz p * dz p))
            (col 0 + (p.K_shelf * (Tsh - col 0)) * dz p / kEff0 p)
            (col (p.Nz - 1) + q * dz p / kEff0 p) col i :=
  radial_uniform_ctx (mkCtx p f) Tsh qe q T col (by simp [mkCtx]) (by simp [mkCtx]) hcfg hNz hNr hU hq

/-! ### the in-place code breaks radial uniformity (F10): exact witness on a 3 × 3 grid -/

/-- a tiny exact instance: `dz = dr = 1`, `alpha = alpha_max = 1`, `dt = 0.2`,
`K_shelf = 1`, `k_eff = 1`, configuration `shelf` -/
def pW : Par Rat :=
  { Nz := 3, Nr := 3, pi := 3, height := 3, diameter := 6, V := 1, rho_l := 1, mass := 1,
    mass_water := 1, mass_solute := 0, lambda_w := 1, lambda_i := 1, lambda_s := 1, cp_w := 1,
    cp_i := 1, cp_s := 1, cp_solution := 1, solid_fraction := 0, T_eq := 0, k_f := 1, M_s := 1,
    depression := 0, kb := 0, b := 1, k_B := 1, Dh := 1, K_shelf := 1, config := Config.shelf,
    p_vac := 0, kappa := 0, dHe := 0, m_water := 0, t_vac_start := 0, t_vac_duration := 0,
    air_gap := 0, lambda_air := 1 }

/-- the uniform field 10 on the 3 × 3 grid -/
def TW : Array Rat := Array.replicate 9 10

/-- one step of the CURRENT (aliased, in-place) update from a uniform field with the
shelf at 0: the bottom-centre node is computed first (10 → 8), the bottom corner
next (10 → 8), and the bottom node between them then reads the two updated
neighbours and becomes 7.2: a radial difference out of a radially uniform field
and radially uniform boundary conditions. -/
theorem radial_uniform_inplace_counterexample :
    rd 3 (coolStep (mkCtx pW {}) true 0 (fun _ => 0) TW) 0 0 = 8 ∧
    rd 3 (coolStep (mkCtx pW {}) true 0 (fun _ => 0) TW) 0 1 = 36 / 5 ∧
    rd 3 (coolStep (mkCtx pW {}) true 0 (fun _ => 0) TW) 0 0
      ≠ rd 3 (coolStep (mkCtx pW {}) true 0 (fun _ => 0) TW) 0 1 := by
  decide +kernel

/-- the same step with the repaired update keeps the row uniform (8, 8, 8) -/
theorem radial_uniform_repaired_witness :
    rd 3 (coolStep (mkCtx pW {}) false 0 (fun _ => 0) TW) 0 0 = 8 ∧
    rd 3 (coolStep (mkCtx pW {}) false 0 (fun _ => 0) TW) 0 1 = 8 ∧
    rd 3 (coolStep (mkCtx pW {}) false 0 (fun _ => 0) TW) 0 2 = 8 := by
  decide +kernel

end Snow.C15
