/-
  C15 — The model hierarchy is consistent across its shared limits.

  Property theorems (models: SnowModel/Snowing2D.lean, Snowing1D.lean, Snowing0D.lean
  instantiated at ℝ; IEEE rounding is not modelled).
-/
import SnowProofs.Lemmas.Snowing2D
import SnowProofs.Lemmas.Stencil1D
import SnowProofs.Lemmas.Snowing2DRun
import SnowProofs.Lemmas.RunBounds
import SnowProofs.Lemmas.DefaultLink
import SnowModel.Flake
import Mathlib.Analysis.SpecialFunctions.Sqrt
import Mathlib.Tactic.NormNum

namespace Snow.C15
open Snow Num Snow.S2D Snow.Stencil1D

/-- no jacket ⇒ no side flux -/
theorem qJacket_of_ne (c : Ctx ℝ) (Tsh t : ℝ) (h : c.p.config ≠ Config.jacket) :
    qJacket c Tsh t = 0 := by
  unfold qJacket
  cases hc : c.p.config <;> simp_all

/-- `radial_uniform_preserved` for an arbitrary context (literals `l2 = 2`, `l1 = 1`) -/
theorem radial_uniform_ctx (c : Ctx ℝ) (Tsh : ℝ) (qe : Nat → ℝ) (q : ℝ)
    (T : Array ℝ) (col : Nat → ℝ) (hl2 : c.l2 = 2) (hl1 : c.l1 = 1)
    (hcfg : c.p.config ≠ Config.jacket) (hNz : 2 ≤ c.Nz) (hNr : 2 ≤ c.Nr)
    (hU : ∀ i j, i < c.Nz → j < c.Nr → rd c.Nr T i j = col i)
    (hq : ∀ j, j < c.Nr → qe j = q) :
    ∀ i j, i < c.Nz → j < c.Nr →
      rd c.Nr (coolStep c false Tsh qe T) i j
        = col1D c.Nz (c.a0 / (c.dz * c.dz))
            (col 0 + (c.p.K_shelf * (Tsh - col 0)) * c.dz / c.k0)
            (col (c.Nz - 1) + q * c.dz / c.k0) col i := by
  intro i j hi hj
  unfold coolStep
  rw [rd_sweep_false c.Nz c.Nr _ T hi hj]
  have hNr0 : c.Nr - 1 < c.Nr := by omega
  have hNz0 : c.Nz - 1 < c.Nz := by omega
  have h0z : 0 < c.Nz := by omega
  have h0r : 0 < c.Nr := by omega
  unfold coolNode outer inner upper lower col1D
  simp only [rd1_ofFn _ j hj, rd1_ofFn _ i hi, qJacket_of_ne c Tsh _ hcfg, hl2, hl1, hq j hj]
  split_ifs <;> simp (disch := omega) only [hU] <;>
    first
      | (exfalso; omega)
      | ring1
      | (subst_vars; ring1)
      | (have e : i - 1 = c.Nz - 2 := by omega
         have e' : i = c.Nz - 1 := by omega
         rw [e, e']; ring1)


/-- **radial uniformity is preserved by the repaired scheme, and every column is
the 1D step** (cooling stage).  No jacket; the field is radially uniform
(`T[i,j] = col i`); the top flux is the same in every column (it is a function
of the top row).  Then after one step of the repaired update (`inplace = false`)
every column equals the 1D update of `col` (`col1D` = wpE's `coolStencil`) with
the same `dt`, `dz`, the same ghost values and Fourier number `alpha*dt/dz²`. -/
theorem radial_uniform_preserved (p : Par ℝ) (f : Flags) (Tsh : ℝ) (qe : Nat → ℝ) (q : ℝ)
    (T : Array ℝ) (col : Nat → ℝ)
    (hcfg : p.config ≠ Config.jacket) (hNz : 2 ≤ p.Nz) (hNr : 2 ≤ p.Nr)
    (hU : ∀ i j, i < p.Nz → j < p.Nr → rd p.Nr T i j = col i)
    (hq : ∀ j, j < p.Nr → qe j = q) :
    ∀ i j, i < p.Nz → j < p.Nr →
      rd p.Nr (coolStep (mkCtx p f) false Tsh qe T) i j
        = col1D p.Nz ((alpha0 p * dt p) / (dz p * dz p))
            (col 0 + (p.K_shelf * (Tsh - col 0)) * dz p / kEff0 p)
            (col (p.Nz - 1) + q * dz p / kEff0 p) col i :=
  radial_uniform_ctx (mkCtx p f) Tsh qe q T col (by simp [mkCtx]) (by simp [mkCtx]) hcfg hNz hNr hU hq

/-! ### radial uniformity over the whole cooling loop -/

/-- the hypothesis `hq` of `radial_uniform_preserved` discharged: the evaporative flux of the 2D
model depends on the column only through the column's top temperature, so on a radially uniform
field it is the same in every column -/
theorem qEvap_uniform (c : Ctx ℝ) (solid : Bool) (time : ℝ) (T : Array ℝ) (col : Nat → ℝ)
    (hNz : 2 ≤ c.Nz) (hNr : 2 ≤ c.Nr)
    (hU : ∀ i j, i < c.Nz → j < c.Nr → rd c.Nr T i j = col i) (j : Nat) (hj : j < c.Nr) :
    S2D.qEvap c solid time T j = S2D.qEvap c solid time T 0 := by
  have h1 : rd c.Nr T (c.Nz - 1) j = rd c.Nr T (c.Nz - 1) 0 := by
    rw [hU _ _ (by omega) hj, hU _ _ (by omega) (by omega)]
  unfold S2D.qEvap
  cases c.p.config <;> simp only []
  split
  · simp only [h1]
  · rfl

/-- **`radial_uniform_cooling_loop`** — repaired update (`inplace = false`), no jacket (shelf or
VISF): after EVERY step of the cooling loop the field is radially uniform (induction over
`S2D.coolLoop` through wpE's skeleton `st2D`, using `radial_uniform_ctx` and `qEvap_uniform`). -/
theorem radial_uniform_cooling_loop (p : Par ℝ) (f : Flags) (hin : f.inplace = false)
    (hcfg : p.config ≠ Config.jacket) (hNz : 2 ≤ p.Nz) (hNr : 2 ≤ p.Nr)
    (T0C : ℝ) (prof : List ℝ) (NtExp : Nat) (k : Nat) :
    ∃ col : Nat → ℝ, ∀ i j, i < p.Nz → j < p.Nr → rd p.Nr (st2D p f T0C prof NtExp k).T i j = col i := by
  unfold st2D
  apply stateAt_invariant (coolStep2D p f NtExp)
    (fun s => ∃ col : Nat → ℝ, ∀ i j, i < p.Nz → j < p.Nr → rd p.Nr s.T i j = col i)
  · refine ⟨fun _ => zero + (T0C + kelvin), ?_⟩
    intro i j hi hj
    have h := Snow.S2D.idx_lt hi hj
    simp [coolInit2D, rd, Array.getD, mkCtx, h]
  · intro i s x ⟨col, hU⟩
    have hl2 : (mkCtx p f).l2 = (2 : ℝ) := by simp [mkCtx]
    have hl1 : (mkCtx p f).l1 = (1 : ℝ) := by simp [mkCtx]
    have hinp : (mkCtx p f).f.inplace = false := hin
    have hq : ∀ j, j < (mkCtx p f).Nr →
        S2D.qEvap (mkCtx p f) false ((mkCtx p f).dt * ofNat' i) s.T j
          = S2D.qEvap (mkCtx p f) false ((mkCtx p f).dt * ofNat' i) s.T 0 :=
      fun j hj => qEvap_uniform (mkCtx p f) false _ s.T col hNz hNr hU j hj
    have h := radial_uniform_ctx (mkCtx p f) x _ _ s.T col hl2 hl1 hcfg hNz hNr hU hq
    refine ⟨fun i' => col1D (mkCtx p f).Nz ((mkCtx p f).a0 / ((mkCtx p f).dz * (mkCtx p f).dz))
        (col 0 + (mkCtx p f).p.K_shelf * (x - col 0) * (mkCtx p f).dz / (mkCtx p f).k0)
        (col ((mkCtx p f).Nz - 1)
          + S2D.qEvap (mkCtx p f) false ((mkCtx p f).dt * ofNat' i) s.T 0 * (mkCtx p f).dz / (mkCtx p f).k0)
        col i', fun i' j hi' hj => ?_⟩
    have := h i' j hi' hj
    simp only [coolStep2D, coolStepSt, hinp]
    exact this

/-! ### the in-place code breaks radial uniformity (F10): exact witness on a 3 × 3 grid -/

/-- a tiny exact instance: `dz = dr = 1`, `alpha = alpha_max = 1`, `dt = 0.2`,
`K_shelf = 1`, `k_eff = 1`, configuration `shelf` -/
def pW : Par Rat :=
  { Nz := 3, Nr := 3, pi := 3, height := 3, diameter := 6, V := 1, rho_l := 1, mass := 1,
    mass_water := 1, mass_solute := 0, lambda_w := 1, lambda_i := 1, lambda_s := 1, cp_w := 1,
    cp_i := 1, cp_s := 1, cp_solution := 1, solid_fraction := 0, T_eq := 0, k_f := 1, M_s := 1,
    depression := 0, kb := 0, b := 1, k_B := 1, Dh := 1, K_shelf := 1, config := Config.shelf,
    p_vac := 0, kappa := 0, dHe := 0, m_water := 0, t_vac_start := 0, t_vac_duration := 0,
    air_gap := 0, lambda_air := 1 }

/-- the uniform field 10 on the 3 × 3 grid -/
def TW : Array Rat := Array.replicate 9 10

/-- one step of the CURRENT (aliased, in-place) update from a uniform field with the
shelf at 0: the bottom-centre node is computed first (10 → 8), the bottom corner
next (10 → 8), and the bottom node between them then reads the two updated
neighbours and becomes 7.2: a radial difference out of a radially uniform field
and radially uniform boundary conditions. -/
theorem radial_uniform_inplace_counterexample :
    rd 3 (coolStep (mkCtx pW {}) true 0 (fun _ => 0) TW) 0 0 = 8 ∧
    rd 3 (coolStep (mkCtx pW {}) true 0 (fun _ => 0) TW) 0 1 = 36 / 5 ∧
    rd 3 (coolStep (mkCtx pW {}) true 0 (fun _ => 0) TW) 0 0
      ≠ rd 3 (coolStep (mkCtx pW {}) true 0 (fun _ => 0) TW) 0 1 := by
  decide +kernel

/-- the same step with the repaired update keeps the row uniform (8, 8, 8) -/
theorem radial_uniform_repaired_witness :
    rd 3 (coolStep (mkCtx pW {}) false 0 (fun _ => 0) TW) 0 0 = 8 ∧
    rd 3 (coolStep (mkCtx pW {}) false 0 (fun _ => 0) TW) 0 1 = 8 ∧
    rd 3 (coolStep (mkCtx pW {}) false 0 (fun _ => 0) TW) 0 2 = 8 := by
  decide +kernel

/-! ### evaporative boundary condition: 2D (repaired, F11) = 1D -/

/-- **`evap2D_eq_evap1D`** (after the repair of F11, flag `coolingSolidPvap = false`): in the
cooling stage the evaporative heat flux of column `j` of the 2D model is the 1D model's
`qEvap` evaluated at that column's top temperature — same window test, same (liquid) vapour
pressure, same flux law.  (`np.pi` of the 2D model is the double `Evap.piDouble`.) -/
theorem evap2D_eq_evap1D (c : Ctx ℝ) (q : SnowIn ℝ) (v : Visf ℝ) (time : ℝ) (T : Array ℝ) (j : Nat)
    (hcfg : c.p.config = Config.visf) (hflag : c.f.coolingSolidPvap = false) (hv : q.visf = some v)
    (hpi : c.p.pi = Evap.piDouble)
    (h1 : v.p_vac = c.p.p_vac) (h2 : v.kappa = c.p.kappa) (h3 : v.dHe = c.p.dHe)
    (h4 : v.m_water = c.p.m_water) (h5 : v.t_vac_start = c.p.t_vac_start)
    (h6 : v.t_vac_duration = c.p.t_vac_duration) (h7 : q.const.k_B = c.p.k_B) :
    S2D.qEvap c false time T j
      = Snow.qEvap q Evap.vapourPressureLiquid time (rd c.Nr T (c.Nz - 1) j) := by
  unfold S2D.qEvap Snow.qEvap
  rw [hcfg, hv]
  simp only [h1, h2, h3, h4, h5, h6, h7, hflag, Bool.false_or]
  split
  · simp only [Bool.false_eq_true, if_false, hpi]
    rfl
  · rfl

/-! ### the mean of the 1D column obeys the 0D balance -/

/-- **`mean1D_obeys_0D`** (from the telescoping identity `sum_col1D_sub`): in the cooling stage
the mean temperature of the 1D column changes by `dt·(A·K·(T_sh − T[0]) + A·q_e)/(c_p·m)`,
`m = ρ·A·H` — the homogeneous (0D) update formula, driven by the bottom-node temperature. -/
theorem mean1D_obeys_0D (Nz : Nat) (hNz : 2 ≤ Nz) (col : Nat → ℝ)
    (rho cp lam H A dt K Tsh qe : ℝ) (hrho : rho ≠ 0) (hcp : cp ≠ 0) (hlam : lam ≠ 0) (hH : H ≠ 0)
    (hA : A ≠ 0) :
    (∑ i ∈ Finset.range Nz,
        col1D Nz ((lam / (cp * rho)) * dt / ((H / Nz) * (H / Nz)))
          (col 0 + (K * (Tsh - col 0)) * (H / Nz) / lam) (col (Nz - 1) + qe * (H / Nz) / lam) col i) / Nz
      = (∑ i ∈ Finset.range Nz, col i) / Nz
        + dt * (A * K * (Tsh - col 0) + A * qe) / (cp * (rho * A * H)) := by
  have hN : (Nz : ℝ) ≠ 0 := by exact_mod_cast (by omega : Nz ≠ 0)
  have h := sum_col1D_sub Nz hNz ((lam / (cp * rho)) * dt / ((H / Nz) * (H / Nz)))
    (col 0 + (K * (Tsh - col 0)) * (H / Nz) / lam) (col (Nz - 1) + qe * (H / Nz) / lam) col
  rw [Finset.sum_sub_distrib] at h
  have h' : ∑ i ∈ Finset.range Nz,
        col1D Nz ((lam / (cp * rho)) * dt / ((H / Nz) * (H / Nz)))
          (col 0 + (K * (Tsh - col 0)) * (H / Nz) / lam) (col (Nz - 1) + qe * (H / Nz) / lam) col i
      = ∑ i ∈ Finset.range Nz, col i
        + (lam / (cp * rho)) * dt / ((H / Nz) * (H / Nz))
          * ((col 0 + (K * (Tsh - col 0)) * (H / Nz) / lam - col 0)
            + (col (Nz - 1) + qe * (H / Nz) / lam - col (Nz - 1))) := by linarith
  rw [h']
  field_simp
  ring

/-- **`mean1D_obeys_0D` for the model's step** (`Snow.coolField1D`): the mean of the column after
one cooling step of `_run_1D` is the old mean plus `dt·(A·K_shelf·(T_sh − T[0]) + A·q_e)/(c_p·m)`
with `m = ρ·A·H`, `q_e = qEvap` (zero outside VISF / the vacuum window). -/
theorem mean1D_obeys_0D_field (p : SnowIn ℝ) (g : Grid1D ℝ) (i : Nat) (T : Array ℝ) (Tsh H A : ℝ)
    (hsz : T.size = g.Nz) (hNz : 2 ≤ g.Nz) (hdz : g.dz = H / g.Nz)
    (hfo : g.fo = (g.lam0 / (p.const.cp_solution * p.const.rho_l)) * g.dt / (g.dz * g.dz))
    (hrho : p.const.rho_l ≠ 0) (hcp : p.const.cp_solution ≠ 0) (hlam : g.lam0 ≠ 0) (hH : H ≠ 0) (hA : A ≠ 0) :
    (∑ j ∈ Finset.range g.Nz, aget (coolField1D p g i T Tsh) j) / g.Nz
      = (∑ j ∈ Finset.range g.Nz, aget T j) / g.Nz
        + g.dt * (A * p.Kshelf * (Tsh - aget T 0)
            + A * Snow.qEvap p Evap.vapourPressureLiquid (g.dt * (i : ℝ)) (aget T (g.Nz - 1)))
          / (p.const.cp_solution * (p.const.rho_l * A * H)) := by
  have h := mean1D_obeys_0D g.Nz hNz (aget T) p.const.rho_l p.const.cp_solution g.lam0 H A g.dt p.Kshelf Tsh
    (Snow.qEvap p Evap.vapourPressureLiquid (g.dt * (i : ℝ)) (aget T (g.Nz - 1))) hrho hcp hlam hH hA
  rw [← h]
  congr 1
  apply Finset.sum_congr rfl
  intro j hj
  have hj' : j < T.size := by rw [hsz]; exact Finset.mem_range.mp hj
  rw [coolField1D_get p g i T Tsh (by omega) j hj', hsz, hfo, hdz]

/-! ### Snowflake (1 × 1 × 1) and the homogeneous Snowing model -/

/-- **`flake1_eq_0D_cooling`**: for a single isolated vial (`nbrs = [[]]`, `k_ext = 0`) with the
same shelf coefficient, area, heat capacity `hl = m·c_p` and `dt = 0.1`, Snowflake's liquid
step and Snowing-0D's cooling step are the same function of `(T, T_sh)` up to the °C/K shift. -/
theorem flake1_eq_0D_cooling (p : Flake.Params ℝ) (q : SnowIn ℝ) (T Tsh K E : ℝ) (i : Nat)
    (tr1 tr2 : Array ℝ)
    (hn : p.nbrs = [[]]) (hext : p.kExt = 0) (hks : p.kShelf = [K]) (hdt : p.dt = 1 / 10)
    (hA : q.const.A = p.A) (hK : q.Kshelf = K) (hhl : p.c.hl = q.const.mass * q.const.cp_solution)
    (hhl0 : p.c.hl ≠ 0) :
    Flake.liquidTemp p.c p.dt (Flake.heatFlow p #[T] Tsh Tsh 0) T + 273.15
      = (coolStep0D q i ⟨T + 273.15, E, tr1, tr2⟩ (Tsh + 273.15)).T := by
  have hq : Flake.heatFlow p #[T] Tsh Tsh 0 = K * p.A * (Tsh - T) := by
    simp [Flake.heatFlow, Flake.qInt, Flake.hDiag, Flake.hExt, Flake.hShelf, hn, hext, hks]
  rw [hq]
  simp only [Flake.liquidTemp, coolStep0D, dt0D, lit_real, hdt, hA, hK]
  rw [hhl] at hhl0 ⊢
  have : q.const.mass ≠ 0 := fun h => hhl0 (by rw [h, zero_mul])
  have : q.const.cp_solution ≠ 0 := fun h => hhl0 (by rw [h, mul_zero])
  field_simp
  ring

/-- **`solid_rhs_equiv`**: on the liquidus `T = T_m − D/(1−σ)` the two codings of the
solidification stage integrate the same ODE: the 0D right-hand side `dT/dt` equals
`dT/dσ = −D/(1−σ)²` times Snowflake's `dσ/dt`.  Constants as derived by `calculateDerived`:
`alpha = −m·Δh·(1−w_s)`, `m_s = m·w_s`, `D = (k_f/M_s)·w_s/(1−w_s)`, `w_i = σ·(1−w_s)`.
(The two codes are different Euler discretisations of it, so solidification *times* agree
only to `O(dt)`: evaluated on paired runs, not a theorem.) -/
theorem solid_rhs_equiv (m Dh ws kf Ms cps cpi cpw Tm σ Q : ℝ)
    (hm : 0 < m) (hDh : 0 < Dh) (hws0 : 0 < ws) (hws1 : ws < 1) (hkf : 0 < kf) (hMs : 0 < Ms)
    (hσ : σ < 1)
    (hden : m * (ws * cps + (1 - ws) * (σ * (cpi - cpw) + cpw)) * (kf / Ms * (ws / (1 - ws)))
        + m * Dh * (1 - ws) * ((1 - σ) * (1 - σ)) ≠ 0) :
    let D := kf / Ms * (ws / (1 - ws))
    let T := Tm - D / (1 - σ)
    let wi := σ * (1 - ws)
    let cp0D := cps * ws + cpi * wi + cpw * (1 - ws - wi)
    let cpσ := ws * cps + (1 - ws) * (σ * (cpi - cpw) + cpw)
    let alpha := -m * Dh * (1 - ws)
    -- 0D: dT/dt = Q / (c_p·m + (Δh·k_f·m_s/M_s)/(T_m − T)²)
    Q / (cp0D * m + (Dh * kf * (m * ws) / Ms) * (1 / ((Tm - T) * (Tm - T))))
      -- Snowflake: dσ/dt = Q / (alpha − D·m·c_p(σ)/(1−σ)²)
      = (-D / ((1 - σ) * (1 - σ))) * (Q / (alpha - D * m * cpσ / ((1 - σ) * (1 - σ)))) := by
  intro D T wi cp0D cpσ alpha
  have h1 : (1 - ws) ≠ 0 := by linarith
  have h2 : (1 - σ) ≠ 0 := by linarith
  have hD : 0 < D := by positivity
  have hTm : Tm - T = D / (1 - σ) := by simp only [T]; ring
  rw [hTm]
  have hcp : cp0D = cpσ := by simp only [cp0D, cpσ, wi]; ring
  rw [hcp]
  set N := m * cpσ * D + m * Dh * (1 - ws) * ((1 - σ) * (1 - σ)) with hN
  have hN0 : N ≠ 0 := hden
  have e1 : cpσ * m + Dh * kf * (m * ws) / Ms * (1 / (D / (1 - σ) * (D / (1 - σ)))) = N / D := by
    have hD0 : D ≠ 0 := ne_of_gt hD
    have hDdef : kf * ws = D * Ms * (1 - ws) := by simp only [D]; field_simp
    have : Dh * kf * (m * ws) / Ms = Dh * m * D * (1 - ws) := by
      rw [show Dh * kf * (m * ws) = Dh * m * (kf * ws) by ring, hDdef]; field_simp
    rw [this, hN]; field_simp
  have e2 : alpha - D * m * cpσ / ((1 - σ) * (1 - σ)) = -N / ((1 - σ) * (1 - σ)) := by
    rw [hN]; simp only [alpha]; field_simp; ring
  rw [e1, e2]
  have hD0 : D ≠ 0 := ne_of_gt hD
  field_simp

/-- core of `nuc0D_eq_direct`: with `s² = (Δ−g)² + 4gD`, Snowflake's direct root
`σ = (−(Δ+g) + s)/(−2g)` and the 0D supercooling `x = T_m − T* = ((Δ−g) + s)/2` are tied by the
liquidus `x = D/(1−σ)` -/
theorem direct_core (g D Δ s : ℝ) (hg : 0 < g) (hD : 0 < D) (hs0 : 0 ≤ s)
    (hs : s * s = (Δ - g) ^ 2 + 4 * g * D) :
    let σ := (-(Δ + g) + s) / (-2 * g)
    let x := ((Δ - g) + s) / 2
    0 < x ∧ 1 - σ ≠ 0 ∧ D / (1 - σ) = x ∧ 1 - D / x = σ := by
  intro σ x
  have hpos : 0 < 4 * g * D := by positivity
  have h2 : Δ - g < s := by
    by_contra hc
    have hc' : s ≤ Δ - g := not_lt.mp hc
    nlinarith
  have h1 : -s < Δ - g := by
    by_contra hc
    have hc' : Δ - g ≤ -s := not_lt.mp hc
    nlinarith
  have hx : 0 < x := by simp only [x]; linarith
  have h1σ : 1 - σ = (s - (Δ - g)) / (2 * g) := by
    simp only [σ]; field_simp; ring
  have hne : 1 - σ ≠ 0 := by
    rw [h1σ]
    apply div_ne_zero
    · linarith
    · positivity
  have hDx : D / (1 - σ) = x := by
    rw [h1σ]
    simp only [x]
    have : s - (Δ - g) ≠ 0 := by linarith
    field_simp
    nlinarith
  refine ⟨hx, hne, hDx, ?_⟩
  have : D / x = 1 - σ := by
    rw [← hDx]; field_simp
  linarith

/-- **`nuc0D_eq_direct`**: for the same nucleation temperature, the homogeneous Snowing model
(`nucleate0D`: temperature after nucleation `nucTeq`, ice mass `iceMassEq`) and Snowflake's
*direct* formulation (`sigmaDirect`, `eqTemp`) give the same state: same quadratic, same
branch.  Constants related as in `calculateDerived`: `gamma_direct = Δh·m_w/(c_p·m)`,
same `T_eq`, same depression `D = (k_f/M_s)·m_s/m_w`. -/
theorem nuc0D_eq_direct (c : Flake.Consts ℝ) (q : SnowIn ℝ) (T : ℝ)
    (hTeq : c.T_eq = q.const.T_eq) (hdepc : c.depression = q.const.depression)
    (hg : Flake.gammaDirect c = q.const.Dh * q.const.mass_water / (q.const.cp_solution * q.const.mass))
    (hgpos : 0 < Flake.gammaDirect c) (hDpos : 0 < q.const.depression)
    (hmw : 0 < q.const.mass_water)
    (hdep : q.const.depression = q.const.k_f / q.const.M_s * (q.const.mass_solute / q.const.mass_water)) :
    nucTeq q (T + 273.15) = Flake.eqTemp c (Flake.sigmaDirect c T) + 273.15 ∧
      iceMassEq q (nucTeq q (T + 273.15)) / q.const.mass_water = Flake.sigmaDirect c T := by
  set g := Flake.gammaDirect c with hgdef
  set D := q.const.depression with hDdef
  set Δ := q.const.T_eq - T with hΔ
  have hS1 : (c.T_eq - T + g) * (c.T_eq - T + g) + 4 * g * (T - c.T_eq + c.depression)
      = (Δ - g) ^ 2 + 4 * g * D := by rw [hTeq, hdepc]; simp only [hΔ]; ring
  have hκ : q.const.mass_solute * (q.const.k_f / q.const.M_s) = q.const.mass_water * D := by
    rw [hdep]; field_simp
  have hS2 : Snow.nucB q (T + 273.15) * Snow.nucB q (T + 273.15) - 4 * Snow.nucC q (T + 273.15)
      = (Δ - g) ^ 2 + 4 * g * D := by
    have hC : q.const.mass_solute * (q.const.k_f / q.const.M_s) * q.const.Dh
        / (q.const.cp_solution * q.const.mass) = g * D := by
      rw [hκ, hg]; ring
    have hA2 : ∀ X : ℝ, q.const.Dh * q.const.mass_water * X / (q.const.cp_solution * q.const.mass)
        = g * X := by intro X; rw [hg]; ring
    simp only [Snow.nucB, Snow.nucC, SnowIn.T_m, lit_real]
    rw [hC, hA2, ← hg]
    simp only [hΔ]; ring
  have hSpos : 0 ≤ (Δ - g) ^ 2 + 4 * g * D := by positivity
  set s := Real.sqrt ((Δ - g) ^ 2 + 4 * g * D) with hs
  have hs0 : 0 ≤ s := Real.sqrt_nonneg _
  have hss : s * s = (Δ - g) ^ 2 + 4 * g * D := Real.mul_self_sqrt hSpos
  obtain ⟨hx, hne, hDx, hσ⟩ := direct_core g D Δ s hgpos hDpos hs0 hss
  have hsig : Flake.sigmaDirect c T = (-(Δ + g) + s) / (-2 * g) := by
    simp only [Flake.sigmaDirect, ← hgdef, ofNat'_real, ofInt_real, Transc.sqrt, Nat.cast_ofNat]
    rw [hS1, ← hs, hTeq]
    simp only [hΔ]; push_cast; ring_nf
  have hTs : nucTeq q (T + 273.15) = (q.const.T_eq + 273.15) - ((Δ - g) + s) / 2 := by
    simp only [nucTeq, lit_real, ofNat'_real, Transc.sqrt, Nat.cast_ofNat]
    rw [hS2, ← hs]
    simp only [Snow.nucB, SnowIn.T_m, lit_real, ← hg, hΔ]
    norm_num
    ring
  constructor
  · rw [hTs, hsig]
    simp only [Flake.eqTemp, one_real, hTeq, hdepc]
    have : D * (1 / (1 - (-(Δ + g) + s) / (-2 * g))) = ((Δ - g) + s) / 2 := by
      rw [mul_one_div]; exact hDx
    rw [this]; ring
  · rw [hsig, ← hσ]
    have hTm : q.T_m = q.const.T_eq + 273.15 := by
      simp only [SnowIn.T_m, lit_real]; norm_num
    have hxx : q.T_m - nucTeq q (T + 273.15) = ((Δ - g) + s) / 2 := by
      rw [hTm, hTs]; ring
    simp only [iceMassEq]
    rw [hxx, hκ]
    have : ((Δ - g) + s) / 2 ≠ 0 := ne_of_gt hx
    field_simp

/-! ### non-vacuity -/

/-- the default primary constants of the Snowflake model (snowConfig_default.yaml) -/
noncomputable def yDef : Flake.Primary ℝ :=
  { T_eq := 0, b := 29.3, rho_l := 1000, height := 0.01, length := 0.01, width := 0.01, cp_s := 1240,
    solid_fraction := 0.05, cp_w := 4187, cp_i := 2108, k_f := 1.853, M_s := 0.3423, Dh := 333550 }

/-- the constant relations assumed by `nuc0D_eq_direct` hold between Snowflake's derived constants
(`Flake.deriveConsts yDef`, the model of `calculateDerived`) and the default `SnowIn` `qDef` -/
theorem nuc0D_eq_direct_hyps :
    (Flake.deriveConsts yDef).T_eq = RunBounds.qDef.const.T_eq
    ∧ (Flake.deriveConsts yDef).depression = RunBounds.qDef.const.depression
    ∧ Flake.gammaDirect (Flake.deriveConsts yDef)
        = RunBounds.qDef.const.Dh * RunBounds.qDef.const.mass_water
          / (RunBounds.qDef.const.cp_solution * RunBounds.qDef.const.mass)
    ∧ 0 < Flake.gammaDirect (Flake.deriveConsts yDef)
    ∧ 0 < RunBounds.qDef.const.depression ∧ 0 < RunBounds.qDef.const.mass_water
    ∧ RunBounds.qDef.const.depression = RunBounds.qDef.const.k_f / RunBounds.qDef.const.M_s
        * (RunBounds.qDef.const.mass_solute / RunBounds.qDef.const.mass_water) := by
  refine ⟨?_, ?_, ?_, ?_, ?_, ?_, ?_⟩ <;>
    simp only [Flake.deriveConsts, Flake.gammaDirect, yDef, RunBounds.qDef, one_real] <;> norm_num

/-- Snowflake's derived constants of the default primaries `yDef` are those the GENERATED
`calculateDerived` returns for the GENERATED default YAML tree (`DefaultLink.gen_default_constants`,
exact over ℚ) -/
theorem yDef_is_generated_default :
    (Flake.deriveConsts yDef).depression = ((18530 / 65037 : ℚ) : ℝ)
    ∧ (Flake.deriveConsts yDef).mass = ((1 / 1000 : ℚ) : ℝ)
    ∧ (Flake.deriveConsts yDef).cp_solution = ((80793 / 20 : ℚ) : ℝ)
    ∧ (Flake.deriveConsts yDef).hl = ((80793 / 20000 : ℚ) : ℝ)
    ∧ (Flake.deriveConsts yDef).alpha = ((-126749 / 400 : ℚ) : ℝ)
    ∧ (Flake.deriveConsts yDef).beta_solution = ((49903143 / 43358000 : ℚ) : ℝ)
    ∧ DefaultLink.genField "alpha" = some (-126749 / 400)
    ∧ DefaultLink.genField "hl" = some (80793 / 20000)
    ∧ DefaultLink.genField "beta_solution" = some (49903143 / 43358000) := by
  refine ⟨?_, ?_, ?_, ?_, ?_, ?_, by decide +kernel, by decide +kernel, by decide +kernel⟩ <;>
    simp only [Flake.deriveConsts, yDef, one_real] <;> norm_num

/-- the hypotheses of `radial_uniform_preserved` hold for a concrete non-trivial case (the
3 × 3 witness grid, shelf configuration, the uniform field, zero top flux), and those of
`nuc0D_eq_direct` for the default solution (`nuc0D_eq_direct_hyps`) -/
theorem nonvacuous :
    (pW.config ≠ Config.jacket ∧ 2 ≤ pW.Nz ∧ 2 ≤ pW.Nr) ∧
    (∀ i j, i < 3 → j < 3 → rd 3 (Array.replicate 9 (10 : ℝ)) i j = (fun _ => (10 : ℝ)) i) ∧
    (∀ j, j < 3 → (fun _ : Nat => (0 : ℝ)) j = 0) ∧
    ((Flake.deriveConsts yDef).T_eq = RunBounds.qDef.const.T_eq
      ∧ 0 < Flake.gammaDirect (Flake.deriveConsts yDef)) := by
  refine ⟨⟨by decide, by decide, by decide⟩, ?_, fun _ _ => rfl, nuc0D_eq_direct_hyps.1,
    nuc0D_eq_direct_hyps.2.2.2.1⟩
  intro i j hi hj
  have h : i * 3 + j < 9 := by omega
  simp [rd, Array.getD, h]

end Snow.C15
