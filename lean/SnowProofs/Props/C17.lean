/-
  C17 — Tabular exports reproduce the simulated numbers exactly.

  Model: SnowModel/Frames.lean.  Values are opaque (`V`): the tables copy them.
  Helper lemmas: SnowProofs/Lemmas/Frames.lean.

  Property theorems only.  Proofs, helper lemmas and the definitions used in the
  statements (StatsWF, FallWF, stride, nSamples, selOK, seedOK, varOK): SnowProofs/Lemmas/FramesProps.lean.
-/
import SnowProofs.Lemmas.FramesProps
import SnowModel.FrameLabels
import SnowProofs.Props.C16

namespace Snow.C17
open Snow.Frames Snow.FramesLemmas Snow.FramesProps

set_option linter.unusedSectionVars false
set_option linter.unusedTactic false
variable {V : Type} [Inhabited V]

/-- **stats_table_exact**: the statistics table has one row per (key, vial); row
`j * N + v` carries vial `v`, its label, the `j`-th key and exactly the value the run
holds for that vial under that key. -/
theorem stats_table_exact (N : Nat) (labels : List String) (stats : Stats V) (h : StatsWF N stats) :
    (statsTable labels stats).length = stats.length * N ∧
    ∀ j v kv x, v < N → stats[j]? = some kv → kv.2[v]? = some x →
      (statsTable labels stats)[j * N + v]? = some ⟨labels.getD v "", v, kv.1, x⟩ := by
  first | (apply Snow.FramesProps.stats_table_exact <;> assumption) | (apply @Snow.FramesProps.stats_table_exact V <;> assumption)

/-- **stats_table_once**: with distinct keys, each (vial, variable) pair occurs in
exactly one row. -/
theorem stats_table_once (N : Nat) (labels : List String) (stats : Stats V) (h : StatsWF N stats)
    (hk : (stats.map (·.1)).Nodup) (p q : Nat) (r1 r2 : StatRow V)
    (hp : (statsTable labels stats)[p]? = some r1) (hq : (statsTable labels stats)[q]? = some r2)
    (hvial : r1.vial = r2.vial) (hvar : r1.var = r2.var) : p = q := by
  first | (apply Snow.FramesProps.stats_table_once <;> assumption) | (apply @Snow.FramesProps.stats_table_once V <;> assumption)

/-- **traj_table_exact**: for every recorded vial (row `r` of the state matrix; the
first `m` rows are temperatures, the next `m` ice fractions) and every sampled
column `k`, row `k * 2m + r` of the table carries the vial's index and label, the
state name, the time `t[k * stride]` and exactly the stored number `X[r][k * stride]`. -/
theorem traj_table_exact (X : List (List V)) (t : List V) (n : Nat) (vials : List Nat) (tlabels : List String)
    (hn : 2 ≤ n) (hm : 0 < vials.length) (ht : t.length = (X.headD []).length)
    (rows : List (TrajRow V)) (hrows : trajTable false X t n vials tlabels = .ok (some rows))
    (k r : Nat) (hk : k < nSamples (X.headD []).length n) (hr : r < 2 * vials.length)
    (tv xv : V) (row : List V) (vi : Nat)
    (htv : t[k * stride (X.headD []).length n]? = some tv)
    (hrow : X[r]? = some row) (hxv : row[k * stride (X.headD []).length n]? = some xv)
    (hvi : vials[r % vials.length]? = some vi) :
    rows[k * (2 * vials.length) + r]? =
      some { group := tlabels.getD (r % vials.length) "", vial := vi,
             state := if r < vials.length then "temperature" else "sigma", time := tv, value := xv } := by
  first | (apply Snow.FramesProps.traj_table_exact <;> assumption) | (apply @Snow.FramesProps.traj_table_exact V <;> assumption)

/-- **traj_table_total**: for ANY run length (also fewer columns than requested
samples) the call succeeds; the table has `2m` rows per sampled column, at least
`min(ncols, n − 1)` columns are sampled, and every sampled column exists. -/
theorem traj_table_total (X : List (List V)) (t : List V) (n : Nat) (vials : List Nat) (tlabels : List String)
    (hn : 2 ≤ n) (hm : 0 < vials.length) (ht : t.length = (X.headD []).length) :
    ∃ rows, trajTable false X t n vials tlabels = .ok (some rows) ∧
      rows.length = nSamples (X.headD []).length n * (2 * vials.length) ∧
      min (X.headD []).length (n - 1) ≤ nSamples (X.headD []).length n ∧
      ∀ k, k < nSamples (X.headD []).length n → k * stride (X.headD []).length n < (X.headD []).length := by
  first | (apply Snow.FramesProps.traj_table_total <;> assumption) | (apply @Snow.FramesProps.traj_table_total V <;> assumption)

/-- **fall_table_exact**: the Snowfall table has exactly `Nrep · N · 3` rows, and the
row at position `i·3N + j·N + v` carries seed `i`, vial `v` with its label, the
`j`-th key of repetition `i` and exactly that repetition's value for the vial. -/
theorem fall_table_exact (labels : List String) (statsList : List (Stats V))
    (h : FallWF labels.length statsList) :
    ∃ rows, fallTable labels statsList = .ok rows ∧
      rows.length = statsList.length * (labels.length * 3) ∧
      ∀ i j v st kv x, v < labels.length → statsList[i]? = some st → st[j]? = some kv →
        kv.2[v]? = some x →
        rows[i * (labels.length * 3) + (j * labels.length + v)]? =
          some ⟨labels.getD v "", v, kv.1, x, i⟩ := by
  first | (apply Snow.FramesProps.fall_table_exact <;> assumption) | (apply @Snow.FramesProps.fall_table_exact V <;> assumption)

/-! ### the group column: link to the vial classes (model `Groups.lean`, property C16) -/

section classes
open Snow.Topology Snow.Groups Snow.FrameLabels

theorem statsLabels_getD (arr : Arr) (nx ny nz v : Nat) (hv : v < nTot nx ny nz) :
    (statsLabels arr nx ny nz).getD v "" = render (statsLabel arr nz (ext arr nx ny nz v)) := by
  simp [statsLabels, List.getD_eq_getElem?_getD, hv]

/-- **stats_table_class**: built with the labels the code computes
(`statsLabel` of the vial's exposure count), every row of the statistics table
carries, for its vial, the NAME OF THE CLASS THE VIAL BELONGS TO: the label is one
of corner / edge / side / core, the vial passes the group test of that name, and it
is in the class named `g` exactly when `g` and the label are the same class (up to
the synonyms). Shapes with at least two vials per populated direction (C16). -/
theorem stats_table_class (arr : Arr) (nx ny nz : Nat) (hnx : 2 ≤ nx) (hny : 2 ≤ ny)
    (stats : Stats V) (h : StatsWF (nTot nx ny nz) stats) (j v : Nat) (kv : String × List V) (x : V)
    (hv : v < nTot nx ny nz) (hj : stats[j]? = some kv) (hx : kv.2[v]? = some x) :
    ∃ s ∈ ["corner", "edge", "side", "core"],
      (statsTable (statsLabels arr nx ny nz) stats)[j * nTot nx ny nz + v]? = some ⟨s, v, kv.1, x⟩ ∧
      groupTest arr nz s (ext arr nx ny nz v) = true ∧
      ∀ g ∈ ["corner", "edge", "side", "core", "center"],
        (groupTest arr nz g (ext arr nx ny nz v) = true ↔ Groups.canon arr nz g = Groups.canon arr nz s) := by
  obtain ⟨_, s, hs, hlab, htest, hall⟩ := Snow.C16.labels_agree (nx := nx) (ny := ny) (nz := nz) (i := v) arr hnx hny hv
  refine ⟨s, hs, ?_, htest, hall⟩
  have := (FramesProps.stats_table_exact (nTot nx ny nz) (statsLabels arr nx ny nz) stats h).2 j v kv x hv hj hx
  rw [this, statsLabels_getD arr nx ny nz v hv, hlab]
  rfl

/-- **traj_table_class**: the trajectory table, built with the labels the code computes
for the stored vials, carries for every row the class name of ITS vial — the same
label the statistics table gives that vial. -/
theorem traj_table_class (arr : Arr) (nx ny nz : Nat) (hnx : 2 ≤ nx) (hny : 2 ≤ ny)
    (X : List (List V)) (t : List V) (n : Nat) (vials : List Nat)
    (hn : 2 ≤ n) (hm : 0 < vials.length) (ht : t.length = (X.headD []).length)
    (rows : List (TrajRow V))
    (hrows : trajTable false X t n vials (trajLabels arr nx ny nz vials) = .ok (some rows))
    (k r : Nat) (hk : k < nSamples (X.headD []).length n) (hr : r < 2 * vials.length)
    (tv xv : V) (row : List V) (vi : Nat)
    (htv : t[k * stride (X.headD []).length n]? = some tv)
    (hrow : X[r]? = some row) (hxv : row[k * stride (X.headD []).length n]? = some xv)
    (hvi : vials[r % vials.length]? = some vi) (hlt : vi < nTot nx ny nz) :
    ∃ s ∈ ["corner", "edge", "side", "core"],
      rows[k * (2 * vials.length) + r]? =
        some { group := s, vial := vi, state := if r < vials.length then "temperature" else "sigma",
               time := tv, value := xv } ∧
      (statsLabels arr nx ny nz).getD vi "" = s ∧
      groupTest arr nz s (ext arr nx ny nz vi) = true := by
  obtain ⟨heq, s, hs, hlab, htest, _⟩ := Snow.C16.labels_agree (nx := nx) (ny := ny) (nz := nz) (i := vi) arr hnx hny hlt
  refine ⟨s, hs, ?_, ?_, htest⟩
  · have := FramesProps.traj_table_exact X t n vials (trajLabels arr nx ny nz vials) hn hm ht rows hrows k r hk hr
      tv xv row vi htv hrow hxv hvi
    rw [this]
    have hl : (trajLabels arr nx ny nz vials).getD (r % vials.length) "" = s := by
      simp [trajLabels, List.getD_eq_getElem?_getD, hvi, ← heq, hlab, render]
    rw [hl]
  · rw [statsLabels_getD arr nx ny nz vi hlt, hlab]; rfl

end classes

/-- whatever table was cached before (any history of runs and exports), after
`run()` the table is the one of the stats of THAT run … -/
theorem table_after_run (labels : List String) (f : Fall V) (newStats : List (Stats V)) :
    (Fall.toFrame labels (f.run newStats)).1 = fallTable labels newStats := by
  first | (apply Snow.FramesProps.table_after_run <;> assumption) | (apply @Snow.FramesProps.table_after_run V <;> assumption)

/-- … and asking again returns the same table (from the cache) -/
theorem table_cached (labels : List String) (f : Fall V) (newStats : List (Stats V)) :
    (Fall.toFrame labels (Fall.toFrame labels (f.run newStats)).2).1 = fallTable labels newStats := by
  first | (apply Snow.FramesProps.table_cached <;> assumption) | (apply @Snow.FramesProps.table_cached V <;> assumption)

/-- **accessors_exact**: `nucleationTimes / nucleationTemperatures /
solidificationTimes (group, seed)` return exactly the values
`stats[i][key][v]` for the requested seeds `i`, the accessor's key and the vials `v`
selected by the group argument — each once, ordered by seed, then vial. -/
theorem accessors_exact (labels : List String) (statsList : List (Stats V))
    (h : FallWF labels.length statsList) (what : String) (sel seeds : Option (List Nat))
    (rows : List (FallRow V)) (hrows : fallTable labels statsList = .ok rows) :
    returnStats what sel seeds rows =
      statsList.zipIdx.flatMap fun si =>
        if seedOK seeds si.2 then
          si.1.flatMap fun kv =>
            if varOK what kv.1 then (kv.2.zipIdx.filter fun xv => selOK sel xv.2).map (·.1) else []
        else [] := by
  first | (apply Snow.FramesProps.accessors_exact <;> assumption) | (apply @Snow.FramesProps.accessors_exact V <;> assumption)

/-- pre-repair code: a run with fewer columns than `n − 1` has stride 0 and
`to_frame` raises (`ValueError: slice step cannot be zero`) -/
theorem old_stride_zero_raises (X : List (List V)) (t : List V) (n : Nat) (vials : List Nat)
    (tlabels : List String) (hn : 2 ≤ n) (hm : 0 < vials.length) (hc : (X.headD []).length < n - 1) :
    trajTable true X t n vials tlabels = .error "ValueError" := by
  first | (apply Snow.FramesProps.old_stride_zero_raises <;> assumption) | (apply @Snow.FramesProps.old_stride_zero_raises V <;> assumption)

/-- a time vector with one entry more than the state matrix has columns (what
`np.arange(0, N·dt, dt)` gave for some `dt` before fixes/F8b.diff) makes the
relabelling of the columns fail whenever the stride is 1 — with or without F8 -/
theorem long_time_vector_raises (X : List (List V)) (t : List V) (n : Nat) (vials : List Nat)
    (tlabels : List String) (hn : 2 ≤ n) (hm : 0 < vials.length)
    (ht : t.length = (X.headD []).length + 1) (hc : (X.headD []).length < 2 * (n - 1)) :
    trajTable false X t n vials tlabels = .error "ValueError" := by
  first | (apply Snow.FramesProps.long_time_vector_raises <;> assumption) | (apply @Snow.FramesProps.long_time_vector_raises V <;> assumption)

/-- a concrete 2-vial run with 5 stored columns and a 2-repetition Snowfall: the
hypotheses hold and the tables are what the theorems say. -/
theorem nonvacuous :
    StatsWF 2 ([("t", [1, 2]), ("T", [3, 4]), ("s", [5, 6])] : Stats Nat) ∧
    FallWF 2 ([[("t", [1, 2]), ("T", [3, 4]), ("s", [5, 6])],
               [("t", [7, 8]), ("T", [9, 10]), ("s", [11, 12])]] : List (Stats Nat)) ∧
    trajTable false ([[10, 11, 12, 13, 14], [20, 21, 22, 23, 24]] : List (List Nat)) [0, 1, 2, 3, 4] 3 [1] ["b"] =
      .ok (some [⟨"b", 1, "temperature", 0, 10⟩, ⟨"b", 1, "sigma", 0, 20⟩,
                 ⟨"b", 1, "temperature", 2, 12⟩, ⟨"b", 1, "sigma", 2, 22⟩,
                 ⟨"b", 1, "temperature", 4, 14⟩, ⟨"b", 1, "sigma", 4, 24⟩]) ∧
    trajTable false ([[10], [20]] : List (List Nat)) [0] 250 [1] ["b"] =
      .ok (some [⟨"b", 1, "temperature", 0, 10⟩, ⟨"b", 1, "sigma", 0, 20⟩]) ∧
    (fallTable ["a", "b"] ([[("t_nucleation", [1, 2]), ("T", [3, 4]), ("s", [5, 6])],
        [("t_nucleation", [7, 8]), ("T", [9, 10]), ("s", [11, 12])]] : List (Stats Nat))).map
        (returnStats "tnuc" (some [1]) (some [1])) = .ok [8] := by
  first | (apply Snow.FramesProps.nonvacuous <;> assumption) | (apply @Snow.FramesProps.nonvacuous V <;> assumption)

end Snow.C17
