/-
  C04 — Shelf-scale results depend only on configuration and seeds.

  Model: SnowModel/Seeds.lean (the Snowflake object as a state machine over the
  operations `new | setSeed | build | run | setN`, `run` returning the draw
  schedule; Snowfall as ordered chunks on private copies of the template).
  `run` mirrors the repaired code (fixes/F3.diff); `runOld` the code before it.

  The statistics of a run are a function `result cfg schedule` (the harness checks
  on the real code that equal schedules give bit-identical `stats`), so equality of
  schedules is equality of results; this is spelled out in `snowfall_rep_standalone`.

  Property theorems only.  Proofs, helper lemmas and the definitions used in the
  statements (cfgVar, cfgFix): SnowProofs/Lemmas/Seeds.lean.
-/
import SnowProofs.Lemmas.Seeds

namespace Snow.C04
open Snow.Seeds Snow.SeedsLemmas


/-- **core**: whatever state the object is in (any caches, any generator position,
any stale `_seedUsed`), a run uses the canonical schedule of its seed and shape. -/
theorem run_sched (c : Cfg) (o : Obj) : (run c o).2.1 = canon c o.seed o.nv := by
  first | (apply Snow.SeedsLemmas.run_sched <;> assumption)

/-- **run_schedule_canonical**: for EVERY history `h` (any mix of constructions,
seed assignments, matrix builds, runs and shape changes, on a default-constructed
object) and every seed `s`: seeding with `s` and running uses exactly the draw
schedule of a fresh `Snowflake(seed = s)` of the shape then in force. -/
theorem run_schedule_canonical (c : Cfg) (h : List Act) (s : Nat) :
    (exec c (h ++ [.setSeed s, .run])).scheds.getLast? =
      (exec c [.new s (nvAfter ⟨7, 7, 1⟩ h), .run]).scheds.getLast? := by
  first | (apply Snow.SeedsLemmas.run_schedule_canonical <;> assumption)

/-- **run_outcome_canonical**: for EVERY history (constructions, seed and vial-seed
assignments, matrix builds, property reads in any order, shape changes, runs),
seeding with `s` and running uses the generator schedule AND the vial deviates
`(seed_v, N)` of a fresh `Snowflake(seed = s, seed_v = v)` of the shape and vial seed
then in force: the legacy generator is re-seeded with the current `seed_v` in
every run, nothing is remembered from earlier runs. -/
theorem run_outcome_canonical (c : Cfg) (h : List Act) (s : Nat) :
    (exec c (h ++ [.setSeed s, .run])).scheds.getLast? =
      (exec c [.new s (nvAfter ⟨7, 7, 1⟩ h), .setSeedV (seedVAfter 2024 h), .run]).scheds.getLast? ∧
    (exec c (h ++ [.setSeed s, .run])).xis.getLast? =
      (exec c [.new s (nvAfter ⟨7, 7, 1⟩ h), .setSeedV (seedVAfter 2024 h), .run]).xis.getLast? := by
  first | (apply Snow.SeedsLemmas.run_outcome_canonical <;> assumption)

/-- **run_config_current**: a run reads the configuration attached at that moment —
for EVERY history (in-place edits of the operating conditions, other time step,
other opcond object, between any runs), the last run of `h ++ [seed = s, run]` has
the generator schedule, the vial deviates AND the configuration of a fresh object
built with the current configuration, seed `s` and the current vial seed. -/
theorem run_config_current (c : Cfg) (h : List Act) (s : Nat) :
    let fresh := exec c [.new s (nvAfter ⟨7, 7, 1⟩ h), .setSeedV (seedVAfter 2024 h), .editCfg (cfgAfter 0 h), .run]
    (exec c (h ++ [.setSeed s, .run])).scheds.getLast? = fresh.scheds.getLast? ∧
    (exec c (h ++ [.setSeed s, .run])).xis.getLast? = fresh.xis.getLast? ∧
    (exec c (h ++ [.setSeed s, .run])).cfgs.getLast? = fresh.cfgs.getLast? := by
  first | (apply Snow.SeedsLemmas.run_config_current <;> assumption)

/-- **run_outcome_some**: the `getLast?` statements above are about a run that exists:
a history that ends with `seed = s; run` has a last schedule, and it is the canonical
one of `s` and of the shape, vial seed and configuration then in force. -/
theorem run_outcome_some (c : Cfg) (h : List Act) (s : Nat) :
    (exec c (h ++ [.setSeed s, .run])).scheds ≠ [] ∧
    (exec c (h ++ [.setSeed s, .run])).scheds.getLast? = some (canon c s (nvAfter ⟨7, 7, 1⟩ h)) ∧
    (exec c (h ++ [.setSeed s, .run])).xis.getLast? = some (seedVAfter 2024 h, (nvAfter ⟨7, 7, 1⟩ h).total) ∧
    (exec c (h ++ [.setSeed s, .run])).cfgs.getLast? = some (cfgAfter 0 h) := by
  first | (apply Snow.SeedsLemmas.run_outcome_some <;> assumption)

/-- … and a plain re-run (no re-seeding) when the object's seed already is `s`. -/
theorem run_schedule_canonical_same_seed (c : Cfg) (h : List Act) (s : Nat)
    (hs : seedAfter 2021 h = s) :
    (exec c (h ++ [.run])).scheds.getLast? =
      (exec c [.new s (nvAfter ⟨7, 7, 1⟩ h), .run]).scheds.getLast? := by
  first | (apply Snow.SeedsLemmas.run_schedule_canonical_same_seed <;> assumption)

/-- **record_independent**: for deterministic storage selections `l`, `l'` the whole
history — final object, generator events, draw schedules, vial deviates and
configurations read — is the same; only the mask each run reads when it writes the
state matrix differs.  (In the model no transition reads a deterministic mask — that
is its shape; that the CODE behaves so is what the correspondence check establishes:
bit-identical statistics across storeStates variants, also with an event in the final
time step.) -/
theorem record_independent (c : Cfg) (l l' : List Nat) (h : List Act) :
    core (exec { c with mask := .det l } h) = core (exec { c with mask := .det l' } h) := by
  first | (apply Snow.SeedsLemmas.record_independent <;> assumption)

/-- **random_mask_run_canonical**: a `random` storage selection DOES consume draws —
at construction, on the generator of that moment (`mkNew` appends a `choice` call) —
yet every run, after any history, uses the canonical schedule of its seed: `run()`
restarts the generator, so the run's draws are independent of the selection draw. -/
theorem random_mask_run_canonical (sigmaPos : Bool) (n : Nat) (h : List Act) (s : Nat) :
    (exec { sigmaPos := sigmaPos, mask := .random n } (h ++ [.setSeed s, .run])).scheds.getLast? =
      some (canon { sigmaPos := sigmaPos, mask := .det [] } s (nvAfter ⟨7, 7, 1⟩ h)) ∧
    (mkNew { sigmaPos := sigmaPos, mask := .random n } s ⟨3, 3, 1⟩).2 =
      (mkNew { sigmaPos := sigmaPos, mask := .det [] } s ⟨3, 3, 1⟩).2 ++ [.call (.choice n)] := by
  first | (apply Snow.SeedsLemmas.random_mask_run_canonical <;> assumption)

/-- before the repair a `random` storage selection shifted the dice of the first run
(the selection draw sits between the shelf draws and the dice) -/
theorem old_random_mask_shifts_dice :
    (execOld { sigmaPos := false, mask := .random 2 } [.new 5 ⟨3, 3, 1⟩, .run]).scheds ≠
    (execOld { sigmaPos := false, mask := .det [] } [.new 5 ⟨3, 3, 1⟩, .run]).scheds := by
  first | (apply Snow.SeedsLemmas.old_random_mask_shifts_dice <;> assumption)

/-- **snowfall_mode_independent**: for every template state (so also for a
Snowfall that is run again), every repetition count and EVERY assignment of the
tasks to ordered chunks on private copies of the template, task `i` uses the
schedule `canon cfg i shape`; the pool modes and `sequential` therefore produce
the same table `seed ↦ schedule`, with one entry per task in task order. -/
theorem snowfall_mode_independent (c : Cfg) (tmpl : Obj) (chunks : List (List Nat)) (nrep : Nat) :
    fallPool run c tmpl chunks = chunks.flatten.map (fun i => (i, canon c i tmpl.nv)) ∧
    fallSeq run c tmpl nrep = (List.range nrep).map (fun i => (i, canon c i tmpl.nv)) := by
  first | (apply Snow.SeedsLemmas.snowfall_mode_independent <;> assumption)

/-- corollary: if the chunks partition `0 … Nrep-1` in order (what the pool does),
pool and sequential tables are equal as lists. -/
theorem snowfall_pool_eq_seq (c : Cfg) (tmpl : Obj) (chunks : List (List Nat)) (nrep : Nat)
    (hp : chunks.flatten = List.range nrep) :
    fallPool run c tmpl chunks = fallSeq run c tmpl nrep := by
  first | (apply Snow.SeedsLemmas.snowfall_pool_eq_seq <;> assumption)

/-- **snowfall_rep_standalone**: repetition `i` of a Snowfall over shape `nv`, in
any mode and chunking, has the schedule — hence, for any result function of
configuration and schedule, the statistics — of `Snowflake(seed = i).run()`. -/
theorem snowfall_rep_standalone {R : Type} (result : Cfg → Sched → R)
    (c : Cfg) (nv : NV) (chunks : List (List Nat)) (nrep : Nat) (p : Nat × Sched)
    (hp : p ∈ fallPool run c (template c nv) chunks ∨ p ∈ fallSeq run c (template c nv) nrep) :
    (exec c [.new p.1 nv, .run]).scheds = [p.2] ∧
    (exec c [.new p.1 nv, .run]).scheds.map (result c) = [result c p.2] := by
  first | (apply Snow.SeedsLemmas.snowfall_rep_standalone <;> assumption)

/-- a fresh object draws the shelf normals in the seed setter and AGAIN lazily in
`run()`; an object with pre-built matrices draws them once -/
theorem old_counterexample_double_build :
    (execOld cfgVar [.new 5 ⟨3, 3, 1⟩, .run]).scheds ≠
    (execOld cfgVar [.new 7 ⟨3, 3, 1⟩, .build, .setSeed 5, .run]).scheds := by
  first | (apply Snow.SeedsLemmas.old_counterexample_double_build <;> assumption)

/-- `seed = 5` on an object whose `_seedUsed` is 5 keeps the stale vector and skips
the draws -/
theorem old_counterexample_stale_seed :
    (execOld cfgVar [.new 5 ⟨3, 3, 1⟩, .build, .setSeed 5, .run]).scheds ≠
    (execOld cfgVar [.new 7 ⟨3, 3, 1⟩, .build, .setSeed 5, .run]).scheds := by
  first | (apply Snow.SeedsLemmas.old_counterexample_stale_seed <;> assumption)

/-- a second `run()` continues the stream (also without shelf variability) -/
theorem old_counterexample_rerun :
    ∃ s1 s2, (execOld cfgFix [.new 5 ⟨3, 3, 1⟩, .run, .run]).scheds = [s1, s2] ∧ s1 ≠ s2 := by
  first | (apply Snow.SeedsLemmas.old_counterexample_rerun <;> assumption)

/-- consequence for Snowfall before the repair: repetition 0 in `sequential` mode
is not the standalone run with seed 0 -/
theorem old_counterexample_snowfall :
    (fallSeq runOld cfgVar (execOld cfgVar [.new 2021 ⟨3, 3, 1⟩, .build]).obj 1).map (·.2) ≠
    (execOld cfgVar [.new 0 ⟨3, 3, 1⟩, .run]).scheds := by
  first | (apply Snow.SeedsLemmas.old_counterexample_snowfall <;> assumption)

/-- what was true before the repair: without shelf variability a re-seeded object
starts its dice at the head of the stream (`run_schedule_canonical_partial`) -/
theorem old_partial_no_variability (h : List Act) (s : Nat) :
    ∀ sch ∈ (execOld cfgFix (h ++ [.setSeed s, .run])).scheds.getLast?, sch.dice = ⟨s, []⟩ := by
  first | (apply Snow.SeedsLemmas.old_partial_no_variability <;> assumption)

/-- a concrete history with every kind of operation, and a concrete chunking:
the hypotheses-free statements above, evaluated. -/
theorem nonvacuous :
    (exec cfgVar [.new 7 ⟨3, 3, 1⟩, .build, .run, .setN ⟨2, 2, 1⟩, .setSeed 5, .run]).scheds =
      [canon cfgVar 7 ⟨3, 3, 1⟩, canon cfgVar 5 ⟨2, 2, 1⟩] ∧
    canon cfgVar 5 ⟨2, 2, 1⟩ ≠ canon cfgVar 7 ⟨2, 2, 1⟩ ∧
    fallPool run cfgVar (template cfgVar ⟨3, 3, 1⟩) [[0, 1], [2]] =
      fallSeq run cfgVar (template cfgVar ⟨3, 3, 1⟩) 3 ∧
    poolChunks 9 2 = [[0, 1], [2, 3], [4, 5], [6, 7], [8]] := by
  first | (apply Snow.SeedsLemmas.nonvacuous <;> assumption)

end Snow.C04
