/-
  C06 — Shelf-scale trajectories stay thermodynamically admissible.

  Property theorems (helpers: SnowProofs/Lemmas/FlakeAdm.lean).  Model: SnowModel/Flake.lean
  at ℝ.  IEEE rounding is not modelled ("all reported values are finite" is vacuous over ℝ
  and is monitored on the real floats by the harness).

  Proof status: `liquid_convex`, `jump_on_curve`, `ice_iff_after_nucleation` are full;
  `solid_step_inv`, `vial_inv`, `step_inv` are CONDITIONAL on the side condition below; the run
  theorems (`run_admissible_partial`, `run_bounds_partial`, `run_ice_iff_recorded`) are
  PARTIAL: it assumes, at every step, the side condition `SideCond` for vials that contain ice
  and are being WARMED (net heat flow `q > 0`): `q·Δt ≤ σ·m·λ(1−w_s)` — the ice present can
  absorb the heat.  It is not derivable from `Stable` (see `side_condition_needed`): a vial that
  nucleated at vanishing supercooling and is then warmed by neighbours leaves `σ > 0` in the
  model. The harness monitors the side condition on every real (vial, step).
-/
import SnowProofs.Lemmas.FlakeAdm
import SnowProofs.Props.C05
import SnowProofs.Lemmas.FlakeGeom
import SnowProofs.Lemmas.FlakeExRun

namespace Snow.C06
open Snow Num Snow.Flake Snow.FlakeLemmas

/-- the smaller of the liquid and the fully frozen heat capacity -/
noncomputable def cpMin (ph : Phys) : ℝ := Min.min ph.cpl (ph.cp 1)

theorem cpMin_pos {ph : Phys} (hv : ph.Valid) : 0 < cpMin ph :=
  lt_min hv.cpl_pos (hv.cp_pos (by norm_num) le_rfl)

theorem cpMin_le_cp (ph : Phys) (σ : ℝ) (h0 : 0 ≤ σ) (h1 : σ ≤ 1) : cpMin ph ≤ ph.cp σ := by
  have e : ph.cp σ = (1 - σ) * ph.cpl + σ * ph.cp 1 := by unfold Phys.cp Phys.cpl; ring
  have a := min_le_left ph.cpl (ph.cp 1)
  have b := min_le_right ph.cpl (ph.cp 1)
  unfold cpMin
  rw [e]
  nlinarith [mul_le_mul_of_nonneg_left a (sub_nonneg.mpr h1), mul_le_mul_of_nonneg_left b h0]

/-- **the numerically stable operating range** for a batch of `n` vials whose temperatures live
in `[lo, hi]` (`lo` = coldest shelf temperature of the program, `hi` = warmest of initial
temperature, initial shelf temperature and `T_eq_l`): non-negative conductances, valid
neighbour indices, time step small against the thermal time constant (`cfl`), the heat a vial
can exchange in one step small against the geometric mean of its sensible and latent capacity
(`xcond`, keeps the ice fraction from overshooting 1), supercooling below `γ` (`range`). Every
clause is a comparison of real numbers computed from the inputs (decidable; the harness
evaluates the same inequalities on the floats and prints them in the evidence). -/
structure Stable (ph : Phys) (p : Params ℝ) (n : Nat) (lo hi : ℝ) : Prop where
  valid : ph.Valid
  dt_pos : 0 < p.dt
  consts : p.c = ph.consts
  coeff : ∀ i, i < n → CoeffNonneg p i
  nbr_lt : ∀ i, i < n → ∀ j ∈ p.nbrs.getD i [], j < n
  cfl : ∀ i, i < n → 2 * (p.dt * Hsum p i) ≤ ph.m * cpMin ph
  xcond : ∀ i, i < n →
    (p.dt * Hsum p i * (hi - lo)) ^ 2 ≤ ph.m ^ 2 * (cpMin ph * ph.D * (ph.lam * (1 - ph.w_s)))
  hi_ge : ph.TeqL ≤ hi
  range : ph.TeqL - lo ≤ ph.gamma

/-- **liquid step = convex combination**: inside the stable range the new temperature of a
liquid vial lies in every interval that contains its old temperature, its neighbours, the
surroundings and the shelf. -/
theorem liquid_convex {ph : Phys} {p : Params ℝ} {n : Nat} {lo0 hi0 : ℝ} (st : Stable ph p n lo0 hi0)
    (i : Nat) (hi' : i < n) (Ts : Array ℝ) (Tsh Text lo hi : ℝ)
    (hn : ∀ j ∈ p.nbrs.getD i [], lo ≤ Ts.getD j 0 ∧ Ts.getD j 0 ≤ hi)
    (hsh : lo ≤ Tsh ∧ Tsh ≤ hi) (hext : lo ≤ Text ∧ Text ≤ hi)
    (hT : lo ≤ Ts.getD i 0 ∧ Ts.getD i 0 ≤ hi) :
    lo ≤ liquidTemp p.c p.dt (heatFlow p Ts Tsh Text i) (Ts.getD i 0) ∧
    liquidTemp p.c p.dt (heatFlow p Ts Tsh Text i) (Ts.getD i 0) ≤ hi := by
  have hq := heatFlow_bounds p Ts Tsh Text lo hi i (st.coeff i hi') hn hsh hext
  have hH := Hsum_nonneg p i (st.coeff i hi')
  have hm := st.valid.m_pos
  have hcpl : cpMin ph ≤ ph.cpl := min_le_left _ _
  have hcfl : p.dt * Hsum p i ≤ ph.m * ph.cpl := by
    have h1 := st.cfl i hi'
    have h2 : ph.m * cpMin ph ≤ ph.m * ph.cpl := mul_le_mul_of_nonneg_left hcpl (le_of_lt hm)
    have h3 : 0 ≤ p.dt * Hsum p i := mul_nonneg (le_of_lt st.dt_pos) hH
    linarith
  rw [st.consts]
  exact liquid_core (ph.m * ph.cpl) (Hsum p i) p.dt _ _ lo hi (mul_pos hm st.valid.cpl_pos)
    st.dt_pos hcfl hq.1 hq.2 hT

/-- **nucleation jump** (both formulations): a supercooled vial whose supercooling does not
exceed `γ = (1−w_s)λ/c_p` (≈ 78 K for the default solution) lands on the freezing-point-
depression curve with `0 < σ < 1`, below `T_eq_l`, and not below its nucleation temperature. -/
theorem jump_on_curve (ph : Phys) (hv : ph.Valid) (ii : InitIce) (Tn : ℝ) (hT : Tn < ph.TeqL)
    (hg : ph.TeqL - Tn ≤ ph.gamma) :
    0 < sigmaJump ii ph.consts Tn ∧ sigmaJump ii ph.consts Tn < 1 ∧
    eqTemp ph.consts (sigmaJump ii ph.consts Tn) = ph.curve (sigmaJump ii ph.consts Tn) ∧
    eqTemp ph.consts (sigmaJump ii ph.consts Tn) < ph.TeqL ∧
    Tn ≤ eqTemp ph.consts (sigmaJump ii ph.consts Tn) := by
  have := jump_core ph hv ii Tn hT hg
  simp only at this
  rw [eqTemp_curve]
  exact ⟨this.1, this.2.1, rfl, this.2.2.1, this.2.2.2⟩

/-- **solidifying step** (conditional): a vial with `0 < σ < 1` on the curve, inside the stable
range, whose net heat flow `q` satisfies the side condition when positive, keeps
`0 < σ' < 1`, stays on the curve (hence below `T_eq_l`) and does not fall below any `lo ≥ lo0`
that bounds its own and its contacts' temperatures from below. -/
theorem solid_step_inv {ph : Phys} {p : Params ℝ} {n : Nat} {lo0 hi : ℝ} (st : Stable ph p n lo0 hi)
    (i : Nat) (hi' : i < n) (σ q lo : ℝ) (h0 : 0 < σ) (h1 : σ < 1) (hlo0 : lo0 ≤ lo)
    (hTlo : lo ≤ ph.curve σ) (hq : Hsum p i * (lo - ph.curve σ) ≤ q)
    (hside : 0 < q → q * p.dt ≤ σ * ph.m * (ph.lam * (1 - ph.w_s))) :
    let σ' := solidSigma p.c p.dt q σ
    0 < σ' ∧ σ' < 1 ∧ eqTemp p.c σ' = ph.curve σ' ∧ lo ≤ eqTemp p.c σ' ∧ eqTemp p.c σ' < ph.TeqL := by
  intro σ'
  have hv := st.valid
  have hb := hv.bracket_pos (le_of_lt h0) h1
  have hσ' : σ' = σ - q * p.dt / (ph.m * ph.bracket σ) := by
    simp only [σ', st.consts]
    exact solidSigma_eq ph hv p.dt q σ (ne_of_lt h1) (ne_of_gt hb)
  have hH := Hsum_nonneg p i (st.coeff i hi')
  have hw : 0 < 1 - ph.w_s := by have := hv.w_lt; linarith
  have hThi : ph.curve σ ≤ hi := le_trans (le_of_lt (curve_le_TeqL ph hv σ h0 h1)) st.hi_ge
  have hG : ph.curve σ - lo ≤ hi - lo0 := by linarith
  have hcore := solid_core ph.m (ph.cp σ) (cpMin ph) ph.D (ph.lam * (1 - ph.w_s)) p.dt q (Hsum p i)
    ph.T_m lo σ (ph.bracket σ) hv.m_pos (cpMin_pos hv) (cpMin_le_cp ph σ (le_of_lt h0) (le_of_lt h1))
    hv.D_pos (mul_pos hv.lam_pos hw) st.dt_pos h0 h1 rfl hTlo hq hH (hi - lo0) hG (st.xcond i hi')
    (st.cfl i hi')
    (by intro hq0; have := hside hq0; linarith)
  rw [← hσ'] at hcore
  have hcurve : eqTemp p.c σ' = ph.curve σ' := by rw [st.consts]; exact eqTemp_curve ph σ'
  refine ⟨hcore.1, hcore.2.1, hcurve, ?_, ?_⟩
  · rw [hcurve]; exact hcore.2.2
  · rw [hcurve]; exact curve_le_TeqL ph hv σ' hcore.1 hcore.2.1

/-! ### the admissible state of a vial and of the batch -/

/-- a vial is either fully liquid and has never nucleated, or contains ice with `0 < σ < 1`,
sits on the curve and has a recorded nucleation -/
def Adm (ph : Phys) (v : Vial ℝ) : Prop :=
  (v.sigma = 0 ∧ v.tNuc = none) ∨
  (0 < v.sigma ∧ v.sigma < 1 ∧ v.T = ph.curve v.sigma ∧ v.tNuc ≠ none)

/-- every vial admissible and within `[lo, hi]` -/
structure AdmState (ph : Phys) (lo hi : ℝ) (s : State ℝ) : Prop where
  adm : ∀ (i : Nat) (v : Vial ℝ), s.vials[i]? = some v → Adm ph v
  bnd : ∀ (i : Nat) (v : Vial ℝ), s.vials[i]? = some v → lo ≤ v.T ∧ v.T ≤ hi

/-- the per-step side condition (monitored on the real runs): a vial that contains ice and is
warmed receives no more heat in the step than its ice can absorb -/
def SideCond (ph : Phys) (p : Params ℝ) (s : State ℝ) (Tsh : ℝ) : Prop :=
  ∀ (i : Nat) (v : Vial ℝ), s.vials[i]? = some v → v.sigma ≠ 0 → 0 < heatFlow p (temps s) Tsh Tsh i →
    heatFlow p (temps s) Tsh Tsh i * p.dt ≤ v.sigma * ph.m * (ph.lam * (1 - ph.w_s))

theorem adm_liquid {ph : Phys} {v : Vial ℝ} (h : Adm ph v) (hl : v.sigma = 0) : v.tNuc = none := by
  rcases h with h | h
  · exact h.2
  · exfalso; have := h.1; rw [hl] at this; exact lt_irrefl _ this

theorem adm_solid {ph : Phys} {v : Vial ℝ} (h : Adm ph v) (hl : v.sigma ≠ 0) :
    0 < v.sigma ∧ v.sigma < 1 ∧ v.T = ph.curve v.sigma ∧ v.tNuc ≠ none := by
  rcases h with h | h
  · exact absurd h.1 hl
  · exact h

/-- one vial, one step: admissibility and bounds are preserved — CONDITIONAL on the side
condition `hside` for this vial (the hypothesis that makes the run theorem partial) -/
theorem vial_inv {ph : Phys} {p : Params ℝ} {n : Nat} {lo0 hi : ℝ} (st : Stable ph p n lo0 hi)
    (i : Nat) (hi' : i < n) (Ts : Array ℝ) (Tsh lo : ℝ) (hlo0 : lo0 ≤ lo)
    (hsh : lo ≤ Tsh ∧ Tsh ≤ hi)
    (hn : ∀ j ∈ p.nbrs.getD i [], lo ≤ Ts.getD j 0 ∧ Ts.getD j 0 ≤ hi)
    (v : Vial ℝ) (hTi : Ts.getD i 0 = v.T) (hadm : Adm ph v) (hb : lo ≤ v.T ∧ v.T ≤ hi)
    (hside : v.sigma ≠ 0 → 0 < heatFlow p Ts Tsh Tsh i →
      heatFlow p Ts Tsh Tsh i * p.dt ≤ v.sigma * ph.m * (ph.lam * (1 - ph.w_s)))
    (tk : ℝ) (isCN anyS : Bool) (kb die : ℝ) :
    let v' := vialFinal p tk isCN (vialMid p tk anyS v (heatFlow p Ts Tsh Tsh i)) kb die
    Adm ph v' ∧ lo ≤ v'.T ∧ v'.T ≤ hi := by
  intro v'
  have hv := st.valid
  have hliq := liquid_convex st i hi' Ts Tsh Tsh lo hi hn hsh hsh (by rw [hTi]; exact hb)
  rw [hTi] at hliq
  rcases vialStep_cases p tk isCN anyS v (heatFlow p Ts Tsh Tsh i) kb die with h | h | h
  · -- sensible cooling
    obtain ⟨hl, _, hv'⟩ := h
    have hσ : v.sigma = 0 := by simpa [isLiquid_real] using hl
    have hv'' : v' = _ := hv'
    rw [hv'']
    exact ⟨Or.inl ⟨hσ, adm_liquid (v := v) hadm hσ⟩, hliq.1, hliq.2⟩
  · -- nucleation
    obtain ⟨_, _, hc, hv'⟩ := h
    have hv'' : v' = _ := hv'
    have hTn : liquidTemp ph.consts p.dt (heatFlow p Ts Tsh Tsh i) v.T < ph.TeqL := by
      have := of_decide_eq_true hc
      rw [st.consts] at this
      exact this
    rw [st.consts] at hliq
    have hg : ph.TeqL - liquidTemp ph.consts p.dt (heatFlow p Ts Tsh Tsh i) v.T ≤ ph.gamma := by
      have := st.range; linarith [hliq.1]
    have hj := jump_on_curve ph hv p.initIce _ hTn hg
    rw [hv'']
    simp only [st.consts]
    refine ⟨Or.inr ⟨hj.1, hj.2.1, hj.2.2.1, by simp⟩, ?_, ?_⟩
    · linarith [hj.2.2.2.2, hliq.1]
    · linarith [hj.2.2.2.1, st.hi_ge]
  · -- solidification
    obtain ⟨hl, _, hv'⟩ := h
    have hv'' : v' = _ := hv'
    have hσ : v.sigma ≠ 0 := by simpa [isLiquid_real] using hl
    obtain ⟨h0, h1, hT, hnuc⟩ := adm_solid hadm hσ
    have hq := (heatFlow_bounds p Ts Tsh Tsh lo hi i (st.coeff i hi') hn hsh hsh).1
    rw [hTi, hT] at hq
    have hs := solid_step_inv st i hi' v.sigma (heatFlow p Ts Tsh Tsh i) lo h0 h1 hlo0
      (by rw [← hT]; exact hb.1) hq (hside hσ)
    simp only at hs
    rw [hv'']
    refine ⟨Or.inr ⟨hs.1, hs.2.1, hs.2.2.1, hnuc⟩, hs.2.2.2.1, ?_⟩
    exact le_trans (le_of_lt hs.2.2.2.2) st.hi_ge

/-- **one step of the batch** (CONDITIONAL on `SideCond` for the state): with all temperatures in `[lo, hi]` and a shelf temperature
`Tsh ∈ [lo0, lo]` (the shelf never rises), after the step all vials are admissible and all
temperatures are in `[Tsh, hi]` — no vial is colder than the shelf temperature just applied. -/
theorem step_inv {ph : Phys} {p : Params ℝ} {n : Nat} {lo0 hi : ℝ} (st : Stable ph p n lo0 hi)
    (isCN : Bool) (k : Nat) (Tsh lo : ℝ) (s : State ℝ) (hs : s.vials.size = n)
    (hinv : AdmState ph lo hi s) (hT1 : lo0 ≤ Tsh) (hT2 : Tsh ≤ lo) (hT3 : Tsh ≤ hi)
    (hside : SideCond ph p s Tsh) :
    AdmState ph Tsh hi (stepCN p isCN k Tsh s) := by
  have key : ∀ (i : Nat) (v' : Vial ℝ), (stepCN p isCN k Tsh s).vials[i]? = some v' →
      Adm ph v' ∧ Tsh ≤ v'.T ∧ v'.T ≤ hi := by
    intro i v' hv'
    rw [stepCN_getElem?] at hv'
    cases hvi : s.vials[i]? with
    | none => rw [hvi] at hv'; simp at hv'
    | some v =>
      rw [hvi] at hv'
      simp only [Option.map_some, Option.some.injEq] at hv'
      have hi' : i < n := by
        rw [← hs]
        by_contra hcon
        have : s.vials[i]? = none := Array.getElem?_eq_none (not_lt.mp hcon)
        rw [this] at hvi; exact absurd hvi (by simp)
      have hn : ∀ j ∈ p.nbrs.getD i [], Tsh ≤ (temps s).getD j 0 ∧ (temps s).getD j 0 ≤ hi := by
        intro j hj
        have hjn : j < s.vials.size := by rw [hs]; exact st.nbr_lt i hi' j hj
        have hj' : s.vials[j]? = some s.vials[j] := Array.getElem?_eq_getElem hjn
        rw [temps_getD s j _ 0 hj']
        have := hinv.bnd j _ hj'
        exact ⟨le_trans hT2 this.1, this.2⟩
      have hb := hinv.bnd i v hvi
      have := vial_inv st i hi' (temps s) Tsh Tsh hT1 ⟨le_refl _, hT3⟩ hn v
        (temps_getD s i v 0 hvi) (hinv.adm i v hvi) ⟨le_trans hT2 hb.1, hb.2⟩
        (hside i v hvi) (timeAt p.dt k) isCN (anySolid s) (p.kb.getD i 0)
        ((diceOf p k Tsh s).getD i 0)
      rw [← hv']
      simpa [vialStep] using this
  exact ⟨fun i v h => (key i v h).1, fun i v h => (key i v h).2⟩

/-- the invariant along a trajectory for a non-increasing shelf profile `l` within `[lo0, hi]`:
column 0 is within `[lo, hi]`, column `j+1` within `[l[j], hi]`. The side condition is required
only for the source states of the steps before column `J` and may use the invariant of that
state (size, admissibility, lower bound not below the shelf temperature of the step). -/
theorem traj_inv_gen {ph : Phys} {p : Params ℝ} {n : Nat} {lo0 hi : ℝ} (st : Stable ph p n lo0 hi)
    (kCN : Nat) (l : List ℝ) (hchain : l.IsChain (fun a b => b ≤ a))
    (hl : ∀ x ∈ l, lo0 ≤ x ∧ x ≤ hi) (k : Nat) (s : State ℝ) (lo : ℝ) (hs : s.vials.size = n)
    (hinv : AdmState ph lo hi s) (hhead : ∀ x ∈ l.head?, x ≤ lo) (J : Nat)
    (hside : ∀ (j : Nat) (sj : State ℝ) (T lo' : ℝ), (trajList p kCN k l s)[j]? = some sj → l[j]? = some T →
      j < J → sj.vials.size = n → AdmState ph lo' hi sj → T ≤ lo' → SideCond ph p sj T) :
    ∀ (j : Nat) (sj : State ℝ), (trajList p kCN k l s)[j]? = some sj → j ≤ J →
      sj.vials.size = n ∧ ∀ b : ℝ, (j = 0 → b = lo) → (∀ j' : Nat, j = j' + 1 → l[j']? = some b) →
        AdmState ph b hi sj := by
  induction l generalizing k s lo J with
  | nil => intro j sj h; simp [trajList] at h
  | cons T r ih =>
    intro j sj hj hjJ
    cases j with
    | zero =>
      simp only [trajList, List.getElem?_cons_zero, Option.some.injEq] at hj
      subst hj
      refine ⟨hs, fun b hb _ => ?_⟩
      rw [hb rfl]; exact hinv
    | succ j' =>
      simp only [trajList, List.getElem?_cons_succ] at hj
      have hTb := hl T (by simp)
      have hTlo : T ≤ lo := hhead T (by simp)
      have hsc : SideCond ph p s T :=
        hside 0 s T lo (by simp [trajList]) (by simp) (by omega) hs hinv hTlo
      have hstep : AdmState ph T hi (step p kCN k T s) :=
        step_inv st (k == kCN) k T lo s hs hinv hTb.1 hTlo hTb.2 hsc
      have hsize : (step p kCN k T s).vials.size = n := by simp [step, hs]
      have hchain' : r.IsChain (fun a b => b ≤ a) := by
        cases r with
        | nil => exact List.isChain_nil
        | cons a t => exact (List.isChain_cons_cons.mp hchain).2
      have hhead' : ∀ x ∈ r.head?, x ≤ T := by
        intro x hx
        cases r with
        | nil => simp at hx
        | cons a t =>
          simp only [List.head?_cons, Option.mem_def, Option.some.injEq] at hx
          subst hx
          exact (List.isChain_cons_cons.mp hchain).1
      have hside' : ∀ (j : Nat) (sj : State ℝ) (T' lo' : ℝ),
          (trajList p kCN (k + 1) r (step p kCN k T s))[j]? = some sj → r[j]? = some T' → j < J - 1 →
          sj.vials.size = n → AdmState ph lo' hi sj → T' ≤ lo' → SideCond ph p sj T' := by
        intro j sj T' lo' h1 h2 h3 h4 h5 h6
        exact hside (j + 1) sj T' lo' (by simpa [trajList] using h1) (by simpa using h2) (by omega) h4 h5 h6
      have := ih hchain' (fun x hx => hl x (by simp [hx])) (k + 1) (step p kCN k T s) T hsize
        hstep hhead' (J - 1) hside' j' sj hj (by omega)
      refine ⟨this.1, fun b _ hb => ?_⟩
      have hb' := hb j' rfl
      apply this.2 b
      · intro h0
        subst h0
        simpa [eq_comm] using hb'
      · intro j'' hj''
        subst hj''
        simpa using hb'

/-- **run invariant, general form**: the conclusions of `run_admissible_partial` for the columns
`j ≤ J`, requiring the side condition only for the source states of the steps before column `J`,
where it may be derived from that state's invariant (size, admissibility, all temperatures in
`[lo', hi]` with the shelf temperature of the step `≤ lo'`). All special cases below are
instances. For a well-formed cooling program, inside the stable range
(`lo0` = end temperature, `hi` ≥ initial vial temperature, start temperature and `T_eq_l`),
vials starting no colder than the shelf, and the side condition at every step: in every
recorded column every vial has `σ = 0` and no recorded nucleation, or `0 < σ < 1`, sits on the
curve (hence below `T_eq_l`) and has a recorded nucleation; every temperature is at most `hi`,
and at least the shelf temperature applied in the previous step (= the coldest so far, the
profile never rises; column 0: at least the start temperature). -/
theorem run_admissible_gen {ph : Phys} (inp : Inputs ℝ) (kCN : Nat) (hi : ℝ) (J : Nat)
    (hwf : Snow.C05.WF inp.oc inp.p.dt)
    (st : Stable ph inp.p inp.nVials inp.oc.stop hi)
    (hT0 : inp.oc.start ≤ inp.T0) (hT0hi : inp.T0 ≤ hi) (hstart : inp.oc.start ≤ hi)
    (hside : ∀ (j : Nat) (sj : State ℝ) (T lo' : ℝ), (runWith inp kCN).traj[j]? = some sj →
      (runWith inp kCN).Tshelf[j]? = some T → j < J → sj.vials.size = inp.nVials →
      AdmState ph lo' hi sj → T ≤ lo' → SideCond ph inp.p sj T) :
    ∀ (j : Nat) (sj : State ℝ), (runWith inp kCN).traj[j]? = some sj → j ≤ J →
      ∀ (i : Nat) (v : Vial ℝ), sj.vials[i]? = some v →
      Adm ph v ∧ v.T ≤ hi ∧ (j = 0 → inp.oc.start ≤ v.T) ∧
      (∀ (j' : Nat) (T : ℝ), j = j' + 1 → (runWith inp kCN).Tshelf[j']? = some T → T ≤ v.T) := by
  have hr : runWith inp kCN = ⟨nTimeSteps inp, timeVec (nTimeSteps inp) inp.p.dt, kCN,
      profile inp.oc inp.p.dt,
      (trajList inp.p kCN 0 (profile inp.oc inp.p.dt) (init inp)).toArray,
      finalState inp.p kCN 0 (profile inp.oc inp.p.dt) (init inp)⟩ := by
    simp only [runWith, loop_eq]
    simp
  rw [hr] at hside ⊢
  simp only [List.getElem?_toArray] at hside ⊢
  have hgood := Snow.C05.profile_good inp.oc inp.p.dt hwf
  have hchain : (profile inp.oc inp.p.dt).IsChain (fun a b => b ≤ a) :=
    hgood.1.imp (fun _ _ h => h.1)
  have hl : ∀ x ∈ profile inp.oc inp.p.dt, inp.oc.stop ≤ x ∧ x ≤ hi := fun x hx =>
    ⟨(hgood.2.1 x hx).1, le_trans (hgood.2.1 x hx).2 hstart⟩
  have hinit : AdmState ph inp.oc.start hi (init inp) := by
    have hv : ∀ (i : Nat) (v : Vial ℝ), (init inp).vials[i]? = some v → v = { T := inp.T0, sigma := 0 } := by
      intro i v h
      simp only [init, Array.getElem?_replicate] at h
      split at h
      · simp only [Option.some.injEq] at h; rw [← h]; simp
      · simp at h
    constructor
    · intro i v h; rw [hv i v h]; exact Or.inl ⟨rfl, rfl⟩
    · intro i v h; rw [hv i v h]; exact ⟨hT0, hT0hi⟩
  have hhead : ∀ x ∈ (profile inp.oc inp.p.dt).head?, x ≤ inp.oc.start := by
    intro x hx
    rw [hgood.2.2] at hx
    simp only [Option.mem_def, Option.some.injEq] at hx
    rw [← hx]
  have hsz : (init inp).vials.size = inp.nVials := by simp [init]
  intro j sj hj hjJ i v hv
  have := traj_inv_gen st kCN _ hchain hl 0 (init inp) inp.oc.start hsz hinit hhead J hside j sj hj hjJ
  cases j with
  | zero =>
    have hI := this.2 inp.oc.start (fun _ => rfl) (fun j' h => by omega)
    refine ⟨hI.adm i v hv, (hI.bnd i v hv).2, fun _ => (hI.bnd i v hv).1, fun j' T h _ => by omega⟩
  | succ j' =>
    cases hT : (profile inp.oc inp.p.dt)[j']? with
    | none =>
      -- impossible: the trajectory has one state per profile sample
      exfalso
      have h1 : j' + 1 < (trajList inp.p kCN 0 (profile inp.oc inp.p.dt) (init inp)).length := by
        by_contra hcon
        have : (trajList inp.p kCN 0 (profile inp.oc inp.p.dt) (init inp))[j' + 1]? = none :=
          List.getElem?_eq_none (not_lt.mp hcon)
        rw [this] at hj; exact absurd hj (by simp)
      rw [trajList_length] at h1
      have : (profile inp.oc inp.p.dt)[j']? ≠ none := by
        rw [ne_eq, List.getElem?_eq_none_iff]; omega
      exact this hT
    | some T =>
      have hI := this.2 T (fun h => by omega) (fun j'' h => by
        have : j'' = j' := by omega
        subst this; exact hT)
      refine ⟨hI.adm i v hv, (hI.bnd i v hv).2, fun h => by omega, fun j'' T' h hT' => ?_⟩
      have : j'' = j' := by omega
      subst this
      rw [hT] at hT'
      simp only [Option.some.injEq] at hT'
      rw [← hT']
      exact (hI.bnd i v hv).1

/-- **run invariant (partial)**: for a well-formed cooling program, inside the stable range
(`lo0` = end temperature, `hi` ≥ initial vial temperature, start temperature and `T_eq_l`),
vials starting no colder than the shelf, and the side condition at every step: in every
recorded column every vial has `σ = 0` and no recorded nucleation, or `0 < σ < 1`, sits on the
curve (hence below `T_eq_l`) and has a recorded nucleation; every temperature is at most `hi`,
and at least the shelf temperature applied in the previous step (= the coldest so far, the
profile never rises; column 0: at least the start temperature). -/
theorem run_admissible_partial {ph : Phys} (inp : Inputs ℝ) (kCN : Nat) (hi : ℝ)
    (hwf : Snow.C05.WF inp.oc inp.p.dt)
    (st : Stable ph inp.p inp.nVials inp.oc.stop hi)
    (hT0 : inp.oc.start ≤ inp.T0) (hT0hi : inp.T0 ≤ hi) (hstart : inp.oc.start ≤ hi)
    (hside : ∀ (j : Nat) (sj : State ℝ) (T : ℝ), (runWith inp kCN).traj[j]? = some sj →
      (runWith inp kCN).Tshelf[j]? = some T → SideCond ph inp.p sj T) :
    ∀ (j : Nat) (sj : State ℝ), (runWith inp kCN).traj[j]? = some sj →
      ∀ (i : Nat) (v : Vial ℝ), sj.vials[i]? = some v →
      Adm ph v ∧ v.T ≤ hi ∧ (j = 0 → inp.oc.start ≤ v.T) ∧
      (∀ (j' : Nat) (T : ℝ), j = j' + 1 → (runWith inp kCN).Tshelf[j']? = some T → T ≤ v.T) :=
  fun j sj hj => run_admissible_gen inp kCN hi j hwf st hT0 hT0hi hstart
    (fun j' sj' T _ h1 h2 _ _ _ _ => hside j' sj' T h1 h2) j sj hj (le_refl j)

/-- **ice exactly from the recorded nucleation onwards** (one step): a vial that contains ice
keeps its recorded nucleation time and temperature and keeps ice under the hypotheses of
`vial_inv`; a liquid vial gets a recorded nucleation exactly when it nucleates in this step,
and then the recorded time is the end of the step. -/
theorem ice_iff_after_nucleation (p : Params ℝ) (tk : ℝ) (isCN anyS : Bool) (v : Vial ℝ)
    (q kb die : ℝ) :
    let m := vialMid p tk anyS v q
    let v' := vialFinal p tk isCN m kb die
    (v.sigma ≠ 0 → v'.tNuc = v.tNuc ∧ v'.TNuc = v.TNuc) ∧
    (v.sigma = 0 → nucleates p isCN m kb die = false → v'.sigma = 0 ∧ v'.tNuc = v.tNuc) ∧
    (v.sigma = 0 → nucleates p isCN m kb die = true → v'.tNuc = some (tk + p.dt)) := by
  intro m v'
  rcases vialStep_cases p tk isCN anyS v q kb die with h | h | h
  · obtain ⟨hl, hn, hv'⟩ := h
    have hσ : v.sigma = 0 := by simpa [isLiquid_real] using hl
    have hv'' : v' = _ := hv'
    refine ⟨fun h => absurd hσ h, fun _ _ => ?_, fun _ h => ?_⟩
    · rw [hv'']; exact ⟨hσ, rfl⟩
    · have : nucleates p isCN m kb die = false := hn
      rw [this] at h; exact absurd h (by simp)
  · obtain ⟨hl, hn, _, hv'⟩ := h
    have hσ : v.sigma = 0 := by simpa [isLiquid_real] using hl
    have hv'' : v' = _ := hv'
    refine ⟨fun h => absurd hσ h, fun _ h => ?_, fun _ _ => ?_⟩
    · have : nucleates p isCN m kb die = true := hn
      rw [this] at h; exact absurd h (by simp)
    · rw [hv'']
  · obtain ⟨hl, hn, hv'⟩ := h
    have hσ : v.sigma ≠ 0 := by simpa [isLiquid_real] using hl
    have hv'' : v' = _ := hv'
    refine ⟨fun _ => ?_, fun h => absurd h hσ, fun h => absurd h hσ⟩
    rw [hv'']; exact ⟨rfl, rfl⟩

/-- `t[k+1] = t[k] + Δt` over the reals -/
theorem timeAt_succ (dt : ℝ) (k : Nat) : timeAt dt (k + 1) = timeAt dt k + dt := by
  simp only [timeAt, ofNat'_real]; push_cast; ring

/-- all vials of all columns of a trajectory are admissible -/
def TrajAdm (ph : Phys) (p : Params ℝ) (kCN k : Nat) (l : List ℝ) (s : State ℝ) : Prop :=
  ∀ (j : Nat) (sj : State ℝ), (trajList p kCN k l s)[j]? = some sj →
    ∀ (i : Nat) (v : Vial ℝ), sj.vials[i]? = some v → Adm ph v

theorem TrajAdm.tail {ph : Phys} {p : Params ℝ} {kCN k : Nat} {T : ℝ} {r : List ℝ} {s : State ℝ}
    (h : TrajAdm ph p kCN k (T :: r) s) : TrajAdm ph p kCN (k + 1) r (step p kCN k T s) := by
  intro j sj hj
  exact h (j + 1) sj (by simpa [trajList] using hj)

theorem step_getElem? (p : Params ℝ) (kCN k : Nat) (T : ℝ) (s : State ℝ) (i : Nat) (v : Vial ℝ)
    (hv : s.vials[i]? = some v) :
    (step p kCN k T s).vials[i]? = some (vialStep p (k == kCN) k T s i v) := by
  simp only [step]
  rw [stepCN_getElem?, hv]; rfl

/-- a recorded nucleation time is never changed by later steps -/
theorem tNuc_persist {ph : Phys} (p : Params ℝ) (kCN : Nat) (l : List ℝ) (k : Nat) (s : State ℝ)
    (hadm : TrajAdm ph p kCN k l s) (i : Nat) (v : Vial ℝ) (t : ℝ) (hv : s.vials[i]? = some v)
    (ht : v.tNuc = some t) :
    ∃ vf, (finalState p kCN k l s).vials[i]? = some vf ∧ vf.tNuc = some t := by
  induction l generalizing k s v with
  | nil => exact ⟨v, by simpa [finalState] using hv, ht⟩
  | cons T r ih =>
    have hA : Adm ph v := hadm 0 s (by simp [trajList]) i v hv
    have hσ : v.sigma ≠ 0 := by
      intro h0
      have := adm_liquid hA h0
      rw [ht] at this; exact absurd this (by simp)
    have hkeep := (ice_iff_after_nucleation p (timeAt p.dt k) (k == kCN) (anySolid s) v
      (heatFlow p (temps s) T T i) (p.kb.getD i 0) ((diceOf p k T s).getD i 0)).1 hσ
    have hv' := step_getElem? p kCN k T s i v hv
    have ht' : (vialStep p (k == kCN) k T s i v).tNuc = some t := by
      simp only [vialStep, zero_real]
      rw [hkeep.1, ht]
    simp only [finalState]
    exact ih (k + 1) (step p kCN k T s) hadm.tail _ hv' ht'

/-- a vial without a recorded nucleation at column `k` either never nucleates or its recorded
nucleation time is later than `t[k]` -/
theorem tNuc_fresh {ph : Phys} (p : Params ℝ) (hdt : 0 < p.dt) (kCN : Nat) (l : List ℝ) (k : Nat)
    (s : State ℝ) (hadm : TrajAdm ph p kCN k l s) (i : Nat) (v : Vial ℝ) (hv : s.vials[i]? = some v)
    (ht : v.tNuc = none) :
    ∃ vf, (finalState p kCN k l s).vials[i]? = some vf ∧
      (vf.tNuc = none ∨ ∃ t, vf.tNuc = some t ∧ timeAt p.dt k < t) := by
  induction l generalizing k s v with
  | nil => exact ⟨v, by simpa [finalState] using hv, Or.inl ht⟩
  | cons T r ih =>
    have hA : Adm ph v := hadm 0 s (by simp [trajList]) i v hv
    have hσ : v.sigma = 0 := by
      by_contra h0
      exact (adm_solid hA h0).2.2.2 ht
    have hfacts := ice_iff_after_nucleation p (timeAt p.dt k) (k == kCN) (anySolid s) v
      (heatFlow p (temps s) T T i) (p.kb.getD i 0) ((diceOf p k T s).getD i 0)
    have hv' := step_getElem? p kCN k T s i v hv
    simp only [finalState]
    cases hn : nucleates p (k == kCN) (vialMid p (timeAt p.dt k) (anySolid s) v
        (heatFlow p (temps s) T T i)) (p.kb.getD i 0) ((diceOf p k T s).getD i 0) with
    | false =>
      have hk := hfacts.2.1 hσ hn
      have ht' : (vialStep p (k == kCN) k T s i v).tNuc = none := by
        simp only [vialStep, zero_real]
        rw [hk.2, ht]
      obtain ⟨vf, h1, h2⟩ := ih (k + 1) (step p kCN k T s) hadm.tail _ hv' ht'
      refine ⟨vf, h1, ?_⟩
      rcases h2 with h2 | ⟨t, h2, h3⟩
      · exact Or.inl h2
      · refine Or.inr ⟨t, h2, ?_⟩
        rw [timeAt_succ] at h3; linarith
    | true =>
      have hk := hfacts.2.2 hσ hn
      have ht' : (vialStep p (k == kCN) k T s i v).tNuc = some (timeAt p.dt k + p.dt) := by
        simp only [vialStep, zero_real]
        exact hk
      obtain ⟨vf, h1, h2⟩ := tNuc_persist p kCN r (k + 1) (step p kCN k T s) hadm.tail i _ _ hv' ht'
      exact ⟨vf, h1, Or.inr ⟨_, h2, by linarith⟩⟩

/-- one step keeps "recorded nucleation no later than the current time" -/
theorem tNuc_le_time (p : Params ℝ) (hdt : 0 < p.dt) (tk : ℝ) (isCN anyS : Bool) (v : Vial ℝ)
    (q kb die : ℝ) (h : ∀ t, v.tNuc = some t → t ≤ tk) :
    ∀ t, (vialFinal p tk isCN (vialMid p tk anyS v q) kb die).tNuc = some t → t ≤ tk + p.dt := by
  intro t ht
  have hf := ice_iff_after_nucleation p tk isCN anyS v q kb die
  simp only at hf
  by_cases hσ : v.sigma = 0
  · cases hn : nucleates p isCN (vialMid p tk anyS v q) kb die with
    | false =>
      rw [(hf.2.1 hσ hn).2] at ht
      have := h t ht; linarith
    | true =>
      rw [hf.2.2 hσ hn] at ht
      simp only [Option.some.injEq] at ht
      linarith
  · rw [(hf.1 hσ).1] at ht
    have := h t ht; linarith

/-- along a trajectory every recorded nucleation time is at most the time of the column -/
theorem traj_time (p : Params ℝ) (hdt : 0 < p.dt) (kCN : Nat) (l : List ℝ) (k : Nat) (s : State ℝ)
    (h0 : ∀ (i : Nat) (v : Vial ℝ), s.vials[i]? = some v → ∀ t, v.tNuc = some t → t ≤ timeAt p.dt k) :
    ∀ (j : Nat) (sj : State ℝ), (trajList p kCN k l s)[j]? = some sj →
      ∀ (i : Nat) (v : Vial ℝ), sj.vials[i]? = some v → ∀ t, v.tNuc = some t → t ≤ timeAt p.dt (k + j) := by
  induction l generalizing k s with
  | nil => intro j sj h; simp [trajList] at h
  | cons T r ih =>
    intro j sj hj
    cases j with
    | zero =>
      simp only [trajList, List.getElem?_cons_zero, Option.some.injEq] at hj
      subst hj; simpa using h0
    | succ j' =>
      simp only [trajList, List.getElem?_cons_succ] at hj
      have h1 : ∀ (i : Nat) (v : Vial ℝ), (step p kCN k T s).vials[i]? = some v →
          ∀ t, v.tNuc = some t → t ≤ timeAt p.dt (k + 1) := by
        intro i v' hv' t ht
        simp only [step] at hv'
        rw [stepCN_getElem?] at hv'
        cases hvi : s.vials[i]? with
        | none => rw [hvi] at hv'; simp at hv'
        | some v =>
          rw [hvi] at hv'
          simp only [Option.map_some, Option.some.injEq] at hv'
          rw [timeAt_succ]
          have := tNuc_le_time p hdt (timeAt p.dt k) (k == kCN) (anySolid s) v
            (heatFlow p (temps s) T T i) (p.kb.getD i 0) ((diceOf p k T s).getD i 0) (h0 i v hvi) t
          apply this
          rw [← hv'] at ht
          simpa [vialStep] using ht
      have := ih (k + 1) (step p kCN k T s) h1 j' sj hj
      have e : k + (j' + 1) = k + 1 + j' := by omega
      rw [e]; exact this

/-- **a vial contains ice exactly from its recorded nucleation onwards** (run level, under the
hypotheses of `run_admissible_partial` through `hadm`): in column `j`, vial `i` contains ice iff
the nucleation time reported in the final statistics exists and is at most `t[j]`. -/
theorem ice_iff_recorded {ph : Phys} (inp : Inputs ℝ) (kCN : Nat) (hdt : 0 < inp.p.dt)
    (hadm : TrajAdm ph inp.p kCN 0 (profile inp.oc inp.p.dt) (init inp))
    (j : Nat) (sj : State ℝ) (hj : (runWith inp kCN).traj[j]? = some sj) (i : Nat) (v : Vial ℝ)
    (hv : sj.vials[i]? = some v) :
    ∃ vf, (runWith inp kCN).final.vials[i]? = some vf ∧
      (v.sigma ≠ 0 ↔ ∃ t, vf.tNuc = some t ∧ t ≤ timeAt inp.p.dt j) := by
  have hr : runWith inp kCN = ⟨nTimeSteps inp, timeVec (nTimeSteps inp) inp.p.dt, kCN,
      profile inp.oc inp.p.dt,
      (trajList inp.p kCN 0 (profile inp.oc inp.p.dt) (init inp)).toArray,
      finalState inp.p kCN 0 (profile inp.oc inp.p.dt) (init inp)⟩ := by
    simp only [runWith, loop_eq]
    simp
  rw [hr] at hj ⊢
  simp only [List.getElem?_toArray] at hj ⊢
  set l := profile inp.oc inp.p.dt with hl
  obtain ⟨hd1, hd2⟩ := trajList_drop inp.p kCN l 0 (init inp) j sj hj
  simp only [Nat.zero_add] at hd1 hd2
  have hadm' : TrajAdm ph inp.p kCN j (l.drop j) sj := by
    intro j2 s2 h2
    rw [hd1, List.getElem?_drop] at h2
    exact hadm (j + j2) s2 h2
  have hA : Adm ph v := hadm j sj hj i v hv
  have htime := traj_time inp.p hdt kCN l 0 (init inp) (by
    intro i v h t ht
    simp only [init, Array.getElem?_replicate] at h
    split at h
    · simp only [Option.some.injEq] at h; rw [← h] at ht; simp at ht
    · simp at h) j sj hj i v hv
  simp only [Nat.zero_add] at htime
  rw [← hd2]
  by_cases hσ : v.sigma = 0
  · have hnone := adm_liquid hA hσ
    obtain ⟨vf, h1, h2⟩ := tNuc_fresh inp.p hdt kCN (l.drop j) j sj hadm' i v hv hnone
    refine ⟨vf, h1, ?_⟩
    constructor
    · intro h; exact absurd hσ h
    · rintro ⟨t, ht, hle⟩
      rcases h2 with h2 | ⟨t', h2, h3⟩
      · rw [h2] at ht; simp at ht
      · rw [h2] at ht
        simp only [Option.some.injEq] at ht
        subst ht
        linarith
  · obtain ⟨_, _, _, hne⟩ := adm_solid hA hσ
    obtain ⟨t, ht⟩ := Option.ne_none_iff_exists'.mp hne
    obtain ⟨vf, h1, h2⟩ := tNuc_persist inp.p kCN (l.drop j) j sj hadm' i v t hv ht
    exact ⟨vf, h1, ⟨fun _ => ⟨t, h2, htime t ht⟩, fun _ => hσ⟩⟩

/-- `ice_iff_recorded` under the hypotheses of `run_admissible_partial` -/
theorem run_ice_iff_recorded {ph : Phys} (inp : Inputs ℝ) (kCN : Nat) (hi : ℝ)
    (hwf : Snow.C05.WF inp.oc inp.p.dt)
    (st : Stable ph inp.p inp.nVials inp.oc.stop hi)
    (hT0 : inp.oc.start ≤ inp.T0) (hT0hi : inp.T0 ≤ hi) (hstart : inp.oc.start ≤ hi)
    (hside : ∀ (j : Nat) (sj : State ℝ) (T : ℝ), (runWith inp kCN).traj[j]? = some sj →
      (runWith inp kCN).Tshelf[j]? = some T → SideCond ph inp.p sj T)
    (j : Nat) (sj : State ℝ) (hj : (runWith inp kCN).traj[j]? = some sj) (i : Nat) (v : Vial ℝ)
    (hv : sj.vials[i]? = some v) :
    ∃ vf, (runWith inp kCN).final.vials[i]? = some vf ∧
      (v.sigma ≠ 0 ↔ ∃ t, vf.tNuc = some t ∧ t ≤ timeAt inp.p.dt j) := by
  have hadm : TrajAdm ph inp.p kCN 0 (profile inp.oc inp.p.dt) (init inp) := by
    intro j2 s2 h2 i2 v2 hv2
    have hr : (runWith inp kCN).traj
        = (trajList inp.p kCN 0 (profile inp.oc inp.p.dt) (init inp)).toArray := by
      simp only [runWith, loop_eq]; simp
    have h2' : (runWith inp kCN).traj[j2]? = some s2 := by
      rw [hr]; simpa using h2
    exact (run_admissible_partial inp kCN hi hwf st hT0 hT0hi hstart hside j2 s2 h2' i2 v2 hv2).1
  exact ice_iff_recorded inp kCN st.dt_pos hadm j sj hj i v hv

/-- the configuration used by the witnesses: default solution (5 wt.% sucrose, 1 cm³), TWO vials
in contact (each has the other as neighbour and 3 free faces), `k_int = k_ext = k_shelf = 20`,
`Δt = 2 s` -/
noncomputable def exParams : Params ℝ where
  c := (physOf defaultPrimary).consts
  nbrs := [[1], [0]]
  ext := [3, 3]
  kInt := 20
  kExt := 20
  kShelf := [20, 20]
  A := 1 / 10000
  kb := [1, 1]
  dt := 2
  threshold := 9 / 10
  initIce := .indirect

theorem ex_m : (physOf defaultPrimary).m = 1 / 1000 := by
  simp only [Phys.m, physOf, defaultPrimary]; norm_num
theorem ex_D : (physOf defaultPrimary).D = 18530 / 3423 * (1 / 19) := by
  simp only [Phys.D, physOf, defaultPrimary]; norm_num
theorem ex_cpl : (physOf defaultPrimary).cpl = 403965 / 100 := by
  simp only [Phys.cpl, physOf, defaultPrimary]; norm_num
theorem ex_cp1 : (physOf defaultPrimary).cp 1 = 20646 / 10 := by
  simp only [Phys.cp, physOf, defaultPrimary]; norm_num
theorem ex_cpMin : cpMin (physOf defaultPrimary) = 20646 / 10 := by
  unfold cpMin; rw [ex_cpl, ex_cp1]; norm_num
theorem ex_Hsum (i : Nat) (hi : i < 2) : Hsum exParams i = 1 / 100 := by
  have : i = 0 ∨ i = 1 := by omega
  rcases this with rfl | rfl <;> simp only [Hsum, exParams] <;> norm_num

/-- the two-vial configuration is inside the stable range for a shelf between −50 °C and 20 °C -/
theorem ex_stable : Stable (physOf defaultPrimary) exParams 2 (-50) 20 := by
  have hV := defaultPrimary_valid
  have hgam : (physOf defaultPrimary).gamma = 19 / 20 * (333550 / (403965 / 100)) := by
    unfold Phys.gamma; rw [ex_cpl]
    simp only [physOf, defaultPrimary]; norm_num
  refine ⟨hV, by simp only [exParams]; norm_num, rfl, ?_, ?_, ?_, ?_, ?_, ?_⟩
  · intro i hi
    have : i = 0 ∨ i = 1 := by omega
    rcases this with rfl | rfl <;> constructor <;> simp only [exParams] <;> norm_num
  · intro i hi j hj
    have : i = 0 ∨ i = 1 := by omega
    rcases this with rfl | rfl <;> simp [exParams] at hj <;> omega
  · intro i hi
    rw [ex_Hsum i hi, ex_m, ex_cpMin]; simp only [exParams]; norm_num
  · intro i hi
    rw [ex_Hsum i hi, ex_m, ex_cpMin, ex_D]
    simp only [exParams, physOf, defaultPrimary]; norm_num
  · unfold Phys.TeqL; rw [ex_D]
    simp only [physOf, defaultPrimary]; norm_num
  · unfold Phys.TeqL; rw [ex_D, hgam]
    simp only [physOf, defaultPrimary]; norm_num

/-- **the side condition is needed** (boundary of the theorem, not a defect reachable with real
seeds). Inside `Stable` (`ex_stable`): vial 0 holds a tiny amount of ice (`σ = 10⁻⁶`, as after
nucleation at vanishing supercooling) and sits on the curve; a net heat flow `q = 0.1 W` is within
what `Stable` allows (`Hsum·(lo − T) ≤ q ≤ Hsum·(hi − T)`, e.g. shelf and neighbour near +10 °C);
the side condition `q·Δt ≤ σ·m·λ(1−w_s)` fails, and the code's solidifying update
`solidSigma` leaves `[0, 1)`: `σ' < 0`. -/
theorem side_condition_needed :
    let ph := physOf defaultPrimary
    let σ : ℝ := 1 / 1000000
    let q : ℝ := 1 / 10
    Stable ph exParams 2 (-50) 20 ∧ 0 < σ ∧ σ < 1 ∧
    Hsum exParams 0 * (-50 - ph.curve σ) ≤ q ∧ q ≤ Hsum exParams 0 * (20 - ph.curve σ) ∧
    ¬ (q * exParams.dt ≤ σ * ph.m * (ph.lam * (1 - ph.w_s))) ∧
    solidSigma exParams.c exParams.dt q σ < 0 := by
  intro ph σ q
  have hV := defaultPrimary_valid
  have hcurve : ph.curve σ = -(18530 / 3423 * (1 / 19)) * (1000000 / 999999) := by
    simp only [Phys.curve, ph, σ]; rw [ex_D]
    simp only [physOf, defaultPrimary]; norm_num
  have hb : ph.bracket σ < 400000 := by
    simp only [Phys.bracket, Phys.cp, ph, σ]; rw [ex_D]
    simp only [physOf, defaultPrimary]; norm_num
  have hb0 : 0 < ph.bracket σ := hV.bracket_pos (by norm_num) (by norm_num)
  refine ⟨ex_stable, by norm_num, by norm_num, ?_, ?_, ?_, ?_⟩
  · rw [ex_Hsum 0 (by norm_num), hcurve]; norm_num
  · rw [ex_Hsum 0 (by norm_num), hcurve]; norm_num
  · rw [ex_m]; simp only [exParams, ph, physOf, defaultPrimary, q, σ]; norm_num
  · have : exParams.c = ph.consts := rfl
    rw [this, solidSigma_eq ph hV _ _ _ (by norm_num) (ne_of_gt hb0), ex_m]
    have hpos : (0 : ℝ) < 1 / 1000 * ph.bracket σ := by positivity
    rw [sub_neg, lt_div_iff₀ hpos]
    simp only [exParams, q, σ]
    nlinarith

/-- **shelf coefficients are non-negative**: what `_buildShelfHeatFlow` hands to the step
(`s0 + n_i·s_sigma_rel·s0` clamped at 0, or `s0`, or 0 in a pallet) is `≥ 0` for every draw of the
normals when `s0 ≥ 0` — the premise `CoeffNonneg.shelf` of the convexity argument. -/
theorem shelf_coeff_nonneg (nz n : Nat) (s0 : ℝ) (sRel : Option ℝ) (normals : List ℝ) (hs0 : 0 ≤ s0) :
    ∀ x ∈ shelfCoeffs nz n s0 sRel normals, 0 ≤ x := by
  intro x hx
  unfold shelfCoeffs at hx
  split at hx
  · cases sRel with
    | none => simp only [List.mem_replicate] at hx; rw [hx.2]; exact hs0
    | some r =>
      simp only at hx
      split at hx
      · simp only [List.mem_map, List.mem_range, zero_real] at hx
        obtain ⟨i, _, rfl⟩ := hx
        split
        · exact le_refl _
        · rename_i h; exact not_lt.mp h
      · simp only [List.mem_replicate] at hx; rw [hx.2]; exact hs0
  · simp only [List.mem_replicate, zero_real] at hx; rw [hx.2]

/-- **non-negative coupling to the surroundings for every declared shape**: no vial has more
neighbours than the arrangement's maximum, so `VIAL_EXT ≥ 0` (premise `CoeffNonneg.ext` for
`k_ext·A ≥ 0`). -/
theorem ext_nonneg_shape (arr : Snow.Topology.Arr) (nx ny nz i : Nat)
    (hi : i < Snow.Topology.nTot nx ny nz) : 0 ≤ (extOf arr nx ny nz).getD i 0 := by
  rw [extOf_getD arr nx ny nz i hi, Snow.C09.deg_eq_geomDeg arr hi]
  have := Snow.C09.geomDeg_le_maxNbr arr hi
  omega

/-! ### literal packaging of the run conclusion -/

theorem chain_antitone (l : List ℝ) (h : l.IsChain (fun a b => b ≤ a)) (a d : Nat) (x y : ℝ)
    (hx : l[a]? = some x) (hy : l[a + d]? = some y) : y ≤ x := by
  induction d generalizing y with
  | zero => simp only [Nat.add_zero] at hy; rw [hx] at hy; simp at hy; rw [hy]
  | succ d ih =>
    have hlt : a + d + 1 < l.length := by
      by_contra hcon
      have : l[a + (d + 1)]? = none := List.getElem?_eq_none (by omega)
      rw [this] at hy; exact absurd hy (by simp)
    have hz : l[a + d]? = some l[a + d] := List.getElem?_eq_getElem (by omega)
    have h1 := ih _ hz
    have h2 := (List.isChain_iff_getElem.mp h) (a + d) hlt
    have hy' : l[a + d + 1]? = some l[a + d + 1] := List.getElem?_eq_getElem hlt
    have : y = l[a + d + 1] := by
      have e : a + (d + 1) = a + d + 1 := by omega
      rw [e, hy'] at hy; simpa using hy.symm
    rw [this]; linarith

/-- **the clauses of C06, literally, for every recorded column of a run** (PARTIAL: same
hypotheses as `run_admissible_partial`, i.e. conditional on the monitored side condition):
the ice fraction is in `[0, 1)`; a vial containing ice sits on the freezing-point-depression curve
and below `T_eq_l`; no vial is warmer than `hi` (any bound with `T_k_0, T_sh(0), T_eq_l ≤ hi`,
in particular their maximum); no vial is colder than the COLDEST shelf temperature applied so
far — for column `j ≥ 1` that is `T_shelf[j−1]`, which is `≤` every earlier shelf sample because
the program never rises (C05); column 0 is not colder than the start temperature. -/
theorem run_bounds_gen {ph : Phys} (inp : Inputs ℝ) (kCN : Nat) (hi : ℝ) (J : Nat)
    (hwf : Snow.C05.WF inp.oc inp.p.dt)
    (st : Stable ph inp.p inp.nVials inp.oc.stop hi)
    (hT0 : inp.oc.start ≤ inp.T0) (hT0hi : inp.T0 ≤ hi) (hstart : inp.oc.start ≤ hi)
    (hside : ∀ (j : Nat) (sj : State ℝ) (T lo' : ℝ), (runWith inp kCN).traj[j]? = some sj →
      (runWith inp kCN).Tshelf[j]? = some T → j < J → sj.vials.size = inp.nVials →
      AdmState ph lo' hi sj → T ≤ lo' → SideCond ph inp.p sj T) :
    ∀ (j : Nat) (sj : State ℝ), (runWith inp kCN).traj[j]? = some sj → j ≤ J →
      ∀ (i : Nat) (v : Vial ℝ), sj.vials[i]? = some v →
      (0 ≤ v.sigma ∧ v.sigma < 1) ∧
      (v.sigma ≠ 0 → v.T = ph.curve v.sigma ∧ v.T < ph.TeqL) ∧
      v.T ≤ hi ∧ (j = 0 → inp.oc.start ≤ v.T) ∧
      (∀ (j' : Nat) (T : ℝ), j = j' + 1 → (runWith inp kCN).Tshelf[j']? = some T →
        T ≤ v.T ∧ ∀ (j'' : Nat) (T'' : ℝ), j'' ≤ j' → (runWith inp kCN).Tshelf[j'']? = some T'' → T ≤ T'') := by
  intro j sj hj hjJ i v hv
  obtain ⟨hA, hhi, h0, hlow⟩ := run_admissible_gen inp kCN hi J hwf st hT0 hT0hi hstart hside j sj hj hjJ i v hv
  have hTsh : (runWith inp kCN).Tshelf = profile inp.oc inp.p.dt := rfl
  have hchain : (profile inp.oc inp.p.dt).IsChain (fun a b => b ≤ a) :=
    (Snow.C05.profile_good inp.oc inp.p.dt hwf).1.imp (fun _ _ h => h.1)
  refine ⟨?_, ?_, hhi, h0, ?_⟩
  · rcases hA with h | h
    · rw [h.1]; norm_num
    · exact ⟨le_of_lt h.1, h.2.1⟩
  · intro hσ
    obtain ⟨h1, h2, h3, _⟩ := adm_solid hA hσ
    exact ⟨h3, by rw [h3]; exact curve_le_TeqL ph st.valid _ h1 h2⟩
  · intro j' T hjj hT
    refine ⟨hlow j' T hjj hT, ?_⟩
    intro j'' T'' hle hT''
    rw [hTsh] at hT hT''
    obtain ⟨d, rfl⟩ : ∃ d, j' = j'' + d := ⟨j' - j'', by omega⟩
    exact chain_antitone _ hchain j'' d T'' T hT'' hT

/-- `run_bounds_gen` with the side condition assumed at every step (PARTIAL) -/
theorem run_bounds_partial {ph : Phys} (inp : Inputs ℝ) (kCN : Nat) (hi : ℝ)
    (hwf : Snow.C05.WF inp.oc inp.p.dt)
    (st : Stable ph inp.p inp.nVials inp.oc.stop hi)
    (hT0 : inp.oc.start ≤ inp.T0) (hT0hi : inp.T0 ≤ hi) (hstart : inp.oc.start ≤ hi)
    (hside : ∀ (j : Nat) (sj : State ℝ) (T : ℝ), (runWith inp kCN).traj[j]? = some sj →
      (runWith inp kCN).Tshelf[j]? = some T → SideCond ph inp.p sj T) :
    ∀ (j : Nat) (sj : State ℝ), (runWith inp kCN).traj[j]? = some sj →
      ∀ (i : Nat) (v : Vial ℝ), sj.vials[i]? = some v →
      (0 ≤ v.sigma ∧ v.sigma < 1) ∧
      (v.sigma ≠ 0 → v.T = ph.curve v.sigma ∧ v.T < ph.TeqL) ∧
      v.T ≤ hi ∧ (j = 0 → inp.oc.start ≤ v.T) ∧
      (∀ (j' : Nat) (T : ℝ), j = j' + 1 → (runWith inp kCN).Tshelf[j']? = some T →
        T ≤ v.T ∧ ∀ (j'' : Nat) (T'' : ℝ), j'' ≤ j' → (runWith inp kCN).Tshelf[j'']? = some T'' → T ≤ T'') :=
  fun j sj hj => run_bounds_gen inp kCN hi j hwf st hT0 hT0hi hstart
    (fun j' sj' T _ h1 h2 _ _ _ _ => hside j' sj' T h1 h2) j sj hj (le_refl j)

/-! ### non-vacuity -/

/-- a state with no ice satisfies the side condition -/
theorem sideCond_of_liquid (ph : Phys) (p : Params ℝ) (s : State ℝ) (Tsh : ℝ)
    (h : ∀ (i : Nat) (v : Vial ℝ), s.vials[i]? = some v → v.sigma = 0) : SideCond ph p s Tsh :=
  fun i v hv hσ => absurd (h i v hv) hσ

/-- the inputs used for non-vacuity: the two-vial batch `exParams`, a program 20 °C → −50 °C at
0.5 K/s with a hold of 10 s at −5 °C, vials starting at the shelf's start temperature -/
noncomputable def exInputs : Inputs ℝ where
  p := exParams
  oc := ⟨0, 20, -50, 1 / 2, [⟨-5, 10⟩]⟩
  cnTemp := none
  T0 := 20
  nVials := 2
  dice := []
  mask := [true, true]

/-- **every hypothesis of `run_admissible_partial` / `run_bounds_partial` is satisfiable
together** on a batch with real neighbours: a well-formed program with a hold (`C05.WF`), the
stable range (`ex_stable`), `start ≤ T_k_0 ≤ hi`, and the side condition along the whole
trajectory of the run (the run of `exInputs` has `t_tot = 0`, i.e. the initial column only, in
which no vial contains ice; a non-trivial instance of the side condition is `sideCond_witness`). -/
theorem nonvacuous :
    Snow.C05.WF exInputs.oc exInputs.p.dt ∧
    Stable (physOf defaultPrimary) exInputs.p exInputs.nVials exInputs.oc.stop 20 ∧
    exInputs.oc.start ≤ exInputs.T0 ∧ exInputs.T0 ≤ 20 ∧ exInputs.oc.start ≤ 20 ∧
    (∀ (j : Nat) (sj : State ℝ) (T : ℝ), (runWith exInputs 5).traj[j]? = some sj →
      (runWith exInputs 5).Tshelf[j]? = some T → SideCond (physOf defaultPrimary) exInputs.p sj T) := by
  refine ⟨?_, ex_stable, by simp [exInputs], by simp [exInputs], by simp [exInputs], ?_⟩
  · refine ⟨by simp [exInputs, exParams], by simp [exInputs], by simp [exInputs], ?_, ?_, ?_⟩
    · simp only [exInputs, Snow.OpCondLemmas.Desc]; norm_num
    · simp only [exInputs, Snow.OpCondLemmas.lastTemp]; norm_num
    · intro x hx; simp [exInputs] at hx; rw [hx]; norm_num
  · intro j sj T hj _
    have hr : (runWith exInputs 5).traj
        = (trajList exInputs.p 5 0 (profile exInputs.oc exInputs.p.dt) (init exInputs)).toArray := by
      simp only [runWith, loop_eq]; simp
    rw [hr] at hj
    simp only [List.getElem?_toArray] at hj
    have hlen : (profile exInputs.oc exInputs.p.dt).length = 1 := by
      rw [Snow.C05.profile_length]
      simp [nSteps, exInputs, exParams]
    have hj0 : j = 0 := by
      by_contra hne
      have : (trajList exInputs.p 5 0 (profile exInputs.oc exInputs.p.dt) (init exInputs))[j]? = none :=
        List.getElem?_eq_none (by rw [trajList_length, hlen]; omega)
      rw [this] at hj; exact absurd hj (by simp)
    subst hj0
    have hs : sj = init exInputs := by
      cases hp : profile exInputs.oc exInputs.p.dt with
      | nil => rw [hp] at hlen; simp at hlen
      | cons T0 r => rw [hp] at hj; simpa [trajList] using hj.symm
    rw [hs]
    apply sideCond_of_liquid
    intro i v hv
    simp only [init, Array.getElem?_replicate] at hv
    split at hv
    · simp only [Option.some.injEq] at hv; rw [← hv]; simp
    · simp at hv

/-- **a non-trivial instance of the side condition**: in the two-vial batch, vial 0 is half
frozen (on the curve, ≈ −0.57 °C), vial 1 is liquid at 10 °C and the shelf is at 10 °C; vial 0 IS
warmed (`q > 0`) and the side condition holds (its ice can absorb the heat of the step). -/
theorem sideCond_witness :
    let ph := physOf defaultPrimary
    let s : State ℝ := ⟨#[{ T := ph.curve (1 / 2), sigma := 1 / 2, tNuc := some 0 },
                          { T := 10, sigma := 0 }], []⟩
    0 < heatFlow exParams (temps s) 10 10 0 ∧ SideCond ph exParams s 10 := by
  intro ph s
  have hV := defaultPrimary_valid
  have hT0 : (temps s).getD 0 0 = ph.curve (1 / 2) := by simp [temps, s]
  have hT1 : (temps s).getD 1 0 = 10 := by simp [temps, s]
  have hc : ph.curve (1 / 2) = -(2 * (18530 / 3423 * (1 / 19))) := by
    simp only [Phys.curve, ph]; rw [ex_D]
    simp only [physOf, defaultPrimary]; norm_num
  have hco := ex_stable.coeff 0 (by norm_num)
  have hn : ∀ j ∈ exParams.nbrs.getD 0 [], (10 : ℝ) ≤ (temps s).getD j 0 ∧ (temps s).getD j 0 ≤ 20 := by
    intro j hj
    have : j = 1 := by simpa [exParams] using hj
    subst this; rw [hT1]; norm_num
  have hb := heatFlow_bounds exParams (temps s) 10 10 10 20 0 hco hn (by norm_num) (by norm_num)
  rw [ex_Hsum 0 (by norm_num), hT0, hc] at hb
  refine ⟨by have := hb.1; norm_num at this ⊢; linarith, ?_⟩
  intro i v hv hσ _
  have hi : i = 0 := by
    by_contra hne
    have h1 : i = 1 ∨ 2 ≤ i := by omega
    rcases h1 with rfl | h2
    · simp [s] at hv; rw [← hv] at hσ; simp at hσ
    · have : s.vials[i]? = none := Array.getElem?_eq_none (by simp [s]; omega)
      rw [this] at hv; exact absurd hv (by simp)
  subst hi
  have hsg : v.sigma = 1 / 2 := by
    simp [s] at hv; rw [← hv]; norm_num
  have hdt : exParams.dt = 2 := rfl
  have hL : ph.lam * (1 - ph.w_s) = 333550 * (19 / 20) := by
    simp only [ph, physOf, defaultPrimary]; norm_num
  rw [hsg, ex_m, hdt, hL]
  have := hb.2
  norm_num at this ⊢
  linarith

/-! ### where the side condition is NOT needed -/

/-- **unconditional up to and including the first column that contains ice**: if the columns
before column `J` contain no ice (e.g. `J` = the first column with ice), the admissibility and
bound clauses hold for all columns `j ≤ J` with NO side condition — the steps that produce them
start from ice-free states. -/
theorem run_admissible_until_first_nucleation {ph : Phys} (inp : Inputs ℝ) (kCN : Nat) (hi : ℝ) (J : Nat)
    (hwf : Snow.C05.WF inp.oc inp.p.dt)
    (st : Stable ph inp.p inp.nVials inp.oc.stop hi)
    (hT0 : inp.oc.start ≤ inp.T0) (hT0hi : inp.T0 ≤ hi) (hstart : inp.oc.start ≤ hi)
    (hliq : ∀ (j : Nat) (sj : State ℝ), (runWith inp kCN).traj[j]? = some sj → j < J →
      ∀ (i : Nat) (v : Vial ℝ), sj.vials[i]? = some v → v.sigma = 0) :
    ∀ (j : Nat) (sj : State ℝ), (runWith inp kCN).traj[j]? = some sj → j ≤ J →
      ∀ (i : Nat) (v : Vial ℝ), sj.vials[i]? = some v →
      (0 ≤ v.sigma ∧ v.sigma < 1) ∧
      (v.sigma ≠ 0 → v.T = ph.curve v.sigma ∧ v.T < ph.TeqL) ∧
      v.T ≤ hi ∧ (j = 0 → inp.oc.start ≤ v.T) ∧
      (∀ (j' : Nat) (T : ℝ), j = j' + 1 → (runWith inp kCN).Tshelf[j']? = some T →
        T ≤ v.T ∧ ∀ (j'' : Nat) (T'' : ℝ), j'' ≤ j' → (runWith inp kCN).Tshelf[j'']? = some T'' → T ≤ T'') :=
  run_bounds_gen inp kCN hi J hwf st hT0 hT0hi hstart
    (fun j sj T _ h1 _ h3 _ _ _ => sideCond_of_liquid ph inp.p sj T (hliq j sj h1 h3))

/-- an ice-containing vial whose contacts (neighbours, shelf = surroundings) are all at or below
`T_eq_l` cannot receive more heat in a step than its ice absorbs, under the STATIC condition
`Δt·Hsum·(T_m − lo) ≤ m·λ(1−w_s)` (`lo` a lower bound of the vial's temperature) -/
theorem side_of_contacts_below_liquidus {ph : Phys} {p : Params ℝ} {n : Nat} {lo0 hi : ℝ}
    (st : Stable ph p n lo0 hi) (i : Nat) (hi' : i < n) (Ts : Array ℝ) (Tsh lo σ : ℝ)
    (h0 : 0 < σ) (h1 : σ < 1) (hTi : Ts.getD i 0 = ph.curve σ) (hlo : lo ≤ ph.curve σ)
    (hn : ∀ j ∈ p.nbrs.getD i [], lo ≤ Ts.getD j 0 ∧ Ts.getD j 0 ≤ ph.TeqL)
    (hsh : lo ≤ Tsh ∧ Tsh ≤ ph.TeqL)
    (hstat : p.dt * Hsum p i * (ph.T_m - lo) ≤ ph.m * (ph.lam * (1 - ph.w_s))) :
    heatFlow p Ts Tsh Tsh i * p.dt ≤ σ * ph.m * (ph.lam * (1 - ph.w_s)) := by
  have hv := st.valid
  have hD := hv.D_pos
  have hH := Hsum_nonneg p i (st.coeff i hi')
  have hq := (heatFlow_bounds p Ts Tsh Tsh lo ph.TeqL i (st.coeff i hi') hn hsh hsh).2
  rw [hTi] at hq
  have ha : 0 < 1 - σ := by linarith
  -- T_eq_l − curve σ = D σ/(1−σ)
  have hX : ph.TeqL - ph.curve σ = ph.D * σ / (1 - σ) := by
    unfold Phys.TeqL Phys.curve; field_simp; ring
  -- D/(1−σ) ≤ T_m − lo
  have hG : ph.D / (1 - σ) ≤ ph.T_m - lo := by
    have : ph.curve σ = ph.T_m - ph.D / (1 - σ) := by unfold Phys.curve; ring
    rw [this] at hlo; linarith
  have hdt := st.dt_pos
  have h2 : p.dt * Hsum p i * (ph.D / (1 - σ)) ≤ ph.m * (ph.lam * (1 - ph.w_s)) :=
    le_trans (mul_le_mul_of_nonneg_left hG (mul_nonneg (le_of_lt hdt) hH)) hstat
  have h3 : heatFlow p Ts Tsh Tsh i * p.dt ≤ Hsum p i * (ph.D * σ / (1 - σ)) * p.dt := by
    rw [hX] at hq
    exact mul_le_mul_of_nonneg_right hq (le_of_lt hdt)
  have h4 : Hsum p i * (ph.D * σ / (1 - σ)) * p.dt = σ * (p.dt * Hsum p i * (ph.D / (1 - σ))) := by
    field_simp
  rw [h4] at h3
  have h5 := mul_le_mul_of_nonneg_left h2 (le_of_lt h0)
  calc heatFlow p Ts Tsh Tsh i * p.dt ≤ σ * (p.dt * Hsum p i * (ph.D / (1 - σ))) := h3
    _ ≤ σ * (ph.m * (ph.lam * (1 - ph.w_s))) := h5
    _ = σ * ph.m * (ph.lam * (1 - ph.w_s)) := by ring

/-- the STATIC part of the sufficient condition -/
def StaticSide (ph : Phys) (p : Params ℝ) (n : Nat) (lo0 : ℝ) : Prop :=
  ∀ i, i < n → p.dt * Hsum p i * (ph.T_m - lo0) ≤ ph.m * (ph.lam * (1 - ph.w_s))

/-- what REMAINS to be monitored once `StaticSide` holds: a warmed ice-containing vial has no
contact (neighbour or shelf) warmer than `T_eq_l` -/
def ContactsBelow (ph : Phys) (p : Params ℝ) (s : State ℝ) (Tsh : ℝ) : Prop :=
  ∀ (i : Nat) (v : Vial ℝ), s.vials[i]? = some v → v.sigma ≠ 0 → 0 < heatFlow p (temps s) Tsh Tsh i →
    Tsh ≤ ph.TeqL ∧ ∀ j ∈ p.nbrs.getD i [], (temps s).getD j 0 ≤ ph.TeqL

/-- `SideCond` from the state invariant, `StaticSide` and `ContactsBelow` -/
theorem sideCond_of_contacts {ph : Phys} {p : Params ℝ} {n : Nat} {lo0 hi : ℝ} (st : Stable ph p n lo0 hi)
    (hstat : StaticSide ph p n lo0) (s : State ℝ) (Tsh lo : ℝ) (hs : s.vials.size = n)
    (hinv : AdmState ph lo hi s) (hT1 : lo0 ≤ Tsh) (hT2 : Tsh ≤ lo)
    (hc : ContactsBelow ph p s Tsh) : SideCond ph p s Tsh := by
  intro i v hv hσ hq
  have hi' : i < n := by
    rw [← hs]
    by_contra hcon
    have : s.vials[i]? = none := Array.getElem?_eq_none (not_lt.mp hcon)
    rw [this] at hv; exact absurd hv (by simp)
  obtain ⟨h0, h1, hT, _⟩ := adm_solid (hinv.adm i v hv) hσ
  obtain ⟨hcs, hcn⟩ := hc i v hv hσ hq
  have hn : ∀ j ∈ p.nbrs.getD i [], Tsh ≤ (temps s).getD j 0 ∧ (temps s).getD j 0 ≤ ph.TeqL := by
    intro j hj
    have hjn : j < s.vials.size := by rw [hs]; exact st.nbr_lt i hi' j hj
    have hj' : s.vials[j]? = some s.vials[j] := Array.getElem?_eq_getElem hjn
    refine ⟨?_, hcn j hj⟩
    rw [temps_getD s j _ 0 hj']
    exact le_trans hT2 (hinv.bnd j _ hj').1
  have hm : 0 ≤ ph.m * (ph.lam * (1 - ph.w_s)) := by
    have := st.valid.m_pos; have := st.valid.lam_pos; have := st.valid.w_lt
    have : 0 < 1 - ph.w_s := by linarith
    positivity
  have hstat' : p.dt * Hsum p i * (ph.T_m - Tsh) ≤ ph.m * (ph.lam * (1 - ph.w_s)) := by
    have hH := Hsum_nonneg p i (st.coeff i hi')
    have : p.dt * Hsum p i * (ph.T_m - Tsh) ≤ p.dt * Hsum p i * (ph.T_m - lo0) :=
      mul_le_mul_of_nonneg_left (by linarith) (mul_nonneg (le_of_lt st.dt_pos) hH)
    exact le_trans this (hstat i hi')
  have := side_of_contacts_below_liquidus st i hi' (temps s) Tsh Tsh v.sigma h0 h1
    (by rw [temps_getD s i v 0 hv, hT]) (by rw [← hT]; exact le_trans hT2 (hinv.bnd i v hv).1)
    hn ⟨le_refl _, hcs⟩ hstat'
  exact this

/-- **run invariant with the weaker, interpretable monitored hypothesis**: under `StaticSide`
(a static inequality of the inputs) it suffices that no warmed ice-containing vial has a contact
above `T_eq_l` (`ContactsBelow`) — the only way the side condition can fail. -/
theorem run_bounds_contacts_partial {ph : Phys} (inp : Inputs ℝ) (kCN : Nat) (hi : ℝ)
    (hwf : Snow.C05.WF inp.oc inp.p.dt)
    (st : Stable ph inp.p inp.nVials inp.oc.stop hi)
    (hstat : StaticSide ph inp.p inp.nVials inp.oc.stop)
    (hT0 : inp.oc.start ≤ inp.T0) (hT0hi : inp.T0 ≤ hi) (hstart : inp.oc.start ≤ hi)
    (hc : ∀ (j : Nat) (sj : State ℝ) (T : ℝ), (runWith inp kCN).traj[j]? = some sj →
      (runWith inp kCN).Tshelf[j]? = some T → ContactsBelow ph inp.p sj T) :
    ∀ (j : Nat) (sj : State ℝ), (runWith inp kCN).traj[j]? = some sj →
      ∀ (i : Nat) (v : Vial ℝ), sj.vials[i]? = some v →
      (0 ≤ v.sigma ∧ v.sigma < 1) ∧
      (v.sigma ≠ 0 → v.T = ph.curve v.sigma ∧ v.T < ph.TeqL) ∧
      v.T ≤ hi ∧ (j = 0 → inp.oc.start ≤ v.T) ∧
      (∀ (j' : Nat) (T : ℝ), j = j' + 1 → (runWith inp kCN).Tshelf[j']? = some T →
        T ≤ v.T ∧ ∀ (j'' : Nat) (T'' : ℝ), j'' ≤ j' → (runWith inp kCN).Tshelf[j'']? = some T'' → T ≤ T'') := by
  intro j sj hj
  have hprof : ∀ (j : Nat) (T : ℝ), (runWith inp kCN).Tshelf[j]? = some T → inp.oc.stop ≤ T := by
    intro j T hT
    have : T ∈ profile inp.oc inp.p.dt := List.mem_of_getElem? hT
    exact ((Snow.C05.profile_good inp.oc inp.p.dt hwf).2.1 T this).1
  exact run_bounds_gen inp kCN hi j hwf st hT0 hT0hi hstart
    (fun j' sj' T lo' h1 h2 _ h4 h5 h6 =>
      sideCond_of_contacts st hstat sj' T lo' h4 h5 (hprof j' T h2) h6 (hc j' sj' T h1 h2)) j sj hj (le_refl j)

/-- **unconditional for a process that starts at or below the liquidus** (`T_k_0 ≤ T_eq_l`,
shelf start `≤ T_eq_l`, i.e. `hi = T_eq_l`) under `StaticSide`: every contact of every vial is
then at or below `T_eq_l` in every column, so the side condition is a consequence of the
invariant and NOTHING is monitored. -/
theorem run_bounds_below_liquidus {ph : Phys} (inp : Inputs ℝ) (kCN : Nat)
    (hwf : Snow.C05.WF inp.oc inp.p.dt)
    (st : Stable ph inp.p inp.nVials inp.oc.stop ph.TeqL)
    (hstat : StaticSide ph inp.p inp.nVials inp.oc.stop)
    (hT0 : inp.oc.start ≤ inp.T0) (hT0hi : inp.T0 ≤ ph.TeqL) (hstart : inp.oc.start ≤ ph.TeqL) :
    ∀ (j : Nat) (sj : State ℝ), (runWith inp kCN).traj[j]? = some sj →
      ∀ (i : Nat) (v : Vial ℝ), sj.vials[i]? = some v →
      (0 ≤ v.sigma ∧ v.sigma < 1) ∧
      (v.sigma ≠ 0 → v.T = ph.curve v.sigma ∧ v.T < ph.TeqL) ∧
      v.T ≤ ph.TeqL ∧ (j = 0 → inp.oc.start ≤ v.T) ∧
      (∀ (j' : Nat) (T : ℝ), j = j' + 1 → (runWith inp kCN).Tshelf[j']? = some T →
        T ≤ v.T ∧ ∀ (j'' : Nat) (T'' : ℝ), j'' ≤ j' → (runWith inp kCN).Tshelf[j'']? = some T'' → T ≤ T'') := by
  intro j sj hj
  have hprof : ∀ (j : Nat) (T : ℝ), (runWith inp kCN).Tshelf[j]? = some T →
      inp.oc.stop ≤ T ∧ T ≤ ph.TeqL := by
    intro j T hT
    have : T ∈ profile inp.oc inp.p.dt := List.mem_of_getElem? hT
    have hb := (Snow.C05.profile_good inp.oc inp.p.dt hwf).2.1 T this
    exact ⟨hb.1, le_trans hb.2 hstart⟩
  refine run_bounds_gen inp kCN ph.TeqL j hwf st hT0 hT0hi hstart ?_ j sj hj (le_refl j)
  intro j' sj' T lo' _ h2 _ h4 h5 h6
  apply sideCond_of_contacts st hstat sj' T lo' h4 h5 (hprof j' T h2).1 h6
  intro i v hv _ _
  refine ⟨(hprof j' T h2).2, fun jn hjn => ?_⟩
  have hi' : i < inp.nVials := by
    rw [← h4]
    by_contra hcon
    have : sj'.vials[i]? = none := Array.getElem?_eq_none (not_lt.mp hcon)
    rw [this] at hv; exact absurd hv (by simp)
  have hjn' : jn < sj'.vials.size := by rw [h4]; exact st.nbr_lt i hi' jn hjn
  have hj' : sj'.vials[jn]? = some sj'.vials[jn] := Array.getElem?_eq_getElem hjn'
  rw [temps_getD sj' jn _ 0 hj']
  exact (h5.bnd jn _ hj').2

/-- **unconditional for thermally uncoupled vials** (`k_int·A = 0`): a vial then exchanges heat
only with shelf and surroundings, which are never warmer than the vial (lower-bound invariant),
so no vial is ever warmed and the side condition is vacuous. -/
theorem run_bounds_uncoupled {ph : Phys} (inp : Inputs ℝ) (kCN : Nat) (hi : ℝ)
    (hwf : Snow.C05.WF inp.oc inp.p.dt)
    (st : Stable ph inp.p inp.nVials inp.oc.stop hi)
    (hk : inp.p.kInt * inp.p.A = 0)
    (hT0 : inp.oc.start ≤ inp.T0) (hT0hi : inp.T0 ≤ hi) (hstart : inp.oc.start ≤ hi) :
    ∀ (j : Nat) (sj : State ℝ), (runWith inp kCN).traj[j]? = some sj →
      ∀ (i : Nat) (v : Vial ℝ), sj.vials[i]? = some v →
      (0 ≤ v.sigma ∧ v.sigma < 1) ∧
      (v.sigma ≠ 0 → v.T = ph.curve v.sigma ∧ v.T < ph.TeqL) ∧
      v.T ≤ hi ∧ (j = 0 → inp.oc.start ≤ v.T) ∧
      (∀ (j' : Nat) (T : ℝ), j = j' + 1 → (runWith inp kCN).Tshelf[j']? = some T →
        T ≤ v.T ∧ ∀ (j'' : Nat) (T'' : ℝ), j'' ≤ j' → (runWith inp kCN).Tshelf[j'']? = some T'' → T ≤ T'') := by
  intro j sj hj
  refine run_bounds_gen inp kCN hi j hwf st hT0 hT0hi hstart ?_ j sj hj (le_refl j)
  intro j' sj' T lo' _ _ _ h4 h5 h6 i v hv _ hq
  exfalso
  have hi' : i < inp.nVials := by
    rw [← h4]
    by_contra hcon
    have : sj'.vials[i]? = none := Array.getElem?_eq_none (not_lt.mp hcon)
    rw [this] at hv; exact absurd hv (by simp)
  have hco := st.coeff i hi'
  rw [heatFlow_eq] at hq
  have hq0 : qPair inp.p (temps sj') i = 0 := by
    unfold qPair
    apply List.sum_eq_zero
    intro x hx
    obtain ⟨jn, _, rfl⟩ := List.mem_map.mp hx
    rw [hk]; ring
  have hTi : (temps sj').getD i 0 = v.T := temps_getD sj' i v 0 hv
  have hle : T - v.T ≤ 0 := by have := (h5.bnd i v hv).1; linarith
  rw [hq0, hTi] at hq
  have e1 := mul_nonpos_of_nonneg_of_nonpos hco.ext hle
  have e2 := mul_nonpos_of_nonneg_of_nonpos hco.shelf hle
  linarith

/-- `(runWith inp kCN).traj` read through `trajList` (the form `TrajAdm` quantifies over) -/
theorem runWith_traj_getElem? (inp : Inputs ℝ) (kCN j : Nat) (sj : State ℝ)
    (h : (trajList inp.p kCN 0 (profile inp.oc inp.p.dt) (init inp))[j]? = some sj) :
    (runWith inp kCN).traj[j]? = some sj := by
  have hr : (runWith inp kCN).traj
      = (trajList inp.p kCN 0 (profile inp.oc inp.p.dt) (init inp)).toArray := by
    simp only [runWith, loop_eq]; simp
  rw [hr]; simpa using h

/-- **the whole-trajectory invariant `TrajAdm` for thermally uncoupled vials — NOTHING monitored**
(every vial of every stored column is liquid without a record, or holds `0 < σ < 1` on the curve
with a recorded nucleation): the side condition is vacuous as in `run_bounds_uncoupled`. This is
the hypothesis of `ice_iff_recorded` and of the C12 accessor theorems. -/
theorem trajAdm_uncoupled {ph : Phys} (inp : Inputs ℝ) (kCN : Nat) (hi : ℝ)
    (hwf : Snow.C05.WF inp.oc inp.p.dt)
    (st : Stable ph inp.p inp.nVials inp.oc.stop hi)
    (hk : inp.p.kInt * inp.p.A = 0)
    (hT0 : inp.oc.start ≤ inp.T0) (hT0hi : inp.T0 ≤ hi) (hstart : inp.oc.start ≤ hi) :
    TrajAdm ph inp.p kCN 0 (profile inp.oc inp.p.dt) (init inp) := by
  intro j sj hj0 i0 v0 hv0
  have hj := runWith_traj_getElem? inp kCN j sj hj0
  refine (run_admissible_gen inp kCN hi j hwf st hT0 hT0hi hstart ?_ j sj hj (le_refl j) i0 v0 hv0).1
  intro j' sj' T lo' _ _ _ h4 h5 h6 i v hv _ hq
  exfalso
  have hi' : i < inp.nVials := by
    rw [← h4]
    by_contra hcon
    have : sj'.vials[i]? = none := Array.getElem?_eq_none (not_lt.mp hcon)
    rw [this] at hv; exact absurd hv (by simp)
  have hco := st.coeff i hi'
  rw [heatFlow_eq] at hq
  have hq0 : qPair inp.p (temps sj') i = 0 := by
    unfold qPair
    apply List.sum_eq_zero
    intro x hx
    obtain ⟨jn, _, rfl⟩ := List.mem_map.mp hx
    rw [hk]; ring
  have hTi : (temps sj').getD i 0 = v.T := temps_getD sj' i v 0 hv
  have hle : T - v.T ≤ 0 := by have := (h5.bnd i v hv).1; linarith
  rw [hq0, hTi] at hq
  have e1 := mul_nonpos_of_nonneg_of_nonpos hco.ext hle
  have e2 := mul_nonpos_of_nonneg_of_nonpos hco.shelf hle
  linarith

/-- **`TrajAdm` for a process that starts at or below the liquidus — NOTHING monitored**
(`Stable` with `hi = T_eq_l` and the static inequality `StaticSide`), as in
`run_bounds_below_liquidus`. -/
theorem trajAdm_below_liquidus {ph : Phys} (inp : Inputs ℝ) (kCN : Nat)
    (hwf : Snow.C05.WF inp.oc inp.p.dt)
    (st : Stable ph inp.p inp.nVials inp.oc.stop ph.TeqL)
    (hstat : StaticSide ph inp.p inp.nVials inp.oc.stop)
    (hT0 : inp.oc.start ≤ inp.T0) (hT0hi : inp.T0 ≤ ph.TeqL) (hstart : inp.oc.start ≤ ph.TeqL) :
    TrajAdm ph inp.p kCN 0 (profile inp.oc inp.p.dt) (init inp) := by
  intro j sj hj0 i0 v0 hv0
  have hj := runWith_traj_getElem? inp kCN j sj hj0
  have hprof : ∀ (j : Nat) (T : ℝ), (runWith inp kCN).Tshelf[j]? = some T →
      inp.oc.stop ≤ T ∧ T ≤ ph.TeqL := by
    intro j T hT
    have : T ∈ profile inp.oc inp.p.dt := List.mem_of_getElem? hT
    have hb := (Snow.C05.profile_good inp.oc inp.p.dt hwf).2.1 T this
    exact ⟨hb.1, le_trans hb.2 hstart⟩
  refine (run_admissible_gen inp kCN ph.TeqL j hwf st hT0 hT0hi hstart ?_ j sj hj (le_refl j) i0 v0 hv0).1
  intro j' sj' T lo' _ h2 _ h4 h5 h6
  apply sideCond_of_contacts st hstat sj' T lo' h4 h5 (hprof j' T h2).1 h6
  intro i v hv _ _
  refine ⟨(hprof j' T h2).2, fun jn hjn => ?_⟩
  have hi' : i < inp.nVials := by
    rw [← h4]
    by_contra hcon
    have : sj'.vials[i]? = none := Array.getElem?_eq_none (not_lt.mp hcon)
    rw [this] at hv; exact absurd hv (by simp)
  have hjn' : jn < sj'.vials.size := by rw [h4]; exact st.nbr_lt i hi' jn hjn
  have hj' : sj'.vials[jn]? = some sj'.vials[jn] := Array.getElem?_eq_getElem hjn'
  rw [temps_getD sj' jn _ 0 hj']
  exact (h5.bnd jn _ hj').2

/-- **ice exactly from the recorded nucleation onwards, uncoupled vials — NOTHING monitored**:
`ice_iff_recorded` with its hypothesis discharged by `trajAdm_uncoupled`. -/
theorem ice_iff_recorded_uncoupled {ph : Phys} (inp : Inputs ℝ) (kCN : Nat) (hi : ℝ)
    (hwf : Snow.C05.WF inp.oc inp.p.dt)
    (st : Stable ph inp.p inp.nVials inp.oc.stop hi)
    (hk : inp.p.kInt * inp.p.A = 0)
    (hT0 : inp.oc.start ≤ inp.T0) (hT0hi : inp.T0 ≤ hi) (hstart : inp.oc.start ≤ hi)
    (j : Nat) (sj : State ℝ) (hj : (runWith inp kCN).traj[j]? = some sj) (i : Nat) (v : Vial ℝ)
    (hv : sj.vials[i]? = some v) :
    ∃ vf, (runWith inp kCN).final.vials[i]? = some vf ∧
      (v.sigma ≠ 0 ↔ ∃ t, vf.tNuc = some t ∧ t ≤ timeAt inp.p.dt j) :=
  ice_iff_recorded inp kCN st.dt_pos (trajAdm_uncoupled inp kCN hi hwf st hk hT0 hT0hi hstart) j sj hj i v hv

/-- the same for a process that starts at or below the liquidus — NOTHING monitored -/
theorem ice_iff_recorded_below_liquidus {ph : Phys} (inp : Inputs ℝ) (kCN : Nat)
    (hwf : Snow.C05.WF inp.oc inp.p.dt)
    (st : Stable ph inp.p inp.nVials inp.oc.stop ph.TeqL)
    (hstat : StaticSide ph inp.p inp.nVials inp.oc.stop)
    (hT0 : inp.oc.start ≤ inp.T0) (hT0hi : inp.T0 ≤ ph.TeqL) (hstart : inp.oc.start ≤ ph.TeqL)
    (j : Nat) (sj : State ℝ) (hj : (runWith inp kCN).traj[j]? = some sj) (i : Nat) (v : Vial ℝ)
    (hv : sj.vials[i]? = some v) :
    ∃ vf, (runWith inp kCN).final.vials[i]? = some vf ∧
      (v.sigma ≠ 0 ↔ ∃ t, vf.tNuc = some t ∧ t ≤ timeAt inp.p.dt j) :=
  ice_iff_recorded inp kCN st.dt_pos (trajAdm_below_liquidus inp kCN hwf st hstat hT0 hT0hi hstart) j sj hj i v hv

/-! ### the all-liquid phase: every vial is cooling -/

/-- the liquid update of vial `i` as a function of the temperature vector and the shelf
(= surroundings) temperature -/
noncomputable def liqUpd (p : Params ℝ) (T : Array ℝ) (S : ℝ) (i : Nat) : ℝ :=
  liquidTemp p.c p.dt (heatFlow p T S S i) (T.getD i 0)

theorem qPair_diff (p : Params ℝ) (T T' : Array ℝ) (i : Nat) :
    qPair p T' i - qPair p T i =
      ((p.nbrs.getD i []).map fun j => p.kInt * p.A * (T'.getD j 0 - T.getD j 0)).sum
        - ((p.nbrs.getD i []).length : ℝ) * (p.kInt * p.A) * (T'.getD i 0 - T.getD i 0) := by
  unfold qPair
  generalize p.nbrs.getD i [] = nb
  induction nb with
  | nil => simp
  | cons a t ih =>
    simp only [List.map_cons, List.sum_cons, List.length_cons] at ih ⊢
    push_cast
    linarith

/-- **the liquid update is monotone** in the temperature vector and in the shelf temperature
(inside the stable range the update matrix is entrywise non-negative) -/
theorem liqUpd_mono {ph : Phys} {p : Params ℝ} {n : Nat} {lo0 hi : ℝ} (st : Stable ph p n lo0 hi)
    (i : Nat) (hi' : i < n) (T T' : Array ℝ) (S S' : ℝ)
    (hT : ∀ j, T.getD j 0 ≤ T'.getD j 0) (hS : S ≤ S') : liqUpd p T S i ≤ liqUpd p T' S' i := by
  have hv := st.valid
  have hco := st.coeff i hi'
  have hH := Hsum_nonneg p i hco
  have hhl : 0 < ph.m * ph.cpl := mul_pos hv.m_pos hv.cpl_pos
  have hcfl : p.dt * Hsum p i ≤ ph.m * ph.cpl := by
    have h1 := st.cfl i hi'
    have h2 : ph.m * cpMin ph ≤ ph.m * ph.cpl :=
      mul_le_mul_of_nonneg_left (min_le_left _ _) (le_of_lt hv.m_pos)
    have h3 : 0 ≤ p.dt * Hsum p i := mul_nonneg (le_of_lt st.dt_pos) hH
    linarith
  have hsum : 0 ≤ ((p.nbrs.getD i []).map fun j => p.kInt * p.A * (T'.getD j 0 - T.getD j 0)).sum := by
    apply List.sum_nonneg
    intro x hx
    obtain ⟨j, _, rfl⟩ := List.mem_map.mp hx
    exact mul_nonneg hco.int (sub_nonneg.mpr (hT j))
  have hd : heatFlow p T' S' S' i - heatFlow p T S S i =
      ((p.nbrs.getD i []).map fun j => p.kInt * p.A * (T'.getD j 0 - T.getD j 0)).sum
      + ((p.ext.getD i 0 : ℝ) * p.kExt * p.A + p.kShelf.getD i 0 * p.A) * (S' - S)
      - Hsum p i * (T'.getD i 0 - T.getD i 0) := by
    rw [heatFlow_eq, heatFlow_eq]
    have := qPair_diff p T T' i
    unfold Hsum
    linarith
  have hc : p.c.hl = ph.m * ph.cpl := by rw [st.consts]; rfl
  unfold liqUpd liquidTemp
  rw [hc]
  have e : ∀ (q x : ℝ), x + q / (ph.m * ph.cpl) * p.dt = (ph.m * ph.cpl * x + q * p.dt) / (ph.m * ph.cpl) := by
    intro q x
    have hne : ph.m * ph.cpl ≠ 0 := ne_of_gt hhl
    rw [eq_div_iff hne]
    have : q / (ph.m * ph.cpl) * p.dt * (ph.m * ph.cpl) = q * p.dt := by
      rw [div_mul_eq_mul_div, div_mul_eq_mul_div, mul_div_assoc, div_self hne, mul_one]
    linarith
  rw [e, e, div_le_div_iff_of_pos_right hhl]
  have hTi := hT i
  have hes : 0 ≤ ((p.ext.getD i 0 : ℝ) * p.kExt * p.A + p.kShelf.getD i 0 * p.A) * (S' - S) :=
    mul_nonneg (add_nonneg hco.ext hco.shelf) (sub_nonneg.mpr hS)
  have hdt := st.dt_pos
  have key : 0 ≤ (ph.m * ph.cpl - p.dt * Hsum p i) * (T'.getD i 0 - T.getD i 0) :=
    mul_nonneg (sub_nonneg.mpr hcfl) (sub_nonneg.mpr hTi)
  nlinarith [mul_nonneg (le_of_lt hdt) hsum, mul_nonneg (le_of_lt hdt) hes]

/-- a nucleation jump of a supercooled vial forms ice: `σ > 0` -/
theorem sigmaJump_pos (ph : Phys) (hv : ph.Valid) (ii : InitIce) (Tn : ℝ) (hT : Tn < ph.TeqL) :
    0 < sigmaJump ii ph.consts Tn := by
  cases ii with
  | direct => exact (sigmaDirect_spec ph hv Tn hT).1.2.1
  | indirect =>
    have hs : sigmaIndirect ph.consts Tn = (ph.TeqL - Tn) / (ph.D + ph.lam / ph.cpl * (1 - ph.w_s)) :=
      sigmaIndirect_spec ph hv Tn
    show 0 < sigmaIndirect ph.consts Tn
    rw [hs]
    have hD := hv.D_pos; have hl := hv.lam_pos; have hc := hv.cpl_pos
    have hw : 0 < 1 - ph.w_s := by have := hv.w_lt; linarith
    apply div_pos (by linarith)
    positivity

/-- a step between two ice-free states is the liquid update of every vial -/
theorem liquid_step_temps {ph : Phys} {p : Params ℝ} {n : Nat} {lo0 hi : ℝ} (st : Stable ph p n lo0 hi)
    (kCN k : Nat) (T : ℝ) (s : State ℝ)
    (h0 : ∀ (i : Nat) (v : Vial ℝ), s.vials[i]? = some v → v.sigma = 0)
    (h1 : ∀ (i : Nat) (v : Vial ℝ), (step p kCN k T s).vials[i]? = some v → v.sigma = 0)
    (i : Nat) (v : Vial ℝ) (hv : s.vials[i]? = some v) :
    (temps (step p kCN k T s)).getD i 0 = liqUpd p (temps s) T i := by
  have hv' := step_getElem? p kCN k T s i v hv
  rw [temps_getD _ i _ 0 hv']
  have hσ : v.sigma = 0 := h0 i v hv
  have hs' := h1 i _ hv'
  have hTi : (temps s).getD i 0 = v.T := temps_getD s i v 0 hv
  simp only [vialStep, zero_real] at hs' ⊢
  rcases vialStep_cases p (timeAt p.dt k) (k == kCN) (anySolid s) v (heatFlow p (temps s) T T i)
      (p.kb.getD i 0) ((diceOf p k T s).getD i 0) with h | h | h
  · rw [h.2.2]; simp only [liqUpd, hTi]
  · exfalso
    obtain ⟨_, _, hc, hv2⟩ := h
    rw [hv2] at hs'
    simp only at hs'
    have hTn : liquidTemp ph.consts p.dt (heatFlow p (temps s) T T i) v.T < ph.TeqL := by
      have := of_decide_eq_true hc
      rw [st.consts] at this; exact this
    have := sigmaJump_pos ph st.valid p.initIce _ hTn
    rw [st.consts] at hs'
    linarith
  · exfalso
    have : isLiquid v = true := by simp [isLiquid_real, hσ]
    rw [this] at h; exact absurd h.1 (by simp)

theorem temps_size (s : State ℝ) : (temps s).size = s.vials.size := by simp [temps]

/-- along an ice-free prefix of a trajectory with a non-increasing shelf profile, the liquid
update of every vial stays at or below its current temperature -/
theorem traj_cooling {ph : Phys} {p : Params ℝ} {n : Nat} {lo0 hi : ℝ} (st : Stable ph p n lo0 hi)
    (kCN : Nat) (l : List ℝ) (hchain : l.IsChain (fun a b => b ≤ a)) (k : Nat) (s : State ℝ)
    (hs : s.vials.size = n) (J : Nat)
    (hliq : ∀ (j : Nat) (sj : State ℝ), (trajList p kCN k l s)[j]? = some sj → j < J →
      ∀ (i : Nat) (v : Vial ℝ), sj.vials[i]? = some v → v.sigma = 0)
    (hD : ∀ T ∈ l.head?, ∀ i, i < n → liqUpd p (temps s) T i ≤ (temps s).getD i 0) :
    ∀ (j : Nat) (sj : State ℝ) (T : ℝ), (trajList p kCN k l s)[j]? = some sj → l[j]? = some T → j < J →
      ∀ i, i < n → liqUpd p (temps sj) T i ≤ (temps sj).getD i 0 := by
  induction l generalizing k s J with
  | nil => intro j sj T h; simp [trajList] at h
  | cons T0 r ih =>
    intro j sj T hj hT hjJ
    cases j with
    | zero =>
      simp only [trajList, List.getElem?_cons_zero, Option.some.injEq] at hj hT
      subst hj; subst hT
      exact hD T0 (by simp)
    | succ j' =>
      simp only [trajList, List.getElem?_cons_succ] at hj hT
      have hsize : (step p kCN k T0 s).vials.size = n := by simp [step, hs]
      have hl0 := hliq 0 s (by simp [trajList]) (by omega)
      have hchain' : r.IsChain (fun a b => b ≤ a) := by
        cases r with
        | nil => exact List.isChain_nil
        | cons a t => exact (List.isChain_cons_cons.mp hchain).2
      have hliq' : ∀ (j : Nat) (sj : State ℝ), (trajList p kCN (k + 1) r (step p kCN k T0 s))[j]? = some sj →
          j < J - 1 → ∀ (i : Nat) (v : Vial ℝ), sj.vials[i]? = some v → v.sigma = 0 := by
        intro j sj h1 h2
        exact hliq (j + 1) sj (by simpa [trajList] using h1) (by omega)
      refine ih hchain' (k + 1) (step p kCN k T0 s) hsize (J - 1) hliq' ?_ j' sj T hj hT (by omega)
      intro T1 hT1 i hi'
      -- the next state is ice-free as well (it is column 1 and 1 ≤ j'+1 < J)
      cases r with
      | nil => simp at hT1
      | cons a t =>
        simp only [List.head?_cons, Option.mem_def, Option.some.injEq] at hT1
        subst hT1
        have hT10 : a ≤ T0 := (List.isChain_cons_cons.mp hchain).1
        have hl1 := hliq' 0 (step p kCN k T0 s) (by simp [trajList]) (by omega)
        have hstep : ∀ (i : Nat), i < n → (temps (step p kCN k T0 s)).getD i 0 = liqUpd p (temps s) T0 i := by
          intro i hi
          have hv : s.vials[i]? = some s.vials[i] := Array.getElem?_eq_getElem (by omega)
          exact liquid_step_temps st kCN k T0 s hl0 hl1 i _ hv
        have hle : ∀ j, (temps (step p kCN k T0 s)).getD j 0 ≤ (temps s).getD j 0 := by
          intro j
          by_cases hj : j < n
          · rw [hstep j hj]; exact hD T0 (by simp) j hj
          · have e1 : (temps (step p kCN k T0 s)).getD j 0 = 0 := by
              simp [Array.getD_eq_getD_getElem?, temps_size, hsize, Array.getElem?_eq_none (by rw [temps_size, hsize]; omega : (temps (step p kCN k T0 s)).size ≤ j)]
            have e2 : (temps s).getD j 0 = 0 := by
              simp [Array.getD_eq_getD_getElem?, Array.getElem?_eq_none (by rw [temps_size, hs]; omega : (temps s).size ≤ j)]
            rw [e1, e2]
        calc liqUpd p (temps (step p kCN k T0 s)) a i ≤ liqUpd p (temps s) T0 i :=
              liqUpd_mono st i hi' _ _ a T0 hle hT10
          _ = (temps (step p kCN k T0 s)).getD i 0 := (hstep i hi').symm

/-- **in the all-liquid phase every vial is cooling**: for a run with uniform `T_k_0` not below
the shelf start, a non-rising shelf profile (C05) and the stable range, in every step whose
source column and all earlier columns contain no ice, the net heat flow of EVERY vial is `≤ 0`
(no vial is warmed), and its temperature does not rise in that step if it stays liquid. -/
theorem allLiquid_monotone {ph : Phys} (inp : Inputs ℝ) (kCN : Nat) (hi : ℝ) (J : Nat)
    (hwf : Snow.C05.WF inp.oc inp.p.dt)
    (st : Stable ph inp.p inp.nVials inp.oc.stop hi)
    (hT0 : inp.oc.start ≤ inp.T0)
    (hliq : ∀ (j : Nat) (sj : State ℝ), (runWith inp kCN).traj[j]? = some sj → j < J →
      ∀ (i : Nat) (v : Vial ℝ), sj.vials[i]? = some v → v.sigma = 0) :
    ∀ (j : Nat) (sj : State ℝ) (T : ℝ), (runWith inp kCN).traj[j]? = some sj →
      (runWith inp kCN).Tshelf[j]? = some T → j < J → ∀ i, i < inp.nVials →
      heatFlow inp.p (temps sj) T T i ≤ 0 ∧ liqUpd inp.p (temps sj) T i ≤ (temps sj).getD i 0 := by
  have hr : runWith inp kCN = ⟨nTimeSteps inp, timeVec (nTimeSteps inp) inp.p.dt, kCN,
      profile inp.oc inp.p.dt,
      (trajList inp.p kCN 0 (profile inp.oc inp.p.dt) (init inp)).toArray,
      finalState inp.p kCN 0 (profile inp.oc inp.p.dt) (init inp)⟩ := by
    simp only [runWith, loop_eq]
    simp
  rw [hr] at hliq ⊢
  simp only [List.getElem?_toArray] at hliq ⊢
  have hgood := Snow.C05.profile_good inp.oc inp.p.dt hwf
  have hchain : (profile inp.oc inp.p.dt).IsChain (fun a b => b ≤ a) :=
    hgood.1.imp (fun _ _ h => h.1)
  have hsz : (init inp).vials.size = inp.nVials := by simp [init]
  have hv := st.valid
  have hhl : 0 < ph.m * ph.cpl := mul_pos hv.m_pos hv.cpl_pos
  have hc : inp.p.c.hl = ph.m * ph.cpl := by rw [st.consts]; rfl
  -- q ≤ 0 from "update ≤ current"
  have hq_of : ∀ (Ts : Array ℝ) (T : ℝ) (i : Nat), liqUpd inp.p Ts T i ≤ Ts.getD i 0 →
      heatFlow inp.p Ts T T i ≤ 0 := by
    intro Ts T i h
    unfold liqUpd liquidTemp at h
    rw [hc] at h
    have h2 : heatFlow inp.p Ts T T i / (ph.m * ph.cpl) * inp.p.dt ≤ 0 := by linarith
    by_contra hcon
    have hpos : 0 < heatFlow inp.p Ts T T i := not_le.mp hcon
    have : 0 < heatFlow inp.p Ts T T i / (ph.m * ph.cpl) * inp.p.dt :=
      mul_pos (div_pos hpos hhl) st.dt_pos
    linarith
  -- base: uniform initial field
  have hbase : ∀ T ∈ (profile inp.oc inp.p.dt).head?, ∀ i, i < inp.nVials →
      liqUpd inp.p (temps (init inp)) T i ≤ (temps (init inp)).getD i 0 := by
    intro T hT i hi'
    rw [hgood.2.2] at hT
    simp only [Option.mem_def, Option.some.injEq] at hT
    subst hT
    have hT : ∀ j, j < inp.nVials → (temps (init inp)).getD j 0 = inp.T0 := by
      intro j hj
      simp [temps, init, Array.getD_eq_getD_getElem?, hj]
    have hco := st.coeff i hi'
    have hq : heatFlow inp.p (temps (init inp)) inp.oc.start inp.oc.start i ≤ 0 := by
      rw [heatFlow_eq]
      have hq0 : qPair inp.p (temps (init inp)) i = 0 := by
        unfold qPair
        apply List.sum_eq_zero
        intro x hx
        obtain ⟨jn, hjn, rfl⟩ := List.mem_map.mp hx
        rw [hT jn (st.nbr_lt i hi' jn hjn), hT i hi']; ring
      rw [hq0, hT i hi']
      have hle : inp.oc.start - inp.T0 ≤ 0 := by linarith
      have e1 := mul_nonpos_of_nonneg_of_nonpos hco.ext hle
      have e2 := mul_nonpos_of_nonneg_of_nonpos hco.shelf hle
      linarith
    unfold liqUpd liquidTemp
    rw [hc]
    have : heatFlow inp.p (temps (init inp)) inp.oc.start inp.oc.start i / (ph.m * ph.cpl) * inp.p.dt ≤ 0 :=
      mul_nonpos_of_nonpos_of_nonneg (div_nonpos_of_nonpos_of_nonneg hq (le_of_lt hhl)) (le_of_lt st.dt_pos)
    linarith
  intro j sj T hj hT hjJ i hi'
  have := traj_cooling st kCN _ hchain 0 (init inp) hsz J hliq hbase j sj T hj hT hjJ i hi'
  exact ⟨hq_of _ _ _ this, this⟩

/-! ### non-vacuity on a run WITH ice (`Lemmas/FlakeExRun.lean`) -/

section exrun
open Snow.FlakeExRun

theorem x_stable : Stable xPhys xParams 1 (-5) (-1) := by
  have hH : Hsum xParams 0 = 1 / 4 := by simp only [Hsum, xParams]; norm_num
  have hcm : cpMin xPhys = 1 := by unfold cpMin; rw [x_cpl, x_cp]; simp
  refine ⟨xPhys_valid, by simp [xParams], rfl, ?_, ?_, ?_, ?_, ?_, ?_⟩
  · intro i hi
    have : i = 0 := by omega
    subst this
    constructor <;> simp only [xParams] <;> norm_num
  · intro i hi j hj
    have : i = 0 := by omega
    subst this
    simp [xParams] at hj
  · intro i hi
    have : i = 0 := by omega
    subst this
    rw [hH, x_m, hcm]; simp only [xParams]; norm_num
  · intro i hi
    have : i = 0 := by omega
    subst this
    rw [hH, x_m, hcm, x_D]; simp only [xParams, xPhys]; norm_num
  · rw [x_TeqL]
  · rw [x_TeqL, x_gamma]; norm_num

theorem x_wf : Snow.C05.WF xInp.oc xInp.p.dt := by
  refine ⟨by simp [xInp, xParams], by simp [xInp], by simp [xInp], ?_, ?_, ?_⟩
  · simp [xInp, Snow.OpCondLemmas.Desc]
  · simp [xInp, Snow.OpCondLemmas.lastTemp]
  · intro x hx; simp [xInp] at hx

theorem x_heat (v : Vial ℝ) : heatFlow xParams (temps (xS v)) (-5) (-5) 0 = 1 / 4 * (-5 - v.T) := by
  simp [heatFlow, qInt, hExt, hShelf, hDiag, hOff, xParams, temps, xS]

/-- a one-vial state not colder than the shelf is not warmed: the side condition holds -/
theorem x_sideCond (v : Vial ℝ) (hv : -5 ≤ v.T) : SideCond xPhys xParams (xS v) (-5) := by
  intro i v' hv' _ hq
  have hi : i = 0 := by
    by_contra hne
    have : (xS v).vials[i]? = none := Array.getElem?_eq_none (by simp [xS]; omega)
    rw [this] at hv'; exact absurd hv' (by simp)
  subst hi
  rw [x_heat] at hq
  linarith

theorem x_cols (j : Nat) (sj : State ℝ) (hj : (runWith xInp 0).traj[j]? = some sj) :
    (j = 0 ∧ sj = init xInp) ∨ (j = 1 ∧ sj = xS xV1) ∨ (j = 2 ∧ sj = xS xV2) ∨ (j = 3 ∧ sj = xS xV3) := by
  rw [← Array.getElem?_toList, x_traj] at hj
  match j, hj with
  | 0, hj => left; exact ⟨rfl, by simpa using hj.symm⟩
  | 1, hj => right; left; exact ⟨rfl, by simpa using hj.symm⟩
  | 2, hj => right; right; left; exact ⟨rfl, by simpa using hj.symm⟩
  | 3, hj => right; right; right; exact ⟨rfl, by simpa using hj.symm⟩
  | j + 4, hj => simp at hj

theorem x_hside : ∀ (j : Nat) (sj : State ℝ) (T : ℝ), (runWith xInp 0).traj[j]? = some sj →
    (runWith xInp 0).Tshelf[j]? = some T → SideCond xPhys xInp.p sj T := by
  intro j sj T hj hT
  have hT5 : T = -5 := by
    rw [x_Tshelf] at hT
    match j, hT with
    | 0, hT | 1, hT | 2, hT | 3, hT => simpa using hT.symm
    | j + 4, hT => simp at hT
  subst hT5
  rcases x_cols j sj hj with ⟨_, rfl⟩ | ⟨_, rfl⟩ | ⟨_, rfl⟩ | ⟨_, rfl⟩
  · apply sideCond_of_liquid
    intro i v hv
    simp only [init, Array.getElem?_replicate] at hv
    split at hv
    · simp only [Option.some.injEq] at hv; rw [← hv]; simp
    · simp at hv
  · exact x_sideCond xV1 (by simp [xV1]; norm_num)
  · exact x_sideCond xV2 (by simp [xV2]; norm_num)
  · exact x_sideCond xV3 (by simp [xV3]; norm_num)

/-- **the run theorems applied to a run WITH ice.** For the concrete run `xInp` (one vial, shelf
held at −5 °C, controlled nucleation at step 0; the vial nucleates with σ = 1/2 and keeps
solidifying: σ = 19/32, 8933/13600) all hypotheses hold — `C05.WF`, `Stable`, the temperature
ordering, `SideCond` at every step, `TrajAdm` — and `run_admissible_partial`,
`run_bounds_partial`, `ice_iff_recorded` are each applied to a column that contains ice
(`run_trichotomy_partial`: `C01.nonvacuous_run`). -/
theorem nonvacuous_run :
    Snow.C05.WF xInp.oc xInp.p.dt ∧ Stable xPhys xInp.p xInp.nVials xInp.oc.stop (-1) ∧
    (∀ (j : Nat) (sj : State ℝ) (T : ℝ), (runWith xInp 0).traj[j]? = some sj →
      (runWith xInp 0).Tshelf[j]? = some T → SideCond xPhys xInp.p sj T) ∧
    TrajAdm xPhys xInp.p 0 0 (profile xInp.oc xInp.p.dt) (init xInp) ∧
    (runWith xInp 0).traj.toList = [init xInp, xS xV1, xS xV2, xS xV3] ∧
    -- run_admissible_partial at column 2
    Adm xPhys xV2 ∧
    -- run_bounds_partial at column 3: on the curve, below T_eq_l, not colder than the shelf
    (xV3.T = xPhys.curve xV3.sigma ∧ xV3.T < xPhys.TeqL ∧ (-5 : ℝ) ≤ xV3.T) ∧
    -- ice_iff_recorded at column 2: ice, and the final statistics hold t_nuc ≤ t[2]
    (∃ vf, (runWith xInp 0).final.vials[0]? = some vf ∧
      (xV2.sigma ≠ 0 ↔ ∃ t, vf.tNuc = some t ∧ t ≤ timeAt xInp.p.dt 2)) := by
  have hst : Stable xPhys xInp.p xInp.nVials xInp.oc.stop (-1) := x_stable
  have h0 : xInp.oc.start ≤ xInp.T0 := by simp only [xInp]; norm_num
  have h1 : xInp.T0 ≤ -1 := by simp only [xInp]; norm_num
  have h2 : xInp.oc.start ≤ -1 := by simp [xInp]
  have hc2 : (runWith xInp 0).traj[2]? = some (xS xV2) := by
    rw [← Array.getElem?_toList, x_traj]; rfl
  have hc3 : (runWith xInp 0).traj[3]? = some (xS xV3) := by
    rw [← Array.getElem?_toList, x_traj]; rfl
  have hv2 : (xS xV2).vials[0]? = some xV2 := by simp [xS]
  have hv3 : (xS xV3).vials[0]? = some xV3 := by simp [xS]
  have hadm : TrajAdm xPhys xInp.p 0 0 (profile xInp.oc xInp.p.dt) (init xInp) := by
    intro j sj hj i v hv
    have hj' : (runWith xInp 0).traj[j]? = some sj := by
      rw [← Array.getElem?_toList, Snow.FlakeRun.runWith_traj]; exact hj
    exact (run_admissible_partial xInp 0 (-1) x_wf hst h0 h1 h2 x_hside j sj hj' i v hv).1
  have hA := (run_admissible_partial xInp 0 (-1) x_wf hst h0 h1 h2 x_hside 2 _ hc2 0 xV2 hv2).1
  have hB := run_bounds_partial xInp 0 (-1) x_wf hst h0 h1 h2 x_hside 3 _ hc3 0 xV3 hv3
  have hσ3 : xV3.sigma ≠ 0 := by simp [xV3]
  have hlow := (hB.2.2.2.2 2 (-5) rfl (by rw [x_Tshelf]; rfl)).1
  have hI := ice_iff_recorded xInp 0 hst.dt_pos hadm 2 _ hc2 0 xV2 hv2
  exact ⟨x_wf, hst, x_hside, hadm, x_traj, hA, ⟨(hB.2.1 hσ3).1, (hB.2.1 hσ3).2, hlow⟩, hI⟩

/-- **`StaticSide` is inhabited**: the run `xInp` satisfies the static inequality, and
`run_bounds_contacts_partial` applies to it (its `ContactsBelow` hypothesis is vacuous there: the
single vial is never warmed). -/
theorem x_staticSide : StaticSide xPhys xInp.p xInp.nVials xInp.oc.stop := by
  intro i hi
  have : i = 0 := by simp [xInp] at hi; omega
  subst this
  have hH : Hsum xInp.p 0 = 1 / 4 := by simp only [Hsum, xInp, xParams]; norm_num
  rw [hH, x_m]; simp only [xInp, xParams, xPhys]; norm_num

/-- a COUPLED two-vial batch of the dyadic solution, shelf at −5 °C, process starting above the
liquidus (`hi = 0 > T_eq_l = −1`): `k_int·A = 1/4`, shelf coefficients `1/32` and `1/16` -/
noncomputable def cParams : Params ℝ where
  c := xPhys.consts
  nbrs := [[1], [0]]
  ext := [0, 0]
  kInt := 1 / 4
  kExt := 0
  kShelf := [1 / 32, 1 / 16]
  A := 1
  kb := [1, 1]
  dt := 1
  threshold := 9 / 10
  initIce := .indirect

/-- both vials contain ice; vial 0 (σ = 1/2, −2 °C) is colder than its neighbour (σ = 1/5, −1.25 °C) -/
noncomputable def cState : State ℝ :=
  ⟨#[{ T := -2, sigma := 1 / 2, tNuc := some 1 }, { T := -5 / 4, sigma := 1 / 5, tNuc := some 2 }], []⟩

theorem c_Hsum (i : Nat) (hi : i < 2) : Hsum cParams i ≤ 5 / 16 ∧ 0 ≤ Hsum cParams i := by
  have : i = 0 ∨ i = 1 := by omega
  rcases this with rfl | rfl <;> simp only [Hsum, cParams] <;> norm_num

theorem c_stable : Stable xPhys cParams 2 (-5) 0 := by
  have hcm : cpMin xPhys = 1 := by unfold cpMin; rw [x_cpl, x_cp]; simp
  refine ⟨xPhys_valid, by simp [cParams], rfl, ?_, ?_, ?_, ?_, ?_, ?_⟩
  · intro i hi
    have : i = 0 ∨ i = 1 := by omega
    rcases this with rfl | rfl <;> constructor <;> simp only [cParams] <;> norm_num
  · intro i hi j hj
    have : i = 0 ∨ i = 1 := by omega
    rcases this with rfl | rfl <;> simp [cParams] at hj <;> omega
  · intro i hi
    obtain ⟨h1, h2⟩ := c_Hsum i hi
    have hdt : cParams.dt = 1 := rfl
    rw [x_m, hcm, hdt]
    generalize Hsum cParams i = H at h1 h2
    linarith
  · intro i hi
    obtain ⟨h1, h2⟩ := c_Hsum i hi
    have hdt : cParams.dt = 1 := rfl
    have hL : xPhys.lam * (1 - xPhys.w_s) = 4 := by simp only [xPhys]; norm_num
    rw [x_m, hcm, x_D, hdt, hL]
    generalize Hsum cParams i = H at h1 h2
    nlinarith
  · rw [x_TeqL]; norm_num
  · rw [x_TeqL, x_gamma]; norm_num

theorem c_static : StaticSide xPhys cParams 2 (-5) := by
  intro i hi
  obtain ⟨h1, h2⟩ := c_Hsum i hi
  have hdt : cParams.dt = 1 := rfl
  have hL : xPhys.lam * (1 - xPhys.w_s) = 4 := by simp only [xPhys]; norm_num
  have hTm : xPhys.T_m = 0 := rfl
  rw [x_m, hdt, hL, hTm]
  generalize Hsum cParams i = H at h1 h2
  linarith

/-- **the monitored regime is inhabited at step level**: in the coupled batch `cParams`, inside
`Stable` (process starting ABOVE the liquidus) and `StaticSide`, the admissible state `cState`
has an ice-containing vial that IS warmed by its neighbour (`q₀ = 3/32 > 0`), all its contacts
are at or below `T_eq_l` (`ContactsBelow`), hence `SideCond` holds (`sideCond_of_contacts`) and
`step_inv` applies: the next state is admissible and within `[−5, 0]`. (Step level: `cState` is
constructed, not reached from a uniform start — the shortest such run found needs 9 steps and
its exact rationals are unmanageable; run-level witness with ice: `nonvacuous_run`.) -/
theorem nonvacuous_coupled_step :
    Stable xPhys cParams 2 (-5) 0 ∧ StaticSide xPhys cParams 2 (-5) ∧ AdmState xPhys (-5) 0 cState ∧
    heatFlow cParams (temps cState) (-5) (-5) 0 = 3 / 32 ∧
    ContactsBelow xPhys cParams cState (-5) ∧ SideCond xPhys cParams cState (-5) ∧
    AdmState xPhys (-5) 0 (stepCN cParams false 7 (-5) cState) := by
  have hq0 : heatFlow cParams (temps cState) (-5) (-5) 0 = 3 / 32 := by
    simp [heatFlow, qInt, hExt, hShelf, hDiag, hOff, cParams, temps, cState]; norm_num
  have hq1 : heatFlow cParams (temps cState) (-5) (-5) 1 < 0 := by
    simp [heatFlow, qInt, hExt, hShelf, hDiag, hOff, cParams, temps, cState]; norm_num
  have hv : ∀ (i : Nat) (v : Vial ℝ), cState.vials[i]? = some v →
      (i = 0 ∧ v = { T := -2, sigma := 1 / 2, tNuc := some 1 }) ∨
      (i = 1 ∧ v = { T := -5 / 4, sigma := 1 / 5, tNuc := some 2 }) := by
    intro i v h
    match i, h with
    | 0, h => left; exact ⟨rfl, by simpa [cState] using h.symm⟩
    | 1, h => right; exact ⟨rfl, by simpa [cState] using h.symm⟩
    | i + 2, h => simp [cState] at h
  have hadm : AdmState xPhys (-5) 0 cState := by
    constructor
    · intro i v h
      rcases hv i v h with ⟨_, rfl⟩ | ⟨_, rfl⟩
      · right; refine ⟨by norm_num, by norm_num, ?_, by simp⟩; rw [x_curve]; norm_num
      · right; refine ⟨by norm_num, by norm_num, ?_, by simp⟩; rw [x_curve]; norm_num
    · intro i v h
      rcases hv i v h with ⟨_, rfl⟩ | ⟨_, rfl⟩ <;> norm_num
  have hc : ContactsBelow xPhys cParams cState (-5) := by
    intro i v h _ hq
    rcases hv i v h with ⟨rfl, _⟩ | ⟨rfl, _⟩
    · refine ⟨by rw [x_TeqL]; norm_num, fun j hj => ?_⟩
      have : j = 1 := by simpa [cParams] using hj
      subst this
      rw [x_TeqL]; simp [temps, cState]; norm_num
    · exact absurd hq (not_lt.mpr (le_of_lt hq1))
  have hside := sideCond_of_contacts c_stable c_static cState (-5) (-5) (by simp [cState]) hadm
    (le_refl _) (le_refl _) hc
  exact ⟨c_stable, c_static, hadm, hq0, hc, hside,
    step_inv c_stable false 7 (-5) (-5) cState (by simp [cState]) hadm (le_refl _) (le_refl _)
      (by norm_num) hside⟩

end exrun

end Snow.C06
