/-
  C10 — Controlled nucleation fires once, at the end of the chosen hold.

  Property theorems only.  Helper lemmas: Lemmas/CNT.lean (trigger time on the 1-second
  profile, trigger step), Lemmas/FlakeRun.lean (states of a run), Props/C03.lean (decision law).
  Models: SnowModel/OpCond.lean (`cntOf (profile oc 1) cn` = `OperatingConditions.cnt`),
  SnowModel/Flake.lean (`kCNof`, `step`, `runWith`), instantiated at ℝ; the prefix theorem holds
  for EVERY numeric instance (also `Float`, bit for bit).
-/
import SnowProofs.Lemmas.CNT
import SnowProofs.Lemmas.FlakeRun
import SnowProofs.Props.C03
import SnowProofs.Lemmas.FlakeCex
import SnowProofs.Props.C04

namespace Snow.C10
open Snow Num List Snow.OpCondLemmas Snow.Flake Snow.FlakeLemmas Snow.FlakeRun

/-! ### the trigger time -/

/-- **the trigger time is the last moment at which the shelf is still at or above `cnTemp`**:
for a well-formed program whose profile reaches `cn` at all (`cn ≤ start`), `cnt` is the
GREATEST second `t` with `T(t) ≥ cn`, and (the profile never rises) the shelf is at or above
`cn` at every second up to `cnt` and below it at every later one. -/
theorem cnt_is_last (oc : OpCond ℝ) (cn : ℝ) (h : C05.WF oc 1) (hcn : cn ≤ oc.start) :
    ∃ hc : cntOf (profile oc 1) cn < (profile oc 1).length,
      cn ≤ (profile oc 1)[cntOf (profile oc 1) cn] ∧
      (∀ j (hj : j ≤ cntOf (profile oc 1) cn), cn ≤ (profile oc 1)[j]) ∧
      (∀ j (hj : j < (profile oc 1).length), cntOf (profile oc 1) cn < j → (profile oc 1)[j] < cn) :=
  CNT.cnt_is_last_of_le_start oc cn h hcn

/-- the other branch of the code, stated explicitly: if NO sample reaches `cn` (`cn` above the
start temperature) numpy's `argmax` of an all-False array is 0 and the code returns the LAST
second `len − 1`; the same value results for `cn` at or below the end temperature. -/
theorem cnt_no_sample (oc : OpCond ℝ) (cn : ℝ) (h : C05.WF oc 1) :
    (oc.start < cn → cntOf (profile oc 1) cn = nSteps oc.t_tot 1 - 1) ∧
    (cn ≤ oc.stop → cntOf (profile oc 1) cn = nSteps oc.t_tot 1 - 1) :=
  ⟨CNT.cnt_above_start oc cn h, CNT.cnt_below_stop oc cn h⟩

/-- **the end of the hold, or the ramp crossing, to within one second per program segment**.
Split the hold list (with the final plateau) as `pre ++ p :: rest` such that `cn` lies on the
plateau that ends `pre` or on the ramp after it: `p.temp < cn ≤ Ts'` (`Ts'` = temperature of the
last hold of `pre`, the start temperature if `pre = []`).  `E = contEnd pre + (Ts' − cn)/rate` is
the continuous time at which the program leaves `cn`: the END OF THE HOLD at `cn` when
`cn = Ts'`, else the RAMP CROSSING.  If the trigger lies within the process then
`cnt = M + ⌊(Ts'−cn)/rate⌋` (`M` samples of the completed segments) and
`|cnt − E| < 2·|pre| + 1` = the number of program segments (ramps and holds) passed. -/
theorem cnt_end_of_hold (oc : OpCond ℝ) (cn : ℝ) (h : C05.WF oc 1) (pre : List (Hold ℝ)) (p : Hold ℝ)
    (rest : List (Hold ℝ)) (hsplit : allHolds oc = pre ++ p :: rest) (hdur : ∀ a ∈ pre, 0 ≤ a.duration)
    (hlo : p.temp < cn) (hhi : cn ≤ lastTemp oc.start pre)
    (hin : (segments oc.rate 1 oc.start pre).length + ⌊(lastTemp oc.start pre - cn) / oc.rate⌋₊
        < nSteps oc.t_tot 1) :
    let x := (lastTemp oc.start pre - cn) / oc.rate
    let M := (segments oc.rate 1 oc.start pre).length
    let E := CNT.contEnd oc.rate oc.start pre + x
    let cnt := cntOf (profile oc 1) cn
    cnt = M + ⌊x⌋₊ ∧
    E - pre.length - 1 < (cnt : ℝ) ∧ (cnt : ℝ) ≤ E + 2 * pre.length ∧
    |(cnt : ℝ) - E| < 2 * pre.length + 1 := by
  have := CNT.cnt_end_of_hold oc cn h pre p rest hsplit hdur hlo hhi hin
  exact ⟨this.1, this.2.1, this.2.2.1, this.2.2.2.2⟩

/-- the hold case, sharper: `cn` IS the temperature of the last hold of `pre ≠ []`; then `cnt` is
within `2·|pre|` (= number of program segments up to the end of that hold) seconds of the
continuous end `E` of the hold: `E − |pre| < cnt < E + 2·|pre|`. -/
theorem cnt_end_of_hold_exact (oc : OpCond ℝ) (cn : ℝ) (h : C05.WF oc 1) (pre : List (Hold ℝ)) (p : Hold ℝ)
    (rest : List (Hold ℝ)) (hsplit : allHolds oc = pre ++ p :: rest) (hpre : pre ≠ [])
    (hdur : ∀ a ∈ pre, 0 ≤ a.duration) (hlo : p.temp < cn) (hcn : cn = lastTemp oc.start pre)
    (hin : (segments oc.rate 1 oc.start pre).length < nSteps oc.t_tot 1) :
    let E := CNT.contEnd oc.rate oc.start pre
    let cnt := cntOf (profile oc 1) cn
    cnt = (segments oc.rate 1 oc.start pre).length ∧
    E - pre.length < (cnt : ℝ) ∧ (cnt : ℝ) < E + 2 * pre.length ∧ |(cnt : ℝ) - E| < 2 * pre.length :=
  CNT.cnt_end_of_hold_exact oc cn h pre p rest hsplit hpre hdur hlo hcn hin

/-- **for EVERY trigger temperature of the property's range**: for a well-formed program with
non-negative hold durations and every `cn` with `end < cn ≤ start`, the split used above EXISTS
(`pre` = the program's holds at or above `cn`), so `cnt_end_of_hold` applies: whenever the trigger lies
within the process (`hin`, kept explicit: otherwise the profile is cut by `t_tot` and `cnt` is the last
second, `cnt_no_sample`), `cnt` is within one second per program segment of the end of the hold at
`cn` / of the ramp crossing. -/
theorem cnt_end_of_hold_all (oc : OpCond ℝ) (cn : ℝ) (h : C05.WF oc 1) (hdur : ∀ a ∈ oc.holds, 0 ≤ a.duration)
    (hlo : oc.stop < cn) (hhi : cn ≤ oc.start) :
    ∃ (pre : List (Hold ℝ)) (p : Hold ℝ) (rest : List (Hold ℝ)),
      allHolds oc = pre ++ p :: rest ∧ p.temp < cn ∧ cn ≤ lastTemp oc.start pre ∧
      ((segments oc.rate 1 oc.start pre).length + ⌊(lastTemp oc.start pre - cn) / oc.rate⌋₊ < nSteps oc.t_tot 1 →
        let x := (lastTemp oc.start pre - cn) / oc.rate
        let E := CNT.contEnd oc.rate oc.start pre + x
        let cnt := cntOf (profile oc 1) cn
        cnt = (segments oc.rate 1 oc.start pre).length + ⌊x⌋₊ ∧
        |(cnt : ℝ) - E| < 2 * pre.length + 1) := by
  obtain ⟨pre, p, rest, e, hp, hc, hsub⟩ := CNT.exists_split_allHolds oc cn h hlo hhi
  refine ⟨pre, p, rest, e, hp, hc, ?_⟩
  intro hin
  have := cnt_end_of_hold oc cn h pre p rest e (fun a ha => hdur a (hsub a ha)) hp hc hin
  exact ⟨this.1, this.2.2.2⟩

/-- **the first simulation step at or after the trigger time**: `k_CN·dt ≥ cnt`, every earlier
step is before `cnt` (so `(k_CN−1)·dt < cnt`), `k_CN = ⌈cnt/dt⌉`; and if no step of the process
reaches `cnt`, `k_CN = N+1`, an index the loop never takes (controlled nucleation never fires). -/
theorem kCN_first_step (oc : OpCond ℝ) (cn : ℝ) (N : ℕ) (dt : ℝ) (hdt : 0 < dt) :
    let c := cntOf (profile oc 1) cn
    let kc := Flake.kCNof N (Flake.timeVec N dt) (Flake.cntTime oc (some cn))
    ((∃ k < N, (c : ℝ) ≤ (k : ℝ) * dt) →
        kc < N ∧ (c : ℝ) ≤ (kc : ℝ) * dt ∧ (∀ j < kc, (j : ℝ) * dt < c) ∧
        (0 < kc → ((kc : ℝ) - 1) * dt < c) ∧ kc = ⌈(c : ℝ) / dt⌉₊) ∧
    ((∀ k < N, (k : ℝ) * dt < c) → kc = N + 1) :=
  CNT.kCN_first_step oc cn N dt hdt

/-- without `cnTemp` the trigger index is `N + 1`: never reached -/
theorem kCN_none (inp : Inputs ℝ) (h : inp.cnTemp = none) : kCN inp = nTimeSteps inp + 1 := by
  simp [kCN, cntTime, h, kCNof]

/-! ### the run -/

section
variable {α : Type} [Transc α]

/-- **up to the trigger step the run is identical to the run without controlled nucleation**:
two runs of the same inputs with trigger indices `kCN`, `kCN'` have the SAME state — every
vial's temperature, ice fraction and statistics, hence every stored column, AND the remaining
dice stream (the same generator calls have been consumed) — at the start of every step
`j ≤ min kCN kCN'`.  For every numeric instance (also `Float`). -/
theorem cn_prefix_identical (inp : Inputs α) (kCN kCN' j : Nat) (hj : j < nSteps inp.oc.t_tot inp.p.dt)
    (h1 : j ≤ kCN) (h2 : j ≤ kCN') :
    (runWith inp kCN).traj[j]? = (runWith inp kCN').traj[j]? ∧
    ((runWith inp kCN).X inp.mask)[j]? = ((runWith inp kCN').X inp.mask)[j]? := by
  have hl : j < (profile inp.oc inp.p.dt).length := by rw [profile_len]; exact hj
  have hs := states_prefix inp.p kCN kCN' 0 (profile inp.oc inp.p.dt) (init inp) j (by omega)
    (by omega) (by omega)
  have e : ∀ k, (runWith inp k).traj.toList[j]? =
      some ((states inp.p k 0 (profile inp.oc inp.p.dt) (init inp))[j]'(by simp; omega)) := by
    intro k
    rw [runWith_traj]
    have hlen : j < (trajList inp.p k 0 (profile inp.oc inp.p.dt) (init inp)).length := by simpa using hl
    rw [List.getElem?_eq_getElem hlen]
    congr 1
    simp only [states_eq]
    rw [List.getElem_append_left hlen]
  have t1 : (runWith inp kCN).traj[j]? = (runWith inp kCN').traj[j]? := by
    have a := e kCN
    have b := e kCN'
    rw [Array.getElem?_toList] at a b
    rw [a, b, hs]
  refine ⟨t1, ?_⟩
  simp only [Result.X, List.getElem?_map, Array.getElem?_toList, t1]

/-- in particular: the run WITH controlled nucleation and the same run WITHOUT it
(`cnTemp := none`, trigger index `N+1`) agree on every stored column `≤ k_CN`. -/
theorem cn_prefix_identical_run (inp : Inputs α) (j : Nat) (hj : j < nSteps inp.oc.t_tot inp.p.dt)
    (h1 : j ≤ kCN inp) :
    (run inp).traj[j]? = (run { inp with cnTemp := none }).traj[j]? := by
  have hk : kCN { inp with cnTemp := none } = nSteps inp.oc.t_tot inp.p.dt + 1 := by
    simp [kCN, cntTime, kCNof, nTimeSteps]
  have := (cn_prefix_identical inp (kCN inp) (nSteps inp.oc.t_tot inp.p.dt + 1) j hj h1 (by omega)).1
  simp only [run, hk]
  exact this

/-- **no vial is ever forced at any other time**: at every step other than `k_CN` the step of
the run is literally the stochastic step (`isCN = false`; its decision law is C03 `nuc_iff`). -/
theorem cn_only_then (p : Params α) (kCN k : Nat) (Tsh : α) (s : State α) (h : k ≠ kCN) :
    step p kCN k Tsh s = stepCN p false k Tsh s := by
  have : (k == kCN) = false := by simp [h]
  simp [step, this]

end

/-- … and there a vial nucleates only by the stochastic law: its draw is below
`k_v·V·(T_eq_l − T)^b·Δt`. -/
theorem cn_only_then_law (p : Params ℝ) (tk : ℝ) (anyS : Bool) (v : Vial ℝ) (q kb die : ℝ)
    (h : nucleates p false (vialMid p tk anyS v q) kb die = true) :
    v.sigma = 0 ∧ liquidTemp p.c p.dt q v.T < p.c.T_eq_l ∧
      die < C03.rateP p.c p.dt kb (liquidTemp p.c p.dt q v.T) := by
  have := (C03.nuc_iff_vial p tk false anyS v q kb die).mp h
  exact ⟨this.1.1, this.1.2, by simpa using this.2⟩

theorem assignDice_mem (cs : List Bool) (ds : List ℝ) : ∀ x ∈ assignDice cs ds, x = 0 ∨ x ∈ ds := by
  induction cs generalizing ds with
  | nil => intro x hx; simp [assignDice] at hx
  | cons c cs ih =>
    intro x hx
    cases c with
    | false =>
      simp only [assignDice, List.mem_cons, zero_real] at hx
      rcases hx with h | h
      · left; exact h
      · exact ih ds x h
    | true =>
      cases ds with
      | nil =>
        simp only [assignDice, List.mem_cons, zero_real] at hx
        rcases hx with h | h
        · left; exact h
        · exact ih [] x h
      | cons d ds =>
        simp only [assignDice, List.mem_cons] at hx
        rcases hx with h | h
        · right; rw [h]; simp
        · rcases ih ds x h with h' | h'
          · left; exact h'
          · right; simp [h']

/-- **at the trigger step every vial that is still liquid and supercooled nucleates**, whatever
the dice (any values of `[0, 1)`): vial `i` of the batch, liquid at the start of the step
(`σ = 0`) and below `T_eq_l` after the step's sensible update, leaves the step `k = k_CN` with
`t_nucleation = t[k] + dt`, `T_nucleation` = that supercooled temperature and the initial ice
of the selected formulation. -/
theorem cn_all_eligible_fire (p : Params ℝ) (kCN : Nat) (Tsh : ℝ) (s : State ℝ) (i : Nat)
    (hi : i < s.vials.size) (hdice : ∀ x ∈ drawn s, x < 1)
    (hliq : (vAt s i).sigma = 0)
    (hcold : liquidTemp p.c p.dt (heatFlow p (temps s) Tsh Tsh i) (vAt s i).T < p.c.T_eq_l) :
    let v' := vAt (step p kCN kCN Tsh s) i
    let Tn := liquidTemp p.c p.dt (heatFlow p (temps s) Tsh Tsh i) (vAt s i).T
    v'.tNuc = some (timeAt p.dt kCN + p.dt) ∧ v'.TNuc = some Tn ∧
      v'.sigma = sigmaJump p.initIce p.c Tn := by
  intro v' Tn
  have hstep : step p kCN kCN Tsh s = stepCN p true kCN Tsh s := by simp [step]
  have hv : v' = vialStep p true kCN Tsh s i (vAt s i) := by
    simp only [v', hstep]; exact vAt_stepCN p true kCN Tsh s i hi
  have hdie : (diceOf p kCN Tsh s).getD i zero < 1 := by
    unfold diceOf
    by_cases hlt : i < (assignDice (candidates p kCN Tsh s).toList (drawn s)).length
    · have hm := assignDice_mem (candidates p kCN Tsh s).toList (drawn s)
        ((assignDice (candidates p kCN Tsh s).toList (drawn s))[i]) (List.getElem_mem hlt)
      have e : (assignDice (candidates p kCN Tsh s).toList (drawn s)).toArray.getD i zero
          = (assignDice (candidates p kCN Tsh s).toList (drawn s))[i] := by
        simp [Array.getD_eq_getD_getElem?, hlt]
      rw [e]
      rcases hm with h0 | hin
      · rw [h0]; norm_num
      · exact hdice _ hin
    · have e : (assignDice (candidates p kCN Tsh s).toList (drawn s)).toArray.getD i zero = 0 := by
        simp [Array.getD_eq_getD_getElem?, hlt]
      rw [e]; norm_num
  have hn : nucleates p true (vialMid p (timeAt p.dt kCN) (anySolid s) (vAt s i)
      (heatFlow p (temps s) Tsh Tsh i)) (p.kb.getD i zero) ((diceOf p kCN Tsh s).getD i zero) = true := by
    rw [C03.nuc_iff_vial]
    exact ⟨⟨hliq, hcold⟩, by simpa using hdie⟩
  have hliq' : isLiquid (vAt s i) = true := (isLiquid_iff _).mpr hliq
  rw [hv]
  unfold vialStep
  rw [vialFinal, if_pos hn]
  simp [vialMid, hliq', Tn]

/-! ### every repetition of a Snowfall -/

/-- **fires once, at the trigger step, in EVERY repetition of a Snowfall** (any execution mode, any
chunking): by C04 `snowfall_rep_standalone` repetition `i` is the fresh run `Snowflake(seed = i).run()`
of the template — its time loop is `Flake.run` of the inputs determined by configuration and draw
schedule (`inputsOf`, arbitrary) — so it is a run to which the run-level theorems above apply:
it agrees with the same repetition without `cnTemp` on every column `≤ k_CN` and its step at `k ≠ k_CN`
is the stochastic step.  PACKAGING: conjunct 1 is C04's statement composed with `Flake.run ∘ inputsOf`;
conjuncts 2 and 3 are the universally quantified theorems above instantiated at `inp` (they hold for
ANY inputs and do not use `hp`); the map `inputsOf` from the draw schedule to `Inputs.dice` is a
parameter, not modelled. -/
theorem cn_every_repetition {α : Type} [Transc α] (inputsOf : Seeds.Cfg → Seeds.Sched → Inputs α)
    (c : Seeds.Cfg) (nv : Seeds.NV) (chunks : List (List Nat)) (nrep : Nat) (p : Nat × Seeds.Sched)
    (hp : p ∈ Seeds.fallPool Seeds.run c (Seeds.template c nv) chunks ∨
          p ∈ Seeds.fallSeq Seeds.run c (Seeds.template c nv) nrep) :
    let inp := inputsOf c p.2
    ((Seeds.exec c [.new p.1 nv, .run]).scheds.map fun s => Flake.run (inputsOf c s)) = [Flake.run inp] ∧
    (∀ j, j < nSteps inp.oc.t_tot inp.p.dt → j ≤ kCN inp →
      (Flake.run inp).traj[j]? = (Flake.run { inp with cnTemp := none }).traj[j]?) ∧
    (∀ k Tsh s, k ≠ kCN inp → step inp.p (kCN inp) k Tsh s = stepCN inp.p false k Tsh s) := by
  intro inp
  refine ⟨?_, fun j hj hk => cn_prefix_identical_run inp j hj hk, fun k Tsh s hk => cn_only_then inp.p (kCN inp) k Tsh s hk⟩
  exact (C04.snowfall_rep_standalone (fun c s => Flake.run (inputsOf c s)) c nv chunks nrep p hp).2

/-! ### non-vacuity -/

/-- every hypothesis set of the theorems above is satisfiable:
* trigger time: the program `exOc` (start 20, end −20, 1 K/s, hold 10 s at 0 °C, `cnTemp = 0`) is
  well formed, its hold durations are non-negative, `end < cn ≤ start`, the hold ends at `E = 30 s`
  and `cnt = 30` (so `hin` holds: `30 < 101`);
* trigger step (`kCN_first_step`): with `N = 101`, `dt = 2` some step reaches `cnt` (`k = 15`);
* `cn_prefix_identical`: a run with at least one step (`cexInp 2`, `N = 3`, `j = 0`);
* `cn_all_eligible_fire`: in the initial state of that run vial 0 is liquid, its temperature after the
  sensible update (−20 °C) is below `T_eq_l = 0`, and the drawn dice (`[0]`) are below 1. -/
theorem nonvacuous :
    C05.WF CNT.exOc 1 ∧ cntOf (profile CNT.exOc 1) 0 = 30 ∧
      CNT.contEnd CNT.exOc.rate CNT.exOc.start [⟨0, 10⟩] = 30 ∧
      (∀ a ∈ CNT.exOc.holds, 0 ≤ a.duration) ∧ CNT.exOc.stop < 0 ∧ (0 : ℝ) ≤ CNT.exOc.start ∧
      (∃ k, k < 101 ∧ ((cntOf (profile CNT.exOc 1) 0 : ℕ) : ℝ) ≤ (k : ℝ) * 2) ∧
      0 < nSteps (FlakeCex.cexInp 2).oc.t_tot (FlakeCex.cexInp 2).p.dt ∧
      (0 < (init (FlakeCex.cexInp 2)).vials.size ∧
        (∀ x ∈ drawn (init (FlakeCex.cexInp 2)), x < 1) ∧
        (vAt (init (FlakeCex.cexInp 2)) 0).sigma = 0 ∧
        liquidTemp (FlakeCex.cexInp 2).p.c (FlakeCex.cexInp 2).p.dt
          (heatFlow (FlakeCex.cexInp 2).p (temps (init (FlakeCex.cexInp 2))) (-20) (-20) 0)
          (vAt (init (FlakeCex.cexInp 2)) 0).T < (FlakeCex.cexInp 2).p.c.T_eq_l) := by
  refine ⟨CNT.nonvacuous_cnt.1, CNT.nonvacuous_cnt_value.1, CNT.nonvacuous_cnt_value.2, ?_, ?_, ?_, ?_, ?_, ?_⟩
  · intro a ha; simp [CNT.exOc] at ha; rw [ha]; norm_num
  · simp [CNT.exOc]
  · simp [CNT.exOc]
  · refine ⟨15, by norm_num, ?_⟩
    rw [CNT.nonvacuous_cnt_value.1]; norm_num
  · have := FlakeCex.cex_NN2
    simp only [FlakeStatsLemmas.NN] at this
    rw [this]; norm_num
  · refine ⟨by simp [init, FlakeCex.cexInp], ?_, by simp [vAt, init, FlakeCex.cexInp], ?_⟩
    · intro x hx
      simp [drawn, anyLiquid, isLiquid, init, FlakeCex.cexInp] at hx
      rw [hx]; norm_num
    · simp [vAt, init, FlakeCex.cexInp, temps, heatFlow, qInt, hExt, hShelf, hDiag, hOff, liquidTemp]

end Snow.C10
