/-
  C14 — Spatial repetitions are reproducible in every execution mode.

  Model: SnowModel/SnowingObj.lean (`run(how)` dispatch, `_stats`,
  `_statsMultiple`, `_keys`, `results`; one simulation abstract as
  `sim (2024, 0) (seed, 0)`: kinetic draw from the stream seeded 2024, `F_rand`
  from the stream seeded `seed`).  `runObj` mirrors the repaired code
  (fixes/F5.diff), `runObjOld` the code before it.

  All statements hold for EVERY simulation function `sim`, every object state `o`
  (whatever was run on it before), every state `w` of the process-global legacy
  generator and every batching of the tasks by the pool.

  Property theorems only.  Proofs, helper lemmas and the definitions used in the
  statements (ValidHow, runMany): SnowProofs/Lemmas/SnowingObj.lean.
-/
import SnowProofs.Lemmas.SnowingObj

namespace Snow.C14
open Snow.SnowingObj Snow.SnowingObjLemmas

variable {Row : Type} (sim : DrawPos → DrawPos → Row)

/-- **rep_is_seeded_run**: after `run(how)` with `Nrep = n > 1` — on an object in
ANY state, in either mode, for any pool batching and any state of the global
generator — `results` has one row per repetition in seed order and row `i` is the
single run with seed `i` (a function of configuration and `i` only: kinetic draw
from the stream seeded 2024, `F_rand` from the stream seeded `i`). -/
theorem rep_is_seeded_run (how : How) (o : Obj Row) (w : World) (hn : 1 < o.nrep)
    (hv : ValidHow o.nrep how) :
    results (runObj sim how o w).1 = .ok (table sim o.nrep) := by
  first | (apply Snow.SnowingObjLemmas.rep_is_seeded_run <;> assumption)

/-- the repetition count is a public attribute: after `S.Nrep = n` on an object in any
state (e.g. after a LARGER study) a run gives exactly the `n` rows of the seeded runs -/
theorem rep_after_resize (how : How) (o : Obj Row) (w : World) (n : Nat) (hn : 1 < n)
    (hv : ValidHow n how) :
    results (runObj sim how { o with nrep := n } w).1 = .ok (table sim n) := by
  first | (apply Snow.SnowingObjLemmas.rep_after_resize <;> assumption)

/-- **single_eq_rep0**: with `Nrep = 1`, `results` is the one row of the run with
seed 0 — the first row of every multi-repetition table. -/
theorem single_eq_rep0 (how : How) (o : Obj Row) (w : World) (h1 : o.nrep = 1) (n : Nat) (hn : 0 < n) :
    results (runObj sim how o w).1 = .ok [(0, sim (2024, 0) (0, 0))] ∧
    (table sim n).head? = some (0, sim (2024, 0) (0, 0)) := by
  first | (apply Snow.SnowingObjLemmas.single_eq_rep0 <;> assumption)

/-- **repeat_same**: whatever was run before on the object (any modes, also
unsupported ones, any number of times), running again gives the same table. -/
theorem repeat_same (hs : List How) (how : How) (o : Obj Row) (w : World) (hn : 1 < o.nrep)
    (hv : ValidHow o.nrep how) :
    results (runMany sim (hs ++ [how]) o w).1 = results (runObj sim how o w).1 := by
  first | (apply Snow.SnowingObjLemmas.repeat_same <;> assumption)

theorem repeat_same_single (hs : List How) (how : How) (o : Obj Row) (w : World) (h1 : o.nrep = 1) :
    results (runMany sim (hs ++ [how]) o w).1 = results (runObj sim how o w).1 := by
  first | (apply Snow.SnowingObjLemmas.repeat_same_single <;> assumption)

/-- **modes_equal**: sequential and parallel execution, any pool batchings, any
two objects of the same configuration in any states: the same table. -/
theorem modes_equal (h1 h2 : How) (o1 o2 : Obj Row) (w1 w2 : World) (hn : 1 < o1.nrep)
    (he : o2.nrep = o1.nrep) (hv1 : ValidHow o1.nrep h1) (hv2 : ValidHow o1.nrep h2) :
    results (runObj sim h1 o1 w1).1 = results (runObj sim h2 o2 w2).1 := by
  first | (apply Snow.SnowingObjLemmas.modes_equal <;> assumption)

theorem poolChunks_valid (n p : Nat) (hp : 0 < p) : ValidHow n (.async (poolChunks n p)) := by
  first | (apply Snow.SnowingObjLemmas.poolChunks_valid <;> assumption)

/-- a fresh multi-repetition object run in `sequential` mode stores nothing and
`results` raises (pandas: `ValueError: Length mismatch`) -/
theorem old_sequential_raises (n : Nat) (hn : 1 < n) (w : World) :
    results (runObjOld sim .sequential (mkObj n) w).1 = .error "ValueError" := by
  first | (apply Snow.SnowingObjLemmas.old_sequential_raises <;> assumption)

/-- … and after an earlier `async` run it shows that run's (stale) table -/
theorem old_sequential_stale (n : Nat) (w : World) (chunks : List (List Nat)) :
    (runObjOld sim .sequential (runObjOld sim (.async chunks) (mkObj n) w).1 w).1.multi =
      (runObjOld sim (.async chunks) (mkObj n) w).1.multi := by
  first | (apply Snow.SnowingObjLemmas.old_sequential_stale <;> assumption)

/-- `ValidHow` is satisfiable by the real pool's batching, and the statements
evaluate on a concrete instance (`sim` = the pair of draw positions). -/
theorem nonvacuous :
    ValidHow 7 (.async (poolChunks 7 1)) ∧ poolChunks 7 1 = [[0, 1], [2, 3], [4, 5], [6]] ∧
    results (runObj Prod.mk (.async [[0, 1], [2]]) (mkObj 3) ⟨none, 0⟩).1 =
      .ok [(0, ((2024, 0), (0, 0))), (1, ((2024, 0), (1, 0))), (2, ((2024, 0), (2, 0)))] ∧
    results (runObj Prod.mk .sequential (mkObj 3) ⟨none, 0⟩).1 =
      results (runObj Prod.mk (.async [[0, 1], [2]]) (mkObj 3) ⟨none, 0⟩).1 := by
  first | (apply Snow.SnowingObjLemmas.nonvacuous <;> assumption)

end Snow.C14
