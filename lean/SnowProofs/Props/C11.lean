/-
  C11 — Spatial controlled nucleation waits until the product reaches cnTemp.

  Models: SnowModel/Snowing0D.lean and Snowing1D.lean at ℝ.  The 1D model carries two
  controlled-nucleation tests: `cnTest` (REPAIRED: `T_k.min() <= cnTemp + 273.15`) and
  `cnTestOld` (the CURRENT code: `T_k.any() <= cnTemp + 273.15`).  The property theorems are
  about the repaired form; `cn_old_fires_at_step_zero` / `cn_old_counterexample` prove that
  the current form violates the property (defect F4).
-/
import SnowProofs.Props.C08
import SnowProofs.Props.C07

namespace Snow.C11
open Snow Num Snow.C08

theorem lit27315 : (lit 27315 2 : ℝ) = 273.15 := by rw [lit_real]; norm_num

/-! ### trigger at the first step at which the product has reached cnTemp -/

/-- **0D**: with a controlled-nucleation temperature `cn` (°C) the cooling stage ends at the
first step whose product temperature is `≤ cn + 273.15`, and not before. -/
theorem cn_trigger_first_0D (p : SnowIn ℝ) (shelf : List ℝ) (cn : ℝ) (hcn : p.cnTemp = some cn) (i : ℕ) :
    (run0DOn p shelf).NtCoolEnd = some i ↔
      i < shelf.length ∧ (st0D p shelf i).T ≤ cn + 273.15 ∧
        ∀ j, j < i → cn + 273.15 < (st0D p shelf j).T := by
  rw [run0DOn_NtCoolEnd, cool0D, loopUntil_fst_some_iff]
  simp only [coolStop0D, hcn, st0D, lit27315, decide_eq_true_eq, decide_eq_false_iff_not, not_le]

/-- **1D (repaired test)**: the cooling stage ends at the first step at which the coldest point
of the product is `≤ cn + 273.15`, and not before. -/
theorem cn_trigger_first_1D (p : SnowIn ℝ) (Nz : ℕ) (shelf : List ℝ) (cn : ℝ) (hcn : p.cnTemp = some cn)
    (i : ℕ) :
    (run1DOn p Nz false shelf).NtCoolEnd = some i ↔
      i < shelf.length ∧ minA (st1D p Nz shelf i).T ≤ cn + 273.15 ∧
        ∀ j, j < i → cn + 273.15 < minA (st1D p Nz shelf j).T := by
  rw [run1DOn_NtCoolEnd, cool1D, loopUntil_fst_some_iff]
  simp only [coolStop1D, hcn, st1D, cnTest, lit27315, decide_eq_true_eq, decide_eq_false_iff_not, not_le,
    Bool.false_eq_true, if_false]

/-! ### the nucleation temperature is within one step's cooling of cnTemp -/

/-- the cooling of one 0D step: `T_old − T_new = dt·A·K·(T_old − T_shelf)/(cp·m)` -/
theorem coolStep0D_T (p : SnowIn ℝ) (i : ℕ) (s : Cool0D ℝ) (x : ℝ) :
    (coolStep0D p i s x).T =
      s.T - (1 / 10) * (p.const.A * p.Kshelf * (s.T - x)) / (p.const.cp_solution * p.const.mass) := by
  simp only [coolStep0D, dt0D, lit_real]
  ring

/-- product temperature before step `i` of the 0D loop -/
noncomputable def prev0D (p : SnowIn ℝ) (shelf : List ℝ) : ℕ → ℝ
  | 0 => p.T_0
  | i + 1 => (st0D p shelf i).T

/-- **0D**: if the trigger temperature is below the initial temperature, the reported
nucleation temperature satisfies `cn − δ < T_nuc ≤ cn` where `δ` is the cooling of the single
step `i` (`δ = dt·A·K·(T_prev − T_shelf,i)/(cp·m)`). -/
theorem cn_Tnuc_close_0D (p : SnowIn ℝ) (shelf : List ℝ) (cn : ℝ) (hcn : p.cnTemp = some cn)
    (h0 : cn + 273.15 < p.T_0) (i : ℕ) (h : (run0DOn p shelf).NtCoolEnd = some i)
    (st : Stats0D ℝ) (hst : (run0DOn p shelf).stats = some st) :
    ∃ hi : i < shelf.length,
      st.T_nuc ≤ cn ∧
      cn - (1 / 10) * (p.const.A * p.Kshelf * (prev0D p shelf i - shelf[i])) /
          (p.const.cp_solution * p.const.mass) < st.T_nuc := by
  obtain ⟨hT, _⟩ := stats_at_nucleation_instant_0D p shelf i h st hst
  obtain ⟨hi, hle, hprev⟩ := (cn_trigger_first_0D p shelf cn hcn i).mp h
  refine ⟨hi, by rw [hT]; linarith, ?_⟩
  rw [hT]
  have hprevgt : cn + 273.15 < prev0D p shelf i := by
    cases i with
    | zero => exact h0
    | succ k => exact hprev k (by omega)
  have hstep : (st0D p shelf i).T =
      prev0D p shelf i - (1 / 10) * (p.const.A * p.Kshelf * (prev0D p shelf i - shelf[i])) /
        (p.const.cp_solution * p.const.mass) := by
    cases i with
    | zero =>
      unfold st0D
      rw [stateAt_zero _ _ _ hi, coolStep0D_T]
      rfl
    | succ k =>
      unfold st0D
      rw [stateAt_succ _ _ _ _ hi, coolStep0D_T]
      rfl
  rw [hstep]
  linarith

/-- **discrete minimum principle of the cooling stencil**: for `0 ≤ c ≤ 1/2` every new nodal
value is at least the old minimum plus `c` times the (possibly negative) ghost-point increments
at the two ends. -/
theorem coolStencil_ge (c Tb Tt : ℝ) (T : Array ℝ) (hc0 : 0 ≤ c) (hc : c ≤ 1 / 2) (hn : 2 ≤ T.size)
    (j : ℕ) (hj : j < T.size) :
    minA T + c * Min.min 0 (Min.min (Tb - aget T 0) (Tt - aget T (T.size - 1)))
      ≤ aget (coolStencil c Tb Tt T) j := by
  set m := minA T with hm
  have hmj : ∀ k, k < T.size → m ≤ aget T k := fun k hk => minA_le T k hk
  have hd : Min.min 0 (Min.min (Tb - aget T 0) (Tt - aget T (T.size - 1))) ≤ 0 := min_le_left _ _
  have hdb : Min.min 0 (Min.min (Tb - aget T 0) (Tt - aget T (T.size - 1))) ≤ Tb - aget T 0 :=
    le_trans (min_le_right _ _) (min_le_left _ _)
  have hdt : Min.min 0 (Min.min (Tb - aget T 0) (Tt - aget T (T.size - 1))) ≤ Tt - aget T (T.size - 1) :=
    le_trans (min_le_right _ _) (min_le_right _ _)
  set d := Min.min 0 (Min.min (Tb - aget T 0) (Tt - aget T (T.size - 1))) with hdd
  unfold coolStencil
  rw [aget_ofFn _ _ j hj]
  simp only [ofNat'_real, Nat.cast_ofNat]
  by_cases h0 : j = 0
  · subst h0
    simp only [if_true]
    have a0 := hmj 0 (by omega)
    have a1 := hmj 1 (by omega)
    nlinarith [mul_le_mul_of_nonneg_left hdb hc0, mul_nonneg hc0 (sub_nonneg.mpr a1),
      mul_nonneg (by linarith : 0 ≤ 1 - 2 * c) (sub_nonneg.mpr a0), mul_nonneg hc0 (sub_nonneg.mpr a0)]
  · by_cases h1 : j + 1 = T.size
    · simp only [h0, h1, if_false, if_true]
      have e : j = T.size - 1 := by omega
      have a0 := hmj j hj
      have a1 := hmj (T.size - 2) (by omega)
      rw [← e] at hdt
      nlinarith [mul_le_mul_of_nonneg_left hdt hc0, mul_nonneg hc0 (sub_nonneg.mpr a1),
        mul_nonneg (by linarith : 0 ≤ 1 - 2 * c) (sub_nonneg.mpr a0), mul_nonneg hc0 (sub_nonneg.mpr a0)]
    · simp only [h0, h1, if_false]
      have a0 := hmj j hj
      have a1 := hmj (j + 1) (by omega)
      have a2 := hmj (j - 1) (by omega)
      nlinarith [mul_le_mul_of_nonneg_left hd hc0, mul_nonneg hc0 (sub_nonneg.mpr a1),
        mul_nonneg hc0 (sub_nonneg.mpr a2), mul_nonneg (by linarith : 0 ≤ 1 - 2 * c) (sub_nonneg.mpr a0)]

/-- a uniform field with ghost values equal to it is a fixed point of the stencil -/
theorem coolStencil_const (c v : ℝ) (n j : ℕ) (hj : j < n) (hn : 2 ≤ n) :
    aget (coolStencil c v v (Array.replicate n v)) j = v := by
  unfold coolStencil
  have hsz : (Array.replicate n v).size = n := by simp
  rw [aget_ofFn _ _ j (by rw [hsz]; exact hj)]
  simp only [hsz, ofNat'_real, Nat.cast_ofNat]
  by_cases h0 : j = 0
  · simp only [h0, if_true]
    rw [aget_replicate _ _ _ (by omega : 0 < n), aget_replicate _ _ _ (by omega : 1 < n)]; ring
  · by_cases h1 : j + 1 = n
    · simp only [h0, h1, if_false, if_true]
      rw [aget_replicate _ _ _ hj, aget_replicate _ _ _ (by omega : n - 2 < n)]; ring
    · simp only [h0, h1, if_false]
      rw [aget_replicate _ _ _ hj, aget_replicate _ _ _ (by omega : j + 1 < n),
        aget_replicate _ _ _ (by omega : j - 1 < n)]; ring

/-- the largest possible drop of the coldest point in cooling step `i` of the 1D model from the
field `T` (K): `δ = Fo · max(0, −q_shelf·dz/λ, −q_e·dz/λ)` (the two ghost-point increments) -/
noncomputable def stepDrop1D (p : SnowIn ℝ) (g : Grid1D ℝ) (i : ℕ) (T : Array ℝ) (Ts : ℝ) : ℝ :=
  -(g.fo * Min.min 0 (Min.min (p.Kshelf * (Ts - aget T 0) * g.dz / g.lam0)
      (qEvap p Evap.vapourPressureLiquid (g.dt * (i : ℝ)) (aget T (g.Nz - 1)) * g.dz / g.lam0)))

/-- one cooling step lowers the coldest point by at most `stepDrop1D` -/
theorem coolField1D_min_ge (p : SnowIn ℝ) (Nz : ℕ) (i : ℕ) (T : Array ℝ) (Ts : ℝ)
    (hfo0 : 0 ≤ (grid1D p Nz).fo) (hfo : (grid1D p Nz).fo ≤ 1 / 2) (hN : 2 ≤ Nz) (hT : T.size = Nz) :
    minA T - stepDrop1D p (grid1D p Nz) i T Ts ≤ minA (coolField1D p (grid1D p Nz) i T Ts) := by
  set g := grid1D p Nz with hg
  have hgN : g.Nz = Nz := rfl
  have hsz : (coolField1D p g i T Ts).size = Nz := by simp [hT]
  obtain ⟨j, hj, hmin⟩ := minA_mem (coolField1D p g i T Ts) (by omega)
  rw [hmin]
  unfold coolField1D
  have := coolStencil_ge g.fo
    (aget T 0 + p.Kshelf * (Ts - aget T 0) * g.dz / g.lam0)
    (aget T (g.Nz - 1) + qEvap p Evap.vapourPressureLiquid (g.dt * ofNat' i) (aget T (g.Nz - 1)) * g.dz / g.lam0)
    T hfo0 hfo (by omega) j (by rw [hsz] at hj; omega)
  simp only [hgN, hT, add_sub_cancel_left, ofNat'_real] at this ⊢
  unfold stepDrop1D
  simp only [hgN]
  linarith

/-- field before step `i` of the 1D loop -/
noncomputable def prev1D (p : SnowIn ℝ) (Nz : ℕ) (shelf : List ℝ) : ℕ → Array ℝ
  | 0 => (coolInit1D p (grid1D p Nz)).T
  | i + 1 => (st1D p Nz shelf i).T

/-- **1D (repaired test)**: under the CFL hypothesis `0 ≤ Fo ≤ 1/2`, if the trigger temperature
is below the initial temperature then `cn − δ < T_nuc_min ≤ cn`, `δ` = the largest drop of the
coldest point possible in step `i` (`stepDrop1D`). -/
theorem cn_Tnuc_close_1D (p : SnowIn ℝ) (Nz : ℕ) (hN : 2 ≤ Nz) (shelf : List ℝ) (cn : ℝ)
    (hcn : p.cnTemp = some cn) (hfo0 : 0 ≤ (grid1D p Nz).fo) (hfo : (grid1D p Nz).fo ≤ 1 / 2)
    (h0 : cn + 273.15 < p.T_0) (i : ℕ) (h : (run1DOn p Nz false shelf).NtCoolEnd = some i)
    (st : Stats1D ℝ) (hst : (run1DOn p Nz false shelf).stats = some st) :
    ∃ hi : i < shelf.length,
      st.T_nuc_min ≤ cn ∧
      cn - stepDrop1D p (grid1D p Nz) i (prev1D p Nz shelf i) shelf[i] < st.T_nuc_min := by
  obtain ⟨_, hall⟩ := stats_at_nucleation_instant p Nz false shelf i h
  obtain ⟨hT, _⟩ := hall st hst
  obtain ⟨hi, hle, hprev⟩ := (cn_trigger_first_1D p Nz shelf cn hcn i).mp h
  refine ⟨hi, by rw [hT]; linarith, ?_⟩
  rw [hT]
  have hsz : (prev1D p Nz shelf i).size = Nz := by
    cases i with
    | zero => simp [prev1D, coolInit1D, grid1D]
    | succ k => exact st1D_size p Nz shelf k
  have hprevgt : cn + 273.15 < minA (prev1D p Nz shelf i) := by
    cases i with
    | zero =>
      obtain ⟨j, hj, hm⟩ := minA_mem (prev1D p Nz shelf 0) (by omega)
      rw [hm]
      simp only [prev1D, coolInit1D] at hj ⊢
      rw [aget_replicate _ _ _ (by simpa using hj)]
      simpa using h0
    | succ k => exact hprev k (by omega)
  have hstep : (st1D p Nz shelf i).T = coolField1D p (grid1D p Nz) i (prev1D p Nz shelf i) shelf[i] := by
    cases i with
    | zero => unfold st1D; rw [stateAt_zero _ _ _ hi]; rfl
    | succ k => unfold st1D; rw [stateAt_succ _ _ _ _ hi]; rfl
  have := coolField1D_min_ge p Nz i (prev1D p Nz shelf i) shelf[i] hfo0 hfo hN hsz
  rw [hstep]
  linarith

/-! ### audit repair (M14): the CFL hypothesis `0 ≤ Fo ≤ 1/2` follows from the code's own `dt` -/

/-- diffusivity of the cooling stage `lambda_eff/(cp_solution·rho_l)` and the limiting diffusivity
`alpha_max = lambda_i/(cp_i·rho_l)` the code derives `dt` from -/
noncomputable def diffCool (p : SnowIn ℝ) : ℝ :=
  (p.const.solid_fraction * p.const.lambda_s + (1 - p.const.solid_fraction) * p.const.lambda_w) /
    (p.const.cp_solution * p.const.rho_l)
noncomputable def alphaMax1D (p : SnowIn ℝ) : ℝ := p.const.lambda_i / (p.const.cp_i * p.const.rho_l)

/-- with `dt = 0.4·dz²/alpha_max` the Fourier number of the cooling stage is `0.4·alpha/alpha_max` -/
theorem fo_grid1D (p : SnowIn ℝ) (Nz : ℕ) (hdz : (grid1D p Nz).dz ≠ 0) :
    (grid1D p Nz).fo = (4 / 10) * diffCool p / alphaMax1D p := by
  have hdz' : p.const.height / (Nz : ℝ) ≠ 0 := by simpa [grid1D] using hdz
  obtain ⟨hH, hNz⟩ := div_ne_zero_iff.mp hdz'
  simp only [grid1D, diffCool, alphaMax1D, one_real, lit_real, ofNat'_real, Int.cast_ofNat, pow_one]
  by_cases hα : p.const.lambda_i / (p.const.cp_i * p.const.rho_l) = 0
  · simp [hα]
  · have hd2 : p.const.height / (Nz : ℝ) * (p.const.height / (Nz : ℝ)) ≠ 0 := mul_ne_zero hdz' hdz'
    field_simp

/-- **`0 ≤ Fo ≤ 1/2` from the code**: whenever the liquid diffusivity is non-negative and at most
`1.25·alpha_max` (it is `0.13·alpha_max` for the default constants) -/
theorem fo_bounds_grid1D (p : SnowIn ℝ) (Nz : ℕ) (hdz : (grid1D p Nz).dz ≠ 0) (ham : 0 < alphaMax1D p)
    (hd0 : 0 ≤ diffCool p) (hd : diffCool p ≤ (5 / 4) * alphaMax1D p) :
    0 ≤ (grid1D p Nz).fo ∧ (grid1D p Nz).fo ≤ 1 / 2 := by
  rw [fo_grid1D p Nz hdz]
  constructor
  · positivity
  · rw [div_le_iff₀ ham]; nlinarith

/-- `cn_Tnuc_close_1D` with the CFL hypothesis discharged from the constants -/
theorem cn_Tnuc_close_1D_code (p : SnowIn ℝ) (Nz : ℕ) (hN : 2 ≤ Nz) (shelf : List ℝ) (cn : ℝ)
    (hcn : p.cnTemp = some cn) (hdz : (grid1D p Nz).dz ≠ 0) (ham : 0 < alphaMax1D p)
    (hd0 : 0 ≤ diffCool p) (hd : diffCool p ≤ (5 / 4) * alphaMax1D p)
    (h0 : cn + 273.15 < p.T_0) (i : ℕ) (h : (run1DOn p Nz false shelf).NtCoolEnd = some i)
    (st : Stats1D ℝ) (hst : (run1DOn p Nz false shelf).stats = some st) :
    ∃ hi : i < shelf.length,
      st.T_nuc_min ≤ cn ∧
      cn - stepDrop1D p (grid1D p Nz) i (prev1D p Nz shelf i) shelf[i] < st.T_nuc_min :=
  cn_Tnuc_close_1D p Nz hN shelf cn hcn (fo_bounds_grid1D p Nz hdz ham hd0 hd).1
    (fo_bounds_grid1D p Nz hdz ham hd0 hd).2 h0 i h st hst

/-! ### the current code (defect F4) -/

/-- the test of the current code does not look at the temperatures: for every field and every
trigger temperature `cn ≥ −272.15 °C` it is true. -/
theorem cnTestOld_always (cn : ℝ) (hcn : -272.15 ≤ cn) (T : Array ℝ) : cnTestOld cn T = true := by
  unfold cnTestOld maskNum
  simp only [lit27315, one_real, zero_real, decide_eq_true_eq]
  split_ifs <;> linarith

/-- **F4**: with the current test, controlled nucleation fires at step 0 for every program, every
geometry and every `cnTemp ≥ −272.15 °C` – whatever the product temperature. -/
theorem cn_old_fires_at_step_zero (p : SnowIn ℝ) (Nz : ℕ) (shelf : List ℝ) (cn : ℝ)
    (hcn : p.cnTemp = some cn) (hge : -272.15 ≤ cn) (hne : 0 < shelf.length) :
    (run1DOn p Nz true shelf).NtCoolEnd = some 0 := by
  rw [run1DOn_NtCoolEnd, cool1D, loopUntil_fst_some_iff]
  refine ⟨hne, ?_, by intro j hj; omega⟩
  simp only [coolStop1D, hcn, if_true]
  exact cnTestOld_always cn hge _

/-- the same input class on the repaired model: nucleation does NOT happen at step 0 when the
product is still warmer than `cnTemp` after the first step -/
theorem cn_new_waits (p : SnowIn ℝ) (Nz : ℕ) (shelf : List ℝ) (cn : ℝ) (hcn : p.cnTemp = some cn)
    (hwarm : cn + 273.15 < minA (st1D p Nz shelf 0).T) :
    (run1DOn p Nz false shelf).NtCoolEnd ≠ some 0 := by
  intro h
  have := ((cn_trigger_first_1D p Nz shelf cn hcn 0).mp h).2.1
  linarith

/-- **counter-example to the property on the current code** (concrete witness): product and shelf
both at 20 °C, `cnTemp = −8 °C`: nothing cools, yet the current test ends the cooling stage at
step 0 and the reported minimum nucleation temperature is 20 °C – 28 K above the trigger. -/
theorem cn_old_counterexample :
    let p : SnowIn ℝ := { exIn with cnTemp := some (-8), oc := ⟨10, 20, 20, 1, []⟩ }
    let shelf : List ℝ := [293.15, 293.15]
    (run1DOn p 30 true shelf).NtCoolEnd = some 0 ∧
      ∀ st, (run1DOn p 30 true shelf).stats = some st → st.T_nuc_min = 20 := by
  intro p shelf
  have h0 : (run1DOn p 30 true shelf).NtCoolEnd = some 0 :=
    cn_old_fires_at_step_zero p 30 shelf (-8) rfl (by norm_num) (by simp [shelf])
  refine ⟨h0, ?_⟩
  intro st hst
  obtain ⟨_, hall⟩ := stats_at_nucleation_instant p 30 true shelf 0 h0
  obtain ⟨hmin, _⟩ := hall st hst
  rw [hmin]
  -- the field after step 0 is uniformly 293.15 K: shelf = product, no evaporation
  have hT0 : p.T_0 = 293.15 := by simp only [SnowIn.T_0, p, lit27315]; norm_num
  have hfield : ∀ j, j < 30 → aget (st1D p 30 shelf 0).T j = 293.15 := by
    intro j hj
    unfold st1D
    rw [stateAt_zero _ _ _ (by simp [shelf])]
    show aget (coolField1D p (grid1D p 30) 0 (coolInit1D p (grid1D p 30)).T shelf[0]) j = 293.15
    have hinit : (coolInit1D p (grid1D p 30)).T = Array.replicate 30 (293.15 : ℝ) := by
      simp only [coolInit1D, grid1D, hT0, zero_real, zero_add]
    rw [hinit]
    unfold coolField1D
    have hs0 : shelf[0] = 293.15 := rfl
    have hg : (grid1D p 30).Nz = 30 := rfl
    have e0 : aget (Array.replicate 30 (293.15 : ℝ)) 0 = 293.15 := aget_replicate _ _ _ (by norm_num)
    have e29 : aget (Array.replicate 30 (293.15 : ℝ)) ((grid1D p 30).Nz - 1) = 293.15 := by
      rw [hg]; exact aget_replicate _ _ _ (by norm_num)
    have hq : ∀ t T, qEvap p Evap.vapourPressureLiquid t T = 0 := by
      intro t T; simp [qEvap, p, exIn]
    simp only [e0, e29, hq, hs0, sub_self, mul_zero, zero_mul, zero_div, add_zero]
    exact coolStencil_const _ _ 30 j hj (by norm_num)
  have hsz := st1D_size p 30 shelf 0
  obtain ⟨j, hj, hm⟩ := minA_mem (st1D p 30 shelf 0).T (by omega)
  rw [hm, hfield j (by omega)]
  norm_num

/-! ### non-vacuity -/

/-- the hypotheses of `cn_Tnuc_close_0D` are satisfiable: trigger below the initial temperature, a
run that reaches it (shelf at 0 K, `cn = −8 °C`: step 0 cools the product from 0 °C to −27 °C) -/
theorem nonvacuous :
    let p : SnowIn ℝ := { exIn with cnTemp := some (-8) }
    p.cnTemp = some (-8) ∧ (-8 : ℝ) + 273.15 < p.T_0 ∧ (run0DOn p [0]).NtCoolEnd = some 0 := by
  intro p
  have hT0 : p.T_0 = 273.15 := by simp only [SnowIn.T_0, p, exIn, lit27315]; norm_num
  refine ⟨rfl, by rw [hT0]; norm_num, ?_⟩
  rw [cn_trigger_first_0D p [0] (-8) rfl 0]
  refine ⟨by simp, ?_, by intro j hj; omega⟩
  unfold st0D
  rw [stateAt_zero _ _ _ (by simp), coolStep0D_T]
  simp only [coolInit0D, hT0, List.getElem_cons_zero]
  have hA : p.const.A = 1 := rfl
  have hK : p.Kshelf = 1 := rfl
  have hc : p.const.cp_solution = 1 := rfl
  have hm : p.const.mass = 1 := rfl
  rw [hA, hK, hc, hm]
  norm_num


/-! ## 2D model (`SnowModel/Snowing2D.lean`; its controlled-nucleation test is the repaired
`T_k.min() <= cnTemp + 273.15`, which is what /repo now contains) -/

open Snow.S2D in
/-- **2D**: the cooling stage ends at the first step at which the coldest point of the product is
`≤ cn + 273.15`, and not before. -/
theorem cn_trigger_first_2D (p : Par ℝ) (f : Flags) (T0C : ℝ) (prof : List ℝ) (NtExp : ℕ) (Frand cn : ℝ)
    (i : ℕ) :
    (cool2D p f T0C prof NtExp Frand (some cn)).1 = some i ↔
      i < prof.length ∧ S2D.minA (st2D p f T0C prof NtExp i).T ≤ cn + 273.15 ∧
        ∀ j, j < i → cn + 273.15 < S2D.minA (st2D p f T0C prof NtExp j).T := by
  have hk : (kelvin : ℝ) = 273.15 := by simp only [kelvin, lit_real]; norm_num
  unfold cool2D
  rw [loopUntil_fst_some_iff]
  simp only [coolStopSt, st2D, shelfK, List.length_map, hk, decide_eq_true_eq, decide_eq_false_iff_not,
    not_le]

open Snow.S2D in
/-- field before cooling step `i` of the 2D loop -/
noncomputable def prev2D (p : Par ℝ) (f : Flags) (T0C : ℝ) (prof : List ℝ) (NtExp : ℕ) : ℕ → CoolSt ℝ
  | 0 => coolInit2D (mkCtx p f) T0C
  | i + 1 => st2D p f T0C prof NtExp i

open Snow.S2D in
theorem st2D_step (p : Par ℝ) (f : Flags) (T0C : ℝ) (prof : List ℝ) (NtExp : ℕ) (i : ℕ)
    (hi : i < (shelfK prof).length) :
    st2D p f T0C prof NtExp i =
      coolStep2D p f NtExp i (prev2D p f T0C prof NtExp i) ((shelfK prof)[i]) := by
  cases i with
  | zero => unfold st2D; rw [stateAt_zero _ _ _ hi]; rfl
  | succ k => unfold st2D; rw [stateAt_succ _ _ _ _ hi]; rfl

open Snow.S2D in
theorem prev2D_size (p : Par ℝ) (f : Flags) (T0C : ℝ) (prof : List ℝ) (NtExp : ℕ) (i : ℕ) :
    (prev2D p f T0C prof NtExp i).T.size = p.Nz * p.Nr := by
  cases i with
  | zero => simp [prev2D, coolInit2D, mkCtx]
  | succ k => exact st2D_size p f T0C prof NtExp k

open Snow.S2D in
/-- entry `x` of a flat field, read as node `(x / Nr, x % Nr)` -/
theorem rd_of_index (Nr : ℕ) (A : Array ℝ) (x : ℕ) (_hx : x < A.size) (_hNr : 0 < Nr) :
    rd Nr A (x / Nr) (x % Nr) = aget A x := by
  have : x / Nr * Nr + x % Nr = x := by rw [Nat.mul_comm]; exact Nat.div_add_mod x Nr
  simp [rd, aget, this]

open Snow.S2D Snow.C07 in
/-- **2D maximum principle, one cooling step of the repaired code without evaporation**: the new
coldest point is not below `min(old coldest point, shelf temperature)` -/
theorem coolStep2D_min_ge (p : Par ℝ) (f : Flags) (hf : f.inplace = false) (hcfg : p.config ≠ Config.visf)
    (hNz : 2 ≤ p.Nz) (hNr : 2 ≤ p.Nr) (hR : 0 < radius p)
    (hstab : Stab (mkCtx p f).a0 (mkCtx p f).dz (mkCtx p f).dr
      (p.K_shelf * (mkCtx p f).dz / (mkCtx p f).k0) ((mkCtx p f).Kw * (mkCtx p f).eSp / (mkCtx p f).k0))
    (NtExp i : ℕ) (s : CoolSt ℝ) (hT : s.T.size = p.Nz * p.Nr) (Tsh : ℝ) :
    Min.min (Snow.minA s.T) Tsh ≤ Snow.minA (coolStep2D p f NtExp i s Tsh).T := by
  set c := mkCtx p f with hc
  have hNpos : 0 < p.Nz * p.Nr := Nat.mul_pos (by omega) (by omega)
  have hqe : ∀ t T, S2D.qEvap c false t T = fun _ => (0 : ℝ) := by
    intro t T
    unfold S2D.qEvap
    have : c.p.config = p.config := rfl
    rw [this]
    cases hcf : p.config with
    | shelf => simp
    | visf => exact absurd hcf hcfg
    | jacket => simp
  have hstep : (coolStep2D p f NtExp i s Tsh).T = coolStep c false Tsh (fun _ => 0) s.T := by
    simp only [coolStep2D, coolStepSt, ← hc, hqe]
    have : c.f.inplace = false := by simp [hc, mkCtx, hf]
    rw [this]
  rw [hstep]
  set lo := Min.min (Snow.minA s.T) Tsh with hlo
  set hi := Max.max (Snow.maxA s.T) Tsh with hhi
  have H : SweepHyp c Tsh lo hi (fun _ => 0) s.T := by
    refine ⟨by simp [hc, mkCtx], by simp [hc, mkCtx], hNz, hNr, hT, hstab,
      fun j h1 hj => r_ge_half_dr p f hR hNr j h1 hj, ⟨min_le_right _ _, le_max_right _ _⟩, ?_, ?_⟩
    · intro a b ha hb
      have hidx : a * p.Nr + b < s.T.size := by rw [hT]; exact idx_lt ha hb
      have e : rd c.Nr s.T a b = aget s.T (a * p.Nr + b) := by simp [rd, aget, hc, mkCtx]
      rw [e]
      exact ⟨le_trans (min_le_left _ _) (minA_le s.T _ hidx), le_trans (le_maxA s.T _ hidx) (le_max_left _ _)⟩
    · intro b hb
      have ha : c.Nz - 1 < p.Nz := by simp only [hc, mkCtx]; omega
      have hidx : (c.Nz - 1) * p.Nr + b < s.T.size := by rw [hT]; exact idx_lt ha hb
      have e : rd c.Nr s.T (c.Nz - 1) b = aget s.T ((c.Nz - 1) * p.Nr + b) := by simp [rd, aget, hc, mkCtx]
      simp only [zero_mul, zero_div, add_zero]
      rw [e]
      exact ⟨le_trans (min_le_left _ _) (minA_le s.T _ hidx), le_trans (le_maxA s.T _ hidx) (le_max_left _ _)⟩
  have hsz : (coolStep c false Tsh (fun _ => 0) s.T).size = p.Nz * p.Nr := by
    unfold coolStep; exact size_sweep _ _ _ _ _ hT
  obtain ⟨x, hx, hm⟩ := minA_mem (coolStep c false Tsh (fun _ => 0) s.T) (by rw [hsz]; exact hNpos)
  rw [hm, ← rd_of_index p.Nr _ x hx (by omega)]
  have hxN : x < p.Nz * p.Nr := by rw [hsz] at hx; exact hx
  have hdiv : x / p.Nr < p.Nz := by
    rw [Nat.div_lt_iff_lt_mul (by omega)]; exact hxN
  exact (maxprinciple2D_cool c Tsh lo hi (fun _ => 0) s.T H (x / p.Nr) (x % p.Nr) hdiv
    (Nat.mod_lt _ (by omega))).1

open Snow.S2D Snow.C07 in
/-- **2D (repaired code, shelf / jacket configuration, stability hypotheses of C07)**: if the trigger
temperature is below the initial temperature then `cnTemp ≥ T_nuc_min ≥ min(coldest point before the
step, shelf temperature of the step)` and the coldest point before the step was still above
`cnTemp` – the nucleation temperature is within one step's cooling of the requested value. -/
theorem cn_Tnuc_close_2D (p : Par ℝ) (f : Flags) (hf : f.inplace = false) (hcfg : p.config ≠ Config.visf)
    (hNz : 2 ≤ p.Nz) (hNr : 2 ≤ p.Nr) (hR : 0 < radius p)
    (hstab : Stab (mkCtx p f).a0 (mkCtx p f).dz (mkCtx p f).dr
      (p.K_shelf * (mkCtx p f).dz / (mkCtx p f).k0) ((mkCtx p f).Kw * (mkCtx p f).eSp / (mkCtx p f).k0))
    (T0C : ℝ) (prof : List ℝ) (NtExp : ℕ) (Frand cn : ℝ) (h0 : cn < T0C) (r : Result ℝ)
    (h : run p f T0C prof NtExp Frand (some cn) = .ok r) :
    ∃ hi : r.iCool < prof.length,
      r.TnucMin ≤ cn ∧
      cn + 273.15 < Snow.minA (prev2D p f T0C prof NtExp r.iCool).T ∧
      Min.min (Snow.minA (prev2D p f T0C prof NtExp r.iCool).T - 273.15) prof[r.iCool] ≤ r.TnucMin := by
  have hk : (kelvin : ℝ) = 273.15 := by simp only [kelvin, lit_real]; norm_num
  obtain ⟨hc, _, _, _⟩ := run2D_cool p f T0C prof NtExp Frand (some cn) r h
  obtain ⟨hT, _⟩ := stats_at_nucleation_instant_2D p f T0C prof NtExp Frand (some cn) r h
  obtain ⟨hi, hle, hprev⟩ := (cn_trigger_first_2D p f T0C prof NtExp Frand cn r.iCool).mp hc
  have hi' : r.iCool < (shelfK prof).length := by simpa [shelfK] using hi
  have hNpos : 0 < p.Nz * p.Nr := Nat.mul_pos (by omega) (by omega)
  have hprevgt : cn + 273.15 < Snow.minA (prev2D p f T0C prof NtExp r.iCool).T := by
    cases hic : r.iCool with
    | zero =>
      obtain ⟨x, hx, hm⟩ := minA_mem (prev2D p f T0C prof NtExp 0).T (by rw [prev2D_size]; exact hNpos)
      rw [hm]
      simp only [prev2D, coolInit2D] at hx ⊢
      rw [aget_replicate _ _ _ (by simpa using hx)]
      simp only [zero_real, hk, zero_add]; linarith
    | succ k => exact hprev k (by omega)
  refine ⟨hi, by rw [hT, C08.minA_2D] at *; linarith, hprevgt, ?_⟩
  rw [hT, C08.minA_2D, st2D_step p f T0C prof NtExp r.iCool hi']
  have := coolStep2D_min_ge p f hf hcfg hNz hNr hR hstab NtExp r.iCool (prev2D p f T0C prof NtExp r.iCool)
    (prev2D_size p f T0C prof NtExp r.iCool) ((shelfK prof)[r.iCool])
  have hs : (shelfK prof)[r.iCool] = prof[r.iCool] + 273.15 := by simp [shelfK, hk]
  rw [hs] at this ⊢
  have e : Min.min (Snow.minA (prev2D p f T0C prof NtExp r.iCool).T - 273.15) prof[r.iCool]
      = Min.min (Snow.minA (prev2D p f T0C prof NtExp r.iCool).T) (prof[r.iCool] + 273.15) - 273.15 := by
    rw [← min_sub_sub_right]; ring_nf
  rw [e]
  linarith


/-! ### 2D, every configuration (VISF included): one step's cooling with the evaporative term explicit -/

open Snow.S2D in
/-- ghost values above the top row in cooling step `i`: `T_top,j + q_e,j·dz/k_eff` with the evaporative heat
flux `q_e,j` of the VISF configuration (0 for shelf / jacket and outside the vacuum window) -/
noncomputable def topGhost2D (p : Par ℝ) (f : Flags) (i : ℕ) (T : Array ℝ) : Array ℝ :=
  Array.ofFn (n := p.Nr) fun j =>
    rd p.Nr T (p.Nz - 1) j.val +
      S2D.qEvap (mkCtx p f) false ((mkCtx p f).dt * (i : ℝ)) T j.val * (mkCtx p f).dz / (mkCtx p f).k0

open Snow.S2D Snow.C07 in
/-- **2D maximum principle with evaporation**: one repaired cooling step keeps the coldest point at or
above `min(old coldest point, shelf temperature, coldest top ghost value)` – the last term carries `q_e`. -/
theorem coolStep2D_min_ge_general (p : Par ℝ) (f : Flags) (hf : f.inplace = false)
    (hNz : 2 ≤ p.Nz) (hNr : 2 ≤ p.Nr) (hR : 0 < radius p)
    (hstab : Stab (mkCtx p f).a0 (mkCtx p f).dz (mkCtx p f).dr
      (p.K_shelf * (mkCtx p f).dz / (mkCtx p f).k0) ((mkCtx p f).Kw * (mkCtx p f).eSp / (mkCtx p f).k0))
    (NtExp i : ℕ) (s : CoolSt ℝ) (hT : s.T.size = p.Nz * p.Nr) (Tsh : ℝ) :
    Min.min (Min.min (Snow.minA s.T) Tsh) (Snow.minA (topGhost2D p f i s.T))
      ≤ Snow.minA (coolStep2D p f NtExp i s Tsh).T := by
  set c := mkCtx p f with hc
  have hNpos : 0 < p.Nz * p.Nr := Nat.mul_pos (by omega) (by omega)
  set qe := S2D.qEvap c false (c.dt * (i : ℝ)) s.T with hqe
  have hstep : (coolStep2D p f NtExp i s Tsh).T = coolStep c false Tsh qe s.T := by
    simp only [coolStep2D, coolStepSt, ← hc, hqe, ofNat'_real]
    have : c.f.inplace = false := by simp [hc, mkCtx, hf]
    rw [this]
  rw [hstep]
  have hgsz : (topGhost2D p f i s.T).size = p.Nr := by simp [topGhost2D]
  have hg : ∀ j, j < p.Nr → aget (topGhost2D p f i s.T) j = rd c.Nr s.T (c.Nz - 1) j + qe j * c.dz / c.k0 := by
    intro j hj
    unfold topGhost2D
    rw [aget_ofFn _ _ j hj]
    rfl
  set lo := Min.min (Min.min (Snow.minA s.T) Tsh) (Snow.minA (topGhost2D p f i s.T)) with hlo
  set hi := Max.max (Max.max (Snow.maxA s.T) Tsh) (Snow.maxA (topGhost2D p f i s.T)) with hhi
  have H : SweepHyp c Tsh lo hi qe s.T := by
    refine ⟨by simp [hc, mkCtx], by simp [hc, mkCtx], hNz, hNr, hT, hstab,
      fun j h1 hj => r_ge_half_dr p f hR hNr j h1 hj,
      ⟨le_trans (min_le_left _ _) (min_le_right _ _), le_trans (le_max_right _ _) (le_max_left _ _)⟩, ?_, ?_⟩
    · intro a b ha hb
      have hidx : a * p.Nr + b < s.T.size := by rw [hT]; exact idx_lt ha hb
      have e : rd c.Nr s.T a b = aget s.T (a * p.Nr + b) := by simp [rd, aget, hc, mkCtx]
      rw [e]
      exact ⟨le_trans (le_trans (min_le_left _ _) (min_le_left _ _)) (minA_le s.T _ hidx),
        le_trans (le_maxA s.T _ hidx) (le_trans (le_max_left _ _) (le_max_left _ _))⟩
    · intro b hb
      rw [← hg b hb]
      exact ⟨le_trans (min_le_right _ _) (minA_le _ b (by rw [hgsz]; exact hb)),
        le_trans (le_maxA _ b (by rw [hgsz]; exact hb)) (le_max_right _ _)⟩
  have hsz : (coolStep c false Tsh qe s.T).size = p.Nz * p.Nr := by
    unfold coolStep; exact size_sweep _ _ _ _ _ hT
  obtain ⟨x, hx, hm⟩ := minA_mem (coolStep c false Tsh qe s.T) (by rw [hsz]; exact hNpos)
  rw [hm, ← rd_of_index p.Nr _ x hx (by omega)]
  have hxN : x < p.Nz * p.Nr := by rw [hsz] at hx; exact hx
  have hdiv : x / p.Nr < p.Nz := by
    rw [Nat.div_lt_iff_lt_mul (by omega)]; exact hxN
  exact (maxprinciple2D_cool c Tsh lo hi qe s.T H (x / p.Nr) (x % p.Nr) hdiv (Nat.mod_lt _ (by omega))).1

open Snow.S2D Snow.C07 in
/-- **2D, every configuration (repaired sweep, stability hypotheses of C07)**: if the trigger temperature is
below the initial temperature then `cnTemp ≥ T_nuc_min ≥ min(coldest point before the step, shelf temperature
of the step, coldest top ghost value T_top + q_e·dz/k_eff)` (°C) – within one step's cooling INCLUDING the
evaporative term of VISF; and the coldest point before the step was still above `cnTemp`. -/
theorem cn_Tnuc_close_2D_general (p : Par ℝ) (f : Flags) (hf : f.inplace = false)
    (hNz : 2 ≤ p.Nz) (hNr : 2 ≤ p.Nr) (hR : 0 < radius p)
    (hstab : Stab (mkCtx p f).a0 (mkCtx p f).dz (mkCtx p f).dr
      (p.K_shelf * (mkCtx p f).dz / (mkCtx p f).k0) ((mkCtx p f).Kw * (mkCtx p f).eSp / (mkCtx p f).k0))
    (T0C : ℝ) (prof : List ℝ) (NtExp : ℕ) (Frand cn : ℝ) (h0 : cn < T0C) (r : Result ℝ)
    (h : run p f T0C prof NtExp Frand (some cn) = .ok r) :
    ∃ hi : r.iCool < prof.length,
      r.TnucMin ≤ cn ∧
      cn + 273.15 < Snow.minA (prev2D p f T0C prof NtExp r.iCool).T ∧
      Min.min (Min.min (Snow.minA (prev2D p f T0C prof NtExp r.iCool).T - 273.15) prof[r.iCool])
          (Snow.minA (topGhost2D p f r.iCool (prev2D p f T0C prof NtExp r.iCool).T) - 273.15) ≤ r.TnucMin := by
  have hk : (kelvin : ℝ) = 273.15 := by simp only [kelvin, lit_real]; norm_num
  obtain ⟨hc, _, _, _⟩ := run2D_cool p f T0C prof NtExp Frand (some cn) r h
  obtain ⟨hT, _⟩ := stats_at_nucleation_instant_2D p f T0C prof NtExp Frand (some cn) r h
  obtain ⟨hi, hle, hprev⟩ := (cn_trigger_first_2D p f T0C prof NtExp Frand cn r.iCool).mp hc
  have hi' : r.iCool < (shelfK prof).length := by simpa [shelfK] using hi
  have hNpos : 0 < p.Nz * p.Nr := Nat.mul_pos (by omega) (by omega)
  have hprevgt : cn + 273.15 < Snow.minA (prev2D p f T0C prof NtExp r.iCool).T := by
    cases hic : r.iCool with
    | zero =>
      obtain ⟨x, hx, hm⟩ := minA_mem (prev2D p f T0C prof NtExp 0).T (by rw [prev2D_size]; exact hNpos)
      rw [hm]
      simp only [prev2D, coolInit2D] at hx ⊢
      rw [aget_replicate _ _ _ (by simpa using hx)]
      simp only [zero_real, hk, zero_add]; linarith
    | succ k => exact hprev k (by omega)
  refine ⟨hi, by rw [hT, C08.minA_2D] at *; linarith, hprevgt, ?_⟩
  rw [hT, C08.minA_2D, st2D_step p f T0C prof NtExp r.iCool hi']
  have := coolStep2D_min_ge_general p f hf hNz hNr hR hstab NtExp r.iCool (prev2D p f T0C prof NtExp r.iCool)
    (prev2D_size p f T0C prof NtExp r.iCool) ((shelfK prof)[r.iCool])
  have hs : (shelfK prof)[r.iCool] = prof[r.iCool] + 273.15 := by simp [shelfK, hk]
  rw [hs] at this ⊢
  have e : Min.min (Min.min (Snow.minA (prev2D p f T0C prof NtExp r.iCool).T - 273.15) prof[r.iCool])
      (Snow.minA (topGhost2D p f r.iCool (prev2D p f T0C prof NtExp r.iCool).T) - 273.15)
      = Min.min (Min.min (Snow.minA (prev2D p f T0C prof NtExp r.iCool).T) (prof[r.iCool] + 273.15))
          (Snow.minA (topGhost2D p f r.iCool (prev2D p f T0C prof NtExp r.iCool).T)) - 273.15 := by
    rw [← min_sub_sub_right, ← min_sub_sub_right]; ring_nf
  rw [e]
  linarith

end Snow.C11
