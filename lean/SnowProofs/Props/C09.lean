/-
  C09 — Heat-exchange topology matches the declared vial arrangement.

  Property theorems only (helper lemmas: SnowProofs/Lemmas/Index.lean, Topology.lean).
  Model: SnowModel/Topology.lean (closed index form of the diagonals that
  `_buildInteractionMatrices` adds; `geomNbr` is the geometric specification).
  All theorems hold for every shape `nx ny nz` and both arrangements; the
  hypothesis `i < nTot nx ny nz` ("`i` is a vial") implies `nx, ny, nz ≥ 1`.
-/
import SnowProofs.Lemmas.Heat

namespace Snow.C09
open Snow.Topology

variable {nx ny nz : Nat} {i j : Nat}

/-- **two vials exchange heat iff they are geometric neighbours** in the declared
arrangement (square: 4 in-plane neighbours; hexagonal: 6, alternate rows offset; plus
the vial directly above and below). -/
theorem adj_iff_geom (arr : Arr) (hi : i < nTot nx ny nz) (hj : j < nTot nx ny nz) :
    adj arr nx ny nz i j = true ↔ geomNbr arr (coords nx ny i) (coords nx ny j) = true := by
  unfold adj
  rw [entry_geom arr hi hj]
  by_cases h : geomNbr arr (coords nx ny i) (coords nx ny j) = true <;> simp [h]

/-- exchange is mutual (the pattern is symmetric by construction) -/
theorem adj_symm (arr : Arr) (nx ny nz i j : Nat) : adj arr nx ny nz i j = adj arr nx ny nz j i := by
  unfold adj entry; rw [Nat.add_comm]

/-- no off-diagonal self-interaction -/
theorem adj_irrefl (arr : Arr) (hi : i < nTot nx ny nz) : adj arr nx ny nz i i = false := by
  have h : ¬ (geomNbr arr (coords nx ny i) (coords nx ny i) = true) := by
    cases arr <;> simp [geomNbr, dist]
  have := adj_iff_geom arr hi hi
  cases hA : adj arr nx ny nz i i
  · rfl
  · exact absurd (this.mp hA) h

/-- **every neighbouring pair is counted exactly once, with the same weight in both
directions**: the entries `(DX + DY + DZ)[i, j]` are 0 or 1 (no diagonal of the
construction falls on another one) and the matrix is symmetric. -/
theorem pair_once (arr : Arr) (hi : i < nTot nx ny nz) (hj : j < nTot nx ny nz) :
    entry arr nx ny nz i j ≤ 1 ∧ entry arr nx ny nz i j = entry arr nx ny nz j i := by
  refine ⟨?_, by unfold entry; rw [Nat.add_comm]⟩
  rw [entry_geom arr hi hj]
  split <;> omega

/-- the row sum `VIAL_INT[i]` is the number of geometric neighbours inside the batch -/
theorem deg_eq_geomDeg (arr : Arr) (hi : i < nTot nx ny nz) :
    deg arr nx ny nz i = geomDeg arr nx ny nz i := by
  unfold geomDeg
  rw [← S_indicator_eq_filter]
  show S (nTot nx ny nz) (entry arr nx ny nz i) = _
  exact S_congr (fun j hj => entry_geom arr hi hj)

/-- a vial never has more neighbours than the arrangement's maximum, so the exposure
`maxInteractions - VIAL_INT` is never truncated -/
theorem geomDeg_le_maxNbr (arr : Arr) (hi : i < nTot nx ny nz) :
    geomDeg arr nx ny nz i ≤ maxNbr arr nz := by
  rw [← deg_eq_geomDeg arr hi]
  have hc := coords_inBox hi
  have := deg_closed arr hc
  rw [idx_coords] at this
  rw [this]
  exact degC_le_maxNbr arr hc

/-- **exposure = maximum neighbour count − actual neighbours** (as an exact sum) -/
theorem ext_eq (arr : Arr) (hi : i < nTot nx ny nz) :
    ext arr nx ny nz i + geomDeg arr nx ny nz i = maxNbr arr nz := by
  have h1 := geomDeg_le_maxNbr arr hi
  have h2 := deg_eq_geomDeg arr hi
  unfold ext
  omega

/-! ### conductance matrix `H_int = k_int · A · (pattern − diag(row sums))` over any commutative ring -/

section heat
open Finset
variable {R : Type} [CommRing R]

/-- `H_int[i, j]` -/
def H (k A : R) (arr : Arr) (nx ny nz i j : Nat) : R := k * A * ((imat arr nx ny nz i j : Int) : R)

/-- rows of `H_int` sum to zero -/
theorem row_sum_zero (k A : R) (arr : Arr) (hi : i < nTot nx ny nz) :
    ∑ j ∈ range (nTot nx ny nz), H k A arr nx ny nz i j = 0 := by
  unfold H
  rw [← Finset.mul_sum, ← Int.cast_sum, imat_row_sum arr hi]
  simp

/-- columns of `H_int` sum to zero -/
theorem col_sum_zero (k A : R) (arr : Arr) (hj : j < nTot nx ny nz) :
    ∑ i ∈ range (nTot nx ny nz), H k A arr nx ny nz i j = 0 := by
  have : ∀ i, H k A arr nx ny nz i j = H k A arr nx ny nz j i := by
    intro i; unfold H; rw [imat_symm]
  rw [Finset.sum_congr rfl (fun i _ => this i)]
  exact row_sum_zero k A arr hj

/-- **heat exchanged between vials sums to zero over the batch**, for every
temperature vector `T`: `Σ_i (H_int · T)_i = 0`. -/
theorem heat_cancels (k A : R) (arr : Arr) (nx ny nz : Nat) (T : Nat → R) :
    ∑ i ∈ range (nTot nx ny nz), ∑ j ∈ range (nTot nx ny nz), H k A arr nx ny nz i j * T j = 0 := by
  rw [Finset.sum_comm]
  apply Finset.sum_eq_zero
  intro j hj
  rw [← Finset.sum_mul, col_sum_zero k A arr (Finset.mem_range.mp hj), zero_mul]

/-- `H_ext[i]` -/
def Hext (k A : R) (arr : Arr) (nx ny nz i : Nat) : R := k * A * ((ext arr nx ny nz i : Nat) : R)

/-- **the conductance matrix in terms of the neighbour relation**: entry `(i, j)` of
`H_int` is `k_int·A·([i, j exchange heat] − [i = j]·deg i)` -/
theorem H_int_eq (k A : R) (arr : Arr) (hi : i < nTot nx ny nz) (hj : j < nTot nx ny nz) :
    H k A arr nx ny nz i j
      = k * A * ((if adj arr nx ny nz i j = true then 1 else 0)
                  - (if i = j then ((deg arr nx ny nz i : Nat) : R) else 0)) := by
  unfold H imat
  by_cases h : i = j
  · subst h
    rw [adj_irrefl arr hi]
    simp
  · have h1 := (pair_once arr hi hj).1
    have hadj : adj arr nx ny nz i j = true ↔ entry arr nx ny nz i j = 1 := by
      unfold adj
      constructor
      · intro hne
        have : entry arr nx ny nz i j ≠ 0 := by simpa using hne
        omega
      · intro he; simp [he]
    by_cases ha : adj arr nx ny nz i j = true
    · have := hadj.mp ha
      simp [h, ha, this]
    · have : entry arr nx ny nz i j = 0 := by
        have : ¬ entry arr nx ny nz i j = 1 := fun e => ha (hadj.mpr e)
        omega
      simp [h, ha, this]

/-- **the external conductance vector**: `H_ext[i] = k_ext·A·(maxNbr − #geometric neighbours)`,
stated without truncation -/
theorem H_ext_eq (k A : R) (arr : Arr) (hi : i < nTot nx ny nz) :
    Hext k A arr nx ny nz i + k * A * ((geomDeg arr nx ny nz i : Nat) : R)
      = k * A * ((maxNbr arr nz : Nat) : R) := by
  unfold Hext
  rw [← mul_add, ← Nat.cast_add, ext_eq arr hi]

end heat

/-! ### the code before fix F2 -/

/-- `dy_pattern` of the square branch before fix F2: `idy_delete` ranged over
`range(n_x (n_y n_z − 1) − 1)`, so with a single row (`n_y = 1`) the last layer
boundary was not deleted and the `k = n_x` diagonal fell onto the z-diagonal. -/
def dYcUpstream (nx ny nz i j : Nat) : Bool :=
  j == i + nx && decide (i < nx * (ny * nz - 1)) &&
    !((List.range nx).any fun r =>
        decide (i + r + 1 < nx * (ny * nz - 1)) && (i + r + 1) % (nx * ny) == 0)

/-- concrete witness: in a 2×1×2 square pallet the pair (0, 2) was counted twice
(once by the y-pattern, once by the z-pattern) -/
theorem upstream_double_count_witness :
    (dX 2 0 2).toNat + (dYcUpstream 2 1 2 0 2).toNat + (dZ 2 1 2 0 2).toNat = 2
    ∧ entry .square 2 1 2 0 2 = 1 := by decide

/-- the hypotheses are satisfiable, and every kind of neighbour occurs: in a 3×3×2
hexagonal pallet vial 4 (centre of the lower layer) has its six in-plane neighbours
and the vial above. -/
theorem nonvacuous :
    (4 < nTot 3 3 2) ∧ geomDeg .hexagonal 3 3 2 4 = 7 ∧ ext .hexagonal 3 3 2 4 = 1
    ∧ adj .hexagonal 3 3 2 4 13 = true ∧ adj .square 3 3 2 4 0 = false
    ∧ geomDeg .square 1 1 1 0 = 0 ∧ ext .square 1 1 1 0 = 4 := by decide

end Snow.C09
