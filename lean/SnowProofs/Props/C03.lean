/-
  C03 — Vial nucleation follows the stated stochastic rate law.

  Model: SnowModel/Flake.lean at ℝ (`isCand`, `probEntry`, `prob`, `nucleates`, `vialFinal`,
  `kbOf`).  The uniform draws are input to the model; that numpy's generator delivers
  uniform variates on [0,1) is trusted (`step_probability` is the measure of the event under
  that assumption).  IEEE rounding is not modelled.
-/
import SnowProofs.Lemmas.FlakeStep
import Mathlib.MeasureTheory.Measure.Lebesgue.Basic

namespace Snow.C03
open Snow Num Snow.Flake Snow.FlakeLemmas

/-- the step probability of the rate law: `k_v · V · (T_eq_l − T)^b · Δt` -/
noncomputable def rateP (c : Consts ℝ) (dt kb T : ℝ) : ℝ := kb * c.V * (c.T_eq_l - T) ^ c.b * dt

theorem prob_eq (c : Consts ℝ) (dt kb T : ℝ) : prob c dt kb T = rateP c dt kb T := rfl

/-- **decision law**: a vial nucleates in a step exactly when it was liquid at the start of the
step, its temperature after the sensible update is below `T_eq_l`, and its uniform draw is below
`k_v·V·(T_eq_l − T)^b·Δt` (below 1 at the controlled-nucleation step). This is the refinement
of the masked-array form of the code to the per-vial law. -/
theorem nuc_iff (p : Params ℝ) (isCN : Bool) (m : Mid ℝ) (kb die : ℝ) :
    nucleates p isCN m kb die = true ↔
      (m.liquid = true ∧ m.v.T < p.c.T_eq_l) ∧
      die < (if isCN then 1 else rateP p.c p.dt kb m.v.T) := by
  unfold nucleates probEntry isCand
  by_cases hc : m.liquid = true ∧ m.v.T < p.c.T_eq_l
  · have hc' : (m.liquid && decide (m.v.T < p.c.T_eq_l)) = true := by simp [hc.1, hc.2]
    cases isCN <;> simp [hc.1, hc.2, prob_eq]
  · have hc' : (m.liquid && decide (m.v.T < p.c.T_eq_l)) = false := by
      by_cases h1 : m.liquid = true
      · have : ¬ m.v.T < p.c.T_eq_l := fun h => hc ⟨h1, h⟩
        simp [this]
      · simp [h1]
    simp [hc', hc]

/-- the liquid vial's temperature entering the law is the one after this step's sensible update -/
theorem nuc_iff_vial (p : Params ℝ) (tk : ℝ) (isCN anyS : Bool) (v : Vial ℝ) (q kb die : ℝ) :
    nucleates p isCN (vialMid p tk anyS v q) kb die = true ↔
      (v.sigma = 0 ∧ liquidTemp p.c p.dt q v.T < p.c.T_eq_l) ∧
      die < (if isCN then 1 else rateP p.c p.dt kb (liquidTemp p.c p.dt q v.T)) := by
  rw [nuc_iff]
  by_cases hl : v.sigma = 0
  · have : isLiquid v = true := by simp [isLiquid, hl]
    simp [vialMid, this, hl]
  · have : isLiquid v = false := by simp [isLiquid, hl]
    simp [vialMid, this, hl]

/-- **certain once the probability reaches 1** (any draw of `[0,1)`) -/
theorem nuc_certain (p : Params ℝ) (isCN : Bool) (m : Mid ℝ) (kb die : ℝ)
    (hc : isCand p.c m = true) (hP : 1 ≤ rateP p.c p.dt kb m.v.T) (hd : die < 1) :
    nucleates p isCN m kb die = true := by
  rw [nuc_iff]
  have : m.liquid = true ∧ m.v.T < p.c.T_eq_l := by
    simpa [isCand] using hc
  refine ⟨this, ?_⟩
  cases isCN
  · simp only [Bool.false_eq_true, if_false]; linarith
  · simpa using hd

/-- at the controlled-nucleation step every candidate nucleates (any draw of `[0,1)`) -/
theorem nuc_at_CN (p : Params ℝ) (m : Mid ℝ) (kb die : ℝ) (hc : isCand p.c m = true) (hd : die < 1) :
    nucleates p true m kb die = true := by
  rw [nuc_iff]
  exact ⟨by simpa [isCand] using hc, by simpa using hd⟩

/-- **a vial that is not supercooled or already contains ice never nucleates**, also at the
controlled-nucleation step, whatever the draw; the nucleation branch leaves it unchanged. -/
theorem not_candidate_never (p : Params ℝ) (tk : ℝ) (isCN : Bool) (m : Mid ℝ) (kb die : ℝ)
    (hc : ¬ (m.liquid = true ∧ m.v.T < p.c.T_eq_l)) :
    nucleates p isCN m kb die = false ∧ vialFinal p tk isCN m kb die = m.v := by
  have h : nucleates p isCN m kb die = false := by
    by_contra hn
    have : nucleates p isCN m kb die = true := by simpa using hn
    exact hc ((nuc_iff p isCN m kb die).mp this).1
  exact ⟨h, by simp [vialFinal, h]⟩

/-- a vial containing ice at the start of the step is never a candidate -/
theorem solid_never (p : Params ℝ) (tk : ℝ) (isCN anyS : Bool) (v : Vial ℝ) (q kb die : ℝ)
    (hs : v.sigma ≠ 0) :
    nucleates p isCN (vialMid p tk anyS v q) kb die = false := by
  by_contra hn
  have : nucleates p isCN (vialMid p tk anyS v q) kb die = true := by simpa using hn
  exact hs ((nuc_iff_vial p tk isCN anyS v q kb die).mp this).1.1

/-- **recorded nucleation temperature** = the liquid temperature after that step's sensible
update, i.e. the `T` that entered the probability; the recorded time is the end of the step. -/
theorem Tnuc_recorded (p : Params ℝ) (tk : ℝ) (isCN anyS : Bool) (v : Vial ℝ) (q kb die : ℝ)
    (hn : nucleates p isCN (vialMid p tk anyS v q) kb die = true) :
    let v' := vialFinal p tk isCN (vialMid p tk anyS v q) kb die
    v'.TNuc = some (liquidTemp p.c p.dt q v.T) ∧ v'.tNuc = some (tk + p.dt) ∧
    (isCN = false → die < rateP p.c p.dt kb (liquidTemp p.c p.dt q v.T)) := by
  have h := (nuc_iff_vial p tk isCN anyS v q kb die).mp hn
  have hl : isLiquid v = true := by simp [isLiquid, h.1.1]
  refine ⟨?_, ?_, ?_⟩
  · simp only [vialFinal, hn, if_true]
    simp [vialMid, hl]
  · simp only [vialFinal, hn, if_true]
  · intro hcn; have := h.2; simpa [hcn] using this

/-- a vial that does not nucleate keeps its recorded statistics -/
theorem stats_kept (p : Params ℝ) (tk : ℝ) (isCN : Bool) (m : Mid ℝ) (kb die : ℝ)
    (hn : nucleates p isCN m kb die = false) :
    (vialFinal p tk isCN m kb die).TNuc = m.v.TNuc ∧ (vialFinal p tk isCN m kb die).tNuc = m.v.tNuc := by
  simp [vialFinal, hn]

/-- **per-vial pre-exponential factor**: `k_v = 10^−(a + c·ξ_v)` is a function of `(a, c, ξ_v)`
only, it is positive, and a step of vial `i` uses no other vial's factor: replacing the factors
of all other vials leaves the new value of vial `i` unchanged. (That `ξ_v` depends on `seed_v`
only is the draw-schedule statement of C04.) -/
theorem kb_per_vial (a c xi : ℝ) (p : Params ℝ) (kb' : List ℝ) (isCN : Bool) (k : Nat) (Tsh : ℝ)
    (s : State ℝ) (i : Nat) (v : Vial ℝ) (hi : kb'.getD i 0 = p.kb.getD i 0) :
    kbOf a c xi = (10 : ℝ) ^ (-(a + xi * c)) ∧ 0 < kbOf a c xi ∧
    vialStep { p with kb := kb' } isCN k Tsh s i v = vialStep p isCN k Tsh s i v := by
  refine ⟨?_, ?_, ?_⟩
  · simp [kbOf]
  · simp only [kbOf, pow_real, ofNat'_real]
    exact Real.rpow_pos_of_pos (by norm_num) _
  · have h1 : ∀ (Ts : Array ℝ) (a b : ℝ) (j : Nat),
        heatFlow { p with kb := kb' } Ts a b j = heatFlow p Ts a b j := fun _ _ _ _ => rfl
    have h2 : mids { p with kb := kb' } k Tsh s = mids p k Tsh s := rfl
    have h3 : diceOf { p with kb := kb' } k Tsh s = diceOf p k Tsh s := rfl
    simp only [vialStep, h3, zero_real, hi]
    rfl

/-- **k_v as the run constructs it**: the parameters of a run are built by `Params.withXi a c ξ`
(`Ops/Flake.lean`, mirroring `kb = 10 ** (-(a + xi_v * c))`), so the factor of vial `i` is
`10^−(a + c·ξ_i)` of ITS OWN standard normal `ξ_i`. -/
theorem kb_from_xi (p : Params ℝ) (a c : ℝ) (xi : List ℝ) (i : Nat) (hi : i < xi.length) :
    (p.withXi a c xi).kb.getD i 0 = kbOf a c (xi.getD i 0) ∧
    (p.withXi a c xi).kb.getD i 0 = (10 : ℝ) ^ (-(a + xi.getD i 0 * c)) := by
  have h : (p.withXi a c xi).kb.getD i 0 = kbOf a c (xi.getD i 0) := by
    simp [Params.withXi, List.getD_eq_getElem?_getD, hi]
  exact ⟨h, by rw [h]; simp [kbOf]⟩

/-- **which draw belongs to which vial** (`diceRolls[candidates] = rng.random(n_candidates)`):
the `r`-th number of the generator call goes to the `r`-th candidate in vial-index order, i.e. vial
`i` — if it is a candidate — gets draw number `#{candidates with index < i}`; a vial that is not a
candidate gets no draw (its entry is 0 and is never compared, `not_candidate_never`). -/
theorem dice_routing (cands : List Bool) (draws : List ℝ) (i : Nat) :
    (assignDice cands draws).length = cands.length ∧
    (assignDice cands draws).getD i 0 =
      if cands.getD i false then draws.getD ((cands.take i).count true) 0 else 0 := by
  refine ⟨?_, ?_⟩
  · induction cands generalizing draws with
    | nil => simp [assignDice]
    | cons b cs ih =>
      cases b
      · simp [assignDice, ih]
      · cases draws <;> simp [assignDice, ih]
  · induction cands generalizing draws i with
    | nil => simp [assignDice]
    | cons b cs ih =>
      cases b
      · cases i with
        | zero => simp [assignDice]
        | succ i => simpa [assignDice, List.take_succ_cons] using ih draws i
      · cases draws with
        | nil =>
          cases i with
          | zero => simp [assignDice]
          | succ i =>
            have := ih [] i
            simp only [assignDice, List.getD_cons_succ, zero_real] at this ⊢
            rw [this]; simp
        | cons d ds =>
          cases i with
          | zero => simp [assignDice]
          | succ i =>
            have := ih ds i
            simp only [assignDice, List.getD_cons_succ, List.take_succ_cons, List.count_cons_self] at this ⊢
            rw [this]

/-- the per-vial dice of a step are that routing applied to the step's candidate mask and the
numbers delivered by the generator call of the step -/
theorem step_dice (p : Params ℝ) (k : Nat) (Tsh : ℝ) (s : State ℝ) (i : Nat) :
    (diceOf p k Tsh s).getD i 0 =
      if (candidates p k Tsh s).toList.getD i false then
        (drawn s).getD (((candidates p k Tsh s).toList.take i).count true) 0
      else 0 := by
  have := (dice_routing (candidates p k Tsh s).toList (drawn s) i).2
  simpa [diceOf, Array.getD_eq_getD_getElem?, List.getD_eq_getElem?_getD] using this

/-- **positive on candidates** -/
theorem P_pos (c : Consts ℝ) (dt kb T : ℝ) (hkb : 0 < kb) (hV : 0 < c.V) (hdt : 0 < dt)
    (hT : T < c.T_eq_l) : 0 < rateP c dt kb T := by
  unfold rateP
  have : 0 < (c.T_eq_l - T) ^ c.b := Real.rpow_pos_of_pos (by linarith) _
  positivity

/-- **more supercooling, more likely** (`b > 0`): strictly monotone in the supercooling -/
theorem P_mono_supercooling (c : Consts ℝ) (dt kb T₁ T₂ : ℝ) (hkb : 0 < kb) (hV : 0 < c.V)
    (hdt : 0 < dt) (hb : 0 < c.b) (h12 : T₁ < T₂) (hT : T₂ ≤ c.T_eq_l) :
    rateP c dt kb T₂ < rateP c dt kb T₁ := by
  unfold rateP
  have h : (c.T_eq_l - T₂) ^ c.b < (c.T_eq_l - T₁) ^ c.b :=
    Real.rpow_lt_rpow (by linarith) (by linarith) hb
  have hk : 0 < kb * c.V := by positivity
  have := mul_lt_mul_of_pos_left h hk
  exact mul_lt_mul_of_pos_right this hdt

/-- **in distribution**: for a draw `u` uniform on `[0,1)` the event "`u < P`" has Lebesgue
measure `min (max P 0) 1` — the step probability is `P`, certain once `P ≥ 1`. -/
theorem step_probability (P : ℝ) :
    MeasureTheory.volume {u : ℝ | u ∈ Set.Ico (0 : ℝ) 1 ∧ u < P}
      = ENNReal.ofReal (Min.min (Max.max P 0) 1) := by
  have : {u : ℝ | u ∈ Set.Ico (0 : ℝ) 1 ∧ u < P} = Set.Ico 0 (Min.min (Max.max P 0) 1) := by
    ext u
    constructor
    · rintro ⟨⟨h0, h1⟩, h2⟩
      exact ⟨h0, lt_min (lt_max_of_lt_left h2) h1⟩
    · rintro ⟨h0, h2⟩
      have h1 : u < 1 := lt_of_lt_of_le h2 (min_le_right _ _)
      have h3 : u < Max.max P 0 := lt_of_lt_of_le h2 (min_le_left _ _)
      rcases lt_max_iff.mp h3 with h | h
      · exact ⟨⟨h0, h1⟩, h⟩
      · exact absurd h (not_lt.mpr h0)
  rw [this, Real.volume_Ico]
  simp

/-- non-vacuity: default kinetics (a = 29, b = 29.3, c = 1, ξ = 0), 1 cm³ vial, Δt = 2 s,
T_eq_l ≈ −0.285 °C: the hypotheses of `P_pos` and `P_mono_supercooling` hold for a vial at −12 °C
(positive step probability) and the probability at −13 °C is strictly larger. -/
theorem nonvacuous :
    let c : Consts ℝ := {
      solid_fraction := 0.05, cp_s := 1240, cp_w := 4187, cp_i := 2108
      cp_solution := 4039.65, depression := 0.285, mass := 0.001, alpha := -316.87
      beta_solution := 1.15, T_eq := 0, T_eq_l := -0.285, hl := 4.04, b := 29.3, V := 0.000001 }
    0 < rateP c 2 (kbOf 29 1 0) (-12) ∧ rateP c 2 (kbOf 29 1 0) (-13) > rateP c 2 (kbOf 29 1 0) (-12) := by
  intro c
  have hkb : 0 < kbOf (29 : ℝ) 1 0 := by
    simp only [kbOf, pow_real, ofNat'_real]
    exact Real.rpow_pos_of_pos (by norm_num) _
  refine ⟨P_pos c 2 _ (-12) hkb (by norm_num) (by norm_num) (by norm_num), ?_⟩
  exact P_mono_supercooling c 2 _ (-13) (-12) hkb (by norm_num) (by norm_num) (by norm_num)
    (by norm_num) (by norm_num)

end Snow.C03
