/-
  C01 — Every vial step obeys the shelf-scale heat and phase balance.

  Property theorems only (helpers: SnowProofs/Lemmas/Flake.lean, FlakeStep.lean).
  Model: SnowModel/Flake.lean at ℝ.  Specification: `SpecLiquid`, `SpecSolid`, `SpecIndirect`,
  `SpecDirect` in Lemmas/Flake.lean, written from docs_src/development.rst (eqs. 2, 5, 9, 12)
  in terms of the primary physical parameters `Phys`, not from the code.
  IEEE rounding is not modelled.
-/
import SnowProofs.Lemmas.FlakeStep
import SnowProofs.Lemmas.FlakeGeom
import SnowProofs.Props.C05
import SnowProofs.Props.C06

namespace Snow.C01
open Snow Num Snow.Flake Snow.FlakeLemmas

/-- **net heat flow**: the code's `H_int @ T + H_ext*(T_ext − T) + H_shelf*(T_sh − T)` is, for
every vial, the sum over its neighbours of `k_int·A·(T_j − T_i)` plus the exchange with the
surroundings through its `ext_i` free faces plus the exchange with the shelf. -/
theorem q_refines (p : Params ℝ) (Ts : Array ℝ) (Tsh Text : ℝ) (i : Nat) :
    heatFlow p Ts Tsh Text i =
      ((p.nbrs.getD i []).map fun j => p.kInt * p.A * (Ts.getD j 0 - Ts.getD i 0)).sum
        + (p.ext.getD i 0 : ℝ) * p.kExt * p.A * (Text - Ts.getD i 0)
        + p.kShelf.getD i 0 * p.A * (Tsh - Ts.getD i 0) :=
  heatFlow_eq p Ts Tsh Text i

/-- **energy exchanged between vials cancels exactly over the batch**, for every symmetric
neighbour structure (C09: the code's interaction matrix is symmetric). -/
theorem heat_cancels (p : Params ℝ) (Ts : Array ℝ) (n : Nat) (hs : SymNbrs p.nbrs n) :
    ∑ i ∈ Finset.range n,
      ((p.nbrs.getD i []).map fun j => p.kInt * p.A * (Ts.getD j 0 - Ts.getD i 0)).sum = 0 :=
  qPair_sum_zero p Ts n hs

/-- **energy exchanged between vials cancels exactly over the batch — for every declared
shape and both arrangements, with no hypothesis on the neighbour structure**: the model computes
the neighbour lists of the shape itself (`nbrsOf`, the closed form of
`_buildInteractionMatrices`, C09) and they are symmetric. -/
theorem heat_cancels_shape (p : Params ℝ) (arr : Snow.Topology.Arr) (nx ny nz : Nat) (Ts : Array ℝ) :
    ∑ i ∈ Finset.range (Snow.Topology.nTot nx ny nz), qInt (p.withShape arr nx ny nz) Ts i = 0 := by
  simp only [qInt_eq]
  exact qPair_sum_zero (p.withShape arr nx ny nz) Ts _ (symNbrs_shape arr nx ny nz)

/-- **the net heat flow of a vial in a declared shape** is: the sum over its GEOMETRIC
neighbours (C09 `geomNbr`: square — the four in-plane lattice neighbours; hexagonal — six,
alternate rows offset by half a pitch; plus the vial directly above/below) of
`k_int·A·(T_j − T_i)`, plus `(maxNbr − #neighbours)` free faces exchanging with the surroundings,
plus the shelf. -/
theorem q_refines_shape (p : Params ℝ) (arr : Snow.Topology.Arr) (nx ny nz : Nat) (Ts : Array ℝ)
    (Tsh Text : ℝ) (i : Nat) (hi : i < Snow.Topology.nTot nx ny nz) :
    heatFlow (p.withShape arr nx ny nz) Ts Tsh Text i =
      (∑ j ∈ (Finset.range (Snow.Topology.nTot nx ny nz)).filter
          (fun j => Snow.Topology.geomNbr arr (Snow.Topology.coords nx ny i)
            (Snow.Topology.coords nx ny j) = true),
          p.kInt * p.A * (Ts.getD j 0 - Ts.getD i 0))
      + ((Snow.Topology.maxNbr arr nz : ℝ) - (Snow.Topology.geomDeg arr nx ny nz i : ℝ))
          * p.kExt * p.A * (Text - Ts.getD i 0)
      + p.kShelf.getD i 0 * p.A * (Tsh - Ts.getD i 0) := by
  rw [heatFlow_eq]
  have hnb : (p.withShape arr nx ny nz).nbrs = nbrsOf arr nx ny nz := rfl
  have hext : (p.withShape arr nx ny nz).ext = extOf arr nx ny nz := rfl
  have hk : (p.withShape arr nx ny nz).kInt = p.kInt ∧ (p.withShape arr nx ny nz).A = p.A ∧
      (p.withShape arr nx ny nz).kExt = p.kExt ∧ (p.withShape arr nx ny nz).kShelf = p.kShelf :=
    ⟨rfl, rfl, rfl, rfl⟩
  have hq := qPair_as_sum (p.withShape arr nx ny nz) Ts (Snow.Topology.nTot nx ny nz) i
    ((symNbrs_shape arr nx ny nz).lt i hi)
  rw [hq, hnb, hext, hk.1, hk.2.1, hk.2.2.1, hk.2.2.2, nbrsOf_getD arr nx ny nz i hi,
    extOf_getD arr nx ny nz i hi, Snow.C09.deg_eq_geomDeg arr hi, Finset.sum_filter]
  congr 1
  · congr 1
    · apply Finset.sum_congr rfl
      intro j hj
      have hj' := Finset.mem_range.mp hj
      rw [count_nbrRow, if_pos hj', Snow.Topology.entry_geom arr hi hj']
      split <;> simp
    · push_cast; ring

/-- **liquid step**: `m·c_p·ΔT = q·Δt`. -/
theorem liquid_is_sensible (ph : Phys) (h : ph.Valid) (dt q T : ℝ) :
    SpecLiquid ph dt q T (liquidTemp ph.consts dt q T) 0 :=
  ⟨liquidTemp_spec ph h dt q T, rfl⟩

/-- **solidifying step**: explicit Euler step of eq. 5, temperature on the curve of eq. 2.
`σ ≠ 1` and a non-vanishing bracket hold for every `0 ≤ σ < 1` (`Phys.Valid.bracket_pos`). -/
theorem solid_is_eq5 (ph : Phys) (h : ph.Valid) (dt q σ : ℝ) (hdt : dt ≠ 0) (hσ : σ ≠ 1)
    (hb : ph.bracket σ ≠ 0) :
    SpecSolid ph dt q σ (eqTemp ph.consts (solidSigma ph.consts dt q σ)) (solidSigma ph.consts dt q σ) :=
  ⟨solidSigma_spec ph h dt q σ hdt hσ hb, eqTemp_curve ph _⟩

/-- **indirect formulation = eq. 9** -/
theorem indirect_is_eq9 (ph : Phys) (h : ph.Valid) (Tn : ℝ) :
    sigmaIndirect ph.consts Tn = (ph.TeqL - Tn) / (ph.D + ph.lam / ph.cpl * (1 - ph.w_s)) :=
  sigmaIndirect_spec ph h Tn

/-- **direct formulation solves eq. 12**: for a supercooled vial (`Tn < T^eq_ℓ`) the code's
`+√` root satisfies the quadratic, lies in `(0,1)`, and is the only root there. -/
theorem direct_solves_eq12 (ph : Phys) (h : ph.Valid) (Tn : ℝ) (hT : Tn < ph.TeqL) :
    (ph.eq12 Tn (sigmaDirect ph.consts Tn) = 0 ∧ 0 < sigmaDirect ph.consts Tn
      ∧ sigmaDirect ph.consts Tn < 1) ∧
    ∀ x, ph.eq12 Tn x = 0 → 0 < x → x < 1 → x = sigmaDirect ph.consts Tn := by
  have := sigmaDirect_spec ph h Tn hT
  exact ⟨this.1, fun x h0 h1 h2 => this.2 x ⟨h0, h1, h2⟩⟩

/-- **derived constants**: what `calculateDerived` hands to `run()` are the documented
combinations `m = ρV`, `hl = m c_p`, `D = k_f/M_s·w_s/(1−w_s)`, `alpha = −m λ (1−w_s)`,
`beta_solution = D m c_p`, `T_eq_l = T_m − D`, and these are what the step formulas use. -/
theorem derived_constants_used (y : Primary ℝ) :
    deriveConsts y = (physOf y).consts ∧
    (let ph := physOf y
     ph.consts.mass = ph.m ∧ ph.consts.hl = ph.m * ph.cpl ∧ ph.consts.depression = ph.D ∧
     ph.consts.alpha = -(ph.m * ph.lam * (1 - ph.w_s)) ∧
     ph.consts.beta_solution = ph.D * ph.m * ph.cpl ∧ ph.consts.T_eq_l = ph.T_m - ph.D ∧
     ph.consts.cp_solution = ph.cpl ∧
     (∀ dt q T, liquidTemp ph.consts dt q T = T + q / (ph.m * ph.cpl) * dt) ∧
     (∀ σ, eqTemp ph.consts σ = ph.T_m - ph.D * (1 / (1 - σ)))) := by
  refine ⟨?_, ?_⟩
  · simp only [deriveConsts, physOf, Phys.consts, one_real]
  · refine ⟨rfl, rfl, rfl, ?_, rfl, rfl, rfl, fun _ _ _ => rfl, fun σ => ?_⟩
    · simp only [Phys.consts, Phys.m]; ring
    · exact eqTemp_curve _ σ

/-- **a vial transition is exactly one of the three transitions of the published model**,
for every old vial state, net heat flow `q`, per-vial `kb`, dice value and CN flag; which one is
decided by `σ = 0` and the nucleation decision. `hs`: a vial containing ice has `σ ≠ 1` and a
non-vanishing bracket in eq. 5 (true for `0 < σ < 1`, see `vial_trichotomy_admissible`). -/
theorem vial_trichotomy (ph : Phys) (hv : ph.Valid) (p : Params ℝ) (hc : p.c = ph.consts)
    (hdt : p.dt ≠ 0) (tk : ℝ) (isCN anyS : Bool) (v : Vial ℝ) (q kb die : ℝ)
    (hs : v.sigma ≠ 0 → v.sigma ≠ 1 ∧ ph.bracket v.sigma ≠ 0) :
    let m := vialMid p tk anyS v q
    let v' := vialFinal p tk isCN m kb die
    let nuc := nucleates p isCN m kb die
    (v.sigma = 0 ∧ nuc = false ∧ SpecLiquid ph p.dt q v.T v'.T v'.sigma) ∨
    (v.sigma = 0 ∧ nuc = true ∧ ∃ Tn, SpecLiquid ph p.dt q v.T Tn 0 ∧ Tn < ph.TeqL ∧
        SpecJumpSigma p.initIce ph Tn v'.sigma ∧ v'.T = ph.curve v'.sigma ∧
        v'.TNuc = some Tn ∧ v'.tNuc = some (tk + p.dt)) ∨
    (v.sigma ≠ 0 ∧ nuc = false ∧ SpecSolid ph p.dt q v.sigma v'.T v'.sigma) := by
  intro m v' nuc
  by_cases hl : v.sigma = 0
  · -- liquid at the start of the step
    have hliq : isLiquid v = true := by simp [isLiquid, hl]
    have hm : m = ⟨{ v with T := liquidTemp p.c p.dt q v.T, tSol := tSolUpdate p tk anyS v }, true⟩ := by
      simp only [m, vialMid, hliq, if_true]
    by_cases hn : nuc = true
    · right; left
      refine ⟨hl, hn, liquidTemp ph.consts p.dt q v.T, liquid_is_sensible ph hv p.dt q v.T, ?_⟩
      have hcand : isCand p.c m = true := by
        have : nucleates p isCN m kb die = true := hn
        simp only [nucleates, Bool.and_eq_true] at this
        exact this.1
      have hTn : liquidTemp ph.consts p.dt q v.T < ph.TeqL := by
        simp only [isCand, hm, Bool.true_and, decide_eq_true_eq, hc] at hcand
        exact hcand
      have hv' : v' = { m.v with T := eqTemp p.c (sigmaJump p.initIce p.c m.v.T),
                                  sigma := sigmaJump p.initIce p.c m.v.T,
                                  tNuc := some (tk + p.dt), TNuc := some m.v.T } := by
        have : nucleates p isCN m kb die = true := hn
        simp only [v', vialFinal, this, if_true]
      have hmT : m.v.T = liquidTemp ph.consts p.dt q v.T := by rw [hm, hc]
      refine ⟨hTn, ?_, ?_, ?_, ?_⟩
      · rw [hv']
        simp only [hmT, hc]
        cases p.initIce with
        | indirect => exact sigmaIndirect_spec ph hv _
        | direct => exact (sigmaDirect_spec ph hv _ hTn).1
      · rw [hv']; simp only [hc]; exact eqTemp_curve ph _
      · rw [hv', hmT]
      · rw [hv']
    · left
      have hn' : nuc = false := by simpa using hn
      refine ⟨hl, hn', ?_⟩
      have hv' : v' = m.v := by
        have : nucleates p isCN m kb die = false := hn'
        simp only [v', vialFinal, this]
        rfl
      rw [hv', hm]
      simp only [hc]
      exact ⟨liquidTemp_spec ph hv p.dt q v.T, hl⟩
  · -- contains ice
    right; right
    have hliq : isLiquid v = false := by simp [isLiquid, hl]
    have hm : m = ⟨{ v with
        T := eqTemp p.c (solidSigma p.c p.dt q v.sigma)
        sigma := solidSigma p.c p.dt q v.sigma
        tSol := tSolUpdate p tk anyS v }, false⟩ := by
      simp only [m, vialMid, hliq]
      rfl
    have hn : nuc = false := by
      simp only [nuc, nucleates, isCand, hm, Bool.false_and]
    have hv' : v' = m.v := by
      have : nucleates p isCN m kb die = false := hn
      simp only [v', vialFinal, this]
      rfl
    refine ⟨hl, hn, ?_⟩
    rw [hv', hm]
    simp only [hc]
    exact solid_is_eq5 ph hv p.dt q v.sigma hdt (hs hl).1 (hs hl).2

/-- the side condition of `vial_trichotomy` holds for every admissible ice fraction -/
theorem vial_trichotomy_admissible (ph : Phys) (hv : ph.Valid) (σ : ℝ) (h0 : 0 ≤ σ) (h1 : σ < 1) :
    σ ≠ 1 ∧ ph.bracket σ ≠ 0 :=
  ⟨ne_of_lt h1, ne_of_gt (hv.bracket_pos h0 h1)⟩

/-- **every vial of every step**: the new value of vial `i` after `stepCN` is the transition
of `vial_trichotomy` driven by the net heat flow of `q_refines` computed from the OLD state. -/
theorem step_trichotomy (ph : Phys) (hv : ph.Valid) (p : Params ℝ) (hc : p.c = ph.consts)
    (hdt : p.dt ≠ 0) (isCN : Bool) (k : Nat) (Tsh : ℝ) (s : State ℝ) (i : Nat) (v : Vial ℝ)
    (hi : s.vials[i]? = some v)
    (hs : v.sigma ≠ 0 → v.sigma ≠ 1 ∧ ph.bracket v.sigma ≠ 0) :
    ∃ v', (stepCN p isCN k Tsh s).vials[i]? = some v' ∧
      let q := heatFlow p (temps s) Tsh Tsh i
      let tk := timeAt p.dt k
      let m := vialMid p tk (anySolid s) v q
      let nuc := nucleates p isCN m (p.kb.getD i 0) ((diceOf p k Tsh s).getD i 0)
      ((v.sigma = 0 ∧ nuc = false ∧ SpecLiquid ph p.dt q v.T v'.T v'.sigma) ∨
       (v.sigma = 0 ∧ nuc = true ∧ ∃ Tn, SpecLiquid ph p.dt q v.T Tn 0 ∧ Tn < ph.TeqL ∧
          SpecJumpSigma p.initIce ph Tn v'.sigma ∧ v'.T = ph.curve v'.sigma ∧
          v'.TNuc = some Tn ∧ v'.tNuc = some (tk + p.dt)) ∨
       (v.sigma ≠ 0 ∧ nuc = false ∧ SpecSolid ph p.dt q v.sigma v'.T v'.sigma)) := by
  refine ⟨vialStep p isCN k Tsh s i v, ?_, ?_⟩
  · rw [stepCN_getElem?, hi]; rfl
  · have := vial_trichotomy ph hv p hc hdt (timeAt p.dt k) isCN (anySolid s) v
      (heatFlow p (temps s) Tsh Tsh i) (p.kb.getD i 0) ((diceOf p k Tsh s).getD i 0) hs
    simpa [vialStep] using this

/-- **the run is the iterated step**: column 0 is the initial state, column `j+1` is the step
function applied to column `j` with the shelf temperature of step `j`, there is one column per
profile sample, and the statistics are those of the state after the last step. -/
theorem run_steps (inp : Inputs ℝ) (kCN : Nat) :
    let r := runWith inp kCN
    r.traj.size = nSteps inp.oc.t_tot inp.p.dt ∧
    r.Tshelf = profile inp.oc inp.p.dt ∧
    (0 < r.traj.size → r.traj[0]? = some (init inp)) ∧
    (∀ j sj T, r.traj[j]? = some sj → r.Tshelf[j]? = some T → j + 1 < r.traj.size →
        r.traj[j + 1]? = some (step inp.p kCN j T sj)) ∧
    (∀ sl T, r.traj[r.traj.size - 1]? = some sl → r.Tshelf[r.traj.size - 1]? = some T →
        0 < r.traj.size → r.final = step inp.p kCN (r.traj.size - 1) T sl) := by
  intro r
  have hr : r = ⟨nTimeSteps inp, timeVec (nTimeSteps inp) inp.p.dt, kCN, profile inp.oc inp.p.dt,
      (trajList inp.p kCN 0 (profile inp.oc inp.p.dt) (init inp)).toArray,
      finalState inp.p kCN 0 (profile inp.oc inp.p.dt) (init inp)⟩ := by
    simp only [r, runWith, loop_eq]
    simp
  have hlen : (profile inp.oc inp.p.dt).length = nSteps inp.oc.t_tot inp.p.dt :=
    Snow.C05.profile_length inp.oc inp.p.dt
  rw [hr]
  refine ⟨by simp [hlen], rfl, ?_, ?_, ?_⟩
  · intro h
    simp only [List.size_toArray, trajList_length] at h
    cases hp : profile inp.oc inp.p.dt with
    | nil => rw [hp] at h; simp at h
    | cons T rest => simp [trajList]
  · intro j sj T h1 h2 h3
    simp only [List.size_toArray, trajList_length, List.getElem?_toArray] at h1 h2 h3 ⊢
    have := trajList_succ inp.p kCN 0 _ (init inp) j sj T h1 h2 h3
    simpa using this
  · intro sl T h1 h2 h3
    simp only [List.size_toArray, trajList_length, List.getElem?_toArray] at h1 h2 h3 ⊢
    have hne : profile inp.oc inp.p.dt ≠ [] := by
      intro h; rw [h] at h3; simp at h3
    have := finalState_eq inp.p kCN 0 _ (init inp) sl T h1 h2 hne
    simpa using this

/-- **the selected formulation does not depend on the capitalisation** the user typed
(`self.initIce = initIce.lower()`): the model's parser maps a string by its lower-case form only. -/
theorem initIce_case_insensitive (s t : String) (h : s.toLower = t.toLower) :
    InitIce.ofString s = InitIce.ofString t := by
  unfold InitIce.ofString
  rw [h]

/-! ### run level -/

/-- "the new value `v'` of vial `i` (old value `v`) after step `k` of state `s` is one of the three
transitions of the published model", with the net heat flow computed from the OLD state -/
def IsTransition (ph : Phys) (p : Params ℝ) (isCN : Bool) (k : Nat) (Tsh : ℝ) (s : State ℝ) (i : Nat)
    (v v' : Vial ℝ) : Prop :=
  let q := heatFlow p (temps s) Tsh Tsh i
  let tk := timeAt p.dt k
  let m := vialMid p tk (anySolid s) v q
  let nuc := nucleates p isCN m (p.kb.getD i 0) ((diceOf p k Tsh s).getD i 0)
  (v.sigma = 0 ∧ nuc = false ∧ SpecLiquid ph p.dt q v.T v'.T v'.sigma) ∨
  (v.sigma = 0 ∧ nuc = true ∧ ∃ Tn, SpecLiquid ph p.dt q v.T Tn 0 ∧ Tn < ph.TeqL ∧
      SpecJumpSigma p.initIce ph Tn v'.sigma ∧ v'.T = ph.curve v'.sigma ∧
      v'.TNuc = some Tn ∧ v'.tNuc = some (tk + p.dt)) ∨
  (v.sigma ≠ 0 ∧ nuc = false ∧ SpecSolid ph p.dt q v.sigma v'.T v'.sigma)

/-- **every recorded transition of a run is one of the three transitions** (PARTIAL — conditional
on the monitored side condition, exactly as `C06.run_admissible_partial`): for a well-formed
program inside the stable range, for every column `j` and every vial `i` of `runWith inp kCN`
(in particular of `run inp`), the next column (the final state after the last step) is the step
function applied to column `j`, and the vial's new value is a transition of the published model.
The side hypothesis `hs` of `step_trichotomy` is discharged by C06's admissibility invariant
(`0 ≤ σ < 1` in every column). -/
theorem run_trichotomy_partial {ph : Phys} (inp : Inputs ℝ) (kCN : Nat) (hi : ℝ)
    (hwf : Snow.C05.WF inp.oc inp.p.dt)
    (st : Snow.C06.Stable ph inp.p inp.nVials inp.oc.stop hi)
    (hT0 : inp.oc.start ≤ inp.T0) (hT0hi : inp.T0 ≤ hi) (hstart : inp.oc.start ≤ hi)
    (hside : ∀ (j : Nat) (sj : State ℝ) (T : ℝ), (runWith inp kCN).traj[j]? = some sj →
      (runWith inp kCN).Tshelf[j]? = some T → Snow.C06.SideCond ph inp.p sj T) :
    ∀ (j : Nat) (sj : State ℝ) (T : ℝ), (runWith inp kCN).traj[j]? = some sj →
      (runWith inp kCN).Tshelf[j]? = some T →
      (j + 1 < (runWith inp kCN).traj.size →
        (runWith inp kCN).traj[j + 1]? = some (step inp.p kCN j T sj)) ∧
      (j + 1 = (runWith inp kCN).traj.size → (runWith inp kCN).final = step inp.p kCN j T sj) ∧
      ∀ (i : Nat) (v : Vial ℝ), sj.vials[i]? = some v →
        ∃ v', (step inp.p kCN j T sj).vials[i]? = some v' ∧
          IsTransition ph inp.p (j == kCN) j T sj i v v' := by
  intro j sj T hj hT
  have hrs := run_steps inp kCN
  simp only at hrs
  refine ⟨fun h => hrs.2.2.2.1 j sj T hj hT h, ?_, ?_⟩
  · intro h
    have hpos : 0 < (runWith inp kCN).traj.size := by omega
    have e : (runWith inp kCN).traj.size - 1 = j := by omega
    have := hrs.2.2.2.2 sj T (by rw [e]; exact hj) (by rw [e]; exact hT) hpos
    rw [e] at this; exact this
  · intro i v hv
    have hA := (Snow.C06.run_admissible_partial inp kCN hi hwf st hT0 hT0hi hstart hside j sj hj i v hv).1
    have hs : v.sigma ≠ 0 → v.sigma ≠ 1 ∧ ph.bracket v.sigma ≠ 0 := by
      intro h0
      obtain ⟨h1, h2, _, _⟩ := Snow.C06.adm_solid hA h0
      exact vial_trichotomy_admissible ph st.valid _ (le_of_lt h1) h2
    exact step_trichotomy ph st.valid inp.p st.consts (ne_of_gt st.dt_pos) (j == kCN) j T sj i v hv hs

/-- **a recorded transition is one of the three whenever the vial's ice fraction is in `[0, 1)`**
(UNCONDITIONAL otherwise: no stability range, no side condition): in particular every transition
out of an ice-free column, and — by C06 `run_admissible_until_first_nucleation`,
`run_bounds_uncoupled`, `run_bounds_below_liquidus` — every transition up to and including the
first column with ice, every transition of thermally uncoupled vials and of processes starting
at or below the liquidus. -/
theorem run_transition_of_range (ph : Phys) (hv : ph.Valid) (inp : Inputs ℝ) (hc : inp.p.c = ph.consts)
    (hdt : inp.p.dt ≠ 0) (kCN : Nat) (j : Nat) (sj : State ℝ) (T : ℝ)
    (hj : (runWith inp kCN).traj[j]? = some sj) (hT : (runWith inp kCN).Tshelf[j]? = some T)
    (i : Nat) (v : Vial ℝ) (hvi : sj.vials[i]? = some v) (h0 : 0 ≤ v.sigma) (h1 : v.sigma < 1) :
    (j + 1 < (runWith inp kCN).traj.size →
        (runWith inp kCN).traj[j + 1]? = some (step inp.p kCN j T sj)) ∧
    (j + 1 = (runWith inp kCN).traj.size → (runWith inp kCN).final = step inp.p kCN j T sj) ∧
    ∃ v', (step inp.p kCN j T sj).vials[i]? = some v' ∧ IsTransition ph inp.p (j == kCN) j T sj i v v' := by
  have hrs := run_steps inp kCN
  simp only at hrs
  refine ⟨fun h => hrs.2.2.2.1 j sj T hj hT h, ?_, ?_⟩
  · intro h
    have hpos : 0 < (runWith inp kCN).traj.size := by omega
    have e : (runWith inp kCN).traj.size - 1 = j := by omega
    have := hrs.2.2.2.2 sj T (by rw [e]; exact hj) (by rw [e]; exact hT) hpos
    rw [e] at this; exact this
  exact step_trichotomy ph hv inp.p hc hdt (j == kCN) j T sj i v hvi
    (fun _ => vial_trichotomy_admissible ph hv _ h0 h1)

/-- **every recorded transition of a process that starts at or below the liquidus is one of the
three transitions — NOTHING monitored**: composition of `run_transition_of_range` with
`C06.run_bounds_below_liquidus` (which supplies `0 ≤ σ < 1` in every column from the stability range
and the static inequality `StaticSide` alone). Same conclusion as `run_trichotomy_partial`, without
its per-step side condition `hside`. -/
theorem run_trichotomy_below_liquidus {ph : Phys} (inp : Inputs ℝ) (kCN : Nat)
    (hwf : Snow.C05.WF inp.oc inp.p.dt)
    (st : Snow.C06.Stable ph inp.p inp.nVials inp.oc.stop ph.TeqL)
    (hstat : Snow.C06.StaticSide ph inp.p inp.nVials inp.oc.stop)
    (hT0 : inp.oc.start ≤ inp.T0) (hT0hi : inp.T0 ≤ ph.TeqL) (hstart : inp.oc.start ≤ ph.TeqL) :
    ∀ (j : Nat) (sj : State ℝ) (T : ℝ), (runWith inp kCN).traj[j]? = some sj →
      (runWith inp kCN).Tshelf[j]? = some T →
      (j + 1 < (runWith inp kCN).traj.size →
        (runWith inp kCN).traj[j + 1]? = some (step inp.p kCN j T sj)) ∧
      (j + 1 = (runWith inp kCN).traj.size → (runWith inp kCN).final = step inp.p kCN j T sj) ∧
      ∀ (i : Nat) (v : Vial ℝ), sj.vials[i]? = some v →
        ∃ v', (step inp.p kCN j T sj).vials[i]? = some v' ∧
          IsTransition ph inp.p (j == kCN) j T sj i v v' := by
  intro j sj T hj hT
  have hb := Snow.C06.run_bounds_below_liquidus inp kCN hwf st hstat hT0 hT0hi hstart j sj hj
  have h0 := fun i v hvi => run_transition_of_range ph st.valid inp st.consts (ne_of_gt st.dt_pos)
    kCN j sj T hj hT i v hvi (hb i v hvi).1.1 (hb i v hvi).1.2
  have hrs := run_steps inp kCN
  simp only at hrs
  refine ⟨fun h => hrs.2.2.2.1 j sj T hj hT h, ?_, fun i v hvi => (h0 i v hvi).2.2⟩
  intro h
  have hpos : 0 < (runWith inp kCN).traj.size := by omega
  have e : (runWith inp kCN).traj.size - 1 = j := by omega
  have := hrs.2.2.2.2 sj T (by rw [e]; exact hj) (by rw [e]; exact hT) hpos
  rw [e] at this; exact this

/-- **every recorded transition of thermally uncoupled vials (`k_int·A = 0`) is one of the three
transitions — NOTHING monitored**: composition of `run_transition_of_range` with
`C06.run_bounds_uncoupled`; any start temperature inside the stability range. -/
theorem run_trichotomy_uncoupled {ph : Phys} (inp : Inputs ℝ) (kCN : Nat) (hi : ℝ)
    (hwf : Snow.C05.WF inp.oc inp.p.dt)
    (st : Snow.C06.Stable ph inp.p inp.nVials inp.oc.stop hi)
    (hk : inp.p.kInt * inp.p.A = 0)
    (hT0 : inp.oc.start ≤ inp.T0) (hT0hi : inp.T0 ≤ hi) (hstart : inp.oc.start ≤ hi) :
    ∀ (j : Nat) (sj : State ℝ) (T : ℝ), (runWith inp kCN).traj[j]? = some sj →
      (runWith inp kCN).Tshelf[j]? = some T →
      (j + 1 < (runWith inp kCN).traj.size →
        (runWith inp kCN).traj[j + 1]? = some (step inp.p kCN j T sj)) ∧
      (j + 1 = (runWith inp kCN).traj.size → (runWith inp kCN).final = step inp.p kCN j T sj) ∧
      ∀ (i : Nat) (v : Vial ℝ), sj.vials[i]? = some v →
        ∃ v', (step inp.p kCN j T sj).vials[i]? = some v' ∧
          IsTransition ph inp.p (j == kCN) j T sj i v v' := by
  intro j sj T hj hT
  have hb := Snow.C06.run_bounds_uncoupled inp kCN hi hwf st hk hT0 hT0hi hstart j sj hj
  have h0 := fun i v hvi => run_transition_of_range ph st.valid inp st.consts (ne_of_gt st.dt_pos)
    kCN j sj T hj hT i v hvi (hb i v hvi).1.1 (hb i v hvi).1.2
  have hrs := run_steps inp kCN
  simp only at hrs
  refine ⟨fun h => hrs.2.2.2.1 j sj T hj hT h, ?_, fun i v hvi => (h0 i v hvi).2.2⟩
  intro h
  have hpos : 0 < (runWith inp kCN).traj.size := by omega
  have e : (runWith inp kCN).traj.size - 1 = j := by omega
  have := hrs.2.2.2.2 sj T (by rw [e]; exact hj) (by rw [e]; exact hT) hpos
  rw [e] at this; exact this

/-- **every recorded transition out of the columns up to and including the first column with ice
is one of the three transitions — NOTHING monitored, ANY coupling, ANY start temperature in the
stability range**: if the columns before `J` are ice-free (e.g. `J` = the first column with ice),
then for every `j ≤ J` the transition of every vial from column `j` is one of the three
(`run_transition_of_range` + `C06.run_admissible_until_first_nucleation`). In particular the
nucleation jumps that create the first ice, and the first solidification steps after them. -/
theorem run_trichotomy_until_first_nucleation {ph : Phys} (inp : Inputs ℝ) (kCN : Nat) (hi : ℝ) (J : Nat)
    (hwf : Snow.C05.WF inp.oc inp.p.dt)
    (st : Snow.C06.Stable ph inp.p inp.nVials inp.oc.stop hi)
    (hT0 : inp.oc.start ≤ inp.T0) (hT0hi : inp.T0 ≤ hi) (hstart : inp.oc.start ≤ hi)
    (hliq : ∀ (j : Nat) (sj : State ℝ), (runWith inp kCN).traj[j]? = some sj → j < J →
      ∀ (i : Nat) (v : Vial ℝ), sj.vials[i]? = some v → v.sigma = 0) :
    ∀ (j : Nat) (sj : State ℝ) (T : ℝ), (runWith inp kCN).traj[j]? = some sj →
      (runWith inp kCN).Tshelf[j]? = some T → j ≤ J →
      ∀ (i : Nat) (v : Vial ℝ), sj.vials[i]? = some v →
        ∃ v', (step inp.p kCN j T sj).vials[i]? = some v' ∧
          IsTransition ph inp.p (j == kCN) j T sj i v v' := by
  intro j sj T hj hT hjJ i v hvi
  have hb := Snow.C06.run_admissible_until_first_nucleation inp kCN hi J hwf st hT0 hT0hi hstart hliq
    j sj hj hjJ i v hvi
  exact (run_transition_of_range ph st.valid inp st.consts (ne_of_gt st.dt_pos)
    kCN j sj T hj hT i v hvi hb.1.1 hb.1.2).2.2

/-- **a run on a declared shape uses the geometric heat flow**: when the parameters of the run
are built by `Params.withShape` (which is what the driver does for the `arr`/`shape` the user
configured, `Ops/Flake.lean`), then in every step of the run the new value of vial `i` is
`vialStep`, whose net heat flow `heatFlow inp.p (temps s) T T i` is the sum over the geometric
neighbours + free faces + shelf of `q_refines_shape`, and the inter-vial heat cancels
(`heat_cancels_shape`) — the shape theorems are statements about runs. -/
theorem run_uses_shape (inp : Inputs ℝ) (p0 : Params ℝ) (arr : Snow.Topology.Arr) (nx ny nz : Nat)
    (hp : inp.p = p0.withShape arr nx ny nz) (kCN : Nat) :
    ∀ (j : Nat) (sj : State ℝ) (T : ℝ), (runWith inp kCN).traj[j]? = some sj →
      (runWith inp kCN).Tshelf[j]? = some T →
      (∀ i, (step inp.p kCN j T sj).vials[i]? = (sj.vials[i]?).map (vialStep inp.p (j == kCN) j T sj i)) ∧
      (∀ i, i < Snow.Topology.nTot nx ny nz →
        heatFlow inp.p (temps sj) T T i =
          (∑ j' ∈ (Finset.range (Snow.Topology.nTot nx ny nz)).filter
              (fun j' => Snow.Topology.geomNbr arr (Snow.Topology.coords nx ny i)
                (Snow.Topology.coords nx ny j') = true),
              p0.kInt * p0.A * ((temps sj).getD j' 0 - (temps sj).getD i 0))
          + ((Snow.Topology.maxNbr arr nz : ℝ) - (Snow.Topology.geomDeg arr nx ny nz i : ℝ))
              * p0.kExt * p0.A * (T - (temps sj).getD i 0)
          + p0.kShelf.getD i 0 * p0.A * (T - (temps sj).getD i 0)) ∧
      ∑ i ∈ Finset.range (Snow.Topology.nTot nx ny nz), qInt inp.p (temps sj) i = 0 := by
  intro j sj T _ _
  refine ⟨fun i => ?_, fun i hi => ?_, ?_⟩
  · simp only [step]; exact stepCN_getElem? inp.p (j == kCN) j T sj i
  · rw [hp]; exact q_refines_shape p0 arr nx ny nz (temps sj) T T i hi
  · rw [hp]; exact heat_cancels_shape p0 arr nx ny nz (temps sj)

/-! ### non-vacuity: the default configuration (5 wt.% sucrose, 1 cm³ cubic vials) -/

theorem nonvacuous :
    (physOf defaultPrimary).Valid ∧
    -- a supercooled vial at −10 °C satisfies the hypothesis of `direct_solves_eq12`
    (-10 : ℝ) < (physOf defaultPrimary).TeqL ∧
    -- a symmetric neighbour structure: two vials in contact
    SymNbrs [[1], [0]] 2 ∧
    -- an admissible ice fraction satisfies the side condition of `vial_trichotomy`
    ((1 / 2 : ℝ) ≠ 1 ∧ (physOf defaultPrimary).bracket (1 / 2) ≠ 0) := by
  have hV : (physOf defaultPrimary).Valid := defaultPrimary_valid
  refine ⟨hV, ?_, ?_, ?_⟩
  · simp only [Phys.TeqL, Phys.D, physOf, defaultPrimary]; norm_num
  · constructor
    · decide
    · intro i j hi hj
      have hi' : i = 0 ∨ i = 1 := by omega
      have hj' : j = 0 ∨ j = 1 := by omega
      rcases hi' with rfl | rfl <;> rcases hj' with rfl | rfl <;> decide
  · exact vial_trichotomy_admissible _ hV _ (by norm_num) (by norm_num)

/-- **`run_trichotomy_partial` applied to a run with ice** (the concrete run of
`Lemmas/FlakeExRun.lean`, hypotheses from `C06.nonvacuous_run`): the transition of the vial from
column 1 (σ = 1/2) to column 2 is the equilibrium-solidification transition, and the transition
from column 0 is the nucleation jump. -/
theorem nonvacuous_run :
    (∃ v', (step Snow.FlakeExRun.xParams 0 1 (-5) (Snow.FlakeExRun.xS Snow.FlakeExRun.xV1)).vials[0]? = some v' ∧
      IsTransition Snow.FlakeExRun.xPhys Snow.FlakeExRun.xParams (1 == 0) 1 (-5)
        (Snow.FlakeExRun.xS Snow.FlakeExRun.xV1) 0 Snow.FlakeExRun.xV1 v') ∧
    (runWith Snow.FlakeExRun.xInp 0).traj[2]? =
      some (step Snow.FlakeExRun.xParams 0 1 (-5) (Snow.FlakeExRun.xS Snow.FlakeExRun.xV1)) := by
  open Snow.FlakeExRun in
  have h := Snow.C06.nonvacuous_run
  have h0 : xInp.oc.start ≤ xInp.T0 := by simp only [xInp]; norm_num
  have h1 : xInp.T0 ≤ -1 := by simp only [xInp]; norm_num
  have h2 : xInp.oc.start ≤ -1 := by simp [xInp]
  have hc1 : (runWith xInp 0).traj[1]? = some (xS xV1) := by
    rw [← Array.getElem?_toList, x_traj]; rfl
  have hT1 : (runWith xInp 0).Tshelf[1]? = some (-5 : ℝ) := by rw [x_Tshelf]; rfl
  have hr := run_trichotomy_partial xInp 0 (-1) h.1 h.2.1 h0 h1 h2 h.2.2.1 1 (xS xV1) (-5) hc1 hT1
  have hsz : 1 + 1 < (runWith xInp 0).traj.size := by
    rw [← Array.length_toList, x_traj]; simp
  exact ⟨hr.2.2 0 xV1 (by simp [xS]), hr.1 hsz⟩

/-- **`run_trichotomy_uncoupled` applied to a run with ice** (the same concrete run: one vial,
`k_int = 0`): its hypotheses are satisfiable and its conclusion is the solidification transition
from column 1 to column 2 — with no per-step side condition supplied. -/
theorem nonvacuous_uncoupled :
    (∃ v', (step Snow.FlakeExRun.xParams 0 1 (-5) (Snow.FlakeExRun.xS Snow.FlakeExRun.xV1)).vials[0]? = some v' ∧
      IsTransition Snow.FlakeExRun.xPhys Snow.FlakeExRun.xParams (1 == 0) 1 (-5)
        (Snow.FlakeExRun.xS Snow.FlakeExRun.xV1) 0 Snow.FlakeExRun.xV1 v') := by
  open Snow.FlakeExRun in
  have h := Snow.C06.nonvacuous_run
  have h0 : xInp.oc.start ≤ xInp.T0 := by simp only [xInp]; norm_num
  have h1 : xInp.T0 ≤ -1 := by simp only [xInp]; norm_num
  have h2 : xInp.oc.start ≤ -1 := by simp [xInp]
  have hk : xInp.p.kInt * xInp.p.A = 0 := by simp [xInp, xParams]
  have hc1 : (runWith xInp 0).traj[1]? = some (xS xV1) := by
    rw [← Array.getElem?_toList, x_traj]; rfl
  have hT1 : (runWith xInp 0).Tshelf[1]? = some (-5 : ℝ) := by rw [x_Tshelf]; rfl
  have hr := run_trichotomy_uncoupled xInp 0 (-1) h.1 h.2.1 hk h0 h1 h2 1 (xS xV1) (-5) hc1 hT1
  exact hr.2.2 0 xV1 (by simp [xS])

/-- **`run_trichotomy_below_liquidus` applied to a run with ice** (the same concrete run: start
`−3 ≤ T_eq_l = −1`, shelf at `−5`; `StaticSide` from `C06.x_staticSide`): hypotheses satisfiable,
conclusion = the solidification transition column 1 → 2 and the step-function link. -/
theorem nonvacuous_below_liquidus :
    (∃ v', (step Snow.FlakeExRun.xParams 0 1 (-5) (Snow.FlakeExRun.xS Snow.FlakeExRun.xV1)).vials[0]? = some v' ∧
      IsTransition Snow.FlakeExRun.xPhys Snow.FlakeExRun.xParams (1 == 0) 1 (-5)
        (Snow.FlakeExRun.xS Snow.FlakeExRun.xV1) 0 Snow.FlakeExRun.xV1 v') ∧
    (runWith Snow.FlakeExRun.xInp 0).traj[2]? =
      some (step Snow.FlakeExRun.xParams 0 1 (-5) (Snow.FlakeExRun.xS Snow.FlakeExRun.xV1)) := by
  open Snow.FlakeExRun in
  have h := Snow.C06.nonvacuous_run
  have hst : Snow.C06.Stable xPhys xInp.p xInp.nVials xInp.oc.stop xPhys.TeqL := by
    rw [x_TeqL]; exact h.2.1
  have h0 : xInp.oc.start ≤ xInp.T0 := by simp only [xInp]; norm_num
  have h1 : xInp.T0 ≤ xPhys.TeqL := by rw [x_TeqL]; simp only [xInp]; norm_num
  have h2 : xInp.oc.start ≤ xPhys.TeqL := by rw [x_TeqL]; simp [xInp]
  have hc1 : (runWith xInp 0).traj[1]? = some (xS xV1) := by
    rw [← Array.getElem?_toList, x_traj]; rfl
  have hT1 : (runWith xInp 0).Tshelf[1]? = some (-5 : ℝ) := by rw [x_Tshelf]; rfl
  have hr := run_trichotomy_below_liquidus xInp 0 h.1 hst Snow.C06.x_staticSide h0 h1 h2 1 (xS xV1) (-5) hc1 hT1
  have hsz : 1 + 1 < (runWith xInp 0).traj.size := by
    rw [← Array.length_toList, x_traj]; simp
  exact ⟨hr.2.2 0 xV1 (by simp [xS]), hr.1 hsz⟩

end Snow.C01
