/-
  GenTie — regeneration tie of the hand-written run-loop models (umbrella module).

  harness/translate.py extracts single assignments of `Snowing._run_0D`, `Snowflake.run`
  and `Snowing._run_1D` from /repo's current source into SnowModel/Gen/Formulas0D.lean,
  GenFlake.lean, Formulas1D.lean; the three modules below prove each generated definition
  equal to the corresponding formula of the hand model.  The property checks that own a hand
  model regenerate the file and rebuild the corresponding module on every run
  (harness/gentie.py), so an edited formula in /repo breaks a proof obligation.
-/
import SnowProofs.Props.GenTie.Snowing0D
import SnowProofs.Props.GenTie.Flake
import SnowProofs.Props.GenTie.Snowing1D
import SnowProofs.Props.GenTie.Evap
import SnowProofs.Props.GenTie.Snowing2D
import SnowProofs.Props.GenTie.OpCond
