/-
  C08 — Spatial model nucleates at the first crossing of its hazard integral.

  Property theorems only (helper lemmas: SnowProofs/Lemmas/{SnowingLoop,SimpsonArr,Snowing}.lean).
  Models: SnowModel/Snowing0D.lean, Snowing1D.lean instantiated at ℝ (IEEE rounding is not
  modelled).  2D: `SnowModel/Snowing2D.lean` (work package G), theorems `*_2D` in the second half of this file
  through the loop bridge `SnowProofs/Lemmas/Snowing2DLoop.lean` / `Snowing2DRun.lean`.
-/
import SnowProofs.Lemmas.Snowing
import SnowProofs.Lemmas.Snowing2DRun
import SnowProofs.Lemmas.SimpsonPlan
import SnowProofs.Lemmas.Snowing2D

namespace Snow.C08
open Snow Num

/-- `F_nuc = 1 − exp(−E)` -/
noncomputable def Fnuc (E : ℝ) : ℝ := 1 - Real.exp (-E)

/-! ### the loop states the theorems speak about -/

/-- state of the 0D cooling loop after step `j` (no break) -/
noncomputable def st0D (p : SnowIn ℝ) (shelf : List ℝ) (j : ℕ) : Cool0D ℝ :=
  stateAt (coolStep0D p) shelf (coolInit0D p) j

/-- state of the 1D cooling loop after step `j` (no break) -/
noncomputable def st1D (p : SnowIn ℝ) (Nz : ℕ) (shelf : List ℝ) (j : ℕ) : Cool1D ℝ :=
  stateAt (coolStep1D p (grid1D p Nz) (saveStride (grid1D p Nz).NtExp)) shelf
    (coolInit1D p (grid1D p Nz)) j

theorem run0DOn_NtCoolEnd (p : SnowIn ℝ) (shelf : List ℝ) :
    (run0DOn p shelf).NtCoolEnd = (cool0D p shelf).1 := by
  unfold run0DOn
  rcases h : cool0D p shelf with ⟨_ | Nt, s⟩
  · rfl
  · simp only
    split <;> rfl

theorem run1DOn_NtCoolEnd (p : SnowIn ℝ) (Nz : ℕ) (old : Bool) (shelf : List ℝ) :
    (run1DOn p Nz old shelf).NtCoolEnd = (cool1D p (grid1D p Nz) old shelf).1 := by
  unfold run1DOn
  dsimp only
  rcases h : cool1D p (grid1D p Nz) old shelf with ⟨_ | Nt, s⟩
  · rfl
  · dsimp only
    split
    · rfl
    · split
      · rfl
      · split <;> rfl

/-! ### first crossing -/

/-- **0D, stochastic nucleation**: the cooling stage ends at step `i` iff `F_nuc > F_rand` at
step `i` and at no earlier step – not one step earlier or later. -/
theorem nuc_first_crossing_0D (p : SnowIn ℝ) (shelf : List ℝ) (hcn : p.cnTemp = none) (i : ℕ) :
    (run0DOn p shelf).NtCoolEnd = some i ↔
      i < shelf.length ∧ p.Frand < Fnuc (st0D p shelf i).E ∧
        ∀ j, j < i → Fnuc (st0D p shelf j).E ≤ p.Frand := by
  rw [run0DOn_NtCoolEnd, cool0D, loopUntil_fst_some_iff]
  simp only [coolStop0D, hcn, hazardStop_real, hazardStop_real_false, st0D, Fnuc]

/-- **1D, stochastic nucleation** (either form of the controlled-nucleation test is irrelevant) -/
theorem nuc_first_crossing_1D (p : SnowIn ℝ) (Nz : ℕ) (old : Bool) (shelf : List ℝ)
    (hcn : p.cnTemp = none) (i : ℕ) :
    (run1DOn p Nz old shelf).NtCoolEnd = some i ↔
      i < shelf.length ∧ p.Frand < Fnuc (st1D p Nz shelf i).E ∧
        ∀ j, j < i → Fnuc (st1D p Nz shelf j).E ≤ p.Frand := by
  rw [run1DOn_NtCoolEnd, cool1D, loopUntil_fst_some_iff]
  simp only [coolStop1D, hcn, hazardStop_real, hazardStop_real_false, st1D, Fnuc]

/-- no nucleation ⇔ the hazard never crosses: then (and only then) the run raises the
"Nucleation did not occur" `ValueError` -/
theorem no_crossing_raises_1D (p : SnowIn ℝ) (Nz : ℕ) (old : Bool) (shelf : List ℝ)
    (hcn : p.cnTemp = none) :
    (run1DOn p Nz old shelf).NtCoolEnd = none ↔
      ∀ j, j < shelf.length → Fnuc (st1D p Nz shelf j).E ≤ p.Frand := by
  rw [run1DOn_NtCoolEnd, cool1D, loopUntil_none_iff]
  simp only [coolStop1D, hcn, hazardStop_real_false, st1D, Fnuc, stateAt_eq_prefState]

/-! ### the hazard accumulator is the Riemann sum of the volume-integrated rate -/

/-- 0D nucleation frequency `K_v = J·V`, `J = kb (T_eq_l − T)^b` if `T_eq_l > T` else 0 -/
noncomputable def Kv0D (p : SnowIn ℝ) (T : ℝ) : ℝ := nucRate p.kb p.const.b p.T_eq_l T * p.const.V

theorem nucRate_real (kb b Tl T : ℝ) :
    nucRate kb b Tl T = if T < Tl then kb * (Tl - T) ^ b else 0 := by
  simp [nucRate, Transc.pow]

theorem coolStep0D_E (p : SnowIn ℝ) (i : ℕ) (s : Cool0D ℝ) (x : ℝ) :
    (coolStep0D p i s x).E =
      s.E + (if 0 ≤ Kv0D p (coolStep0D p i s x).T then Kv0D p (coolStep0D p i s x).T * (1 / 10) else 0) := by
  simp only [coolStep0D, Kv0D, dt0D, lit_real, zero_real]
  split_ifs <;> norm_num

/-- **0D**: `E_i = Σ_{j ≤ i} K_v(T_j)·dt` (the code adds a term only when `K_v ≥ 0`), `dt = 0.1` -/
theorem E_is_riemann_sum_0D (p : SnowIn ℝ) (shelf : List ℝ) (i : ℕ) (hi : i < shelf.length) :
    (st0D p shelf i).E =
      ∑ j ∈ Finset.range (i + 1),
        (if 0 ≤ Kv0D p (st0D p shelf j).T then Kv0D p (st0D p shelf j).T * (1 / 10) else 0) := by
  have := accum_eq_sum (coolStep0D p) (fun s => s.E)
    (fun s => if 0 ≤ Kv0D p s.T then Kv0D p s.T * (1 / 10) else 0)
    (fun i s x => coolStep0D_E p i s x) shelf (coolInit0D p) i hi
  simpa [st0D, coolInit0D] using this

/-- **1D**: `E_i = Σ_{j ≤ i} K_v,j·dt` … -/
theorem E_is_riemann_sum_1D (p : SnowIn ℝ) (Nz : ℕ) (shelf : List ℝ) (i : ℕ) (hi : i < shelf.length) :
    (st1D p Nz shelf i).E =
      ∑ j ∈ Finset.range (i + 1), (st1D p Nz shelf j).Kv * (grid1D p Nz).dt := by
  have := accum_eq_sum (coolStep1D p (grid1D p Nz) (saveStride (grid1D p Nz).NtExp)) (fun s => s.E)
    (fun s => s.Kv * (grid1D p Nz).dt) (fun i s x => rfl) shelf (coolInit1D p (grid1D p Nz)) i hi
  simpa [st1D, coolInit1D] using this

/-- … and `K_v,j = A·simpson(J_z, z)` with `J_z = kb (T_eq_l − T)^b` on the supercooled nodes of
the field of step `j`, 0 elsewhere (the stated quadrature of the stated rate over the mask) -/
theorem Kv_is_quadrature_1D (p : SnowIn ℝ) (Nz : ℕ) (shelf : List ℝ) (j : ℕ) (hj : j < shelf.length) :
    (st1D p Nz shelf j).Kv =
        p.const.A * simpson ((st1D p Nz shelf j).Jz).toList (linspace0 p.const.height Nz) ∧
      (st1D p Nz shelf j).Jz = (st1D p Nz shelf j).T.map
        (fun T => if T < p.T_eq_l then p.kb * (p.T_eq_l - T) ^ p.const.b else 0) := by
  have h := stateAt_post (coolStep1D p (grid1D p Nz) (saveStride (grid1D p Nz).NtExp))
    (fun s => s.Kv = p.const.A * simpson s.Jz.toList (linspace0 p.const.height Nz) ∧
      s.Jz = s.T.map (fun T => if T < p.T_eq_l then p.kb * (p.T_eq_l - T) ^ p.const.b else 0))
    shelf (coolInit1D p (grid1D p Nz)) ?_ j hj
  · exact h
  · intro i s x
    refine ⟨?_, ?_⟩
    · simp only [coolStep1D, KvOf, simpsonA_eq_simpson, grid1D, linspace0A]
    · simp only [coolStep1D, rateField]
      congr 1
      funext T
      exact nucRate_real _ _ _ _

/-! ### monotonicity of E -/

/-- **0D**: `E` never decreases (the guard `K_v ≥ 0` of the code) -/
theorem E_mono_0D (p : SnowIn ℝ) (shelf : List ℝ) (i : ℕ) (hi : i + 1 < shelf.length) :
    (st0D p shelf i).E ≤ (st0D p shelf (i + 1)).E := by
  unfold st0D
  rw [stateAt_succ _ _ _ _ hi, coolStep0D_E]
  split_ifs with h
  · have : 0 ≤ Kv0D p (coolStep0D p (i + 1) (stateAt (coolStep0D p) shelf (coolInit0D p) i) shelf[i + 1]).T
        * (1 / 10) := mul_nonneg h (by norm_num)
    linarith
  · linarith

theorem kb_pos (p : SnowIn ℝ) : 0 < p.kb := by
  unfold SnowIn.kb
  simp only [Transc.pow, ofNat'_real]
  exact Real.rpow_pos_of_pos (by norm_num) _

theorem nucRate_nonneg (p : SnowIn ℝ) (T : ℝ) : 0 ≤ nucRate p.kb p.const.b p.T_eq_l T := by
  rw [nucRate_real]
  split_ifs with h
  · exact mul_nonneg (le_of_lt (kb_pos p)) (Real.rpow_nonneg (by linarith) _)
  · exact le_refl _

/-- geometric well-formedness used by the quadrature facts -/
structure WFGrid (p : SnowIn ℝ) (Nz : ℕ) : Prop where
  Nz_ge : 3 ≤ Nz
  height_pos : 0 < p.const.height
  A_nonneg : 0 ≤ p.const.A

theorem grid_spacing_pos (p : SnowIn ℝ) (Nz : ℕ) (h : WFGrid p Nz) :
    0 < p.const.height / ((Nz - 1 : ℕ) : ℝ) := by
  have : 0 < Nz - 1 := by have := h.Nz_ge; omega
  have : (0 : ℝ) < ((Nz - 1 : ℕ) : ℝ) := by exact_mod_cast this
  exact div_pos h.height_pos this

/-- **Simpson weights are non-negative** on the z grid of the model, both parities of `Nz`
(the weights themselves: `simpson_uniform_weights`, `simpsonW`) -/
theorem simpson_weights_nonneg (p : SnowIn ℝ) (Nz : ℕ) (h : WFGrid p Nz) (y : List ℝ)
    (hy : y.length = Nz) :
    simpson y (linspace0 p.const.height Nz)
        = ∑ j ∈ Finset.range Nz, simpsonW Nz (p.const.height / ((Nz - 1 : ℕ) : ℝ)) j * nth y j ∧
      ∀ j, 0 ≤ simpsonW Nz (p.const.height / ((Nz - 1 : ℕ) : ℝ)) j := by
  have hpos := grid_spacing_pos p Nz h
  have hN := h.Nz_ge
  refine ⟨?_, fun j => simpsonW_nonneg _ _ (le_of_lt hpos) j⟩
  have := simpson_uniform_weights y (linspace0 p.const.height Nz) _ (ne_of_gt hpos)
    (uniform_linspace0 _ _ (by omega)) (by rw [length_linspace0, hy]) (by omega)
  rw [hy] at this
  exact this

theorem Kv_nonneg_1D (p : SnowIn ℝ) (Nz : ℕ) (h : WFGrid p Nz) (T : Array ℝ) (hT : T.size = Nz) :
    0 ≤ KvOf p (grid1D p Nz) (rateField p T) := by
  unfold KvOf
  apply mul_nonneg h.A_nonneg
  rw [simpsonA_eq_simpson]
  have hpos := grid_spacing_pos p Nz h
  have hN := h.Nz_ge
  apply simpson_nonneg _ _ _ hpos
  · simp only [grid1D, linspace0A]
    exact uniform_linspace0 _ _ (by omega)
  · simp [grid1D, linspace0A, length_linspace0, hT]
  · simp [hT]; omega
  · intro j hj
    rw [← aget_eq_nth]
    simp only [Array.length_toList, size_rateField] at hj
    unfold rateField
    rw [aget_map _ _ _ hj]
    exact nucRate_nonneg p _

theorem st1D_size (p : SnowIn ℝ) (Nz : ℕ) (shelf : List ℝ) (j : ℕ) : (st1D p Nz shelf j).T.size = Nz := by
  unfold st1D
  refine stateAt_invariant _ (fun s : Cool1D ℝ => s.T.size = Nz) _ _ ?_ ?_ j
  · simp [coolInit1D, grid1D]
  · intro i s x hs
    simp only [coolStep1D, size_coolField1D, hs]

/-- **1D**: `E` never decreases – the quadrature weights are non-negative, the rate is
non-negative, `A ≥ 0`, `dt ≥ 0` -/
theorem E_mono_1D (p : SnowIn ℝ) (Nz : ℕ) (h : WFGrid p Nz) (hdt : 0 ≤ (grid1D p Nz).dt)
    (shelf : List ℝ) (i : ℕ) (hi : i + 1 < shelf.length) :
    (st1D p Nz shelf i).E ≤ (st1D p Nz shelf (i + 1)).E := by
  have hs : (st1D p Nz shelf (i + 1)) =
      coolStep1D p (grid1D p Nz) (saveStride (grid1D p Nz).NtExp) (i + 1) (st1D p Nz shelf i) shelf[i + 1] := by
    unfold st1D; rw [stateAt_succ _ _ _ _ hi]
  have hE : (st1D p Nz shelf (i + 1)).E = (st1D p Nz shelf i).E + (st1D p Nz shelf (i + 1)).Kv * (grid1D p Nz).dt := by
    rw [hs]; rfl
  have hK : 0 ≤ (st1D p Nz shelf (i + 1)).Kv := by
    rw [hs]
    simp only [coolStep1D]
    apply Kv_nonneg_1D p Nz h
    simp [st1D_size]
  rw [hE]
  have := mul_nonneg hK hdt
  linarith

/-! ### nucleation-temperature statistics -/

/-- `min ≤ mean ≤ max` of the reported nucleation temperatures -/
theorem Tnuc_stats_order (p : SnowIn ℝ) (g : Grid1D ℝ) (i : ℕ) (s : Cool1D ℝ) (hs : 0 < s.T.size) :
    (nucStats1D p g i s).T_nuc_min ≤ (nucStats1D p g i s).T_nuc_mean ∧
      (nucStats1D p g i s).T_nuc_mean ≤ (nucStats1D p g i s).T_nuc_max := by
  simp only [nucStats1D]
  have := minA_le_meanA s.T hs
  have := meanA_le_maxA s.T hs
  constructor <;> linarith

/-- `min ≤ T_kin ≤ T_eq_l` when `K_v > 0`: the kinetic mean is a weighted mean with
non-negative weights supported on the supercooled nodes -/
theorem Tnuc_kin_bounds (p : SnowIn ℝ) (Nz : ℕ) (h : WFGrid p Nz) (s : Cool1D ℝ)
    (hT : s.T.size = Nz) (hJ : s.Jz = rateField p s.T) (hK : s.Kv = KvOf p (grid1D p Nz) s.Jz)
    (hpos : 0 < s.Kv) :
    minA s.T ≤ TnucKin p (grid1D p Nz) s ∧ TnucKin p (grid1D p Nz) s ≤ p.T_eq_l := by
  have hN := h.Nz_ge
  have hsp := grid_spacing_pos p Nz h
  set x := (grid1D p Nz).z.toList with hx
  have hxu : Uniform x (p.const.height / ((Nz - 1 : ℕ) : ℝ)) := by
    simp only [hx, grid1D, linspace0A]; exact uniform_linspace0 _ _ (by omega)
  have hxl : x.length = Nz := by simp [hx, grid1D, linspace0A, length_linspace0]
  set J := s.Jz.toList with hJl
  have hJlen : J.length = Nz := by simp [hJl, hJ, hT]
  set TJ := (Array.zipWith (· * ·) s.T s.Jz).toList with hTJ
  have hTJlen : TJ.length = Nz := by simp [hTJ, hJ, hT]
  have hJnth : ∀ j, j < Nz → nth J j = nucRate p.kb p.const.b p.T_eq_l (aget s.T j) := by
    intro j hj
    rw [hJl, ← aget_eq_nth, hJ]
    unfold rateField
    rw [aget_map _ _ _ (by omega)]
  have hTJnth : ∀ j, j < Nz → nth TJ j = aget s.T j * nth J j := by
    intro j hj
    rw [hTJ, ← aget_eq_nth, aget_zipWith _ _ _ _ (by omega) (by rw [hJ]; simp; omega), hJl, ← aget_eq_nth]
  -- S = simpson J, ST = simpson (T·J)
  have hKv : s.Kv = p.const.A * simpson J x := by rw [hK]; simp [KvOf, simpsonA_eq_simpson, hJl, hx]
  have hSnn : 0 ≤ simpson J x := by
    apply simpson_nonneg J x _ hsp hxu (by omega) (by omega)
    intro j hj
    rw [hJnth j (by omega)]; exact nucRate_nonneg p _
  have hApos : 0 < p.const.A := by
    rcases lt_or_eq_of_le h.A_nonneg with h1 | h1
    · exact h1
    · rw [hKv, ← h1] at hpos; simp at hpos
  have hSpos : 0 < simpson J x := by
    rcases lt_or_eq_of_le hSnn with h1 | h1
    · exact h1
    · rw [hKv, ← h1] at hpos; simp at hpos
  have hkin : TnucKin p (grid1D p Nz) s = simpson TJ x / simpson J x := by
    unfold TnucKin
    simp only [zero_real, hpos, if_true, simpsonA_eq_simpson]
    rw [hKv]
    field_simp
    rfl
  -- pointwise bounds m·J ≤ T·J ≤ T_eq_l·J
  set m := minA s.T with hm
  have lower : m * simpson J x ≤ simpson TJ x := by
    have e : m * simpson J x = simpson (J.map (m * ·)) x := by
      rw [simpson_smul J (J.map (m * ·)) x m _ (ne_of_gt hsp) hxu (by omega) (by simp) (by omega)]
      intro j hj
      simp only [nth]
      rw [List.getD_eq_getElem?_getD, List.getD_eq_getElem?_getD, List.getElem?_map]
      rw [List.getElem?_eq_getElem hj]; simp
    rw [e]
    apply simpson_mono _ _ x _ hsp hxu (by simp; omega) (by simp; omega) (by simp; omega)
    intro j hj
    simp only [List.length_map] at hj
    have hjN : j < Nz := by omega
    have e1 : nth (J.map (m * ·)) j = m * nth J j := by
      simp only [nth]
      rw [List.getD_eq_getElem?_getD, List.getD_eq_getElem?_getD, List.getElem?_map]
      rw [List.getElem?_eq_getElem hj]; simp
    rw [e1, hTJnth j hjN]
    have : 0 ≤ nth J j := by rw [hJnth j hjN]; exact nucRate_nonneg p _
    exact mul_le_mul_of_nonneg_right (minA_le s.T j (by omega)) this
  have upper : simpson TJ x ≤ p.T_eq_l * simpson J x := by
    have e : p.T_eq_l * simpson J x = simpson (J.map (p.T_eq_l * ·)) x := by
      rw [simpson_smul J (J.map (p.T_eq_l * ·)) x p.T_eq_l _ (ne_of_gt hsp) hxu (by omega) (by simp) (by omega)]
      intro j hj
      simp only [nth]
      rw [List.getD_eq_getElem?_getD, List.getD_eq_getElem?_getD, List.getElem?_map]
      rw [List.getElem?_eq_getElem hj]; simp
    rw [e]
    apply simpson_mono _ _ x _ hsp hxu (by omega) (by simp; omega) (by omega)
    intro j hj
    have hjN : j < Nz := by omega
    have e1 : nth (J.map (p.T_eq_l * ·)) j = p.T_eq_l * nth J j := by
      simp only [nth]
      rw [List.getD_eq_getElem?_getD, List.getD_eq_getElem?_getD, List.getElem?_map]
      rw [List.getElem?_eq_getElem (by omega)]; simp
    rw [e1, hTJnth j hjN, hJnth j hjN, nucRate_real]
    split_ifs with hlt
    · exact mul_le_mul_of_nonneg_right (le_of_lt hlt)
        (mul_nonneg (le_of_lt (kb_pos p)) (Real.rpow_nonneg (by linarith) _))
    · simp
  rw [hkin]
  constructor
  · rw [le_div_iff₀ hSpos]; exact lower
  · rw [div_le_iff₀ hSpos]; exact upper

/-- the explicit else-branch: when `K_v ≤ 0` the code reports 273.15 K (0 °C) -/
theorem Tnuc_kin_else (p : SnowIn ℝ) (g : Grid1D ℝ) (s : Cool1D ℝ) (hK : ¬ 0 < s.Kv) :
    TnucKin p g s = 273.15 := by
  unfold TnucKin
  simp only [zero_real, hK, if_false, lit_real]
  norm_num


/-! ### the reported numbers are those of the field at the nucleation instant -/

theorem cool1D_state (p : SnowIn ℝ) (Nz : ℕ) (old : Bool) (shelf : List ℝ) (i : ℕ) (s : Cool1D ℝ)
    (h : cool1D p (grid1D p Nz) old shelf = (some i, s)) : s = st1D p Nz shelf i := by
  unfold cool1D at h
  exact loopUntil_snd_of_some _ _ _ _ _ _ h

theorem cool0D_state (p : SnowIn ℝ) (shelf : List ℝ) (i : ℕ) (s : Cool0D ℝ)
    (h : cool0D p shelf = (some i, s)) : s = st0D p shelf i := by
  unfold cool0D at h
  exact loopUntil_snd_of_some _ _ _ _ _ _ h

/-- **1D**: whenever the run got past the cooling stage (break at step `i`), the field it
reports as `T_nuc` and the four statistics written into `_stats` are those of the temperature
field of step `i` – the state the stop test was evaluated on –, and `t_nuc = dt·i`. -/
theorem stats_at_nucleation_instant (p : SnowIn ℝ) (Nz : ℕ) (old : Bool) (shelf : List ℝ) (i : ℕ)
    (h : (run1DOn p Nz old shelf).NtCoolEnd = some i) :
    (run1DOn p Nz old shelf).Tnuc = (st1D p Nz shelf i).T ∧
      ∀ st, (run1DOn p Nz old shelf).stats = some st →
        st.T_nuc_min = minA (st1D p Nz shelf i).T - 273.15 ∧
        st.T_nuc_kin = TnucKin p (grid1D p Nz) (st1D p Nz shelf i) - 273.15 ∧
        st.T_nuc_mean = meanA (st1D p Nz shelf i).T - 273.15 ∧
        st.T_nuc_max = maxA (st1D p Nz shelf i).T - 273.15 ∧
        st.t_nuc = (grid1D p Nz).dt * i / 60 := by
  have lit27315 : (lit 27315 2 : ℝ) = 273.15 := by rw [lit_real]; norm_num
  revert h
  unfold run1DOn
  dsimp only
  rcases hc : cool1D p (grid1D p Nz) old shelf with ⟨_ | Nt, s⟩
  · intro h; cases h
  · have hs := cool1D_state p Nz old shelf Nt s hc
    dsimp only
    split
    · intro h; cases h
      refine ⟨by rw [hs], ?_⟩
      intro st hst; cases hst
      simp only [nucStats1D, lit27315, ofNat'_real, Nat.cast_ofNat, hs, and_self]
    · split
      · intro h; cases h
        refine ⟨by rw [hs], ?_⟩
        intro st hst; cases hst
        simp only [nucStats1D, lit27315, ofNat'_real, Nat.cast_ofNat, hs, and_self]
      · split
        · intro h; cases h
          refine ⟨by rw [hs], ?_⟩
          intro st hst; cases hst
          simp only [nucStats1D, lit27315, ofNat'_real, Nat.cast_ofNat, hs, and_self]
        · intro h; cases h
          refine ⟨by rw [hs], ?_⟩
          intro st hst; cases hst
          simp only [nucStats1D, lit27315, ofNat'_real, Nat.cast_ofNat, hs, and_self]

/-- **0D** reports the single temperature of step `i` -/
theorem stats_at_nucleation_instant_0D (p : SnowIn ℝ) (shelf : List ℝ) (i : ℕ)
    (h : (run0DOn p shelf).NtCoolEnd = some i) :
    ∀ st, (run0DOn p shelf).stats = some st →
      st.T_nuc = (st0D p shelf i).T - 273.15 ∧ st.t_nuc = i * (1 / 10) / 60 := by
  have lit27315 : (lit 27315 2 : ℝ) = 273.15 := by rw [lit_real]; norm_num
  revert h
  unfold run0DOn
  rcases hc : cool0D p shelf with ⟨_ | Nt, s⟩
  · intro h; cases h
  · have hs := cool0D_state p shelf Nt s hc
    dsimp only
    split
    · intro h; cases h
      intro st hst; cases hst
      simp only [lit27315, dt0D, lit_real, ofNat'_real, Nat.cast_ofNat, hs]
      norm_num
    · intro h; cases h
      intro st hst; cases hst
      simp only [lit27315, dt0D, lit_real, ofNat'_real, Nat.cast_ofNat, hs]
      norm_num

/-- the order of the four reported temperatures, stated on the run's result: whenever a 1D run
on a grid with `Nz ≥ 3` points wrote nucleation statistics, `min ≤ mean ≤ max`, and
`min ≤ kin ≤ T_eq_l` (°C) when the nucleation frequency at that instant is positive, else
`kin = 0 °C`. -/
theorem Tnuc_order_of_run (p : SnowIn ℝ) (Nz : ℕ) (hw : WFGrid p Nz) (old : Bool) (shelf : List ℝ)
    (i : ℕ) (h : (run1DOn p Nz old shelf).NtCoolEnd = some i) (st : Stats1D ℝ)
    (hst : (run1DOn p Nz old shelf).stats = some st) :
    st.T_nuc_min ≤ st.T_nuc_mean ∧ st.T_nuc_mean ≤ st.T_nuc_max ∧
      (0 < (st1D p Nz shelf i).Kv →
        st.T_nuc_min ≤ st.T_nuc_kin ∧ st.T_nuc_kin ≤ p.T_eq_l - 273.15) ∧
      (¬ 0 < (st1D p Nz shelf i).Kv → st.T_nuc_kin = 0) := by
  obtain ⟨_, hall⟩ := stats_at_nucleation_instant p Nz old shelf i h
  obtain ⟨h1, h2, h3, h4, _⟩ := hall st hst
  have hi : i < shelf.length := by
    rw [run1DOn_NtCoolEnd, cool1D, loopUntil_fst_some_iff] at h
    exact h.1
  have hsz := st1D_size p Nz shelf i
  have hN := hw.Nz_ge
  have hpost := stateAt_post (coolStep1D p (grid1D p Nz) (saveStride (grid1D p Nz).NtExp))
    (fun s => s.Jz = rateField p s.T ∧ s.Kv = KvOf p (grid1D p Nz) s.Jz)
    shelf (coolInit1D p (grid1D p Nz)) (fun _ _ _ => ⟨rfl, rfl⟩) i hi
  have hmm := minA_le_meanA (st1D p Nz shelf i).T (by omega)
  have hmM := meanA_le_maxA (st1D p Nz shelf i).T (by omega)
  refine ⟨by rw [h1, h3]; linarith, by rw [h3, h4]; linarith, ?_, ?_⟩
  · intro hpos
    have := Tnuc_kin_bounds p Nz hw (st1D p Nz shelf i) hsz hpost.1 hpost.2 hpos
    rw [h1, h2]
    constructor <;> linarith [this.1, this.2]
  · intro hneg
    rw [h2, Tnuc_kin_else p _ _ hneg]; norm_num

/-! ### non-vacuity -/

/-- a concrete run: unit constants, product at 0 °C put on a shelf at 0 K, `F_rand = 0` -/
noncomputable def exConst : SnowConst ℝ :=
  { A := 1, V := 1, rho_l := 1, mass := 1, mass_water := 1, mass_solute := 0, cp_w := 1, cp_i := 1,
    cp_s := 1, cp_solution := 1, solid_fraction := 0, T_eq := 0, k_f := 1, M_s := 1, depression := 0,
    a := 1, b := 2, c := 1, Dh := 1, height := 1, diameter := 1, lambda_w := 1, lambda_i := 1,
    lambda_s := 1, k_B := 1 }

noncomputable def exIn : SnowIn ℝ :=
  { const := exConst, visf := none, Kshelf := 1, oc := ⟨0, 0, 0, 1, []⟩, cnTemp := none, xi := 0,
    Frand := 0 }

/-- the hypotheses of the theorems above are satisfiable: a well-formed grid, stochastic
nucleation, and a run whose hazard crosses (at step 0) -/
theorem nonvacuous :
    WFGrid exIn 30 ∧ exIn.cnTemp = none ∧ (run0DOn exIn [0]).NtCoolEnd = some 0 := by
  refine ⟨⟨by norm_num, by simp [exIn, exConst], by simp [exIn, exConst]⟩, rfl, ?_⟩
  rw [nuc_first_crossing_0D exIn [0] rfl 0]
  refine ⟨by simp, ?_, by intro j hj; omega⟩
  have hE : (st0D exIn [0] 0).E
      = (if 0 ≤ Kv0D exIn (st0D exIn [0] 0).T then Kv0D exIn (st0D exIn [0] 0).T * (1 / 10) else 0) := by
    have := E_is_riemann_sum_0D exIn [0] 0 (by simp)
    simpa using this
  have hT : (st0D exIn [0] 0).T = 273.15 + 1 / 10 * (0 - 273.15) := by
    simp only [st0D, stateAt, List.take, iterIdx, coolStep0D, coolInit0D, SnowIn.T_0, exIn, exConst,
      dt0D, lit_real]
    norm_num
  have hlt : (st0D exIn [0] 0).T < exIn.T_eq_l := by
    rw [hT]; simp only [SnowIn.T_eq_l, SnowIn.T_m, exIn, exConst, lit_real]; norm_num
  have hK : 0 < Kv0D exIn (st0D exIn [0] 0).T := by
    unfold Kv0D
    rw [nucRate_real, if_pos hlt]
    have : 0 < exIn.T_eq_l - (st0D exIn [0] 0).T := by linarith
    have h2 : (0 : ℝ) < exIn.const.V := by simp [exIn, exConst]
    exact mul_pos (mul_pos (kb_pos exIn) (Real.rpow_pos_of_pos this _)) h2
  rw [hE, if_pos (le_of_lt hK)]
  unfold Fnuc
  have : 0 < Kv0D exIn (st0D exIn [0] 0).T * (1 / 10) := by positivity
  have := Real.exp_lt_one_iff.mpr (neg_lt_zero.mpr this)
  simp only [exIn] at this ⊢
  linarith


/-! ## 2D model (`SnowModel/Snowing2D.lean`, repaired or current flags alike)

`S2D.coolLoop` is `loopUntil` on the state `S2D.CoolSt` (`Lemmas/Snowing2DLoop.lean`), so the fold
theorems above transfer; the volume quadrature is `simps(2π·simps(r·J, r), z)`. -/

open Snow.S2D in
/-- **2D, stochastic nucleation**: the cooling stage ends at step `i` iff `F_nuc > F_rand` at step
`i` and at no earlier step. -/
theorem nuc_first_crossing_2D (p : Par ℝ) (f : Flags) (T0C : ℝ) (prof : List ℝ) (NtExp : ℕ) (Frand : ℝ)
    (i : ℕ) :
    (cool2D p f T0C prof NtExp Frand none).1 = some i ↔
      i < prof.length ∧ Frand < Fnuc (st2D p f T0C prof NtExp i).E ∧
        ∀ j, j < i → Fnuc (st2D p f T0C prof NtExp j).E ≤ Frand := by
  unfold cool2D
  rw [loopUntil_fst_some_iff]
  simp only [coolStopSt, st2D, Fnuc, shelfK, List.length_map, Transc.exp, one_real, decide_eq_true_eq,
    decide_eq_false_iff_not, not_lt]

open Snow.S2D in
/-- the run raises "Nucleation did not occur" iff the hazard never crosses -/
theorem no_crossing_raises_2D (p : Par ℝ) (f : Flags) (T0C : ℝ) (prof : List ℝ) (NtExp : ℕ) (Frand : ℝ) :
    (cool2D p f T0C prof NtExp Frand none).1 = none ↔
      ∀ j, j < prof.length → Fnuc (st2D p f T0C prof NtExp j).E ≤ Frand := by
  unfold cool2D
  rw [loopUntil_none_iff]
  simp only [coolStopSt, st2D, Fnuc, shelfK, List.length_map, Transc.exp, one_real,
    decide_eq_false_iff_not, not_lt, stateAt_eq_prefState]

open Snow.S2D in
/-- a completed 2D run left the cooling loop at `r.iCool`, with the loop state of that step -/
theorem run2D_cool (p : Par ℝ) (f : Flags) (T0C : ℝ) (prof : List ℝ) (NtExp : ℕ) (Frand : ℝ)
    (cn : Option ℝ) (r : Result ℝ) (h : run p f T0C prof NtExp Frand cn = .ok r) :
    (cool2D p f T0C prof NtExp Frand cn).1 = some r.iCool ∧
      (cool2D p f T0C prof NtExp Frand cn).2 = st2D p f T0C prof NtExp r.iCool ∧
      (st2D p f T0C prof NtExp r.iCool).rows.size < 10000 ∧
      ∃ iS, (solFin2D (mkCtx p f) NtExp prof r.iCool (st2D p f T0C prof NtExp r.iCool)).iSol = some iS ∧
        r = mkResult (mkCtx p f) NtExp r.iCool (st2D p f T0C prof NtExp r.iCool)
          (solFin2D (mkCtx p f) NtExp prof r.iCool (st2D p f T0C prof NtExp r.iCool)) iS := by
  rw [run_eq] at h
  rcases hc : cool2D p f T0C prof NtExp Frand cn with ⟨_ | iEnd, s⟩
  · rw [hc] at h; cases h
  · rw [hc] at h
    have hs : s = st2D p f T0C prof NtExp iEnd := by
      unfold cool2D at hc
      exact loopUntil_snd_of_some _ _ _ _ _ _ hc
    simp only at h
    by_cases hfull : s.rows.size ≥ 10000
    · simp only [hfull, if_true] at h; cases h
    · simp only [hfull, if_false] at h
      rcases hsol : (solFin2D (mkCtx p f) NtExp prof iEnd s).iSol with _ | iS
      · rw [hsol] at h; cases h
      · rw [hsol] at h
        simp only [Except.ok.injEq] at h
        have hi : r.iCool = iEnd := by rw [← h]; rfl
        rw [hi]
        refine ⟨rfl, hs, by rw [← hs]; omega, iS, by rw [← hs]; exact hsol, by rw [← hs]; exact h.symm⟩

open Snow.S2D in
/-- **2D**: `E_i = Σ_{j ≤ i} K_v,j·dt` -/
theorem E_is_riemann_sum_2D (p : Par ℝ) (f : Flags) (T0C : ℝ) (prof : List ℝ) (NtExp : ℕ) (i : ℕ)
    (hi : i < prof.length) :
    (st2D p f T0C prof NtExp i).E =
      ∑ j ∈ Finset.range (i + 1), (st2D p f T0C prof NtExp j).Kv * (mkCtx p f).dt := by
  have := accum_eq_sum (coolStep2D p f NtExp) (fun s => s.E) (fun s => s.Kv * (mkCtx p f).dt)
    (fun i s x => rfl) (shelfK prof) (coolInit2D (mkCtx p f) T0C) i (by simpa [shelfK] using hi)
  simpa [st2D, coolInit2D] using this

open Snow.S2D in
/-- the volume quadrature of the 2D model in terms of SciPy's `simpson`:
`simps(2π·simps(r·F, r), z)` on `z = linspace(0, height, Nz)`, `r = linspace(0, radius, Nr)` -/
theorem volIntegral_eq (p : Par ℝ) (f : Flags) (F : Array ℝ) :
    volIntegral (mkCtx p f) F =
      simpson (samples (fun i => 2 * p.pi *
          simpson (samples (fun j => nth (rs p) j * rd p.Nr F i j) p.Nr) (rs p)) p.Nz) (zs p) := by
  unfold volIntegral
  simp only [mkCtx]
  rw [plan_eval_eq_simpson]
  have hz : (zs p).toArray.size = p.Nz := by simp [zs, length_linspace0]
  have hr : (rs p).toArray.size = p.Nr := by simp [rs, length_linspace0]
  rw [hz]
  congr 1
  unfold samples
  apply List.map_congr_left
  intro i hi
  have hi' : i < p.Nz := by simpa using hi
  rw [rd1_ofFn _ i hi']
  simp only [two, ofNat'_real, Nat.cast_ofNat]
  rw [plan_eval_eq_simpson, hr]
  congr 2
  unfold samples
  apply List.map_congr_left
  intro j _
  simp only [rd1, nth, List.getD_eq_getElem?_getD, Array.getD_eq_getD_getElem?, List.getElem?_toArray]

open Snow.S2D in
/-- **2D**: `K_v` of every step is the stated quadrature of the stated rate over the supercooled
mask of that step's field -/
theorem Kv_is_quadrature_2D (p : Par ℝ) (f : Flags) (T0C : ℝ) (prof : List ℝ) (NtExp : ℕ) (j : ℕ)
    (hj : j < prof.length) :
    (st2D p f T0C prof NtExp j).J = (st2D p f T0C prof NtExp j).T.map
        (fun t => if t < TeqL p then p.kb * (TeqL p - t) ^ p.b else 0) ∧
      (st2D p f T0C prof NtExp j).Kv =
        simpson (samples (fun i => 2 * p.pi *
          simpson (samples (fun k => nth (rs p) k * rd p.Nr (st2D p f T0C prof NtExp j).J i k) p.Nr) (rs p))
          p.Nz) (zs p) := by
  have h := stateAt_post (coolStep2D p f NtExp)
    (fun s => s.J = hazardJ (mkCtx p f) s.T ∧ s.Kv = volIntegral (mkCtx p f) s.J)
    (shelfK prof) (coolInit2D (mkCtx p f) T0C) (fun _ _ _ => ⟨rfl, rfl⟩) j (by simpa [shelfK] using hj)
  refine ⟨?_, ?_⟩
  · rw [show (st2D p f T0C prof NtExp j).J = _ from h.1]
    simp only [hazardJ, mkCtx, Transc.pow, zero_real]
    rfl
  · rw [show (st2D p f T0C prof NtExp j).Kv = _ from h.2, volIntegral_eq]
    rfl

open Snow.S2D in
/-- **2D**: the reported statistics are those of the field of the break step (the state the stop
test was evaluated on); `t_nuc = dt·i` -/
theorem stats_at_nucleation_instant_2D (p : Par ℝ) (f : Flags) (T0C : ℝ) (prof : List ℝ) (NtExp : ℕ)
    (Frand : ℝ) (cn : Option ℝ) (r : Result ℝ) (h : run p f T0C prof NtExp Frand cn = .ok r) :
    r.TnucMin = S2D.minA (st2D p f T0C prof NtExp r.iCool).T - 273.15 ∧
    r.TnucKin = TnucKin2D (mkCtx p f) (st2D p f T0C prof NtExp r.iCool) - 273.15 ∧
    r.TnucMean = S2D.meanA (st2D p f T0C prof NtExp r.iCool).T - 273.15 ∧
    r.TnucMax = S2D.maxA (st2D p f T0C prof NtExp r.iCool).T - 273.15 ∧
    r.tNuc = (mkCtx p f).dt * (r.iCool : ℝ) / 60 := by
  obtain ⟨_, _, _, iS, _, hr⟩ := run2D_cool p f T0C prof NtExp Frand cn r h
  have hk : (kelvin : ℝ) = 273.15 := by simp only [kelvin, lit_real]; norm_num
  rw [hr]
  simp only [mkResult, hk, ofNat'_real, Nat.cast_ofNat, and_self]


/-! ### 2D: monotone hazard, order of the reported temperatures -/

/-- geometric well-formedness of the 2D quadrature: both grids have ≥ 3 points and positive
extent; `p.pi` (the double `np.pi`, an input of the model) and `kb` are non-negative -/
structure WFGrid2D (p : S2D.Par ℝ) : Prop where
  Nz_ge : 3 ≤ p.Nz
  Nr_ge : 3 ≤ p.Nr
  height_pos : 0 < p.height
  radius_pos : 0 < S2D.radius p
  pi_nonneg : 0 ≤ p.pi
  kb_nonneg : 0 ≤ p.kb

open Snow.S2D in
theorem rs_uniform (p : Par ℝ) (h : WFGrid2D p) :
    Uniform (rs p) (radius p / ((p.Nr - 1 : ℕ) : ℝ)) ∧ 0 < radius p / ((p.Nr - 1 : ℕ) : ℝ) ∧
      (rs p).length = p.Nr := by
  have hN := h.Nr_ge
  have : (0 : ℝ) < ((p.Nr - 1 : ℕ) : ℝ) := by
    have : 0 < p.Nr - 1 := by omega
    exact_mod_cast this
  exact ⟨uniform_linspace0 _ _ (by omega), div_pos h.radius_pos this, by simp [rs, length_linspace0]⟩

open Snow.S2D in
theorem zs_uniform (p : Par ℝ) (h : WFGrid2D p) :
    Uniform (zs p) (p.height / ((p.Nz - 1 : ℕ) : ℝ)) ∧ 0 < p.height / ((p.Nz - 1 : ℕ) : ℝ) ∧
      (zs p).length = p.Nz := by
  have hN := h.Nz_ge
  have : (0 : ℝ) < ((p.Nz - 1 : ℕ) : ℝ) := by
    have : 0 < p.Nz - 1 := by omega
    exact_mod_cast this
  exact ⟨uniform_linspace0 _ _ (by omega), div_pos h.height_pos this, by simp [zs, length_linspace0]⟩

open Snow.S2D in
theorem rs_nonneg (p : Par ℝ) (h : WFGrid2D p) (j : ℕ) (hj : j < p.Nr) : 0 ≤ nth (rs p) j := by
  have hN := h.Nr_ge
  unfold rs
  rw [nth_linspace0 _ _ (by omega) j hj]
  exact mul_nonneg (Nat.cast_nonneg _) (le_of_lt (rs_uniform p h).2.1)

/-- sandwich for the Simpson rule on a uniform grid (non-negative weights) -/
theorem simpson_sandwich (w g : ℕ → ℝ) (N : ℕ) (x : List ℝ) (h lo hi : ℝ) (hh : 0 < h) (hu : Uniform x h)
    (hx : x.length = N) (hN : 3 ≤ N) (H : ∀ j, j < N → lo * w j ≤ g j ∧ g j ≤ hi * w j) :
    lo * simpson (S2D.samples w N) x ≤ simpson (S2D.samples g N) x ∧
      simpson (S2D.samples g N) x ≤ hi * simpson (S2D.samples w N) x := by
  have e1 := simpson_uniform_weights (S2D.samples w N) x h (ne_of_gt hh) hu (by simp [hx]) (by simp; omega)
  have e2 := simpson_uniform_weights (S2D.samples g N) x h (ne_of_gt hh) hu (by simp [hx]) (by simp; omega)
  simp only [S2D.length_samples] at e1 e2
  rw [e1, e2, Finset.mul_sum, Finset.mul_sum]
  constructor
  · apply Finset.sum_le_sum
    intro j hj
    have hj' : j < N := by simpa using hj
    rw [S2D.nth_samples w N j hj', S2D.nth_samples g N j hj']
    have := mul_le_mul_of_nonneg_left (H j hj').1 (simpsonW_nonneg N h (le_of_lt hh) j)
    linarith [this]
  · apply Finset.sum_le_sum
    intro j hj
    have hj' : j < N := by simpa using hj
    rw [S2D.nth_samples w N j hj', S2D.nth_samples g N j hj']
    have := mul_le_mul_of_nonneg_left (H j hj').2 (simpsonW_nonneg N h (le_of_lt hh) j)
    linarith [this]

/-- non-negativity as a special case -/
theorem simpson_samples_nonneg (g : ℕ → ℝ) (N : ℕ) (x : List ℝ) (h : ℝ) (hh : 0 < h) (hu : Uniform x h)
    (hx : x.length = N) (hN : 3 ≤ N) (H : ∀ j, j < N → 0 ≤ g j) : 0 ≤ simpson (S2D.samples g N) x := by
  have := (simpson_sandwich g g N x h 0 1 hh hu hx hN (by intro j hj; simp [H j hj])).1
  simpa using this

open Snow.S2D in
/-- the rate field read at a node: the rate law of the node's temperature (0 outside the array) -/
theorem rd_hazardJ (p : Par ℝ) (f : Flags) (T : Array ℝ) (i j : ℕ) :
    rd p.Nr (hazardJ (mkCtx p f) T) i j =
      if h : i * p.Nr + j < T.size then
        (if T[i * p.Nr + j] < TeqL p then p.kb * (TeqL p - T[i * p.Nr + j]) ^ p.b else 0)
      else 0 := by
  unfold rd hazardJ
  by_cases h : i * p.Nr + j < T.size
  · simp [Array.getD, h, mkCtx, Transc.pow]
  · simp [Array.getD, h]

open Snow.S2D in
theorem rd_hazardJ_nonneg (p : Par ℝ) (f : Flags) (hw : WFGrid2D p) (T : Array ℝ) (i j : ℕ) :
    0 ≤ rd p.Nr (hazardJ (mkCtx p f) T) i j := by
  rw [rd_hazardJ]
  split_ifs with h1 h2
  · exact mul_nonneg hw.kb_nonneg (Real.rpow_nonneg (by linarith) _)
  · exact le_refl _
  · exact le_refl _

open Snow.S2D in
/-- the 2D nucleation frequency is non-negative (weights `w_z·2π·r_j·w_r ≥ 0`) -/
theorem Kv_nonneg_2D (p : Par ℝ) (f : Flags) (hw : WFGrid2D p) (T : Array ℝ) :
    0 ≤ volIntegral (mkCtx p f) (hazardJ (mkCtx p f) T) := by
  rw [volIntegral_eq]
  obtain ⟨hzu, hzp, hzl⟩ := zs_uniform p hw
  obtain ⟨hru, hrp, hrl⟩ := rs_uniform p hw
  apply simpson_samples_nonneg _ _ _ _ hzp hzu hzl hw.Nz_ge
  intro i _
  apply mul_nonneg (mul_nonneg (by norm_num) hw.pi_nonneg)
  apply simpson_samples_nonneg _ _ _ _ hrp hru hrl hw.Nr_ge
  intro j hj
  exact mul_nonneg (rs_nonneg p hw j hj) (rd_hazardJ_nonneg p f hw T i j)

open Snow.S2D in
/-- **2D**: `E` never decreases -/
theorem E_mono_2D (p : Par ℝ) (f : Flags) (hw : WFGrid2D p) (hdt : 0 ≤ (mkCtx p f).dt) (T0C : ℝ)
    (prof : List ℝ) (NtExp : ℕ) (i : ℕ) (hi : i + 1 < prof.length) :
    (st2D p f T0C prof NtExp i).E ≤ (st2D p f T0C prof NtExp (i + 1)).E := by
  have hi' : i + 1 < (shelfK prof).length := by simpa [shelfK] using hi
  have hs : st2D p f T0C prof NtExp (i + 1) =
      coolStep2D p f NtExp (i + 1) (st2D p f T0C prof NtExp i) (shelfK prof)[i + 1] := by
    unfold st2D; rw [stateAt_succ _ _ _ _ hi']
  have hE : (st2D p f T0C prof NtExp (i + 1)).E =
      (st2D p f T0C prof NtExp i).E + (st2D p f T0C prof NtExp (i + 1)).Kv * (mkCtx p f).dt := by
    rw [hs]; rfl
  have hK : 0 ≤ (st2D p f T0C prof NtExp (i + 1)).Kv := by
    rw [hs]; exact Kv_nonneg_2D p f hw _
  rw [hE]
  have := mul_nonneg hK hdt
  linarith

/-- the 2D model's `minA/maxA/meanA` are those of the 1D model -/
theorem minA_2D (A : Array ℝ) : S2D.minA A = Snow.minA A := rfl
theorem maxA_2D (A : Array ℝ) : S2D.maxA A = Snow.maxA A := rfl
theorem meanA_2D (A : Array ℝ) : S2D.meanA A = Snow.meanA A := by
  unfold S2D.meanA S2D.sumA Snow.meanA sumList
  rw [← Array.foldl_toList]

open Snow.S2D in
/-- **2D**: `min ≤ mean ≤ max` of the reported nucleation temperatures -/
theorem Tnuc_stats_order_2D (p : Par ℝ) (f : Flags) (T0C : ℝ) (prof : List ℝ) (NtExp : ℕ) (Frand : ℝ)
    (cn : Option ℝ) (r : Result ℝ) (h : run p f T0C prof NtExp Frand cn = .ok r)
    (hsz : 0 < (st2D p f T0C prof NtExp r.iCool).T.size) :
    r.TnucMin ≤ r.TnucMean ∧ r.TnucMean ≤ r.TnucMax := by
  obtain ⟨h1, _, h3, h4, _⟩ := stats_at_nucleation_instant_2D p f T0C prof NtExp Frand cn r h
  rw [h1, h3, h4, minA_2D, maxA_2D, meanA_2D]
  have := minA_le_meanA _ hsz
  have := meanA_le_maxA _ hsz
  constructor <;> linarith


/-! ### 2D: the kinetic mean nucleation temperature -/

open Snow.S2D in
/-- the numerator of the kinetic mean, `simps(2π·simps(r·T·J, r), z)`, in terms of `simpson` -/
theorem kinInt_eq (p : Par ℝ) (f : Flags) (s : CoolSt ℝ) (hpos : 0 < s.Kv) :
    TnucKin2D (mkCtx p f) s = (1 / s.Kv) *
      simpson (samples (fun i => 2 * p.pi *
        simpson (samples (fun j => (nth (rs p) j * rd p.Nr s.T i j) * rd p.Nr s.J i j) p.Nr) (rs p)) p.Nz)
        (zs p) := by
  unfold TnucKin2D
  simp only [zero_real, hpos, if_true, one_real, mkCtx]
  rw [plan_eval_eq_simpson]
  have hz : (zs p).toArray.size = p.Nz := by simp [zs, length_linspace0]
  have hr : (rs p).toArray.size = p.Nr := by simp [rs, length_linspace0]
  rw [hz]
  congr 2
  unfold samples
  apply List.map_congr_left
  intro i hi
  have hi' : i < p.Nz := by simpa using hi
  rw [rd1_ofFn _ i hi']
  simp only [two, ofNat'_real, Nat.cast_ofNat]
  rw [plan_eval_eq_simpson, hr]
  congr 2
  unfold samples
  apply List.map_congr_left
  intro j _
  simp only [rd1, nth, List.getD_eq_getElem?_getD, Array.getD_eq_getD_getElem?, List.getElem?_toArray]

open Snow.S2D in
/-- **2D**: `min ≤ T_kin ≤ T_eq_l` when `K_v > 0` – a weighted mean with the non-negative weights
`w_z·2π·r·w_r·J`, supported on the supercooled nodes -/
theorem Tnuc_kin_bounds_2D (p : Par ℝ) (f : Flags) (hw : WFGrid2D p) (s : CoolSt ℝ)
    (hT : s.T.size = p.Nz * p.Nr) (hJ : s.J = hazardJ (mkCtx p f) s.T)
    (hK : s.Kv = volIntegral (mkCtx p f) s.J) (hpos : 0 < s.Kv) :
    S2D.minA s.T ≤ TnucKin2D (mkCtx p f) s ∧ TnucKin2D (mkCtx p f) s ≤ TeqL p := by
  obtain ⟨hzu, hzp, hzl⟩ := zs_uniform p hw
  obtain ⟨hru, hrp, hrl⟩ := rs_uniform p hw
  rw [kinInt_eq p f s hpos]
  have hKv : s.Kv = simpson (samples (fun i => 2 * p.pi *
      simpson (samples (fun j => nth (rs p) j * rd p.Nr s.J i j) p.Nr) (rs p)) p.Nz) (zs p) := by
    rw [hK, volIntegral_eq]
  set m := S2D.minA s.T with hm
  have h2pi : 0 ≤ 2 * p.pi := mul_nonneg (by norm_num) hw.pi_nonneg
  -- node-wise sandwich
  have node : ∀ i j, i < p.Nz → j < p.Nr →
      m * (nth (rs p) j * rd p.Nr s.J i j) ≤ (nth (rs p) j * rd p.Nr s.T i j) * rd p.Nr s.J i j ∧
      (nth (rs p) j * rd p.Nr s.T i j) * rd p.Nr s.J i j ≤ TeqL p * (nth (rs p) j * rd p.Nr s.J i j) := by
    intro i j hi hj
    have hidx : i * p.Nr + j < s.T.size := by rw [hT]; exact idx_lt hi hj
    have hr0 := rs_nonneg p hw j hj
    have hTij : rd p.Nr s.T i j = s.T[i * p.Nr + j] := by simp [rd, Array.getD, hidx]
    have hmin : m ≤ rd p.Nr s.T i j := by
      rw [hTij, hm, minA_2D, ← aget_lt s.T _ hidx]
      exact minA_le s.T _ hidx
    have hJij := rd_hazardJ p f s.T i j
    rw [← hJ] at hJij
    rw [dif_pos hidx] at hJij
    have hJnn : 0 ≤ rd p.Nr s.J i j := by rw [hJ]; exact rd_hazardJ_nonneg p f hw s.T i j
    constructor
    · have := mul_le_mul_of_nonneg_right hmin (mul_nonneg hr0 hJnn)
      nlinarith [this]
    · by_cases hlt : s.T[i * p.Nr + j] < TeqL p
      · have h1 : rd p.Nr s.T i j ≤ TeqL p := by rw [hTij]; exact le_of_lt hlt
        have := mul_le_mul_of_nonneg_right h1 (mul_nonneg hr0 hJnn)
        nlinarith [this]
      · rw [hJij, if_neg hlt]; simp
  -- rows
  have row : ∀ i, i < p.Nz →
      m * (2 * p.pi * simpson (samples (fun j => nth (rs p) j * rd p.Nr s.J i j) p.Nr) (rs p)) ≤
        2 * p.pi * simpson (samples (fun j => (nth (rs p) j * rd p.Nr s.T i j) * rd p.Nr s.J i j) p.Nr) (rs p) ∧
      2 * p.pi * simpson (samples (fun j => (nth (rs p) j * rd p.Nr s.T i j) * rd p.Nr s.J i j) p.Nr) (rs p) ≤
        TeqL p * (2 * p.pi * simpson (samples (fun j => nth (rs p) j * rd p.Nr s.J i j) p.Nr) (rs p)) := by
    intro i hi
    have := simpson_sandwich (fun j => nth (rs p) j * rd p.Nr s.J i j)
      (fun j => (nth (rs p) j * rd p.Nr s.T i j) * rd p.Nr s.J i j) p.Nr (rs p) _ m (TeqL p) hrp hru hrl
      hw.Nr_ge (fun j hj => node i j hi hj)
    constructor
    · have := mul_le_mul_of_nonneg_left this.1 h2pi; nlinarith [this]
    · have := mul_le_mul_of_nonneg_left this.2 h2pi; nlinarith [this]
  have tot := simpson_sandwich
    (fun i => 2 * p.pi * simpson (samples (fun j => nth (rs p) j * rd p.Nr s.J i j) p.Nr) (rs p))
    (fun i => 2 * p.pi * simpson (samples (fun j => (nth (rs p) j * rd p.Nr s.T i j) * rd p.Nr s.J i j) p.Nr) (rs p))
    p.Nz (zs p) _ m (TeqL p) hzp hzu hzl hw.Nz_ge row
  rw [← hKv] at tot
  constructor
  · rw [one_div, ← div_eq_inv_mul, le_div_iff₀ hpos]; exact tot.1
  · rw [one_div, ← div_eq_inv_mul, div_le_iff₀ hpos]; exact tot.2

open Snow.S2D in
/-- the explicit else-branch: when `K_v ≤ 0` the code reports 273.15 K -/
theorem Tnuc_kin_else_2D (c : Ctx ℝ) (s : CoolSt ℝ) (hK : ¬ 0 < s.Kv) : TnucKin2D c s = 273.15 := by
  unfold TnucKin2D
  simp only [zero_real, hK, if_false, kelvin, lit_real]
  norm_num

/-! ### 2D: the field keeps its size `Nz·Nr` (both the repaired and the in-place sweep) -/

theorem size_foldl_set (Nr : ℕ) (l : List ((ℕ × ℕ) × ℝ)) (A : Array ℝ) :
    (l.foldl (fun A' e => A'.setIfInBounds (e.1.1 * Nr + e.1.2) e.2) A).size = A.size := by
  induction l generalizing A with
  | nil => rfl
  | cons e l ih => simp only [List.foldl_cons]; rw [ih]; simp

open Snow.S2D in
theorem size_writeRegion (Nr : ℕ) (node : (ℕ → ℕ → ℝ) → ℕ → ℕ → ℝ) (A : Array ℝ) (reg : List (ℕ × ℕ)) :
    (writeRegion Nr node A reg).size = A.size := by
  unfold writeRegion
  exact size_foldl_set Nr _ A

open Snow.S2D in
theorem size_sweep (Nz Nr : ℕ) (inplace : Bool) (node : (ℕ → ℕ → ℝ) → ℕ → ℕ → ℝ) (T : Array ℝ)
    (hT : T.size = Nz * Nr) : (sweep Nz Nr inplace node T).size = Nz * Nr := by
  unfold sweep
  cases inplace
  · simp
  · simp only [if_true]
    generalize regions Nz Nr = regs
    induction regs generalizing T with
    | nil => simpa using hT
    | cons r rs ih => simp only [List.foldl_cons]; exact ih _ (by rw [size_writeRegion]; exact hT)

open Snow.S2D in
theorem st2D_size (p : Par ℝ) (f : Flags) (T0C : ℝ) (prof : List ℝ) (NtExp : ℕ) (j : ℕ) :
    (st2D p f T0C prof NtExp j).T.size = p.Nz * p.Nr := by
  unfold st2D
  refine stateAt_invariant _ (fun s : CoolSt ℝ => s.T.size = p.Nz * p.Nr) _ _ ?_ ?_ j
  · simp [coolInit2D, mkCtx]
  · intro i s x hs
    simp only [coolStep2D, coolStepSt, coolStep]
    exact size_sweep _ _ _ _ _ (by simpa [mkCtx] using hs)

open Snow.S2D in
/-- **2D, on the run's result**: `min ≤ mean ≤ max`; `min ≤ kin ≤ T_eq_l` (°C) when the nucleation
frequency at the break step is positive, else `kin = 0 °C` -/
theorem Tnuc_order_of_run_2D (p : Par ℝ) (f : Flags) (hw : WFGrid2D p) (T0C : ℝ) (prof : List ℝ)
    (NtExp : ℕ) (Frand : ℝ) (cn : Option ℝ) (r : Result ℝ) (h : run p f T0C prof NtExp Frand cn = .ok r) :
    r.TnucMin ≤ r.TnucMean ∧ r.TnucMean ≤ r.TnucMax ∧
      (0 < (st2D p f T0C prof NtExp r.iCool).Kv →
        r.TnucMin ≤ r.TnucKin ∧ r.TnucKin ≤ TeqL p - 273.15) ∧
      (¬ 0 < (st2D p f T0C prof NtExp r.iCool).Kv → r.TnucKin = 0) := by
  have hsz := st2D_size p f T0C prof NtExp r.iCool
  have hN : 0 < p.Nz * p.Nr := Nat.mul_pos (by have := hw.Nz_ge; omega) (by have := hw.Nr_ge; omega)
  obtain ⟨ho1, ho2⟩ := Tnuc_stats_order_2D p f T0C prof NtExp Frand cn r h (by rw [hsz]; exact hN)
  obtain ⟨h1, h2, _, _, _⟩ := stats_at_nucleation_instant_2D p f T0C prof NtExp Frand cn r h
  obtain ⟨hc, _, _, _⟩ := run2D_cool p f T0C prof NtExp Frand cn r h
  have hi : r.iCool < (shelfK prof).length := by
    unfold cool2D at hc
    rw [loopUntil_fst_some_iff] at hc; exact hc.1
  have hpost := stateAt_post (coolStep2D p f NtExp)
    (fun s => s.J = hazardJ (mkCtx p f) s.T ∧ s.Kv = volIntegral (mkCtx p f) s.J)
    (shelfK prof) (coolInit2D (mkCtx p f) T0C) (fun _ _ _ => ⟨rfl, rfl⟩) r.iCool hi
  refine ⟨ho1, ho2, ?_, ?_⟩
  · intro hpos
    have := Tnuc_kin_bounds_2D p f hw (st2D p f T0C prof NtExp r.iCool) hsz hpost.1 hpost.2 hpos
    rw [h1, h2]
    constructor <;> linarith [this.1, this.2]
  · intro hneg
    rw [h2, Tnuc_kin_else_2D _ _ hneg]; norm_num

/-- the 2D hypotheses are satisfiable: a well-formed grid (the code's 30 × 15 on a 5 cm vial) -/
theorem nonvacuous_2D : ∃ p : S2D.Par ℝ, WFGrid2D p ∧ 2 ≤ p.Nz ∧ 2 ≤ p.Nr := by
  refine ⟨{ pi := 3, height := 1 / 20, diameter := 1 / 20, V := 1, rho_l := 1, mass := 1, mass_water := 1,
            mass_solute := 0, lambda_w := 1, lambda_i := 1, lambda_s := 1, cp_w := 1, cp_i := 1, cp_s := 1,
            cp_solution := 1, solid_fraction := 0, T_eq := 0, k_f := 1, M_s := 1, depression := 0, kb := 1,
            b := 2, k_B := 1, Dh := 1, K_shelf := 1, config := .shelf, p_vac := 0, kappa := 0, dHe := 0,
            m_water := 0, t_vac_start := 0, t_vac_duration := 0, air_gap := 0, lambda_air := 1 }, ?_, ?_, ?_⟩
  · refine ⟨by norm_num, by norm_num, by norm_num, ?_, by norm_num, by norm_num⟩
    simp only [S2D.radius, S2D.two, ofNat'_real]; norm_num
  · norm_num
  · norm_num


/-! ### audit repair (M12): at a stochastic nucleation the nucleation frequency is positive, so the
kinetic-mean bound holds unconditionally -/

theorem Fnuc_lt_iff (a b : ℝ) : Fnuc a < Fnuc b ↔ a < b := by
  unfold Fnuc
  constructor
  · intro h
    have : Real.exp (-b) < Real.exp (-a) := by linarith
    have := Real.exp_lt_exp.mp this
    linarith
  · intro h
    have : Real.exp (-b) < Real.exp (-a) := Real.exp_lt_exp.mpr (by linarith)
    linarith

theorem Fnuc_zero : Fnuc 0 = 0 := by simp [Fnuc]

/-- **1D**: at the step of a stochastic nucleation `K_v > 0` (`F_rand ≥ 0` – a uniform number –, `dt > 0`) -/
theorem Kv_pos_at_crossing_1D (p : SnowIn ℝ) (Nz : ℕ) (old : Bool) (shelf : List ℝ) (hcn : p.cnTemp = none)
    (hF : 0 ≤ p.Frand) (hdt : 0 < (grid1D p Nz).dt) (i : ℕ)
    (h : (run1DOn p Nz old shelf).NtCoolEnd = some i) : 0 < (st1D p Nz shelf i).Kv := by
  obtain ⟨hi, hcross, hprev⟩ := (nuc_first_crossing_1D p Nz old shelf hcn i).mp h
  set step := coolStep1D p (grid1D p Nz) (saveStride (grid1D p Nz).NtExp) with hstep
  have hE : (st1D p Nz shelf i).E =
      (stateBefore step shelf (coolInit1D p (grid1D p Nz)) i).E + (st1D p Nz shelf i).Kv * (grid1D p Nz).dt := by
    unfold st1D
    rw [stateAt_eq_step_before step shelf _ i hi]
    rfl
  have hbefore : Fnuc (stateBefore step shelf (coolInit1D p (grid1D p Nz)) i).E ≤ p.Frand := by
    cases i with
    | zero => simp only [stateBefore, coolInit1D, zero_real, Fnuc_zero]; exact hF
    | succ k => exact hprev k (by omega)
  have hlt := (Fnuc_lt_iff _ _).mp (lt_of_le_of_lt hbefore hcross)
  rw [hE] at hlt
  have : 0 < (st1D p Nz shelf i).Kv * (grid1D p Nz).dt := by linarith
  by_contra hneg
  have := mul_nonpos_of_nonpos_of_nonneg (not_lt.mp hneg) (le_of_lt hdt)
  linarith


/-- **1D, unconditional**: for a stochastic nucleation (`F_rand ≥ 0`, `dt > 0`) the reported
temperatures satisfy `min ≤ mean ≤ max` and `min ≤ T_kin ≤ T_eq_l` (°C) – the else-branch
`T_kin = 273.15 K` cannot occur. -/
theorem Tnuc_order_of_stochastic_run (p : SnowIn ℝ) (Nz : ℕ) (hw : WFGrid p Nz) (old : Bool) (shelf : List ℝ)
    (hcn : p.cnTemp = none) (hF : 0 ≤ p.Frand) (hdt : 0 < (grid1D p Nz).dt)
    (i : ℕ) (h : (run1DOn p Nz old shelf).NtCoolEnd = some i) (st : Stats1D ℝ)
    (hst : (run1DOn p Nz old shelf).stats = some st) :
    st.T_nuc_min ≤ st.T_nuc_mean ∧ st.T_nuc_mean ≤ st.T_nuc_max ∧
      st.T_nuc_min ≤ st.T_nuc_kin ∧ st.T_nuc_kin ≤ p.T_eq_l - 273.15 := by
  obtain ⟨h1, h2, h3, _⟩ := Tnuc_order_of_run p Nz hw old shelf i h st hst
  obtain ⟨h4, h5⟩ := h3 (Kv_pos_at_crossing_1D p Nz old shelf hcn hF hdt i h)
  exact ⟨h1, h2, h4, h5⟩

open Snow.S2D in
/-- **2D**: at the step of a stochastic nucleation `K_v > 0` -/
theorem Kv_pos_at_crossing_2D (p : Par ℝ) (f : Flags) (T0C : ℝ) (prof : List ℝ) (NtExp : ℕ) (Frand : ℝ)
    (hF : 0 ≤ Frand) (hdt : 0 < (mkCtx p f).dt) (i : ℕ)
    (h : (cool2D p f T0C prof NtExp Frand none).1 = some i) : 0 < (st2D p f T0C prof NtExp i).Kv := by
  obtain ⟨hi, hcross, hprev⟩ := (nuc_first_crossing_2D p f T0C prof NtExp Frand i).mp h
  have hi' : i < (shelfK prof).length := by simpa [shelfK] using hi
  have hE : (st2D p f T0C prof NtExp i).E =
      (stateBefore (coolStep2D p f NtExp) (shelfK prof) (coolInit2D (mkCtx p f) T0C) i).E +
        (st2D p f T0C prof NtExp i).Kv * (mkCtx p f).dt := by
    unfold st2D
    rw [stateAt_eq_step_before _ _ _ i hi']
    rfl
  have hbefore : Fnuc (stateBefore (coolStep2D p f NtExp) (shelfK prof) (coolInit2D (mkCtx p f) T0C) i).E ≤ Frand := by
    cases i with
    | zero => simp only [stateBefore, coolInit2D, zero_real, Fnuc_zero]; exact hF
    | succ k => exact hprev k (by omega)
  have hlt := (Fnuc_lt_iff _ _).mp (lt_of_le_of_lt hbefore hcross)
  rw [hE] at hlt
  by_contra hneg
  have := mul_nonpos_of_nonpos_of_nonneg (not_lt.mp hneg) (le_of_lt hdt)
  linarith

open Snow.S2D in
/-- **2D, unconditional**: for a stochastic nucleation the four reported temperatures satisfy
`min ≤ mean ≤ max` and `min ≤ T_kin ≤ T_eq_l` -/
theorem Tnuc_order_of_stochastic_run_2D (p : Par ℝ) (f : Flags) (hw : WFGrid2D p) (T0C : ℝ) (prof : List ℝ)
    (NtExp : ℕ) (Frand : ℝ) (hF : 0 ≤ Frand) (hdt : 0 < (mkCtx p f).dt) (r : Result ℝ)
    (h : run p f T0C prof NtExp Frand none = .ok r) :
    r.TnucMin ≤ r.TnucMean ∧ r.TnucMean ≤ r.TnucMax ∧ r.TnucMin ≤ r.TnucKin ∧ r.TnucKin ≤ TeqL p - 273.15 := by
  obtain ⟨h1, h2, h3, _⟩ := Tnuc_order_of_run_2D p f hw T0C prof NtExp Frand none r h
  obtain ⟨hc, _⟩ := run2D_cool p f T0C prof NtExp Frand none r h
  obtain ⟨h4, h5⟩ := h3 (Kv_pos_at_crossing_2D p f T0C prof NtExp Frand hF hdt r.iCool hc)
  exact ⟨h1, h2, h4, h5⟩


open Snow.S2D in
/-- `Tnuc_stats_order_2D` with its size hypothesis discharged: the field of every loop state has
`Nz·Nr` entries (`st2D_size`), non-empty as soon as both grid sizes are positive -/
theorem Tnuc_stats_order_of_run_2D (p : Par ℝ) (f : Flags) (hNz : 0 < p.Nz) (hNr : 0 < p.Nr) (T0C : ℝ)
    (prof : List ℝ) (NtExp : ℕ) (Frand : ℝ) (cn : Option ℝ) (r : Result ℝ)
    (h : run p f T0C prof NtExp Frand cn = .ok r) :
    r.TnucMin ≤ r.TnucMean ∧ r.TnucMean ≤ r.TnucMax :=
  Tnuc_stats_order_2D p f T0C prof NtExp Frand cn r h (by
    rw [st2D_size]; exact Nat.mul_pos hNz hNr)


/-! ### when exactly is the else-branch `T_kin = 273.15 K` taken (1D) -/

theorem wOdd_pos (N : ℕ) (h : ℝ) (hh : 0 < h) (j : ℕ) : 0 < wOdd N h j := by
  unfold wOdd; split_ifs <;> positivity

theorem simpsonW_pos (N : ℕ) (h : ℝ) (hh : 0 < h) (j : ℕ) : 0 < simpsonW N h j := by
  unfold simpsonW wEven
  split_ifs <;> first | positivity | exact wOdd_pos _ _ hh _

theorem nucRate_pos (p : SnowIn ℝ) (T : ℝ) (h : T < p.T_eq_l) : 0 < nucRate p.kb p.const.b p.T_eq_l T := by
  rw [nucRate_real, if_pos h]
  exact mul_pos (kb_pos p) (Real.rpow_pos_of_pos (by linarith) _)

/-- `K_v` as the weighted sum with the explicit (positive) Simpson weights -/
theorem Kv_eq_weighted_sum (p : SnowIn ℝ) (Nz : ℕ) (h : WFGrid p Nz) (T : Array ℝ) (hT : T.size = Nz) :
    KvOf p (grid1D p Nz) (rateField p T) =
      p.const.A * ∑ j ∈ Finset.range Nz,
        simpsonW Nz (p.const.height / ((Nz - 1 : ℕ) : ℝ)) j * nucRate p.kb p.const.b p.T_eq_l (aget T j) := by
  unfold KvOf
  rw [simpsonA_eq_simpson]
  have hsz : (rateField p T).toList.length = Nz := by simp [hT]
  have := (simpson_weights_nonneg p Nz h (rateField p T).toList hsz).1
  simp only [grid1D, linspace0A, List.toList_toArray]
  rw [this]
  congr 1
  apply Finset.sum_congr rfl
  intro j hj
  have hj' : j < Nz := by simpa using hj
  rw [← aget_eq_nth]
  unfold rateField
  rw [aget_map _ _ _ (by omega)]

/-- **1D**: `K_v > 0` as soon as ONE node is supercooled (`A > 0`; all Simpson weights of the z grid are
positive) … -/
theorem Kv_pos_of_supercooled_1D (p : SnowIn ℝ) (Nz : ℕ) (h : WFGrid p Nz) (hA : 0 < p.const.A) (T : Array ℝ)
    (hT : T.size = Nz) (j0 : ℕ) (hj0 : j0 < Nz) (hs : aget T j0 < p.T_eq_l) :
    0 < KvOf p (grid1D p Nz) (rateField p T) := by
  rw [Kv_eq_weighted_sum p Nz h T hT]
  apply mul_pos hA
  have hsp := grid_spacing_pos p Nz h
  apply Finset.sum_pos'
  · intro j _
    exact mul_nonneg (le_of_lt (simpsonW_pos _ _ hsp _)) (nucRate_nonneg p _)
  · exact ⟨j0, by simpa using hj0, mul_pos (simpsonW_pos _ _ hsp _) (nucRate_pos p _ hs)⟩

/-- … and `K_v = 0` when no node is supercooled: the else-branch `T_kin = 273.15 K` is taken exactly when
the product has no supercooled node at the nucleation instant – impossible for a stochastic nucleation
(`Kv_pos_at_crossing_1D`), possible only when controlled nucleation is triggered at or above `T_eq_l`. -/
theorem Kv_zero_of_none_supercooled_1D (p : SnowIn ℝ) (Nz : ℕ) (h : WFGrid p Nz) (T : Array ℝ) (hT : T.size = Nz)
    (hn : ∀ j, j < Nz → p.T_eq_l ≤ aget T j) : KvOf p (grid1D p Nz) (rateField p T) = 0 := by
  rw [Kv_eq_weighted_sum p Nz h T hT]
  have : ∑ j ∈ Finset.range Nz,
      simpsonW Nz (p.const.height / ((Nz - 1 : ℕ) : ℝ)) j * nucRate p.kb p.const.b p.T_eq_l (aget T j) = 0 := by
    apply Finset.sum_eq_zero
    intro j hj
    have hj' : j < Nz := by simpa using hj
    rw [nucRate_real, if_neg (not_lt.mpr (hn j hj'))]; ring
  rw [this]; ring

theorem else_branch_iff_1D (p : SnowIn ℝ) (Nz : ℕ) (h : WFGrid p Nz) (hA : 0 < p.const.A) (T : Array ℝ)
    (hT : T.size = Nz) :
    ¬ 0 < KvOf p (grid1D p Nz) (rateField p T) ↔ ∀ j, j < Nz → p.T_eq_l ≤ aget T j := by
  constructor
  · intro hK j hj
    by_contra hlt
    exact hK (Kv_pos_of_supercooled_1D p Nz h hA T hT j hj (not_le.mp hlt))
  · intro hn
    rw [Kv_zero_of_none_supercooled_1D p Nz h T hT hn]; simp


/-- the time step the code derives, `dt = 0.4·dz²/alpha_max`, is non-negative as soon as
`alpha_max = lambda_i/(cp_i·rho_l) ≥ 0` – discharges the `0 ≤ dt` hypothesis of the 1D theorems -/
theorem dt_grid1D_nonneg (p : SnowIn ℝ) (Nz : ℕ) (h : 0 ≤ p.const.lambda_i / (p.const.cp_i * p.const.rho_l)) :
    0 ≤ (grid1D p Nz).dt := by
  simp only [grid1D, lit_real]
  apply div_nonneg _ h
  have := mul_self_nonneg (p.const.height / ofNat' Nz)
  have e : ((4 : ℤ) : ℝ) / (10 : ℝ) ^ 1 = 4 / 10 := by norm_num
  rw [e]
  positivity

/-- `E_mono_1D` with the `0 ≤ dt` hypothesis discharged from the constants -/
theorem E_mono_1D_code (p : SnowIn ℝ) (Nz : ℕ) (h : WFGrid p Nz)
    (hα : 0 ≤ p.const.lambda_i / (p.const.cp_i * p.const.rho_l))
    (shelf : List ℝ) (i : ℕ) (hi : i + 1 < shelf.length) :
    (st1D p Nz shelf i).E ≤ (st1D p Nz shelf (i + 1)).E :=
  E_mono_1D p Nz h (dt_grid1D_nonneg p Nz hα) shelf i hi

end Snow.C08
