/-
  C20 — Evaporation physics is monotone, sign-correct and window-limited.

  Property theorems only (helpers: SnowProofs/Lemmas/GenReal.lean, Lemmas/Evap.lean).
  The vapour-pressure and flux definitions are the GENERATED ones
  (SnowModel/Gen/Evap.lean, written by harness/translate.py from utils.py on every run);
  the `*_eq` lemmas of Lemmas/Evap.lean are where a changed formula in the source stops building.
  The window logic is the hand model SnowModel/EvapWindow.lean (tied by c20.py).
  All statements are over ℝ (IEEE rounding is not modelled).
-/
import SnowProofs.Lemmas.Evap
import SnowModel.EvapWindow
import SnowProofs.Lemmas.EvapLink
import Mathlib.Tactic.Tauto

namespace Snow.C20
open Snow Snow.GenReal Snow.EvapWindow Snow.EvapLemmas

/-! ### ice curve -/

/-- **the vapour pressure over ice increases strictly with temperature** on `0 < T ≤ 400 K`. -/
theorem p_ice_strictMono : StrictMonoOn (fun T : ℝ => Gen.vapour_pressure_solid T) (Set.Ioc 0 400) := by
  intro T1 h1 T2 h2 h12
  simp only [p_ice_eq]
  apply Real.exp_lt_exp.mpr
  have hT1 : 0 < T1 := h1.1
  have hT2 : 0 < T2 := h2.1
  have hlog := le_log_sub hT1 hT2
  have a : 5723.265 / T2 < 5723.265 / T1 := div_lt_div_of_pos_left (by norm_num) hT1 h12
  have b : 0.00728332 ≤ 3.53068 / T2 := by
    rw [le_div_iff₀ hT2]; nlinarith [h2.2]
  have c : 0 ≤ (T2 - T1) * (3.53068 / T2 - 0.00728332) :=
    mul_nonneg (by linarith) (by linarith)
  have d : 3.53068 * ((T2 - T1) / T2) = (T2 - T1) * (3.53068 / T2) := by ring
  nlinarith

/-! ### liquid curve (partial) -/

/-- **partial**: the vapour pressure over (supercooled) liquid water increases strictly with
temperature on `[235 K, 332 K]`, the range the simulator can reach.  The correlation is
stated for 123–332 K; `[123, 235)` is not covered by this proof (the tangent bound used for
`log` would need more pieces there). -/
theorem p_liq_strictMono_partial :
    StrictMonoOn (fun T : ℝ => Gen.vapour_pressure_liquid T) (Set.Icc 235 332) := by
  intro T1 h1 T2 h2 h12
  simp only [p_liq_eq]
  apply Real.exp_lt_exp.mpr
  obtain ⟨h1l, h1u⟩ := h1
  obtain ⟨h2l, h2u⟩ := h2
  have hu : 0.0415 * (T1 - 218.8) ≤ 0.0415 * (T2 - 218.8) := by linarith
  have htl : Real.tanh (0.0415 * (T2 - 218.8)) - Real.tanh (0.0415 * (T1 - 218.8)) ≤ 0.0415 * (T2 - T1) := by
    have := tanh_sub_le hu; linarith
  have key := liq_assemble (d := T2 - T1) (by linarith)
    (tanh_nonneg (by linarith : (0:ℝ) ≤ 0.0415 * (T2 - 218.8))) (Real.tanh_lt_one _).le (tanh_mono hu) htl
    (gLiq_lower h1l h1u) (gLiq_incr h1l h12 h2u) (liqA_incr h1l h12 h2u)
  unfold gLiq at key
  linarith

/-- the lower part of the validity range, `[123 K, 235 K]` (here `tanh` changes sign at 218.8 K) -/
theorem p_liq_strictMono_low :
    StrictMonoOn (fun T : ℝ => Gen.vapour_pressure_liquid T) (Set.Icc 123 235) := by
  intro T1 h1 T2 h2 h12
  simp only [p_liq_eq]
  apply Real.exp_lt_exp.mpr
  obtain ⟨h1l, h1u⟩ := h1
  obtain ⟨h2l, h2u⟩ := h2
  have hu : 0.0415 * (T1 - 218.8) ≤ 0.0415 * (T2 - 218.8) := by linarith
  have htl : Real.tanh (0.0415 * (T2 - 218.8)) - Real.tanh (0.0415 * (T1 - 218.8)) ≤ 0.0415 * (T2 - T1) := by
    have := tanh_sub_le hu; linarith
  obtain ⟨hgl, hgu⟩ := gLiq_incr_low h1l h12 h2u
  have key := liq_assemble_low (d := T2 - T1) (by linarith)
    (Real.neg_one_lt_tanh _).le (Real.tanh_lt_one _).le (tanh_mono hu) htl
    (gLiq_lower_low h1l h1u) hgl hgu (liqA_incr_low h1l h12 h2u)
  unfold gLiq at key
  linarith

/-- **the saturation vapour pressure over liquid water increases strictly with temperature over
the whole range of validity of the correlation, `[123 K, 332 K]`.** -/
theorem p_liq_strictMono :
    StrictMonoOn (fun T : ℝ => Gen.vapour_pressure_liquid T) (Set.Icc 123 332) := by
  intro T1 h1 T2 h2 h12
  obtain ⟨h1l, h1u⟩ := h1
  obtain ⟨h2l, h2u⟩ := h2
  by_cases ha : T2 ≤ 235
  · exact p_liq_strictMono_low ⟨h1l, by linarith⟩ ⟨h2l, ha⟩ h12
  · have ha' : 235 < T2 := lt_of_not_ge ha
    by_cases hb : 235 ≤ T1
    · exact p_liq_strictMono_partial ⟨hb, h1u⟩ ⟨by linarith, h2u⟩ h12
    · have hb' : T1 < 235 := lt_of_not_ge hb
      have m1 := p_liq_strictMono_low (a := T1) (b := 235) ⟨h1l, hb'.le⟩ ⟨by norm_num, le_refl _⟩ hb'
      have m2 := p_liq_strictMono_partial (a := 235) (b := T2) ⟨le_refl _, by norm_num⟩ ⟨ha'.le, h2u⟩ ha'
      exact lt_trans m1 m2

/-! ### ice curve below liquid curve: monotone interpolation between sample points -/

/-- **`p_ice < p_liq` on a whole interval from ONE comparison of its end points**: both curves increase
(`p_ice_strictMono`, `p_liq_strictMono`), so if the ice curve at the UPPER end `b` is still below the liquid
curve at the LOWER end `a`, then `p_ice T < p_liq T` for every `T ∈ [a, b]` (`123 ≤ a ≤ b ≤ 332`).
The harness evaluates the premise at Float for every pair of neighbouring points of the 0.01 K grid
123 K … 273.05 K; over ℝ the premise itself (a numeric fact about `exp`/`log`/`tanh` at given reals) is NOT
proved.  Close to the triple point the curves approach each other faster than one grid step (relative gap
≈ 9.7e-3 per K against a slope of ≈ 8e-2 per K), so on (273.05, 273.15] only the pointwise grid comparison
is made. -/
theorem p_ice_lt_p_liq_between (a b : ℝ) (ha : 123 ≤ a) (hab : a ≤ b) (hb : b ≤ 332)
    (h : Gen.vapour_pressure_solid b < Gen.vapour_pressure_liquid a) :
    ∀ T : ℝ, a ≤ T → T ≤ b → Gen.vapour_pressure_solid T < Gen.vapour_pressure_liquid T := by
  intro T haT hTb
  have h1 : Gen.vapour_pressure_solid T ≤ Gen.vapour_pressure_solid b :=
    p_ice_strictMono.monotoneOn ⟨by linarith, by linarith⟩ ⟨by linarith, by linarith⟩ hTb
  have h2 : Gen.vapour_pressure_liquid a ≤ Gen.vapour_pressure_liquid T :=
    p_liq_strictMono.monotoneOn ⟨ha, by linarith⟩ ⟨by linarith, by linarith⟩ haT
  linarith

/-! ### Hertz–Knudsen flux -/

/-- **zero at equilibrium**: equal pressures at equal temperatures give no flux. -/
theorem flux_zero_at_equilibrium (κ m kB p T : ℝ) : Gen.vapour_flux κ m kB p p T T = 0 := by
  rw [flux_eq]; ring

/-- closed form at `T_l = T_v = T`: `N_w = C(κ) · (p_vap − p_vac)/√T` -/
theorem flux_same_T (κ m kB pvac pvap T : ℝ) :
    Gen.vapour_flux κ m kB pvac pvap T T = fluxCoef κ m kB * ((pvap - pvac) / Real.sqrt T) := by
  rw [flux_eq]; unfold fluxCoef; ring

/-- **positive exactly when the surface vapour pressure exceeds the chamber pressure**
(`κ ∈ (0,1]`, `T > 0`, `m, k_B > 0`, `T_l = T_v = T`). -/
theorem flux_pos_iff {κ m kB pvac pvap T : ℝ} (hκ : 0 < κ) (hκ1 : κ ≤ 1) (hm : 0 < m) (hk : 0 < kB)
    (hT : 0 < T) : 0 < Gen.vapour_flux κ m kB pvac pvap T T ↔ pvac < pvap := by
  rw [flux_same_T]
  have hC := fluxCoef_pos hκ hκ1 hm hk
  have hs : 0 < Real.sqrt T := Real.sqrt_pos.mpr hT
  rw [mul_pos_iff_of_pos_left hC, div_pos_iff_of_pos_right hs, sub_pos]

/-- **increases strictly with the surface vapour pressure** (any `T_v`, `T_l > 0`). -/
theorem flux_mono_pvap {κ m kB pvac Tl Tv : ℝ} (hκ : 0 < κ) (hκ1 : κ ≤ 1) (hm : 0 < m) (hk : 0 < kB)
    (hT : 0 < Tl) : StrictMono fun pvap => Gen.vapour_flux κ m kB pvac pvap Tl Tv := by
  intro p1 p2 h
  simp only [flux_eq]
  have hC := fluxCoef_pos hκ hκ1 hm hk
  unfold fluxCoef at hC
  have hs : 0 < Real.sqrt Tl := Real.sqrt_pos.mpr hT
  have : p1 / Real.sqrt Tl < p2 / Real.sqrt Tl := div_lt_div_of_pos_right h hs
  apply mul_lt_mul_of_pos_left _ hC
  linarith

/-- **scales with the evaporation coefficient**: at `T_l = T_v = T` the flux is
`(2κ/(2−κ))·√(m/(2π k_B))·(p_vap − p_vac)/√T`. -/
theorem flux_scales_kappa {κ m kB pvac pvap T : ℝ} (hκ : 0 ≤ κ) :
    Gen.vapour_flux κ m kB pvac pvap T T =
      (2 * κ / (2 - κ)) * Real.sqrt (m / (2 * Real.pi * kB)) * ((pvap - pvac) / Real.sqrt T) := by
  rw [flux_eq]
  have h : m * κ ^ 2 / (2 * Real.pi * kB) = κ ^ 2 * (m / (2 * Real.pi * kB)) := by ring
  rw [h, Real.sqrt_mul (sq_nonneg κ), Real.sqrt_sq hκ]
  ring

/-- … and for a fixed positive driving force it increases strictly with `κ` on `(0,1]`. -/
theorem flux_strictMono_kappa {m kB pvac pvap T : ℝ} (hm : 0 < m) (hk : 0 < kB) (hT : 0 < T)
    (hp : pvac < pvap) :
    StrictMonoOn (fun κ => Gen.vapour_flux κ m kB pvac pvap T T) (Set.Ioc 0 1) := by
  intro k1 h1 k2 h2 h12
  simp only []
  rw [flux_scales_kappa h1.1.le, flux_scales_kappa h2.1.le]
  have hpi := Real.pi_pos
  have hs : 0 < Real.sqrt (m / (2 * Real.pi * kB)) := Real.sqrt_pos.mpr (by positivity)
  have hd : 0 < (pvap - pvac) / Real.sqrt T := div_pos (by linarith) (Real.sqrt_pos.mpr hT)
  have hk : 2 * k1 / (2 - k1) < 2 * k2 / (2 - k2) := by
    rw [div_lt_div_iff₀ (by linarith [h1.2]) (by linarith [h2.2])]
    nlinarith [h1.1, h2.1, h1.2, h2.2]
  have := mul_lt_mul_of_pos_right hk hs
  exact mul_lt_mul_of_pos_right this hd

/-! ### window logic (hand model of the 1D top boundary) -/

theorem inWindow_iff (p : VISF ℝ) (t : ℝ) :
    inWindow p t = true ↔ p.t_vac_start * 3600 < t ∧ t < (p.t_vac_start + p.t_vac_duration) * 3600 := by
  simp [inWindow, lit_real]

/-- `q_e = −N_w·ΔH_e` exactly when the configuration is VISF and the step time lies strictly
inside the vacuum window, else `q_e = 0` (both stages, both correlations). -/
theorem qE_eq (isVISF : Bool) (p : VISF ℝ) (s : Stage) (t T : ℝ) :
    qE isVISF p s t T =
      if isVISF = true ∧ p.t_vac_start * 3600 < t ∧ t < (p.t_vac_start + p.t_vac_duration) * 3600
      then -(Gen.vapour_flux p.kappa p.m_water p.k_B p.p_vac (pVap s T) T T) * p.dHe else 0 := by
  unfold qE qEOf
  by_cases hv : isVISF = true <;> by_cases hw : inWindow p t = true
  · have := (inWindow_iff p t).mp hw; simp [hv, hw, this]
  · have : ¬(p.t_vac_start * 3600 < t ∧ t < (p.t_vac_start + p.t_vac_duration) * 3600) :=
      fun h => hw ((inWindow_iff p t).mpr h)
    simp [hv, hw, this]
  · simp [hv]
  · simp [hv]

/-- **no evaporation outside the window**: not VISF, or the step time is outside
`(t_start·3600, (t_start+t_dur)·3600)` ⇒ `q_e = 0` and the ghost value equals the top value. -/
theorem no_evap_outside_window (isVISF : Bool) (p : VISF ℝ) (s : Stage) (t T dz lam : ℝ)
    (h : ¬(isVISF = true ∧ p.t_vac_start * 3600 < t ∧ t < (p.t_vac_start + p.t_vac_duration) * 3600)) :
    qE isVISF p s t T = 0 ∧ topGhost T (qE isVISF p s t T) dz lam = T := by
  have h0 : qE isVISF p s t T = 0 := by rw [qE_eq, if_neg h]
  refine ⟨h0, ?_⟩
  rw [h0]; simp [topGhost]

/-- **outside the window a VISF step is the shelf step**: the cooling-stage update of the
top node (the only place the configuration enters) does not depend on the configuration
flag when `dt·i` is outside the window. -/
theorem visf_step_eq_shelf_outside_window (p : VISF ℝ) (dt : ℝ) (i : ℕ) (dz lam D T B : ℝ)
    (h : ¬(p.t_vac_start * 3600 < dt * i ∧ dt * i < (p.t_vac_start + p.t_vac_duration) * 3600)) :
    coolTop true p dt i dz lam D T B = coolTop false p dt i dz lam D T B := by
  unfold coolTop
  have h1 := (no_evap_outside_window true p .cooling (dt * (i : ℝ)) T dz lam (by tauto)).1
  have h2 := (no_evap_outside_window false p .cooling (dt * (i : ℝ)) T dz lam (by simp)).1
  simp only [ofNat'_real]
  rw [h1, h2]

/-- **before the window opens a VISF run is the shelf run**: with the loop body an arbitrary
function of `q_e`, step index and state, the two runs coincide after `n` steps whenever none of
the step times `t0 + dt·i`, `i < n`, lies strictly inside the vacuum window (in particular for
every `n` when the window is empty or lies beyond the process). -/
theorem visf_eq_shelf_before_window {σ : Type} (p : VISF ℝ) (s : Stage) (dt t0 : ℝ) (top : σ → ℝ)
    (F : ℝ → ℕ → σ → σ) (n : ℕ) (st : σ)
    (h : ∀ i < n, ¬(p.t_vac_start * 3600 < t0 + dt * i ∧ t0 + dt * i < (p.t_vac_start + p.t_vac_duration) * 3600)) :
    runStage true p s dt t0 top F n st = runStage false p s dt t0 top F n st := by
  induction n with
  | zero => rfl
  | succ n ih =>
    have ih' := ih (fun i hi => h i (Nat.lt_succ_of_lt hi))
    simp only [runStage, ofNat'_real]
    rw [ih']
    have h1 := (no_evap_outside_window true p s (t0 + dt * (n : ℝ)) (top (runStage false p s dt t0 top F n st)) 1 1
      (by have := h n (Nat.lt_succ_self n); tauto)).1
    have h2 := (no_evap_outside_window false p s (t0 + dt * (n : ℝ)) (top (runStage false p s dt t0 top F n st)) 1 1
      (by simp)).1
    rw [h1, h2]

/-- an empty window (`t_vac_duration ≤ 0`) never opens: the whole VISF run is the shelf run -/
theorem visf_eq_shelf_empty_window {σ : Type} (p : VISF ℝ) (hp : p.t_vac_duration ≤ 0) (s : Stage) (dt t0 : ℝ)
    (top : σ → ℝ) (F : ℝ → ℕ → σ → σ) (n : ℕ) (st : σ) :
    runStage true p s dt t0 top F n st = runStage false p s dt t0 top F n st := by
  apply visf_eq_shelf_before_window
  intro i _ ⟨h1, h2⟩
  nlinarith

/-- **evaporation cools the top exactly when the surface pressure is at least the chamber
pressure**: inside the window of a VISF run, `q_e ≤ 0 ⇔ p_vac ≤ p_vap` (`T_l = T_v = T > 0`,
`κ ∈ (0,1]`, `m, k_B, ΔH_e > 0`). -/
theorem evap_cools_iff (p : VISF ℝ) (s : Stage) (t T : ℝ)
    (hκ : 0 < p.kappa) (hκ1 : p.kappa ≤ 1) (hm : 0 < p.m_water) (hk : 0 < p.k_B) (hH : 0 < p.dHe)
    (hT : 0 < T)
    (hw : p.t_vac_start * 3600 < t ∧ t < (p.t_vac_start + p.t_vac_duration) * 3600) :
    qE true p s t T ≤ 0 ↔ p.p_vac ≤ pVap s T := by
  rw [qE_eq, if_pos ⟨rfl, hw⟩, flux_same_T]
  have hC := fluxCoef_pos hκ hκ1 hm hk
  have hs : 0 < Real.sqrt T := Real.sqrt_pos.mpr hT
  have hCs : 0 < fluxCoef p.kappa p.m_water p.k_B / Real.sqrt T * p.dHe := by positivity
  have e : -(fluxCoef p.kappa p.m_water p.k_B * ((pVap s T - p.p_vac) / Real.sqrt T)) * p.dHe
      = -((fluxCoef p.kappa p.m_water p.k_B / Real.sqrt T * p.dHe) * (pVap s T - p.p_vac)) := by
    field_simp
  rw [e, neg_nonpos, mul_nonneg_iff_of_pos_left hCs, sub_nonneg]

/-! ### the window logic of the RUN MODELS that are compared with the code

`Snow.qEvap` (Snowing0D/1D) and `S2D.qEvap` (Snowing2D) are the window model's `q_e` — same window
test, same sign — with their own transcription of the vapour flux, and on the real 1D model a VISF
run whose window is not met is the shelf run. -/

/-- **link, 1D**: the evaporative flux of the executable 1D model is `EvapWindow.qEWith` (every numeric instance) -/
theorem window_model_is_1D_model {α : Type} [Transc α] (p : SnowIn α) (pvap : α → α) (t Ttop : α) :
    Snow.qEvap p pvap t Ttop =
      match p.visf with
      | none => Num.zero
      | some v => qEWith true (EvapLink.ofVisf v p.const.k_B) t
          (Evap.vapourFlux v.kappa v.m_water p.const.k_B v.p_vac (pvap Ttop) Ttop Ttop) :=
  EvapLink.qEvap1D_eq p pvap t Ttop

/-- **link, 2D**: column by column, the evaporative flux of the executable 2D model is `EvapWindow.qEWith`
at the flux `EvapLink.flux2D` (the model's `vapour_flux` at the surface pressure of the stage) -/
theorem window_model_is_2D_model {α : Type} [Transc α] (c : S2D.Ctx α) (solidStage : Bool) (time : α)
    (T : Array α) (j : Nat) :
    S2D.qEvap c solidStage time T j =
      qEWith (decide (c.p.config = S2D.Config.visf)) (EvapLink.ofPar c.p) time
        (EvapLink.flux2D c solidStage T j) :=
  EvapLink.qEvap2D_eq c solidStage time T j

/-- the generated-flux `q_e` of the window theorems above is the same `qEWith` -/
theorem window_model_qE (isVISF : Bool) (p : VISF ℝ) (s : Stage) (t T : ℝ) :
    qE isVISF p s t T =
      qEWith isVISF p t (Gen.vapour_flux p.kappa p.m_water p.k_B p.p_vac (pVap s T) T T) := rfl

/-- `qEWith` vanishes outside VISF / outside the window, whatever the flux (every numeric instance
over ℝ): the statement the two links transport to the run models -/
theorem qEWith_zero_outside (isVISF : Bool) (p : VISF ℝ) (t Nw : ℝ)
    (h : ¬(isVISF = true ∧ p.t_vac_start * 3600 < t ∧ t < (p.t_vac_start + p.t_vac_duration) * 3600)) :
    qEWith isVISF p t Nw = 0 := by
  unfold qEWith
  by_cases hv : isVISF = true <;> by_cases hw : inWindow p t = true
  · exact absurd ⟨hv, (inWindow_iff p t).mp hw⟩ h
  · simp [hw]
  · simp [hv]
  · simp [hv]

/-- **real 1D model, whole run**: a VISF run whose vacuum window is met at no time is the shelf
run — exception, statistics and every history row of `run1DOn` (every numeric instance). -/
theorem visf_run1D_eq_shelf {α : Type} [Transc α] (p : SnowIn α) (Nz : Nat) (old : Bool) (shelf : List α)
    (h : ∀ t, EvapLink.notMet p t) :
    run1DOn p Nz old shelf = run1DOn (EvapLink.shelfOf p) Nz old shelf :=
  EvapLink.run1DOn_shelf p Nz old shelf h

/-- **real 1D model, empty window**: `t_vac_duration ≤ 0` ⇒ `run1D` of the VISF configuration equals
`run1D` of the shelf configuration. -/
theorem visf_run1D_eq_shelf_empty_window (p : SnowIn ℝ) (v : Visf ℝ) (hv : p.visf = some v)
    (hd : v.t_vac_duration ≤ 0) :
    run1D p = run1D (EvapLink.shelfOf p) := by
  have h : ∀ t, EvapLink.notMet p t := by
    intro t v' hv' ⟨h1, h2⟩
    rw [hv] at hv'; cases hv'
    simp only [ofNat'_real] at h1 h2
    nlinarith
  exact EvapLink.run1DOn_shelf p NzCode false _ h

/-- **real 1D model, before the window**: if the first `n` step times `dt·i` do not exceed the
window start, the cooling loop over the first `n` shelf samples — stop index, field, hazard, saved
rows — is that of the shelf run ("identical up to step n"). -/
theorem visf_cool1D_eq_shelf_before_window (p : SnowIn ℝ) (v : Visf ℝ) (hv : p.visf = some v) (g : Grid1D ℝ)
    (old : Bool) (shelf : List ℝ) (n : ℕ) (hdt : 0 ≤ g.dt) (hn : g.dt * n ≤ v.t_vac_start * 3600) :
    cool1D p g old (shelf.take n) = cool1D (EvapLink.shelfOf p) g old (shelf.take n) := by
  apply EvapLink.cool1D_shelf
  intro i hi v' hv' ⟨h1, _⟩
  rw [hv] at hv'; cases hv'
  have hin : i < n := by
    have := List.length_take_le n shelf
    omega
  simp only [ofNat'_real] at h1
  have : g.dt * (i : ℝ) ≤ g.dt * (n : ℝ) :=
    mul_le_mul_of_nonneg_left (by exact_mod_cast hin.le) hdt
  have h1' : v.t_vac_start * 3600 < g.dt * (i : ℝ) := by exact_mod_cast h1
  linarith

/-- **real 1D model, rows before a window that opens later — both stages** (in particular a window that opens
during the SOLIDIFICATION stage).  Let the shelf run nucleate at step `iEnd` (cooling state `s`), and let the
first `m` solidification step times `dt·iEnd + dt·i`, `i < m`, not exceed the window start.  Then
* the VISF run has the same cooling stage: same nucleation step and state (field, hazard, every saved row —
  hence the same nucleation statistics and post-nucleation row, which are functions of that state);
* after `m` solidification iterations its loop is in the same state as the shelf run's (field, ice
  fractions, saved rows, solidification bookkeeping);
* those saved rows are the first rows saved by the solidification LOOP of the whole VISF run (the loop only
  appends).  This is a statement about loop states; the PUBLISHED rows (`Result1D.hist`) are the subject of
  `run1DOn_published_history` and `visf_run1D_hist_eq_shelf_before_window` below. -/
theorem visf_run1D_eq_shelf_before_window_both_stages (p : SnowIn ℝ) (v : Visf ℝ) (hv : p.visf = some v)
    (Nz : ℕ) (old : Bool) (shelf : List ℝ) (iEnd m : ℕ) (s : Cool1D ℝ) (hdt : 0 ≤ (grid1D p Nz).dt)
    (hnuc : cool1D (EvapLink.shelfOf p) (grid1D p Nz) old shelf = (some iEnd, s))
    (hm : ∀ i : ℕ, i < m → (grid1D p Nz).dt * iEnd + (grid1D p Nz).dt * i ≤ v.t_vac_start * 3600)
    (hm0 : 0 < m) :
    cool1D p (grid1D p Nz) old shelf = (some iEnd, s) ∧
    EvapLink.solidAfter p Nz shelf iEnd s m = EvapLink.solidAfter (EvapLink.shelfOf p) Nz shelf iEnd s m ∧
    ∃ r, (EvapLink.solidAfter p Nz shelf iEnd s (shelf.drop iEnd).length).buf
          = (EvapLink.solidAfter (EvapLink.shelfOf p) Nz shelf iEnd s m).buf ++ r := by
  have h0 := hm 0 hm0
  simp only [Nat.cast_zero, mul_zero, add_zero] at h0
  have hpre := EvapLink.run1D_prefix_shelf p Nz old shelf iEnd s m hnuc
    (by
      intro i hi v' hv' ⟨h1, _⟩
      rw [hv] at hv'; cases hv'
      simp only [ofNat'_real] at h1
      have h1' : v.t_vac_start * 3600 < (grid1D p Nz).dt * (i : ℝ) := by exact_mod_cast h1
      have : (grid1D p Nz).dt * (i : ℝ) ≤ (grid1D p Nz).dt * (iEnd : ℝ) :=
        mul_le_mul_of_nonneg_left (by exact_mod_cast hi) hdt
      linarith)
    (by
      intro i hi v' hv' ⟨h1, _⟩
      rw [hv] at hv'; cases hv'
      simp only [ofNat'_real] at h1
      have h1' : v.t_vac_start * 3600 < (grid1D p Nz).dt * (iEnd : ℝ) + (grid1D p Nz).dt * (i : ℝ) := by
        exact_mod_cast h1
      have := hm i hi
      linarith)
  refine ⟨hpre.1, hpre.2, ?_⟩
  rw [← hpre.2]
  exact EvapLink.solidAfter_buf_prefix p Nz shelf iEnd s m

/-- **how `run1DOn` builds the published history** from the cooling state and the solidification loop
`solidAfter … (full length)` (so the loop state of the previous theorem IS what the run publishes): `none` when the
run raises (a row outside its buffer, solidification not completed), otherwise cooling rows ++ post-nucleation
row ++ the rows saved by the solidification loop except the last. -/
theorem run1DOn_published_history {α : Type} [Transc α] (p : SnowIn α) (Nz : ℕ) (old : Bool) (shelf : List α)
    (iEnd : ℕ) (s : Cool1D α) (hc : cool1D p (grid1D p Nz) old shelf = (some iEnd, s)) :
    (run1DOn p Nz old shelf).hist =
      if (saveRow NSave (s.buf, s.oob) (EvapLink.nucRow p Nz iEnd s)).2 then none
      else if (EvapLink.solidAfter p Nz shelf iEnd s (shelf.drop iEnd).length).oob then none
      else match (EvapLink.solidAfter p Nz shelf iEnd s (shelf.drop iEnd).length).solEnd with
        | none => none
        | some _ => some ((saveRow NSave (s.buf, s.oob) (EvapLink.nucRow p Nz iEnd s)).1 ++
            (EvapLink.solidAfter p Nz shelf iEnd s (shelf.drop iEnd).length).buf.extract 0
              ((EvapLink.solidAfter p Nz shelf iEnd s (shelf.drop iEnd).length).buf.size - 1)) :=
  EvapLink.run1DOn_hist p Nz old shelf iEnd s hc

/-- **real 1D model, PUBLISHED rows before a window that opens later — both stages**: under the hypotheses of
`visf_run1D_eq_shelf_before_window_both_stages`, whenever the VISF run and the shelf run both publish a history
(`Result1D.hist = some _`; a run that raises publishes none and nothing is claimed about it), the two published
histories start with the SAME rows `P`: every cooling row, the post-nucleation row, and the rows saved during the
first `m` solidification iterations except the last of them. -/
theorem visf_run1D_hist_eq_shelf_before_window (p : SnowIn ℝ) (v : Visf ℝ) (hv : p.visf = some v)
    (Nz : ℕ) (old : Bool) (shelf : List ℝ) (iEnd m : ℕ) (s : Cool1D ℝ) (hdt : 0 ≤ (grid1D p Nz).dt)
    (hnuc : cool1D (EvapLink.shelfOf p) (grid1D p Nz) old shelf = (some iEnd, s))
    (hm : ∀ i : ℕ, i < m → (grid1D p Nz).dt * iEnd + (grid1D p Nz).dt * i ≤ v.t_vac_start * 3600)
    (hm0 : 0 < m) (Hv Hs : Array (Row ℝ))
    (hHv : (run1DOn p Nz old shelf).hist = some Hv)
    (hHs : (run1DOn (EvapLink.shelfOf p) Nz old shelf).hist = some Hs) :
    ∃ P tv ts, Hv = P ++ tv ∧ Hs = P ++ ts ∧
      P = (saveRow NSave (s.buf, s.oob) (EvapLink.nucRow p Nz iEnd s)).1 ++
        (EvapLink.solidAfter (EvapLink.shelfOf p) Nz shelf iEnd s m).buf.extract 0
          ((EvapLink.solidAfter (EvapLink.shelfOf p) Nz shelf iEnd s m).buf.size - 1) := by
  have h0 := hm 0 hm0
  simp only [Nat.cast_zero, mul_zero, add_zero] at h0
  refine EvapLink.run1D_hist_prefix_shelf p Nz old shelf iEnd s m hnuc ?_ ?_ Hv Hs hHv hHs
  · intro i hi v' hv' ⟨h1, _⟩
    rw [hv] at hv'; cases hv'
    simp only [ofNat'_real] at h1
    have h1' : v.t_vac_start * 3600 < (grid1D p Nz).dt * (i : ℝ) := by exact_mod_cast h1
    have : (grid1D p Nz).dt * (i : ℝ) ≤ (grid1D p Nz).dt * (iEnd : ℝ) :=
      mul_le_mul_of_nonneg_left (by exact_mod_cast hi) hdt
    linarith
  · intro i hi v' hv' ⟨h1, _⟩
    rw [hv] at hv'; cases hv'
    simp only [ofNat'_real] at h1
    have h1' : v.t_vac_start * 3600 < (grid1D p Nz).dt * (iEnd : ℝ) + (grid1D p Nz).dt * (i : ℝ) := by
      exact_mod_cast h1
    have := hm i hi
    linarith

/-- **real 1D model, sampled times**: if the vacuum window is met at none of the step times the loops
evaluate (`dt·i`, and `dt·iEnd + dt·i` after a nucleation at step `iEnd`), the VISF run equals the shelf run —
exception, statistics, every history row.  Covers a window lying beyond the process or between two samples. -/
theorem visf_run1D_eq_shelf_sampled {α : Type} [Transc α] (p : SnowIn α) (Nz : Nat) (old : Bool) (shelf : List α)
    (hcool : ∀ i, i < shelf.length → EvapLink.notMet p ((grid1D p Nz).dt * Num.ofNat' i))
    (hsol : ∀ iEnd i, iEnd + i < shelf.length →
      EvapLink.notMet p ((grid1D p Nz).dt * Num.ofNat' iEnd + (grid1D p Nz).dt * Num.ofNat' i)) :
    run1DOn p Nz old shelf = run1DOn (EvapLink.shelfOf p) Nz old shelf :=
  EvapLink.run1DOn_shelf_sampled p Nz old shelf hcool hsol

/-- **real 1D model, window beyond the process**: if the last sampled time `dt·(n−1)` does not exceed the
window start (`dt·n ≤ t_start·3600` suffices), the whole VISF run equals the shelf run. -/
theorem visf_run1D_eq_shelf_window_beyond (p : SnowIn ℝ) (v : Visf ℝ) (hv : p.visf = some v) (Nz : ℕ) (old : Bool)
    (shelf : List ℝ) (hdt : 0 ≤ (grid1D p Nz).dt)
    (hn : (grid1D p Nz).dt * shelf.length ≤ v.t_vac_start * 3600) :
    run1DOn p Nz old shelf = run1DOn (EvapLink.shelfOf p) Nz old shelf := by
  have key : ∀ k : ℕ, k < shelf.length → ∀ t : ℝ, t = (grid1D p Nz).dt * (k : ℝ) → EvapLink.notMet p t := by
    intro k hk t ht v' hv' ⟨h1, _⟩
    rw [hv] at hv'; cases hv'
    have h1' : v.t_vac_start * 3600 < t := by exact_mod_cast h1
    have : (grid1D p Nz).dt * (k : ℝ) ≤ (grid1D p Nz).dt * (shelf.length : ℝ) :=
      mul_le_mul_of_nonneg_left (by exact_mod_cast hk.le) hdt
    linarith
  apply EvapLink.run1DOn_shelf_sampled
  · intro i hi
    exact key i hi _ (by simp)
  · intro iEnd i hi
    refine key (iEnd + i) hi _ ?_
    simp only [ofNat'_real]; push_cast; ring

/-! ### the flux laws for ANY positive value of π (the run models' own `vapour_flux`)

`Gen.FU.N_w` is the formula-mode extraction of `utils.vapour_flux` with `np.pi` a parameter; the 0D/1D model's
`Evap.vapourFlux` is it at `np_pi = Evap.piDouble`, the 2D model's `Evap2D.vapourFlux π` at the input `π`
(GenTie/Evap.lean, `rfl`, every numeric instance), and `Gen.vapour_flux` at `Real.pi` (`flux_gen_eq`). -/

theorem fluxN_zero_at_equilibrium (π κ m kB p T : ℝ) :
    Gen.FU.N_w (kappa := κ) (m_water := m) (np_pi := π) (k_B := kB) (p_vap := p) (T_l := T) (p_vac := p) (T_v := T)
      = 0 := by
  rw [fluxN_eq]; ring

theorem fluxN_pos_iff {π κ m kB pvac pvap T : ℝ} (hπ : 0 < π) (hκ : 0 < κ) (hκ1 : κ ≤ 1) (hm : 0 < m)
    (hk : 0 < kB) (hT : 0 < T) :
    0 < Gen.FU.N_w (kappa := κ) (m_water := m) (np_pi := π) (k_B := kB) (p_vap := pvap) (T_l := T) (p_vac := pvac)
      (T_v := T) ↔ pvac < pvap := by
  rw [fluxN_same_T]
  have hC := fluxCoefPi_pos hπ hκ hκ1 hm hk
  have hs : 0 < Real.sqrt T := Real.sqrt_pos.mpr hT
  rw [mul_pos_iff_of_pos_left hC, div_pos_iff_of_pos_right hs, sub_pos]

theorem fluxN_mono_pvap {π κ m kB pvac Tl Tv : ℝ} (hπ : 0 < π) (hκ : 0 < κ) (hκ1 : κ ≤ 1) (hm : 0 < m)
    (hk : 0 < kB) (hT : 0 < Tl) :
    StrictMono fun pvap => Gen.FU.N_w (kappa := κ) (m_water := m) (np_pi := π) (k_B := kB) (p_vap := pvap)
      (T_l := Tl) (p_vac := pvac) (T_v := Tv) := by
  intro p1 p2 h
  simp only [fluxN_eq]
  have hC := fluxCoefPi_pos hπ hκ hκ1 hm hk
  unfold fluxCoefPi at hC
  have hs : 0 < Real.sqrt Tl := Real.sqrt_pos.mpr hT
  have : p1 / Real.sqrt Tl < p2 / Real.sqrt Tl := div_lt_div_of_pos_right h hs
  apply mul_lt_mul_of_pos_left _ hC
  linarith

theorem fluxN_scales_kappa {π κ m kB pvac pvap T : ℝ} (hκ : 0 ≤ κ) :
    Gen.FU.N_w (kappa := κ) (m_water := m) (np_pi := π) (k_B := kB) (p_vap := pvap) (T_l := T) (p_vac := pvac)
      (T_v := T) =
      (2 * κ / (2 - κ)) * Real.sqrt (m / (2 * π * kB)) * ((pvap - pvac) / Real.sqrt T) := by
  rw [fluxN_eq]
  have h : m * κ ^ 2 / (2 * π * kB) = κ ^ 2 * (m / (2 * π * kB)) := by ring
  rw [h, Real.sqrt_mul (sq_nonneg κ), Real.sqrt_sq hκ]
  ring

theorem fluxN_strictMono_kappa {π m kB pvac pvap T : ℝ} (hπ : 0 < π) (hm : 0 < m) (hk : 0 < kB) (hT : 0 < T)
    (hp : pvac < pvap) :
    StrictMonoOn (fun κ => Gen.FU.N_w (kappa := κ) (m_water := m) (np_pi := π) (k_B := kB) (p_vap := pvap)
      (T_l := T) (p_vac := pvac) (T_v := T)) (Set.Ioc 0 1) := by
  intro k1 h1 k2 h2 h12
  simp only []
  rw [fluxN_scales_kappa h1.1.le, fluxN_scales_kappa h2.1.le]
  have hs : 0 < Real.sqrt (m / (2 * π * kB)) := Real.sqrt_pos.mpr (by positivity)
  have hd : 0 < (pvap - pvac) / Real.sqrt T := div_pos (by linarith) (Real.sqrt_pos.mpr hT)
  have hk' : 2 * k1 / (2 - k1) < 2 * k2 / (2 - k2) := by
    rw [div_lt_div_iff₀ (by linarith [h1.2]) (by linarith [h2.2])]
    nlinarith [h1.1, h2.1, h1.2, h2.2]
  have := mul_lt_mul_of_pos_right hk' hs
  exact mul_lt_mul_of_pos_right this hd

/-- the run models' flux functions are `Gen.FU.N_w` (over ℝ, restating GenTie/Evap) -/
theorem run_model_flux (π κ m kB pvac pvap Tl Tv : ℝ) :
    Snow.Evap.vapourFlux κ m kB pvac pvap Tl Tv =
        Gen.FU.N_w (kappa := κ) (m_water := m) (np_pi := Snow.Evap.piDouble) (k_B := kB) (p_vap := pvap) (T_l := Tl)
          (p_vac := pvac) (T_v := Tv) ∧
    Snow.Evap2D.vapourFlux π κ m kB pvac pvap Tl Tv =
        Gen.FU.N_w (kappa := κ) (m_water := m) (np_pi := π) (k_B := kB) (p_vap := pvap) (T_l := Tl)
          (p_vac := pvac) (T_v := Tv) ∧
    Gen.vapour_flux κ m kB pvac pvap Tl Tv =
        Gen.FU.N_w (kappa := κ) (m_water := m) (np_pi := Real.pi) (k_B := kB) (p_vap := pvap) (T_l := Tl)
          (p_vac := pvac) (T_v := Tv) :=
  ⟨rfl, rfl, flux_gen_eq κ m kB pvac pvap Tl Tv⟩

/-- **real 1D model: evaporation cools the top exactly when the surface pressure is at least the chamber
pressure** — on `Snow.qEvap` (the function `coolField1D`/`solidStep1D` call), inside the window. -/
theorem evap_cools_iff_1D (p : SnowIn ℝ) (v : Visf ℝ) (hv : p.visf = some v) (pvap : ℝ → ℝ) (t T : ℝ)
    (hκ : 0 < v.kappa) (hκ1 : v.kappa ≤ 1) (hm : 0 < v.m_water) (hk : 0 < p.const.k_B) (hH : 0 < v.dHe)
    (hT : 0 < T)
    (hw : v.t_vac_start * 3600 < t ∧ t < (v.t_vac_start + v.t_vac_duration) * 3600) :
    Snow.qEvap p pvap t T ≤ 0 ↔ v.p_vac ≤ pvap T := by
  have hw' : v.t_vac_start * Num.ofNat' 3600 < t ∧ t < (v.t_vac_start + v.t_vac_duration) * Num.ofNat' 3600 := by
    simp only [ofNat'_real]; exact_mod_cast hw
  have hq : Snow.qEvap p pvap t T =
      (-(Snow.Evap.vapourFlux v.kappa v.m_water p.const.k_B v.p_vac (pvap T) T T)) * v.dHe := by
    simp only [Snow.qEvap, hv]
    rw [if_pos hw']
  rw [hq, (run_model_flux 1 v.kappa v.m_water p.const.k_B v.p_vac (pvap T) T T).1, fluxN_same_T]
  have hC := fluxCoefPi_pos piDouble_pos hκ hκ1 hm hk
  have hs : 0 < Real.sqrt T := Real.sqrt_pos.mpr hT
  have hCs : 0 < fluxCoefPi Snow.Evap.piDouble v.kappa v.m_water p.const.k_B / Real.sqrt T * v.dHe := by positivity
  have e : -(fluxCoefPi Snow.Evap.piDouble v.kappa v.m_water p.const.k_B * ((pvap T - v.p_vac) / Real.sqrt T)) * v.dHe
      = -((fluxCoefPi Snow.Evap.piDouble v.kappa v.m_water p.const.k_B / Real.sqrt T * v.dHe) * (pvap T - v.p_vac)) := by
    field_simp
  rw [e, neg_nonpos, mul_nonneg_iff_of_pos_left hCs, sub_nonneg]

/-- the hypotheses are satisfiable: the default VISF parameters, a time inside the default
window (0.75 h … 0.85 h), a temperature in both proved ranges. -/
theorem nonvacuous :
    let p : VISF ℝ := ⟨100, 0.01, 2500900, 2.99e-26, 1.38e-23, 0.75, 0.1⟩
    (0 < p.kappa ∧ p.kappa ≤ 1 ∧ 0 < p.m_water ∧ 0 < p.k_B ∧ 0 < p.dHe) ∧
    (p.t_vac_start * 3600 < 2800 ∧ (2800 : ℝ) < (p.t_vac_start + p.t_vac_duration) * 3600) ∧
    (260 : ℝ) ∈ Set.Ioc (0 : ℝ) 400 ∧ (260 : ℝ) ∈ Set.Icc (235 : ℝ) 332 := by
  norm_num

end Snow.C20
