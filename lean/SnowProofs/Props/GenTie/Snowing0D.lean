/-
  GenTie / Snowing0D — the formulas of the hand model SnowModel/Snowing0D.lean ARE the
  formulas of `Snowing._run_0D` in /repo's current source.

  `Snow.Gen.F0D.*` (SnowModel/Gen/Formulas0D.lean) is GENERATED from snowing.py by
  harness/translate.py on every run of the checks that own this model (harness/gentie.py).
  Every theorem below identifies one generated definition with the hand-written formula, for
  EVERY numeric instance `[Transc α]` (Float, ℝ, …): both sides are the same expression
  tree, so the proofs are `rfl`.  An edited formula in the source changes the generated
  text and the equality stops building.  Generated definitions are applied with NAMED arguments
  (`(T_old := …)`), so swapping two names in the source is seen as well.
-/
import SnowModel.Snowing0D
import SnowModel.Gen.Formulas0D

namespace Snow.GenTie.S0D
open Snow Num
open Snow.Gen

variable {α : Type} [Transc α]

theorem dt : (dt0D : α) = F0D.dt := rfl

theorem T_m (p : SnowIn α) : p.T_m = F0D.T_m (self_const_T_eq := p.const.T_eq) := rfl

theorem T_eq_l (p : SnowIn α) : p.T_eq_l = F0D.T_eq_l (T_m := p.T_m) (depression := p.const.depression) := rfl

theorem kb (p : SnowIn α) : p.kb = F0D.kb (a := p.const.a) (xi_v := p.xi) (c := p.const.c) := rfl

theorem T_0 (p : SnowIn α) : p.T_0 = F0D.T_0 (self_opcond_cooling_start := p.oc.start) := rfl

/-- the solute mass fraction used by the solidification step -/
theorem w_s (p : SnowIn α) (i : Nat) (s : Solid0D α) (Tshelf : α) :
    (solidStep0D p i s Tshelf).T =
      F0D.solid_T_new (T_old := s.T) (dt := dt0D) (A := p.const.A) (K_shelf := p.Kshelf) (T_shelf := Tshelf)
          (cp := (F0D.cp (cp_s := p.const.cp_s) (w_s := (F0D.w_s (mass_solute := p.const.mass_solute)
          (mass := p.const.mass))) (cp_i := p.const.cp_i) (w_i_new := s.w) (cp_w := p.const.cp_w)))
          (rho_l := p.const.rho_l) (V := p.const.V) (Dh := p.const.Dh) (k_f := p.const.k_f)
          (mass_solute := p.const.mass_solute) (M_s := p.const.M_s) (T_m := p.T_m) := rfl

theorem cool_T_new (p : SnowIn α) (i : Nat) (s : Cool0D α) (Tshelf : α) :
    (coolStep0D p i s Tshelf).T =
      F0D.cool_T_new (T_old := s.T) (dt := dt0D) (A := p.const.A) (K_shelf := p.Kshelf) (T_shelf := Tshelf)
          (cp_solution := p.const.cp_solution) (mass := p.const.mass) := rfl

theorem J (kb b T_eq_l T : α) :
    nucRate kb b T_eq_l T = if T < T_eq_l then F0D.J (kb := kb) (T_eq_l := T_eq_l) (T_new := T)
        (b := b) else zero := rfl

theorem K_v (p : SnowIn α) (i : Nat) (s : Cool0D α) (Tshelf : α) :
    (coolStep0D p i s Tshelf).E =
      (let Kv := F0D.K_v (J := (nucRate p.kb p.const.b p.T_eq_l (coolStep0D p i s Tshelf).T)) (V := p.const.V)
       if zero ≤ Kv then s.E + Kv * dt0D else s.E) := rfl

theorem E_t (p : SnowIn α) (i : Nat) (s : Cool0D α) (Tshelf : α) :
    (coolStep0D p i s Tshelf).E =
      (let Kv := F0D.K_v (J := (nucRate p.kb p.const.b p.T_eq_l (coolStep0D p i s Tshelf).T)) (V := p.const.V)
       if zero ≤ Kv then F0D.E_t (E_t := s.E) (K_v := Kv) (dt := dt0D) else s.E) := rfl

theorem F_nuc (Frand E : α) : hazardStop Frand E = decide (Frand < F0D.F_nuc (E_t := E)) := rfl

theorem B (p : SnowIn α) (Tnuc : α) :
    nucB p Tnuc = F0D.B (T_m := p.T_m) (T_nuc := Tnuc) (Dh := p.const.Dh) (mass_water := p.const.mass_water)
        (cp_solution := p.const.cp_solution) (mass := p.const.mass) := rfl

theorem C (p : SnowIn α) (Tnuc : α) :
    nucC p Tnuc = F0D.C (Dh := p.const.Dh) (mass_water := p.const.mass_water) (T_m := p.T_m)
        (cp_solution := p.const.cp_solution) (mass := p.const.mass) (mass_solute := p.const.mass_solute)
        (k_f := p.const.k_f) (M_s := p.const.M_s) (T_nuc := Tnuc) := rfl

theorem T_eq (p : SnowIn α) (Tnuc : α) : nucTeq p Tnuc = F0D.T_eq (B := (nucB p Tnuc))
    (C := (nucC p Tnuc)) := rfl

theorem m_i_eq (p : SnowIn α) (T : α) :
    iceMassEq p T = F0D.m_i_eq (mass_water := p.const.mass_water) (mass_solute := p.const.mass_solute)
        (k_f := p.const.k_f) (M_s := p.const.M_s) (T_m := p.T_m) (T_eq := T) := rfl

theorem w_i_nucl (p : SnowIn α) (Tnuc : α) :
    (nucleate0D p Tnuc).2 = F0D.w_i_nucl (m_i_eq := (iceMassEq p (nucleate0D p Tnuc).1))
        (mass := p.const.mass) := rfl

theorem cp (p : SnowIn α) (i : Nat) (s : Solid0D α) (Tshelf : α) :
    (solidStep0D p i s Tshelf).T =
      F0D.solid_T_new (T_old := s.T) (dt := dt0D) (A := p.const.A) (K_shelf := p.Kshelf) (T_shelf := Tshelf)
          (cp := (F0D.cp (cp_s := p.const.cp_s) (w_s := (p.const.mass_solute / p.const.mass))
          (cp_i := p.const.cp_i) (w_i_new := s.w) (cp_w := p.const.cp_w))) (rho_l := p.const.rho_l)
          (V := p.const.V) (Dh := p.const.Dh) (k_f := p.const.k_f) (mass_solute := p.const.mass_solute)
          (M_s := p.const.M_s) (T_m := p.T_m) := rfl

theorem solid_T_new (p : SnowIn α) (i : Nat) (s : Solid0D α) (Tshelf : α) :
    (solidStep0D p i s Tshelf).T =
      (let w_s := p.const.mass_solute / p.const.mass
       let cp := p.const.cp_s * w_s + p.const.cp_i * s.w + p.const.cp_w * (one - w_s - s.w)
       F0D.solid_T_new (T_old := s.T) (dt := dt0D) (A := p.const.A) (K_shelf := p.Kshelf)
           (T_shelf := Tshelf) (cp := cp) (rho_l := p.const.rho_l) (V := p.const.V) (Dh := p.const.Dh)
           (k_f := p.const.k_f) (mass_solute := p.const.mass_solute) (M_s := p.const.M_s)
           (T_m := p.T_m)) := rfl

theorem w_i_new (p : SnowIn α) (T : α) :
    iceFrac0D p T = F0D.w_i_new (mass_water := p.const.mass_water) (k_f := p.const.k_f)
        (mass_solute := p.const.mass_solute) (M_s := p.const.M_s) (T_m := p.T_m) (T_new := T)
        (mass := p.const.mass) := rfl

theorem w_i_solid (p : SnowIn α) (T : α) :
    iceFrac0D p T = F0D.w_i_solid (mass_water := p.const.mass_water) (k_f := p.const.k_f)
        (mass_solute := p.const.mass_solute) (M_s := p.const.M_s) (T_m := p.T_m) (T_product_solid := T)
        (mass := p.const.mass) := rfl

theorem sigma_new (p : SnowIn α) (w : α) :
    sigma0D p w = F0D.sigma_new (w_i_new := w) (mass := p.const.mass)
        (mass_solute := p.const.mass_solute) := rfl

/-! the result assembly: on a completed run (`exc = none`) the statistics and time axes are the
source's expressions of the two loop indices -/

/-- what `run0DOn` returns on the success path, as a function of the two loop results -/
theorem result_formulas (p : SnowIn α) (shelf : List α) (Nt : Nat) (s : Cool0D α) (iS : Nat)
    (hc : cool0D p shelf = (some Nt, s))
    (hs : (solid0D p (nucleate0D p s.T).1 (nucleate0D p s.T).2 (shelf.drop Nt)).solEnd = some iS) :
    ∃ st h, (run0DOn p shelf).stats = some st ∧ (run0DOn p shelf).hist = some h ∧
      st.T_nuc = F0D.stats_T_nuc (T_nuc := s.T) ∧
      st.t_nuc = F0D.stats_t_nuc (t_nuc := (F0D.t_nuc (Nt_cool_end := (ofNat' Nt)) (dt := dt0D))) ∧
      st.t_sol = some (F0D.stats_t_sol (dt := dt0D) (i := (ofNat' iS))) ∧
      st.t_fr = some (F0D.stats_t_fr (t_nuc := (F0D.t_nuc (Nt_cool_end := (ofNat' Nt)) (dt := dt0D)))
          (dt := dt0D) (i := (ofNat' iS))) ∧
      h.time = ((Array.ofFn (n := Nt) fun i => F0D.time_cooling (dt := dt0D) (i := (ofNat' i.val))) ++
                (Array.ofFn (n := shelf.length - Nt) fun i =>
                  F0D.time_solid (t_nuc := (F0D.t_nuc (Nt_cool_end := (ofNat' Nt)) (dt := dt0D)))
                      (dt := dt0D) (i := (ofNat' i.val)))).map (· / ofNat' 3600) := by
  simp only [run0DOn, hc, hs]
  exact ⟨_, _, rfl, rfl, rfl, rfl, rfl, rfl, rfl⟩

theorem t_nuc (p : SnowIn α) (shelf : List α) (Nt : Nat) (s : Cool0D α) (iS : Nat)
    (hc : cool0D p shelf = (some Nt, s))
    (hs : (solid0D p (nucleate0D p s.T).1 (nucleate0D p s.T).2 (shelf.drop Nt)).solEnd = some iS) :
    ∃ st, (run0DOn p shelf).stats = some st ∧ st.t_nuc = F0D.t_nuc (Nt_cool_end := (ofNat' Nt))
        (dt := dt0D) / ofNat' 60 := by
  obtain ⟨st, _, h1, _, _, h3, _⟩ := result_formulas p shelf Nt s iS hc hs
  exact ⟨st, h1, h3⟩

theorem stats_T_nuc (p : SnowIn α) (shelf : List α) (Nt : Nat) (s : Cool0D α) (iS : Nat)
    (hc : cool0D p shelf = (some Nt, s))
    (hs : (solid0D p (nucleate0D p s.T).1 (nucleate0D p s.T).2 (shelf.drop Nt)).solEnd = some iS) :
    ∃ st, (run0DOn p shelf).stats = some st ∧ st.T_nuc = F0D.stats_T_nuc (T_nuc := s.T) := by
  obtain ⟨st, _, h1, _, h2, _⟩ := result_formulas p shelf Nt s iS hc hs
  exact ⟨st, h1, h2⟩

theorem stats_t_nuc (p : SnowIn α) (shelf : List α) (Nt : Nat) (s : Cool0D α) (iS : Nat)
    (hc : cool0D p shelf = (some Nt, s))
    (hs : (solid0D p (nucleate0D p s.T).1 (nucleate0D p s.T).2 (shelf.drop Nt)).solEnd = some iS) :
    ∃ st, (run0DOn p shelf).stats = some st ∧
      st.t_nuc = F0D.stats_t_nuc (t_nuc := (F0D.t_nuc (Nt_cool_end := (ofNat' Nt)) (dt := dt0D))) := by
  obtain ⟨st, _, h1, _, _, h3, _⟩ := result_formulas p shelf Nt s iS hc hs
  exact ⟨st, h1, h3⟩

theorem stats_t_sol (p : SnowIn α) (shelf : List α) (Nt : Nat) (s : Cool0D α) (iS : Nat)
    (hc : cool0D p shelf = (some Nt, s))
    (hs : (solid0D p (nucleate0D p s.T).1 (nucleate0D p s.T).2 (shelf.drop Nt)).solEnd = some iS) :
    ∃ st, (run0DOn p shelf).stats = some st ∧ st.t_sol = some (F0D.stats_t_sol (dt := dt0D)
        (i := (ofNat' iS))) := by
  obtain ⟨st, _, h1, _, _, _, h4, _⟩ := result_formulas p shelf Nt s iS hc hs
  exact ⟨st, h1, h4⟩

theorem stats_t_fr (p : SnowIn α) (shelf : List α) (Nt : Nat) (s : Cool0D α) (iS : Nat)
    (hc : cool0D p shelf = (some Nt, s))
    (hs : (solid0D p (nucleate0D p s.T).1 (nucleate0D p s.T).2 (shelf.drop Nt)).solEnd = some iS) :
    ∃ st, (run0DOn p shelf).stats = some st ∧
      st.t_fr = some (F0D.stats_t_fr (t_nuc := (F0D.t_nuc (Nt_cool_end := (ofNat' Nt)) (dt := dt0D)))
          (dt := dt0D) (i := (ofNat' iS))) := by
  obtain ⟨st, _, h1, _, _, _, _, h5, _⟩ := result_formulas p shelf Nt s iS hc hs
  exact ⟨st, h1, h5⟩

theorem time_cooling (p : SnowIn α) (shelf : List α) (Nt : Nat) (s : Cool0D α) (iS : Nat)
    (hc : cool0D p shelf = (some Nt, s))
    (hs : (solid0D p (nucleate0D p s.T).1 (nucleate0D p s.T).2 (shelf.drop Nt)).solEnd = some iS) :
    ∃ h, (run0DOn p shelf).hist = some h ∧
      h.time = ((Array.ofFn (n := Nt) fun i => F0D.time_cooling (dt := dt0D) (i := (ofNat' i.val))) ++
                (Array.ofFn (n := shelf.length - Nt) fun i =>
                  F0D.time_solid (t_nuc := (F0D.t_nuc (Nt_cool_end := (ofNat' Nt)) (dt := dt0D)))
                      (dt := dt0D) (i := (ofNat' i.val)))).map (· / ofNat' 3600) := by
  obtain ⟨_, h, _, h2, _, _, _, _, h6⟩ := result_formulas p shelf Nt s iS hc hs
  exact ⟨h, h2, h6⟩

theorem time_solid (p : SnowIn α) (shelf : List α) (Nt : Nat) (s : Cool0D α) (iS : Nat)
    (hc : cool0D p shelf = (some Nt, s))
    (hs : (solid0D p (nucleate0D p s.T).1 (nucleate0D p s.T).2 (shelf.drop Nt)).solEnd = some iS) :
    ∃ h, (run0DOn p shelf).hist = some h ∧
      h.time = ((Array.ofFn (n := Nt) fun i => F0D.time_cooling (dt := dt0D) (i := (ofNat' i.val))) ++
                (Array.ofFn (n := shelf.length - Nt) fun i =>
                  F0D.time_solid (t_nuc := (F0D.t_nuc (Nt_cool_end := (ofNat' Nt)) (dt := dt0D)))
                      (dt := dt0D) (i := (ofNat' i.val)))).map (· / ofNat' 3600) :=
  time_cooling p shelf Nt s iS hc hs

end Snow.GenTie.S0D
