/-
  GenTie / Flake — the scalar formulas of the hand model SnowModel/Flake.lean ARE the
  formulas of `Snowflake.run` in /repo's current source.

  `Snow.Gen.Flake.*` (SnowModel/Gen/GenFlake.lean) is GENERATED from snowflake.py by
  harness/translate.py on every run of the checks that own this model (harness/gentie.py).
  The vectorised statements of the source (`x[mask] = …`) are read per vial: each masked
  array is an opaque scalar parameter.  All equalities hold for EVERY numeric instance
  `[Transc α]` and are proved by `rfl` (same expression tree on both sides).
  Not tied here: `q_k = H_int @ T_k + …` (matrix form; tied by the C01/C09 correspondence).
-/
import SnowModel.Flake
import SnowModel.Gen.GenFlake

namespace Snow.GenTie.Flake
open Snow Num Snow.Flake

variable {α : Type} [Transc α]

theorem kb (a c xi : α) : kbOf a c xi = Gen.Flake.kb a xi c := rfl

theorem cp_sigma (c : Consts α) (σ : α) :
    cpSigma c σ = Gen.Flake.cp_sigma c.solid_fraction c.cp_s σ c.cp_i c.cp_w := rfl

/-- `beta`, `deltaSigma` and the sigma update compose to the hand model's `solidSigma` -/
theorem beta (c : Consts α) (dt q σ : α) :
    solidSigma c dt q σ =
      Gen.Flake.sigma_solid σ
        (Gen.Flake.deltaSigma q c.alpha (Gen.Flake.beta c.depression c.mass (cpSigma c σ)) σ dt) := rfl

theorem deltaSigma (c : Consts α) (dt q σ : α) :
    solidSigma c dt q σ =
      σ + Gen.Flake.deltaSigma q c.alpha (c.depression * c.mass * cpSigma c σ) σ dt := rfl

theorem sigma_solid (c : Consts α) (dt q σ : α) :
    solidSigma c dt q σ =
      Gen.Flake.sigma_solid σ
        (Gen.Flake.deltaSigma q c.alpha
          (Gen.Flake.beta c.depression c.mass
            (Gen.Flake.cp_sigma c.solid_fraction c.cp_s σ c.cp_i c.cp_w)) σ dt) := rfl

theorem T_solid (c : Consts α) (σ : α) : eqTemp c σ = Gen.Flake.T_solid c.T_eq c.depression σ := rfl

theorem T_jump (c : Consts α) (σ : α) : eqTemp c σ = Gen.Flake.T_jump c.T_eq c.depression σ := rfl

theorem T_liquid (c : Consts α) (dt q T : α) : liquidTemp c dt q T = Gen.Flake.T_liquid T q c.hl dt := rfl

theorem P (c : Consts α) (dt kb T : α) : prob c dt kb T = Gen.Flake.P kb c.V c.T_eq_l T c.b dt := rfl

theorem q0 (c : Consts α) (T : α) :
    sigmaIndirect c T =
      Gen.Flake.sigma_indirect (Gen.Flake.q0 c.T_eq_l T c.cp_solution c.mass) c.alpha c.beta_solution := rfl

theorem sigma_indirect (c : Consts α) (T : α) :
    sigmaIndirect c T =
      Gen.Flake.sigma_indirect ((c.T_eq_l - T) * c.cp_solution * c.mass) c.alpha c.beta_solution := rfl

theorem gamma_direct (c : Consts α) : gammaDirect c = Gen.Flake.gamma_direct c.alpha c.mass c.cp_solution := rfl

theorem B_direct (c : Consts α) (T : α) :
    sigmaDirect c T =
      Gen.Flake.sigma_direct (Gen.Flake.B_direct c.T_eq T (gammaDirect c)) (gammaDirect c)
        (T - c.T_eq + c.depression) := rfl

theorem C_direct (c : Consts α) (T : α) :
    sigmaDirect c T =
      Gen.Flake.sigma_direct (c.T_eq - T + gammaDirect c) (gammaDirect c)
        (Gen.Flake.C_direct T c.T_eq c.depression) := rfl

theorem sigma_direct (c : Consts α) (T : α) :
    sigmaDirect c T =
      Gen.Flake.sigma_direct (Gen.Flake.B_direct c.T_eq T (Gen.Flake.gamma_direct c.alpha c.mass c.cp_solution))
        (Gen.Flake.gamma_direct c.alpha c.mass c.cp_solution) (Gen.Flake.C_direct T c.T_eq c.depression) := rfl

/-- `t_nucleation = t[k] + dt` in the nucleating branch of `vialFinal` -/
theorem t_nucleation (p : Params α) (tk : α) (isCN : Bool) (m : Mid α) (kb die : α)
    (h : nucleates p isCN m kb die = true) :
    (vialFinal p tk isCN m kb die).tNuc = some (Gen.Flake.t_nucleation tk p.dt) := by
  simp [vialFinal, h, Gen.Flake.t_nucleation]

/-- `t_solidification = t[k] - t_nucleation` where it is recorded -/
theorem t_solidification (p : Params α) (tk : α) (v : Vial α)
    (h1 : p.threshold < v.sigma) (h2 : v.tSol = none) :
    tSolUpdate p tk true v = v.tNuc.map fun tn => Gen.Flake.t_solidification tk tn := by
  simp [tSolUpdate, h1, h2, Gen.Flake.t_solidification]

end Snow.GenTie.Flake
