/-
  GenTie / Flake — the scalar formulas of the hand model SnowModel/Flake.lean ARE the
  formulas of `Snowflake.run` in /repo's current source.

  `Snow.Gen.Flake.*` (SnowModel/Gen/GenFlake.lean) is GENERATED from snowflake.py by
  harness/translate.py on every run of the checks that own this model (harness/gentie.py).
  The vectorised statements of the source (`x[mask] = …`) are read per vial: each masked
  array is an opaque scalar parameter.  All equalities hold for EVERY numeric instance
  `[Transc α]` and are proved by `rfl` (same expression tree on both sides).
  Not tied here: `q_k = H_int @ T_k + …` (matrix form; tied by the C01/C09 correspondence).
  Generated definitions are applied with NAMED arguments (`(x := …)`): swapping two names in the
  source changes the body under fixed binders and breaks the equality as well.
-/
import SnowModel.Flake
import SnowModel.Gen.GenFlake

namespace Snow.GenTie.Flake
open Snow Num Snow.Flake

variable {α : Type} [Transc α]

theorem kb (a c xi : α) : kbOf a c xi = Gen.Flake.kb (a := a) (xi_v := xi) (c := c) := rfl

theorem cp_sigma (c : Consts α) (σ : α) :
    cpSigma c σ = Gen.Flake.cp_sigma (solid_fraction := c.solid_fraction) (cp_s := c.cp_s)
        (sigma_k_solidMask := σ) (cp_i := c.cp_i) (cp_w := c.cp_w) := rfl

/-- `beta`, `deltaSigma` and the sigma update compose to the hand model's `solidSigma` -/
theorem beta (c : Consts α) (dt q σ : α) :
    solidSigma c dt q σ =
      Gen.Flake.sigma_solid (sigma_k_solidMask := σ) (deltaSigma := (Gen.Flake.deltaSigma
          (q_k_solidMask := q) (alpha := c.alpha) (beta := (Gen.Flake.beta (depression := c.depression)
          (mass := c.mass) (cp_sigma := (cpSigma c σ)))) (sigma_k_solidMask := σ) (self_dt := dt))) := rfl

theorem deltaSigma (c : Consts α) (dt q σ : α) :
    solidSigma c dt q σ =
      σ + Gen.Flake.deltaSigma (q_k_solidMask := q) (alpha := c.alpha)
          (beta := (c.depression * c.mass * cpSigma c σ)) (sigma_k_solidMask := σ) (self_dt := dt) := rfl

theorem sigma_solid (c : Consts α) (dt q σ : α) :
    solidSigma c dt q σ =
      Gen.Flake.sigma_solid (sigma_k_solidMask := σ) (deltaSigma := (Gen.Flake.deltaSigma
          (q_k_solidMask := q) (alpha := c.alpha) (beta := (Gen.Flake.beta (depression := c.depression)
          (mass := c.mass) (cp_sigma := (Gen.Flake.cp_sigma (solid_fraction := c.solid_fraction)
          (cp_s := c.cp_s) (sigma_k_solidMask := σ) (cp_i := c.cp_i) (cp_w := c.cp_w)))))
          (sigma_k_solidMask := σ) (self_dt := dt))) := rfl

theorem T_solid (c : Consts α) (σ : α) : eqTemp c σ = Gen.Flake.T_solid (T_eq := c.T_eq)
    (depression := c.depression) (sigma_k_solidMask := σ) := rfl

theorem T_jump (c : Consts α) (σ : α) : eqTemp c σ = Gen.Flake.T_jump (T_eq := c.T_eq)
    (depression := c.depression) (sigma_k_nucleatedVialsMask := σ) := rfl

theorem T_liquid (c : Consts α) (dt q T : α) : liquidTemp c dt q T = Gen.Flake.T_liquid
    (T_k_liquidMask := T) (q_k_liquidMask := q) (hl := c.hl) (self_dt := dt) := rfl

theorem P (c : Consts α) (dt kb T : α) : prob c dt kb T = Gen.Flake.P (kb_nucleationCandidatesMask := kb)
    (V := c.V) (T_eq_l := c.T_eq_l) (T_k_nucleationCandidatesMask := T) (b := c.b) (self_dt := dt) := rfl

theorem q0 (c : Consts α) (T : α) :
    sigmaIndirect c T =
      Gen.Flake.sigma_indirect (q0 := (Gen.Flake.q0 (T_eq_l := c.T_eq_l) (T_k_nucleatedVialsMask := T)
          (cp_solution := c.cp_solution) (mass := c.mass))) (alpha := c.alpha)
          (beta_solution := c.beta_solution) := rfl

theorem sigma_indirect (c : Consts α) (T : α) :
    sigmaIndirect c T =
      Gen.Flake.sigma_indirect (q0 := ((c.T_eq_l - T) * c.cp_solution * c.mass)) (alpha := c.alpha)
          (beta_solution := c.beta_solution) := rfl

theorem gamma_direct (c : Consts α) : gammaDirect c = Gen.Flake.gamma_direct (alpha := c.alpha)
    (mass := c.mass) (cp_solution := c.cp_solution) := rfl

theorem B_direct (c : Consts α) (T : α) :
    sigmaDirect c T =
      Gen.Flake.sigma_direct (B_direct := (Gen.Flake.B_direct (T_eq := c.T_eq) (T_k_nucleatedVialsMask := T)
          (gamma_direct := (gammaDirect c)))) (gamma_direct := (gammaDirect c))
          (C_direct := (T - c.T_eq + c.depression)) := rfl

theorem C_direct (c : Consts α) (T : α) :
    sigmaDirect c T =
      Gen.Flake.sigma_direct (B_direct := (c.T_eq - T + gammaDirect c)) (gamma_direct := (gammaDirect c))
          (C_direct := (Gen.Flake.C_direct (T_k_nucleatedVialsMask := T) (T_eq := c.T_eq)
          (depression := c.depression))) := rfl

theorem sigma_direct (c : Consts α) (T : α) :
    sigmaDirect c T =
      Gen.Flake.sigma_direct (B_direct := (Gen.Flake.B_direct (T_eq := c.T_eq) (T_k_nucleatedVialsMask := T)
          (gamma_direct := (Gen.Flake.gamma_direct (alpha := c.alpha) (mass := c.mass)
          (cp_solution := c.cp_solution))))) (gamma_direct := (Gen.Flake.gamma_direct (alpha := c.alpha)
          (mass := c.mass) (cp_solution := c.cp_solution))) (C_direct := (Gen.Flake.C_direct
          (T_k_nucleatedVialsMask := T) (T_eq := c.T_eq) (depression := c.depression))) := rfl

/-- `t_nucleation = t[k] + dt` in the nucleating branch of `vialFinal` -/
theorem t_nucleation (p : Params α) (tk : α) (isCN : Bool) (m : Mid α) (kb die : α)
    (h : nucleates p isCN m kb die = true) :
    (vialFinal p tk isCN m kb die).tNuc = some (Gen.Flake.t_nucleation (t_k := tk) (self_dt := p.dt)) := by
  simp [vialFinal, h, Gen.Flake.t_nucleation]

/-- `t_solidification = t[k] - t_nucleation` where it is recorded -/
theorem t_solidification (p : Params α) (tk : α) (v : Vial α)
    (h1 : p.threshold < v.sigma) (h2 : v.tSol = none) :
    tSolUpdate p tk true v = v.tNuc.map fun tn => Gen.Flake.t_solidification (t_k := tk)
        (stats_t_nucleation_solidifiedMask := tn) := by
  simp [tSolUpdate, h1, h2, Gen.Flake.t_solidification]

end Snow.GenTie.Flake
