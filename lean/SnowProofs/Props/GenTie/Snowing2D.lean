/-
  GenTie / Snowing2D — the formulas of the hand model SnowModel/Snowing2D.lean (namespace
  `Snow.S2D`) ARE the formulas of `Snowing._run_2D` in /repo's current source.

  `Snow.Gen.F2D.*` (SnowModel/Gen/Formulas2D.lean) is GENERATED from snowing.py by
  harness/translate.py on every run of the checks that own this model (harness/gentie.py).
  The source writes the update region by region (nine `T_new[...] = …` statements per loop) with
  numpy slices; each slice is an opaque scalar parameter of the generated definition, and the
  theorems `cool_<region>` / `solid_<region>` say that the hand model's single node formula
  `S2D.coolNode` / `S2D.solidNode`, evaluated at a node of that region, IS the generated region
  formula with every slice read at the node the hand model's readers (`outer/inner/upper/lower`,
  ghost rows/columns, centre-line view) read it.  All equalities hold for every numeric instance
  (`[Num α]` / `[Transc α]`): `rfl`, or unfolding plus index arithmetic (`omega`); no field laws.
  Generated definitions are applied with NAMED arguments, so a swap of two names in the source
  is seen as well.
  The flux inside `q_e` is the model's `Evap2D.vapourFlux` at `Evap2D.pLiquid/pSolid`; those three are tied
  to utils.py in GenTie/Evap.lean (`pLiquid`, `pSolid`, `vapourFlux`).
  `BETA` and `m_ice` (`np.ones(shape)` / `np.zeros(shape)` = the constant 1 / 0 of one node, masks multiplied in as
  numbers) and the two mask statements of the solidification loop are tied as well.
  Not tied (calls the translator rejects): `simps(…)`, `np.linspace`, the `_stats` dict; they stay tied by the
  C02/C07/C15 correspondence.
-/
import SnowModel.Snowing2D
import SnowModel.Gen.Formulas2D

namespace Snow.GenTie.S2D
open Snow Num Snow.S2D
open Snow.Gen

section num
variable {α : Type} [Num α]

/-- the literal `1` as the generated text spells it and as the hand model's default argument does -/
theorem one_eq : (Num.one : α) = Num.ofNat' 1 := rfl

end num

section
variable {α : Type} [Transc α]

/-! ### derived constants -/

theorem radius (p : Par α) : Snow.S2D.radius p = F2D.radius (diameter := p.diameter) := rfl
theorem T_m (p : Par α) : Tm p = F2D.T_m (self_const_T_eq := p.T_eq) := rfl
theorem T_eq_l (p : Par α) : TeqL p = F2D.T_eq_l (T_m := Tm p) (depression := p.depression) := rfl
theorem K_wall (p : Par α) :
    Kwall p = F2D.K_wall (K_shelf := p.K_shelf) (air_gap := p.air_gap) (lambda_air := p.lambda_air) := rfl
theorem k_eff (p : Par α) :
    kEff0 p = F2D.k_eff (solid_fraction := p.solid_fraction) (lambda_s := p.lambda_s) (lambda_w := p.lambda_w) := rfl
theorem alpha (p : Par α) :
    alpha0 p = F2D.alpha (k_eff := kEff0 p) (cp_solution := p.cp_solution) (rho_l := p.rho_l) := rfl
theorem dz (p : Par α) : Snow.S2D.dz p = F2D.dz (height := p.height) (Nz := ofNat' p.Nz) := rfl
theorem dr (p : Par α) : Snow.S2D.dr p = F2D.dr (radius := Snow.S2D.radius p) (Nr := ofNat' p.Nr) := rfl
theorem alpha_max (p : Par α) :
    alphaMax p = F2D.alpha_max (lambda_i := p.lambda_i) (cp_i := p.cp_i) (rho_l := p.rho_l) := rfl
theorem dt (p : Par α) :
    Snow.S2D.dt p = F2D.dt (alpha_max := alphaMax p) (dz := Snow.S2D.dz p) (dr := Snow.S2D.dr p) := rfl

/-- the coefficient of the cooling stencil is `alpha * dt`, the spacing of the side ghost value is
`dr` (repaired code, flag `jacketDz = false`) -/
theorem ctx_coefficients (p : Par α) :
    (mkCtx p {}).a0 = alpha0 p * Snow.S2D.dt p ∧ (mkCtx p {}).eSp = Snow.S2D.dr p ∧ (mkCtx p {}).k0 = kEff0 p := by
  refine ⟨rfl, ?_, rfl⟩
  simp [mkCtx, edgeSpacing]

/-! ### ghost values and the cooling step -/

theorem q_jacket (c : Ctx α) (h : c.p.config = .jacket) (Tsh Twall : α) :
    qJacket c Tsh Twall = F2D.q_jacket (K_wall := c.Kw) (T_shelf := Tsh) (T_k_Nr_m_1 := Twall) := by
  simp [qJacket, h, F2D.q_jacket]

theorem solid_q_jacket (c : Ctx α) (h : c.p.config = .jacket) (Tsh Twall : α) :
    qJacket c Tsh Twall = F2D.solid_q_jacket (K_wall := c.Kw) (T_shelf := Tsh) (T_k_Nr_m_1 := Twall) := by
  simp [qJacket, h, F2D.solid_q_jacket]

/-- the cooling step with its three ghost arrays written with the GENERATED formulas -/
def coolStepGen (c : Ctx α) (inplace : Bool) (Tsh : α) (qe : Nat → α) (T : Array α) : Array α :=
  let Nz := c.Nz
  let Nr := c.Nr
  let TbA : Array α := Array.ofFn (n := Nr) fun j =>
    F2D.T_bottom (T_k_0 := rd Nr T 0 j.val)
      (q_overall := F2D.q_overall (K_shelf := c.p.K_shelf) (T_shelf := Tsh) (T_k_0 := rd Nr T 0 j.val))
      (dz := c.dz) (k_eff := c.k0)
  let TtA : Array α := Array.ofFn (n := Nr) fun j =>
    F2D.T_top (T_k_Nz_m_1 := rd Nr T (Nz - 1) j.val) (q_e := qe j.val) (dz := c.dz) (k_eff := c.k0)
  let TeA : Array α := Array.ofFn (n := Nz) fun i =>
    F2D.T_edge (T_k_Nr_m_1 := rd Nr T i.val (Nr - 1)) (q_jacket := qJacket c Tsh (rd Nr T i.val (Nr - 1)))
      (dr := c.eSp) (k_eff := c.k0)
  sweep Nz Nr inplace
    (fun R i j => coolNode Nz Nr c.a0 c.dz c.dr (rd1 c.rA) R (rd1 TbA) (rd1 TtA) (rd1 TeA) i j c.l2 c.l1) T

theorem cool_step (c : Ctx α) (inplace : Bool) (Tsh : α) (qe : Nat → α) (T : Array α) :
    coolStep c inplace Tsh qe T = coolStepGen c inplace Tsh qe T := rfl

/-- the vapour flux the model evaluates at the top node of column `j` (its transcription of
`utils.vapour_flux`, tied to the source in GenTie/Evap.lean, at the surface pressure of the stage) -/
def fluxAt (c : Ctx α) (solidStage : Bool) (T : Array α) (j : Nat) : α :=
  let Tl := rd c.Nr T (c.Nz - 1) j
  let pv := if (solidStage || c.f.coolingSolidPvap) then Evap2D.pSolid Tl else Evap2D.pLiquid Tl
  Evap2D.vapourFlux c.p.pi c.p.kappa c.p.m_water c.p.k_B c.p.p_vac pv Tl Tl

/-- inside the vacuum window of a VISF run the evaporative flux of column `j` is the generated
`-N_w * dHe` with `N_w` the model's vapour flux at the top node of that column -/
theorem q_e (c : Ctx α) (solidStage : Bool) (time : α) (T : Array α) (j : Nat) (hv : c.p.config = .visf)
    (hw : c.p.t_vac_start * ofNat' 3600 < time ∧ time < (c.p.t_vac_start + c.p.t_vac_duration) * ofNat' 3600) :
    qEvap c solidStage time T j = F2D.q_e (N_w := fluxAt c solidStage T j) (dHe := c.p.dHe) := by
  simp only [qEvap, hv, F2D.q_e]
  rw [if_pos hw]
  rfl

theorem solid_q_e (c : Ctx α) (solidStage : Bool) (time : α) (T : Array α) (j : Nat) (hv : c.p.config = .visf)
    (hw : c.p.t_vac_start * ofNat' 3600 < time ∧ time < (c.p.t_vac_start + c.p.t_vac_duration) * ofNat' 3600) :
    qEvap c solidStage time T j = F2D.solid_q_e (N_w := fluxAt c solidStage T j) (dHe := c.p.dHe) := by
  simp only [qEvap, hv, F2D.solid_q_e]
  rw [if_pos hw]
  rfl

/-- **the whole statement group** of the 2D cooling loop (`if window: N_w = Utils.vapour_flux(…, p_vap, T_l, T_v);
q_e = -N_w*dHe else: q_e = 0`, `T_l = T_v = T_k[-1, :]`, `p_vap = Utils.vapour_pressure_liquid(T_l)`), per column:
window condition, call arguments, sign and else-branch are the model's `qEvap` (repaired code: liquid curve) -/
theorem cool_q_e_if (c : Ctx α) (hv : c.p.config = .visf) (hf : c.f.coolingSolidPvap = false) (dt i : α)
    (T : Array α) (j : Nat) :
    qEvap c false (dt * i) T j =
      F2D.cool_q_e_if (dt := dt) (i := i) (t_vac_start := c.p.t_vac_start) (t_vac_duration := c.p.t_vac_duration)
        (kappa := c.p.kappa) (m_water := c.p.m_water) (k_B := c.p.k_B) (p_vac := c.p.p_vac)
        (T_k_m1 := rd c.Nr T (c.Nz - 1) j) (np_pi := c.p.pi) (dHe := c.p.dHe) := by
  simp only [qEvap, hv, F2D.cool_q_e_if]
  by_cases hw : c.p.t_vac_start * ofNat' 3600 < dt * i ∧
      dt * i < (c.p.t_vac_start + c.p.t_vac_duration) * ofNat' 3600
  · simp only [hw.1, hw.2, and_self, decide_true, Bool.and_self, if_true, hf, Bool.or_false, Bool.false_eq_true,
      if_false]
    rfl
  · simp only [Bool.and_eq_true, decide_eq_true_eq, hw, if_false]

/-- the same statement group of the 2D solidification loop (`t_nuc + dt*i`, ice curve) -/
theorem solid_q_e_if (c : Ctx α) (hv : c.p.config = .visf) (tNuc dt i : α) (T : Array α) (j : Nat) :
    qEvap c true (tNuc + dt * i) T j =
      F2D.solid_q_e_if (t_nuc := tNuc) (dt := dt) (i := i) (t_vac_start := c.p.t_vac_start)
        (t_vac_duration := c.p.t_vac_duration) (kappa := c.p.kappa) (m_water := c.p.m_water) (k_B := c.p.k_B)
        (p_vac := c.p.p_vac) (T_k_m1 := rd c.Nr T (c.Nz - 1) j) (np_pi := c.p.pi) (dHe := c.p.dHe) := by
  simp only [qEvap, hv, F2D.solid_q_e_if]
  by_cases hw : c.p.t_vac_start * ofNat' 3600 < tNuc + dt * i ∧
      tNuc + dt * i < (c.p.t_vac_start + c.p.t_vac_duration) * ofNat' 3600
  · simp only [hw.1, hw.2, and_self, decide_true, Bool.and_self, if_true, Bool.true_or]
    rfl
  · simp only [Bool.and_eq_true, decide_eq_true_eq, hw, if_false]

/-! ### hazard -/

theorem J_z_r (c : Ctx α) (T : Array α) :
    hazardJ c T = T.map fun t =>
      if t < c.TeqL then F2D.J_z_r (kb := c.p.kb) (T_eq_l := c.TeqL) (T_k_superCooledMask := t) (b := c.p.b)
      else zero := rfl

/-- one iteration of the cooling loop: `E_t += K_v*dt`, `F_nuc = 1 - exp(-E_t)` -/
theorem cool_loop_step (c : Ctx α) (stride : Nat) (Frand : α) (cn : Option α) (zeros : Array α)
    (Tsh : α) (rest : List α) (i : Nat) (T : Array α) (E : α) (rows : Array (Row α)) :
    coolLoop c stride Frand cn zeros (Tsh :: rest) i T E rows =
      (let time := c.dt * ofNat' i
       let T' := coolStep c c.f.inplace Tsh (qEvap c false time T) T
       let J := hazardJ c T'
       let Kv := volIntegral c J
       let rows' :=
         if i % stride = 0 then
           rows.push { time := time, shelf := Tsh - kelvin, temp := T'.map (· - kelvin), ice := zeros }
         else rows
       let E' := F2D.E_t (E_t := E) (K_v := Kv) (dt := c.dt)
       let F := F2D.F_nuc (E_t := E')
       let stop : Bool :=
         match cn with
         | none => decide (Frand < F)
         | some cnT => decide (minA T' ≤ cnT + kelvin)
       if stop then some { iEnd := i, T := T', J := J, Kv := Kv, Tshelf := Tsh, rows := rows' }
       else coolLoop c stride Frand cn zeros rest (i + 1) T' E' rows') := rfl


/-! ### nucleation quadratic (per node) -/

theorem B (p : Par α) (Tm Tn : α) :
    nucB p Tm Tn = F2D.B (T_m := Tm) (T_nuc := Tn) (Dh := p.Dh) (mass_water := p.mass_water)
      (cp_solution := p.cp_solution) (mass := p.mass) := rfl

theorem C (p : Par α) (Tm Tn : α) :
    nucC p Tm Tn = F2D.C (Dh := p.Dh) (mass_water := p.mass_water) (T_m := Tm) (cp_solution := p.cp_solution)
      (mass := p.mass) (mass_solute := p.mass_solute) (k_f := p.k_f) (M_s := p.M_s) (T_nuc := Tn) := rfl

theorem T_eq_sol_1 (p : Par α) (Tm Tn : α) :
    nucRoot p Tm Tn = F2D.T_eq_sol_1 (B := nucB p Tm Tn) (C := nucC p Tm Tn) := rfl

theorem m_i_nucl_sol_1 (p : Par α) (Tm T : α) :
    iceMass p Tm T = F2D.m_i_nucl_sol_1 (mass_water := p.mass_water) (mass_solute := p.mass_solute)
      (k_f := p.k_f) (M_s := p.M_s) (T_m := Tm) (T_eq_sol_1 := T) := rfl

theorem w_i_nucl (c : Ctx α) (Tn : α) (h : Tn < c.TeqL) :
    (nucNode c Tn).2 =
      F2D.w_i_nucl (m_i_eq := iceMass c.p c.Tm (nucRoot c.p c.Tm Tn)) (mass_water := c.p.mass_water)
        (mass_solute := c.p.mass_solute) := by
  simp [nucNode, h, F2D.w_i_nucl]

/-! ### solidification stage -/

theorem cp_eff (p : Par α) (w : α) :
    cpEff p w = F2D.cp_eff (cp_s := p.cp_s) (solid_fraction := p.solid_fraction) (cp_i := p.cp_i)
      (w_i_new := w) (cp_w := p.cp_w) := rfl

theorem solid_k_eff (p : Par α) (w : α) :
    kEff p w = F2D.solid_k_eff (lambda_i := p.lambda_i) (w_i_new := w) (lambda_w := p.lambda_w) := rfl

theorem beta (p : Par α) (cp : α) :
    betaOf p cp = F2D.beta (Dh := p.Dh) (k_f := p.k_f) (mass_solute := p.mass_solute) (M_s := p.M_s)
      (rho_l := p.rho_l) (V := p.V) (cp_eff := cp) := rfl

/-- the solidification step with its three ghost arrays written with the GENERATED formulas -/
def solidStepGen (c : Ctx α) (inplace : Bool) (Tsh : α) (qe : Nat → α) (T w : Array α) (mask : Array Bool) :
    Array α :=
  let Nz := c.Nz
  let Nr := c.Nr
  let n := Nz * Nr
  let cpA : Array α := Array.ofFn (n := n) fun x => cpEff c.p (rd1 w x.val)
  let kA : Array α := Array.ofFn (n := n) fun x => kEff c.p (rd1 w x.val)
  let BA : Array α := Array.ofFn (n := n) fun x =>
    F2D.BETA (LCS_i_r := mnum (!(mask.getD x.val false)))
      (beta := F2D.beta (Dh := c.p.Dh) (k_f := c.p.k_f) (mass_solute := c.p.mass_solute) (M_s := c.p.M_s)
        (rho_l := c.p.rho_l) (V := c.p.V) (cp_eff := rd1 cpA x.val))
      (T_k := rd1 T x.val) (T_m := c.Tm) (LCS_i := mnum (mask.getD x.val false))
  let TbA : Array α := Array.ofFn (n := Nr) fun j =>
    F2D.solid_T_bottom (T_k_0 := rd Nr T 0 j.val)
      (q_overall := F2D.solid_q_overall (K_shelf := c.p.K_shelf) (T_shelf := Tsh) (T_k_0 := rd Nr T 0 j.val))
      (dz := c.dz) (k_eff_0 := rd Nr kA 0 j.val)
  let TtA : Array α := Array.ofFn (n := Nr) fun j =>
    F2D.solid_T_top (T_k_Nz_m_1 := rd Nr T (Nz - 1) j.val) (q_e := qe j.val) (dz := c.dz)
      (k_eff_Nz_m_1 := rd Nr kA (Nz - 1) j.val)
  let TeA : Array α := Array.ofFn (n := Nz) fun i =>
    F2D.solid_T_edge (T_k_Nr_m_1 := rd Nr T i.val (Nr - 1)) (q_jacket := qJacket c Tsh (rd Nr T i.val (Nr - 1)))
      (dr := c.eSp) (k_eff_Nr_m_1 := rd Nr kA i.val (Nr - 1))
  sweep Nz Nr inplace
    (fun R i j => solidNode Nz Nr c.dt c.p.rho_l c.dz c.dr (rd1 c.rA)
      (rd Nr kA) (rd Nr cpA) (rd Nr BA) R (rd1 TbA) (rd1 TtA) (rd1 TeA) i j c.l2 c.l4 c.l1) T

theorem solid_step (c : Ctx α) (inplace : Bool) (Tsh : α) (qe : Nat → α) (T w : Array α) (mask : Array Bool) :
    solidStep c inplace Tsh qe T w mask = solidStepGen c inplace Tsh qe T w mask := rfl

/-- the mask a solidification step leaves (`LCS_i = T_k < T_eq_l`) and its complement (`LCS_i_r = ~LCS_i`) -/
theorem solid_masks (c : Ctx α) (T : Array α) :
    maskOf c T = T.map (fun t => F2D.solid_LCS_i (T_k := t) (T_eq_l := c.TeqL)) ∧
    ∀ t Tl : α, F2D.solid_LCS_i_r (T_k := t) (T_eq_l := Tl) = !F2D.solid_LCS_i (T_k := t) (T_eq_l := Tl) :=
  ⟨rfl, fun _ _ => rfl⟩

/-- `BETA = np.ones((Nz, Nr))*LCS_i_r + (1 + beta/(T_k - T_m)**2)*LCS_i` per node: the hand model's `BETAof` IS the
generated formula at the masks as numbers (`LCS_i_r` the complement of `LCS_i`) and the generated `beta` -/
theorem BETA (p : Par α) (Tm : α) (sc : Bool) (cp T : α) :
    BETAof p Tm sc cp T =
      F2D.BETA (LCS_i_r := mnum (!sc))
        (beta := F2D.beta (Dh := p.Dh) (k_f := p.k_f) (mass_solute := p.mass_solute) (M_s := p.M_s)
          (rho_l := p.rho_l) (V := p.V) (cp_eff := cp))
        (T_k := T) (T_m := Tm) (LCS_i := mnum sc) := rfl

/-- `m_ice = np.zeros((Nz, Nr))*LCS_i_r + (mass_water - mass_solute (k_f/M_s)/(T_m - T_new))*LCS_i` per node, at the
generated masks of the new field -/
theorem m_ice (c : Ctx α) (t : α) :
    (zero * mnum (!decide (t < c.TeqL)) + iceMass c.p c.Tm t * mnum (decide (t < c.TeqL)) : α) =
      F2D.m_ice (LCS_i_r := mnum (F2D.solid_LCS_i_r (T_k := t) (T_eq_l := c.TeqL))) (mass_water := c.p.mass_water)
        (mass_solute := c.p.mass_solute) (k_f := c.p.k_f) (M_s := c.p.M_s) (T_m := c.Tm) (T_new := t)
        (LCS_i := mnum (F2D.solid_LCS_i (T_k := t) (T_eq_l := c.TeqL))) := rfl

theorem w_i_new (c : Ctx α) (T : Array α) :
    iceFrac c T = T.map fun t =>
      F2D.w_i_new
        (m_ice := F2D.m_ice (LCS_i_r := mnum (F2D.solid_LCS_i_r (T_k := t) (T_eq_l := c.TeqL)))
          (mass_water := c.p.mass_water) (mass_solute := c.p.mass_solute) (k_f := c.p.k_f) (M_s := c.p.M_s)
          (T_m := c.Tm) (T_new := t) (LCS_i := mnum (F2D.solid_LCS_i (T_k := t) (T_eq_l := c.TeqL))))
        (mass_water := c.p.mass_water)
        (mass_solute := c.p.mass_solute) := rfl

theorem sigma_new (c : Ctx α) (w : Array α) :
    sigmaOf c w =
      F2D.sigma_new (np_pi := c.p.pi) (r_m1 := rd1 c.rA (c.Nr - 1)) (z_m1 := rd1 c.zA (c.Nz - 1))
        (w_i := volIntegral c w) (mass := c.p.mass) (mass_solute := c.p.mass_solute) := rfl

/-! ### the nine regions of the two stencils -/

set_option linter.unusedVariables false
set_option linter.unusedSimpArgs false

theorem cool_bottom_centre (Nz Nr : Nat) (alpha dt dz dr : α) (r : Nat → α) (T : Nat → Nat → α) (Tb Tt Te : Nat → α)
    (hz : 2 ≤ Nz) (hr : 2 ≤ Nr) :
    coolNode Nz Nr (alpha * dt) dz dr r T Tb Tt Te 0 0 =
      F2D.cool_bottom_centre (T_k_0_0 := (T 0 0)) (alpha := alpha) (dt := dt) (T_k_0_1 := (T 0 1))
          (T_center_0 := (T 0 0)) (dr := dr) (T_k_1_0 := (T 1 0)) (T_bottom_0 := (Tb 0)) (dz := dz) := by
  have : ¬ (0 : Nat) + 1 = Nz := by omega
  have : ¬ (0 : Nat) + 1 = Nr := by omega
  simp [coolNode, outer, inner, upper, lower, F2D.cool_bottom_centre, one_eq, *]

theorem cool_bottom_corner (Nz Nr : Nat) (alpha dt dz dr : α) (r : Nat → α) (T : Nat → Nat → α) (Tb Tt Te : Nat → α)
    (hz : 2 ≤ Nz) (hr : 2 ≤ Nr) :
    coolNode Nz Nr (alpha * dt) dz dr r T Tb Tt Te 0 (Nr - 1) =
      F2D.cool_bottom_corner (T_k_0_Nr_m_1 := (T 0 (Nr - 1))) (alpha := alpha) (dt := dt)
          (r_Nr_m_1 := (r (Nr - 1))) (T_edge_0 := (Te 0)) (T_k_0_Nr_m_2 := (T 0 (Nr - 1 - 1))) (dr := dr)
          (T_k_1_Nr_m_1 := (T 1 (Nr - 1))) (T_bottom_Nr_m_1 := (Tb (Nr - 1))) (dz := dz) := by
  have : ¬ (0 : Nat) + 1 = Nz := by omega
  have : Nr - 1 + 1 = Nr := by omega
  have : ¬ Nr - 1 = 0 := by omega
  simp [coolNode, outer, inner, upper, lower, F2D.cool_bottom_corner, one_eq, *]

theorem cool_bottom_rest (Nz Nr : Nat) (alpha dt dz dr : α) (r : Nat → α) (T : Nat → Nat → α) (Tb Tt Te : Nat → α) (j : Nat)
    (hz : 2 ≤ Nz) (hr : 2 ≤ Nr) (hj0 : 0 < j) (hj1 : j + 1 < Nr) :
    coolNode Nz Nr (alpha * dt) dz dr r T Tb Tt Te 0 j =
      F2D.cool_bottom_rest (T_k_0_1_Nr_m_1 := (T 0 j)) (alpha := alpha) (dt := dt) (r_1_Nr_m_1 := (r j))
          (T_k_0_2_Nr := (T 0 (j + 1))) (T_k_0_0_Nr_m_2 := (T 0 (j - 1))) (dr := dr)
          (T_k_1_1_Nr_m_1 := (T 1 j)) (T_bottom_1_Nr_m_1 := (Tb j)) (dz := dz) := by
  have : ¬ (0 : Nat) + 1 = Nz := by omega
  have : ¬ j = 0 := by omega
  have : ¬ j + 1 = Nr := by omega
  simp [coolNode, outer, inner, upper, lower, F2D.cool_bottom_rest, one_eq, *]

theorem cool_top_centre (Nz Nr : Nat) (alpha dt dz dr : α) (r : Nat → α) (T : Nat → Nat → α) (Tb Tt Te : Nat → α)
    (hz : 2 ≤ Nz) (hr : 2 ≤ Nr) :
    coolNode Nz Nr (alpha * dt) dz dr r T Tb Tt Te (Nz - 1) 0 =
      F2D.cool_top_centre (T_k_Nz_m_1_0 := (T (Nz - 1) 0)) (alpha := alpha) (dt := dt)
          (T_k_Nz_m_1_1 := (T (Nz - 1) 1)) (T_center_m1 := (T (Nz - 1) 0)) (dr := dr) (T_top_0 := (Tt 0))
          (T_k_Nz_m_2_0 := (T (Nz - 1 - 1) 0)) (dz := dz) := by
  have : Nz - 1 + 1 = Nz := by omega
  have : ¬ Nz - 1 = 0 := by omega
  have : ¬ (0 : Nat) + 1 = Nr := by omega
  simp [coolNode, outer, inner, upper, lower, F2D.cool_top_centre, one_eq, *]

theorem cool_top_corner (Nz Nr : Nat) (alpha dt dz dr : α) (r : Nat → α) (T : Nat → Nat → α) (Tb Tt Te : Nat → α)
    (hz : 2 ≤ Nz) (hr : 2 ≤ Nr) :
    coolNode Nz Nr (alpha * dt) dz dr r T Tb Tt Te (Nz - 1) (Nr - 1) =
      F2D.cool_top_corner (T_k_Nz_m_1_Nr_m_1 := (T (Nz - 1) (Nr - 1))) (alpha := alpha) (dt := dt)
          (r_Nr_m_1 := (r (Nr - 1))) (T_edge_Nz_m_1 := (Te (Nz - 1)))
          (T_k_Nz_m_1_Nr_m_2 := (T (Nz - 1) (Nr - 1 - 1))) (dr := dr) (T_top_Nr_m_1 := (Tt (Nr - 1)))
          (T_k_Nz_m_2_Nr_m_1 := (T (Nz - 1 - 1) (Nr - 1))) (dz := dz) := by
  have : Nz - 1 + 1 = Nz := by omega
  have : ¬ Nz - 1 = 0 := by omega
  have : Nr - 1 + 1 = Nr := by omega
  have : ¬ Nr - 1 = 0 := by omega
  simp [coolNode, outer, inner, upper, lower, F2D.cool_top_corner, one_eq, *]

theorem cool_top_rest (Nz Nr : Nat) (alpha dt dz dr : α) (r : Nat → α) (T : Nat → Nat → α) (Tb Tt Te : Nat → α) (j : Nat)
    (hz : 2 ≤ Nz) (hr : 2 ≤ Nr) (hj0 : 0 < j) (hj1 : j + 1 < Nr) :
    coolNode Nz Nr (alpha * dt) dz dr r T Tb Tt Te (Nz - 1) j =
      F2D.cool_top_rest (T_k_Nz_m_1_1_Nr_m_1 := (T (Nz - 1) j)) (alpha := alpha) (dt := dt)
          (r_1_Nr_m_1 := (r j)) (T_k_Nz_m_1_2_Nr := (T (Nz - 1) (j + 1)))
          (T_k_Nz_m_1_0_Nr_m_2 := (T (Nz - 1) (j - 1))) (dr := dr) (T_top_1_Nr_m_1 := (Tt j))
          (T_k_Nz_m_2_1_Nr_m_1 := (T (Nz - 1 - 1) j)) (dz := dz) := by
  have : Nz - 1 + 1 = Nz := by omega
  have : ¬ Nz - 1 = 0 := by omega
  have : ¬ j = 0 := by omega
  have : ¬ j + 1 = Nr := by omega
  simp [coolNode, outer, inner, upper, lower, F2D.cool_top_rest, one_eq, *]

theorem cool_edge (Nz Nr : Nat) (alpha dt dz dr : α) (r : Nat → α) (T : Nat → Nat → α) (Tb Tt Te : Nat → α) (i : Nat)
    (hz : 2 ≤ Nz) (hr : 2 ≤ Nr) (hi0 : 0 < i) (hi1 : i + 1 < Nz) :
    coolNode Nz Nr (alpha * dt) dz dr r T Tb Tt Te i (Nr - 1) =
      F2D.cool_edge (T_k_1_Nz_m_1_Nr_m_1 := (T i (Nr - 1))) (alpha := alpha) (dt := dt)
          (r_Nr_m_1 := (r (Nr - 1))) (T_edge_1_Nz_m_1 := (Te i)) (T_k_1_Nz_m_1_Nr_m_2 := (T i (Nr - 1 - 1)))
          (dr := dr) (T_k_2_Nz_Nr_m_1 := (T (i + 1) (Nr - 1))) (T_k_0_Nz_m_2_Nr_m_1 := (T (i - 1) (Nr - 1)))
          (dz := dz) := by
  have : ¬ i = 0 := by omega
  have : ¬ i + 1 = Nz := by omega
  have : Nr - 1 + 1 = Nr := by omega
  have : ¬ Nr - 1 = 0 := by omega
  simp [coolNode, outer, inner, upper, lower, F2D.cool_edge, one_eq, *]

theorem cool_centre_line (Nz Nr : Nat) (alpha dt dz dr : α) (r : Nat → α) (T : Nat → Nat → α) (Tb Tt Te : Nat → α) (i : Nat)
    (hz : 2 ≤ Nz) (hr : 2 ≤ Nr) (hi0 : 0 < i) (hi1 : i + 1 < Nz) :
    coolNode Nz Nr (alpha * dt) dz dr r T Tb Tt Te i 0 =
      F2D.cool_centre_line (T_k_1_Nz_m_1_0 := (T i 0)) (alpha := alpha) (dt := dt)
          (T_k_1_Nz_m_1_1 := (T i 1)) (T_center_1_Nz_m_1 := (T i 0)) (dr := dr)
          (T_k_2_Nz_0 := (T (i + 1) 0)) (T_k_0_Nz_m_2_0 := (T (i - 1) 0)) (dz := dz) := by
  have : ¬ i = 0 := by omega
  have : ¬ i + 1 = Nz := by omega
  have : ¬ (0 : Nat) + 1 = Nr := by omega
  simp [coolNode, outer, inner, upper, lower, F2D.cool_centre_line, one_eq, *]

theorem cool_bulk (Nz Nr : Nat) (alpha dt dz dr : α) (r : Nat → α) (T : Nat → Nat → α) (Tb Tt Te : Nat → α) (i j : Nat)
    (hz : 2 ≤ Nz) (hr : 2 ≤ Nr) (hi0 : 0 < i) (hi1 : i + 1 < Nz) (hj0 : 0 < j) (hj1 : j + 1 < Nr) :
    coolNode Nz Nr (alpha * dt) dz dr r T Tb Tt Te i j =
      F2D.cool_bulk (T_k_1_Nz_m_1_1_Nr_m_1 := (T i j)) (alpha := alpha) (dt := dt) (r_1_Nr_m_1 := (r j))
          (T_k_1_Nz_m_1_2_Nr := (T i (j + 1))) (T_k_1_Nz_m_1_0_Nr_m_2 := (T i (j - 1))) (dr := dr)
          (T_k_2_Nz_1_Nr_m_1 := (T (i + 1) j)) (T_k_0_Nz_m_2_1_Nr_m_1 := (T (i - 1) j)) (dz := dz) := by
  have : ¬ i = 0 := by omega
  have : ¬ i + 1 = Nz := by omega
  have : ¬ j = 0 := by omega
  have : ¬ j + 1 = Nr := by omega
  simp [coolNode, outer, inner, upper, lower, F2D.cool_bulk, one_eq, *]

theorem solid_bottom_centre (Nz Nr : Nat) (dt rho dz dr : α) (r : Nat → α) (k cp B T : Nat → Nat → α) (Tb Tt Te : Nat → α)
    (hz : 2 ≤ Nz) (hr : 2 ≤ Nr) :
    solidNode Nz Nr dt rho dz dr r k cp B T Tb Tt Te 0 0 =
      F2D.solid_bottom_centre (T_k_0_0 := (T 0 0)) (dt := dt) (cp_eff_0_0 := (cp 0 0)) (rho_l := rho)
          (k_eff_0_0 := (k 0 0)) (T_k_0_1 := (T 0 1)) (T_center_0 := (T 0 0)) (dr := dr)
          (k_eff_0_1 := (k 0 1)) (k_eff_1_0 := (k 1 0)) (T_k_1_0 := (T 1 0)) (T_bottom_0 := (Tb 0))
          (dz := dz) (BETA_0_0 := (B 0 0)) := by
  have : ¬ (0 : Nat) + 1 = Nz := by omega
  have : ¬ (0 : Nat) + 1 = Nr := by omega
  simp [solidNode, outer, inner, upper, lower, F2D.solid_bottom_centre, one_eq, *]

theorem solid_bottom_corner (Nz Nr : Nat) (dt rho dz dr : α) (r : Nat → α) (k cp B T : Nat → Nat → α) (Tb Tt Te : Nat → α)
    (hz : 2 ≤ Nz) (hr : 2 ≤ Nr) :
    solidNode Nz Nr dt rho dz dr r k cp B T Tb Tt Te 0 (Nr - 1) =
      F2D.solid_bottom_corner (T_k_0_Nr_m_1 := (T 0 (Nr - 1))) (dt := dt)
          (cp_eff_0_Nr_m_1 := (cp 0 (Nr - 1))) (rho_l := rho) (k_eff_0_Nr_m_1 := (k 0 (Nr - 1)))
          (r_Nr_m_1 := (r (Nr - 1))) (T_edge_0 := (Te 0)) (T_k_0_Nr_m_2 := (T 0 (Nr - 1 - 1))) (dr := dr)
          (k_eff_0_Nr_m_2 := (k 0 (Nr - 1 - 1))) (k_eff_1_Nr_m_1 := (k 1 (Nr - 1)))
          (T_k_1_Nr_m_1 := (T 1 (Nr - 1))) (T_bottom_Nr_m_1 := (Tb (Nr - 1))) (dz := dz)
          (BETA_0_Nr_m_1 := (B 0 (Nr - 1))) := by
  have : ¬ (0 : Nat) + 1 = Nz := by omega
  have : Nr - 1 + 1 = Nr := by omega
  have : ¬ Nr - 1 = 0 := by omega
  simp [solidNode, outer, inner, upper, lower, F2D.solid_bottom_corner, one_eq, *]

theorem solid_bottom_rest (Nz Nr : Nat) (dt rho dz dr : α) (r : Nat → α) (k cp B T : Nat → Nat → α) (Tb Tt Te : Nat → α) (j : Nat)
    (hz : 2 ≤ Nz) (hr : 2 ≤ Nr) (hj0 : 0 < j) (hj1 : j + 1 < Nr) :
    solidNode Nz Nr dt rho dz dr r k cp B T Tb Tt Te 0 j =
      F2D.solid_bottom_rest (T_k_0_1_Nr_m_1 := (T 0 j)) (dt := dt) (cp_eff_0_1_Nr_m_1 := (cp 0 j))
          (rho_l := rho) (k_eff_0_1_Nr_m_1 := (k 0 j)) (r_1_Nr_m_1 := (r j)) (T_k_0_2_Nr := (T 0 (j + 1)))
          (T_k_0_0_Nr_m_2 := (T 0 (j - 1))) (dr := dr) (k_eff_0_2_Nr := (k 0 (j + 1)))
          (k_eff_0_0_Nr_m_2 := (k 0 (j - 1))) (k_eff_1_1_Nr_m_1 := (k 1 j)) (T_k_1_1_Nr_m_1 := (T 1 j))
          (T_bottom_1_Nr_m_1 := (Tb j)) (dz := dz) (BETA_0_1_Nr_m_1 := (B 0 j)) := by
  have : ¬ (0 : Nat) + 1 = Nz := by omega
  have : ¬ j = 0 := by omega
  have : ¬ j + 1 = Nr := by omega
  simp [solidNode, outer, inner, upper, lower, F2D.solid_bottom_rest, one_eq, *]

theorem solid_top_centre (Nz Nr : Nat) (dt rho dz dr : α) (r : Nat → α) (k cp B T : Nat → Nat → α) (Tb Tt Te : Nat → α)
    (hz : 2 ≤ Nz) (hr : 2 ≤ Nr) :
    solidNode Nz Nr dt rho dz dr r k cp B T Tb Tt Te (Nz - 1) 0 =
      F2D.solid_top_centre (T_k_Nz_m_1_0 := (T (Nz - 1) 0)) (dt := dt) (cp_eff_Nz_m_1_0 := (cp (Nz - 1) 0))
          (rho_l := rho) (k_eff_Nz_m_1_0 := (k (Nz - 1) 0)) (T_k_Nz_m_1_1 := (T (Nz - 1) 1))
          (T_center_Nz_m_1 := (T (Nz - 1) 0)) (dr := dr) (k_eff_Nz_m_1_1 := (k (Nz - 1) 1))
          (k_eff_Nz_m_2_0 := (k (Nz - 1 - 1) 0)) (T_top_0 := (Tt 0)) (T_k_Nz_m_2_0 := (T (Nz - 1 - 1) 0))
          (dz := dz) (BETA_Nz_m_1_0 := (B (Nz - 1) 0)) := by
  have : Nz - 1 + 1 = Nz := by omega
  have : ¬ Nz - 1 = 0 := by omega
  have : ¬ (0 : Nat) + 1 = Nr := by omega
  simp [solidNode, outer, inner, upper, lower, F2D.solid_top_centre, one_eq, *]

theorem solid_top_corner (Nz Nr : Nat) (dt rho dz dr : α) (r : Nat → α) (k cp B T : Nat → Nat → α) (Tb Tt Te : Nat → α)
    (hz : 2 ≤ Nz) (hr : 2 ≤ Nr) :
    solidNode Nz Nr dt rho dz dr r k cp B T Tb Tt Te (Nz - 1) (Nr - 1) =
      F2D.solid_top_corner (T_k_Nz_m_1_Nr_m_1 := (T (Nz - 1) (Nr - 1))) (dt := dt)
          (cp_eff_Nz_m_1_Nr_m_1 := (cp (Nz - 1) (Nr - 1))) (rho_l := rho)
          (k_eff_Nz_m_1_Nr_m_1 := (k (Nz - 1) (Nr - 1))) (r_Nr_m_1 := (r (Nr - 1)))
          (T_edge_Nz_m_1 := (Te (Nz - 1))) (T_k_Nz_m_1_Nr_m_2 := (T (Nz - 1) (Nr - 1 - 1))) (dr := dr)
          (k_eff_Nz_m_1_Nr_m_2 := (k (Nz - 1) (Nr - 1 - 1)))
          (k_eff_Nz_m_2_Nr_m_1 := (k (Nz - 1 - 1) (Nr - 1))) (T_top_Nr_m_1 := (Tt (Nr - 1)))
          (T_k_Nz_m_2_Nr_m_1 := (T (Nz - 1 - 1) (Nr - 1))) (dz := dz)
          (BETA_Nz_m_1_Nr_m_1 := (B (Nz - 1) (Nr - 1))) := by
  have : Nz - 1 + 1 = Nz := by omega
  have : ¬ Nz - 1 = 0 := by omega
  have : Nr - 1 + 1 = Nr := by omega
  have : ¬ Nr - 1 = 0 := by omega
  simp [solidNode, outer, inner, upper, lower, F2D.solid_top_corner, one_eq, *]

theorem solid_top_rest (Nz Nr : Nat) (dt rho dz dr : α) (r : Nat → α) (k cp B T : Nat → Nat → α) (Tb Tt Te : Nat → α) (j : Nat)
    (hz : 2 ≤ Nz) (hr : 2 ≤ Nr) (hj0 : 0 < j) (hj1 : j + 1 < Nr) :
    solidNode Nz Nr dt rho dz dr r k cp B T Tb Tt Te (Nz - 1) j =
      F2D.solid_top_rest (T_k_Nz_m_1_1_Nr_m_1 := (T (Nz - 1) j)) (dt := dt)
          (cp_eff_Nz_m_1_1_Nr_m_1 := (cp (Nz - 1) j)) (rho_l := rho)
          (k_eff_Nz_m_1_1_Nr_m_1 := (k (Nz - 1) j)) (r_1_Nr_m_1 := (r j))
          (T_k_Nz_m_1_2_Nr := (T (Nz - 1) (j + 1))) (T_k_Nz_m_1_0_Nr_m_2 := (T (Nz - 1) (j - 1))) (dr := dr)
          (k_eff_Nz_m_1_2_Nr := (k (Nz - 1) (j + 1))) (k_eff_Nz_m_1_0_Nr_m_2 := (k (Nz - 1) (j - 1)))
          (k_eff_Nz_m_2_1_Nr_m_1 := (k (Nz - 1 - 1) j)) (T_top_1_Nr_m_1 := (Tt j))
          (T_k_Nz_m_2_1_Nr_m_1 := (T (Nz - 1 - 1) j)) (dz := dz) (BETA_Nz_m_1_1_Nr_m_1 := (B (Nz - 1) j)) := by
  have : Nz - 1 + 1 = Nz := by omega
  have : ¬ Nz - 1 = 0 := by omega
  have : ¬ j = 0 := by omega
  have : ¬ j + 1 = Nr := by omega
  simp [solidNode, outer, inner, upper, lower, F2D.solid_top_rest, one_eq, *]

theorem solid_edge (Nz Nr : Nat) (dt rho dz dr : α) (r : Nat → α) (k cp B T : Nat → Nat → α) (Tb Tt Te : Nat → α) (i : Nat)
    (hz : 2 ≤ Nz) (hr : 2 ≤ Nr) (hi0 : 0 < i) (hi1 : i + 1 < Nz) :
    solidNode Nz Nr dt rho dz dr r k cp B T Tb Tt Te i (Nr - 1) =
      F2D.solid_edge (T_k_1_Nz_m_1_Nr_m_1 := (T i (Nr - 1))) (dt := dt)
          (cp_eff_1_Nz_m_1_Nr_m_1 := (cp i (Nr - 1))) (rho_l := rho)
          (k_eff_1_Nz_m_1_Nr_m_1 := (k i (Nr - 1))) (r_Nr_m_1 := (r (Nr - 1))) (T_edge_1_Nz_m_1 := (Te i))
          (T_k_1_Nz_m_1_Nr_m_2 := (T i (Nr - 1 - 1))) (dr := dr)
          (k_eff_1_Nz_m_1_Nr_m_2 := (k i (Nr - 1 - 1))) (k_eff_2_Nz_Nr_m_1 := (k (i + 1) (Nr - 1)))
          (k_eff_0_Nz_m_2_Nr_m_1 := (k (i - 1) (Nr - 1))) (T_k_2_Nz_Nr_m_1 := (T (i + 1) (Nr - 1)))
          (T_k_0_Nz_m_2_Nr_m_1 := (T (i - 1) (Nr - 1))) (dz := dz) (BETA_1_Nz_m_1_Nr_m_1 := (B i (Nr - 1))) := by
  have : ¬ i = 0 := by omega
  have : ¬ i + 1 = Nz := by omega
  have : Nr - 1 + 1 = Nr := by omega
  have : ¬ Nr - 1 = 0 := by omega
  simp [solidNode, outer, inner, upper, lower, F2D.solid_edge, one_eq, *]

theorem solid_centre_line (Nz Nr : Nat) (dt rho dz dr : α) (r : Nat → α) (k cp B T : Nat → Nat → α) (Tb Tt Te : Nat → α) (i : Nat)
    (hz : 2 ≤ Nz) (hr : 2 ≤ Nr) (hi0 : 0 < i) (hi1 : i + 1 < Nz) :
    solidNode Nz Nr dt rho dz dr r k cp B T Tb Tt Te i 0 =
      F2D.solid_centre_line (T_k_1_Nz_m_1_0 := (T i 0)) (dt := dt) (cp_eff_1_Nz_m_1_0 := (cp i 0))
          (rho_l := rho) (k_eff_1_Nz_m_1_0 := (k i 0)) (T_k_1_Nz_m_1_1 := (T i 1))
          (T_center_1_Nz_m_1 := (T i 0)) (dr := dr) (k_eff_1_Nz_m_1_1 := (k i 1))
          (k_eff_2_Nz_0 := (k (i + 1) 0)) (k_eff_0_Nz_m_2_0 := (k (i - 1) 0)) (T_k_2_Nz_0 := (T (i + 1) 0))
          (T_k_0_Nz_m_2_0 := (T (i - 1) 0)) (dz := dz) (BETA_1_Nz_m_1_0 := (B i 0)) := by
  have : ¬ i = 0 := by omega
  have : ¬ i + 1 = Nz := by omega
  have : ¬ (0 : Nat) + 1 = Nr := by omega
  simp [solidNode, outer, inner, upper, lower, F2D.solid_centre_line, one_eq, *]

theorem solid_bulk (Nz Nr : Nat) (dt rho dz dr : α) (r : Nat → α) (k cp B T : Nat → Nat → α) (Tb Tt Te : Nat → α) (i j : Nat)
    (hz : 2 ≤ Nz) (hr : 2 ≤ Nr) (hi0 : 0 < i) (hi1 : i + 1 < Nz) (hj0 : 0 < j) (hj1 : j + 1 < Nr) :
    solidNode Nz Nr dt rho dz dr r k cp B T Tb Tt Te i j =
      F2D.solid_bulk (T_k_1_Nz_m_1_1_Nr_m_1 := (T i j)) (dt := dt) (cp_eff_1_Nz_m_1_1_Nr_m_1 := (cp i j))
          (rho_l := rho) (k_eff_1_Nz_m_1_1_Nr_m_1 := (k i j)) (r_1_Nr_m_1 := (r j))
          (T_k_1_Nz_m_1_2_Nr := (T i (j + 1))) (T_k_1_Nz_m_1_0_Nr_m_2 := (T i (j - 1))) (dr := dr)
          (k_eff_1_Nz_m_1_2_Nr := (k i (j + 1))) (k_eff_1_Nz_m_1_0_Nr_m_2 := (k i (j - 1)))
          (k_eff_2_Nz_1_Nr_m_1 := (k (i + 1) j)) (k_eff_0_Nz_m_2_1_Nr_m_1 := (k (i - 1) j))
          (T_k_2_Nz_1_Nr_m_1 := (T (i + 1) j)) (T_k_0_Nz_m_2_1_Nr_m_1 := (T (i - 1) j)) (dz := dz)
          (BETA_1_Nz_m_1_1_Nr_m_1 := (B i j)) := by
  have : ¬ i = 0 := by omega
  have : ¬ i + 1 = Nz := by omega
  have : ¬ j = 0 := by omega
  have : ¬ j + 1 = Nr := by omega
  simp [solidNode, outer, inner, upper, lower, F2D.solid_bulk, one_eq, *]

end
end Snow.GenTie.S2D
