/-
  GenTie / Evap — the hand transcription of the two vapour-pressure correlations used by the
  1D/2D Snowing models (SnowModel/EvapFormulas.lean) IS the text GENERATED from utils.py
  (SnowModel/Gen/Evap.lean, regenerated on every run of C20).  For every numeric instance; the only
  non-syntactic step is `4.210 = 4210/10^3 = 421/10^2` (the two files spell the literal differently).
  The flux formula is tied through the FORMULA-MODE extraction `Gen.FU.N_w` (pi a parameter); the
  whole-function text `Gen.vapour_flux` uses the abstract `HasPi.pi` and `Transc.pow κ 2` and is
  related to it over ℝ in SnowProofs/Lemmas/Evap.lean (`flux_gen_eq`).
-/
import SnowModel.EvapFormulas
import SnowModel.EvapFormulas2D
import SnowModel.Gen.GenUtils
import SnowModel.Gen.Evap
import Mathlib.Tactic.NormNum

namespace Snow.GenTie.Evap
open Snow Num

variable {α : Type} [Transc α]

theorem lit_4210 : (lit 4210 3 : α) = lit 421 2 := by
  unfold Num.lit
  congr 1
  norm_num

theorem vapour_pressure_liquid [HasPi α] (T : α) : Evap.vapourPressureLiquid T = Gen.vapour_pressure_liquid T := by
  unfold Evap.vapourPressureLiquid Gen.vapour_pressure_liquid
  rw [lit_4210]

theorem vapour_pressure_solid [HasPi α] (T : α) : Evap.vapourPressureSolid T = Gen.vapour_pressure_solid T := rfl

/-! ### formula-mode extraction of utils.py (`Gen.FU`, pi = the parameter `np_pi`): the run models' own
transcriptions are the SAME expression trees, for every numeric instance (`rfl`) -/

/-- 2D model: liquid curve -/
theorem pLiquid (T : α) : Evap2D.pLiquid T = Gen.FU.p_liq (T_liq := T) := rfl
/-- 2D model: ice curve -/
theorem pSolid (T : α) : Evap2D.pSolid T = Gen.FU.p_sol (T_sol := T) := rfl
/-- 2D model: Hertz–Knudsen flux with `np.pi` the model's input `pi` -/
theorem vapourFlux (pi kappa m_water k_B p_vac p_vap T_l T_v : α) :
    Evap2D.vapourFlux pi kappa m_water k_B p_vac p_vap T_l T_v =
      Gen.FU.N_w (kappa := kappa) (m_water := m_water) (np_pi := pi) (k_B := k_B) (p_vap := p_vap) (T_l := T_l)
        (p_vac := p_vac) (T_v := T_v) := rfl
/-- 0D/1D model: the same three, `np.pi` being the double nearest to π (`Evap.piDouble`) -/
theorem pLiquid1D (T : α) : Evap.vapourPressureLiquid T = Gen.FU.p_liq (T_liq := T) := rfl
theorem pSolid1D (T : α) : Evap.vapourPressureSolid T = Gen.FU.p_sol (T_sol := T) := rfl
theorem vapourFlux1D (kappa m_water k_B p_vac p_vap T_l T_v : α) :
    Snow.Evap.vapourFlux kappa m_water k_B p_vac p_vap T_l T_v =
      Gen.FU.N_w (kappa := kappa) (m_water := m_water) (np_pi := Snow.Evap.piDouble) (k_B := k_B) (p_vap := p_vap)
        (T_l := T_l) (p_vac := p_vac) (T_v := T_v) := rfl

end Snow.GenTie.Evap
