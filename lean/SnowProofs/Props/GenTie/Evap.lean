/-
  GenTie / Evap — the hand transcription of the two vapour-pressure correlations used by the
  1D/2D Snowing models (SnowModel/EvapFormulas.lean) IS the text GENERATED from utils.py
  (SnowModel/Gen/Evap.lean, regenerated on every run of C20).  For every numeric instance; the only
  non-syntactic step is `4.210 = 4210/10^3 = 421/10^2` (the two files spell the literal differently).
  The flux formula is not tied here: the hand model uses the double nearest to π as a rational
  constant (`Evap.piDouble`), the generated text the abstract `HasPi.pi`; equal at Float only.
-/
import SnowModel.EvapFormulas
import SnowModel.Gen.Evap
import Mathlib.Tactic.NormNum

namespace Snow.GenTie.Evap
open Snow Num

variable {α : Type} [Transc α]

theorem lit_4210 : (lit 4210 3 : α) = lit 421 2 := by
  unfold Num.lit
  congr 1
  norm_num

theorem vapour_pressure_liquid [HasPi α] (T : α) : Evap.vapourPressureLiquid T = Gen.vapour_pressure_liquid T := by
  unfold Evap.vapourPressureLiquid Gen.vapour_pressure_liquid
  rw [lit_4210]

theorem vapour_pressure_solid [HasPi α] (T : α) : Evap.vapourPressureSolid T = Gen.vapour_pressure_solid T := rfl

end Snow.GenTie.Evap
