/-
  GenTie / Snowing1D — the per-node formulas of the hand model SnowModel/Snowing1D.lean ARE
  the formulas of `Snowing._run_1D` in /repo's current source.

  `Snow.Gen.F1D.*` (SnowModel/Gen/Formulas1D.lean) is GENERATED from snowing.py by
  harness/translate.py on every run of the checks that own this model (harness/gentie.py).
  numpy slices (`T_k[1:Nz-1]`, `T_k[2:Nz]`, `T_k[0:Nz-2]`, `lambda_eff[0]` …) are opaque scalar
  parameters of the generated definitions: the formula is applied per node, and the theorems
  below say at WHICH node each slice is read.  All equalities hold for every numeric
  instance `[Transc α]`; the proofs are `rfl` or unfolding of `Array.ofFn` at an index.
  (`BETA`, `m_ice` and the two mask statements of the solidification loop are tied: np.ones/np.zeros = the constant of one node.)  Not tied here (calls the translator rejects):
  `simps(…)`, `np.linspace`; they stay tied by the C08/C13 correspondence.
  Generated definitions are applied with NAMED arguments (`(x := …)`): swapping two names in the
  source changes the body under fixed binders and breaks the equality as well.
-/
import SnowModel.Snowing1D
import SnowModel.Gen.Formulas1D

namespace Snow.GenTie.S1D
open Snow Num
open Snow.Gen

variable {α : Type} [Transc α]

/-! ### discretisation -/

theorem lambda_eff (p : SnowIn α) (Nz : Nat) :
    (grid1D p Nz).lam0 = F1D.lambda_eff (solid_fraction := p.const.solid_fraction)
        (lambda_s := p.const.lambda_s) (lambda_w := p.const.lambda_w) := rfl

theorem dz (p : SnowIn α) (Nz : Nat) : (grid1D p Nz).dz = F1D.dz (height := p.const.height)
    (Nz := (ofNat' Nz)) := rfl

theorem alpha_max (p : SnowIn α) (Nz : Nat) :
    (grid1D p Nz).dt = F1D.dt (dz := (grid1D p Nz).dz) (alpha_max := (F1D.alpha_max
        (lambda_i := p.const.lambda_i) (cp_i := p.const.cp_i) (rho_l := p.const.rho_l))) := rfl

theorem dt (p : SnowIn α) (Nz : Nat) :
    (grid1D p Nz).dt = F1D.dt (dz := (grid1D p Nz).dz)
        (alpha_max := (p.const.lambda_i / (p.const.cp_i * p.const.rho_l))) := rfl

/-- the Fourier number of the cooling stencil is `diffusivity_cooling * dt / dz**2` -/
theorem diffusivity_cooling (p : SnowIn α) (Nz : Nat) :
    (grid1D p Nz).fo =
      F1D.diffusivity_cooling (lambda_eff := (grid1D p Nz).lam0) (cp_solution := p.const.cp_solution)
          (rho_l := p.const.rho_l) * (grid1D p Nz).dt
        / ((grid1D p Nz).dz * (grid1D p Nz).dz) := rfl

/-! ### cooling stage: ghost values -/

theorem q_overall (p : SnowIn α) (g : Grid1D α) (i : Nat) (T : Array α) (Tshelf : α) :
    coolField1D p g i T Tshelf =
      coolStencil g.fo
        (aget T 0 + F1D.q_overall (K_shelf := p.Kshelf) (T_shelf := Tshelf)
            (T_k_0 := (aget T 0)) * g.dz / g.lam0)
        (aget T (g.Nz - 1) +
          qEvap p Evap.vapourPressureLiquid (g.dt * ofNat' i) (aget T (g.Nz - 1)) * g.dz / g.lam0) T := rfl

theorem cool_T_bottom_BC (p : SnowIn α) (g : Grid1D α) (i : Nat) (T : Array α) (Tshelf : α) :
    coolField1D p g i T Tshelf =
      coolStencil g.fo
        (F1D.T_bottom_BC (T_k_0 := (aget T 0)) (q_overall := (p.Kshelf * (Tshelf - aget T 0))) (dz := g.dz)
            (lambda_eff := g.lam0))
        (aget T (g.Nz - 1) +
          qEvap p Evap.vapourPressureLiquid (g.dt * ofNat' i) (aget T (g.Nz - 1)) * g.dz / g.lam0) T := rfl

theorem cool_T_top_BC (p : SnowIn α) (g : Grid1D α) (i : Nat) (T : Array α) (Tshelf : α) :
    coolField1D p g i T Tshelf =
      coolStencil g.fo
        (F1D.T_bottom_BC (T_k_0 := (aget T 0)) (q_overall := (F1D.q_overall (K_shelf := p.Kshelf)
            (T_shelf := Tshelf) (T_k_0 := (aget T 0)))) (dz := g.dz) (lambda_eff := g.lam0))
        (F1D.T_top_BC (T_k_Nz_m_1 := (aget T (g.Nz - 1)))
            (q_e := (qEvap p Evap.vapourPressureLiquid (g.dt * ofNat' i) (aget T (g.Nz - 1)))) (dz := g.dz)
            (lambda_eff := g.lam0)) T := rfl

/-- inside the vacuum window of a VISF run the evaporative flux is `-N_w * dHe` -/
theorem q_e (p : SnowIn α) (v : Visf α) (hv : p.visf = some v) (pvap : α → α) (t Ttop : α)
    (hw : v.t_vac_start * ofNat' 3600 < t ∧ t < (v.t_vac_start + v.t_vac_duration) * ofNat' 3600) :
    qEvap p pvap t Ttop =
      F1D.q_e (N_w := (Evap.vapourFlux v.kappa v.m_water p.const.k_B v.p_vac (pvap Ttop) Ttop Ttop))
          (dHe := v.dHe) := by
  simp only [qEvap, hv, F1D.q_e]
  rw [if_pos hw]

/-- the same in the solidification loop (its own `q_e = -N_w * dHe` statement in the source) -/
theorem solid_q_e (p : SnowIn α) (v : Visf α) (hv : p.visf = some v) (pvap : α → α) (t Ttop : α)
    (hw : v.t_vac_start * ofNat' 3600 < t ∧ t < (v.t_vac_start + v.t_vac_duration) * ofNat' 3600) :
    qEvap p pvap t Ttop =
      F1D.solid_q_e (N_w := Evap.vapourFlux v.kappa v.m_water p.const.k_B v.p_vac (pvap Ttop) Ttop Ttop)
        (dHe := v.dHe) := by
  simp only [qEvap, hv, F1D.solid_q_e]
  rw [if_pos hw]

/-- **the whole statement group** of the cooling loop, `if (dt*i > t_vac_start*3600) & (dt*i < (t_vac_start +
t_vac_duration)*3600): N_w = Utils.vapour_flux(kappa, m_water, k_B, p_vac, p_vap, T_l, T_v); q_e = -N_w*dHe else:
q_e = 0` with `T_l = T_v = T_k[-1]`, `p_vap = Utils.vapour_pressure_liquid(T_l)`: window condition, call arguments,
sign and the else-branch are the model's `qEvap` (the generated text calls the formula-mode utils definitions
`Gen.FU.*`, which the model's `Evap.*` are by `rfl`) -/
theorem cool_q_e_if (p : SnowIn α) (v : Visf α) (hv : p.visf = some v) (dt i T : α) :
    qEvap p Evap.vapourPressureLiquid (dt * i) T =
      F1D.cool_q_e_if (dt := dt) (i := i) (t_vac_start := v.t_vac_start) (t_vac_duration := v.t_vac_duration)
        (kappa := v.kappa) (m_water := v.m_water) (k_B := p.const.k_B) (p_vac := v.p_vac) (T_k_m1 := T)
        (np_pi := Evap.piDouble) (dHe := v.dHe) := by
  simp only [qEvap, hv, F1D.cool_q_e_if]
  by_cases hw : v.t_vac_start * ofNat' 3600 < dt * i ∧ dt * i < (v.t_vac_start + v.t_vac_duration) * ofNat' 3600
  · simp only [hw.1, hw.2, and_self, decide_true, Bool.and_self, if_true]
    rfl
  · simp only [Bool.and_eq_true, decide_eq_true_eq, hw, if_false]

/-- the same statement group of the solidification loop (`t_nuc + dt*i`, `vapour_pressure_solid`) -/
theorem solid_q_e_if (p : SnowIn α) (v : Visf α) (hv : p.visf = some v) (tNuc dt i T : α) :
    qEvap p Evap.vapourPressureSolid (tNuc + dt * i) T =
      F1D.solid_q_e_if (t_nuc := tNuc) (dt := dt) (i := i) (t_vac_start := v.t_vac_start)
        (t_vac_duration := v.t_vac_duration) (kappa := v.kappa) (m_water := v.m_water) (k_B := p.const.k_B)
        (p_vac := v.p_vac) (T_k_m1 := T) (np_pi := Evap.piDouble) (dHe := v.dHe) := by
  simp only [qEvap, hv, F1D.solid_q_e_if]
  by_cases hw : v.t_vac_start * ofNat' 3600 < tNuc + dt * i ∧
      tNuc + dt * i < (v.t_vac_start + v.t_vac_duration) * ofNat' 3600
  · simp only [hw.1, hw.2, and_self, decide_true, Bool.and_self, if_true]
    rfl
  · simp only [Bool.and_eq_true, decide_eq_true_eq, hw, if_false]

/-- the two loops call it at exactly these arguments -/
theorem q_e_call_sites (p : SnowIn α) (g : Grid1D α) (i : Nat) (T : Array α) (Tshelf : α) :
    coolField1D p g i T Tshelf =
      coolStencil g.fo
        (aget T 0 + p.Kshelf * (Tshelf - aget T 0) * g.dz / g.lam0)
        (aget T (g.Nz - 1) +
          qEvap p Evap.vapourPressureLiquid (g.dt * ofNat' i) (aget T (g.Nz - 1)) * g.dz / g.lam0) T := rfl

/-! ### cooling stage: the three stencil pieces, per node -/

theorem aget_ofFn {n : Nat} (f : Fin n → α) (j : Nat) (h : j < n) : aget (Array.ofFn f) j = f ⟨j, h⟩ := by
  simp [aget, Array.getD, h]

theorem cool_T_bottom (diff dt dz Tb Tt : α) (T : Array α) (h : 0 < T.size) :
    aget (coolStencil (diff * dt / (dz * dz)) Tb Tt T) 0 =
      F1D.T_bottom (T_k_0 := (aget T 0)) (diffusivity_cooling := diff) (dt := dt) (dz := dz)
          (T_k_1 := (aget T 1)) (T_bottom_BC := Tb) := by
  unfold coolStencil
  rw [aget_ofFn _ 0 h]
  simp [F1D.T_bottom]

theorem cool_T_center (diff dt dz Tb Tt : α) (T : Array α) (j : Nat) (h0 : 0 < j) (h1 : j + 1 < T.size) :
    aget (coolStencil (diff * dt / (dz * dz)) Tb Tt T) j =
      F1D.T_center (T_k_1_Nz_m_1 := (aget T j)) (diffusivity_cooling := diff) (dt := dt) (dz := dz)
          (T_k_2_Nz := (aget T (j + 1))) (T_k_0_Nz_m_2 := (aget T (j - 1))) := by
  unfold coolStencil
  rw [aget_ofFn _ j (by omega)]
  have h2 : ¬ j = 0 := by omega
  have h3 : ¬ j + 1 = T.size := by omega
  simp [F1D.T_center, h2, h3]

theorem cool_T_top (diff dt dz Tb Tt : α) (T : Array α) (h : 2 ≤ T.size) :
    aget (coolStencil (diff * dt / (dz * dz)) Tb Tt T) (T.size - 1) =
      F1D.T_top (T_k_Nz_m_1 := (aget T (T.size - 1))) (diffusivity_cooling := diff) (dt := dt) (dz := dz)
          (T_top_BC := Tt) (T_k_Nz_m_2 := (aget T (T.size - 2))) := by
  unfold coolStencil
  rw [aget_ofFn _ (T.size - 1) (by omega)]
  have h2 : ¬ T.size - 1 = 0 := by omega
  have h3 : T.size - 1 + 1 = T.size := by omega
  simp [F1D.T_top, h2, h3]

/-! ### hazard -/

theorem J_z (kb b T_eq_l T : α) :
    nucRate kb b T_eq_l T = if T < T_eq_l then F1D.J_z (kb := kb) (T_eq_l := T_eq_l)
        (T_k_superCooledMask := T) (b := b) else zero := rfl

theorem E_t (p : SnowIn α) (g : Grid1D α) (stride i : Nat) (s : Cool1D α) (Tshelf : α) :
    (coolStep1D p g stride i s Tshelf).E =
      F1D.E_t (E_t := s.E) (K_v := (KvOf p g (rateField p (coolField1D p g i s.T Tshelf))))
          (dt := g.dt) := rfl

theorem F_nuc (Frand E : α) : hazardStop Frand E = decide (Frand < F1D.F_nuc (E_t := E)) := rfl

theorem t_nuc (p : SnowIn α) (g : Grid1D α) (i : Nat) (s : Cool1D α) :
    (nucStats1D p g i s).t_nuc = F1D.t_nuc (dt := g.dt) (i := (ofNat' i)) / ofNat' 60 := rfl

/-! ### nucleation quadratic (per node) -/

theorem B (p : SnowIn α) (Tnuc : α) :
    nucB p Tnuc = F1D.B (T_m := p.T_m) (T_nuc := Tnuc) (Dh := p.const.Dh) (mass_water := p.const.mass_water)
        (cp_solution := p.const.cp_solution) (mass := p.const.mass) := rfl

theorem C (p : SnowIn α) (Tnuc : α) :
    nucC p Tnuc = F1D.C (Dh := p.const.Dh) (mass_water := p.const.mass_water) (T_m := p.T_m)
        (cp_solution := p.const.cp_solution) (mass := p.const.mass) (mass_solute := p.const.mass_solute)
        (k_f := p.const.k_f) (M_s := p.const.M_s) (T_nuc := Tnuc) := rfl

theorem T_eq_sol_1 (p : SnowIn α) (Tnuc : α) :
    nucTeq p Tnuc = F1D.T_eq_sol_1 (B := (nucB p Tnuc)) (C := (nucC p Tnuc)) := rfl

theorem m_i_nucl_sol_1 (p : SnowIn α) (T : α) :
    iceMassEq p T = F1D.m_i_nucl_sol_1 (mass_water := p.const.mass_water)
        (mass_solute := p.const.mass_solute) (k_f := p.const.k_f) (M_s := p.const.M_s) (T_m := p.T_m)
        (T_eq_sol_1 := T) := rfl

/-! ### solidification stage -/

/-- the two masks of the solidification loop (`LCS_i = T_k < T_eq_l`, `LCS_i_r = ~LCS_i`) are the hand model's
`decide (t < T_eq_l)` and its negation -/
theorem solid_masks (t Tl : α) :
    F1D.solid_LCS_i (T_k := t) (T_eq_l := Tl) = decide (t < Tl) ∧
    F1D.solid_LCS_i_r (T_k := t) (T_eq_l := Tl) = !decide (t < Tl) := ⟨rfl, rfl⟩

/-- `BETA` per node: the GENERATED `BETA = np.ones(Nz)*LCS_i_r + (1 + beta/(T_k - T_m)**2)*LCS_i` at the generated
masks (as the numbers numpy multiplies with) and the generated `beta` -/
def betaField (p : SnowIn α) (g : Grid1D α) (T cp : Array α) : Array α :=
  Array.ofFn (n := g.Nz) fun j =>
    let t := aget T j.val
    F1D.BETA (LCS_i_r := maskNum (F1D.solid_LCS_i_r (T_k := t) (T_eq_l := p.T_eq_l)))
      (beta := F1D.solid_beta (Dh := p.const.Dh) (k_f := p.const.k_f) (mass_solute := p.const.mass_solute)
        (M_s := p.const.M_s) (rho_l := p.const.rho_l) (V := p.const.V) (cp_solution := (aget cp j.val)))
      (T_k := t) (T_m := p.T_m)
      (LCS_i := maskNum (F1D.solid_LCS_i (T_k := t) (T_eq_l := p.T_eq_l)))

/-- the hand model's per-node capacitance factor (inside `solidStep1D`) IS the generated `BETA` -/
theorem BETA (beta t Tm Tl : α) :
    (one * maskNum (!decide (t < Tl)) + (one + beta / ((t - Tm) * (t - Tm))) * maskNum (decide (t < Tl)) : α) =
      F1D.BETA (LCS_i_r := maskNum (F1D.solid_LCS_i_r (T_k := t) (T_eq_l := Tl))) (beta := beta) (T_k := t)
        (T_m := Tm) (LCS_i := maskNum (F1D.solid_LCS_i (T_k := t) (T_eq_l := Tl))) := rfl

/-- the temperature field after one solidification step, written with the GENERATED formulas:
`cp_solution`, `lambda_eff`, `beta`, the two ghost values and the three stencil pieces, each
applied at the node where the source's slice reads -/
def solidFieldGen (p : SnowIn α) (g : Grid1D α) (tNuc : α) (i : Nat) (s : Solid1D α) (Tshelf : α) : Array α :=
  let k := p.const
  let Nz := g.Nz
  let T := s.T
  let cp := s.w.map fun w => F1D.solid_cp_solution (cp_s := k.cp_s) (solid_fraction := k.solid_fraction)
      (cp_i := k.cp_i) (w_i_k := w) (cp_w := k.cp_w)
  let lam := s.w.map fun w => F1D.solid_lambda_eff (lambda_i := k.lambda_i) (w_i_k := w)
      (lambda_w := k.lambda_w)
  let BETA := betaField p g T cp
  let Tb := F1D.solid_T_bottom_BC (T_k_0 := (aget T 0)) (q_overall := (F1D.q_overall (K_shelf := p.Kshelf)
      (T_shelf := Tshelf) (T_k_0 := (aget T 0)))) (dz := g.dz) (lambda_eff_0 := (aget lam 0))
  let Tt := F1D.solid_T_top_BC (T_k_Nz_m_1 := (aget T (Nz - 1)))
      (q_e := (qEvap p Evap.vapourPressureSolid (tNuc + g.dt * ofNat' i) (aget T (Nz - 1)))) (dz := g.dz)
      (lambda_eff_Nz_m_1 := (aget lam (Nz - 1)))
  Array.ofFn (n := Nz) fun j =>
    let jv := j.val
    if jv = 0 then
      F1D.solid_T_bottom (T_k_0 := (aget T jv)) (dt := g.dt) (cp_solution_0 := (aget cp jv))
          (rho_l := k.rho_l) (lambda_eff_1 := (aget lam 1)) (lambda_eff_0 := (aget lam 0))
          (T_k_1 := (aget T 1)) (T_bottom_BC := Tb) (dz := g.dz) (BETA_0 := (aget BETA jv))
    else if jv + 1 = Nz then
      F1D.solid_T_top (T_k_Nz_m_1 := (aget T jv)) (dt := g.dt) (cp_solution_Nz_m_1 := (aget cp jv))
          (rho_l := k.rho_l) (lambda_eff_Nz_m_1 := (aget lam (Nz - 1)))
          (lambda_eff_Nz_m_2 := (aget lam (Nz - 2))) (T_top_BC := Tt) (T_k_Nz_m_2 := (aget T (Nz - 2)))
          (dz := g.dz) (BETA_Nz_m_1 := (aget BETA jv))
    else
      F1D.solid_T_center (T_k_1_Nz_m_1 := (aget T jv)) (dt := g.dt) (cp_solution_1_Nz_m_1 := (aget cp jv))
          (rho_l := k.rho_l) (lambda_eff_2_Nz := (aget lam (jv + 1)))
          (lambda_eff_0_Nz_m_2 := (aget lam (jv - 1))) (T_k_2_Nz := (aget T (jv + 1)))
          (T_k_0_Nz_m_2 := (aget T (jv - 1))) (dz := g.dz) (lambda_eff_1_Nz_m_1 := (aget lam jv))
          (BETA_1_Nz_m_1 := (aget BETA jv))

/-- the hand model's solidification step computes exactly that field -/
theorem solid_field (p : SnowIn α) (g : Grid1D α) (stride iEnd : Nat) (tNuc : α) (i : Nat) (s : Solid1D α)
    (Tshelf : α) :
    (solidStep1D p g stride iEnd tNuc i s Tshelf).T = solidFieldGen p g tNuc i s Tshelf := rfl


/-- `m_ice = np.zeros(Nz)*LCS_i_r + (mass_water - mass_solute (k_f/M_s)/(T_m - T_k))*LCS_i` per node: the hand model's
masked ice mass IS the generated `m_ice` (masks as numbers; in this place the source builds them with
`np.where(T_k < T_eq_l, 1, 0)` / `np.where(LCS_i, 0, 1)`, which the hand model spells `maskNum`) -/
theorem m_ice (p : SnowIn α) (t : α) :
    (zero * maskNum (!decide (t < p.T_eq_l)) + iceMassEq p t * maskNum (decide (t < p.T_eq_l)) : α) =
      F1D.m_ice (LCS_i_r := maskNum (!decide (t < p.T_eq_l))) (mass_water := p.const.mass_water)
        (mass_solute := p.const.mass_solute) (k_f := p.const.k_f) (M_s := p.const.M_s) (T_m := p.T_m) (T_k := t)
        (LCS_i := maskNum (decide (t < p.T_eq_l))) := rfl

/-- `w_i_k = m_ice / mass` per node, `m_ice` the generated formula -/
theorem w_i_k (p : SnowIn α) (g : Grid1D α) (stride iEnd : Nat) (tNuc : α) (i : Nat) (s : Solid1D α)
    (Tshelf : α) :
    (solidStep1D p g stride iEnd tNuc i s Tshelf).w =
      ((solidStep1D p g stride iEnd tNuc i s Tshelf).T.map fun t =>
        F1D.m_ice (LCS_i_r := maskNum (!decide (t < p.T_eq_l))) (mass_water := p.const.mass_water)
          (mass_solute := p.const.mass_solute) (k_f := p.const.k_f) (M_s := p.const.M_s) (T_m := p.T_m) (T_k := t)
          (LCS_i := maskNum (decide (t < p.T_eq_l)))).map fun m =>
        F1D.w_i_k (m_ice := m) (mass := p.const.mass) := rfl

end Snow.GenTie.S1D
