/-
  C13 — Spatial results are internally consistent and complete.

  Models: SnowModel/Snowing0D.lean, Snowing1D.lean (one run) and SnowModel/SnowingRuns.lean
  (the object fields across successive runs), instantiated at ℝ.
-/
import SnowProofs.Props.C08
import SnowModel.SnowingRuns

namespace Snow.C13
open Snow Num Snow.C08

theorem lit27315 : (lit 27315 2 : ℝ) = 273.15 := by rw [lit_real]; norm_num

/-! ### the stages after nucleation, as functions of the break step -/

/-- initial state of the 0D solidification loop when the cooling loop was left at step `Nt` -/
noncomputable def solInit0D (p : SnowIn ℝ) (shelf : List ℝ) (Nt : ℕ) : Solid0D ℝ :=
  ⟨(nucleate0D p (st0D p shelf Nt).T).1, (nucleate0D p (st0D p shelf Nt).T).2, none, zero, #[], #[]⟩

/-- state of the 0D solidification loop after its step `j` -/
noncomputable def solSt0D (p : SnowIn ℝ) (shelf : List ℝ) (Nt j : ℕ) : Solid0D ℝ :=
  prefState (solidStep0D p) (shelf.drop Nt) 0 (solInit0D p shelf Nt) j

/-- final state of the 0D solidification loop -/
noncomputable def solFin0D (p : SnowIn ℝ) (shelf : List ℝ) (Nt : ℕ) : Solid0D ℝ :=
  iterIdx (solidStep0D p) (shelf.drop Nt) 0 (solInit0D p shelf Nt)

noncomputable def solInit1D (p : SnowIn ℝ) (Nz : ℕ) (shelf : List ℝ) (iEnd : ℕ) : Solid1D ℝ :=
  { T := (nucleate1D p (st1D p Nz shelf iEnd).T).1,
    w := (nucleate1D p (st1D p Nz shelf iEnd).T).2.map (· / (p.const.mass_water + p.const.mass_solute)),
    buf := #[], oob := false, solEnd := none, sg := zero, sigma := #[] }

noncomputable def solStep1D' (p : SnowIn ℝ) (Nz : ℕ) (iEnd : ℕ) : ℕ → Solid1D ℝ → ℝ → Solid1D ℝ :=
  solidStep1D p (grid1D p Nz) (saveStride ((grid1D p Nz).NtExp - iEnd)) iEnd ((grid1D p Nz).dt * ofNat' iEnd)

noncomputable def solSt1D (p : SnowIn ℝ) (Nz : ℕ) (shelf : List ℝ) (iEnd j : ℕ) : Solid1D ℝ :=
  prefState (solStep1D' p Nz iEnd) (shelf.drop iEnd) 0 (solInit1D p Nz shelf iEnd) j

noncomputable def solFin1D (p : SnowIn ℝ) (Nz : ℕ) (shelf : List ℝ) (iEnd : ℕ) : Solid1D ℝ :=
  iterIdx (solStep1D' p Nz iEnd) (shelf.drop iEnd) 0 (solInit1D p Nz shelf iEnd)

/-! ### complete result or exception (one run) -/

/-- a complete 0D result: all four statistics and all four arrays -/
def Complete0D (r : Result0D ℝ) : Prop :=
  ∃ st h a b, r.stats = some st ∧ st.t_sol = some a ∧ st.t_fr = some b ∧ r.hist = some h

def Complete1D (r : Result1D ℝ) : Prop :=
  ∃ st h a b, r.stats = some st ∧ st.t_sol = some a ∧ st.t_fr = some b ∧ r.hist = some h

/-- **0D**: a run either raises (and publishes no arrays) or returns a complete result. When
it raises in the solidification stage it HAS already written `T_nuc, t_nuc` with
`t_sol = t_fr = None` into `_stats` (this is what a reused object exposes, see `reused_*`). -/
theorem complete_or_raise_0D (p : SnowIn ℝ) (shelf : List ℝ) :
    ((run0DOn p shelf).exc = none ∧ Complete0D (run0DOn p shelf)) ∨
    ((run0DOn p shelf).exc = some "ValueError" ∧ (run0DOn p shelf).hist = none ∧
      ((run0DOn p shelf).stats = none ∨
        ∃ st, (run0DOn p shelf).stats = some st ∧ st.t_sol = none ∧ st.t_fr = none)) := by
  unfold run0DOn
  rcases hc : cool0D p shelf with ⟨_ | Nt, s⟩
  · right; exact ⟨rfl, rfl, Or.inl rfl⟩
  · dsimp only
    split
    · right; exact ⟨rfl, rfl, Or.inr ⟨_, rfl, rfl, rfl⟩⟩
    · left; exact ⟨rfl, _, _, _, _, rfl, rfl, rfl, rfl⟩

/-- **1D**: the same, the possible exceptions being the two `ValueError`s and the `IndexError`
of a save buffer -/
theorem complete_or_raise_1D (p : SnowIn ℝ) (Nz : ℕ) (old : Bool) (shelf : List ℝ) :
    ((run1DOn p Nz old shelf).exc = none ∧ Complete1D (run1DOn p Nz old shelf)) ∨
    (((run1DOn p Nz old shelf).exc = some "ValueError" ∨ (run1DOn p Nz old shelf).exc = some "IndexError") ∧
      (run1DOn p Nz old shelf).hist = none ∧
      ((run1DOn p Nz old shelf).stats = none ∨
        ∃ st, (run1DOn p Nz old shelf).stats = some st ∧ st.t_sol = none ∧ st.t_fr = none)) := by
  unfold run1DOn
  dsimp only
  rcases hc : cool1D p (grid1D p Nz) old shelf with ⟨_ | Nt, s⟩
  · right; exact ⟨Or.inl rfl, rfl, Or.inl rfl⟩
  · dsimp only
    split
    · right; exact ⟨Or.inr rfl, rfl, Or.inr ⟨_, rfl, rfl, rfl⟩⟩
    · split
      · right; exact ⟨Or.inr rfl, rfl, Or.inr ⟨_, rfl, rfl, rfl⟩⟩
      · split
        · right; exact ⟨Or.inl rfl, rfl, Or.inr ⟨_, rfl, rfl, rfl⟩⟩
        · left; exact ⟨rfl, _, _, _, _, rfl, rfl, rfl, rfl⟩

/-! ### t_fr = t_nuc + t_sol -/

/-- **0D** -/
theorem tfr_eq_0D (p : SnowIn ℝ) (shelf : List ℝ) (st : Stats0D ℝ) (a b : ℝ)
    (hst : (run0DOn p shelf).stats = some st) (ha : st.t_sol = some a) (hb : st.t_fr = some b) :
    b = st.t_nuc + a := by
  revert hst
  unfold run0DOn
  rcases hc : cool0D p shelf with ⟨_ | Nt, s⟩
  · intro h; cases h
  · dsimp only
    split
    · intro h; cases h; cases ha
    · intro h; cases h
      simp only [Option.some.injEq] at ha hb
      rw [← ha, ← hb]
      simp only [ofNat'_real]
      ring

/-- **1D** -/
theorem tfr_eq_1D (p : SnowIn ℝ) (Nz : ℕ) (old : Bool) (shelf : List ℝ) (st : Stats1D ℝ) (a b : ℝ)
    (hst : (run1DOn p Nz old shelf).stats = some st) (ha : st.t_sol = some a) (hb : st.t_fr = some b) :
    b = st.t_nuc + a := by
  revert hst
  unfold run1DOn
  dsimp only
  rcases hc : cool1D p (grid1D p Nz) old shelf with ⟨_ | Nt, s⟩
  · intro h; cases h
  · dsimp only
    split
    · intro h; cases h; cases ha
    · split
      · intro h; cases h; cases ha
      · split
        · intro h; cases h; cases ha
        · intro h; cases h
          simp only [Option.some.injEq] at ha hb
          rw [← ha, ← hb]
          simp only [nucStats1D, ofNat'_real]
          ring

/-! ### t_sol: the first solidification step whose frozen-water fraction is ≥ 0.9 -/

theorem lit09 : (lit 9 1 : ℝ) = 0.9 := by rw [lit_real]; norm_num

/-- **0D** (stage level): the recorded index is the FIRST step with `sigma ≥ 0.9` -/
theorem tsol_first_90_0D (p : SnowIn ℝ) (shelf : List ℝ) (Nt iS : ℕ) :
    (solFin0D p shelf Nt).solEnd = some iS ↔
      iS < (shelf.drop Nt).length ∧ 0.9 ≤ (solSt0D p shelf Nt iS).sg ∧
        ∀ j, j < iS → (solSt0D p shelf Nt j).sg < 0.9 := by
  have := firstHit_iff (solidStep0D p) (fun s => s.solEnd) (fun s => decide ((0.9 : ℝ) ≤ s.sg))
    (by intro i s x; simp only [solidStep0D, lit09])
    (shelf.drop Nt) 0 (solInit0D p shelf Nt) rfl iS
  simp only [Nat.zero_add, decide_eq_true_eq, decide_eq_false_iff_not, not_le] at this
  exact this

/-- the fraction of a 0D step is computed from the temperature stored for that step -/
theorem sigma_of_saved_field_0D (p : SnowIn ℝ) (i : ℕ) (s : Solid0D ℝ) (x : ℝ) :
    (solidStep0D p i s x).sg = sigma0D p (iceFrac0D p (solidStep0D p i s x).T) ∧
      (solidStep0D p i s x).Ttrace = s.Ttrace.push (solidStep0D p i s x).T := ⟨rfl, rfl⟩

/-- **1D** (stage level) -/
theorem tsol_first_90_1D (p : SnowIn ℝ) (Nz : ℕ) (shelf : List ℝ) (iEnd iS : ℕ) :
    (solFin1D p Nz shelf iEnd).solEnd = some iS ↔
      iS < (shelf.drop iEnd).length ∧ 0.9 ≤ (solSt1D p Nz shelf iEnd iS).sg ∧
        ∀ j, j < iS → (solSt1D p Nz shelf iEnd j).sg < 0.9 := by
  have := firstHit_iff (solStep1D' p Nz iEnd) (fun s => s.solEnd) (fun s => decide ((0.9 : ℝ) ≤ s.sg))
    (by intro i s x; simp only [solStep1D', solidStep1D, lit09])
    (shelf.drop iEnd) 0 (solInit1D p Nz shelf iEnd) rfl iS
  simp only [Nat.zero_add, decide_eq_true_eq, decide_eq_false_iff_not, not_le] at this
  exact this

/-- integrated frozen-water fraction of a 1D field (K): `(1/z[-1])·simpson(m_ice, z)/(mass − mass_solute)` -/
noncomputable def sigmaOfField (p : SnowIn ℝ) (g : Grid1D ℝ) (T : Array ℝ) : ℝ :=
  (1 / aget g.z (g.Nz - 1)) *
    simpsonA (T.map fun t =>
      0 * maskNum (!decide (t < p.T_eq_l)) + iceMassEq p t * maskNum (decide (t < p.T_eq_l))) g.z /
    (p.const.mass - p.const.mass_solute)

/-- the fraction of a 1D step is computed from the field `T` the step leaves behind, and the row
saved for that step (when one is saved) holds exactly this field and its ice fractions -/
theorem sigma_of_saved_field_1D (p : SnowIn ℝ) (g : Grid1D ℝ) (stride iEnd : ℕ) (tNuc : ℝ) (i : ℕ)
    (s : Solid1D ℝ) (x : ℝ) :
    let s' := solidStep1D p g stride iEnd tNuc i s x
    s'.sg = sigmaOfField p g s'.T ∧
      (i % stride = 0 → s.buf.size < NSave →
        s'.buf = s.buf.push { step := iEnd + i, time := tNuc + g.dt * i, shelf := x - 273.15,
                              temp := s'.T.map (· - 273.15), ice := s'.w }) := by
  intro s'
  refine ⟨?_, ?_⟩
  · simp only [s', solidStep1D, sigmaOfField, one_real, zero_real]
  · intro hi hsz
    simp only [s', solidStep1D, saveRow, hi, beq_self_eq_true, if_true, hsz, lit27315, ofNat'_real]

/-! ### result level: statistics of a completed run -/

/-- **0D**: a completed run left the cooling loop at `Nt`, the solidification loop recorded
`iS`, and `t_sol = dt·iS` (min), `t_fr = t_nuc + t_sol`, `dt = 0.1 s`. -/
theorem result_times_0D (p : SnowIn ℝ) (shelf : List ℝ) (Nt iS : ℕ)
    (h1 : (run0DOn p shelf).NtCoolEnd = some Nt) (h2 : (run0DOn p shelf).NtSolEnd = some iS) :
    (solFin0D p shelf Nt).solEnd = some iS ∧
      ∃ st, (run0DOn p shelf).stats = some st ∧ st.t_nuc = (Nt : ℝ) * (1 / 10) / 60 ∧
        st.t_sol = some ((1 / 10 : ℝ) * (iS : ℝ) / 60) ∧
        st.t_fr = some (((Nt : ℝ) * (1 / 10) + (1 / 10) * (iS : ℝ)) / 60) := by
  revert h1 h2
  unfold run0DOn
  rcases hc : cool0D p shelf with ⟨_ | Nt', s⟩
  · intro h; cases h
  · have hs := cool0D_state p shelf Nt' s hc
    dsimp only
    split
    · intro _ h; cases h
    · rename_i iS' hsol
      intro h1 h2
      cases h1; cases h2
      refine ⟨?_, _, rfl, ?_, ?_, ?_⟩
      · rw [← hsol]; simp only [solFin0D, solid0D, solInit0D, hs]
      · simp only [dt0D, lit_real, ofNat'_real]; norm_num
      · simp only [dt0D, lit_real, ofNat'_real]; norm_num
      · simp only [dt0D, lit_real, ofNat'_real]; norm_num

/-- **0D**: all reported times lie within the process `[0, (n−1)·dt]` -/
theorem times_within_0D (p : SnowIn ℝ) (shelf : List ℝ) (Nt iS : ℕ)
    (h1 : (run0DOn p shelf).NtCoolEnd = some Nt) (h2 : (run0DOn p shelf).NtSolEnd = some iS) :
    Nt + iS ≤ shelf.length - 1 ∧
      ∀ st, (run0DOn p shelf).stats = some st → ∀ a b, st.t_sol = some a → st.t_fr = some b →
        0 ≤ st.t_nuc ∧ 0 ≤ a ∧ st.t_nuc ≤ b ∧ b ≤ ((shelf.length - 1 : ℕ) : ℝ) * (1 / 10) / 60 := by
  obtain ⟨hsol, st', hst', e1, e2, e3⟩ := result_times_0D p shelf Nt iS h1 h2
  have hNt : Nt < shelf.length := by
    rw [run0DOn_NtCoolEnd, cool0D, loopUntil_fst_some_iff] at h1; exact h1.1
  have hiS := ((tsol_first_90_0D p shelf Nt iS).mp hsol).1
  simp only [List.length_drop] at hiS
  have hsum : Nt + iS ≤ shelf.length - 1 := by omega
  refine ⟨hsum, ?_⟩
  intro st hst a b ha hb
  rw [hst'] at hst; cases hst
  rw [e2] at ha; rw [e3] at hb; cases ha; cases hb
  have c1 : (0 : ℝ) ≤ Nt := Nat.cast_nonneg _
  have c2 : (0 : ℝ) ≤ iS := Nat.cast_nonneg _
  have c3 : ((Nt + iS : ℕ) : ℝ) ≤ ((shelf.length - 1 : ℕ) : ℝ) := by exact_mod_cast hsum
  push_cast at c3
  rw [e1]
  refine ⟨by positivity, by positivity, ?_, ?_⟩ <;> nlinarith


/-- **1D**: a completed run left the cooling loop at `iEnd`, the solidification loop recorded
`iS`, and `t_nuc = dt·iEnd`, `t_sol = dt·iS`, `t_fr = t_nuc + t_sol` (in minutes). -/
theorem result_times_1D (p : SnowIn ℝ) (Nz : ℕ) (old : Bool) (shelf : List ℝ) (iEnd iS : ℕ)
    (h1 : (run1DOn p Nz old shelf).NtCoolEnd = some iEnd) (h2 : (run1DOn p Nz old shelf).NtSolEnd = some iS) :
    (solFin1D p Nz shelf iEnd).solEnd = some iS ∧
      ∃ st, (run1DOn p Nz old shelf).stats = some st ∧ st.t_nuc = (grid1D p Nz).dt * (iEnd : ℝ) / 60 ∧
        st.t_sol = some ((grid1D p Nz).dt * (iS : ℝ) / 60) ∧
        st.t_fr = some (((grid1D p Nz).dt * (iEnd : ℝ) + (grid1D p Nz).dt * (iS : ℝ)) / 60) := by
  revert h1 h2
  unfold run1DOn
  dsimp only
  rcases hc : cool1D p (grid1D p Nz) old shelf with ⟨_ | Nt', s⟩
  · intro h; cases h
  · have hs := cool1D_state p Nz old shelf Nt' s hc
    dsimp only
    split
    · intro _ h; cases h
    · split
      · intro _ h; cases h
      · split
        · intro _ h; cases h
        · rename_i iS' hsol
          intro h1 h2
          cases h1; cases h2
          refine ⟨?_, _, rfl, ?_, ?_, ?_⟩
          · rw [← hsol]; simp only [solFin1D, solInit1D, solStep1D', hs]
          · simp only [nucStats1D, ofNat'_real, Nat.cast_ofNat]
          · simp only [ofNat'_real, Nat.cast_ofNat]
          · simp only [ofNat'_real, Nat.cast_ofNat]

/-- **1D**: all reported times lie within the process `[0, (n−1)·dt]` (`dt ≥ 0`) -/
theorem times_within_1D (p : SnowIn ℝ) (Nz : ℕ) (old : Bool) (shelf : List ℝ) (iEnd iS : ℕ)
    (hdt : 0 ≤ (grid1D p Nz).dt)
    (h1 : (run1DOn p Nz old shelf).NtCoolEnd = some iEnd) (h2 : (run1DOn p Nz old shelf).NtSolEnd = some iS) :
    iEnd + iS ≤ shelf.length - 1 ∧
      ∀ st, (run1DOn p Nz old shelf).stats = some st → ∀ a b, st.t_sol = some a → st.t_fr = some b →
        0 ≤ st.t_nuc ∧ 0 ≤ a ∧ st.t_nuc ≤ b ∧
          b ≤ (grid1D p Nz).dt * ((shelf.length - 1 : ℕ) : ℝ) / 60 := by
  obtain ⟨hsol, st', hst', e1, e2, e3⟩ := result_times_1D p Nz old shelf iEnd iS h1 h2
  have hNt : iEnd < shelf.length := by
    rw [run1DOn_NtCoolEnd, cool1D, loopUntil_fst_some_iff] at h1; exact h1.1
  have hiS := ((tsol_first_90_1D p Nz shelf iEnd iS).mp hsol).1
  simp only [List.length_drop] at hiS
  have hsum : iEnd + iS ≤ shelf.length - 1 := by omega
  refine ⟨hsum, ?_⟩
  intro st hst a b ha hb
  rw [hst'] at hst; cases hst
  rw [e2] at ha; rw [e3] at hb; cases ha; cases hb
  have c1 : (0 : ℝ) ≤ iEnd := Nat.cast_nonneg _
  have c2 : (0 : ℝ) ≤ iS := Nat.cast_nonneg _
  have c3 : ((iEnd + iS : ℕ) : ℝ) ≤ ((shelf.length - 1 : ℕ) : ℝ) := by exact_mod_cast hsum
  push_cast at c3
  rw [e1]
  set d := (grid1D p Nz).dt
  have c4 : d * ((iEnd : ℝ) + iS) ≤ d * ((shelf.length - 1 : ℕ) : ℝ) := mul_le_mul_of_nonneg_left c3 hdt
  have c5 : 0 ≤ d * (iEnd : ℝ) := mul_nonneg hdt c1
  have c6 : 0 ≤ d * (iS : ℝ) := mul_nonneg hdt c2
  refine ⟨by positivity, by positivity, ?_, ?_⟩
  · linarith
  · have : d * (iEnd : ℝ) + d * (iS : ℝ) = d * ((iEnd : ℝ) + iS) := by ring
    rw [this]; linarith

end Snow.C13
