/-
  C13 — Spatial results are internally consistent and complete.

  Models: SnowModel/Snowing0D.lean, Snowing1D.lean (one run) and SnowModel/SnowingRuns.lean
  (the object fields across successive runs), instantiated at ℝ.
-/
import SnowProofs.Props.C08
import SnowProofs.Props.C05
import SnowModel.SnowingRuns

namespace Snow.C13
open Snow Num Snow.C08

theorem lit27315 : (lit 27315 2 : ℝ) = 273.15 := by rw [lit_real]; norm_num

/-! ### the stages after nucleation, as functions of the break step -/

/-- initial state of the 0D solidification loop when the cooling loop was left at step `Nt` -/
noncomputable def solInit0D (p : SnowIn ℝ) (shelf : List ℝ) (Nt : ℕ) : Solid0D ℝ :=
  ⟨(nucleate0D p (st0D p shelf Nt).T).1, (nucleate0D p (st0D p shelf Nt).T).2, none, zero, #[], #[]⟩

/-- state of the 0D solidification loop after its step `j` -/
noncomputable def solSt0D (p : SnowIn ℝ) (shelf : List ℝ) (Nt j : ℕ) : Solid0D ℝ :=
  prefState (solidStep0D p) (shelf.drop Nt) 0 (solInit0D p shelf Nt) j

/-- final state of the 0D solidification loop -/
noncomputable def solFin0D (p : SnowIn ℝ) (shelf : List ℝ) (Nt : ℕ) : Solid0D ℝ :=
  iterIdx (solidStep0D p) (shelf.drop Nt) 0 (solInit0D p shelf Nt)

noncomputable def solInit1D (p : SnowIn ℝ) (Nz : ℕ) (shelf : List ℝ) (iEnd : ℕ) : Solid1D ℝ :=
  { T := (nucleate1D p (st1D p Nz shelf iEnd).T).1,
    w := (nucleate1D p (st1D p Nz shelf iEnd).T).2.map (· / (p.const.mass_water + p.const.mass_solute)),
    buf := #[], oob := false, solEnd := none, sg := zero, sigma := #[] }

noncomputable def solStep1D' (p : SnowIn ℝ) (Nz : ℕ) (iEnd : ℕ) : ℕ → Solid1D ℝ → ℝ → Solid1D ℝ :=
  solidStep1D p (grid1D p Nz) (saveStride ((grid1D p Nz).NtExp - iEnd)) iEnd ((grid1D p Nz).dt * ofNat' iEnd)

noncomputable def solSt1D (p : SnowIn ℝ) (Nz : ℕ) (shelf : List ℝ) (iEnd j : ℕ) : Solid1D ℝ :=
  prefState (solStep1D' p Nz iEnd) (shelf.drop iEnd) 0 (solInit1D p Nz shelf iEnd) j

noncomputable def solFin1D (p : SnowIn ℝ) (Nz : ℕ) (shelf : List ℝ) (iEnd : ℕ) : Solid1D ℝ :=
  iterIdx (solStep1D' p Nz iEnd) (shelf.drop iEnd) 0 (solInit1D p Nz shelf iEnd)

/-! ### complete result or exception (one run) -/

/-- a complete 0D result: all four statistics and all four arrays -/
def Complete0D (r : Result0D ℝ) : Prop :=
  ∃ st h a b, r.stats = some st ∧ st.t_sol = some a ∧ st.t_fr = some b ∧ r.hist = some h

def Complete1D (r : Result1D ℝ) : Prop :=
  ∃ st h a b, r.stats = some st ∧ st.t_sol = some a ∧ st.t_fr = some b ∧ r.hist = some h

/-- **0D**: a run either raises (and publishes no arrays) or returns a complete result. When
it raises in the solidification stage it HAS already written `T_nuc, t_nuc` with
`t_sol = t_fr = None` into `_stats` (this is what a reused object exposes, see `reused_*`). -/
theorem complete_or_raise_0D (p : SnowIn ℝ) (shelf : List ℝ) :
    ((run0DOn p shelf).exc = none ∧ Complete0D (run0DOn p shelf)) ∨
    ((run0DOn p shelf).exc = some "ValueError" ∧ (run0DOn p shelf).hist = none ∧
      ((run0DOn p shelf).stats = none ∨
        ∃ st, (run0DOn p shelf).stats = some st ∧ st.t_sol = none ∧ st.t_fr = none)) := by
  unfold run0DOn
  rcases hc : cool0D p shelf with ⟨_ | Nt, s⟩
  · right; exact ⟨rfl, rfl, Or.inl rfl⟩
  · dsimp only
    split
    · right; exact ⟨rfl, rfl, Or.inr ⟨_, rfl, rfl, rfl⟩⟩
    · left; exact ⟨rfl, _, _, _, _, rfl, rfl, rfl, rfl⟩

/-- **1D**: the same, the possible exceptions being the two `ValueError`s and the `IndexError`
of a save buffer -/
theorem complete_or_raise_1D (p : SnowIn ℝ) (Nz : ℕ) (old : Bool) (shelf : List ℝ) :
    ((run1DOn p Nz old shelf).exc = none ∧ Complete1D (run1DOn p Nz old shelf)) ∨
    (((run1DOn p Nz old shelf).exc = some "ValueError" ∨ (run1DOn p Nz old shelf).exc = some "IndexError") ∧
      (run1DOn p Nz old shelf).hist = none ∧
      ((run1DOn p Nz old shelf).stats = none ∨
        ∃ st, (run1DOn p Nz old shelf).stats = some st ∧ st.t_sol = none ∧ st.t_fr = none)) := by
  unfold run1DOn
  dsimp only
  rcases hc : cool1D p (grid1D p Nz) old shelf with ⟨_ | Nt, s⟩
  · right; exact ⟨Or.inl rfl, rfl, Or.inl rfl⟩
  · dsimp only
    split
    · right; exact ⟨Or.inr rfl, rfl, Or.inr ⟨_, rfl, rfl, rfl⟩⟩
    · split
      · right; exact ⟨Or.inr rfl, rfl, Or.inr ⟨_, rfl, rfl, rfl⟩⟩
      · split
        · right; exact ⟨Or.inl rfl, rfl, Or.inr ⟨_, rfl, rfl, rfl⟩⟩
        · left; exact ⟨rfl, _, _, _, _, rfl, rfl, rfl, rfl⟩

/-! ### t_fr = t_nuc + t_sol -/

/-- **0D** -/
theorem tfr_eq_0D (p : SnowIn ℝ) (shelf : List ℝ) (st : Stats0D ℝ) (a b : ℝ)
    (hst : (run0DOn p shelf).stats = some st) (ha : st.t_sol = some a) (hb : st.t_fr = some b) :
    b = st.t_nuc + a := by
  revert hst
  unfold run0DOn
  rcases hc : cool0D p shelf with ⟨_ | Nt, s⟩
  · intro h; cases h
  · dsimp only
    split
    · intro h; cases h; cases ha
    · intro h; cases h
      simp only [Option.some.injEq] at ha hb
      rw [← ha, ← hb]
      simp only [ofNat'_real]
      ring

/-- **1D** -/
theorem tfr_eq_1D (p : SnowIn ℝ) (Nz : ℕ) (old : Bool) (shelf : List ℝ) (st : Stats1D ℝ) (a b : ℝ)
    (hst : (run1DOn p Nz old shelf).stats = some st) (ha : st.t_sol = some a) (hb : st.t_fr = some b) :
    b = st.t_nuc + a := by
  revert hst
  unfold run1DOn
  dsimp only
  rcases hc : cool1D p (grid1D p Nz) old shelf with ⟨_ | Nt, s⟩
  · intro h; cases h
  · dsimp only
    split
    · intro h; cases h; cases ha
    · split
      · intro h; cases h; cases ha
      · split
        · intro h; cases h; cases ha
        · intro h; cases h
          simp only [Option.some.injEq] at ha hb
          rw [← ha, ← hb]
          simp only [nucStats1D, ofNat'_real]
          ring

/-! ### t_sol: the first solidification step whose frozen-water fraction is ≥ 0.9 -/

theorem lit09 : (lit 9 1 : ℝ) = 0.9 := by rw [lit_real]; norm_num

/-- **0D** (stage level): the recorded index is the FIRST step with `sigma ≥ 0.9` -/
theorem tsol_first_90_0D (p : SnowIn ℝ) (shelf : List ℝ) (Nt iS : ℕ) :
    (solFin0D p shelf Nt).solEnd = some iS ↔
      iS < (shelf.drop Nt).length ∧ 0.9 ≤ (solSt0D p shelf Nt iS).sg ∧
        ∀ j, j < iS → (solSt0D p shelf Nt j).sg < 0.9 := by
  have := firstHit_iff (solidStep0D p) (fun s => s.solEnd) (fun s => decide ((0.9 : ℝ) ≤ s.sg))
    (by intro i s x; simp only [solidStep0D, lit09])
    (shelf.drop Nt) 0 (solInit0D p shelf Nt) rfl iS
  simp only [Nat.zero_add, decide_eq_true_eq, decide_eq_false_iff_not, not_le] at this
  exact this

/-- the fraction of a 0D step is computed from the temperature stored for that step -/
theorem sigma_of_saved_field_0D (p : SnowIn ℝ) (i : ℕ) (s : Solid0D ℝ) (x : ℝ) :
    (solidStep0D p i s x).sg = sigma0D p (iceFrac0D p (solidStep0D p i s x).T) ∧
      (solidStep0D p i s x).Ttrace = s.Ttrace.push (solidStep0D p i s x).T := ⟨rfl, rfl⟩

/-- **1D** (stage level) -/
theorem tsol_first_90_1D (p : SnowIn ℝ) (Nz : ℕ) (shelf : List ℝ) (iEnd iS : ℕ) :
    (solFin1D p Nz shelf iEnd).solEnd = some iS ↔
      iS < (shelf.drop iEnd).length ∧ 0.9 ≤ (solSt1D p Nz shelf iEnd iS).sg ∧
        ∀ j, j < iS → (solSt1D p Nz shelf iEnd j).sg < 0.9 := by
  have := firstHit_iff (solStep1D' p Nz iEnd) (fun s => s.solEnd) (fun s => decide ((0.9 : ℝ) ≤ s.sg))
    (by intro i s x; simp only [solStep1D', solidStep1D, lit09])
    (shelf.drop iEnd) 0 (solInit1D p Nz shelf iEnd) rfl iS
  simp only [Nat.zero_add, decide_eq_true_eq, decide_eq_false_iff_not, not_le] at this
  exact this

/-- integrated frozen-water fraction of a 1D field (K): `(1/z[-1])·simpson(m_ice, z)/(mass − mass_solute)` -/
noncomputable def sigmaOfField (p : SnowIn ℝ) (g : Grid1D ℝ) (T : Array ℝ) : ℝ :=
  (1 / aget g.z (g.Nz - 1)) *
    simpsonA (T.map fun t =>
      0 * maskNum (!decide (t < p.T_eq_l)) + iceMassEq p t * maskNum (decide (t < p.T_eq_l))) g.z /
    (p.const.mass - p.const.mass_solute)

/-- the fraction of a 1D step is computed from the field `T` the step leaves behind, and the row
saved for that step (when one is saved) holds exactly this field and its ice fractions -/
theorem sigma_of_saved_field_1D (p : SnowIn ℝ) (g : Grid1D ℝ) (stride iEnd : ℕ) (tNuc : ℝ) (i : ℕ)
    (s : Solid1D ℝ) (x : ℝ) :
    let s' := solidStep1D p g stride iEnd tNuc i s x
    s'.sg = sigmaOfField p g s'.T ∧
      (i % stride = 0 → s.buf.size < NSave →
        s'.buf = s.buf.push { step := iEnd + i, time := tNuc + g.dt * i, shelf := x - 273.15,
                              temp := s'.T.map (· - 273.15), ice := s'.w }) := by
  intro s'
  refine ⟨?_, ?_⟩
  · simp only [s', solidStep1D, sigmaOfField, one_real, zero_real]
  · intro hi hsz
    simp only [s', solidStep1D, saveRow, hi, beq_self_eq_true, if_true, hsz, lit27315, ofNat'_real]

/-! ### result level: statistics of a completed run -/

/-- **0D**: a completed run left the cooling loop at `Nt`, the solidification loop recorded
`iS`, and `t_sol = dt·iS` (min), `t_fr = t_nuc + t_sol`, `dt = 0.1 s`. -/
theorem result_times_0D (p : SnowIn ℝ) (shelf : List ℝ) (Nt iS : ℕ)
    (h1 : (run0DOn p shelf).NtCoolEnd = some Nt) (h2 : (run0DOn p shelf).NtSolEnd = some iS) :
    (solFin0D p shelf Nt).solEnd = some iS ∧
      ∃ st, (run0DOn p shelf).stats = some st ∧ st.t_nuc = (Nt : ℝ) * (1 / 10) / 60 ∧
        st.t_sol = some ((1 / 10 : ℝ) * (iS : ℝ) / 60) ∧
        st.t_fr = some (((Nt : ℝ) * (1 / 10) + (1 / 10) * (iS : ℝ)) / 60) := by
  revert h1 h2
  unfold run0DOn
  rcases hc : cool0D p shelf with ⟨_ | Nt', s⟩
  · intro h; cases h
  · have hs := cool0D_state p shelf Nt' s hc
    dsimp only
    split
    · intro _ h; cases h
    · rename_i iS' hsol
      intro h1 h2
      cases h1; cases h2
      refine ⟨?_, _, rfl, ?_, ?_, ?_⟩
      · rw [← hsol]; simp only [solFin0D, solid0D, solInit0D, hs]
      · simp only [dt0D, lit_real, ofNat'_real]; norm_num
      · simp only [dt0D, lit_real, ofNat'_real]; norm_num
      · simp only [dt0D, lit_real, ofNat'_real]; norm_num

/-- **0D**: all reported times lie within the process `[0, (n−1)·dt]` -/
theorem times_within_0D (p : SnowIn ℝ) (shelf : List ℝ) (Nt iS : ℕ)
    (h1 : (run0DOn p shelf).NtCoolEnd = some Nt) (h2 : (run0DOn p shelf).NtSolEnd = some iS) :
    Nt + iS ≤ shelf.length - 1 ∧
      ∀ st, (run0DOn p shelf).stats = some st → ∀ a b, st.t_sol = some a → st.t_fr = some b →
        0 ≤ st.t_nuc ∧ 0 ≤ a ∧ st.t_nuc ≤ b ∧ b ≤ ((shelf.length - 1 : ℕ) : ℝ) * (1 / 10) / 60 := by
  obtain ⟨hsol, st', hst', e1, e2, e3⟩ := result_times_0D p shelf Nt iS h1 h2
  have hNt : Nt < shelf.length := by
    rw [run0DOn_NtCoolEnd, cool0D, loopUntil_fst_some_iff] at h1; exact h1.1
  have hiS := ((tsol_first_90_0D p shelf Nt iS).mp hsol).1
  simp only [List.length_drop] at hiS
  have hsum : Nt + iS ≤ shelf.length - 1 := by omega
  refine ⟨hsum, ?_⟩
  intro st hst a b ha hb
  rw [hst'] at hst; cases hst
  rw [e2] at ha; rw [e3] at hb; cases ha; cases hb
  have c1 : (0 : ℝ) ≤ Nt := Nat.cast_nonneg _
  have c2 : (0 : ℝ) ≤ iS := Nat.cast_nonneg _
  have c3 : ((Nt + iS : ℕ) : ℝ) ≤ ((shelf.length - 1 : ℕ) : ℝ) := by exact_mod_cast hsum
  push_cast at c3
  rw [e1]
  refine ⟨by positivity, by positivity, ?_, ?_⟩ <;> nlinarith


/-- **1D**: a completed run left the cooling loop at `iEnd`, the solidification loop recorded
`iS`, and `t_nuc = dt·iEnd`, `t_sol = dt·iS`, `t_fr = t_nuc + t_sol` (in minutes). -/
theorem result_times_1D (p : SnowIn ℝ) (Nz : ℕ) (old : Bool) (shelf : List ℝ) (iEnd iS : ℕ)
    (h1 : (run1DOn p Nz old shelf).NtCoolEnd = some iEnd) (h2 : (run1DOn p Nz old shelf).NtSolEnd = some iS) :
    (solFin1D p Nz shelf iEnd).solEnd = some iS ∧
      ∃ st, (run1DOn p Nz old shelf).stats = some st ∧ st.t_nuc = (grid1D p Nz).dt * (iEnd : ℝ) / 60 ∧
        st.t_sol = some ((grid1D p Nz).dt * (iS : ℝ) / 60) ∧
        st.t_fr = some (((grid1D p Nz).dt * (iEnd : ℝ) + (grid1D p Nz).dt * (iS : ℝ)) / 60) := by
  revert h1 h2
  unfold run1DOn
  dsimp only
  rcases hc : cool1D p (grid1D p Nz) old shelf with ⟨_ | Nt', s⟩
  · intro h; cases h
  · have hs := cool1D_state p Nz old shelf Nt' s hc
    dsimp only
    split
    · intro _ h; cases h
    · split
      · intro _ h; cases h
      · split
        · intro _ h; cases h
        · rename_i iS' hsol
          intro h1 h2
          cases h1; cases h2
          refine ⟨?_, _, rfl, ?_, ?_, ?_⟩
          · rw [← hsol]; simp only [solFin1D, solInit1D, solStep1D', hs]
          · simp only [nucStats1D, ofNat'_real, Nat.cast_ofNat]
          · simp only [ofNat'_real, Nat.cast_ofNat]
          · simp only [ofNat'_real, Nat.cast_ofNat]

/-- **1D**: all reported times lie within the process `[0, (n−1)·dt]` (`dt ≥ 0`) -/
theorem times_within_1D (p : SnowIn ℝ) (Nz : ℕ) (old : Bool) (shelf : List ℝ) (iEnd iS : ℕ)
    (hdt : 0 ≤ (grid1D p Nz).dt)
    (h1 : (run1DOn p Nz old shelf).NtCoolEnd = some iEnd) (h2 : (run1DOn p Nz old shelf).NtSolEnd = some iS) :
    iEnd + iS ≤ shelf.length - 1 ∧
      ∀ st, (run1DOn p Nz old shelf).stats = some st → ∀ a b, st.t_sol = some a → st.t_fr = some b →
        0 ≤ st.t_nuc ∧ 0 ≤ a ∧ st.t_nuc ≤ b ∧
          b ≤ (grid1D p Nz).dt * ((shelf.length - 1 : ℕ) : ℝ) / 60 := by
  obtain ⟨hsol, st', hst', e1, e2, e3⟩ := result_times_1D p Nz old shelf iEnd iS h1 h2
  have hNt : iEnd < shelf.length := by
    rw [run1DOn_NtCoolEnd, cool1D, loopUntil_fst_some_iff] at h1; exact h1.1
  have hiS := ((tsol_first_90_1D p Nz shelf iEnd iS).mp hsol).1
  simp only [List.length_drop] at hiS
  have hsum : iEnd + iS ≤ shelf.length - 1 := by omega
  refine ⟨hsum, ?_⟩
  intro st hst a b ha hb
  rw [hst'] at hst; cases hst
  rw [e2] at ha; rw [e3] at hb; cases ha; cases hb
  have c1 : (0 : ℝ) ≤ iEnd := Nat.cast_nonneg _
  have c2 : (0 : ℝ) ≤ iS := Nat.cast_nonneg _
  have c3 : ((iEnd + iS : ℕ) : ℝ) ≤ ((shelf.length - 1 : ℕ) : ℝ) := by exact_mod_cast hsum
  push_cast at c3
  rw [e1]
  set d := (grid1D p Nz).dt
  have c4 : d * ((iEnd : ℝ) + iS) ≤ d * ((shelf.length - 1 : ℕ) : ℝ) := mul_le_mul_of_nonneg_left c3 hdt
  have c5 : 0 ≤ d * (iEnd : ℝ) := mul_nonneg hdt c1
  have c6 : 0 ≤ d * (iS : ℝ) := mul_nonneg hdt c2
  refine ⟨by positivity, by positivity, ?_, ?_⟩
  · linarith
  · have : d * (iEnd : ℝ) + d * (iS : ℝ) = d * ((iEnd : ℝ) + iS) := by ring
    rw [this]; linarith


/-! ### the save buffers: index range, alignment with the programme -/

/-- a saved row is aligned with the programme: it carries the loop index `step` it was written
at, its time is `dt·step` and its shelf temperature is the programmed one at that step (°C) -/
def RowOK (shelf : List ℝ) (dt : ℝ) (r : Row ℝ) : Prop :=
  r.step < shelf.length ∧ r.time = dt * (r.step : ℝ) ∧ r.shelf = shelf.getD r.step 0 - 273.15

/-- rows in the order of the loop index -/
def StepSorted (l : List (Row ℝ)) : Prop := l.Pairwise (fun a b => a.step ≤ b.step)

/-- invariant of the cooling loop before step `i` (`S` = save stride) -/
structure CoolInv (shelf : List ℝ) (dt : ℝ) (S : ℕ) (i : ℕ) (s : Cool1D ℝ) : Prop where
  oob : s.oob = false
  count : s.buf.size * S < i + S
  cap : s.buf.size ≤ NSave
  rows : ∀ r ∈ s.buf.toList, RowOK shelf dt r ∧ r.step < i
  sorted : StepSorted s.buf.toList
  last : ∀ i', i = i' + 1 → s.Tshelf = shelf.getD i' 0

theorem stepSorted_push (l : List (Row ℝ)) (r : Row ℝ) (h : StepSorted l) (hr : ∀ a ∈ l, a.step ≤ r.step) :
    StepSorted (l ++ [r]) := by
  unfold StepSorted at *
  rw [List.pairwise_append]
  refine ⟨h, by simp, ?_⟩
  intro a ha b hb
  simp only [List.mem_singleton] at hb
  rw [hb]; exact hr a ha

theorem mul_lt_of_dvd_step {c S k : ℕ} (hS : 0 < S) (hk : k % S = 0) (h : c * S < k + S) : c ≤ k / S := by
  obtain ⟨q, hq⟩ := Nat.dvd_of_mod_eq_zero hk
  subst hq
  have h' : c * S < (q + 1) * S := by rw [Nat.add_mul, Nat.one_mul, Nat.mul_comm q S]; exact h
  have := Nat.lt_of_mul_lt_mul_right h'
  rw [Nat.mul_div_cancel_left _ hS]
  omega

/-- the invariant holds along the whole cooling loop; in particular NO in-loop write of the
cooling stage is out of range (`oob = false`, `i_save ≤ 10 000`). -/
theorem cool_inv (p : SnowIn ℝ) (Nz : ℕ) (shelf : List ℝ) (hlen : shelf.length ≤ (grid1D p Nz).NtExp)
    (k : ℕ) (hk : k < shelf.length) :
    CoolInv shelf (grid1D p Nz).dt (saveStride (grid1D p Nz).NtExp) (k + 1) (st1D p Nz shelf k) := by
  set g := grid1D p Nz with hg
  set S := saveStride g.NtExp with hS
  have hSpos : 0 < S := saveStride_pos (by omega)
  unfold st1D
  refine stateAt_inv _ (CoolInv shelf g.dt S) shelf _ ?_ ?_ k hk
  · exact ⟨rfl, by simpa [coolInit1D] using hSpos, by simp [coolInit1D], by simp [coolInit1D],
      by simp [coolInit1D, StepSorted], by intro i' h; omega⟩
  · intro j hj s inv
    have hjN : j < g.NtExp := by omega
    by_cases hmod : j % S = 0
    · -- a row is saved at this step
      have hc : s.buf.size ≤ j / S := mul_lt_of_dvd_step hSpos hmod inv.count
      have hlt : s.buf.size < NSave := lt_of_le_of_lt hc (save_index_lt hjN)
      have hbuf : (coolStep1D p g S j s shelf[j]).buf =
          s.buf.push { step := j, time := g.dt * ofNat' j, shelf := shelf[j] - lit 27315 2,
                       temp := (coolField1D p g j s.T shelf[j]).map (· - lit 27315 2),
                       ice := (coolField1D p g j s.T shelf[j]).map (zero * ·) } := by
        simp only [coolStep1D, saveRow, hmod, beq_self_eq_true, if_true, hlt]
      have hoob : (coolStep1D p g S j s shelf[j]).oob = s.oob := by
        simp only [coolStep1D, saveRow, hmod, beq_self_eq_true, if_true, hlt]
      refine ⟨by rw [hoob]; exact inv.oob, ?_, ?_, ?_, ?_, ?_⟩
      · rw [hbuf, Array.size_push]
        have : s.buf.size * S ≤ j / S * S := Nat.mul_le_mul_right S hc
        have h2 : j / S * S = j := Nat.div_mul_cancel (Nat.dvd_of_mod_eq_zero hmod)
        rw [Nat.add_mul, Nat.one_mul]; omega
      · rw [hbuf, Array.size_push]; omega
      · intro r hr
        rw [hbuf, Array.toList_push, List.mem_append, List.mem_singleton] at hr
        rcases hr with hr | hr
        · obtain ⟨h1, h2⟩ := inv.rows r hr
          exact ⟨h1, by omega⟩
        · subst hr
          refine ⟨⟨hj, by simp only [ofNat'_real], ?_⟩, by simp⟩
          simp only [lit27315, List.getD_eq_getElem?_getD, List.getElem?_eq_getElem hj, Option.getD_some]
      · rw [hbuf, Array.toList_push]
        apply stepSorted_push _ _ inv.sorted
        intro a ha
        have := (inv.rows a ha).2
        simp only; omega
      · intro i' hi'
        have : i' = j := by omega
        subst this
        simp only [coolStep1D, List.getD_eq_getElem?_getD, List.getElem?_eq_getElem hj, Option.getD_some]
    · -- nothing is saved
      have hne : (j % S == 0) = false := by simpa using hmod
      have hbuf : (coolStep1D p g S j s shelf[j]).buf = s.buf := by
        simp only [coolStep1D, hne, Bool.false_eq_true, if_false]
      have hoob : (coolStep1D p g S j s shelf[j]).oob = s.oob := by
        simp only [coolStep1D, hne, Bool.false_eq_true, if_false]
      refine ⟨by rw [hoob]; exact inv.oob, ?_, by rw [hbuf]; exact inv.cap, ?_, by rw [hbuf]; exact inv.sorted, ?_⟩
      · rw [hbuf]; have := inv.count; omega
      · intro r hr
        rw [hbuf] at hr
        obtain ⟨h1, h2⟩ := inv.rows r hr
        exact ⟨h1, by omega⟩
      · intro i' hi'
        have : i' = j := by omega
        subst this
        simp only [coolStep1D, List.getD_eq_getElem?_getD, List.getElem?_eq_getElem hj, Option.getD_some]


/-- invariant of the solidification loop before its step `i` -/
structure SolidInv (shelf : List ℝ) (dt : ℝ) (S iEnd : ℕ) (i : ℕ) (s : Solid1D ℝ) : Prop where
  oob : s.oob = false
  count : s.buf.size * S < i + S
  cap : s.buf.size ≤ NSave
  rows : ∀ r ∈ s.buf.toList, RowOK shelf dt r ∧ iEnd ≤ r.step ∧ r.step < iEnd + i
  sorted : StepSorted s.buf.toList

/-- the invariant holds at the end of the solidification loop; NO in-loop write of the
solidification stage is out of range. -/
theorem solid_inv (p : SnowIn ℝ) (Nz : ℕ) (shelf : List ℝ) (hlen : shelf.length ≤ (grid1D p Nz).NtExp)
    (iEnd : ℕ) (hi : iEnd < shelf.length) :
    SolidInv shelf (grid1D p Nz).dt (saveStride ((grid1D p Nz).NtExp - iEnd)) iEnd
      (shelf.drop iEnd).length (solFin1D p Nz shelf iEnd) := by
  set g := grid1D p Nz with hg
  set S := saveStride (g.NtExp - iEnd) with hS
  have hSpos : 0 < S := saveStride_pos (by omega)
  unfold solFin1D
  have := iterIdx_inv (solStep1D' p Nz iEnd) (SolidInv shelf g.dt S iEnd) (shelf.drop iEnd) 0
    (solInit1D p Nz shelf iEnd) ?_ ?_
  · simpa using this
  · exact ⟨rfl, by simpa [solInit1D] using hSpos, by simp [solInit1D], by simp [solInit1D],
      by simp [solInit1D, StepSorted]⟩
  · intro j hj s inv
    simp only [Nat.zero_add] at inv ⊢
    have hjl : iEnd + j < shelf.length := by simp only [List.length_drop] at hj; omega
    have hjN : j < g.NtExp - iEnd := by omega
    have hx : (shelf.drop iEnd)[j] = shelf[iEnd + j] := by simp
    by_cases hmod : j % S = 0
    · have hc : s.buf.size ≤ j / S := mul_lt_of_dvd_step hSpos hmod inv.count
      have hlt : s.buf.size < NSave := lt_of_le_of_lt hc (save_index_lt hjN)
      obtain ⟨_, hpush⟩ := sigma_of_saved_field_1D p g S iEnd (g.dt * ofNat' iEnd) j s (shelf.drop iEnd)[j]
      have hbuf := hpush hmod hlt
      have hoob : (solStep1D' p Nz iEnd j s (shelf.drop iEnd)[j]).oob = s.oob := by
        simp only [solStep1D', solidStep1D, saveRow, ← hS, ← hg, hmod, beq_self_eq_true, if_true, hlt]
      change (solStep1D' p Nz iEnd j s (shelf.drop iEnd)[j]).buf = _ at hbuf
      refine ⟨by rw [hoob]; exact inv.oob, ?_, ?_, ?_, ?_⟩
      · rw [hbuf, Array.size_push]
        have : s.buf.size * S ≤ j / S * S := Nat.mul_le_mul_right S hc
        have h2 : j / S * S = j := Nat.div_mul_cancel (Nat.dvd_of_mod_eq_zero hmod)
        rw [Nat.add_mul, Nat.one_mul]; omega
      · rw [hbuf, Array.size_push]; omega
      · intro r hr
        rw [hbuf, Array.toList_push, List.mem_append, List.mem_singleton] at hr
        rcases hr with hr | hr
        · obtain ⟨h1, h2, h3⟩ := inv.rows r hr
          exact ⟨h1, h2, by omega⟩
        · subst hr
          refine ⟨⟨hjl, ?_, ?_⟩, by simp, by simp⟩
          · simp only [ofNat'_real]; push_cast; ring
          · simp only [hx, List.getD_eq_getElem?_getD, List.getElem?_eq_getElem hjl, Option.getD_some]
      · rw [hbuf, Array.toList_push]
        apply stepSorted_push _ _ inv.sorted
        intro a ha
        have := (inv.rows a ha).2.2
        simp only; omega
    · have hne : (j % S == 0) = false := by simpa using hmod
      have hbuf : (solStep1D' p Nz iEnd j s (shelf.drop iEnd)[j]).buf = s.buf := by
        simp only [solStep1D', solidStep1D, ← hS, ← hg, hne, Bool.false_eq_true, if_false]
      have hoob : (solStep1D' p Nz iEnd j s (shelf.drop iEnd)[j]).oob = s.oob := by
        simp only [solStep1D', solidStep1D, ← hS, ← hg, hne, Bool.false_eq_true, if_false]
      refine ⟨by rw [hoob]; exact inv.oob, ?_, by rw [hbuf]; exact inv.cap, ?_, by rw [hbuf]; exact inv.sorted⟩
      · rw [hbuf]; have := inv.count; omega
      · intro r hr
        rw [hbuf] at hr
        obtain ⟨h1, h2, h3⟩ := inv.rows r hr
        exact ⟨h1, h2, by omega⟩


theorem saveRow_fits {ρ : Type} (cap : ℕ) (b : Array ρ) (o : Bool) (r : ρ) (h : b.size < cap) :
    saveRow cap (b, o) r = (b.push r, o) := by simp [saveRow, h]

theorem saveRow_full {ρ : Type} (cap : ℕ) (b : Array ρ) (o : Bool) (r : ρ) (h : ¬ b.size < cap) :
    saveRow cap (b, o) r = (b, true) := by simp [saveRow, h]

/-- the extra row written right after nucleation (index `i_save` of the cooling buffers) -/
noncomputable def extraRow (p : SnowIn ℝ) (Nz : ℕ) (shelf : List ℝ) (iEnd : ℕ) : Row ℝ :=
  { step := iEnd, time := (grid1D p Nz).dt * ofNat' iEnd, shelf := (st1D p Nz shelf iEnd).Tshelf - lit 27315 2,
    temp := (nucleate1D p (st1D p Nz shelf iEnd).T).1.map (· - lit 27315 2),
    ice := (nucleate1D p (st1D p Nz shelf iEnd).T).2.map (· / (p.const.mass_water + p.const.mass_solute)) }

/-- **buffer_in_range**: with a profile of at most `Nt_exp` samples, the only buffer write that can
be out of range is the extra post-nucleation row – exactly when all 10 000 cooling rows are
already used (nucleation in the last stride window of a process whose save count is 10 000).
Then the run raises `IndexError` (explicit exception branch); no in-loop write of either stage is
ever out of range. -/
theorem buffer_in_range (p : SnowIn ℝ) (Nz : ℕ) (old : Bool) (shelf : List ℝ)
    (hlen : shelf.length ≤ (grid1D p Nz).NtExp) :
    ((run1DOn p Nz old shelf).exc = some "IndexError" ↔
      ∃ iEnd, (run1DOn p Nz old shelf).NtCoolEnd = some iEnd ∧ (st1D p Nz shelf iEnd).buf.size = NSave) ∧
    ((run1DOn p Nz old shelf).exc = some "IndexError" → (run1DOn p Nz old shelf).stage = "nucleation-row") := by
  unfold run1DOn
  dsimp only
  rcases hc : cool1D p (grid1D p Nz) old shelf with ⟨_ | iEnd, s⟩
  · dsimp only
    simp
  · have hs := cool1D_state p Nz old shelf iEnd s hc
    have hi : iEnd < shelf.length := by
      have : (cool1D p (grid1D p Nz) old shelf).1 = some iEnd := by rw [hc]
      rw [cool1D, loopUntil_fst_some_iff] at this; exact this.1
    have cinv := cool_inv p Nz shelf hlen iEnd hi
    have sinv := solid_inv p Nz shelf hlen iEnd hi
    rw [← hs] at cinv
    dsimp only
    by_cases hfull : s.buf.size < NSave
    · -- the extra row fits: no IndexError at all
      rw [saveRow_fits _ _ _ _ hfull, cinv.oob]
      simp only [Bool.false_eq_true, if_false]
      have hsol : (iterIdx (solidStep1D p (grid1D p Nz) (saveStride ((grid1D p Nz).NtExp - iEnd)) iEnd
          ((grid1D p Nz).dt * ofNat' iEnd)) (List.drop iEnd shelf) 0
          { T := (nucleate1D p s.T).1,
            w := Array.map (fun x => x / (p.const.mass_water + p.const.mass_solute)) (nucleate1D p s.T).2,
            buf := #[], oob := false, solEnd := none, sg := zero, sigma := #[] }).oob = false := by
        have := sinv.oob
        simpa only [solFin1D, solInit1D, solStep1D', hs] using this
      rw [hsol]
      simp only [Bool.false_eq_true, if_false]
      have hne : s.buf.size ≠ NSave := by omega
      split
      · refine ⟨⟨fun h => absurd h (by simp), ?_⟩, fun h => absurd h (by simp)⟩
        rintro ⟨i, h, h2⟩; cases h; rw [← hs] at h2; exact absurd h2 hne
      · refine ⟨⟨fun h => absurd h (by simp), ?_⟩, fun h => absurd h (by simp)⟩
        rintro ⟨i, h, h2⟩; cases h; rw [← hs] at h2; exact absurd h2 hne
    · -- all 10 000 cooling rows are used: IndexError
      rw [saveRow_full _ _ _ _ hfull]
      simp only [if_true]
      have heq : s.buf.size = NSave := by have := cinv.cap; omega
      refine ⟨⟨fun _ => ⟨iEnd, rfl, by rw [← hs]; exact heq⟩, fun _ => trivial⟩, fun _ => trivial⟩

/-- **history_aligned (1D)**: in a completed run the four histories are the columns of ONE list of
rows (equal lengths by construction; the count is `i_save_end + 1 + (i_save − 1)`), every row is
aligned with the programme (`time = dt·step`, `shelfTemp = profile[step]`), and the rows are in
the order of the loop index – hence the time axis is non-decreasing when `dt ≥ 0`. -/
theorem history_aligned_1D (p : SnowIn ℝ) (Nz : ℕ) (old : Bool) (shelf : List ℝ)
    (hlen : shelf.length ≤ (grid1D p Nz).NtExp) (hexc : (run1DOn p Nz old shelf).exc = none) :
    ∃ rows, (run1DOn p Nz old shelf).hist = some rows ∧
      rows.size = (run1DOn p Nz old shelf).iSaveEnd + 1 + ((run1DOn p Nz old shelf).iSaveSolid - 1) ∧
      (∀ r ∈ rows.toList, RowOK shelf (grid1D p Nz).dt r) ∧ StepSorted rows.toList := by
  revert hexc
  unfold run1DOn
  dsimp only
  rcases hc : cool1D p (grid1D p Nz) old shelf with ⟨_ | iEnd, s⟩
  · intro h; cases h
  · have hs := cool1D_state p Nz old shelf iEnd s hc
    have hi : iEnd < shelf.length := by
      have : (cool1D p (grid1D p Nz) old shelf).1 = some iEnd := by rw [hc]
      rw [cool1D, loopUntil_fst_some_iff] at this; exact this.1
    have cinv := cool_inv p Nz shelf hlen iEnd hi
    have sinv := solid_inv p Nz shelf hlen iEnd hi
    rw [← hs] at cinv
    dsimp only
    by_cases hfull : s.buf.size < NSave
    · rw [saveRow_fits _ _ _ _ hfull, cinv.oob]
      simp only [Bool.false_eq_true, if_false]
      set sol := iterIdx (solidStep1D p (grid1D p Nz) (saveStride ((grid1D p Nz).NtExp - iEnd)) iEnd
          ((grid1D p Nz).dt * ofNat' iEnd)) (List.drop iEnd shelf) 0
          { T := (nucleate1D p s.T).1,
            w := Array.map (fun x => x / (p.const.mass_water + p.const.mass_solute)) (nucleate1D p s.T).2,
            buf := #[], oob := false, solEnd := none, sg := zero, sigma := #[] } with hsoldef
      have hsolfin : sol = solFin1D p Nz shelf iEnd := by
        simp only [hsoldef, solFin1D, solInit1D, solStep1D', hs]
      rw [← hsolfin] at sinv
      rw [sinv.oob]
      simp only [Bool.false_eq_true, if_false]
      split
      · intro h; cases h
      · intro _
        have hsub : (sol.buf.extract 0 (sol.buf.size - 1)).toList.Sublist sol.buf.toList := by
          rw [Array.toList_extract, List.extract_eq_take_drop]
          exact (List.take_sublist _ _).trans (List.drop_sublist _ _)
        refine ⟨_, rfl, ?_, ?_, ?_⟩
        · simp only [Array.size_append, Array.size_push, Array.size_extract]
          omega
        · intro r hr
          rw [Array.toList_append, List.mem_append, Array.toList_push, List.mem_append,
            List.mem_singleton] at hr
          rcases hr with (hr | hr) | hr
          · exact (cinv.rows r hr).1
          · subst hr
            refine ⟨hi, by simp only [ofNat'_real], ?_⟩
            simp only [lit27315]
            rw [cinv.last iEnd rfl]
          · exact (sinv.rows r (hsub.subset hr)).1
        · unfold StepSorted
          rw [Array.toList_append, List.pairwise_append]
          refine ⟨?_, ?_, ?_⟩
          · rw [Array.toList_push]
            apply stepSorted_push _ _ cinv.sorted
            intro a ha
            have := (cinv.rows a ha).2
            simp only; omega
          · exact (sinv.sorted).sublist hsub
          · intro a ha b hb
            have hb' : b ∈ sol.buf.toList := hsub.subset hb
            have hbs := (sinv.rows b hb').2.1
            rw [Array.toList_push, List.mem_append, List.mem_singleton] at ha
            rcases ha with ha | ha
            · have := (cinv.rows a ha).2; omega
            · subst ha; simpa using hbs
    · rw [saveRow_full _ _ _ _ hfull]
      simp only [if_true]
      intro h; cases h

/-- the time axis is non-decreasing -/
theorem time_nondecreasing_1D (p : SnowIn ℝ) (Nz : ℕ) (old : Bool) (shelf : List ℝ)
    (hlen : shelf.length ≤ (grid1D p Nz).NtExp) (hdt : 0 ≤ (grid1D p Nz).dt)
    (rows : Array (Row ℝ)) (h : (run1DOn p Nz old shelf).hist = some rows) :
    rows.toList.Pairwise (fun a b => a.time ≤ b.time) := by
  have hexc : (run1DOn p Nz old shelf).exc = none := by
    rcases complete_or_raise_1D p Nz old shelf with ⟨h1, _⟩ | ⟨_, h2, _⟩
    · exact h1
    · rw [h2] at h; cases h
  obtain ⟨rows', hr, _, hok, hsorted⟩ := history_aligned_1D p Nz old shelf hlen hexc
  rw [hr] at h; cases h
  unfold StepSorted at hsorted
  refine List.Pairwise.imp_of_mem ?_ hsorted
  intro a b ha hb hab
  rw [(hok a ha).2.1, (hok b hb).2.1]
  exact mul_le_mul_of_nonneg_left (by exact_mod_cast hab) hdt


/-! ### 0D histories -/

theorem cool0D_trace_size (p : SnowIn ℝ) (shelf : List ℝ) (k : ℕ) (hk : k < shelf.length) :
    (st0D p shelf k).Ttrace.size = k + 1 := by
  unfold st0D
  exact stateAt_inv _ (fun i (s : Cool0D ℝ) => s.Ttrace.size = i) shelf _ (by simp [coolInit0D])
    (by intro j hj s hs; simp [coolStep0D, hs]) k hk

theorem solid0D_trace_size (p : SnowIn ℝ) (shelf : List ℝ) (Nt : ℕ) :
    (solFin0D p shelf Nt).Ttrace.size = (shelf.drop Nt).length := by
  unfold solFin0D
  have := iterIdx_inv (solidStep0D p) (fun i (s : Solid0D ℝ) => s.Ttrace.size = i) (shelf.drop Nt) 0
    (solInit0D p shelf Nt) (by simp [solInit0D]) (by intro j hj s hs; simp [solidStep0D, hs])
  simpa using this

/-- **history_aligned (0D)**: in a completed run `time`, `shelfTemp`, `temp`, `iceMassFraction` all
have one entry per programme step (`n = len(profile)`), and `shelfTemp` is the programme (°C). -/
theorem history_aligned_0D (p : SnowIn ℝ) (shelf : List ℝ) (hexc : (run0DOn p shelf).exc = none) :
    ∃ h, (run0DOn p shelf).hist = some h ∧ h.time.size = shelf.length ∧ h.shelf.size = shelf.length ∧
      h.temp.size = shelf.length ∧ h.ice.size = shelf.length ∧
      h.shelf.toList = shelf.map (· - 273.15) := by
  revert hexc
  unfold run0DOn
  rcases hc : cool0D p shelf with ⟨_ | Nt, s⟩
  · intro h; cases h
  · have hs := cool0D_state p shelf Nt s hc
    have hNt : Nt < shelf.length := by
      have : (cool0D p shelf).1 = some Nt := by rw [hc]
      rw [cool0D, loopUntil_fst_some_iff] at this; exact this.1
    have h1 := cool0D_trace_size p shelf Nt hNt
    have h2 := solid0D_trace_size p shelf Nt
    rw [← hs] at h1
    dsimp only
    split
    · intro h; cases h
    · intro _
      have h2' : (solid0D p (nucleate0D p s.T).1 (nucleate0D p s.T).2 (List.drop Nt shelf)).Ttrace.size
          = shelf.length - Nt := by
        have : solid0D p (nucleate0D p s.T).1 (nucleate0D p s.T).2 (List.drop Nt shelf) = solFin0D p shelf Nt := by
          simp only [solid0D, solFin0D, solInit0D, hs]
        rw [this, h2]; simp
      refine ⟨_, rfl, ?_, ?_, ?_, ?_, ?_⟩
      · simp; omega
      · simp
      · simp [h1, h2']; omega
      · simp [h2']; omega
      · simp [lit27315]

/-! ### the object: a fresh object never shows partial data; a reused one does (finding K6) -/

/-- **complete_or_raise, fresh object, 0D**: after `run()` on a freshly constructed object, either
the run returned and `results` and the histories are complete, or it raised and every accessor
raises `AssertionError` – no partial data. -/
theorem complete_or_raise_fresh_0D (p : SnowIn ℝ) (shelf : List ℝ) :
    let o := (SnowObj.fresh).run (out0D (run0DOn p shelf))
    ((run0DOn p shelf).exc = none ∧
        ∃ st h a b, o.results = .ok (some st) ∧ st.t_sol = some a ∧ st.t_fr = some b ∧
          o.history = .ok (some h)) ∨
    ((run0DOn p shelf).exc ≠ none ∧ o.results = .error "AssertionError" ∧
        o.history = .error "AssertionError") := by
  intro o
  rcases complete_or_raise_0D p shelf with ⟨h1, st, h, a, b, hst, ha, hb, hh⟩ | ⟨h1, h2, _⟩
  · left
    refine ⟨h1, st, h, a, b, ?_, ha, hb, ?_⟩
    · simp [o, SnowObj.run, SnowObj.results, SnowObj.fresh, out0D, h1, hst]
    · simp [o, SnowObj.run, SnowObj.history, SnowObj.fresh, out0D, h1, hh]
  · right
    refine ⟨by rw [h1]; simp, ?_, ?_⟩
    · simp [o, SnowObj.run, SnowObj.results, SnowObj.fresh, out0D, h1]
    · simp [o, SnowObj.run, SnowObj.history, SnowObj.fresh, out0D, h1, h2]

/-- **complete_or_raise, fresh object, 1D** -/
theorem complete_or_raise_fresh_1D (p : SnowIn ℝ) (Nz : ℕ) (old : Bool) (shelf : List ℝ) :
    let o := (SnowObj.fresh).run (out1D (run1DOn p Nz old shelf))
    ((run1DOn p Nz old shelf).exc = none ∧
        ∃ st h a b, o.results = .ok (some st) ∧ st.t_sol = some a ∧ st.t_fr = some b ∧
          o.history = .ok (some h)) ∨
    ((run1DOn p Nz old shelf).exc ≠ none ∧ o.results = .error "AssertionError" ∧
        o.history = .error "AssertionError") := by
  intro o
  rcases complete_or_raise_1D p Nz old shelf with ⟨h1, st, h, a, b, hst, ha, hb, hh⟩ | ⟨h1, h2, _⟩
  · left
    refine ⟨h1, st, h, a, b, ?_, ha, hb, ?_⟩
    · simp [o, SnowObj.run, SnowObj.results, SnowObj.fresh, out1D, h1, hst]
    · simp [o, SnowObj.run, SnowObj.history, SnowObj.fresh, out1D, h1, hh]
  · right
    have hne : (run1DOn p Nz old shelf).exc ≠ none := by rcases h1 with h1 | h1 <;> rw [h1] <;> simp
    refine ⟨hne, ?_, ?_⟩
    · rcases h1 with h1 | h1 <;> simp [o, SnowObj.run, SnowObj.results, SnowObj.fresh, out1D, h1]
    · rcases h1 with h1 | h1 <;> simp [o, SnowObj.run, SnowObj.history, SnowObj.fresh, out1D, h1, h2]

/-- **reused object (state machine)**: if a first run completed and a second run on the same object
raises after having written its nucleation statistics (i.e. it fails in the solidification stage),
then `results` returns the NEW statistics with `t_sol = t_fr = None` while the history accessors
return the OLD arrays: partial, mutually inconsistent data. -/
theorem reused_object_partial {S H : Type} (r1 r2 : RunOut S H) (h1 : H) (st2 : S) (e : String)
    (hr1 : r1.exc = none) (hh1 : r1.hist = some h1)
    (hr2 : r2.exc = some e) (hs2 : r2.stats = some st2) (hh2 : r2.hist = none) :
    let o := ((SnowObj.fresh).run r1).run r2
    o.results = .ok (some st2) ∧ o.history = .ok (some h1) := by
  intro o
  constructor
  · simp [o, SnowObj.run, SnowObj.results, SnowObj.fresh, hr1, hr2, hs2]
  · simp [o, SnowObj.run, SnowObj.history, SnowObj.fresh, hr1, hr2, hh1, hh2]

/-- with the proposed repair of `run()` (fixes/K6.diff: the outputs of an earlier run are cleared
first) a raising run never leaves readable data, whatever the history of the object -/
theorem reused_object_fixed {S H : Type} (o : SnowObj S H) (r : RunOut S H) (e : String)
    (hr : r.exc = some e) (hh : r.hist = none) :
    (o.runFixed r).results = .error "AssertionError" ∧ (o.runFixed r).history = .error "AssertionError" := by
  simp [SnowObj.runFixed, SnowObj.results, SnowObj.history, hr, hh]

/-- … and a completed run shows exactly its own results -/
theorem reused_object_fixed_ok {S H : Type} (o : SnowObj S H) (r : RunOut S H) (hr : r.exc = none) :
    (o.runFixed r).results = .ok r.stats ∧ (o.runFixed r).history = .ok r.hist := by
  simp [SnowObj.runFixed, SnowObj.results, SnowObj.history, hr]

/-! ### sequential multi-repetition studies (finding K7) -/

/-- **K7, state machine**: on the code with the K6 repair only, a study whose first repetition
completes (publishing histories `h`) and whose second repetition raises leaves `results` refusing
but the history accessors returning `h` – data of a study that did not complete. -/
theorem study_partial_counterexample {S H : Type} (o : SnowObj (List S) H) (r0 r1 : RunOut S H)
    (rest : List (RunOut S H)) (h : H) (e : String)
    (h0 : r0.exc = none) (hh0 : r0.hist = some h) (h1 : r1.exc = some e) (hh1 : r1.hist = none) :
    (o.runStudyK6 (r0 :: r1 :: rest)).results = .error "AssertionError" ∧
      (o.runStudyK6 (r0 :: r1 :: rest)).history = .ok (some h) := by
  simp [SnowObj.runStudyK6, SnowObj.results, SnowObj.history, studyExc, studyHist, executed, h0, h1, hh0, hh1]

/-- **K7 repaired**: whatever the repetitions, after a study that raised every accessor raises … -/
theorem study_fixed_raises {S H : Type} (o : SnowObj (List S) H) (reps : List (RunOut S H)) (e : String)
    (he : studyExc reps = some e) :
    (o.runStudyFixed reps).results = .error "AssertionError" ∧
      (o.runStudyFixed reps).history = .error "AssertionError" := by
  simp [SnowObj.runStudyFixed, SnowObj.results, SnowObj.history, he]

/-- … and a study that completed shows its whole table and the histories of its last repetition -/
theorem study_fixed_ok {S H : Type} (o : SnowObj (List S) H) (reps : List (RunOut S H))
    (he : studyExc reps = none) :
    (o.runStudyFixed reps).results = .ok (some (studyRows reps)) ∧
      (o.runStudyFixed reps).history = .ok (studyHist reps) := by
  simp [SnowObj.runStudyFixed, SnowObj.results, SnowObj.history, he]

/-- the K7 repair does not change what single runs show (`runFixed` vs the K6-only `runK6`), given
that a run that raises publishes no histories (`complete_or_raise_*`) -/
theorem runFixed_eq_runK6_observable {S H : Type} (o : SnowObj S H) (r : RunOut S H)
    (hr : r.exc ≠ none → r.hist = none) :
    (o.runFixed r).results = (o.runK6 r).results ∧ (o.runFixed r).history = (o.runK6 r).history := by
  cases he : r.exc with
  | none => simp [SnowObj.runFixed, SnowObj.runK6, SnowObj.results, SnowObj.history, he]
  | some e =>
    have := hr (by rw [he]; simp)
    simp [SnowObj.runFixed, SnowObj.runK6, SnowObj.results, SnowObj.history, he, this]

/-! ### concrete runs (non-vacuity and the K6 witness) -/

/-- run 1: unit constants, no solute, controlled nucleation at −8 °C, shelf at 0 K: freezes in one step -/
noncomputable def okIn : SnowIn ℝ := { exIn with cnTemp := some (-8) }
/-- run 2 on the same object: only half of the mass can freeze – nucleates, never reaches 90 % -/
noncomputable def badIn : SnowIn ℝ :=
  { exIn with cnTemp := some (-8), const := { exConst with mass_water := 1 / 2 } }

theorem sigma_no_solute (p : SnowIn ℝ) (T : ℝ) (h0 : p.const.mass_solute = 0) (h1 : p.const.mass = 1) :
    sigma0D p (iceFrac0D p T) = p.const.mass_water := by
  simp [sigma0D, iceFrac0D, h0, h1]

theorem cool_one_step (p : SnowIn ℝ) (hcn : p.cnTemp = some (-8)) (hT0 : p.T_0 = 273.15)
    (hA : p.const.A = 1) (hK : p.Kshelf = 1) (hc : p.const.cp_solution = 1) (hm : p.const.mass = 1) :
    (cool0D p [0]).1 = some 0 := by
  rw [cool0D, loopUntil_fst_some_iff]
  refine ⟨by simp, ?_, by intro j hj; omega⟩
  simp only [coolStop0D, hcn, decide_eq_true_eq, lit27315]
  rw [stateAt_zero _ _ _ (by simp)]
  simp only [coolStep0D, coolInit0D, hT0, hA, hK, hc, hm, dt0D, lit_real, List.getElem_cons_zero]
  norm_num

theorem solEnd_one_step (p : SnowIn ℝ) (h0 : p.const.mass_solute = 0) (h1 : p.const.mass = 1) :
    (solFin0D p [0] 0).solEnd = if 0.9 ≤ p.const.mass_water then some 0 else none := by
  have hsg : (solSt0D p [0] 0 0).sg = p.const.mass_water := by
    simp only [solSt0D, List.drop_zero, prefState_cons_zero, solidStep0D]
    exact sigma_no_solute p _ h0 h1
  split_ifs with h
  · rw [tsol_first_90_0D]
    exact ⟨by simp, by rw [hsg]; exact h, by intro j hj; omega⟩
  · cases hq : (solFin0D p [0] 0).solEnd with
    | none => rfl
    | some k =>
      obtain ⟨hk, hge, _⟩ := (tsol_first_90_0D p [0] 0 k).mp hq
      simp only [List.drop_zero, List.length_cons, List.length_nil] at hk
      have : k = 0 := by omega
      subst this
      rw [hsg] at hge
      exact absurd hge h

theorem run0DOn_outcome (p : SnowIn ℝ) (shelf : List ℝ) (Nt : ℕ) (hc : (cool0D p shelf).1 = some Nt) :
    (∀ iS, (solFin0D p shelf Nt).solEnd = some iS →
      (run0DOn p shelf).exc = none ∧ (run0DOn p shelf).NtSolEnd = some iS) ∧
    ((solFin0D p shelf Nt).solEnd = none →
      (run0DOn p shelf).exc = some "ValueError" ∧ (run0DOn p shelf).stage = "solidification" ∧
        (run0DOn p shelf).hist = none ∧
        ∃ st, (run0DOn p shelf).stats = some st ∧ st.t_sol = none ∧ st.t_fr = none) := by
  unfold run0DOn
  rcases hcc : cool0D p shelf with ⟨_ | Nt', s⟩
  · rw [hcc] at hc; cases hc
  · rw [hcc] at hc; cases hc
    have hs := cool0D_state p shelf Nt s hcc
    have hfin : solid0D p (nucleate0D p s.T).1 (nucleate0D p s.T).2 (List.drop Nt shelf) = solFin0D p shelf Nt := by
      simp only [solid0D, solFin0D, solInit0D, hs]
    dsimp only
    rw [hfin]
    constructor
    · intro iS h
      rw [h]
      exact ⟨rfl, rfl⟩
    · intro h
      rw [h]
      exact ⟨rfl, rfl, rfl, _, rfl, rfl, rfl⟩

/-- **K6, concrete witness in the model**: run `okIn` (completes), then `badIn` on the same object
(raises "Solidification is not completed"): afterwards `results` shows statistics with
`t_sol = None` beside the complete history arrays of the FIRST run. -/
theorem reused_object_counterexample :
    let r1 := out0D (run0DOn okIn [0])
    let r2 := out0D (run0DOn badIn [0])
    let o := ((SnowObj.fresh).run r1).run r2
    r1.exc = none ∧ r2.exc = some "ValueError" ∧
      (∃ st, o.results = .ok (some st) ∧ st.t_sol = none ∧ st.t_fr = none) ∧
      (∃ h, o.history = .ok (some h) ∧ (run0DOn okIn [0]).hist = some h) := by
  intro r1 r2 o
  have hT0 : ∀ q : SnowIn ℝ, q.oc = exIn.oc → q.T_0 = 273.15 := by
    intro q hq; simp only [SnowIn.T_0, hq, exIn, lit27315]; norm_num
  have c1 := cool_one_step okIn rfl (hT0 _ rfl) rfl rfl rfl rfl
  have c2 := cool_one_step badIn rfl (hT0 _ rfl) rfl rfl rfl rfl
  have s1 := solEnd_one_step okIn rfl rfl
  have s2 := solEnd_one_step badIn rfl rfl
  have m1 : okIn.const.mass_water = 1 := rfl
  have m2 : badIn.const.mass_water = 1 / 2 := rfl
  rw [m1] at s1; rw [m2] at s2
  norm_num at s1 s2
  obtain ⟨e1, _⟩ := (run0DOn_outcome okIn [0] 0 c1).1 0 s1
  obtain ⟨e2, _, hh2, st2, hst2, ht1, ht2⟩ := (run0DOn_outcome badIn [0] 0 c2).2 s2
  obtain ⟨h1, hh1, _⟩ := history_aligned_0D okIn [0] e1
  have := reused_object_partial r1 r2 h1 st2 "ValueError" e1 hh1 e2 hst2 hh2
  exact ⟨e1, e2, ⟨st2, this.1, ht1, ht2⟩, ⟨h1, this.2, hh1⟩⟩

/-- the hypotheses used above are satisfiable: a concrete completing run (so `history_aligned_0D`,
`tfr_eq_0D`, `times_within_0D` apply non-trivially) and a concrete run failing in solidification -/
theorem nonvacuous :
    (run0DOn okIn [0]).exc = none ∧ (run0DOn okIn [0]).NtCoolEnd = some 0 ∧
      (run0DOn okIn [0]).NtSolEnd = some 0 ∧ (run0DOn badIn [0]).stage = "solidification" := by
  have hT0 : ∀ q : SnowIn ℝ, q.oc = exIn.oc → q.T_0 = 273.15 := by
    intro q hq; simp only [SnowIn.T_0, hq, exIn, lit27315]; norm_num
  have c1 := cool_one_step okIn rfl (hT0 _ rfl) rfl rfl rfl rfl
  have c2 := cool_one_step badIn rfl (hT0 _ rfl) rfl rfl rfl rfl
  have s1 := solEnd_one_step okIn rfl rfl
  have s2 := solEnd_one_step badIn rfl rfl
  have m1 : okIn.const.mass_water = 1 := rfl
  have m2 : badIn.const.mass_water = 1 / 2 := rfl
  rw [m1] at s1; rw [m2] at s2
  norm_num at s1 s2
  obtain ⟨e1, e1'⟩ := (run0DOn_outcome okIn [0] 0 c1).1 0 s1
  obtain ⟨_, e2, _⟩ := (run0DOn_outcome badIn [0] 0 c2).2 s2
  exact ⟨e1, by rw [run0DOn_NtCoolEnd]; exact c1, e1', e2⟩


/-! ### audit repairs (M10): 0D time axis, discharged profile-length hypothesis, published ice rows,
fresh object on the repaired `run()` -/

/-- `opcond.tempProfile(dt) + 273.15` has exactly `Nt_exp` samples (C05.profile_length) -/
theorem shelfK_length (p : SnowIn ℝ) (dt : ℝ) : (p.shelfK dt).length = nSteps p.oc.t_tot dt := by
  simp [SnowIn.shelfK, Snow.C05.profile_length]

/-- the hypothesis `shelf.length ≤ Nt_exp` of the buffer theorems holds for `Snowing._run_1D()` itself -/
theorem hlen_run1D (p : SnowIn ℝ) (Nz : ℕ) :
    (p.shelfK (grid1D p Nz).dt).length ≤ (grid1D p Nz).NtExp := by
  rw [shelfK_length]; exact le_refl _

/-- **buffer_in_range for `run1D p`** (no side hypothesis) -/
theorem buffer_in_range_run1D (p : SnowIn ℝ) :
    ((run1D p).exc = some "IndexError" → (run1D p).stage = "nucleation-row") ∧
    ((run1DOld p).exc = some "IndexError" → (run1DOld p).stage = "nucleation-row") :=
  ⟨(buffer_in_range p NzCode false _ (hlen_run1D p NzCode)).2,
   (buffer_in_range p NzCode true _ (hlen_run1D p NzCode)).2⟩

/-- **history_aligned for `run1D p`** (no side hypothesis) -/
theorem history_aligned_run1D (p : SnowIn ℝ) (hexc : (run1D p).exc = none) :
    ∃ rows, (run1D p).hist = some rows ∧
      rows.size = (run1D p).iSaveEnd + 1 + ((run1D p).iSaveSolid - 1) ∧
      (∀ r ∈ rows.toList, RowOK (p.shelfK (grid1D p NzCode).dt) (grid1D p NzCode).dt r) ∧
      StepSorted rows.toList :=
  history_aligned_1D p NzCode false _ (hlen_run1D p NzCode) hexc

/-- **0D time axis**: entry `j` of `time` is `dt·j` (in hours), `dt = 0.1 s` -/
theorem time_is_grid_0D (p : SnowIn ℝ) (shelf : List ℝ) (hexc : (run0DOn p shelf).exc = none) :
    ∃ h, (run0DOn p shelf).hist = some h ∧
      ∀ j (hj : j < h.time.size), h.time[j] = (1 / 10 : ℝ) * (j : ℝ) / 3600 := by
  revert hexc
  unfold run0DOn
  rcases hc : cool0D p shelf with ⟨_ | Nt, s⟩
  · intro h; cases h
  · have hNt : Nt < shelf.length := by
      have : (cool0D p shelf).1 = some Nt := by rw [hc]
      rw [cool0D, loopUntil_fst_some_iff] at this; exact this.1
    dsimp only
    split
    · intro h; cases h
    · intro _
      refine ⟨_, rfl, ?_⟩
      intro j hj
      simp only [Array.getElem_map, dt0D, lit_real, ofNat'_real, Nat.cast_ofNat]
      by_cases hlt : j < Nt
      · rw [Array.getElem_append_left (by simpa using hlt)]
        simp only [Array.getElem_ofFn]; norm_num
      · have hge : Nt ≤ j := by omega
        rw [Array.getElem_append_right (by simpa using hge)]
        simp only [Array.getElem_ofFn, Array.size_ofFn]
        have : ((j - Nt : ℕ) : ℝ) = (j : ℝ) - (Nt : ℝ) := by push_cast [hge]; ring
        rw [this]; norm_num; ring

/-- **0D**: the time axis is non-decreasing -/
theorem time_nondecreasing_0D (p : SnowIn ℝ) (shelf : List ℝ) (hexc : (run0DOn p shelf).exc = none) :
    ∃ h, (run0DOn p shelf).hist = some h ∧
      ∀ i j (hi : i < h.time.size) (hj : j < h.time.size), i ≤ j → h.time[i] ≤ h.time[j] := by
  obtain ⟨h, hh, hg⟩ := time_is_grid_0D p shelf hexc
  refine ⟨h, hh, ?_⟩
  intro i j hi hj hij
  rw [hg i hi, hg j hj]
  have : (i : ℝ) ≤ (j : ℝ) := by exact_mod_cast hij
  linarith

/-- frozen-water fraction as a function of a PUBLISHED 1D ice-fraction row `w = m_ice/mass` -/
noncomputable def sigmaOfIce (p : SnowIn ℝ) (g : Grid1D ℝ) (w : Array ℝ) : ℝ :=
  (1 / aget g.z (g.Nz - 1)) * simpsonA (w.map (· * p.const.mass)) g.z / (p.const.mass - p.const.mass_solute)

theorem sg_of_ice_row_1D (p : SnowIn ℝ) (g : Grid1D ℝ) (hm : p.const.mass ≠ 0) (stride iEnd : ℕ) (tNuc : ℝ)
    (i : ℕ) (s : Solid1D ℝ) (x : ℝ) :
    (solidStep1D p g stride iEnd tNuc i s x).sg = sigmaOfIce p g (solidStep1D p g stride iEnd tNuc i s x).w := by
  -- both are computed from the same ice-mass field `M`: sg from `M`, `w = M / mass`
  obtain ⟨M, h1, h2⟩ : ∃ M : Array ℝ,
      (solidStep1D p g stride iEnd tNuc i s x).sg =
        (1 / aget g.z (g.Nz - 1)) * simpsonA M g.z / (p.const.mass - p.const.mass_solute) ∧
      (solidStep1D p g stride iEnd tNuc i s x).w = M.map (· / p.const.mass) := by
    refine ⟨_, ?_, rfl⟩
    simp only [solidStep1D, one_real]
  rw [h1, h2, sigmaOfIce, Array.map_map]
  have : ((fun x => x * p.const.mass) ∘ fun x => x / p.const.mass) = id := by
    funext y; simp [div_mul_cancel₀ _ hm]
  rw [this, Array.map_id]

/-- **the published solidification rows are the loop states**: every row the solidification loop
saved carries the ice fractions and the field of the step it was written at -/
theorem published_solid_rows_1D (p : SnowIn ℝ) (Nz : ℕ) (shelf : List ℝ) (iEnd : ℕ) :
    ∀ r ∈ (solFin1D p Nz shelf iEnd).buf.toList,
      ∃ j, j < (shelf.drop iEnd).length ∧ r.step = iEnd + j ∧
        r.ice = (solSt1D p Nz shelf iEnd j).w ∧ r.temp = (solSt1D p Nz shelf iEnd j).T.map (· - 273.15) := by
  have := saved_rows_from_states (solStep1D' p Nz iEnd) (fun s => s.buf)
    (fun s' i x => ({ step := iEnd + i, time := (grid1D p Nz).dt * ofNat' iEnd + (grid1D p Nz).dt * ofNat' i,
                      shelf := x - lit 27315 2, temp := s'.T.map (· - lit 27315 2), ice := s'.w } : Row ℝ))
    (by
      intro i s x
      simp only [solStep1D', solidStep1D, saveRow]
      split_ifs
      · right; rfl
      · left; rfl
      · left; rfl)
    (shelf.drop iEnd) (solInit1D p Nz shelf iEnd) rfl
  intro r hr
  obtain ⟨j, hj, e⟩ := this r hr
  refine ⟨j, hj, by rw [e], by rw [e]; rfl, by rw [e]; simp only [lit27315]; rfl⟩

/-- **t_sol on the published history (1D)**: in a completed run with `mass ≠ 0`, every published
solidification row written at solidification step `j` has an integrated frozen fraction – computed
from ITS `iceMassFraction` entries – below 0.9 if `j < i_sol`, and at least 0.9 if `j = i_sol`. -/
theorem tsol_first_90_published_1D (p : SnowIn ℝ) (Nz : ℕ) (old : Bool) (shelf : List ℝ) (hm : p.const.mass ≠ 0)
    (iEnd iS : ℕ) (h1 : (run1DOn p Nz old shelf).NtCoolEnd = some iEnd)
    (h2 : (run1DOn p Nz old shelf).NtSolEnd = some iS) :
    ∀ r ∈ (solFin1D p Nz shelf iEnd).buf.toList, ∀ j, r.step = iEnd + j →
      (j < iS → sigmaOfIce p (grid1D p Nz) r.ice < 0.9) ∧
      (j = iS → 0.9 ≤ sigmaOfIce p (grid1D p Nz) r.ice) := by
  obtain ⟨hsol, _⟩ := result_times_1D p Nz old shelf iEnd iS h1 h2
  obtain ⟨_, hge, hlt⟩ := (tsol_first_90_1D p Nz shelf iEnd iS).mp hsol
  intro r hr j hstep
  obtain ⟨j', hj', hst, hice, _⟩ := published_solid_rows_1D p Nz shelf iEnd r hr
  have hjj : j' = j := by omega
  subst hjj
  have hsg : (solSt1D p Nz shelf iEnd j').sg = sigmaOfIce p (grid1D p Nz) (solSt1D p Nz shelf iEnd j').w := by
    unfold solSt1D
    rw [← stateAt_eq_prefState]
    exact stateAt_post (solStep1D' p Nz iEnd)
      (fun s => s.sg = sigmaOfIce p (grid1D p Nz) s.w) _ _
      (fun i s x => sg_of_ice_row_1D p (grid1D p Nz) hm _ _ _ i s x) j' hj'
  rw [hice, ← hsg]
  exact ⟨fun h => hlt j' h, fun h => by rw [h]; exact hge⟩

/-- **fresh object on the run() now in /repo** (`SnowObj.runFixed`: outputs cleared first and again on
an exception), 0D -/
theorem complete_or_raise_fresh_fixed_0D (p : SnowIn ℝ) (shelf : List ℝ) (o : SnowObj (Stats0D ℝ) (Hist0D ℝ)) :
    let o' := o.runFixed (out0D (run0DOn p shelf))
    ((run0DOn p shelf).exc = none ∧
        ∃ st h a b, o'.results = .ok (some st) ∧ st.t_sol = some a ∧ st.t_fr = some b ∧
          o'.history = .ok (some h)) ∨
    ((run0DOn p shelf).exc ≠ none ∧ o'.results = .error "AssertionError" ∧
        o'.history = .error "AssertionError") := by
  intro o'
  rcases complete_or_raise_0D p shelf with ⟨h1, st, h, a, b, hst, ha, hb, hh⟩ | ⟨h1, _, _⟩
  · left
    exact ⟨h1, st, h, a, b, by simp [o', SnowObj.runFixed, SnowObj.results, out0D, h1, hst], ha, hb,
      by simp [o', SnowObj.runFixed, SnowObj.history, out0D, h1, hh]⟩
  · right
    exact ⟨by rw [h1]; simp, by simp [o', SnowObj.runFixed, SnowObj.results, out0D, h1],
      by simp [o', SnowObj.runFixed, SnowObj.history, out0D, h1]⟩

/-- … and 1D; the object's earlier history `o` is arbitrary (fresh or reused) -/
theorem complete_or_raise_fresh_fixed_1D (p : SnowIn ℝ) (Nz : ℕ) (old : Bool) (shelf : List ℝ)
    (o : SnowObj (Stats1D ℝ) (Array (Row ℝ))) :
    let o' := o.runFixed (out1D (run1DOn p Nz old shelf))
    ((run1DOn p Nz old shelf).exc = none ∧
        ∃ st h a b, o'.results = .ok (some st) ∧ st.t_sol = some a ∧ st.t_fr = some b ∧
          o'.history = .ok (some h)) ∨
    ((run1DOn p Nz old shelf).exc ≠ none ∧ o'.results = .error "AssertionError" ∧
        o'.history = .error "AssertionError") := by
  intro o'
  rcases complete_or_raise_1D p Nz old shelf with ⟨h1, st, h, a, b, hst, ha, hb, hh⟩ | ⟨h1, _, _⟩
  · left
    exact ⟨h1, st, h, a, b, by simp [o', SnowObj.runFixed, SnowObj.results, out1D, h1, hst], ha, hb,
      by simp [o', SnowObj.runFixed, SnowObj.history, out1D, h1, hh]⟩
  · right
    have hne : (run1DOn p Nz old shelf).exc ≠ none := by rcases h1 with h1 | h1 <;> rw [h1] <;> simp
    refine ⟨hne, ?_, ?_⟩
    · rcases h1 with h1 | h1 <;> simp [o', SnowObj.runFixed, SnowObj.results, out1D, h1]
    · rcases h1 with h1 | h1 <;> simp [o', SnowObj.runFixed, SnowObj.history, out1D, h1]

/-! ## 2D model (`SnowModel/Snowing2D.lean`)

`S2D.run` returns `Except String (Result α)`: a complete result (every statistic and all four
histories are fields of `Result`) or the class of the exception – partial data cannot even be
expressed.  The loops are the generic skeletons (`Lemmas/Snowing2DLoop.lean`, `Snowing2DRun.lean`);
the ghost field `steps` records the loop index of every saved row. -/

open Snow.S2D in
/-- **2D**: a run returns a complete result or raises `ValueError` / `IndexError` -/
theorem complete_or_raise_2D (p : Par ℝ) (f : Flags) (T0C : ℝ) (prof : List ℝ) (NtExp : ℕ) (Frand : ℝ)
    (cn : Option ℝ) :
    (∃ r, run p f T0C prof NtExp Frand cn = .ok r) ∨
      run p f T0C prof NtExp Frand cn = .error "ValueError" ∨
      run p f T0C prof NtExp Frand cn = .error "IndexError" := by
  rw [run_eq]
  rcases cool2D p f T0C prof NtExp Frand cn with ⟨_ | iEnd, s⟩
  · right; left; rfl
  · simp only
    by_cases hfull : s.rows.size ≥ 10000
    · right; right; simp only [hfull, if_true]
    · simp only [hfull, if_false]
      rcases (solFin2D (mkCtx p f) NtExp prof iEnd s).iSol with _ | iS
      · right; left; rfl
      · left; exact ⟨_, rfl⟩

open Snow.S2D in
/-- **2D**: `t_fr = t_nuc + t_sol` -/
theorem tfr_eq_2D (p : Par ℝ) (f : Flags) (T0C : ℝ) (prof : List ℝ) (NtExp : ℕ) (Frand : ℝ)
    (cn : Option ℝ) (r : Result ℝ) (h : run p f T0C prof NtExp Frand cn = .ok r) :
    r.tFr = r.tNuc + r.tSol := by
  obtain ⟨_, _, _, iS, _, hr⟩ := run2D_cool p f T0C prof NtExp Frand cn r h
  rw [hr]
  simp only [mkResult, ofNat'_real]
  ring

open Snow.S2D in
/-- state of the 2D solidification loop after its step `j` -/
noncomputable def solSt2D (p : Par ℝ) (f : Flags) (T0C : ℝ) (prof : List ℝ) (NtExp iEnd j : ℕ) : SolSt ℝ :=
  prefState (solStep2D (mkCtx p f) NtExp iEnd) ((shelfK prof).drop iEnd) 0
    (solInit2D (mkCtx p f) (st2D p f T0C prof NtExp iEnd)) j

open Snow.S2D in
/-- **2D**: the recorded solidification index is the FIRST step whose integrated frozen-water
fraction (computed from the field that step leaves behind) is `≥ 0.9`; `t_sol = dt·i_sol`. -/
theorem tsol_first_90_2D (p : Par ℝ) (f : Flags) (T0C : ℝ) (prof : List ℝ) (NtExp : ℕ) (Frand : ℝ)
    (cn : Option ℝ) (r : Result ℝ) (h : run p f T0C prof NtExp Frand cn = .ok r) :
    r.iSol < prof.length - r.iCool ∧
      0.9 ≤ (solSt2D p f T0C prof NtExp r.iCool r.iSol).sg ∧
      (∀ j, j < r.iSol → (solSt2D p f T0C prof NtExp r.iCool j).sg < 0.9) ∧
      (∀ j, (solSt2D p f T0C prof NtExp r.iCool j).sg =
        sigmaOf (mkCtx p f) (iceFrac (mkCtx p f) (solSt2D p f T0C prof NtExp r.iCool j).T) ∨
          (shelfK prof).length - r.iCool ≤ j) ∧
      r.tSol = (mkCtx p f).dt * (r.iSol : ℝ) / 60 := by
  obtain ⟨_, _, _, iS, hsol, hr⟩ := run2D_cool p f T0C prof NtExp Frand cn r h
  have hiS : r.iSol = iS := by rw [hr]; rfl
  have := firstHit_iff (solStep2D (mkCtx p f) NtExp r.iCool) (fun s => s.iSol)
    (fun s => decide ((0.9 : ℝ) ≤ s.sg))
    (by intro i s x; simp only [solStep2D, solStepSt, lit09])
    ((shelfK prof).drop r.iCool) 0 (solInit2D (mkCtx p f) (st2D p f T0C prof NtExp r.iCool)) rfl iS
  simp only [Nat.zero_add, decide_eq_true_eq, decide_eq_false_iff_not, not_le] at this
  obtain ⟨h1, h2, h3⟩ := this.mp hsol
  rw [hiS]
  refine ⟨by simpa [shelfK] using h1, h2, h3, ?_, by rw [hr]; simp only [mkResult, ofNat'_real, Nat.cast_ofNat]⟩
  intro j
  by_cases hj : j < ((shelfK prof).drop r.iCool).length
  · left
    exact stateAt_post (solStep2D (mkCtx p f) NtExp r.iCool)
      (fun s => s.sg = sigmaOf (mkCtx p f) (iceFrac (mkCtx p f) s.T)) _ _ (fun _ _ _ => rfl) j hj
  · right; simp only [List.length_drop] at hj; omega

open Snow.S2D in
/-- **2D**: all reported times lie within the process `[0, (n−1)·dt]` -/
theorem times_within_2D (p : Par ℝ) (f : Flags) (hdt : 0 ≤ (mkCtx p f).dt) (T0C : ℝ) (prof : List ℝ)
    (NtExp : ℕ) (Frand : ℝ) (cn : Option ℝ) (r : Result ℝ) (h : run p f T0C prof NtExp Frand cn = .ok r) :
    r.iCool + r.iSol ≤ prof.length - 1 ∧ 0 ≤ r.tNuc ∧ 0 ≤ r.tSol ∧ r.tNuc ≤ r.tFr ∧
      r.tFr ≤ (mkCtx p f).dt * ((prof.length - 1 : ℕ) : ℝ) / 60 := by
  obtain ⟨hc, _, _, iS, _, hr⟩ := run2D_cool p f T0C prof NtExp Frand cn r h
  obtain ⟨hS, _, _, _, _⟩ := tsol_first_90_2D p f T0C prof NtExp Frand cn r h
  have hi : r.iCool < prof.length := by
    unfold cool2D at hc
    rw [loopUntil_fst_some_iff] at hc
    simpa [shelfK] using hc.1
  have hsum : r.iCool + r.iSol ≤ prof.length - 1 := by omega
  have hiS : r.iSol = iS := by rw [hr]; rfl
  have e1 : r.tNuc = (mkCtx p f).dt * (r.iCool : ℝ) / 60 := by
    rw [hr]; simp only [mkResult, ofNat'_real, Nat.cast_ofNat]
  have e2 : r.tSol = (mkCtx p f).dt * (r.iSol : ℝ) / 60 := by
    rw [hiS, hr]; simp only [mkResult, ofNat'_real, Nat.cast_ofNat]
  have e3 := tfr_eq_2D p f T0C prof NtExp Frand cn r h
  set d := (mkCtx p f).dt
  have c1 : (0 : ℝ) ≤ r.iCool := Nat.cast_nonneg _
  have c2 : (0 : ℝ) ≤ r.iSol := Nat.cast_nonneg _
  have c3 : ((r.iCool + r.iSol : ℕ) : ℝ) ≤ ((prof.length - 1 : ℕ) : ℝ) := by exact_mod_cast hsum
  push_cast at c3
  have c4 : d * ((r.iCool : ℝ) + r.iSol) ≤ d * ((prof.length - 1 : ℕ) : ℝ) := mul_le_mul_of_nonneg_left c3 hdt
  have c5 : 0 ≤ d * (r.iCool : ℝ) := mul_nonneg hdt c1
  have c6 : 0 ≤ d * (r.iSol : ℝ) := mul_nonneg hdt c2
  refine ⟨hsum, by rw [e1]; positivity, by rw [e2]; positivity, by rw [e3, e2]; linarith [div_nonneg c6 (by norm_num : (0:ℝ) ≤ 60)], ?_⟩
  rw [e3, e1, e2]
  have : d * (r.iCool : ℝ) / 60 + d * (r.iSol : ℝ) / 60 = d * ((r.iCool : ℝ) + r.iSol) / 60 := by ring
  rw [this]
  linarith


/-! ### 2D: save buffers -/

/-- a saved 2D row is aligned with the programme at loop index `st` -/
def RowOK2 (shelf : List ℝ) (dt : ℝ) (r : S2D.Row ℝ) (st : ℕ) : Prop :=
  st < shelf.length ∧ r.time = dt * (st : ℝ) ∧ r.shelf = shelf.getD st 0 - 273.15

/-- rows and their (ghost) loop indices, pairwise aligned -/
def Aligned2 (shelf : List ℝ) (dt : ℝ) (rows : List (S2D.Row ℝ)) (steps : List ℕ) : Prop :=
  List.Forall₂ (RowOK2 shelf dt) rows steps

theorem aligned2_push {shelf : List ℝ} {dt : ℝ} {rows : List (S2D.Row ℝ)} {steps : List ℕ}
    (h : Aligned2 shelf dt rows steps) (r : S2D.Row ℝ) (st : ℕ) (hr : RowOK2 shelf dt r st) :
    Aligned2 shelf dt (rows ++ [r]) (steps ++ [st]) :=
  List.rel_append h (List.Forall₂.cons hr List.Forall₂.nil)

theorem sorted_push (l : List ℕ) (x : ℕ) (h : l.Pairwise (· ≤ ·)) (hx : ∀ a ∈ l, a ≤ x) :
    (l ++ [x]).Pairwise (· ≤ ·) := by
  rw [List.pairwise_append]
  exact ⟨h, by simp, fun a ha b hb => by simp only [List.mem_singleton] at hb; rw [hb]; exact hx a ha⟩

theorem saveStride_2D (N : ℕ) : S2D.saveStride N = Snow.saveStride N := rfl

/-- invariant of the 2D cooling loop before step `i` -/
structure CoolInv2D (shelf : List ℝ) (dt : ℝ) (S : ℕ) (i : ℕ) (s : S2D.CoolSt ℝ) : Prop where
  count : s.rows.size * S < i + S
  cap : s.rows.size ≤ NSave
  aligned : Aligned2 shelf dt s.rows.toList s.steps.toList
  lt : ∀ st ∈ s.steps.toList, st < i
  sorted : s.steps.toList.Pairwise (· ≤ ·)
  last : ∀ i', i = i' + 1 → s.Tshelf = shelf.getD i' 0

open Snow.S2D in
/-- the invariant holds along the 2D cooling loop: every in-loop row index is `< 10 000` (the model
need not – and does not – test the capacity inside the loop), rows are aligned and ordered -/
theorem cool_inv_2D (p : Par ℝ) (f : Flags) (T0C : ℝ) (prof : List ℝ) (NtExp : ℕ)
    (hlen : prof.length ≤ NtExp) (k : ℕ) (hk : k < prof.length) :
    CoolInv2D (shelfK prof) (mkCtx p f).dt (Snow.saveStride NtExp) (k + 1) (st2D p f T0C prof NtExp k) := by
  set c := mkCtx p f with hc
  set S := Snow.saveStride NtExp with hS
  have hSpos : 0 < S := saveStride_pos (by omega)
  have hk' : k < (shelfK prof).length := by simpa [shelfK] using hk
  have hkel : (kelvin : ℝ) = 273.15 := by simp only [kelvin, lit_real]; norm_num
  unfold st2D
  refine stateAt_inv _ (CoolInv2D (shelfK prof) c.dt S) (shelfK prof) _ ?_ ?_ k hk'
  · exact ⟨by simpa [coolInit2D] using hSpos, by simp [coolInit2D], by simp [coolInit2D, Aligned2],
      by simp [coolInit2D], by simp [coolInit2D], by intro i' h; omega⟩
  · intro j hj s inv
    have hjN : j < NtExp := by simp only [shelfK, List.length_map] at hj; omega
    have hst : S2D.saveStride NtExp = S := saveStride_2D NtExp
    by_cases hmod : j % S = 0
    · have hcnt : s.rows.size ≤ j / S := mul_lt_of_dvd_step hSpos hmod inv.count
      have hlt : s.rows.size < NSave := lt_of_le_of_lt hcnt (save_index_lt hjN)
      have hrows : (coolStep2D p f NtExp j s (shelfK prof)[j]).rows.toList =
          s.rows.toList ++ [S2D.Row.mk (c.dt * ofNat' j) ((shelfK prof)[j] - kelvin)
            ((coolStep2D p f NtExp j s (shelfK prof)[j]).T.map (· - kelvin))
            (Array.replicate (c.Nz * c.Nr) zero)] := by
        simp only [coolStep2D, coolStepSt, hst, hmod, if_true, Array.toList_push, ← hc]
      have hsteps : (coolStep2D p f NtExp j s (shelfK prof)[j]).steps.toList = s.steps.toList ++ [j] := by
        simp only [coolStep2D, coolStepSt, hst, hmod, if_true, Array.toList_push]
      have hsize : (coolStep2D p f NtExp j s (shelfK prof)[j]).rows.size = s.rows.size + 1 := by
        simp only [coolStep2D, coolStepSt, hst, hmod, if_true, Array.size_push]
      refine ⟨?_, by rw [hsize]; omega, ?_, ?_, ?_, ?_⟩
      · rw [hsize]
        have : s.rows.size * S ≤ j / S * S := Nat.mul_le_mul_right S hcnt
        have h2 : j / S * S = j := Nat.div_mul_cancel (Nat.dvd_of_mod_eq_zero hmod)
        rw [Nat.add_mul, Nat.one_mul]; omega
      · rw [hrows, hsteps]
        apply aligned2_push inv.aligned
        refine ⟨hj, by simp only [ofNat'_real], ?_⟩
        simp only [hkel, List.getD_eq_getElem?_getD, List.getElem?_eq_getElem hj, Option.getD_some]
      · intro st hstm
        rw [hsteps, List.mem_append, List.mem_singleton] at hstm
        rcases hstm with h | h
        · have := inv.lt st h; omega
        · omega
      · rw [hsteps]
        exact sorted_push _ _ inv.sorted (fun a ha => by have := inv.lt a ha; omega)
      · intro i' hi'
        have : i' = j := by omega
        subst this
        simp only [coolStep2D, coolStepSt, List.getD_eq_getElem?_getD, List.getElem?_eq_getElem hj,
          Option.getD_some]
    · have hrows : (coolStep2D p f NtExp j s (shelfK prof)[j]).rows = s.rows := by
        simp only [coolStep2D, coolStepSt, hst, hmod, if_false]
      have hsteps : (coolStep2D p f NtExp j s (shelfK prof)[j]).steps = s.steps := by
        simp only [coolStep2D, coolStepSt, hst, hmod, if_false]
      refine ⟨?_, by rw [hrows]; exact inv.cap, by rw [hrows, hsteps]; exact inv.aligned, ?_,
        by rw [hsteps]; exact inv.sorted, ?_⟩
      · rw [hrows]; have := inv.count; omega
      · intro st hstm; rw [hsteps] at hstm; have := inv.lt st hstm; omega
      · intro i' hi'
        have : i' = j := by omega
        subst this
        simp only [coolStep2D, coolStepSt, List.getD_eq_getElem?_getD, List.getElem?_eq_getElem hj,
          Option.getD_some]

/-- invariant of the 2D solidification loop before its step `i` -/
structure SolidInv2D (shelf : List ℝ) (dt : ℝ) (S iEnd : ℕ) (i : ℕ) (s : S2D.SolSt ℝ) : Prop where
  count : s.rows.size * S < i + S
  cap : s.rows.size ≤ NSave
  aligned : Aligned2 shelf dt s.rows.toList s.steps.toList
  range : ∀ st ∈ s.steps.toList, iEnd ≤ st ∧ st < iEnd + i
  sorted : s.steps.toList.Pairwise (· ≤ ·)

open Snow.S2D in
theorem solid_inv_2D (p : Par ℝ) (f : Flags) (prof : List ℝ) (NtExp : ℕ) (hlen : prof.length ≤ NtExp)
    (iEnd : ℕ) (hi : iEnd < prof.length) (s0 : CoolSt ℝ) :
    SolidInv2D (shelfK prof) (mkCtx p f).dt (Snow.saveStride (NtExp - iEnd)) iEnd
      ((shelfK prof).drop iEnd).length (solFin2D (mkCtx p f) NtExp prof iEnd s0) := by
  set c := mkCtx p f with hc
  set S := Snow.saveStride (NtExp - iEnd) with hS
  have hSpos : 0 < S := saveStride_pos (by omega)
  have hkel : (kelvin : ℝ) = 273.15 := by simp only [kelvin, lit_real]; norm_num
  have hlenK : (shelfK prof).length = prof.length := by simp [shelfK]
  unfold solFin2D
  have := iterIdx_inv (solStep2D c NtExp iEnd) (SolidInv2D (shelfK prof) c.dt S iEnd)
    ((shelfK prof).drop iEnd) 0 (solInit2D c s0) ?_ ?_
  · simpa using this
  · exact ⟨by simpa [solInit2D] using hSpos, by simp [solInit2D], by simp [solInit2D, Aligned2],
      by simp [solInit2D], by simp [solInit2D]⟩
  · intro j hj s inv
    simp only [Nat.zero_add] at inv ⊢
    have hjl : iEnd + j < (shelfK prof).length := by simp only [List.length_drop] at hj; omega
    have hjN : j < NtExp - iEnd := by omega
    have hx : ((shelfK prof).drop iEnd)[j] = (shelfK prof)[iEnd + j] := by simp
    have hst : S2D.saveStride (NtExp - iEnd) = S := saveStride_2D _
    by_cases hmod : j % S = 0
    · have hcnt : s.rows.size ≤ j / S := mul_lt_of_dvd_step hSpos hmod inv.count
      have hlt : s.rows.size < NSave := lt_of_le_of_lt hcnt (save_index_lt hjN)
      have hrows : (solStep2D c NtExp iEnd j s ((shelfK prof).drop iEnd)[j]).rows.toList =
          s.rows.toList ++ [S2D.Row.mk (c.dt * ofNat' iEnd + c.dt * ofNat' j)
            (((shelfK prof).drop iEnd)[j] - kelvin)
            ((solStep2D c NtExp iEnd j s ((shelfK prof).drop iEnd)[j]).T.map (· - kelvin))
            (solStep2D c NtExp iEnd j s ((shelfK prof).drop iEnd)[j]).w] := by
        simp only [solStep2D, solStepSt, hst, hmod, if_true, Array.toList_push]
      have hsteps : (solStep2D c NtExp iEnd j s ((shelfK prof).drop iEnd)[j]).steps.toList =
          s.steps.toList ++ [iEnd + j] := by
        simp only [solStep2D, solStepSt, hst, hmod, if_true, Array.toList_push]
      have hsize : (solStep2D c NtExp iEnd j s ((shelfK prof).drop iEnd)[j]).rows.size = s.rows.size + 1 := by
        simp only [solStep2D, solStepSt, hst, hmod, if_true, Array.size_push]
      refine ⟨?_, by rw [hsize]; omega, ?_, ?_, ?_⟩
      · rw [hsize]
        have : s.rows.size * S ≤ j / S * S := Nat.mul_le_mul_right S hcnt
        have h2 : j / S * S = j := Nat.div_mul_cancel (Nat.dvd_of_mod_eq_zero hmod)
        rw [Nat.add_mul, Nat.one_mul]; omega
      · rw [hrows, hsteps]
        apply aligned2_push inv.aligned
        refine ⟨hjl, ?_, ?_⟩
        · simp only [ofNat'_real]; push_cast; ring
        · simp only [hx, hkel, List.getD_eq_getElem?_getD, List.getElem?_eq_getElem hjl, Option.getD_some]
      · intro st hstm
        rw [hsteps, List.mem_append, List.mem_singleton] at hstm
        rcases hstm with h | h
        · have := inv.range st h; omega
        · omega
      · rw [hsteps]
        exact sorted_push _ _ inv.sorted (fun a ha => by have := inv.range a ha; omega)
    · have hrows : (solStep2D c NtExp iEnd j s ((shelfK prof).drop iEnd)[j]).rows = s.rows := by
        simp only [solStep2D, solStepSt, hst, hmod, if_false]
      have hsteps : (solStep2D c NtExp iEnd j s ((shelfK prof).drop iEnd)[j]).steps = s.steps := by
        simp only [solStep2D, solStepSt, hst, hmod, if_false]
      refine ⟨?_, by rw [hrows]; exact inv.cap, by rw [hrows, hsteps]; exact inv.aligned, ?_,
        by rw [hsteps]; exact inv.sorted⟩
      · rw [hrows]; have := inv.count; omega
      · intro st hstm; rw [hsteps] at hstm; have := inv.range st hstm; omega

open Snow.S2D in
/-- **buffer_in_range (2D)**: with a profile of at most `Nt_exp` samples every in-loop row index of
both stages is `< 10 000`; the run raises `IndexError` exactly when the extra post-nucleation row
meets a full cooling buffer. -/
theorem buffer_in_range_2D (p : Par ℝ) (f : Flags) (T0C : ℝ) (prof : List ℝ) (NtExp : ℕ)
    (hlen : prof.length ≤ NtExp) (Frand : ℝ) (cn : Option ℝ) :
    (run p f T0C prof NtExp Frand cn = .error "IndexError" ↔
      ∃ iEnd, (cool2D p f T0C prof NtExp Frand cn).1 = some iEnd ∧
        (st2D p f T0C prof NtExp iEnd).rows.size = NSave) ∧
    (∀ k, k < prof.length → (st2D p f T0C prof NtExp k).rows.size ≤ NSave) ∧
    (∀ iEnd s0, iEnd < prof.length → (solFin2D (mkCtx p f) NtExp prof iEnd s0).rows.size ≤ NSave) := by
  refine ⟨?_, fun k hk => (cool_inv_2D p f T0C prof NtExp hlen k hk).cap,
    fun iEnd s0 hi => (solid_inv_2D p f prof NtExp hlen iEnd hi s0).cap⟩
  rw [run_eq]
  rcases hc : cool2D p f T0C prof NtExp Frand cn with ⟨_ | iEnd, s⟩
  · simp
  · have hs : s = st2D p f T0C prof NtExp iEnd := by
      unfold cool2D at hc; exact loopUntil_snd_of_some _ _ _ _ _ _ hc
    have hi : iEnd < prof.length := by
      have : (cool2D p f T0C prof NtExp Frand cn).1 = some iEnd := by rw [hc]
      unfold cool2D at this
      rw [loopUntil_fst_some_iff] at this
      simpa [shelfK] using this.1
    have hcap := (cool_inv_2D p f T0C prof NtExp hlen iEnd hi).cap
    rw [← hs] at hcap
    simp only
    by_cases hfull : s.rows.size ≥ 10000
    · simp only [hfull, if_true, true_iff]
      exact ⟨iEnd, rfl, by rw [← hs]; unfold NSave at *; omega⟩
    · simp only [hfull, if_false]
      have hne : ¬ ∃ i, some iEnd = some i ∧ (st2D p f T0C prof NtExp i).rows.size = NSave := by
        rintro ⟨i, h1, h2⟩
        cases h1
        rw [← hs] at h2; unfold NSave at h2; omega
      rcases (solFin2D (mkCtx p f) NtExp prof iEnd s).iSol with _ | iS
      · simp only [hne, iff_false]; simp
      · simp only [hne, iff_false]; simp


/-! ### 2D: the histories -/

/-- the (ghost) loop indices of the rows of the four histories -/
def histSteps (iEnd : ℕ) (s : S2D.CoolSt ℝ) (sol : S2D.SolSt ℝ) : Array ℕ :=
  s.steps.push iEnd ++ sol.steps.extract 0 (sol.steps.size - 1)

theorem toList_extract0 {X : Type} (A : Array X) (n : ℕ) : (A.extract 0 n).toList = A.toList.take n := by
  rw [Array.toList_extract, List.extract_eq_take_drop]; simp

theorem aligned2_time_sorted {shelf : List ℝ} {dt : ℝ} (hdt : 0 ≤ dt) {rows : List (S2D.Row ℝ)}
    {steps : List ℕ} (ha : Aligned2 shelf dt rows steps) (hs : steps.Pairwise (· ≤ ·)) :
    rows.Pairwise (fun a b => a.time ≤ b.time) := by
  induction ha with
  | nil => exact List.Pairwise.nil
  | @cons r st rows steps hr _ ih =>
    rw [List.pairwise_cons] at hs ⊢
    refine ⟨?_, ih hs.2⟩
    intro b hb
    -- `b` is aligned with some later step
    have : ∃ st', st' ∈ steps ∧ RowOK2 shelf dt b st' := by
      rename_i hrest
      clear ih hs
      induction hrest with
      | nil => simp at hb
      | @cons r' st' rows' steps' hr' _ ih' =>
        rcases List.mem_cons.mp hb with h | h
        · exact ⟨st', by simp, h ▸ hr'⟩
        · obtain ⟨x, hx, hxr⟩ := ih' h
          exact ⟨x, List.mem_cons_of_mem _ hx, hxr⟩
    obtain ⟨st', hst', hb'⟩ := this
    rw [hr.2.1, hb'.2.1]
    exact mul_le_mul_of_nonneg_left (by exact_mod_cast hs.1 st' hst') hdt

open Snow.S2D in
/-- **history_aligned (2D)**: in a completed run the four histories have the same length
`i_save_end + 1 + (i_save − 1)`; they are the columns of one list of rows, each aligned with the
programme at its loop index (`time = dt·step`, `shelfTemp = profile[step]`); the loop indices are
non-decreasing. -/
theorem history_aligned_2D (p : Par ℝ) (f : Flags) (T0C : ℝ) (prof : List ℝ) (NtExp : ℕ)
    (hlen : prof.length ≤ NtExp) (Frand : ℝ) (cn : Option ℝ) (r : Result ℝ)
    (h : run p f T0C prof NtExp Frand cn = .ok r) :
    let s := st2D p f T0C prof NtExp r.iCool
    let sol := solFin2D (mkCtx p f) NtExp prof r.iCool s
    r.time.size = r.iSaveEnd + 1 + (sol.rows.size - 1) ∧
    r.shelf.size = r.time.size ∧ r.temp.size = r.time.size ∧ r.ice.size = r.time.size ∧
    r.time = (histRows (mkCtx p f) r.iCool s sol).map (fun row => row.time / 3600) ∧
    r.shelf = (histRows (mkCtx p f) r.iCool s sol).map (·.shelf) ∧
    Aligned2 (shelfK prof) (mkCtx p f).dt (histRows (mkCtx p f) r.iCool s sol).toList
      (histSteps r.iCool s sol).toList ∧
    (histSteps r.iCool s sol).toList.Pairwise (· ≤ ·) := by
  intro s sol
  obtain ⟨hc, _, _, iS, _, hr⟩ := run2D_cool p f T0C prof NtExp Frand cn r h
  have hi : r.iCool < prof.length := by
    unfold cool2D at hc
    rw [loopUntil_fst_some_iff] at hc
    simpa [shelfK] using hc.1
  have cinv := cool_inv_2D p f T0C prof NtExp hlen r.iCool hi
  have sinv := solid_inv_2D p f prof NtExp hlen r.iCool hi s
  have hkel : (kelvin : ℝ) = 273.15 := by simp only [kelvin, lit_real]; norm_num
  have hsz : sol.rows.size = sol.steps.size := by
    have := sinv.aligned.length_eq
    simpa using this
  have hfields : r.time = (histRows (mkCtx p f) r.iCool s sol).map (fun row => row.time / 3600) ∧
      r.shelf = (histRows (mkCtx p f) r.iCool s sol).map (·.shelf) ∧
      r.temp = (histRows (mkCtx p f) r.iCool s sol).map (·.temp) ∧
      r.ice = (histRows (mkCtx p f) r.iCool s sol).map (·.ice) ∧ r.iSaveEnd = s.rows.size := by
    rw [hr]
    simp only [mkResult, ofNat'_real, Nat.cast_ofNat]
    exact ⟨rfl, rfl, rfl, rfl, rfl⟩
  obtain ⟨ht, hsh, htemp, hice, hsave⟩ := hfields
  have hsize : (histRows (mkCtx p f) r.iCool s sol).size = s.rows.size + 1 + (sol.rows.size - 1) := by
    simp only [histRows, Array.size_append, Array.size_push, Array.size_extract]
    omega
  refine ⟨by rw [ht, hsave]; simpa using hsize, by rw [ht, hsh]; simp, by rw [ht, htemp]; simp,
    by rw [ht, hice]; simp, ht, hsh, ?_, ?_⟩
  · -- alignment
    simp only [histRows, histSteps, Array.toList_append, Array.toList_push, toList_extract0]
    apply List.rel_append
    · apply aligned2_push cinv.aligned
      refine ⟨by simpa [shelfK] using hi, by simp only [nucRow, ofNat'_real], ?_⟩
      simp only [nucRow, hkel]
      rw [cinv.last r.iCool rfl]
    · rw [← hsz]
      exact List.forall₂_take _ sinv.aligned
  · simp only [histSteps, Array.toList_append, Array.toList_push, toList_extract0]
    rw [List.pairwise_append]
    refine ⟨sorted_push _ _ cinv.sorted (fun a ha => by have := cinv.lt a ha; omega),
      (sinv.sorted).sublist (List.take_sublist _ _), ?_⟩
    intro a ha b hb
    have hb' := (sinv.range b (List.mem_of_mem_take hb)).1
    rw [List.mem_append, List.mem_singleton] at ha
    rcases ha with ha | ha
    · have := cinv.lt a ha; omega
    · omega

open Snow.S2D in
/-- **2D**: the time axis is non-decreasing -/
theorem time_nondecreasing_2D (p : Par ℝ) (f : Flags) (hdt : 0 ≤ (mkCtx p f).dt) (T0C : ℝ) (prof : List ℝ)
    (NtExp : ℕ) (hlen : prof.length ≤ NtExp) (Frand : ℝ) (cn : Option ℝ) (r : Result ℝ)
    (h : run p f T0C prof NtExp Frand cn = .ok r) :
    r.time.toList.Pairwise (· ≤ ·) := by
  obtain ⟨_, _, _, _, ht, _, hal, hso⟩ := history_aligned_2D p f T0C prof NtExp hlen Frand cn r h
  rw [ht, Array.toList_map, List.pairwise_map]
  refine (aligned2_time_sorted hdt hal hso).imp ?_
  intro a b hab
  exact div_le_div_of_nonneg_right hab (by norm_num)


open Snow.S2D in
/-- **t_sol on the published history (2D)**: every row the 2D solidification loop saved was written at
some solidification step `j` from that step's state: its `iceMassFraction` entries are `iceFrac` of that
state's field, and the fraction the 90 % test of step `j` used is `sigmaOf` of exactly these entries. -/
theorem published_solid_rows_2D (p : Par ℝ) (f : Flags) (T0C : ℝ) (prof : List ℝ) (NtExp iEnd : ℕ) :
    ∀ r ∈ (solFin2D (mkCtx p f) NtExp prof iEnd (st2D p f T0C prof NtExp iEnd)).rows.toList,
      ∃ j, j < ((shelfK prof).drop iEnd).length ∧
        r.ice = iceFrac (mkCtx p f) (solSt2D p f T0C prof NtExp iEnd j).T ∧
        (solSt2D p f T0C prof NtExp iEnd j).sg = sigmaOf (mkCtx p f) r.ice := by
  have := saved_rows_from_states (solStep2D (mkCtx p f) NtExp iEnd) (fun s => s.rows)
    (fun s' i x => S2D.Row.mk ((mkCtx p f).dt * ofNat' iEnd + (mkCtx p f).dt * ofNat' i) (x - kelvin)
      (s'.T.map (· - kelvin)) s'.w)
    (by
      intro i s x
      simp only [solStep2D, solStepSt]
      split_ifs
      · right; rfl
      · left; rfl)
    ((shelfK prof).drop iEnd) (solInit2D (mkCtx p f) (st2D p f T0C prof NtExp iEnd)) rfl
  intro r hr
  obtain ⟨j, hj, e⟩ := this r hr
  have hpost := stateAt_post (solStep2D (mkCtx p f) NtExp iEnd)
    (fun s => s.w = iceFrac (mkCtx p f) s.T ∧ s.sg = sigmaOf (mkCtx p f) s.w) _
    (solInit2D (mkCtx p f) (st2D p f T0C prof NtExp iEnd)) (fun _ _ _ => ⟨rfl, rfl⟩) j hj
  refine ⟨j, hj, ?_, ?_⟩
  · rw [e]; exact hpost.1
  · rw [e]; exact hpost.2


/-! ### 2D: the profile-length hypothesis discharged for the run the driver / `Snowing._run_2D` makes
(`profile = tempProfile(dt)`, `Nt_exp = ceil(t_tot/dt) + 1`) -/

theorem hlen_run2D (oc : OpCond ℝ) (dt : ℝ) : (profile oc dt).length ≤ nSteps oc.t_tot dt := by
  rw [Snow.C05.profile_length]

/-- … with equality: `tempProfile(dt)` has exactly `Nt_exp` samples -/
theorem len_run2D (oc : OpCond ℝ) (dt : ℝ) : (profile oc dt).length = nSteps oc.t_tot dt :=
  Snow.C05.profile_length oc dt

open Snow.S2D in
/-- **history_aligned for the 2D run itself** (no side hypothesis) -/
theorem history_aligned_run2D (p : Par ℝ) (f : Flags) (oc : OpCond ℝ) (Frand : ℝ) (cn : Option ℝ) (r : Result ℝ)
    (h : run p f oc.start (profile oc (dt p)) (nSteps oc.t_tot (dt p)) Frand cn = .ok r) :
    let prof := profile oc (dt p)
    let NtExp := nSteps oc.t_tot (dt p)
    let s := st2D p f oc.start prof NtExp r.iCool
    let sol := solFin2D (mkCtx p f) NtExp prof r.iCool s
    r.time.size = r.iSaveEnd + 1 + (sol.rows.size - 1) ∧
    r.shelf.size = r.time.size ∧ r.temp.size = r.time.size ∧ r.ice.size = r.time.size ∧
    Aligned2 (shelfK prof) (mkCtx p f).dt (histRows (mkCtx p f) r.iCool s sol).toList
      (histSteps r.iCool s sol).toList ∧
    (histSteps r.iCool s sol).toList.Pairwise (· ≤ ·) := by
  intro prof NtExp s sol
  obtain ⟨h1, h2, h3, h4, _, _, h7, h8⟩ :=
    history_aligned_2D p f oc.start prof NtExp (hlen_run2D oc (dt p)) Frand cn r h
  exact ⟨h1, h2, h3, h4, h7, h8⟩

open Snow.S2D in
/-- **time axis non-decreasing for the 2D run itself** -/
theorem time_nondecreasing_run2D (p : Par ℝ) (f : Flags) (hdt : 0 ≤ (mkCtx p f).dt) (oc : OpCond ℝ) (Frand : ℝ)
    (cn : Option ℝ) (r : Result ℝ)
    (h : run p f oc.start (profile oc (dt p)) (nSteps oc.t_tot (dt p)) Frand cn = .ok r) :
    r.time.toList.Pairwise (· ≤ ·) :=
  time_nondecreasing_2D p f hdt oc.start _ _ (hlen_run2D oc (dt p)) Frand cn r h


/-! ### the object on 2D outputs and after asynchronous studies (run() as repaired: K6 + K7) -/

open Snow.S2D in
/-- **2D, any earlier history of the object**: after `run()` either `results` and the history accessors
show the complete result of THIS run, or the run raised and every accessor raises – never partial data -/
theorem complete_or_raise_obj_2D (p : Par ℝ) (f : Flags) (T0C : ℝ) (prof : List ℝ) (NtExp : ℕ) (Frand : ℝ)
    (cn : Option ℝ) (o : SnowObj (Result ℝ) (Result ℝ)) :
    let o' := o.runFixed (out2D (run p f T0C prof NtExp Frand cn))
    (∃ r, run p f T0C prof NtExp Frand cn = .ok r ∧ o'.results = .ok (some r) ∧ o'.history = .ok (some r)) ∨
    ((run p f T0C prof NtExp Frand cn = .error "ValueError" ∨ run p f T0C prof NtExp Frand cn = .error "IndexError") ∧
      o'.results = .error "AssertionError" ∧ o'.history = .error "AssertionError") := by
  intro o'
  rcases complete_or_raise_2D p f T0C prof NtExp Frand cn with ⟨r, hr⟩ | hr | hr
  · left
    exact ⟨r, hr, by simp [o', hr, out2D, SnowObj.runFixed, SnowObj.results],
      by simp [o', hr, out2D, SnowObj.runFixed, SnowObj.history]⟩
  · right
    exact ⟨Or.inl hr, by simp [o', hr, out2D, SnowObj.runFixed, SnowObj.results],
      by simp [o', hr, out2D, SnowObj.runFixed, SnowObj.history]⟩
  · right
    exact ⟨Or.inr hr, by simp [o', hr, out2D, SnowObj.runFixed, SnowObj.results],
      by simp [o', hr, out2D, SnowObj.runFixed, SnowObj.history]⟩

/-- **asynchronous study that completed**: `results` is the table with one row per repetition and the
history accessors return `None` (the repetitions ran in worker processes) – that is the complete result of
such a study -/
theorem study_async_ok {S H : Type} (o : SnowObj (List S) H) (reps : List (RunOut S H))
    (he : asyncExc reps = none) :
    (o.runStudyAsync reps).results = .ok (some (reps.filterMap (·.stats))) ∧
      (o.runStudyAsync reps).history = .ok none := by
  simp [SnowObj.runStudyAsync, SnowObj.results, SnowObj.history, he]

/-- … with exactly `Nrep` rows when every repetition that returned handed back its row -/
theorem study_async_rows {S H : Type} (reps : List (RunOut S H)) (hrows : ∀ r ∈ reps, r.stats.isSome) :
    (reps.filterMap (·.stats)).length = reps.length := by
  induction reps with
  | nil => rfl
  | cons r rs ih =>
    have h1 := hrows r (by simp)
    obtain ⟨s, hs⟩ := Option.isSome_iff_exists.mp h1
    simp [List.filterMap_cons, hs, ih (fun x hx => hrows x (List.mem_cons_of_mem _ hx))]

/-- **asynchronous study in which a repetition raised**: `run()` raises and every accessor raises – never
a table with the failed seeds silently missing -/
theorem study_async_raises {S H : Type} (o : SnowObj (List S) H) (reps : List (RunOut S H)) (e : String)
    (he : asyncExc reps = some e) :
    (o.runStudyAsync reps).results = .error "AssertionError" ∧
      (o.runStudyAsync reps).history = .error "AssertionError" := by
  simp [SnowObj.runStudyAsync, SnowObj.results, SnowObj.history, he]

/-- a study raises iff some repetition raised -/
theorem asyncExc_isSome_iff {S H : Type} (reps : List (RunOut S H)) :
    (asyncExc reps).isSome ↔ ∃ r ∈ reps, r.exc.isSome := by
  unfold asyncExc
  constructor
  · intro h
    cases hf : reps.find? (fun r => r.exc.isSome) with
    | none => rw [hf] at h; simp at h
    | some r => exact ⟨r, List.mem_of_find?_eq_some hf, by simpa using List.find?_some hf⟩
  · rintro ⟨r, hr, he⟩
    cases hf : reps.find? (fun r => r.exc.isSome) with
    | none =>
      have := List.find?_eq_none.mp hf r hr
      simp [he] at this
    | some r' =>
      have := List.find?_some hf
      simpa using this


/-! ### `0 ≤ dt` discharged from the constants -/

open Snow.S2D in
/-- the 2D time step `dt = (0.4/alpha_max)·dz²dr²/(dr²+dz²)` is non-negative when `alpha_max ≥ 0` -/
theorem dt_grid2D_nonneg (p : Par ℝ) (f : Flags) (hα : 0 ≤ alphaMax p) : 0 ≤ (mkCtx p f).dt := by
  simp only [mkCtx, S2D.dt, lit_real]
  have e : ((4 : ℤ) : ℝ) / (10 : ℝ) ^ 1 = 4 / 10 := by norm_num
  rw [e]
  have h1 := mul_self_nonneg (dz p)
  have h2 := mul_self_nonneg (dr p)
  apply div_nonneg (mul_nonneg (div_nonneg (by norm_num) hα) (mul_nonneg h1 h2)) (add_nonneg h2 h1)

open Snow.S2D in
/-- **time axis non-decreasing for the 2D run itself** (`T0C := oc.start`, `profile := tempProfile(dt)`,
`Nt_exp := ceil(t_tot/dt)+1` – the run `Snowing._run_2D` makes), the only hypothesis being `alpha_max ≥ 0` -/
theorem time_nondecreasing_run2D_code (p : Par ℝ) (f : Flags) (hα : 0 ≤ alphaMax p) (oc : OpCond ℝ) (Frand : ℝ)
    (cn : Option ℝ) (r : Result ℝ)
    (h : run p f oc.start (profile oc (S2D.dt p)) (nSteps oc.t_tot (S2D.dt p)) Frand cn = .ok r) :
    r.time.toList.Pairwise (· ≤ ·) :=
  time_nondecreasing_run2D p f (dt_grid2D_nonneg p f hα) oc Frand cn r h

open Snow.S2D in
/-- `times_within_2D` with `0 ≤ dt` discharged -/
theorem times_within_2D_code (p : Par ℝ) (f : Flags) (hα : 0 ≤ alphaMax p) (T0C : ℝ) (prof : List ℝ)
    (NtExp : ℕ) (Frand : ℝ) (cn : Option ℝ) (r : Result ℝ) (h : run p f T0C prof NtExp Frand cn = .ok r) :
    r.iCool + r.iSol ≤ prof.length - 1 ∧ 0 ≤ r.tNuc ∧ 0 ≤ r.tSol ∧ r.tNuc ≤ r.tFr ∧
      r.tFr ≤ (mkCtx p f).dt * ((prof.length - 1 : ℕ) : ℝ) / 60 :=
  times_within_2D p f (dt_grid2D_nonneg p f hα) T0C prof NtExp Frand cn r h

/-- `times_within_1D` with `0 ≤ dt` discharged (`alpha_max = lambda_i/(cp_i·rho_l) ≥ 0`) -/
theorem times_within_1D_code (p : SnowIn ℝ) (Nz : ℕ) (old : Bool) (shelf : List ℝ) (iEnd iS : ℕ)
    (hα : 0 ≤ p.const.lambda_i / (p.const.cp_i * p.const.rho_l))
    (h1 : (run1DOn p Nz old shelf).NtCoolEnd = some iEnd) (h2 : (run1DOn p Nz old shelf).NtSolEnd = some iS) :
    iEnd + iS ≤ shelf.length - 1 ∧
      ∀ st, (run1DOn p Nz old shelf).stats = some st → ∀ a b, st.t_sol = some a → st.t_fr = some b →
        0 ≤ st.t_nuc ∧ 0 ≤ a ∧ st.t_nuc ≤ b ∧
          b ≤ (grid1D p Nz).dt * ((shelf.length - 1 : ℕ) : ℝ) / 60 :=
  times_within_1D p Nz old shelf iEnd iS (dt_grid1D_nonneg p Nz hα) h1 h2

/-- `time_nondecreasing_1D` for `run1D p` itself: no side hypothesis but `alpha_max ≥ 0` -/
theorem time_nondecreasing_run1D (p : SnowIn ℝ) (hα : 0 ≤ p.const.lambda_i / (p.const.cp_i * p.const.rho_l))
    (rows : Array (Row ℝ)) (h : (run1D p).hist = some rows) :
    rows.toList.Pairwise (fun a b => a.time ≤ b.time) :=
  time_nondecreasing_1D p NzCode false _ (hlen_run1D p NzCode) (dt_grid1D_nonneg p NzCode hα) rows h

end Snow.C13
